(* Proofs/AggregateProofs.v -- the twin of AggregatePlan (Model/Aggregate.v) computes exactly the
   reference semantics of Spec/Group.v: partition by tuple equality in first-occurrence order,
   aggregates as folds over each group's members in scan order, arithmetic on the per-group
   values, and the LIMIT slice (by the C08 theorems).  All statements are over an abstract float
   type with no laws. *)
From Coq Require Import List String Ascii ZArith Bool Arith Lia Decimal DecimalString DecimalZ.
From KV Require Import Base.Bytes Spec.Group Model.Limit Model.Aggregate Proofs.LimitProofs.
Import ListNotations.
Local Open Scope list_scope.

Set Implicit Arguments.

(* ================================================================= generic helpers *)

Lemma seq_opt_map_ext : forall X Y (f g : X -> option Y) l,
  (forall x, In x l -> f x = g x) -> seq_opt (map f l) = seq_opt (map g l).
Proof.
  induction l as [|x l IH]; intros H; cbn; [reflexivity|].
  rewrite (H x (or_introl eq_refl)), IH; [reflexivity|].
  intros y Hy. apply H. now right.
Qed.

Lemma seq_opt_map_map : forall X Y Z (f : X -> Y) (g : Y -> option Z) l,
  seq_opt (map g (map f l)) = seq_opt (map (fun x => g (f x)) l).
Proof. intros. now rewrite map_map. Qed.

Lemma fold_left_map_rows : forall X O (g : O -> X -> X) (ms : list O) (row : list X),
  fold_left (fun r o => map (g o) r) ms row = map (fun c => fold_left (fun c o => g o c) ms c) row.
Proof.
  induction ms as [|o ms IH]; intros row; cbn.
  - now rewrite map_id.
  - rewrite IH, map_map. reflexivity.
Qed.

Lemma fold_left_map_arg : forall X O V (upd : X -> V -> X) (arg : O -> V) (ms : list O) (x : X),
  fold_left (fun s o => upd s (arg o)) ms x = fold_left upd (map arg ms) x.
Proof. induction ms as [|o ms IH]; intros x; cbn; [reflexivity|apply IH]. Qed.

(* ================================================================= grouping: model fold = spec *)
Section GroupFold.
Variables (A K S : Type).
Variable keqb : K -> K -> bool.
Variable key : A -> K.
Variable init : A -> S.
Variable upd : S -> A -> S.
Hypothesis keqb_eq : forall a b, keqb a b = true <-> a = b.

(* the model's ordered map: rows in creation order, each with its key *)
Fixpoint glookup (k : K) (rows : list (K * S)) : option S :=
  match rows with
  | [] => None
  | (k', r) :: rows' => if keqb k' k then Some r else glookup k rows'
  end.
Fixpoint greplace (k : K) (r : S) (rows : list (K * S)) : list (K * S) :=
  match rows with
  | [] => []
  | (k', r') :: rows' => if keqb k' k then (k', r) :: rows' else (k', r') :: greplace k r rows'
  end.
Definition gstep (rows : list (K * S)) (a : A) : list (K * S) :=
  match glookup (key a) rows with
  | Some s => greplace (key a) (upd s a) rows
  | None => rows ++ [(key a, upd (init a) a)]
  end.
Definition gfold (l : list A) : list (K * S) := fold_left gstep l [].

(* the specification: state of a group = fold over its members from the first member *)
Definition grp_state (ms : list A) : option S :=
  match ms with
  | [] => None
  | m :: _ => Some (fold_left upd ms (init m))
  end.
Definition gentry (l : list A) (k : K) : K * option S := (k, grp_state (members keqb key k l)).
Definition gspec (l : list A) : list (K * option S) := map (gentry l) (group_keys keqb key l).
Definition glift (kr : K * S) : K * option S := (fst kr, Some (snd kr)).

Lemma keqb_refl : forall k, keqb k k = true.
Proof. intros. now apply keqb_eq. Qed.

Lemma keqb_neq : forall a b, a <> b -> keqb a b = false.
Proof.
  intros a b H. destruct (keqb a b) eqn:E; [|reflexivity]. apply keqb_eq in E. contradiction.
Qed.

Lemma kmem_In : forall k l, kmem keqb k l = true <-> In k l.
Proof.
  intros k l. unfold kmem. rewrite existsb_exists. split.
  - intros [x [Hx E]]. apply keqb_eq in E. now subst.
  - intros H. exists k. split; [assumption|apply keqb_refl].
Qed.

Lemma kmem_notIn : forall k l, kmem keqb k l = false <-> ~ In k l.
Proof.
  intros k l. rewrite <- kmem_In. destruct (kmem keqb k l); split; congruence.
Qed.

Lemma members_snoc : forall k l a,
  members keqb key k (l ++ [a]) = members keqb key k l ++ (if keqb (key a) k then [a] else []).
Proof. intros. unfold members. rewrite filter_app. cbn. now destruct (keqb (key a) k). Qed.

Lemma grp_state_snoc : forall ms a s, grp_state ms = Some s -> grp_state (ms ++ [a]) = Some (upd s a).
Proof.
  intros [|m ms] a s H; [discriminate|]. cbn in *. injection H as <-.
  now rewrite fold_left_app.
Qed.

Lemma distinct_snoc : forall ks k, distinct keqb (ks ++ [k]) = keep keqb (distinct keqb ks) k.
Proof. intros. unfold distinct. now rewrite fold_left_app. Qed.

Lemma group_keys_snoc : forall l a,
  group_keys keqb key (l ++ [a]) = keep keqb (group_keys keqb key l) (key a).
Proof. intros. unfold group_keys. rewrite map_app. cbn. apply distinct_snoc. Qed.

Lemma keep_In : forall acc k x, In x (keep keqb acc k) <-> In x acc \/ x = k.
Proof.
  intros acc k x. unfold keep. destruct (kmem keqb k acc) eqn:E.
  - apply kmem_In in E. split; [now left|]. intros [H|H]; [assumption|now subst].
  - rewrite in_app_iff. cbn. intuition.
Qed.

Lemma distinct_In : forall ks x, In x (distinct keqb ks) <-> In x ks.
Proof.
  intros ks. induction ks as [|k ks IH] using rev_ind; intros x.
  - cbn. tauto.
  - rewrite distinct_snoc, keep_In, IH, in_app_iff. cbn. intuition.
Qed.

Lemma NoDup_snoc : forall (l : list K) k, NoDup l -> ~ In k l -> NoDup (l ++ [k]).
Proof.
  induction l as [|x l IH]; intros k Hn Hk; cbn.
  - constructor; [intros []|constructor].
  - inversion Hn as [|? ? Hx Hl]; subst. constructor.
    + rewrite in_app_iff. cbn. intros [H|[H|[]]]; [contradiction|]. subst. apply Hk. now left.
    + apply IH; [assumption|]. intros H. apply Hk. now right.
Qed.

Lemma distinct_NoDup : forall ks, NoDup (distinct keqb ks).
Proof.
  intros ks. induction ks as [|k ks IH] using rev_ind.
  - constructor.
  - rewrite distinct_snoc. unfold keep. destruct (kmem keqb k (distinct keqb ks)) eqn:E; [assumption|].
    apply kmem_notIn in E. now apply NoDup_snoc.
Qed.

Lemma members_nil : forall k l, ~ In k (map key l) -> members keqb key k l = [].
Proof.
  induction l as [|a l IH]; cbn; intros H; [reflexivity|].
  rewrite keqb_neq; [apply IH; tauto|]. intros E. apply H. now left.
Qed.

Lemma gentry_snoc_other : forall l a k, k <> key a -> gentry (l ++ [a]) k = gentry l k.
Proof.
  intros l a k H. unfold gentry. rewrite members_snoc, keqb_neq, app_nil_r; [reflexivity|congruence].
Qed.

Lemma glift_keys : forall l rows keys, map glift rows = map (gentry l) keys -> map fst rows = keys.
Proof.
  intros l rows keys H. apply (f_equal (map fst)) in H. rewrite !map_map in H. cbn in H.
  now rewrite map_id in H.
Qed.

Lemma glookup_none : forall k rows, ~ In k (map fst rows) -> glookup k rows = None.
Proof.
  induction rows as [|[k' r] rows IH]; cbn; intros H; [reflexivity|].
  rewrite keqb_neq; [apply IH; tauto|]. intros E. apply H. now left.
Qed.

Lemma greplace_spec : forall l a rows keys,
  map glift rows = map (gentry l) keys -> NoDup keys -> In (key a) keys ->
  exists s, glookup (key a) rows = Some s /\
            map glift (greplace (key a) (upd s a) rows) = map (gentry (l ++ [a])) keys.
Proof.
  intros l a. induction rows as [|[k' s0] rows IH]; intros [|k0 keys] H Hnd Hin; try discriminate.
  - destruct Hin.
  - cbn in H. injection H as Hk Hs Ht. subst k0. inversion Hnd as [|? ? Hni Hnd']; subst.
    cbn [glookup greplace]. destruct (keqb k' (key a)) eqn:E.
    + apply keqb_eq in E. subst k'. exists s0. split; [reflexivity|].
      cbn [map]. f_equal.
      * unfold glift, gentry. cbn [fst snd]. rewrite members_snoc, keqb_refl. f_equal.
        symmetry. now apply grp_state_snoc.
      * rewrite Ht. apply map_ext_in. intros k Hk. symmetry. apply gentry_snoc_other.
        intros ->. contradiction.
    + assert (Hne : k' <> key a) by (intros ->; rewrite keqb_refl in E; discriminate).
      destruct Hin as [Hin|Hin]; [contradiction|].
      destruct (IH keys Ht Hnd' Hin) as [s [Hl Hr]]. exists s. split; [assumption|].
      cbn [map]. f_equal; [|assumption].
      unfold glift at 1. cbn [fst snd]. rewrite gentry_snoc_other by assumption.
      unfold gentry. now rewrite Hs.
Qed.

Lemma groups_nonempty : forall l g, In g (groups keqb key l) -> g <> [].
Proof.
  intros l g H. unfold groups in H. apply in_map_iff in H. destruct H as [k [<- Hk]].
  unfold group_keys in Hk. apply (proj1 (distinct_In _ _)) in Hk. apply in_map_iff in Hk.
  destruct Hk as [a [<- Ha]]. intros E.
  assert (Hin : In a (members keqb key (key a) l)).
  { unfold members. apply filter_In. split; [assumption|apply keqb_refl]. }
  rewrite E in Hin. destruct Hin.
Qed.

(* facts about the specification's partition itself *)
Lemma members_key : forall k l a, In a (members keqb key k l) -> key a = k /\ In a l.
Proof.
  intros k l a H. unfold members in H. apply filter_In in H. destruct H as [H1 H2].
  apply keqb_eq in H2. now split.
Qed.

(* all members of a group have the same key *)
Lemma groups_same_key : forall l g a b,
  In g (groups keqb key l) -> In a g -> In b g -> key a = key b.
Proof.
  intros l g a b Hg Ha Hb. unfold groups in Hg. apply in_map_iff in Hg.
  destruct Hg as [k [<- _]]. apply members_key in Ha. apply members_key in Hb.
  destruct Ha as [-> _], Hb as [-> _]. reflexivity.
Qed.

(* every element is in the group of its key *)
Lemma groups_cover : forall l a, In a l ->
  In (members keqb key (key a) l) (groups keqb key l) /\ In a (members keqb key (key a) l).
Proof.
  intros l a Ha. split.
  - unfold groups. apply in_map_iff. exists (key a). split; [reflexivity|].
    unfold group_keys. apply distinct_In. now apply in_map.
  - unfold members. apply filter_In. split; [assumption|apply keqb_refl].
Qed.

(* elements with equal keys are in the same group: the groups are pairwise disjoint *)
Lemma groups_equal_key : forall l g1 g2 a b,
  In g1 (groups keqb key l) -> In g2 (groups keqb key l) -> In a g1 -> In b g2 ->
  key a = key b -> g1 = g2.
Proof.
  intros l g1 g2 a b H1 H2 Ha Hb E. unfold groups in *.
  apply in_map_iff in H1. apply in_map_iff in H2.
  destruct H1 as [k1 [<- _]], H2 as [k2 [<- _]].
  apply members_key in Ha. apply members_key in Hb. destruct Ha as [Ha _], Hb as [Hb _].
  congruence.
Qed.

(* the groups' keys are pairwise different and in first-occurrence order of [map key l] *)
Lemma group_keys_NoDup : forall l, NoDup (group_keys keqb key l).
Proof. intros. apply distinct_NoDup. Qed.

Lemma groups_head_keys : forall l,
  map (fun g => option_map key (hd_error g)) (groups keqb key l) = map Some (group_keys keqb key l).
Proof.
  intros l. unfold groups. rewrite map_map. apply map_ext_in. intros k Hk.
  unfold group_keys in Hk. apply (proj1 (distinct_In _ _)) in Hk. apply in_map_iff in Hk.
  destruct Hk as [a [<- Ha]].
  destruct (members keqb key (key a) l) as [|m ms] eqn:E.
  - exfalso. destruct (groups_cover l a Ha) as [_ H]. rewrite E in H. destruct H.
  - cbn. f_equal. assert (H : In m (members keqb key (key a) l)) by (rewrite E; now left).
    now apply members_key in H.
Qed.

(* two elements share a group iff their keys are equal *)
Lemma groups_share_iff : forall l a b, In a l -> In b l ->
  ((exists g, In g (groups keqb key l) /\ In a g /\ In b g) <-> key a = key b).
Proof.
  intros l a b Ha Hb. split.
  - intros [g [Hg [Hag Hbg]]]. eapply groups_same_key; eassumption.
  - intros E. exists (members keqb key (key a) l).
    destruct (groups_cover l a Ha) as [H1 H2]. split; [assumption|split; [assumption|]].
    unfold members. apply filter_In. split; [assumption|]. rewrite E. apply keqb_refl.
Qed.

Theorem gfold_spec : forall l, map glift (gfold l) = gspec l.
Proof.
  intros l. induction l as [|a l IH] using rev_ind; [reflexivity|].
  unfold gfold in *. rewrite fold_left_app. cbn [fold_left].
  set (rows := fold_left gstep l []) in *.
  unfold gspec in *. rewrite group_keys_snoc. unfold keep, gstep.
  destruct (kmem keqb (key a) (group_keys keqb key l)) eqn:E.
  - apply kmem_In in E.
    destruct (@greplace_spec l a rows _ IH (distinct_NoDup _) E) as [s [Hl Hr]].
    now rewrite Hl.
  - apply kmem_notIn in E. rewrite glookup_none by (now rewrite (@glift_keys l rows _ IH)).
    rewrite !map_app. cbn [map]. f_equal.
    + rewrite IH. apply map_ext_in. intros k Hk. symmetry. apply gentry_snoc_other.
      intros ->. contradiction.
    + unfold glift, gentry. cbn [fst snd]. rewrite members_snoc, keqb_refl.
      rewrite members_nil; [reflexivity|].
      intros H. apply E. unfold group_keys. now apply distinct_In.
Qed.

End GroupFold.

(* ================================================================= grouping depends only on
   which pairs have equal keys, not on the keys themselves *)
Section Reps.
Variables (A K : Type).
Variable keqb : K -> K -> bool.
Variable key : A -> K.

(* first representatives: the first pair of every group *)
Definition rkeep (acc : list A) (a : A) : list A :=
  if existsb (fun b => keqb (key a) (key b)) acc then acc else acc ++ [a].
Definition reps (l : list A) : list A := fold_left rkeep l [].

Lemma existsb_map : forall X Y (f : X -> Y) (p : Y -> bool) l,
  existsb p (map f l) = existsb (fun x => p (f x)) l.
Proof. induction l as [|x l IH]; cbn; [reflexivity|now rewrite IH]. Qed.

Lemma group_keys_reps_gen : forall l acc,
  fold_left (keep keqb) (map key l) (map key acc) = map key (fold_left rkeep l acc).
Proof.
  induction l as [|a l IH]; intros acc; cbn; [reflexivity|].
  rewrite <- IH. f_equal. unfold keep, rkeep, kmem. rewrite existsb_map.
  destruct (existsb _ acc); [reflexivity|]. now rewrite map_app.
Qed.

Lemma group_keys_reps : forall l, group_keys keqb key l = map key (reps l).
Proof. intros. unfold group_keys, distinct, reps. apply (group_keys_reps_gen l []). Qed.

Lemma groups_reps : forall l,
  groups keqb key l = map (fun r => filter (fun a => keqb (key a) (key r)) l) (reps l).
Proof. intros. unfold groups. rewrite group_keys_reps, map_map. reflexivity. Qed.

Lemma rkeep_incl : forall L acc a, incl acc L -> In a L -> incl (rkeep acc a) L.
Proof.
  intros L acc a H Ha. unfold rkeep. destruct (existsb _ acc); [assumption|].
  intros x Hx. apply in_app_or in Hx. destruct Hx as [Hx|[<-|[]]]; auto.
Qed.
End Reps.

Section GroupEquiv.
Variables (A K K' : Type).
Variable keqb : K -> K -> bool.
Variable key : A -> K.
Variable keqb' : K' -> K' -> bool.
Variable key' : A -> K'.

Lemma reps_equiv_gen : forall L,
  (forall a b, In a L -> In b L -> keqb (key a) (key b) = keqb' (key' a) (key' b)) ->
  forall l acc, incl l L -> incl acc L ->
  fold_left (rkeep keqb key) l acc = fold_left (rkeep keqb' key') l acc.
Proof.
  intros L HL. induction l as [|a l IH]; intros acc Hl Hacc; cbn; [reflexivity|].
  assert (Ha : In a L) by (apply Hl; now left).
  assert (E : rkeep keqb key acc a = rkeep keqb' key' acc a).
  { unfold rkeep. replace (existsb (fun b => keqb (key a) (key b)) acc)
      with (existsb (fun b => keqb' (key' a) (key' b)) acc); [reflexivity|].
    clear - HL Ha Hacc. induction acc as [|b acc IHa]; cbn; [reflexivity|].
    rewrite IHa by (intros x Hx; apply Hacc; now right).
    rewrite (HL a b Ha (Hacc b (or_introl eq_refl))). reflexivity. }
  rewrite E. apply IH.
  - intros x Hx. apply Hl. now right.
  - apply rkeep_incl; assumption.
Qed.

Theorem groups_equiv : forall l,
  (forall a b, In a l -> In b l -> keqb (key a) (key b) = keqb' (key' a) (key' b)) ->
  groups keqb key l = groups keqb' key' l.
Proof.
  intros l H. rewrite !groups_reps. unfold reps.
  rewrite (reps_equiv_gen H (incl_refl l) (incl_nil_l l)).
  apply map_ext_in. intros r Hr. apply filter_ext_in. intros a Ha. apply H; [assumption|].
  assert (Hi : incl (fold_left (rkeep keqb' key') l []) l).
  { clear. assert (G : forall l0 acc, incl l0 l -> incl acc l -> incl (fold_left (rkeep keqb' key') l0 acc) l).
    { induction l0 as [|a l0 IH]; intros acc H1 H2; cbn; [assumption|].
      apply IH; [intros x Hx; apply H1; now right|].
      apply rkeep_incl; [assumption|apply H1; now left]. }
    apply G; [apply incl_refl|apply incl_nil_l]. }
  now apply Hi.
Qed.
End GroupEquiv.

(* ================================================================= the group key is injective *)
Local Open Scope string_scope.

Lemma sapp_assoc : forall a b c : string, (a ++ b) ++ c = a ++ (b ++ c).
Proof. induction a as [|x a IH]; intros; cbn; [reflexivity|now rewrite IH]. Qed.

Lemma sapp_nil_r : forall a : string, a ++ "" = a.
Proof. induction a as [|x a IH]; cbn; [reflexivity|now rewrite IH]. Qed.

Lemma dec_inj : forall a b : Z, dec a = dec b -> a = b.
Proof.
  intros a b H. unfold dec in H.
  assert (G : forall z, Z.to_int z <> Pos Nil /\ Z.to_int z <> Neg Nil).
  { intros [|p|p]; cbn; split; try discriminate;
      intros E; injection E as E; now apply DecimalPos.Unsigned.to_uint_nonnil in E. }
  assert (E : Some (Z.to_int a) = Some (Z.to_int b)).
  { rewrite <- (@NilZero.isi _ (proj1 (G a)) (proj2 (G a))).
    rewrite <- (@NilZero.isi _ (proj1 (G b)) (proj2 (G b))). now rewrite H. }
  injection E as E. rewrite <- (DecimalZ.of_to a), <- (DecimalZ.of_to b). now rewrite E.
Qed.

(* no ':' in a string *)
Fixpoint no_colon (s : string) : Prop :=
  match s with
  | EmptyString => True
  | String c s' => c <> ":"%char /\ no_colon s'
  end.

Lemma uint_no_colon : forall d, no_colon (NilEmpty.string_of_uint d).
Proof. induction d; cbn; try exact I; (split; [discriminate|assumption]). Qed.

Lemma nz_no_colon : forall d, no_colon (NilZero.string_of_uint d).
Proof.
  destruct d; try exact (uint_no_colon _). cbn. split; [discriminate|exact I].
Qed.

Lemma dec_nat_no_colon : forall n : nat, no_colon (dec (Z.of_nat n)).
Proof.
  intros n. unfold dec. destruct (Z.of_nat n) eqn:E; try lia; cbn [Z.to_int NilZero.string_of_int];
    apply nz_no_colon.
Qed.

Lemma split_at_colon : forall a b x y : string,
  no_colon a -> no_colon b -> a ++ ":" ++ x = b ++ ":" ++ y -> a = b /\ x = y.
Proof.
  induction a as [|c a IH]; intros [|d b] x y Ha Hb H; cbn in *.
  - injection H as H. now split.
  - injection H as H1 H2. destruct Hb as [Hb _]. now subst.
  - injection H as H1 H2. destruct Ha as [Ha _]. now subst.
  - injection H as H1 H2. subst d. destruct Ha as [_ Ha], Hb as [_ Hb].
    destruct (IH b x y Ha Hb H2) as [-> ->]. now split.
Qed.

Lemma sapp_same_length : forall a b x y : string,
  String.length a = String.length b -> a ++ x = b ++ y -> a = b /\ x = y.
Proof.
  induction a as [|c a IH]; intros [|d b] x y Hl H; cbn in *; try discriminate.
  - now split.
  - injection H as -> H. injection Hl as Hl. destruct (IH b x y Hl H) as [-> ->]. now split.
Qed.

(* one length-prefixed part, and the key of a tuple of rendered values *)
Definition key_part (s : bytes) : bytes := dec (Z.of_nat (String.length s)) ++ ":" ++ s.
Fixpoint encode_tuple (t : list bytes) : bytes :=
  match t with
  | [] => ""
  | s :: t' => key_part s ++ encode_tuple t'
  end.

Lemma key_part_inj : forall s1 s2 r1 r2 : bytes,
  key_part s1 ++ r1 = key_part s2 ++ r2 -> s1 = s2 /\ r1 = r2.
Proof.
  intros s1 s2 r1 r2 H. unfold key_part in H. rewrite !sapp_assoc in H.
  apply split_at_colon in H; try apply dec_nat_no_colon.
  destruct H as [Hd H]. apply dec_inj in Hd. apply Nat2Z.inj in Hd.
  now apply sapp_same_length.
Qed.

Theorem encode_tuple_inj : forall t1 t2, encode_tuple t1 = encode_tuple t2 -> t1 = t2.
Proof.
  induction t1 as [|s1 t1 IH]; intros [|s2 t2] H; cbn in H.
  - reflexivity.
  - exfalso. unfold key_part in H. rewrite !sapp_assoc in H.
    destruct (dec (Z.of_nat (String.length s2))); discriminate.
  - exfalso. unfold key_part in H. rewrite !sapp_assoc in H.
    destruct (dec (Z.of_nat (String.length s1))); discriminate.
  - apply key_part_inj in H. destruct H as [-> H]. f_equal. now apply IH.
Qed.

(* ================================================================= int64 arithmetic *)
Local Open Scope list_scope.

Lemma wrap64_add_l : forall a b : Z, wrap64 (wrap64 a + b) = wrap64 (a + b).
Proof.
  intros a b. unfold wrap64. remember (2 ^ 63)%Z as h. remember (2 ^ 64)%Z as m.
  f_equal. replace ((a + h) mod m - h + b + h)%Z with ((a + h) mod m + b)%Z by lia.
  rewrite Zplus_mod_idemp_l. f_equal. lia.
Qed.

Lemma wrap64_0 : wrap64 0 = 0%Z.
Proof. reflexivity. Qed.

Lemma wrap_sum : forall (l : list Z) (a : Z),
  fold_left (fun s x => wrap64 (s + x)) l (wrap64 a) = wrap64 (fold_left Z.add l a).
Proof.
  induction l as [|x l IH]; intros a; cbn; [reflexivity|].
  rewrite wrap64_add_l. apply IH.
Qed.

(* ================================================================= chunks_of *)
Lemma chunks_fuel_spec : forall X B, 1 <= B -> forall fuel (l : list X), List.length l <= fuel ->
  List.concat (chunks_fuel fuel B l) = l /\ Forall (@nonempty X) (chunks_fuel fuel B l).
Proof.
  intros X B HB. induction fuel as [|f IH]; intros l Hl.
  - destruct l; [split; [reflexivity|constructor]|cbn in Hl; lia].
  - destruct l as [|x l]; [split; [reflexivity|constructor]|].
    cbn [chunks_fuel]. destruct (IH (skipn B (x :: l))) as [Hc Hn].
    { rewrite skipn_length. cbn [List.length] in *. lia. }
    split.
    + cbn [List.concat]. rewrite Hc. apply firstn_skipn.
    + constructor; [|assumption]. destruct B; [lia|]. cbn. unfold nonempty. discriminate.
Qed.

Lemma chunks_of_spec : forall X B (l : list X), 1 <= B ->
  List.concat (chunks_of B l) = l /\ Forall (@nonempty X) (chunks_of B l).
Proof. intros. unfold chunks_of. now apply chunks_fuel_spec. Qed.

(* ================================================================= the twin against the spec *)
Section AggrProofs.
Variable F : Type.
Variable fadd fsub fmul fdiv : F -> F -> F.
Variable fltb : F -> F -> bool.
Variable fis0 : F -> bool.
Variable of_Z : Z -> F.
Variable to_Z : F -> Z.
Variable fmt_f : F -> bytes.
Variable bits_f : F -> bytes.
Variable json_f : F -> option bytes.
Variable parse_f : bytes -> option F.
Variable json_s : bytes -> bytes.

Notation value := (value F).
Notation m_convertToNumber := (convertToNumber of_Z to_Z parse_f).
Notation m_toString := (toString fmt_f).
Notation m_new_state := (new_state of_Z).
Notation m_update := (update fadd fltb of_Z to_Z fmt_f parse_f true).
Notation m_complete := (complete fdiv of_Z json_f json_s).
Notation m_math := (executeMathOp fadd fsub fmul fdiv fis0 of_Z).
Notation m_eval := (eval_aexpr fadd fsub fmul fdiv fis0 of_Z).
Notation m_bytes := (convertToBytes fmt_f).
Notation m_key := (getAggrKey fmt_f bits_f true).
Notation m_keybytes := (aggrKeyBytes fmt_f bits_f).
Notation m_create := (createAggrRow of_Z fmt_f).
Notation m_update_calls := (update_calls fadd fltb of_Z to_Z fmt_f parse_f true).
Notation m_update_row := (updateRowAggrFunc fadd fltb of_Z to_Z fmt_f parse_f true).
Notation m_step := (aggr_step fadd fltb of_Z to_Z fmt_f parse_f true).
Notation m_prepare := (prepare fadd fltb of_Z to_Z fmt_f bits_f parse_f true true).
Notation m_prepare_chunk := (prepare_chunk fadd fltb of_Z to_Z fmt_f bits_f parse_f true true).
Notation m_prepare_batch := (prepareBatch fadd fltb of_Z to_Z fmt_f bits_f parse_f true true).
Notation m_finish_col := (finish_col fadd fsub fmul fdiv fis0 of_Z json_f json_s).
Notation m_finish_row := (finish_row fadd fsub fmul fdiv fis0 of_Z json_f json_s).
Notation m_finish_all := (finish_all fadd fsub fmul fdiv fis0 of_Z json_f json_s).
Notation m_run_row := (run_row fadd fsub fmul fdiv fltb fis0 of_Z to_Z fmt_f bits_f json_f parse_f json_s true true).
Notation m_run_batch := (run_batch fadd fsub fmul fdiv fltb fis0 of_Z to_Z fmt_f bits_f json_f parse_f json_s true true).

Notation s_num_of := (num_of parse_f parse_int).
Notation s_as_int := (as_int to_Z).
Notation s_as_float := (as_float of_Z).
Notation s_text_of := (text_of fmt_f).
Notation s_sum := (spec_sum fadd of_Z to_Z parse_f parse_int).
Notation s_sum_num := (spec_sum_num fadd of_Z to_Z).
Notation s_avg := (spec_avg fadd fdiv of_Z to_Z parse_f parse_int).
Notation s_min := (spec_min fltb of_Z parse_f parse_int).
Notation s_max := (spec_max fltb of_Z parse_f parse_int).
Notation s_concat := (spec_group_concat fmt_f).
Notation s_json := (spec_json_arrayagg json_f json_s).
Notation s_arith := (spec_arith fadd fsub fmul fdiv fis0 of_Z).
Notation s_call := (spec_call fadd fdiv fltb of_Z to_Z fmt_f json_f parse_f parse_int json_s).
Notation s_eval := (spec_eval fadd fsub fmul fdiv fis0 of_Z).
Notation s_field := (spec_field fadd fsub fmul fdiv fltb fis0 of_Z to_Z fmt_f json_f parse_f parse_int json_s).
Notation s_row := (spec_row fadd fsub fmul fdiv fltb fis0 of_Z to_Z fmt_f json_f parse_f parse_int json_s).
Notation s_rows := (spec_rows fadd fsub fmul fdiv fltb fis0 of_Z to_Z fmt_f json_f parse_f parse_int json_s).
Notation s_result := (spec_result fadd fsub fmul fdiv fltb fis0 of_Z to_Z fmt_f json_f parse_f parse_int json_s).

(* ---------------------------------------------------------------- values *)
Lemma conv_num : forall v : value,
  m_convertToNumber v =
  (s_as_int (s_num_of v), s_as_float (s_num_of v), negb (is_int (s_num_of v))).
Proof.
  intros [s|s|z|f|[|]|]; cbn; try reflexivity;
    unfold convert_text, num_of_text; destruct (parse_int s); try reflexivity;
    destruct (parse_f s); reflexivity.
Qed.

Lemma bytes_text : forall v : value, m_bytes v = s_text_of v.
Proof. intros [s|s|z|f|[|]|]; reflexivity. Qed.

Lemma toString_text : forall v : value, m_toString v = concat_text_of fmt_f v.
Proof. intros [s|s|z|f|[|]|]; reflexivity. Qed.

(* ---------------------------------------------------------------- count *)
Lemma count_fold : forall (vals : list value) (n : nat),
  fold_left m_update vals (SCount F (wrap64 (Z.of_nat n))) =
  SCount F (wrap64 (Z.of_nat (n + List.length vals))).
Proof.
  induction vals as [|v vals IH]; intros n; cbn [fold_left List.length].
  - now rewrite Nat.add_0_r.
  - cbn [update]. rewrite wrap64_add_l.
    replace (Z.of_nat n + 1)%Z with (Z.of_nat (S n)) by lia.
    rewrite IH. do 3 f_equal. lia.
Qed.

Lemma count_spec : forall vals : list value,
  m_complete (fold_left m_update vals (m_new_state ACount)) = Some (spec_count vals).
Proof.
  intros vals. cbn [new_state]. change 0%Z with (wrap64 (Z.of_nat 0)) at 1.
  rewrite count_fold. reflexivity.
Qed.

(* ---------------------------------------------------------------- sum / avg *)
Lemma sum_fold : forall (vals : list value) (a : Z) (f : F) (b : bool),
  fold_left m_update vals (SSum (wrap64 a) f b) =
  SSum (wrap64 (fold_left Z.add (map s_as_int (map s_num_of vals)) a))
       (fold_left fadd (map s_as_float (map s_num_of vals)) f)
       (b || negb (forallb (@is_int F) (map s_num_of vals))).
Proof.
  induction vals as [|v vals IH]; intros a f b; cbn [fold_left map forallb].
  - now rewrite orb_false_r.
  - cbn [update]. rewrite conv_num, wrap64_add_l, IH. f_equal.
    destruct b, (is_int (s_num_of v)), (forallb (@is_int F) (map s_num_of vals)); reflexivity.
Qed.

Lemma sum_spec : forall vals : list value,
  m_complete (fold_left m_update vals (m_new_state ASum)) = Some (s_sum vals).
Proof.
  intros vals. cbn [new_state]. change 0%Z with (wrap64 0) at 1. rewrite sum_fold.
  cbn [complete orb]. unfold spec_sum, spec_sum_num, zsum.
  destruct (forallb (@is_int F) (map s_num_of vals)); reflexivity.
Qed.

Lemma avg_fold : forall (vals : list value) (a : Z) (f : F) (n : nat) (b : bool),
  fold_left m_update vals (SAvg (wrap64 a) f (wrap64 (Z.of_nat n)) b) =
  SAvg (wrap64 (fold_left Z.add (map s_as_int (map s_num_of vals)) a))
       (fold_left fadd (map s_as_float (map s_num_of vals)) f)
       (wrap64 (Z.of_nat (n + List.length vals)))
       (b || negb (forallb (@is_int F) (map s_num_of vals))).
Proof.
  induction vals as [|v vals IH]; intros a f n b; cbn [fold_left map forallb List.length].
  - now rewrite orb_false_r, Nat.add_0_r.
  - cbn [update]. rewrite conv_num, !wrap64_add_l.
    replace (Z.of_nat n + 1)%Z with (Z.of_nat (S n)) by lia. rewrite IH. f_equal.
    + do 2 f_equal. lia.
    + destruct b, (is_int (s_num_of v)), (forallb (@is_int F) (map s_num_of vals)); reflexivity.
Qed.

Lemma avg_spec : forall vals : list value,
  m_complete (fold_left m_update vals (m_new_state AAvg)) = Some (s_avg vals).
Proof.
  intros vals. cbn [new_state]. change (SAvg 0 (of_Z 0) 0 false)
    with (SAvg (wrap64 0) (of_Z 0) (wrap64 (Z.of_nat 0)) false).
  rewrite avg_fold. cbn [complete orb Nat.add]. unfold spec_avg, spec_sum_num, zsum.
  destruct (forallb (@is_int F) (map s_num_of vals)); reflexivity.
Qed.

(* ---------------------------------------------------------------- min / max *)
Definition min_state (m : num F) : astate F :=
  SMin (s_as_int m) (s_as_float m) (negb (is_int m)) true.
Definition max_state (m : num F) : astate F :=
  SMax (s_as_int m) (s_as_float m) (negb (is_int m)) true.

Lemma min_step : forall (m : num F) (v : value),
  m_update (min_state m) v = min_state (pick_min fltb of_Z m (s_num_of v)).
Proof.
  intros m v. unfold min_state. cbn [update]. rewrite conv_num. cbn [negb].
  unfold pick_min, num_ltb.
  destruct m as [x|x], (s_num_of v) as [y|y]; cbn [is_int negb orb andb as_int as_float];
    match goal with |- context [if ?c then _ else _] => destruct c end; reflexivity.
Qed.

Lemma max_step : forall (m : num F) (v : value),
  m_update (max_state m) v = max_state (pick_max fltb of_Z m (s_num_of v)).
Proof.
  intros m v. unfold max_state. cbn [update]. rewrite conv_num. cbn [negb].
  unfold pick_max, num_ltb.
  destruct m as [x|x], (s_num_of v) as [y|y]; cbn [is_int negb orb andb as_int as_float];
    match goal with |- context [if ?c then _ else _] => destruct c end; reflexivity.
Qed.

Lemma min_fold : forall (vals : list value) (m : num F),
  fold_left m_update vals (min_state m) =
  min_state (fold_left (pick_min fltb of_Z) (map s_num_of vals) m).
Proof.
  induction vals as [|v vals IH]; intros m; cbn [fold_left map]; [reflexivity|].
  rewrite min_step. apply IH.
Qed.

Lemma max_fold : forall (vals : list value) (m : num F),
  fold_left m_update vals (max_state m) =
  max_state (fold_left (pick_max fltb of_Z) (map s_num_of vals) m).
Proof.
  induction vals as [|v vals IH]; intros m; cbn [fold_left map]; [reflexivity|].
  rewrite max_step. apply IH.
Qed.

Lemma min_spec : forall vals : list value,
  m_complete (fold_left m_update vals (m_new_state AMin)) = Some (s_min vals).
Proof.
  intros [|v vals]; [reflexivity|]. cbn [new_state fold_left].
  assert (E : m_update (SMin 0 (of_Z 0) false false) v = min_state (s_num_of v)).
  { cbn [update]. rewrite conv_num. reflexivity. }
  rewrite E, min_fold. unfold spec_min. cbn [map].
  destruct (fold_left (pick_min fltb of_Z) (map s_num_of vals) (s_num_of v)); reflexivity.
Qed.

Lemma max_spec : forall vals : list value,
  m_complete (fold_left m_update vals (m_new_state AMax)) = Some (s_max vals).
Proof.
  intros [|v vals]; [reflexivity|]. cbn [new_state fold_left].
  assert (E : m_update (SMax 0 (of_Z 0) false false) v = max_state (s_num_of v)).
  { cbn [update]. rewrite conv_num. reflexivity. }
  rewrite E, max_fold. unfold spec_max. cbn [map].
  destruct (fold_left (pick_max fltb of_Z) (map s_num_of vals) (s_num_of v)); reflexivity.
Qed.

(* ---------------------------------------------------------------- group_concat / json_arrayagg *)
Lemma concat_fold : forall (vals : list value) sep items,
  fold_left m_update vals (SConcat F sep items) = SConcat F sep (items ++ map m_toString vals).
Proof.
  induction vals as [|v vals IH]; intros sep items; cbn [fold_left map].
  - now rewrite app_nil_r.
  - cbn [update]. rewrite IH, <- app_assoc. reflexivity.
Qed.

Lemma concat_spec : forall sep (vals : list value),
  m_complete (fold_left m_update vals (m_new_state (AGroupConcat sep))) = Some (s_concat sep vals).
Proof.
  intros sep vals. cbn [new_state]. rewrite concat_fold, app_nil_l. cbn [complete].
  unfold spec_group_concat. do 3 f_equal. apply map_ext. apply toString_text.
Qed.

Definition to_item (v : value) : jitem F :=
  match v with
  | VInt z => JInt F z
  | VFlt f => JFlt f
  | VBytes s => JStr F s
  | VBool b => JBool F b
  | _ => JStr F (m_toString v)
  end.

Lemma json_fold : forall (vals : list value) items,
  fold_left m_update vals (SJson items) = SJson (items ++ map to_item vals).
Proof.
  induction vals as [|v vals IH]; intros items; cbn [fold_left map].
  - now rewrite app_nil_r.
  - replace (m_update (SJson items) v) with (SJson (items ++ [to_item v])).
    + rewrite IH, <- app_assoc. reflexivity.
    + destruct v; reflexivity.
Qed.

Lemma json_item_of : forall v : value, json_item json_f json_s (to_item v) = json_of json_f json_s v.
Proof. intros [s|s|z|f|[|]|]; reflexivity. Qed.

Lemma json_spec : forall vals : list value,
  m_complete (fold_left m_update vals (m_new_state AJsonArrayAgg)) = s_json vals.
Proof.
  intros vals. cbn [new_state]. rewrite json_fold. cbn [complete app].
  unfold spec_json_arrayagg. rewrite app_nil_l, map_map.
  rewrite (map_ext _ _ json_item_of). reflexivity.
Qed.

(* ---------------------------------------------------------------- arithmetic around aggregates *)
Lemma math_spec : forall (l r : value) op, m_math l r op = s_arith op l r.
Proof.
  intros [s|s|z|f|[|]|] [s'|s'|z'|f'|[|]|] []; reflexivity.
Qed.

Lemma eval_spec : forall e (results : list value), m_eval e results = s_eval e results.
Proof.
  induction e as [z|f|i|op l IHl r IHr]; intros results; cbn; try reflexivity.
  rewrite IHl, IHr. destruct (s_eval l results); [|reflexivity].
  destruct (s_eval r results); [|reflexivity]. apply math_spec.
Qed.

(* ---------------------------------------------------------------- one aggregate call over a group *)
Definition call_arg (c : call) (o : pobs F) : value := nth (c_arg c) (p_a o) VNil.

Lemma call_spec : forall (g : list (pobs F)) (c : call),
  m_complete (fold_left (fun st o => m_update st (call_arg c o)) g (m_new_state (c_fun c))) = s_call g c.
Proof.
  intros g c. rewrite fold_left_map_arg. unfold spec_call. fold (call_arg c).
  destruct (c_fun c).
  - now rewrite count_spec.
  - now rewrite sum_spec.
  - now rewrite avg_spec.
  - now rewrite min_spec.
  - now rewrite max_spec.
  - apply json_spec.
  - now rewrite concat_spec.
Qed.

(* ---------------------------------------------------------------- one group row *)
Lemma update_calls_map : forall (calls : list call) (f : call -> astate F) (o : pobs F),
  m_update_calls calls (map f calls) o = map (fun c => m_update (f c) (call_arg c o)) calls.
Proof.
  induction calls as [|c calls IH]; intros f o; cbn; [reflexivity|]. now rewrite IH.
Qed.

Lemma update_calls_fold : forall (g : list (pobs F)) (calls : list call) (f : call -> astate F),
  fold_left (fun sts o => m_update_calls calls sts o) g (map f calls) =
  map (fun c => fold_left (fun st o => m_update st (call_arg c o)) g (f c)) calls.
Proof.
  induction g as [|o g IH]; intros calls f; cbn [fold_left]; [reflexivity|].
  rewrite update_calls_map. apply (IH calls (fun c => m_update (f c) (call_arg c o))).
Qed.

Definition col_upd (o : pobs F) (c : col F) : col F :=
  match c with
  | CKey _ => c
  | CAgg e calls sts => CAgg e calls (m_update_calls calls sts o)
  end.

Lemma col_fold_key : forall (g : list (pobs F)) v,
  fold_left (fun c o => col_upd o c) g (CKey v) = CKey v.
Proof. induction g as [|o g IH]; intros v; cbn; [reflexivity|apply IH]. Qed.

Lemma col_fold_agg : forall (g : list (pobs F)) e calls sts,
  fold_left (fun c o => col_upd o c) g (CAgg e calls sts) =
  CAgg e calls (fold_left (fun sts o => m_update_calls calls sts o) g sts).
Proof. induction g as [|o g IH]; intros e calls sts; cbn; [reflexivity|apply IH]. Qed.

Lemma row_fold : forall (g : list (pobs F)) (row : list (col F)),
  fold_left m_update_row g row = map (fun c => fold_left (fun c o => col_upd o c) g c) row.
Proof.
  induction g as [|o g IH]; intros row; cbn [fold_left].
  - now rewrite map_id.
  - rewrite IH. unfold updateRowAggrFunc. rewrite map_map. reflexivity.
Qed.

(* agg_values: the row of a group shows, for every field, the specified value *)
Theorem group_row_spec : forall (p : plan F) (m : pobs F) (rest : list (pobs F)),
  m_finish_row (fold_left m_update_row (m :: rest) (m_create p m)) = s_row p (m :: rest).
Proof.
  intros p m rest. set (g := m :: rest). rewrite row_fold.
  unfold finish_row, spec_row, createAggrRow. rewrite !map_map.
  apply seq_opt_map_ext. intros [k|e calls] _.
  - rewrite col_fold_key. cbn. now rewrite bytes_text.
  - rewrite col_fold_agg, update_calls_fold. cbn [finish_col spec_field].
    rewrite map_map.
    rewrite (map_ext _ _ (call_spec g)).
    destruct (seq_opt (map (s_call g) calls)); [apply eval_spec|reflexivity].
Qed.

(* ---------------------------------------------------------------- prepare = the generic fold *)
Lemma lookup_glookup : forall k (rows : aggr_rows F), lookup k rows = glookup String.eqb k rows.
Proof. induction rows as [|[k' r] rows IH]; cbn; [reflexivity|now rewrite IH]. Qed.

Lemma replace_greplace : forall k r (rows : aggr_rows F),
  replace k r rows = greplace String.eqb k r rows.
Proof. induction rows as [|[k' r'] rows IH]; cbn; [reflexivity|now rewrite IH]. Qed.

Lemma step_gstep : forall (p : plan F) rows o,
  m_step p rows (m_key p o) o = gstep String.eqb (m_key p) (m_create p) m_update_row rows o.
Proof.
  intros. unfold aggr_step, gstep. rewrite lookup_glookup.
  destruct (glookup String.eqb (m_key p o) rows); [apply replace_greplace|reflexivity].
Qed.

Lemma prepare_fold_gen : forall (p : plan F) l acc,
  fold_left (fun rows o => m_step p rows (m_key p o) o) l acc =
  fold_left (gstep String.eqb (m_key p) (m_create p) m_update_row) l acc.
Proof.
  induction l as [|o l IH]; intros acc; cbn [fold_left]; [reflexivity|].
  rewrite step_gstep. apply IH.
Qed.

Lemma prepare_gfold : forall (p : plan F) pairs,
  m_prepare p pairs = gfold String.eqb (m_key p) (m_create p) m_update_row pairs.
Proof. intros. unfold prepare, gfold. apply prepare_fold_gen. Qed.

(* prepareBatch (keys of a whole chunk first) builds the same rows as prepare *)
Lemma prepare_chunk_fold : forall (p : plan F) chunk rows,
  m_prepare_chunk p rows chunk = fold_left (fun rows o => m_step p rows (m_key p o) o) chunk rows.
Proof.
  intros p. unfold prepare_chunk. induction chunk as [|o chunk IH]; intros rows; cbn; [reflexivity|].
  apply IH.
Qed.

Theorem prepare_batch_row : forall (p : plan F) chunks,
  m_prepare_batch p chunks = m_prepare p (List.concat chunks).
Proof.
  intros p chunks. unfold prepareBatch, prepare. generalize (@nil (bytes * list (col F))).
  induction chunks as [|c chunks IH]; intros acc; cbn [fold_left List.concat]; [reflexivity|].
  rewrite fold_left_app, IH, prepare_chunk_fold. reflexivity.
Qed.

(* ---------------------------------------------------------------- the key separates tuples *)
(* the text a value contributes to the group key: its exact bits for a float, else its text *)
Definition key_text (v : value) : bytes :=
  match v with
  | VFlt f => bits_f f
  | _ => s_text_of v
  end.
Definition render_eqb (x y : value) : bool := String.eqb (key_text x) (key_text y).

Lemma keybytes_text : forall v : value, m_keybytes v = key_text v.
Proof. intros [s|s|z|f|[|]|]; reflexivity. Qed.

Lemma key_fold : forall (l : list value) (acc : bytes),
  fold_left (fun gkey v => appendAggrKeyPart true gkey (m_keybytes v)) l acc =
  (acc ++ encode_tuple (map m_keybytes l))%string.
Proof.
  induction l as [|v l IH]; intros acc; cbn [fold_left map encode_tuple].
  - now rewrite sapp_nil_r.
  - rewrite IH. unfold appendAggrKeyPart, fmt_d, key_part. now rewrite !sapp_assoc.
Qed.

Lemma slist_eqb_eq : forall a b : list bytes, list_eqb String.eqb a b = true <-> a = b.
Proof.
  unfold list_eqb. induction a as [|x a IH]; intros [|y b]; cbn; split; intros H;
    try reflexivity; try discriminate.
  - apply andb_true_iff in H. destruct H as [H1 H2]. apply String.eqb_eq in H1. apply IH in H2.
    now subst.
  - injection H as -> ->. rewrite String.eqb_refl. now apply IH.
Qed.

Lemma encode_eqb : forall t1 t2 : list bytes,
  String.eqb (encode_tuple t1) (encode_tuple t2) = list_eqb String.eqb t1 t2.
Proof.
  intros t1 t2. destruct (list_eqb String.eqb t1 t2) eqn:E.
  - apply slist_eqb_eq in E. subst. apply String.eqb_refl.
  - apply String.eqb_neq. intros H. apply encode_tuple_inj in H.
    apply slist_eqb_eq in H. congruence.
Qed.

Lemma list_eqb_text : forall l1 l2 : list value,
  list_eqb String.eqb (map m_keybytes l1) (map m_keybytes l2) = list_eqb render_eqb l1 l2.
Proof.
  unfold list_eqb. induction l1 as [|x l1 IH]; intros [|y l2]; cbn [map option_list_eqb]; try reflexivity.
  rewrite IH. unfold render_eqb. now rewrite !keybytes_text.
Qed.

Lemma keys_eq : forall (p : plan F) a b,
  String.eqb (m_key p a) (m_key p b) =
  tuple_eqb render_eqb (spec_tuple p a) (spec_tuple p b).
Proof.
  intros p a b. unfold getAggrKey, spec_tuple, tuple_eqb. destruct (pl_all p); [reflexivity|].
  rewrite !key_fold. cbn [String.append]. rewrite encode_eqb. apply list_eqb_text.
Qed.

(* group_partition: the prepared rows are, in order, the groups of the specification *)
Definition fin_opt (o : option (list (col F))) : option (list value) :=
  match o with Some r => m_finish_row r | None => None end.

Lemma prepare_groups : forall (p : plan F) pairs,
  map (fun kr => Some (snd kr)) (m_prepare p pairs) =
  map (grp_state (m_create p) m_update_row) (spec_groups render_eqb p pairs).
Proof.
  intros p pairs. rewrite prepare_gfold.
  pose proof (@gfold_spec _ _ _ String.eqb (m_key p) (m_create p) m_update_row String.eqb_eq pairs) as H.
  apply (f_equal (map snd)) in H. unfold gspec in H. rewrite !map_map in H. cbn [glift gentry snd] in H.
  etransitivity; [exact H|]. unfold spec_groups.
  rewrite <- (@groups_equiv _ _ _ String.eqb (m_key p) (tuple_eqb render_eqb) (spec_tuple p) pairs)
    by (intros; apply keys_eq).
  unfold groups. now rewrite map_map.
Qed.

Theorem finish_all_spec : forall (p : plan F) pairs,
  m_finish_all (m_prepare p pairs) = s_rows render_eqb p pairs.
Proof.
  intros p pairs. unfold finish_all, spec_rows.
  replace (map (fun kr => m_finish_row (snd kr)) (m_prepare p pairs))
    with (map fin_opt (map (fun kr => Some (snd kr)) (m_prepare p pairs)))
    by (rewrite map_map; reflexivity).
  rewrite prepare_groups, map_map. apply seq_opt_map_ext. intros g Hg.
  unfold spec_groups in Hg.
  rewrite <- (@groups_equiv _ _ _ String.eqb (m_key p) (tuple_eqb render_eqb) (spec_tuple p) pairs) in Hg
    by (intros; apply keys_eq).
  apply (@groups_nonempty _ _ String.eqb (m_key p) String.eqb_eq) in Hg. destruct g as [|m rest]; [congruence|].
  cbn [grp_state fin_opt]. apply group_row_spec.
Qed.

(* ---------------------------------------------------------------- who shares a row *)
Lemma list_eqb_text_of : forall l1 l2 : list value,
  list_eqb String.eqb (map key_text l1) (map key_text l2) = list_eqb render_eqb l1 l2.
Proof.
  unfold list_eqb. induction l1 as [|x l1 IH]; intros [|y l2]; cbn; try reflexivity.
  now rewrite IH.
Qed.

Definition rendered_tuple (p : plan F) (o : pobs F) : list bytes := map key_text (spec_tuple p o).

Lemma spec_groups_rendered : forall (p : plan F) pairs,
  spec_groups render_eqb p pairs = groups (list_eqb String.eqb) (rendered_tuple p) pairs.
Proof.
  intros p pairs. unfold spec_groups. apply groups_equiv. intros a b _ _.
  unfold tuple_eqb, rendered_tuple. symmetry. apply list_eqb_text_of.
Qed.

(* two scanned pairs are aggregated into the same row iff all their GROUP BY values are equal;
   in particular a GROUP BY expression selected as a field shows the value of every member *)
Theorem pairs_share_row_iff : forall (p : plan F) pairs a b, In a pairs -> In b pairs ->
  ((exists g, In g (spec_groups render_eqb p pairs) /\ In a g /\ In b g) <->
   rendered_tuple p a = rendered_tuple p b).
Proof.
  intros p pairs a b Ha Hb. rewrite spec_groups_rendered.
  apply (@groups_share_iff _ _ (list_eqb String.eqb) (rendered_tuple p) slist_eqb_eq); assumption.
Qed.

(* ---------------------------------------------------------------- whole statements *)
Theorem run_row_spec : forall (p : plan F) pairs,
  m_run_row p pairs = s_result render_eqb p pairs.
Proof.
  intros p pairs. unfold run_row, spec_result. rewrite finish_all_spec.
  destruct (s_rows render_eqb p pairs) as [rows|]; [|reflexivity].
  destruct (pl_limit p) as [n|]; [apply drain_row_slice|reflexivity].
Qed.

Theorem run_batch_spec : forall (p : plan F) B chunks, 1 <= B ->
  m_run_batch p B chunks = s_result render_eqb p (List.concat chunks).
Proof.
  intros p B chunks HB. unfold run_batch, spec_result.
  rewrite prepare_batch_row, finish_all_spec.
  destruct (s_rows render_eqb p (List.concat chunks)) as [rows|]; [|reflexivity].
  destruct (chunks_of_spec rows HB) as [Hc Hn].
  destruct (pl_limit p) as [n|].
  - destruct (drain_batch_slice B (pl_start p) n Hn) as [outs [Hd [Ho _]]].
    rewrite Hd. cbn [option_map]. now rewrite Ho, Hc.
  - now rewrite Hc.
Qed.

Corollary run_batch_row_agree : forall (p : plan F) B chunks, 1 <= B ->
  m_run_batch p B chunks = m_run_row p (List.concat chunks).
Proof. intros. now rewrite run_batch_spec, run_row_spec. Qed.

(* ---------------------------------------------------------------- typed equality of group values *)
(* The key is built from the RENDERED values ([key_text]).  For text, integers, booleans and nil
   the rendering is injective, so equality of renderings is equality of values; a float is
   rendered by its bits (after the fix: commit; the "%f" text is not injective), so under the
   premise that [bits_f] separates exactly what [feqb] separates the same holds for floats. *)
Variable feqb : F -> F -> bool.

Inductive same_kind : value -> value -> Prop :=
  | sk_text : forall x y, (exists s, x = VBytes s \/ x = VStr s) -> (exists t, y = VBytes t \/ y = VStr t) ->
                          same_kind x y
  | sk_int : forall a b, same_kind (VInt a) (VInt b)
  | sk_flt : forall a b, same_kind (VFlt a) (VFlt b)
  | sk_bool : forall a b, same_kind (VBool a) (VBool b)
  | sk_nil : same_kind VNil VNil.

(* the one law about floats that is needed, and only here: equal bits texts <-> [feqb] *)
Hypothesis bits_eq : forall a b : F, String.eqb (bits_f a) (bits_f b) = feqb a b.

Lemma render_eqb_typed : forall x y, same_kind x y -> render_eqb x y = value_eqb feqb x y.
Proof.
  intros x y H. destruct H as [x y [s [->| ->]] [t [->| ->]]|a b|a b|a b|]; try reflexivity;
    try (apply bits_eq).
  - unfold render_eqb. cbn. destruct (Z.eqb a b) eqn:E.
    + apply Z.eqb_eq in E. subst. apply String.eqb_refl.
    + apply String.eqb_neq. intros H. apply dec_inj in H. apply Z.eqb_neq in E. contradiction.
  - destruct a, b; reflexivity.
Qed.

Lemma tuple_eqb_typed : forall l1 l2, Forall2 same_kind l1 l2 ->
  tuple_eqb render_eqb l1 l2 = tuple_eqb (value_eqb feqb) l1 l2.
Proof.
  unfold tuple_eqb, list_eqb. induction 1 as [|x y l1 l2 H _ IH]; cbn; [reflexivity|].
  now rewrite IH, (render_eqb_typed H).
Qed.

(* group columns of one non-float kind each: grouping by typed equality is grouping by key *)
Theorem spec_groups_typed : forall (p : plan F) pairs,
  (forall a b, In a pairs -> In b pairs -> Forall2 same_kind (p_g a) (p_g b)) ->
  spec_groups render_eqb p pairs = spec_groups (value_eqb feqb) p pairs.
Proof.
  intros p pairs H. unfold spec_groups. apply groups_equiv. intros a b Ha Hb.
  unfold spec_tuple. destruct (pl_all p); [reflexivity|]. apply tuple_eqb_typed. now apply H.
Qed.

Corollary run_row_spec_typed : forall (p : plan F) pairs,
  (forall a b, In a pairs -> In b pairs -> Forall2 same_kind (p_g a) (p_g b)) ->
  m_run_row p pairs = s_result (value_eqb feqb) p pairs.
Proof.
  intros p pairs H. rewrite run_row_spec. unfold spec_result, spec_rows.
  now rewrite (@spec_groups_typed p pairs H).
Qed.

(* ---------------------------------------------------------------- the specification on integers *)
(* sanity of Spec/Group.v: over integer arguments sum / min / max are the mathematical ones *)
Lemma num_of_ints : forall zs : list Z, map s_num_of (map (@VInt F) zs) = map (@NInt F) zs.
Proof. intros. rewrite map_map. reflexivity. Qed.

Lemma spec_sum_ints : forall zs : list Z,
  s_sum (map (@VInt F) zs) = VInt (wrap64 (fold_left Z.add zs 0%Z)).
Proof.
  intros zs. unfold spec_sum, spec_sum_num. rewrite num_of_ints.
  replace (forallb (@is_int F) (map (@NInt F) zs)) with true
    by (induction zs; cbn; [reflexivity|assumption]).
  cbn [value_of_num]. unfold zsum. rewrite map_map. cbn [as_int]. now rewrite map_id.
Qed.

Lemma pick_min_ints : forall (zs : list Z) (m : Z),
  fold_left (pick_min fltb of_Z) (map (@NInt F) zs) (NInt m) = NInt (fold_left Z.min zs m).
Proof.
  induction zs as [|z zs IH]; intros m; cbn [fold_left map]; [reflexivity|].
  unfold pick_min at 2. cbn [num_ltb].
  destruct (Z.ltb_spec z m).
  - rewrite Z.min_r by lia. apply IH.
  - rewrite Z.min_l by lia. apply IH.
Qed.

Lemma pick_max_ints : forall (zs : list Z) (m : Z),
  fold_left (pick_max fltb of_Z) (map (@NInt F) zs) (NInt m) = NInt (fold_left Z.max zs m).
Proof.
  induction zs as [|z zs IH]; intros m; cbn [fold_left map]; [reflexivity|].
  unfold pick_max at 2. cbn [num_ltb].
  destruct (Z.ltb_spec m z).
  - rewrite Z.max_r by lia. apply IH.
  - rewrite Z.max_l by lia. apply IH.
Qed.

Lemma spec_min_ints : forall (z : Z) (zs : list Z),
  s_min (map (@VInt F) (z :: zs)) = VInt (fold_left Z.min zs z).
Proof.
  intros z zs. unfold spec_min. rewrite num_of_ints. cbn [map]. now rewrite pick_min_ints.
Qed.

Lemma spec_max_ints : forall (z : Z) (zs : list Z),
  s_max (map (@VInt F) (z :: zs)) = VInt (fold_left Z.max zs z).
Proof.
  intros z zs. unfold spec_max. rewrite num_of_ints. cbn [map]. now rewrite pick_max_ints.
Qed.

End AggrProofs.

(* ================================================================= witnesses *)
(* two toy instances of the float type, enough to run the twin inside theorems: [unit] (no
   floats occur) and fixed-point tenths in Z (5.9 is 59) *)
Definition u2 (_ _ : unit) : unit := tt.
Definition run_row_unit (fix_key fix_minmax : bool) :=
  @run_row unit u2 u2 u2 u2 (fun _ _ => false) (fun _ => false) (fun _ => tt) (fun _ => 0%Z)
           (fun _ => "f"%string) (fun _ => "b"%string) (fun _ => None) (fun _ => None) (fun s => s) fix_key fix_minmax.
Definition spec_unit :=
  @spec_result unit u2 u2 u2 u2 (fun _ _ => false) (fun _ => false) (fun _ => tt) (fun _ => 0%Z)
               (fun _ => "f"%string) (fun _ => None) (fun _ => None) parse_int (fun s => s)
               (@render_eqb unit (fun _ => "f"%string) (fun _ => "b"%string)).

Definition tenths_run_row (fix_key fix_minmax : bool) :=
  @run_row Z Z.add Z.sub (fun a b => (a * b / 10)%Z) (fun a b => (a * 10 / b)%Z) Z.ltb (Z.eqb 0)
           (fun z => (10 * z)%Z) (fun f => Z.quot f 10) dec dec (fun _ => None) (fun _ => None) (fun s => s)
           fix_key fix_minmax.
Definition tenths_run_batch (fix_key fix_minmax : bool) :=
  @run_batch Z Z.add Z.sub (fun a b => (a * b / 10)%Z) (fun a b => (a * 10 / b)%Z) Z.ltb (Z.eqb 0)
           (fun z => (10 * z)%Z) (fun f => Z.quot f 10) dec dec (fun _ => None) (fun _ => None) (fun s => s)
           fix_key fix_minmax.
Definition tenths_spec :=
  @spec_result Z Z.add Z.sub (fun a b => (a * b / 10)%Z) (fun a b => (a * 10 / b)%Z) Z.ltb (Z.eqb 0)
               (fun z => (10 * z)%Z) (fun f => Z.quot f 10) dec (fun _ => None) (fun _ => None)
               parse_int (fun s => s) (@render_eqb Z dec dec).

(* D17: with the pinned key (plain concatenation) ('a','bc') and ('ab','c') share a row *)
Definition d17_plan : plan unit :=
  Plan false [FKey 0; FKey 1; FAgg (AECall 0) [Call ACount 0]] 0 None.
Definition d17_pairs : list (pobs unit) :=
  [PObs [VBytes "a"; VBytes "bc"] [VBytes "a"; VBytes "bc"] [];
   PObs [VBytes "ab"; VBytes "c"] [VBytes "ab"; VBytes "c"] []]%string.

Lemma group_partition_refuted :
  run_row_unit false true d17_plan d17_pairs <> spec_unit d17_plan d17_pairs /\
  run_row_unit true true d17_plan d17_pairs = spec_unit d17_plan d17_pairs.
Proof. split; [vm_compute; discriminate|vm_compute; reflexivity]. Qed.

(* min/max over 5 and 5.9 with the pinned comparison of truncated values *)
Definition mm_plan : plan Z :=
  Plan true [FAgg (AECall 0) [Call AMax 0]; FAgg (AECall 0) [Call AMin 1]] 0 None.
Definition mm_pairs : list (pobs Z) :=
  [PObs [] [] [VInt 5; VInt (-5)]; PObs [] [] [VFlt 59%Z; VFlt (-59)%Z]].

Lemma minmax_mixed_refuted :
  tenths_run_row true false mm_plan mm_pairs = Some [[VInt 5; VInt (-5)]] /\
  tenths_spec mm_plan mm_pairs = Some [[VFlt 59%Z; VFlt (-59)%Z]] /\
  tenths_run_row true true mm_plan mm_pairs = tenths_spec mm_plan mm_pairs.
Proof. repeat split; vm_compute; reflexivity. Qed.

(* a non-trivial run: three groups (two of them colliding under concatenation), LIMIT 1,2,
   batches of 2, aggregates with arithmetic *)
Definition ex_plan : plan Z :=
  Plan false [FKey 0; FAgg (AECall 0) [Call ACount 0];
              FAgg (AEBin Plus (AECall 0) (AEInt 1)) [Call ASum 0];
              FAgg (AECall 0) [Call (AGroupConcat ",") 0]] 1 (Some 2).
Definition ex_pairs : list (pobs Z) :=
  [PObs [VBytes "a"; VBytes "bc"] [VBytes "a"] [VInt 1];
   PObs [VBytes "ab"; VBytes "c"] [VBytes "ab"] [VInt 2];
   PObs [VBytes "a"; VBytes "bc"] [VBytes "a"] [VInt 3];
   PObs [VBytes "b"; VBytes ""] [VBytes "b"] [VFlt 25%Z];
   PObs [VBytes "ab"; VBytes "c"] [VBytes "ab"] [VInt 5]]%string.

Lemma ex_run :
  tenths_run_batch true true ex_plan 2 [firstn 2 ex_pairs; skipn 2 ex_pairs] =
  Some [[VBytes "ab"; VInt 2; VInt 8; VStr "2,5"]; [VBytes "b"; VInt 1; VFlt 35%Z; VStr "25"]]%string.
Proof. vm_compute. reflexivity. Qed.

(* combined statements used by Properties/C09.v *)
Lemma groups_first_occurrence :
  forall (A K : Type) (keqb : K -> K -> bool) (key : A -> K),
  (forall a b, keqb a b = true <-> a = b) ->
  forall l, NoDup (group_keys keqb key l) /\
            map (fun g => option_map key (hd_error g)) (groups keqb key l) = map Some (group_keys keqb key l).
Proof.
  intros A K keqb key H l. split; [apply group_keys_NoDup; assumption|apply groups_head_keys; assumption].
Qed.

Lemma spec_ints :
  forall (F : Type) (fadd : F -> F -> F) (fltb : F -> F -> bool) (of_Z : Z -> F) (to_Z : F -> Z)
         (parse_f : bytes -> option F) (z : Z) (zs : list Z),
  spec_sum fadd of_Z to_Z parse_f parse_int (map (@VInt F) (z :: zs)) = VInt (wrap64 (fold_left Z.add (z :: zs) 0%Z)) /\
  spec_min fltb of_Z parse_f parse_int (map (@VInt F) (z :: zs)) = VInt (fold_left Z.min zs z) /\
  spec_max fltb of_Z parse_f parse_int (map (@VInt F) (z :: zs)) = VInt (fold_left Z.max zs z).
Proof.
  intros. split; [apply spec_sum_ints|split; [apply spec_min_ints|apply spec_max_ints]].
Qed.
