(* Proofs/AliasTextProofs.v -- C05 from the query text (Model/AliasText.v, Model/PipelineS.v).

     1. the text pipeline IS the pipeline restarted from the statement Parser.Parse built
        (text_is_run_select), and expanded_text_st is that pipeline on expand_stmt of it
     2. what expand_stmt keeps (names, ORDER BY, GROUP BY, LIMIT, number of fields)
     3. row_shape_text_partial: one column per announced field name, column j = value of the
        checked and folded field j on the row's pair (projection node, row mode)
     4. alias_text_is_expansion_partial: the rows an accepted text returns are the rows of the
        trees its plan evaluates WITH EVERY REFERENCE REPLACED BY ITS DEFINITION (Model/Cache.v
        expand on the checked and folded trees): the pairs on which the expanded WHERE tree is
        true, each column the value of the expanded field (projection node, row mode) *)
From Coq Require Import List String ZArith Bool Arith Lia.
Import ListNotations.
From KV Require Import Base.Bytes Base.Num Model.Token Model.Ast Model.Value Model.Eval Model.EvalVec
                       Model.Lexer Model.ExprParser Model.StmtParser Model.ParseCheck Model.Fold
                       Model.FilterOpt Model.Storage Model.ScanIO Model.ScanSem Model.ScanProj
                       Model.SelectPlans Model.Pipeline Model.PipelineW Model.PipelineS
                       Model.Cache Model.AliasText.
From KV Require Model.Checker Model.FoldStmt Model.Order.
From KV Require Import Proofs.CacheProofs Proofs.PipelineSProofs.
Local Open Scope string_scope.
Local Open Scope list_scope.

(* ================================================================ 2. what expand_stmt keeps *)

Lemma expand_n_length k raw : List.length (expand_n k raw) = List.length raw.
Proof. destruct k; cbn [expand_n]; [reflexivity | apply map_length]. Qed.

Lemma expand_n_names k raw : map fst (expand_n k raw) = map fst raw.
Proof.
  destruct k; cbn [expand_n]; [reflexivity|]. rewrite map_map. cbn [fst]. reflexivity.
Qed.

Lemma expand_stmt_keeps x :
  StmtParser.s_names (expand_stmt x) = StmtParser.s_names x /\
  StmtParser.s_order (expand_stmt x) = StmtParser.s_order x /\
  StmtParser.s_group (expand_stmt x) = StmtParser.s_group x /\
  StmtParser.s_limit (expand_stmt x) = StmtParser.s_limit x /\
  StmtParser.s_all (expand_stmt x) = StmtParser.s_all x /\
  List.length (StmtParser.s_fields (expand_stmt x)) = List.length (StmtParser.s_fields x).
Proof.
  unfold expand_stmt.
  destruct (Nat.eqb (List.length (StmtParser.s_names x)) (List.length (StmtParser.s_fields x))) eqn:E; cbn [negb].
  - cbn. repeat split. unfold expand_defs. rewrite map_length, expand_n_length, combine_length.
    apply Nat.eqb_eq in E. lia.
  - repeat split.
Qed.

Section AliasTextProofs.
Variable fo : fops.
Variable re : bytes -> bytes -> Value.res bool.
Variable fmt_v : F fo -> string.
Variable ag : aggops fo.
Variable pi pf : bytes -> option Z.

Notation front_s := (front_s fo).
Notation plan_stmt_text := (plan_stmt_text fo re fmt_v).
Notation select_stmt_text_st := (select_stmt_text_st fo re fmt_v ag pi pf).
Notation select_stmt_text := (select_stmt_text fo re fmt_v ag pi pf).
Notation run_select_st := (run_select_st fo re fmt_v ag pi pf).
Notation expanded_text_st := (expanded_text_st fo re fmt_v ag pi pf).
Notation eval := (eval fo re).

(* ================================================================ 1. the text and its statement *)

Lemma front_s_front_of_select q x fields w :
  front_s q = STOk (x, fields, w) -> front_of_select fo x = STOk (x, fields, w).
Proof.
  unfold PipelineS.front_s, front_of_select. intros H.
  destruct (pc_oom fo q (lex q)); [discriminate|].
  destruct (head_kind (lex q)); try discriminate.
  destruct (parse_real fo (lex q)) as [s|z| |]; try discriminate.
  destruct s as [x'| | |]; try discriminate.
  destruct (to_check_s x') as [c|] eqn:Ec; [|discriminate].
  assert (Hx : x' = x).
  { apply stbind_ok in H. destruct H as (c2 & _ & H). apply stbind_ok in H. destruct H as (u & _ & H).
    destruct c2; try discriminate. injection H as -> _ _. reflexivity. }
  subst x'. rewrite Ec. exact H.
Qed.

(* NewOptimizer(q).BuildPlan + drain = the pipeline from the statement Parser.Parse built *)
Theorem text_is_run_select q x fields w d m :
  front_s q = STOk (x, fields, w) ->
  select_stmt_text_st q d m = run_select_st x d m.
Proof.
  intros H. unfold PipelineS.select_stmt_text_st, PipelineS.plan_stmt_text, AliasText.run_select_st, plan_select_st.
  rewrite H, (front_s_front_of_select q x fields w H). reflexivity.
Qed.

Theorem expanded_text_is_run_select q x fields w d m :
  front_s q = STOk (x, fields, w) ->
  expanded_text_st q d m = run_select_st (expand_stmt x) d m.
Proof. intros H. unfold AliasText.expanded_text_st. rewrite H. reflexivity. Qed.

(* ================================================================ 3. the shape of a row *)

Lemma sproj_not_agg q pl :
  plan_stmt_text q = STOk pl -> sp_shape fo pl = SProj -> is_agg fo pl = false.
Proof.
  intros Ep Esh. destruct (plan_stmt_text_inv fo re fmt_v q pl Ep) as (_ & _ & _ & _ & _ & _ & _ & _ & Eb).
  rewrite Esh in Eb. unfold build_final_plan in Eb. destruct (is_agg fo pl); [|reflexivity]. cbn [negb] in Eb.
  destruct (SelectPlans.s_limit (F fo) _) as [[s n]|], (SelectPlans.s_order (F fo) _) as [os0|]; discriminate Eb.
Qed.

Lemma Forall2_length_l {X Y} (P : X -> Y -> Prop) l l' : Forall2 P l l' -> List.length l' = List.length l.
Proof. induction 1; cbn; congruence. Qed.

Lemma Forall2_Forall_r {X Y} (P : X -> Y -> Prop) (Q : Y -> Prop) l l' :
  (forall a b, P a b -> Q b) -> Forall2 P l l' -> Forall Q l'.
Proof. intros HPQ H. induction H; constructor; eauto. Qed.

(* SELECT fields WHERE P (projection node; no aggregate, no ORDER BY node, no LIMIT), row mode:
   every returned row has exactly one column per announced field name, and -- in scan order, one
   row per pair on which the WHERE tree is true -- column j is the value of the checked and
   folded field j on that row's pair. *)
Theorem row_shape_text_partial q d pl out :
  plan_stmt_text q = STOk pl ->
  sp_shape fo pl = SProj ->
  select_stmt_text q d MRow = TOk out ->
  let c := sp_q fo pl in
  let pairs := somes (scan_slots (sp_scan fo pl) d) in
  Forall (fun row => List.length row = List.length (SelectPlans.s_names (F fo) (q_stmt fo c))) out /\
  Forall2 (row_of_fields fo re ag (q_fields fo c))
          (filter (fun kv => match filter_row fo re (fst kv) (snd kv) (q_where fo c) with
                             | Value.Ok true => true | _ => false end) pairs) out.
Proof.
  intros Ep Esh H. cbv zeta.
  destruct (select_fields_text_values fo re fmt_v ag pi pf q d pl out Ep Esh H) as (_ & H2).
  split; [|exact H2].
  pose proof (sproj_not_agg q pl Ep Esh) as Ha.
  destruct (plan_stmt_text_inv fo re fmt_v q pl Ep) as (_ & _ & _ & Ef & En & _).
  rewrite (Ef Ha) in H2. rewrite En. unfold plan_names.
  eapply Forall2_Forall_r; [|exact H2]. intros kv row Hr. cbv beta in Hr.
  destruct (StmtParser.s_all (sp_select fo pl)); cbn [row_of_fields] in Hr.
  - subst row. reflexivity.
  - apply Forall2_length_l in Hr. rewrite Hr. rewrite !map_length. reflexivity.
Qed.

(* ================================================================ 4. names are abbreviations *)

Definition expand_fields (fs : option (list expr)) : option (list expr) := option_map (map expand) fs.

Definition no_list_alias_fields (fs : option (list expr)) : bool :=
  match fs with Some l => forallb no_list_alias l | None => true end.

Lemma eval_expand_ok k v e x :
  no_list_alias e = true -> eval k v e = Value.Ok x -> eval k v (expand e) = Value.Ok x.
Proof.
  intros Hn He. pose proof (expand_preserves_eval fo re k v e Hn) as Hs. rewrite He in Hs.
  unfold same_outcome in Hs. destruct (eval k v (expand e)); try contradiction. now subst.
Qed.

Lemma filter_row_expand_ok k v e b :
  no_list_alias e = true -> filter_row fo re k v e = Value.Ok b -> filter_row fo re k v (expand e) = Value.Ok b.
Proof.
  unfold filter_row. intros Hn H. destruct (eval k v e) as [x| | |] eqn:Ee; try discriminate H.
  rewrite (eval_expand_ok k v e x Hn Ee). cbn [Value.bind] in *. destruct x; try discriminate H. exact H.
Qed.

Lemma row_of_fields_expand fs kv row :
  no_list_alias_fields fs = true ->
  row_of_fields fo re ag fs kv row -> row_of_fields fo re ag (expand_fields fs) kv row.
Proof.
  destruct fs as [l|]; cbn [row_of_fields expand_fields option_map no_list_alias_fields]; [|auto].
  intros Hn H. revert Hn. induction H as [|f col l row (x & Ex & Ec) H IH]; intros Hn; cbn [map].
  - constructor.
  - cbn [forallb] in Hn. apply andb_true_iff in Hn. destruct Hn as [Hf Hl]. constructor; [|auto].
    exists x. split; [now apply eval_expand_ok | exact Ec].
Qed.

Lemma filter_ext_in {X} (f g : X -> bool) l : Forall (fun a => f a = g a) l -> filter f l = filter g l.
Proof. induction 1 as [|a l E _ IH]; cbn [filter]; [reflexivity|]. rewrite E, IH. reflexivity. Qed.

Lemma Forall2_imp_in {X Y} (P Q : X -> Y -> Prop) l l' :
  Forall2 P l l' -> (forall a b, P a b -> Q a b) -> Forall2 Q l l'.
Proof. intros H HPQ. induction H; constructor; auto. Qed.

(* FULL STATEMENT (not proved):
     for every text q that BuildPlan accepts, with the statement x Parser.Parse built,
     no_bare_fields x and no name standing for a parenthesised list:
       same_outcome (select_stmt_text_st q d m) (expanded_text_st q d m)   for every store, both
     modes, every batch size and every plan shape.
   PROVED PART: the rows the accepted text returns ARE the rows of the expanded TREES OF ITS PLAN
   (every FieldReferenceExpr of the checked and folded WHERE tree and fields replaced by the
   definition it carries, at any depth): the pairs of the scan on which the expanded WHERE tree is
   true, in scan order, each column the value of the expanded field -- projection node, row mode,
   completed runs.  MISSING: that Parser.Parse / Check / the folder / the scan chooser, run on
   expand_stmt x, arrive at trees with these values (commutation of the front end with the
   expansion; compared on every run by the correspondence, Corr/C05Text.v code 7), the other plan
   nodes, batch mode and failing runs at text level (at plan level: Properties/C05.v
   alias_is_abbreviation_rows, cache_invisible_statement_*, Properties/C03.v). *)
Theorem alias_text_is_expansion_partial q d pl out :
  plan_stmt_text q = STOk pl ->
  sp_shape fo pl = SProj ->
  select_stmt_text q d MRow = TOk out ->
  let c := sp_q fo pl in
  no_list_alias (q_where fo c) = true ->
  no_list_alias_fields (q_fields fo c) = true ->
  let pairs := somes (scan_slots (sp_scan fo pl) d) in
  Forall2 (row_of_fields fo re ag (expand_fields (q_fields fo c)))
          (filter (fun kv => match filter_row fo re (fst kv) (snd kv) (expand (q_where fo c)) with
                             | Value.Ok true => true | _ => false end) pairs) out.
Proof.
  intros Ep Esh H. cbv zeta. intros Hw Hf.
  destruct (select_fields_text_values fo re fmt_v ag pi pf q d pl out Ep Esh H) as (H1 & H2).
  cbv zeta in H1, H2.
  rewrite <- (filter_ext_in
                (fun kv => match filter_row fo re (fst kv) (snd kv) (q_where fo (sp_q fo pl)) with
                           | Value.Ok true => true | _ => false end)).
  - eapply Forall2_imp_in; [exact H2|]. intros kv row Hr. now apply row_of_fields_expand.
  - eapply Forall_impl; [|exact H1]. intros kv (b & Eb). cbv beta.
    rewrite Eb, (filter_row_expand_ok _ _ _ b Hw Eb). reflexivity.
Qed.

End AliasTextProofs.
