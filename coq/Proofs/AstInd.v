(* Proofs/AstInd.v -- induction principle for expression trees with hypotheses for the
   elements of argument / item lists. *)
From Coq Require Import List String.
Import ListNotations.
From KV Require Import Model.Ast.

Section ExprInd.
Variable P : expr -> Prop.
Hypothesis HBin : forall p o l r, P l -> P r -> P (EBin p o l r).
Hypothesis HField : forall p f, P (EField p f).
Hypothesis HStr : forall p s, P (EStr p s).
Hypothesis HNot : forall p r, P r -> P (ENot p r).
Hypothesis HCall : forall p n args, P n -> Forall P args -> P (ECall p n args).
Hypothesis HName : forall p s, P (EName p s).
Hypothesis HRef : forall p nm d, P d -> P (ERef p nm d).
Hypothesis HNum : forall p d, P (ENum p d).
Hypothesis HFloat : forall p d, P (EFloat p d).
Hypothesis HBool : forall p b, P (EBool p b).
Hypothesis HList : forall p l, Forall P l -> P (EList p l).
Hypothesis HAccess : forall p l f, P l -> P f -> P (EAccess p l f).

Fixpoint expr_ind2 (e : expr) : P e :=
  match e with
  | EBin p o l r => HBin p o l r (expr_ind2 l) (expr_ind2 r)
  | EField p f => HField p f
  | EStr p s => HStr p s
  | ENot p r => HNot p r (expr_ind2 r)
  | ECall p n args =>
      HCall p n args (expr_ind2 n)
        ((fix go (l : list expr) : Forall P l :=
            match l with
            | [] => Forall_nil P
            | x :: l' => Forall_cons x (expr_ind2 x) (go l')
            end) args)
  | EName p s => HName p s
  | ERef p nm d => HRef p nm d (expr_ind2 d)
  | ENum p d => HNum p d
  | EFloat p d => HFloat p d
  | EBool p b => HBool p b
  | EList p l =>
      HList p l
        ((fix go (l : list expr) : Forall P l :=
            match l with
            | [] => Forall_nil P
            | x :: l' => Forall_cons x (expr_ind2 x) (go l')
            end) l)
  | EAccess p l f => HAccess p l f (expr_ind2 l) (expr_ind2 f)
  end.
End ExprInd.
