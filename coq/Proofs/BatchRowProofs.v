(* Proofs/BatchRowProofs.v -- C03 composed: the plan layer (Proofs/ScanProjProofs.v) instantiated
   with the evaluator twins through the expression layer (Proofs/EvalVecProofs.v).  The LIMIT node
   on top is in Proofs/LimitLazyProofs.v. *)
From Coq Require Import List String ZArith Bool Arith Lia.
Import ListNotations.
From KV Require Import Base.Bytes Model.Ast Model.Value Model.Eval Model.EvalVec Model.ScanProj
                       Proofs.EvalVecProofs Proofs.ScanProjProofs.
Local Open Scope nat_scope.
Local Open Scope list_scope.

Lemma Forall2_firstn {A B} (R : A -> B -> Prop) n l1 l2 :
  Forall2 R l1 l2 -> Forall2 R (firstn n l1) (firstn n l2).
Proof. intros H; revert n; induction H; intros [|n]; cbn; constructor; auto. Qed.

Lemma Forall2_skipn {A B} (R : A -> B -> Prop) n l1 l2 :
  Forall2 R l1 l2 -> Forall2 R (skipn n l1) (skipn n l2).
Proof. intros H; revert n; induction H; intros [|n]; cbn; try constructor; auto. Qed.

Section Select.
Variable fo : fops.
Variable re_match : bytes -> bytes -> res bool.
Notation value := (value fo).

(* equality of content, column by column: row-mode row, batch-mode row *)
Definition same_content (r b : list value) : Prop :=
  Forall2 (fun x y => canon_of fo x = canon_of fo y) r b.

(* no selected field is a bare list literal `(a, b)` (the parser cannot produce one: a select
   field starts an expression, a list literal exists only to the right of IN / BETWEEN).  Row mode
   refuses such a value ("Expression result type not support"), batch mode has no such test. *)
Definition fields_ok (fields : option (list expr)) : Prop :=
  match fields with
  | None => True
  | Some fs => Forall (fun f => is_list_lit f = false) fs
  end.

Lemma project_cols_ok : forall fields ch cols,
  project_cols fo re_match fields ch = Ok cols ->
  Forall2 (fun f col => Forall2 (agree fo re_match f) ch col) fields cols.
Proof.
  induction fields as [|f fields IH]; intros ch cols H; cbn [project_cols] in H.
  - inversion H; constructor.
  - apply bind_ok' in H. destruct H as (col & Ec & H).
    apply bind_ok' in H. destruct H as (cols' & Ecs & H). inversion H; subst cols.
    constructor; [|apply IH; exact Ecs].
    exact (exec_batch_ok_vrel fo re_match f ch col Ec).
Qed.

Lemma all_ok_map_Ok (l : list value) : all_ok (map (@Ok value) l) = Ok l.
Proof. induction l as [|x l IH]; cbn; [reflexivity|]. rewrite IH. reflexivity. Qed.

Lemma transpose_ok : forall ch fields cols rows,
  Forall2 (fun f col => Forall2 (agree fo re_match f) ch col) fields cols ->
  transpose fo ch cols = Ok rows ->
  Forall2 (fun kv row => Forall2 (fun f b => agree fo re_match f kv b) fields row) ch rows.
Proof.
  induction ch as [|kv ch IH]; intros fields cols rows F H; cbn [transpose] in H.
  - inversion H; constructor.
  - destruct (heads_tails_split fo re_match kv ch fields cols F) as (firsts & Eh & F1 & F2).
    rewrite Eh, all_ok_map_Ok in H. cbn [bind] in H.
    apply bind_ok' in H. destruct H as (rows' & Er & H). inversion H; subst rows.
    constructor; [exact F1 | eapply IH; eauto].
Qed.

Lemma project_row_ok kv : forall fields row,
  Forall (fun f => is_list_lit f = false) fields ->
  Forall2 (fun f b => agree fo re_match f kv b) fields row ->
  exists row', project_row fo re_match fields kv = Ok row' /\ same_content row' row.
Proof.
  induction fields as [|f fields IH]; intros row Hok F; inversion F; subst.
  - exists []. split; [reflexivity | constructor].
  - inversion Hok; subst.
    destruct H1 as (r & Er & Vr).
    destruct (IH _ H4 H3) as (row' & Ep & Sc).
    exists (r :: row'). split.
    + cbn [project_row]. rewrite Er. cbn [bind].
      assert (Hk : vkind fo r <> 2).
      { intros Hk. apply (proj2 (eval_kind fo re_match _ _ _ _ Er)) in Hk. congruence. }
      rewrite Ep. destruct r; try reflexivity. exfalso; apply Hk; reflexivity.
    + constructor; [symmetry; now apply vrel_canon | exact Sc].
Qed.

Lemma sel_pbatch_ok fields :
  fields_ok fields ->
  forall c rs, sel_pbatch fo re_match fields c = Ok rs ->
    Forall2 (fun kv r => exists r', sel_prow fo re_match fields kv = Ok r' /\ same_content r' r) c rs.
Proof.
  intros Hok c rs H. destruct fields as [fs|]; cbn [sel_pbatch sel_prow] in *.
  - unfold project_batch in H. apply bind_ok' in H. destruct H as (cols & Ec & H).
    pose proof (transpose_ok _ _ _ _ (project_cols_ok _ _ _ Ec) H) as F.
    eapply Forall2_imp; [|exact F]. intros kv row Fr. now apply project_row_ok.
  - unfold star_batch in H. inversion H; subst rs. apply Forall2_map_r.
    intros kv. exists [VBytes (fst kv); VBytes (snd kv)]. split; [reflexivity|].
    repeat constructor.
Qed.

(* C03 for SELECT <fields> WHERE <wh> without ORDER BY / GROUP BY / LIMIT, every batch size, every
   stream of slots (full, prefix, range scans and point reads), every WHERE clause and every
   field list of the whole expression language: if batch iteration completes without error, so
   does row-at-a-time iteration, with the same rows (content) in the same order *)
Theorem select_batch_row_agree B wh fields slots outs :
  1 <= B -> fields_ok fields ->
  select_batch fo re_match B wh fields slots = Ok outs ->
  exists rows, select_row fo re_match wh fields slots = Ok rows /\
               Forall2 same_content rows (List.concat outs) /\
               Forall (fun o => o <> []) outs.
Proof.
  intros HB Hok H. unfold select_batch, select_row in *.
  eapply (scan_proj_batch_row kvpair (list value)
            (fun kv => filter_row fo re_match (fst kv) (snd kv) wh)
            (filter_batch fo re_match true wh)
            (sel_prow fo re_match fields) (sel_pbatch fo re_match fields) same_content); eauto.
  - intros c bs Hc. exact (filter_batch_ok fo re_match wh c bs Hc).
  - apply sel_pbatch_ok. exact Hok.
Qed.

(* the scan alone (select * without projection work): concat of the batches = the row sequence *)
Corollary scan_batch_row B wh slots outs :
  1 <= B -> select_batch fo re_match B wh None slots = Ok outs ->
  select_row fo re_match wh None slots = Ok (List.concat outs).
Proof.
  intros HB H. destruct (select_batch_row_agree B wh None slots outs HB I H) as (rows & Er & F & _).
  rewrite Er. f_equal.
  (* star rows are built by the same constructor in both modes: equal content means equal here *)
  unfold select_batch, select_row in *.
  clear - H Er HB.
  pose proof (scan_proj_batch_row kvpair (list value)
            (fun kv => filter_row fo re_match (fst kv) (snd kv) wh)
            (filter_batch fo re_match true wh)
            (sel_prow fo re_match None) (sel_pbatch fo re_match None) eq
            (fun c bs Hc => filter_batch_ok fo re_match wh c bs Hc)) as T.
  assert (Hstar : forall c rs, sel_pbatch fo re_match None c = Ok rs ->
            Forall2 (fun kv r => exists r', sel_prow fo re_match None kv = Ok r' /\ r' = r) c rs).
  { intros c rs Hc. cbn [sel_pbatch sel_prow] in *. unfold star_batch in Hc. inversion Hc; subst rs.
    apply Forall2_map_r. intros kv. eexists; split; reflexivity. }
  destruct (T Hstar B slots outs HB H) as (rows' & Er' & F' & _).
  rewrite Er in Er'. inversion Er'; subst rows'.
  clear - F'. induction F'; [reflexivity | congruence].
Qed.

End Select.
