(* Proofs/CachePlansProofs.v -- the field cache is invisible at statement level (C05):
   the compositions of Model/CachePlans.v return, with the cache on, exactly what they return
   with the cache off -- rows and errors -- for every shape Optimizer.buildFinalPlan builds.

   Part A  nodes that only PULL a child (FinalLimitPlan, FinalOrderPlan, and their stacking):
           two children that answer alike on a set of states closed under their steps are
           indistinguishable through the node -- in particular they are pulled equally often.
   Part B  row mode: ProjectionPlan.Next (Proofs/CacheProofs.v) and the per-pair work of
           AggregatePlan.prepare with the per-row cache.
   Part C  batch mode: ProjectionPlan.Batch (Proofs/CacheVecProofs.v) and one iteration of
           AggregatePlan.prepareBatch (scan Batch, batchGetAggrKeys on the context it leaves, the
           per-pair loop).
   Part D  the statement theorems. *)
From Coq Require Import List String Ascii ZArith Bool Arith Lia.
Import ListNotations.
From KV Require Import Base.Bytes Base.Num Model.Ast Model.Value Model.Eval Model.EvalVec Model.Cache
                       Model.ScanProj Model.CacheVec Model.LimitLazy Model.AggregateLazy Model.SelectPlans Model.CachePlans
                       Proofs.CacheProofs Proofs.EvalVecProofs Proofs.CacheVecProofs.
From KV Require Model.Limit Model.Order Model.Aggregate Spec.Group Proofs.ScanProjProofs Proofs.AggregateLazyProofs.
Local Open Scope nat_scope.
Local Open Scope list_scope.

(* ================================================================== Part A: pulled children *)

Section PullRow.
Variables (S A : Type).
Variable I : S -> Prop.
Variables cn1 cn2 : S -> res (option A * S).
Hypothesis Heq : forall s, I s -> cn1 s = cn2 s.
Hypothesis Hinv : forall s r s', I s -> cn2 s = Ok (r, s') -> I s'.

Lemma lskip_ext : forall n s, I s ->
  lskip cn1 n s = lskip cn2 n s /\
  forall k e s', lskip cn2 n s = Ok (k, e, s') -> I s'.
Proof.
  induction n as [|n IH]; intros s Hs; cbn [lskip].
  - split; [reflexivity|]. intros k e s' H; inversion H; subst; exact Hs.
  - rewrite (Heq s Hs). destruct (cn2 s) as [[r s1]|x| |] eqn:E; cbn [bind];
      try (split; [reflexivity | discriminate]).
    pose proof (Hinv _ _ _ Hs E) as Hs1. destruct r as [a|].
    + destruct (IH s1 Hs1) as [-> Hi]. split; [reflexivity|].
      intros k e s' H. destruct (lskip cn2 n s1) as [[[k0 e0] s0]|x| |]; cbn [bind] in H; try discriminate.
      inversion H; subst. eapply Hi; reflexivity.
    + split; [reflexivity|]. intros k e s' H; inversion H; subst; exact Hs1.
Qed.

Lemma lnext_ext start count st s : I s ->
  lnext cn1 start count st s = lnext cn2 start count st s /\
  forall r st' s', lnext cn2 start count st s = Ok (r, st', s') -> I s'.
Proof.
  intros Hs. unfold lnext. destruct (lskip_ext (start - Limit.skips st) s Hs) as [-> Hi].
  destruct (lskip cn2 (start - Limit.skips st) s) as [[[k e] s1]|x| |]; cbn [bind];
    try (split; [reflexivity | discriminate]).
  pose proof (Hi _ _ _ eq_refl) as Hs1.
  destruct e.
  - split; [reflexivity|]. intros r st' s' H; inversion H; subst; exact Hs1.
  - destruct (count <=? Limit.current st).
    + split; [reflexivity|]. intros r st' s' H; inversion H; subst; exact Hs1.
    + rewrite (Heq s1 Hs1). destruct (cn2 s1) as [[r s2]|x| |] eqn:E; cbn [bind];
        try (split; [reflexivity | discriminate]).
      pose proof (Hinv _ _ _ Hs1 E) as Hs2. split; [reflexivity|].
      destruct r; intros r' st' s' H; inversion H; subst; exact Hs2.
Qed.

Lemma ldrain_row_fuel_ext : forall fuel start count st s, I s ->
  ldrain_row_fuel cn1 fuel start count st s = ldrain_row_fuel cn2 fuel start count st s.
Proof.
  induction fuel as [|f IH]; intros start count st s Hs; cbn [ldrain_row_fuel]; [reflexivity|].
  destruct (lnext_ext start count st s Hs) as [-> Hi].
  destruct (lnext cn2 start count st s) as [[[r st'] s']|x| |]; cbn [bind]; try reflexivity.
  destruct r; [|reflexivity]. rewrite (IH _ _ _ _ (Hi _ _ _ eq_refl)). reflexivity.
Qed.

Lemma ldrain_row_ext start count s : I s -> ldrain_row cn1 start count s = ldrain_row cn2 start count s.
Proof. intros Hs. unfold ldrain_row. apply ldrain_row_fuel_ext, Hs. Qed.

End PullRow.

Section PullBatch.
Variables (S A : Type).
Variable I : S -> Prop.
Variables cb1 cb2 : S -> res (list A * S).
Hypothesis Heq : forall s, I s -> cb1 s = cb2 s.
Hypothesis Hinv : forall s b s', I s -> cb2 s = Ok (b, s') -> I s'.

Lemma lskip_batch_ext : forall fuel start sk s, I s ->
  lskip_batch cb1 fuel start sk s = lskip_batch cb2 fuel start sk s /\
  forall r sk' s', lskip_batch cb2 fuel start sk s = Ok (r, sk', s') -> I s'.
Proof.
  induction fuel as [|f IH]; intros start sk s Hs; cbn [lskip_batch].
  - destruct (sk <? start); split; try reflexivity; try discriminate.
    intros r sk' s' H; inversion H; subst; exact Hs.
  - destruct (sk <? start).
    + rewrite (Heq s Hs). destruct (cb2 s) as [[b s1]|x| |] eqn:E; cbn [bind];
        try (split; [reflexivity | discriminate]).
      pose proof (Hinv _ _ _ Hs E) as Hs1.
      destruct (List.length b =? 0).
      * split; [reflexivity|]. intros r sk' s' H; inversion H; subst; exact Hs1.
      * destruct (List.length b <=? start - sk).
        -- apply IH, Hs1.
        -- split; [reflexivity|]. intros r sk' s' H; inversion H; subst; exact Hs1.
    + split; [reflexivity|]. intros r sk' s' H; inversion H; subst; exact Hs.
Qed.

Lemma lfill_ext : forall fuel B count cur ret cnt s, I s ->
  lfill cb1 fuel B count cur ret cnt s = lfill cb2 fuel B count cur ret cnt s /\
  forall ret' cur' s', lfill cb2 fuel B count cur ret cnt s = Ok (ret', cur', s') -> I s'.
Proof.
  induction fuel as [|f IH]; intros B count cur ret cnt s Hs; cbn [lfill].
  - split; [reflexivity | discriminate].
  - rewrite (Heq s Hs). destruct (cb2 s) as [[b s1]|x| |] eqn:E; cbn [bind];
      try (split; [reflexivity | discriminate]).
    pose proof (Hinv _ _ _ Hs E) as Hs1.
    destruct (List.length b =? 0).
    + split; [reflexivity|]. intros r c s' H; inversion H; subst; exact Hs1.
    + destruct (Limit.take_fill count cur b ret cnt) as [[[ret' cur'] cnt'] fin].
      destruct fin.
      * split; [reflexivity|]. intros r c s' H; inversion H; subst; exact Hs1.
      * destruct (B <=? cnt').
        -- split; [reflexivity|]. intros r c s' H; inversion H; subst; exact Hs1.
        -- apply IH, Hs1.
Qed.

Lemma lbatch_ext B start count st s : I s ->
  lbatch cb1 B start count st s = lbatch cb2 B start count st s /\
  forall out st' s', lbatch cb2 B start count st s = Ok (out, st', s') -> I s'.
Proof.
  intros Hs. unfold lbatch.
  destruct (lskip_batch_ext (Datatypes.S (start - Limit.skips st)) start (Limit.skips st) s Hs) as [-> Hi].
  destruct (lskip_batch cb2 (Datatypes.S (start - Limit.skips st)) start (Limit.skips st) s)
    as [[[r sk] s1]|x| |]; cbn [bind]; try (split; [reflexivity | discriminate]).
  pose proof (Hi _ _ _ eq_refl) as Hs1.
  destruct r as [rows|].
  - destruct (Limit.take_left count (Limit.current st) rows [] 0) as [[ret cur] cnt].
    destruct (count <=? cur).
    + split; [reflexivity|]. intros o st' s' H; inversion H; subst; exact Hs1.
    + destruct (lfill_ext (Datatypes.S B) B count cur ret cnt s1 Hs1) as [-> Hi2].
      destruct (lfill cb2 (Datatypes.S B) B count cur ret cnt s1) as [[[ret' cur'] s2]|x| |]; cbn [bind];
        try (split; [reflexivity | discriminate]).
      split; [reflexivity|]. intros o st' s' H; inversion H; subst. eapply Hi2; reflexivity.
  - split; [reflexivity|]. intros o st' s' H; inversion H; subst; exact Hs1.
Qed.

Lemma ldrain_batch_fuel_ext : forall fuel B start count st s, I s ->
  ldrain_batch_fuel cb1 fuel B start count st s = ldrain_batch_fuel cb2 fuel B start count st s.
Proof.
  induction fuel as [|f IH]; intros B start count st s Hs; cbn [ldrain_batch_fuel]; [reflexivity|].
  destruct (lbatch_ext B start count st s Hs) as [-> Hi].
  destruct (lbatch cb2 B start count st s) as [[[out st'] s']|x| |]; cbn [bind]; try reflexivity.
  destruct out; [reflexivity|]. rewrite (IH _ _ _ _ _ (Hi _ _ _ eq_refl)). reflexivity.
Qed.

End PullBatch.

(* ------------------------------------------------------------------ FinalOrderPlan as a pulled child *)
Section OrderExt.
Variable C : Type.
Variable I : C -> Prop.
Variable cdone : C.
Hypothesis Hdone : I cdone.
Variable pi pf : bytes -> option Z.
Variable ords : list Order.ofield.

Section Row.
Variables crows1 crows2 : C -> res (list Order.row).
Hypothesis Hr : forall c, I c -> crows1 c = crows2 c.

Lemma onext_ext s : I (snd s) ->
  onext C crows1 cdone pi pf ords s = onext C crows2 cdone pi pf ords s.
Proof.
  destruct s as [st c]. cbn [snd]. intros Hc. unfold onext. rewrite (Hr c Hc). reflexivity.
Qed.

Lemma onext_inv s r s' : I (snd s) -> onext C crows2 cdone pi pf ords s = Ok (r, s') -> I (snd s').
Proof.
  destruct s as [st c]. cbn [snd]. intros Hc. unfold onext.
  destruct (Order.total st =? 0).
  - destruct (crows2 c) as [rows|x| |]; cbn [bind]; try discriminate.
    destruct (Order.next pi pf ords st rows) as [[[row| |] st'] l]; intros H; inversion H; subst; exact Hdone.
  - destruct (Order.next pi pf ords st []) as [[[row| |] st'] l]; intros H; inversion H; subst; exact Hc.
Qed.

Lemma ord_row_ext c : I c -> ord_row C crows1 pi pf ords c = ord_row C crows2 pi pf ords c.
Proof. intros Hc. unfold ord_row. rewrite (Hr c Hc). reflexivity. Qed.

Lemma ord_limit_row_ext start count c : I c ->
  ord_limit_row C crows1 cdone pi pf ords start count c = ord_limit_row C crows2 cdone pi pf ords start count c.
Proof.
  intros Hc. unfold ord_limit_row.
  apply (ldrain_row_ext _ _ (fun s => I (snd s))).
  - intros s Hs. apply onext_ext, Hs.
  - intros s r s' Hs H. eapply onext_inv; eassumption.
  - exact Hc.
Qed.
End Row.

Section Batch.
Variables cbats1 cbats2 : C -> res (list (list Order.row)).
Hypothesis Hb : forall c, I c -> cbats1 c = cbats2 c.

Lemma obatch_ext B s : I (snd s) ->
  obatch C cbats1 cdone pi pf ords B s = obatch C cbats2 cdone pi pf ords B s.
Proof.
  destruct s as [st c]. cbn [snd]. intros Hc. unfold obatch. rewrite (Hb c Hc). reflexivity.
Qed.

Lemma obatch_inv B s r s' : I (snd s) -> obatch C cbats2 cdone pi pf ords B s = Ok (r, s') -> I (snd s').
Proof.
  destruct s as [st c]. cbn [snd]. intros Hc. unfold obatch.
  destruct (Order.total st =? 0).
  - destruct (cbats2 c) as [bs|x| |]; cbn [bind]; try discriminate.
    destruct (Order.batch pi pf ords B st bs) as [[[out st'] l]|]; intros H; inversion H; subst; exact Hdone.
  - destruct (Order.batch pi pf ords B st []) as [[[out st'] l]|]; intros H; inversion H; subst; exact Hc.
Qed.

Lemma ord_batch_ext B c : I c -> ord_batch C cbats1 pi pf ords B c = ord_batch C cbats2 pi pf ords B c.
Proof. intros Hc. unfold ord_batch. rewrite (Hb c Hc). reflexivity. Qed.

Lemma ord_limit_batch_ext fuel B start count c : I c ->
  ord_limit_batch C cbats1 cdone pi pf ords fuel B start count c =
  ord_limit_batch C cbats2 cdone pi pf ords fuel B start count c.
Proof.
  intros Hc. unfold ord_limit_batch.
  apply (ldrain_batch_fuel_ext _ _ (fun s => I (snd s))).
  - intros s Hs. apply obatch_ext, Hs.
  - intros s r s' Hs H. eapply obatch_inv; eassumption.
  - exact Hc.
Qed.
End Batch.

End OrderExt.

(* ------------------------------------------------------------------ every shape of buildFinalPlan *)
Section ShapeExt.
Variable FT : Type.
Variable C : Type.
Variable I : C -> Prop.
Variable cdone : C.
Hypothesis Hdone : I cdone.
Variable pi pf : bytes -> option Z.

Lemma with_ords_ext {A} (s : SelectPlans.stmt FT) os (k1 k2 : list Order.ofield -> res A) :
  (forall ords, k1 ords = k2 ords) -> with_ords FT s os k1 = with_ords FT s os k2.
Proof. intros H. unfold with_ords. destruct (Order.init_orders os _ _); [apply H | reflexivity]. Qed.

Section Row.
Variables pnext1 pnext2 : C -> res (option Order.row * C).
Variables prows1 prows2 : C -> res (list Order.row).
Variables arows1 arows2 : Group.plan FT -> C -> res (list Order.row).
Hypothesis Hn : forall c, I c -> pnext1 c = pnext2 c.
Hypothesis Hni : forall c r c', I c -> pnext2 c = Ok (r, c') -> I c'.
Hypothesis Hp : forall c, I c -> prows1 c = prows2 c.
Hypothesis Ha : forall p c, I c -> arows1 p c = arows2 p c.

Lemma shape_row_ext s sh c : I c ->
  shape_row FT C cdone pi pf pnext1 prows1 arows1 s sh c =
  shape_row FT C cdone pi pf pnext2 prows2 arows2 s sh c.
Proof.
  intros Hc. destruct sh as [|st l|os ch|st n ch]; cbn [shape_row].
  - apply Hp, Hc.
  - apply Ha, Hc.
  - destruct ch as [|st l|os' ch'|st' n' ch']; try reflexivity.
    + apply with_ords_ext. intros ords. apply (ord_row_ext C I pi pf ords _ _ Hp), Hc.
    + destruct st as [|st]; [|reflexivity]. destruct l; [reflexivity|].
      apply with_ords_ext. intros ords. apply (ord_row_ext C I pi pf ords _ _ (Ha _)), Hc.
  - destruct ch as [|st' l|os ch'|st' n' ch']; try reflexivity.
    + apply (ldrain_row_ext _ _ I); assumption.
    + destruct ch' as [|st' l|os' ch''|st' n' ch'']; try reflexivity.
      * apply with_ords_ext. intros ords. apply (ord_limit_row_ext C I cdone Hdone pi pf ords _ _ Hp), Hc.
      * destruct st' as [|st']; [|reflexivity]. destruct l; [reflexivity|].
        apply with_ords_ext. intros ords.
        apply (ord_limit_row_ext C I cdone Hdone pi pf ords _ _ (Ha _)), Hc.
Qed.
End Row.

Section Batch.
Variables pbatch1 pbatch2 : C -> res (list Order.row * C).
Variables pbats1 pbats2 : C -> res (list (list Order.row)).
Variables abats1 abats2 : Group.plan FT -> C -> res (list (list Order.row)).
Variable lfuel : C -> nat.
Hypothesis Hn : forall c, I c -> pbatch1 c = pbatch2 c.
Hypothesis Hni : forall c r c', I c -> pbatch2 c = Ok (r, c') -> I c'.
Hypothesis Hp : forall c, I c -> pbats1 c = pbats2 c.
Hypothesis Ha : forall p c, I c -> abats1 p c = abats2 p c.

Lemma shape_batch_ext B s sh c : I c ->
  shape_batch FT C cdone pi pf pbatch1 pbats1 abats1 lfuel B s sh c =
  shape_batch FT C cdone pi pf pbatch2 pbats2 abats2 lfuel B s sh c.
Proof.
  intros Hc. destruct sh as [|st l|os ch|st n ch]; cbn [shape_batch].
  - rewrite (Hp c Hc). reflexivity.
  - rewrite (Ha _ c Hc). reflexivity.
  - destruct ch as [|st l|os' ch'|st' n' ch']; try reflexivity.
    + apply with_ords_ext. intros ords. rewrite (ord_batch_ext C I pi pf ords _ _ Hp B c Hc). reflexivity.
    + destruct st as [|st]; [|reflexivity]. destruct l; [reflexivity|].
      apply with_ords_ext. intros ords. rewrite (ord_batch_ext C I pi pf ords _ _ (Ha _) B c Hc). reflexivity.
  - destruct ch as [|st' l|os ch'|st' n' ch']; try reflexivity.
    + rewrite (ldrain_batch_fuel_ext _ _ I pbatch1 pbatch2 Hn Hni (lfuel c) B st n Limit.linit c Hc). reflexivity.
    + destruct ch' as [|st' l|os' ch''|st' n' ch'']; try reflexivity.
      * apply with_ords_ext. intros ords.
        rewrite (ord_limit_batch_ext C I cdone Hdone pi pf ords _ _ Hp (lfuel c) B st n c Hc). reflexivity.
      * destruct st' as [|st']; [|reflexivity]. destruct l; [reflexivity|].
        apply with_ords_ext. intros ords.
        rewrite (ord_limit_batch_ext C I cdone Hdone pi pf ords _ _ (Ha _) (lfuel c) B st n c Hc). reflexivity.
Qed.
End Batch.

End ShapeExt.

(* agg_free shapes never run the aggregate child *)
Lemma shape_row_agg_free FT C cdone pi pf pnext prows arows1 arows2 s sh c :
  agg_free sh = true ->
  shape_row FT C cdone pi pf pnext prows arows1 s sh c = shape_row FT C cdone pi pf pnext prows arows2 s sh c.
Proof.
  intros H. destruct sh as [|st l|os ch|st n ch]; cbn [shape_row agg_free] in *; try reflexivity; try discriminate.
  - destruct ch as [|st l|os' ch'|st' n' ch']; cbn [agg_free] in H; try reflexivity; discriminate.
  - destruct ch as [|st' l|os ch'|st' n' ch']; cbn [agg_free] in H; try reflexivity; try discriminate.
    destruct ch' as [|st' l|os' ch''|st' n' ch'']; cbn [agg_free] in H; try reflexivity; discriminate.
Qed.

Lemma shape_batch_agg_free FT C cdone pi pf pbatch pbats abats1 abats2 lfuel B s sh c :
  agg_free sh = true ->
  shape_batch FT C cdone pi pf pbatch pbats abats1 lfuel B s sh c =
  shape_batch FT C cdone pi pf pbatch pbats abats2 lfuel B s sh c.
Proof.
  intros H. destruct sh as [|st l|os ch|st n ch]; cbn [shape_batch agg_free] in *; try reflexivity; try discriminate.
  - destruct ch as [|st l|os' ch'|st' n' ch']; cbn [agg_free] in H; try reflexivity; discriminate.
  - destruct ch as [|st' l|os ch'|st' n' ch']; cbn [agg_free] in H; try reflexivity; try discriminate.
    destruct ch' as [|st' l|os' ch''|st' n' ch'']; cbn [agg_free] in H; try reflexivity; discriminate.
Qed.

(* ================================================================== Part B: row mode *)
Section RowMode.
Variable fo : fops.
Variable re_match : bytes -> bytes -> res bool.
Variable ag : aggops fo.
Notation value := (value fo).
Notation gvalue := (Group.value (F fo)).
Notation eval := (eval fo re_match).
Notation good := (good fo re_match).
Notation simr := (simr fo).
Notation cq := (cq fo).

(* ---- ProjectionPlan.Next, one call *)
Lemma pnext_c_onoff s ps : stmt_ok s = true ->
  pnext_c fo re_match ag true s ps = pnext_c fo re_match ag false s ps.
Proof.
  intros Hok. unfold pnext_c.
  pose proof (proj_next_spec fo re_match true s ps Hok) as H1.
  pose proof (proj_next_spec fo re_match false s ps Hok) as H0.
  destruct (scan_spec fo re_match (s_where s) ps) as [[[[k v]|] rest]|e| |].
  - destruct (eval_fields fo re_match k v (s_fields s)) as [row|e| |].
    + destruct H1 as (c1 & ->). destruct H0 as (c0 & ->). reflexivity.
    + rewrite H1, H0. reflexivity.
    + rewrite H1, H0. reflexivity.
    + rewrite H1, H0. reflexivity.
  - destruct H1 as (c1 & ->). destruct H0 as (c0 & ->). reflexivity.
  - rewrite H1, H0. reflexivity.
  - rewrite H1, H0. reflexivity.
  - rewrite H1, H0. reflexivity.
Qed.

Lemma prows_c_onoff s ps : stmt_ok s = true ->
  prows_c fo re_match ag true s ps = prows_c fo re_match ag false s ps.
Proof.
  intros Hok. unfold prows_c. rewrite (cache_invisible_row_lemma fo re_match s ps Hok). reflexivity.
Qed.

(* ---- AggregatePlan.prepare: the expressions evaluated on one pair *)
Lemma evals_c_sim on env kv : forall es, forallb (coherent env) es = true ->
  forall c, good on env (fst kv) (snd kv) c ->
  simr (good on env (fst kv) (snd kv)) (evals_row fo re_match es kv) (evals_c fo re_match on es kv c).
Proof.
  induction es as [|e es IH]; intros Hco c Hq; cbn [evals_row evals_c].
  - apply sim_ret, Hq.
  - cbn [forallb] in Hco. apply andb_true_iff in Hco. destruct Hco as [He Hes].
    apply sim_bind; [apply eval_c_good; assumption|].
    intros v c1 Hq1. apply sim_bind; [apply sim_lift, Hq1|].
    intros g c2 Hq2. apply sim_bind; [apply IH; assumption|].
    intros gs c3 Hq3. apply sim_ret, Hq3.
Qed.

Lemma evals_need_c_sim on env kv need : forall es i, forallb (coherent env) es = true ->
  forall c, good on env (fst kv) (snd kv) c ->
  simr (good on env (fst kv) (snd kv)) (evals_need fo re_match need i es kv)
       (evals_need_c fo re_match on need i es kv c).
Proof.
  induction es as [|e es IH]; intros i Hco c Hq; cbn [evals_need evals_need_c].
  - apply sim_ret, Hq.
  - cbn [forallb] in Hco. apply andb_true_iff in Hco. destruct Hco as [He Hes].
    destruct (need i).
    + apply sim_bind; [apply eval_c_good; assumption|].
      intros v c1 Hq1. apply sim_bind; [apply sim_lift, Hq1|].
      intros g c2 Hq2. apply sim_bind; [apply IH; assumption|].
      intros gs c3 Hq3. apply sim_ret, Hq3.
    + apply sim_bind; [apply IH; assumption|].
      intros gs c3 Hq3. apply sim_ret, Hq3.
Qed.

(* a computation started on the cleared context that simulates [r] returns [r] *)
Lemma run0_of_sim {A} (Q : cache fo -> Prop) (r : res A) (m : M fo A) : simr Q r (m []) -> run0 fo m = r.
Proof.
  intros H. unfold run0. destruct r as [a|e| |]; cbn in H.
  - destruct H as (c' & -> & _). reflexivity.
  - rewrite H. reflexivity.
  - rewrite H. reflexivity.
  - rewrite H. reflexivity.
Qed.

Section OnePair.
Variable on : bool.
Variable q : cq.
Hypothesis Hok : cq_ok fo q = true.
Let env := env_of (cq_sel fo q).

Lemma cq_ok_parts :
  stmt_ok (cq_sel fo q) = true /\ forallb (coherent env) (cq_group fo q) = true /\
  forallb (coherent env) (cq_keys fo q) = true /\ forallb (coherent env) (cq_args fo q) = true.
Proof.
  unfold cq_ok in Hok. apply andb_true_iff in Hok. destruct Hok as [H123 H4].
  apply andb_true_iff in H123. destruct H123 as [H12 H3].
  apply andb_true_iff in H12. destruct H12 as [H1 H2]. auto.
Qed.

(* the lazy observation of Model/SelectPlans.v over the statement's expressions *)
Definition lobs_tail_q (p : Group.plan (F fo)) :=
  lobs_tail (f_fmt fo) (a_bits fo ag) (evals_row fo re_match (cq_keys fo q))
            (fun need => evals_need fo re_match need 0 (cq_args fo q)) p.

(* createAggrRow (new key only) + updateRowAggrFunc with the context: the same evaluations, in
   the same order, with the same outcome as without *)
Lemma obs_tail_c_sim p t kv g c : good on env (fst kv) (snd kv) c ->
  simr (good on env (fst kv) (snd kv)) (lobs_tail_q p t kv g) (obs_tail_c fo re_match ag on q p t kv g c).
Proof.
  intros Hq. destruct cq_ok_parts as (_ & _ & Hk & Ha). unfold lobs_tail_q, lobs_tail, obs_tail_c.
  destruct (seen_mem (lkey (f_fmt fo) (a_bits fo ag) p g) t).
  - apply sim_bind; [apply evals_need_c_sim; assumption|].
    intros a c1 Hq1. apply sim_ret, Hq1.
  - apply sim_bind; [apply evals_c_sim; assumption|].
    intros k c1 Hq1. apply sim_bind; [apply evals_need_c_sim; assumption|].
    intros a c2 Hq2. apply sim_ret, Hq2.
Qed.

Lemma run0_obs_tail p t kv g :
  run0 fo (obs_tail_c fo re_match ag on q p t kv g) = lobs_tail_q p t kv g.
Proof.
  apply (run0_of_sim (good on env (fst kv) (snd kv))). apply obs_tail_c_sim, good_empty.
Qed.

(* one iteration of prepare with the context IS the lazy observation of the cache-free
   composition (Model/SelectPlans.v c_lobs_row = Model/AggregateLazy.v lobs_row over the evaluator
   twins): the same (expression, pair) combinations are asked for, the same values / the same
   error come back, the same keys are recorded -- whatever the cache setting *)
Lemma obs_row_c_spec p t kv :
  obs_row_c fo re_match ag on q p t kv =
  c_lobs_row fo re_match ag (cq_group fo q) (cq_keys fo q) (cq_args fo q) p t kv.
Proof.
  destruct cq_ok_parts as (_ & Hg & _ & _).
  unfold obs_row_c, c_lobs_row, lobs_row.
  apply (run0_of_sim (good on env (fst kv) (snd kv))).
  apply sim_bind.
  - destruct (Group.pl_all p).
    + apply sim_ret, good_empty.
    + apply evals_c_sim; [exact Hg | apply good_empty].
  - intros g c Hq. apply obs_tail_c_sim, Hq.
Qed.

(* prepare's loop = the loop of the lazy cache-free composition *)
Lemma agg_obs_row_c_spec p : forall ps t,
  agg_obs_row_c fo re_match ag on q p t ps =
  sdrain_row (sel_frow fo re_match (s_where (cq_sel fo q)))
             (c_lobs_row fo re_match ag (cq_group fo q) (cq_keys fo q) (cq_args fo q) p) t (map Some ps).
Proof.
  intros ps t. rewrite AggregateLazyProofs.sdrain_row_spec.
  replace (somes (map Some ps)) with ps by (induction ps as [|x l IHl]; cbn; congruence).
  revert t. induction ps as [|kv ps IH]; intros t; cbn [agg_obs_row_c AggregateLazyProofs.srow_list]; [reflexivity|].
  unfold sel_frow at 1.
  destruct (filter_row fo re_match (fst kv) (snd kv) (s_where (cq_sel fo q))) as [ok|e| |]; cbn [bind]; try reflexivity.
  destruct ok; [|apply IH].
  rewrite obs_row_c_spec.
  destruct (c_lobs_row fo re_match ag (cq_group fo q) (cq_keys fo q) (cq_args fo q) p t kv) as [ot|e| |];
    cbn [bind]; try reflexivity.
  rewrite IH. reflexivity.
Qed.

End OnePair.

(* AggregatePlan(scan) drained by Next: with the cache (on or off) it IS the cache-free LAZY
   composition of Model/SelectPlans.v (agg_rows over Model/AggregateLazy.v) over the same expressions *)
Lemma arows_c_is_agg_rows on q p ps : cq_ok fo q = true ->
  arows_c fo re_match ag on q p ps =
  agg_rows kvpair (sel_frow fo re_match (s_where (cq_sel fo q)))
    (F fo) (fadd fo) (fsub fo) (fmul fo) (fdiv fo) (fltb fo) (a_is0 fo ag) (f_of_Z fo) (a_to_Z fo ag) (f_fmt fo)
    (a_bits fo ag) (a_json_f fo ag) (a_parse fo ag) (a_json_s fo ag) seen []
    (c_lobs_row fo re_match ag (cq_group fo q) (cq_keys fo q) (cq_args fo q)) (aconv_row fo (a_fbits fo ag))
    p (map Some ps).
Proof.
  intros Hok. unfold arows_c, agg_rows, agg_row, run_agg_row.
  rewrite (agg_obs_row_c_spec on q Hok p ps []).
  destruct (sdrain_row (sel_frow fo re_match (s_where (cq_sel fo q)))
              (c_lobs_row fo re_match ag (cq_group fo q) (cq_keys fo q) (cq_args fo q) p) [] (map Some ps));
    reflexivity.
Qed.

Lemma arows_c_onoff q p ps : cq_ok fo q = true ->
  arows_c fo re_match ag true q p ps = arows_c fo re_match ag false q p ps.
Proof. intros Hok. rewrite !arows_c_is_agg_rows by exact Hok. reflexivity. Qed.

End RowMode.

(* ================================================================== Part C: batch mode *)

(* the scanned stream has pairwise different keys (a storage cursor returns each key once; the
   per-chunk cache is keyed by a chunk's first key) *)
Definition keys_nodup (sl : list (option kvpair)) : Prop := NoDup (map fst (somes sl)).

Lemma keys_nodup_nil : keys_nodup [].
Proof. unfold keys_nodup. cbn. constructor. Qed.

Section BatchMode.
Variable fo : fops.
Variable re_match : bytes -> bytes -> res bool.
Variable keyfix : bool.
Variable ag : aggops fo.
Notation value := (value fo).
Notation gvalue := (Group.value (F fo)).
Notation pobs := (Group.pobs (F fo)).
Notation cq := (cq fo).
Notation simv := (simv fo).
Notation Qon := (Qon fo re_match keyfix).

(* ---- ProjectionPlan.Batch, one call *)
Lemma pbatch_c_onoff s B sl : stmt_ok s = true -> names_ok keyfix s = true -> keys_nodup sl ->
  pbatch_c fo re_match keyfix ag true s B sl = pbatch_c fo re_match keyfix ag false s B sl /\
  forall r sl', pbatch_c fo re_match keyfix ag false s B sl = Ok (r, sl') -> keys_nodup sl'.
Proof.
  intros Hok Hn Hnd. unfold pbatch_c.
  destruct (proj_batch_on fo re_match keyfix s Hok Hn B sl Hnd) as [-> Hsk].
  rewrite (proj_batch_off fo re_match keyfix s Hok B sl).
  split; [reflexivity|]. intros r sl' H.
  destruct (ScanProj.proj_batch (fb fo re_match s) (pb fo re_match s) B sl) as [[rows rest']|e| |] eqn:E;
    cbn [bind fst snd] in H; try discriminate.
  inversion H; subst. destruct (Hsk _ _ eq_refl) as (j & ->). apply NoDup_skipn_keys, Hnd.
Qed.

Lemma pbats_c_onoff s B sl : stmt_ok s = true -> names_ok keyfix s = true -> keys_nodup sl ->
  pbats_c fo re_match keyfix ag true s B sl = pbats_c fo re_match keyfix ag false s B sl.
Proof.
  intros Hok Hn Hnd. unfold pbats_c.
  rewrite (cache_invisible_batch_lemma fo re_match keyfix s B sl Hok Hn Hnd). reflexivity.
Qed.

(* ---- batchGetAggrKeys: the GROUP BY columns on the context the scan's Batch left *)
Lemma cols_seq_off kv ch : forall es st,
  cols_seq_c fo re_match keyfix false es (kv :: ch) st = liftv fo (project_cols fo re_match es (kv :: ch)) st.
Proof.
  induction es as [|e es IH]; intros st; cbn [cols_seq_c project_cols]; [reflexivity|].
  unfold bindv at 1. rewrite eval_batch_c_off. unfold liftv at 1.
  destruct (eval_batch fo re_match true e (kv :: ch)) as [col|x| |]; cbn [bind]; try reflexivity.
  unfold bindv. rewrite IH. unfold liftv, retv.
  destruct (project_cols fo re_match es (kv :: ch)); reflexivity.
Qed.

Lemma cols_seq_on env kvr rows0 st1
  (Hinj : forall a a' k1 k2, lookup env a <> None -> lookup env a' <> None ->
          keq keyfix (a, k1) (a', k2) = true -> a = a' /\ k1 = k2) :
  forall es T st, forallb (coherent env) es = true -> Qon env kvr rows0 st1 T st ->
  simv (fun _ => True) (project_cols fo re_match es (kvr :: rows0))
       (cols_seq_c fo re_match keyfix true es (kvr :: rows0) st).
Proof.
  induction es as [|e es IH]; intros T st Hco Hq; cbn [cols_seq_c project_cols].
  - apply simv_ret. exact I.
  - cbn [forallb] in Hco. apply andb_true_iff in Hco. destruct Hco as [He Hes].
    eapply simv_bind.
    + apply (eval_batch_c_on fo re_match keyfix env kvr rows0 st1 Hinj e He T st Hq).
    + intros col s1 Hq1. eapply simv_bind.
      * apply (IH _ s1 Hes Hq1).
      * intros cols s2 _. apply simv_ret. exact I.
Qed.

(* ---- one iteration of prepareBatch *)
Section Step.
Variable q : cq.
Hypothesis Hok : cq_ok fo q = true.
Variable p : Group.plan (F fo).
Let sel := cq_sel fo q.
Let env := env_of sel.

(* the lazy observation of a chunk in the cache-free composition (Model/SelectPlans.v) *)
Definition lobsb : seen -> list kvpair -> res (list pobs * seen) :=
  c_lobs_batch fo re_match ag (cq_group fo q) (cq_keys fo q) (cq_args fo q) p.

(* batchGetAggrKeys without the context *)
Definition batch_g_ref (ch : list kvpair) : res (list (list gvalue)) :=
  if Group.pl_all p then Ok (map (fun _ => []) ch) else c_batch_g fo re_match (cq_group fo q) ch.

Lemma batch_g_off kv ch st :
  batch_g_c fo re_match keyfix false q p (kv :: ch) st = liftv fo (batch_g_ref (kv :: ch)) st.
Proof.
  unfold batch_g_c, batch_g_ref. destruct (Group.pl_all p); [reflexivity|].
  unfold bindv. rewrite cols_seq_off. unfold liftv, c_batch_g, ScanProj.project_batch.
  destruct (project_cols fo re_match (cq_group fo q) (kv :: ch)) as [cols|e| |]; cbn [bind]; reflexivity.
Qed.

Lemma batch_g_on kvr rows0 st1 (Hn : names_ok keyfix sel = true) T st :
  Qon env kvr rows0 st1 T st ->
  simv (fun _ => True) (batch_g_ref (kvr :: rows0)) (batch_g_c fo re_match keyfix true q p (kvr :: rows0) st).
Proof.
  intros Hq. destruct (cq_ok_parts fo q Hok) as (_ & Hg & _ & _).
  unfold batch_g_c, batch_g_ref. destruct (Group.pl_all p).
  - apply simv_ret. exact I.
  - unfold c_batch_g, ScanProj.project_batch.
    assert (E : (do grows <- (do cols <- project_cols fo re_match (cq_group fo q) (kvr :: rows0);
                              transpose fo (kvr :: rows0) cols); gvals_all fo grows) =
                (do cols <- project_cols fo re_match (cq_group fo q) (kvr :: rows0);
                 do grows <- transpose fo (kvr :: rows0) cols; gvals_all fo grows)).
    { destruct (project_cols fo re_match (cq_group fo q) (kvr :: rows0)); reflexivity. }
    rewrite E. eapply simv_bind.
    + apply (cols_seq_on env kvr rows0 st1 (keq_inj keyfix sel Hn) (cq_group fo q) T st Hg Hq).
    + intros cols s1 _. apply simv_lift. exact I.
Qed.

Lemma obs_zip_c_spec on : forall ch gss t,
  obs_zip_c fo re_match ag on q p t ch gss =
  lobs_zip (f_fmt fo) (a_bits fo ag) (evals_row fo re_match (cq_keys fo q))
           (fun need => evals_need fo re_match need 0 (cq_args fo q)) p t ch gss.
Proof.
  induction ch as [|kv ch IH]; intros gss t; cbn [obs_zip_c lobs_zip]; [reflexivity|].
  destruct gss as [|g gss]; [reflexivity|].
  rewrite (run0_obs_tail fo re_match ag on q Hok). unfold lobs_tail_q.
  destruct (lobs_tail (f_fmt fo) (a_bits fo ag) (evals_row fo re_match (cq_keys fo q))
              (fun need => evals_need fo re_match need 0 (cq_args fo q)) p t kv g) as [ot|e| |];
    cbn [bind]; try reflexivity.
  rewrite IH. reflexivity.
Qed.

Lemma obs_batch_off t kv ch cx :
  obs_batch_c fo re_match keyfix ag false q p t (kv :: ch) cx = lobsb t (kv :: ch).
Proof.
  unfold obs_batch_c, lobsb, c_lobs_batch, lobs_batch. rewrite batch_g_off. unfold liftv.
  fold (batch_g_ref (kv :: ch)).
  destruct (batch_g_ref (kv :: ch)) as [gss|e| |]; cbn [bind]; try reflexivity.
  apply obs_zip_c_spec.
Qed.

Lemma obs_batch_on (Hn : names_ok keyfix sel = true) t kvr rows0 cx :
  Post fo re_match sel (kvr :: rows0) cx ->
  obs_batch_c fo re_match keyfix ag true q p t (kvr :: rows0) cx = lobsb t (kvr :: rows0).
Proof.
  intros Hp. unfold obs_batch_c, lobsb, c_lobs_batch, lobs_batch.
  pose proof (batch_g_on kvr rows0 cx Hn [] cx
                (Qon_proj_start fo re_match keyfix sel kvr rows0 cx (proj1 Hp))) as Hs.
  fold (batch_g_ref (kvr :: rows0)).
  destruct (batch_g_ref (kvr :: rows0)) as [gss|e| |]; cbn in Hs; cbn [bind].
  - destruct Hs as (s2 & -> & _). apply obs_zip_c_spec.
  - rewrite Hs. reflexivity.
  - rewrite Hs. reflexivity.
  - rewrite Hs. reflexivity.
Qed.

(* the same iteration in the cache-free composition: the body of AggregateLazy.sdrain_batch_fuel *)
Definition ref_step (B : nat) (t : seen) (rest : list (option kvpair))
  : res (option (list pobs * seen) * list (option kvpair)) :=
  do kr <- ScanProj.scan_batch (fb fo re_match sel) B rest;
  match kr with
  | ([], rest') => Ok (None, rest')
  | (kvs, rest') => do ot <- lobsb t kvs; Ok (Some ot, rest')
  end.

Lemma agg_step_off B t rest :
  agg_batch_step_c fo re_match keyfix ag false q p B t rest = ref_step B t rest.
Proof.
  unfold agg_batch_step_c, ref_step, scan_batch_c, ScanProj.scan_batch.
  fold sel. rewrite scan_loop_off. unfold slot.
  destruct (@ScanProj.scan_batch_loop kvpair (fb fo re_match sel) (S (List.length rest)) B rest [])
    as [[ret' rest']|e| |]; cbn [bind]; try reflexivity.
  destruct ret' as [|kvr rows0]; [reflexivity|].
  rewrite obs_batch_off. reflexivity.
Qed.

Hypothesis Hnames : names_ok keyfix sel = true.

Lemma agg_step_on B t rest : keys_nodup rest ->
  agg_batch_step_c fo re_match keyfix ag true q p B t rest = ref_step B t rest /\
  (forall r rest', ref_step B t rest = Ok (r, rest') -> exists j, rest' = skipn j rest).
Proof.
  intros Hnd. destruct (cq_ok_parts fo q Hok) as (Hs & _).
  unfold agg_batch_step_c, ref_step, scan_batch_c, ScanProj.scan_batch.
  fold sel.
  pose proof (scan_loop_on fo re_match keyfix sel Hs Hnames B (S (List.length rest)) rest [] [] 0 (ctx0 fo) [] []
                           Hnd (inv_start fo re_match sel)) as H.
  unfold slot.
  destruct (@ScanProj.scan_batch_loop kvpair (fb fo re_match sel) (S (List.length rest)) B rest [])
    as [[ret' rest']|e| |]; cbn [bind].
  - destruct H as (st' & -> & Hp & j & Hj).
    destruct ret' as [|kvr rows0].
    + split; [reflexivity|]. intros r r' E. inversion E; subst. eauto.
    + rewrite (obs_batch_on Hnames t kvr rows0 st' Hp).
      destruct (lobsb t (kvr :: rows0)) as [ot|e| |]; cbn [bind]; try (split; [reflexivity | discriminate]).
      split; [reflexivity|]. intros r r' E. inversion E; subst. eauto.
  - rewrite H. split; [reflexivity | discriminate].
  - rewrite H. split; [reflexivity | discriminate].
  - rewrite H. split; [reflexivity | discriminate].
Qed.

(* prepareBatch's loop = the loop of the lazy cache-free composition *)
Lemma agg_obs_batch_fuel_spec on B : forall fuel t rest, keys_nodup rest ->
  agg_obs_batch_fuel fo re_match keyfix ag on q p fuel B t rest =
  sdrain_batch_fuel (fb fo re_match sel) lobsb fuel B t rest.
Proof.
  induction fuel as [|f IH]; intros t rest Hnd;
    cbn [agg_obs_batch_fuel sdrain_batch_fuel]; [reflexivity|].
  destruct (agg_step_on B t rest Hnd) as [Eon Hsk].
  assert (E : agg_batch_step_c fo re_match keyfix ag on q p B t rest = ref_step B t rest)
    by (destruct on; [exact Eon | apply agg_step_off]).
  rewrite E. clear E Eon. unfold ref_step in *.
  destruct (ScanProj.scan_batch (fb fo re_match sel) B rest) as [[kvs rest']|e| |]; cbn [bind] in *; try reflexivity.
  destruct kvs as [|kv kvs]; [reflexivity|].
  destruct (lobsb t (kv :: kvs)) as [ot|e| |]; cbn [bind] in *; try reflexivity.
  destruct (Hsk _ _ eq_refl) as (j & ->).
  rewrite IH; [reflexivity | apply NoDup_skipn_keys, Hnd].
Qed.

End Step.

(* AggregatePlan(scan) drained by Batch: with the cache (on or off) it IS the cache-free LAZY
   composition of Model/SelectPlans.v (agg_bats over Model/AggregateLazy.v) over the same expressions *)
Lemma abats_c_is_agg_bats on q B p sl : cq_ok fo q = true -> names_ok keyfix (cq_sel fo q) = true ->
  keys_nodup sl ->
  abats_c fo re_match keyfix ag on q B p sl =
  agg_bats kvpair (filter_batch fo re_match true (s_where (cq_sel fo q)))
    (F fo) (fadd fo) (fsub fo) (fmul fo) (fdiv fo) (fltb fo) (a_is0 fo ag) (f_of_Z fo) (a_to_Z fo ag) (f_fmt fo)
    (a_bits fo ag) (a_json_f fo ag) (a_parse fo ag) (a_json_s fo ag) seen []
    (c_lobs_batch fo re_match ag (cq_group fo q) (cq_keys fo q) (cq_args fo q)) (aconv_row fo (a_fbits fo ag))
    B p sl.
Proof.
  intros Hok Hn Hnd. unfold abats_c, agg_bats, agg_batch, run_agg_batch, agg_obs_batch_c, sdrain_batch.
  rewrite (agg_obs_batch_fuel_spec q Hok p Hn on B _ [] sl Hnd). unfold slot.
  change (sdrain_batch_fuel (fb fo re_match (cq_sel fo q)) (lobsb q p) (S (List.length sl)) B [] sl)
    with (@sdrain_batch_fuel kvpair pobs seen (filter_batch fo re_match true (s_where (cq_sel fo q)))
            (c_lobs_batch fo re_match ag (cq_group fo q) (cq_keys fo q) (cq_args fo q) p) (S (List.length sl)) B [] sl).
  destruct (@sdrain_batch_fuel kvpair pobs seen (filter_batch fo re_match true (s_where (cq_sel fo q)))
            (c_lobs_batch fo re_match ag (cq_group fo q) (cq_keys fo q) (cq_args fo q) p) (S (List.length sl)) B [] sl)
    as [chunks|e| |]; cbn [bind]; reflexivity.
Qed.

Lemma abats_c_onoff q B p sl : cq_ok fo q = true -> names_ok keyfix (cq_sel fo q) = true -> keys_nodup sl ->
  abats_c fo re_match keyfix ag true q B p sl = abats_c fo re_match keyfix ag false q B p sl.
Proof. intros Hok Hn Hnd. rewrite !abats_c_is_agg_bats by assumption. reflexivity. Qed.

End BatchMode.

(* ================================================================== Part D: the statement theorems *)

(* ProjectionPlan [+ FinalOrderPlan] [+ FinalLimitPlan], Next until nil: over every sequence of
   pairs the access path yields *)
Theorem cache_invisible_statement_row_lemma :
  forall (fo : fops) re (ag : aggops fo) pi pf (q : cq fo) (sh : shape) (ps : list kvpair),
  stmt_ok (cq_sel fo q) = true -> agg_free sh = true ->
  stmt_shape_row_c fo re ag pi pf true q sh ps = stmt_shape_row_c fo re ag pi pf false q sh ps.
Proof.
  intros fo re ag pi pf q sh ps Hok Hsh. unfold stmt_shape_row_c.
  rewrite (shape_row_agg_free (F fo) (list kvpair) [] pi pf _ _
             (arows_c fo re ag true q) (arows_c fo re ag false q) _ sh ps Hsh).
  apply (shape_row_ext (F fo) (list kvpair) (fun _ => True) [] I pi pf); auto.
  - intros c _. apply pnext_c_onoff, Hok.
  - intros c _. apply prows_c_onoff, Hok.
Qed.

(* every shape, the AggregatePlan included *)
Theorem cache_invisible_aggregate_row_lemma :
  forall (fo : fops) re (ag : aggops fo) pi pf (q : cq fo) (sh : shape) (ps : list kvpair),
  cq_ok fo q = true ->
  stmt_shape_row_c fo re ag pi pf true q sh ps = stmt_shape_row_c fo re ag pi pf false q sh ps.
Proof.
  intros fo re ag pi pf q sh ps Hok. unfold stmt_shape_row_c.
  destruct (cq_ok_parts fo q Hok) as (Hs & _).
  apply (shape_row_ext (F fo) (list kvpair) (fun _ => True) [] I pi pf); auto.
  - intros c _. apply pnext_c_onoff, Hs.
  - intros c _. apply prows_c_onoff, Hs.
  - intros p c _. apply arows_c_onoff, Hok.
Qed.

Theorem cache_invisible_statement_batch_lemma :
  forall (fo : fops) re keyfix (ag : aggops fo) pi pf (q : cq fo) (sh : shape) (B : nat)
         (sl : list (option kvpair)),
  stmt_ok (cq_sel fo q) = true -> names_ok keyfix (cq_sel fo q) = true -> agg_free sh = true ->
  keys_nodup sl ->
  stmt_shape_batch_c fo re keyfix ag pi pf true B q sh sl = stmt_shape_batch_c fo re keyfix ag pi pf false B q sh sl.
Proof.
  intros fo re keyfix ag pi pf q sh B sl Hok Hn Hsh Hnd. unfold stmt_shape_batch_c.
  rewrite (shape_batch_agg_free (F fo) (list (option kvpair)) [] pi pf _ _
             (abats_c fo re keyfix ag true q B) (abats_c fo re keyfix ag false q B) _ B _ sh sl Hsh).
  apply (shape_batch_ext (F fo) (list (option kvpair)) keys_nodup [] keys_nodup_nil pi pf); auto.
  - intros c Hc. apply pbatch_c_onoff; assumption.
  - intros c r c' Hc H. eapply (proj2 (pbatch_c_onoff fo re keyfix ag _ B c Hok Hn Hc)); exact H.
  - intros c Hc. apply pbats_c_onoff; assumption.
Qed.

Theorem cache_invisible_aggregate_batch_lemma :
  forall (fo : fops) re keyfix (ag : aggops fo) pi pf (q : cq fo) (sh : shape) (B : nat)
         (sl : list (option kvpair)),
  cq_ok fo q = true -> names_ok keyfix (cq_sel fo q) = true -> keys_nodup sl ->
  stmt_shape_batch_c fo re keyfix ag pi pf true B q sh sl = stmt_shape_batch_c fo re keyfix ag pi pf false B q sh sl.
Proof.
  intros fo re keyfix ag pi pf q sh B sl Hok Hn Hnd. unfold stmt_shape_batch_c.
  destruct (cq_ok_parts fo q Hok) as (Hs & _).
  apply (shape_batch_ext (F fo) (list (option kvpair)) keys_nodup [] keys_nodup_nil pi pf); auto.
  - intros c Hc. apply pbatch_c_onoff; assumption.
  - intros c r c' Hc H. eapply (proj2 (pbatch_c_onoff fo re keyfix ag _ B c Hs Hn Hc)); exact H.
  - intros c Hc. apply pbats_c_onoff; assumption.
  - intros p c Hc. apply abats_c_onoff; assumption.
Qed.

(* ================================================================== witnesses *)
Section StmtWitnesses.
Variable fo : fops.
Variable re_match : bytes -> bytes -> res bool.
Variable ag : aggops fo.
Variable pi pf : bytes -> option Z.
Local Open Scope string_scope.

(* select KEY, int(value) as n where n > 2 order by n desc limit 1, 1   (CacheProofs.w_stmt)
   over k0=1 k1=5 k2=2 k3=7: FinalLimitPlan(FinalOrderPlan(ProjectionPlan)); k1 and k3 pass,
   sorted 7, 5; the limit skips one row and returns one *)
Definition wq_order : cq fo :=
  CQ fo w_stmt [] [] [] [Order.TSTR; Order.TNUMBER] None
     (Some [Order.OrderField "n" (ERef 60 "n" w_int_value) true]) (Some (1, 1)).

Lemma wq_order_premise keyfix :
  stmt_ok (cq_sel fo wq_order) = true /\ names_ok keyfix (cq_sel fo wq_order) = true /\
  cq_shape fo wq_order = SLimit 1 1 (SOrder [Order.OrderField "n" (ERef 60 "n" w_int_value) true] SProj) /\
  agg_free (cq_shape fo wq_order) = true /\ keys_nodup (map Some w_store).
Proof.
  split; [reflexivity|]. split; [destruct keyfix; reflexivity|]. split; [reflexivity|]. split; [reflexivity|].
  unfold keys_nodup. cbn. repeat constructor; cbn; intuition discriminate.
Qed.

Lemma wq_order_rows keyfix on B : B = 1 \/ B = 2 \/ B = 3 ->
  stmt_row_c fo re_match ag pi pf on wq_order w_store = Ok [[Order.VBytes "k1"; Order.VInt 5%Z]] /\
  stmt_batch_c fo re_match keyfix ag pi pf on B wq_order (map Some w_store) = Ok [[Order.VBytes "k1"; Order.VInt 5%Z]].
Proof.
  intros [H|[H|H]]; subst B; destruct on, keyfix; split; vm_compute; reflexivity.
Qed.

(* select int(value) / 4 as g, count(1) as c, sum(g) as s where g >= 1 group by g
   over k0=5 k1=9 k2=6 k3=1: g = 1, 2, 1, 0; the last pair is rejected; two groups.  The name g
   is used in WHERE (scan), in GROUP BY (getAggrKey / batchGetAggrKeys) and in sum's argument
   (updateRowAggrFunc). *)
Definition wa_g := EBin 18 ODiv (ECall 7 (EName 7 "int") [EField 11 ValueKW]) (ENum 20 "4").
Definition wa_sel : Cache.stmt :=
  Cache.Stmt ["g"; "c"; "s"]
    [wa_g; ECall 27 (EName 27 "count") [ENum 33 "1"]; ECall 41 (EName 41 "sum") [ERef 45 "g" wa_g]]
    (EBin 60 OGte (ERef 58 "g" wa_g) (ENum 63 "1")).
Definition wa_q : cq fo :=
  CQ fo wa_sel [ERef 74 "g" wa_g] [wa_g] [ENum 33 "1"; ERef 45 "g" wa_g]
     [Order.TNUMBER; Order.TNUMBER; Order.TNUMBER]
     (Some (false, [Group.FKey 0; Group.FAgg (@Group.AECall (F fo) 0) [Group.Call Group.ACount 0];
                    Group.FAgg (@Group.AECall (F fo) 0) [Group.Call Group.ASum 1]]))
     None None.
Definition wa_store : list kvpair := [("k0", "5"); ("k1", "9"); ("k2", "6"); ("k3", "1")].

Lemma wa_premise keyfix :
  cq_ok fo wa_q = true /\ names_ok keyfix (cq_sel fo wa_q) = true /\ cq_shape fo wa_q = SAgg 0 None /\
  keys_nodup (map Some wa_store).
Proof.
  split; [reflexivity|]. split; [destruct keyfix; reflexivity|]. split; [reflexivity|].
  unfold keys_nodup. cbn. repeat constructor; cbn; intuition discriminate.
Qed.

Lemma wa_rows keyfix on B : B = 1 \/ B = 2 \/ B = 3 ->
  stmt_row_c fo re_match ag pi pf on wa_q wa_store =
    Ok [[Order.VBytes "1"; Order.VInt 2%Z; Order.VInt 2%Z]; [Order.VBytes "2"; Order.VInt 1%Z; Order.VInt 2%Z]] /\
  stmt_batch_c fo re_match keyfix ag pi pf on B wa_q (map Some wa_store) =
    Ok [[Order.VBytes "1"; Order.VInt 2%Z; Order.VInt 2%Z]; [Order.VBytes "2"; Order.VInt 1%Z; Order.VInt 2%Z]].
Proof.
  intros [H|[H|H]]; subst B; destruct on, keyfix; split; vm_compute; reflexivity.
Qed.

End StmtWitnesses.
