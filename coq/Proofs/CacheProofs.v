(* Proofs/CacheProofs.v -- the field cache is invisible; aliases are abbreviations (C05).

   Part 1  eval_c (the evaluator with the cache as state) simulates Model/Eval.eval:
           with the cache off it IS eval and leaves the context alone; with the cache on, started
           in a context whose every entry is the value of that alias on the current pair, it
           returns what eval returns and ends in such a context again.
   Part 2  row-at-a-time plans: filter + projection + drain = spec_rows, cache on or off.
   Part 3  shape of the rows.
   Part 4  replacing alias uses by their definitions (expand) preserves eval.
   Part 5  chunk-cache bookkeeping of the scans' Batch. *)
From Coq Require Import List String Ascii ZArith Bool Arith Lia.
Import ListNotations.
From KV Require Import Base.Bytes Base.Num Model.Ast Model.Value Model.Eval Model.Cache.
Local Open Scope list_scope.

(* ------------------------------------------------------------------ induction on trees *)
Section ExprInd.
Variable P : expr -> Prop.
Hypothesis HBin : forall p o l r, P l -> P r -> P (EBin p o l r).
Hypothesis HField : forall p f, P (EField p f).
Hypothesis HStr : forall p s, P (EStr p s).
Hypothesis HNot : forall p r, P r -> P (ENot p r).
Hypothesis HCall : forall p n args, P n -> Forall P args -> P (ECall p n args).
Hypothesis HName : forall p s, P (EName p s).
Hypothesis HRef : forall p nm d, P d -> P (ERef p nm d).
Hypothesis HNum : forall p d, P (ENum p d).
Hypothesis HFloat : forall p d, P (EFloat p d).
Hypothesis HBool : forall p b, P (EBool p b).
Hypothesis HList : forall p l, Forall P l -> P (EList p l).
Hypothesis HAccess : forall p l f, P l -> P f -> P (EAccess p l f).

Fixpoint expr_ind_c (e : expr) : P e :=
  match e with
  | EBin p o l r => HBin p o l r (expr_ind_c l) (expr_ind_c r)
  | EField p f => HField p f
  | EStr p s => HStr p s
  | ENot p r => HNot p r (expr_ind_c r)
  | ECall p n args =>
      HCall p n args (expr_ind_c n)
        ((fix go (l : list expr) : Forall P l :=
            match l with
            | [] => Forall_nil P
            | x :: l' => Forall_cons x (expr_ind_c x) (go l')
            end) args)
  | EName p s => HName p s
  | ERef p nm d => HRef p nm d (expr_ind_c d)
  | ENum p d => HNum p d
  | EFloat p d => HFloat p d
  | EBool p b => HBool p b
  | EList p l =>
      HList p l
        ((fix go (l : list expr) : Forall P l :=
            match l with
            | [] => Forall_nil P
            | x :: l' => Forall_cons x (expr_ind_c x) (go l')
            end) l)
  | EAccess p l f => HAccess p l f (expr_ind_c l) (expr_ind_c f)
  end.
End ExprInd.

(* ------------------------------------------------------------------ expr_eqb decides equality *)

Lemma op_eqb_eq : forall a b, op_eqb a b = true -> a = b.
Proof. intros a b; destruct a, b; cbv; congruence. Qed.

Lemma kvkw_eqb_eq : forall a b, kvkw_eqb a b = true -> a = b.
Proof. intros a b; destruct a, b; cbv; congruence. Qed.

Lemma leqb_eq : forall (l : list expr),
  Forall (fun x => forall y, expr_eqb x y = true -> x = y) l ->
  forall m, leqb expr expr_eqb l m = true -> l = m.
Proof.
  induction 1 as [|x l Hx _ IH]; intros m H; destruct m; cbn in H; try discriminate; auto.
  apply andb_true_iff in H. destruct H as [H1 H2]. f_equal; auto.
Qed.

Lemma expr_eqb_eq : forall a b, expr_eqb a b = true -> a = b.
Proof.
  induction a using expr_ind_c; intros y0 Hb; destruct y0; cbn [expr_eqb] in Hb; try discriminate;
    repeat match goal with
           | H : _ && _ = true |- _ => apply andb_true_iff in H; destruct H
           end;
    repeat match goal with
           | H : Nat.eqb _ _ = true |- _ => apply Nat.eqb_eq in H
           | H : String.eqb _ _ = true |- _ => apply String.eqb_eq in H
           | H : Bool.eqb _ _ = true |- _ => apply Bool.eqb_prop in H
           | H : op_eqb _ _ = true |- _ => apply op_eqb_eq in H
           | H : kvkw_eqb _ _ = true |- _ => apply kvkw_eqb_eq in H
           | H : leqb _ _ _ _ = true |- _ => apply leqb_eq in H; [|assumption]
           | IH : forall y, expr_eqb ?a y = true -> ?a = y, H : expr_eqb ?a _ = true |- _ => apply IH in H
           end; subst; reflexivity.
Qed.

Lemma expr_eqb_refl : forall a, expr_eqb a a = true.
Proof.
  induction a using expr_ind_c; cbn [expr_eqb];
    rewrite ?Nat.eqb_refl, ?String.eqb_refl, ?eqb_reflx; cbn [andb];
    repeat match goal with H : expr_eqb _ _ = true |- _ => rewrite H; clear H end; cbn [andb]; auto.
  - destruct o; reflexivity.
  - destruct f; reflexivity.
  - induction H as [|x l Hx _ IH]; cbn; [reflexivity | rewrite Hx, IH; reflexivity].
  - induction H as [|x l Hx _ IH]; cbn; [reflexivity | rewrite Hx, IH; reflexivity].
Qed.

Section Sim.
Variable fo : fops.
Variable re_match : bytes -> bytes -> res bool.
Notation value := (value fo).
Notation cache := (cache fo).
Notation eval := (eval fo re_match).
Notation eval_c := (eval_c fo re_match).

(* ------------------------------------------------------------------ the simulation relation *)

(* [rc], a computation on the context started in a good context, returns what the cache-free
   result [r] is, and ends in a good context *)
Definition simr {A} (Q : cache -> Prop) (r : res A) (rc : res (A * cache)) : Prop :=
  match r with
  | Ok a => exists c', rc = Ok (a, c') /\ Q c'
  | Err e => rc = Err e
  | Panic => rc = Panic
  | OutOfModel => rc = OutOfModel
  end.

Lemma sim_ret {A} (Q : cache -> Prop) (a : A) c : Q c -> simr Q (Ok a) (ret fo a c).
Proof. intros H; cbn; unfold ret; exists c; split; [reflexivity|assumption]. Qed.

Lemma sim_lift {A} (Q : cache -> Prop) (r : res A) c : Q c -> simr Q r (lift fo r c).
Proof. intros H; destruct r; cbn; unfold lift; try reflexivity; exists c; split; [reflexivity|assumption]. Qed.

Lemma sim_fail {A} (Q : cache -> Prop) e c : simr Q (@Err A e) (@fail fo A e c).
Proof. reflexivity. Qed.

Lemma sim_bind {A B} (Q : cache -> Prop) (r : res A) (m : M fo A) (g : A -> res B) (f : A -> M fo B) c :
  simr Q r (m c) ->
  (forall a c', Q c' -> simr Q (g a) (f a c')) ->
  simr Q (bind r g) (bindc fo m f c).
Proof.
  intros H Hf. unfold bindc. destruct r as [a|e| |]; cbn in H |- *.
  - destruct H as (c' & -> & Hq). apply Hf, Hq.
  - rewrite H; reflexivity.
  - rewrite H; reflexivity.
  - rewrite H; reflexivity.
Qed.

(* a computation that continues after a bind whose cache-free side is not a bind: used where
   eval matches on the intermediate value *)
Lemma sim_bind_ok {A B} (Q : cache -> Prop) (r : res A) (m : M fo A) (rb : res B) (f : A -> M fo B) c :
  simr Q r (m c) ->
  (forall a, r = Ok a -> forall c', Q c' -> simr Q rb (f a c')) ->
  (forall e, r = Err e -> rb = Err e) -> (r = Panic -> rb = Panic) -> (r = OutOfModel -> rb = OutOfModel) ->
  simr Q rb (bindc fo m f c).
Proof.
  intros H Hf He Hp Ho. unfold bindc. destruct r as [a|e| |]; cbn in H.
  - destruct H as (c' & -> & Hq). apply (Hf a eq_refl), Hq.
  - rewrite H, (He e eq_refl); reflexivity.
  - rewrite H, (Hp eq_refl); reflexivity.
  - rewrite H, (Ho eq_refl); reflexivity.
Qed.

(* ------------------------------------------------------------------ alias uses that carry a known definition *)

Section Refs.
Variable R : string -> expr -> Prop.

Fixpoint refs_ok (e : expr) : Prop :=
  match e with
  | EBin _ _ l r => refs_ok l /\ refs_ok r
  | ENot _ r => refs_ok r
  | ECall _ n args => refs_ok n /\ (fix all (l : list expr) : Prop :=
                                      match l with [] => True | x :: l' => refs_ok x /\ all l' end) args
  | ERef _ a d => R a d /\ refs_ok d
  | EList _ l => (fix all (l : list expr) : Prop :=
                    match l with [] => True | x :: l' => refs_ok x /\ all l' end) l
  | EAccess _ l f => refs_ok l /\ refs_ok f
  | _ => True
  end.

Fixpoint all_refs_ok (l : list expr) : Prop :=
  match l with [] => True | x :: l' => refs_ok x /\ all_refs_ok l' end.

Lemma refs_ok_call p n args : refs_ok (ECall p n args) = (refs_ok n /\ all_refs_ok args).
Proof. reflexivity. Qed.
Lemma refs_ok_list p l : refs_ok (EList p l) = all_refs_ok l.
Proof. reflexivity. Qed.
End Refs.

(* ------------------------------------------------------------------ the generic simulation *)

Section Generic.
Variable on : bool.
Variable k v : bytes.
Variable Q : cache -> Prop.
Variable R : string -> expr -> Prop.

Definition SimE (e : expr) : Prop :=
  refs_ok R e -> forall c, Q c -> simr Q (eval k v e) (eval_c on k v e c).

(* what FieldReferenceExpr.Execute needs, given that its definition simulates *)
Hypothesis Href : forall p a d, R a d ->
  (forall c, Q c -> simr Q (eval k v d) (eval_c on k v d c)) ->
  forall c, Q c -> simr Q (eval k v d) (eval_c on k v (ERef p a d) c).

Definition items_S (e : expr) : Prop :=
  match e with EList _ items => Forall SimE items | _ => True end.

Lemma args_sim : forall args, Forall SimE args -> all_refs_ok R args -> forall c, Q c ->
  exists c', args_c fo (eval_c on k v) args c = (map (eval k v) args, c') /\ Q c'.
Proof.
  induction 1 as [|a args Ha _ IH]; intros Hr c Hq; cbn [args_c map].
  - eauto.
  - destruct Hr as [Hra Hrl]. specialize (Ha Hra c Hq). unfold args_step.
    destruct (eval k v a) as [x|e| |] eqn:E; cbn in Ha.
    + destruct Ha as (c1 & -> & Hq1). destruct (IH Hrl c1 Hq1) as (c2 & -> & Hq2). eauto.
    + rewrite Ha. destruct (IH Hrl c Hq) as (c2 & -> & Hq2). eauto.
    + rewrite Ha. destruct (IH Hrl c Hq) as (c2 & -> & Hq2). eauto.
    + rewrite Ha. destruct (IH Hrl c Hq) as (c2 & -> & Hq2). eauto.
Qed.

Lemma in_sim : forall lv number items, Forall SimE items -> all_refs_ok R items -> forall c, Q c ->
  simr Q (in_list fo lv number items (map (eval k v) items))
         (in_c fo (eval_c on k v) lv number items c).
Proof.
  induction 1 as [|it items Hi _ IH]; intros Hr c Hq; cbn [in_c in_list map].
  - apply sim_ret, Hq.
  - destruct Hr as [Hri Hrl].
    destruct (negb (ty_eqb (rtype it) (if number then TNumber else TStr))); [apply sim_fail|].
    apply sim_bind; [apply Hi; assumption|]. intros iv c1 Hq1.
    apply sim_bind; [apply sim_lift, Hq1|]. intros b c2 Hq2.
    destruct b; [apply sim_ret, Hq2 | apply IH; assumption].
Qed.

Ltac both_tac Hl Hr Hrl Hrr c Hq :=
  apply sim_bind; [apply Hl; assumption|]; intros ? ? ?;
  apply sim_bind; [apply Hr; assumption|]; intros ? ? ?;
  apply sim_lift; assumption.

Lemma eval_c_sim_strong : forall e, SimE e /\ items_S e.
Proof.
  induction e using expr_ind_c.
  - (* EBin *)
    destruct IHe1 as [Hl _]. destruct IHe2 as [Hr Hitems]. split; [|exact I].
    intros [Hrl Hrr] c Hq. cbn [eval Cache.eval_c].
    destruct o; cbv zeta beta;
      try (both_tac Hl Hr Hrl Hrr c Hq).
    + (* OAnd *)
      apply sim_bind; [apply Hl; assumption|]. intros lv c1 Hq1.
      destruct lv; try apply sim_fail. destruct b; [|apply sim_ret, Hq1].
      apply sim_bind; [apply Hr; assumption|]. intros rv c2 Hq2.
      destruct rv; try apply sim_fail. apply sim_ret, Hq2.
    + (* OOr *)
      apply sim_bind; [apply Hl; assumption|]. intros lv c1 Hq1.
      destruct lv; try apply sim_fail. destruct b; [apply sim_ret, Hq1|].
      apply sim_bind; [apply Hr; assumption|]. intros rv c2 Hq2.
      destruct rv; try apply sim_fail. apply sim_ret, Hq2.
    + (* ONot *) apply sim_fail.
    + (* OAdd *) destruct (rtype e1); both_tac Hl Hr Hrl Hrr c Hq.
    + (* OIn *)
      apply sim_bind; [apply Hl; assumption|]. intros lv c1 Hq1.
      destruct e2; try apply sim_fail.
      * (* ECall *)
        destruct (negb (ty_eqb (rtype (ECall pos e2 args)) TList)); [apply sim_fail|].
        apply sim_bind; [apply Hr; assumption|]. intros fv c2 Hq2.
        destruct (unpack_list fo fv); [apply sim_ret, Hq2 | apply sim_fail].
      * (* ERef *)
        destruct (negb (ty_eqb (rtype (ERef pos name e2)) TList)); [apply sim_fail|].
        apply sim_bind; [apply Hr; assumption|]. intros fv c2 Hq2.
        destruct (unpack_list fo fv); [apply sim_ret, Hq2 | apply sim_fail].
      * (* EList *)
        apply sim_bind; [apply in_sim; [exact Hitems | exact Hrr | exact Hq1]|].
        intros b c2 Hq2. apply sim_ret, Hq2.
    + (* OBetween *)
      apply sim_bind; [apply Hl; assumption|]. intros lv c1 Hq1.
      destruct e2; try apply sim_fail.
      destruct l as [|lo [|hi [|]]]; try apply sim_fail.
      cbn in Hitems. inversion Hitems as [|? ? Hlo Hrest]; subst. inversion Hrest as [|? ? Hhi _]; subst.
      destruct Hrr as (Hrlo & Hrhi & _).
      destruct (negb (ty_eqb (rtype lo) _)); [apply sim_fail|].
      destruct (negb (ty_eqb (rtype hi) _)); [apply sim_fail|].
      apply sim_bind; [apply Hlo; assumption|]. intros lov c2 Hq2.
      apply sim_bind; [apply Hhi; assumption|]. intros hiv c3 Hq3.
      apply sim_lift, Hq3.
    + (* OKWAnd *)
      apply sim_bind; [apply Hl; assumption|]. intros lv c1 Hq1.
      destruct lv; try apply sim_fail. destruct b; [|apply sim_ret, Hq1].
      apply sim_bind; [apply Hr; assumption|]. intros rv c2 Hq2.
      destruct rv; try apply sim_fail. apply sim_ret, Hq2.
    + (* OKWOr *)
      apply sim_bind; [apply Hl; assumption|]. intros lv c1 Hq1.
      destruct lv; try apply sim_fail. destruct b; [apply sim_ret, Hq1|].
      apply sim_bind; [apply Hr; assumption|]. intros rv c2 Hq2.
      destruct rv; try apply sim_fail. apply sim_ret, Hq2.
  - (* EField *) split; [|exact I]. intros _ c Hq. destruct f; apply sim_ret, Hq.
  - (* EStr *) split; [|exact I]. intros _ c Hq. apply sim_ret, Hq.
  - (* ENot *)
    destruct IHe as [Hr _]. split; [|exact I]. intros Hrr c Hq. cbn [eval Cache.eval_c].
    apply sim_bind; [apply Hr; assumption|]. intros rv c1 Hq1.
    destruct rv; try apply sim_fail. apply sim_ret, Hq1.
  - (* ECall *)
    split; [|exact I]. intros Hr c Hq. rewrite refs_ok_call in Hr. destruct Hr as [_ Hra].
    cbn [eval Cache.eval_c].
    destruct e; try apply sim_fail.
    destruct (call_name (EName pos s)); [|apply sim_lift, Hq].
    destruct (func_info s0) as [[[nargs varargs] t]|]; [|apply sim_fail].
    match goal with |- context [if ?b then _ else _] => destruct b end; [apply sim_fail|].
    assert (HS : Forall SimE args).
    { clear -H. induction H as [|x l [Hx _] _ IH]; constructor; auto. }
    destruct (args_sim args HS Hra c Hq) as (c' & -> & Hq'). apply sim_lift, Hq'.
  - (* EName *) split; [|exact I]. intros _ c Hq. apply sim_ret, Hq.
  - (* ERef *)
    destruct IHe as [Hd _]. split; [|exact I]. intros [Hra Hrd] c Hq.
    cbn [eval]. apply Href; [assumption | intros; apply Hd; assumption | assumption].
  - (* ENum *) split; [|exact I]. intros _ c Hq. apply sim_ret, Hq.
  - (* EFloat *) split; [|exact I]. intros _ c Hq. cbn [eval Cache.eval_c]. apply sim_lift, Hq.
  - (* EBool *) split; [|exact I]. intros _ c Hq. apply sim_ret, Hq.
  - (* EList *)
    split.
    + intros _ c Hq. apply sim_ret, Hq.
    + cbn. clear -H. induction H as [|x l [Hx _] _ IH]; constructor; auto.
  - (* EAccess *)
    destruct IHe1 as [Hl _]. split; [|exact I]. intros [Hrl _] c Hq. cbn [eval Cache.eval_c].
    apply sim_bind; [apply Hl; assumption|]. intros lv c1 Hq1.
    destruct e2; try apply sim_fail.
    + destruct lv; try apply sim_fail. destruct s0; [apply sim_ret, Hq1 | apply sim_fail].
    + destruct lv; try apply sim_fail; try apply sim_ret, Hq1.
      destruct s; [apply sim_ret, Hq1 | apply sim_fail].
Qed.

Lemma eval_c_sim : forall e, refs_ok R e -> forall c, Q c -> simr Q (eval k v e) (eval_c on k v e c).
Proof. intros e. apply (proj1 (eval_c_sim_strong e)). Qed.

End Generic.
End Sim.

(* ================================================================== Part 1: the two instances *)
Section Instances.
Variable fo : fops.
Variable re_match : bytes -> bytes -> res bool.
Notation value := (value fo).
Notation cache := (cache fo).
Notation eval := (eval fo re_match).
Notation eval_c := (eval_c fo re_match).

Lemma refs_ok_trivial : forall e, refs_ok (fun _ _ => True) e.
Proof.
  induction e using expr_ind_c; cbn; auto.
  - split; [assumption|]. induction H; cbn; auto.
  - induction H; cbn; auto.
Qed.

(* ---- cache off: eval_c is eval, and the context is left alone *)
Theorem eval_c_off : forall k v e c,
  eval_c false k v e c = lift fo (eval k v e) c.
Proof.
  intros k v e c.
  assert (H := eval_c_sim fo re_match false k v (fun c' => c' = c) (fun _ _ => True)).
  assert (Hs : simr fo (fun c' => c' = c) (eval k v e) (eval_c false k v e c)).
  { apply H; [|apply refs_ok_trivial|reflexivity].
    intros p a d _ Hd c0 Hq. cbn [Cache.eval_c]. apply Hd; assumption. }
  unfold simr in Hs. destruct (eval k v e); cbn [lift].
  - destruct Hs as (c' & -> & ->). reflexivity.
  - assumption.
  - assumption.
  - assumption.
Qed.

(* ---- cache on *)

(* every entry is the value, on the current pair, of the definition the select list gives
   its name *)
Definition cache_ok (env : list (string * expr)) (k v : bytes) (c : cache) : Prop :=
  forall a x, cache_get fo c a = Some x ->
    exists d, lookup env a = Some d /\ eval k v d = Ok x.

Lemma cache_ok_empty env k v : cache_ok env k v [].
Proof. intros a x H; discriminate. Qed.

Lemma cache_ok_set env k v c a d x :
  cache_ok env k v c -> lookup env a = Some d -> eval k v d = Ok x ->
  cache_ok env k v (cache_set fo c a x).
Proof.
  intros Hc Hl He a' x' H. unfold cache_set in H. cbn [cache_get] in H.
  destruct (String.eqb a a') eqn:E.
  - apply String.eqb_eq in E. subst a'. inversion H; subst. eauto.
  - apply Hc, H.
Qed.

Definition Renv (env : list (string * expr)) (a : string) (d : expr) : Prop := lookup env a = Some d.

Lemma forallb_all_refs env l :
  Forall (fun e => coherent env e = true -> refs_ok (Renv env) e) l ->
  forallb (coherent env) l = true -> all_refs_ok (Renv env) l.
Proof.
  induction 1 as [|x l Hx _ IH]; cbn; intros Hf; [exact I|].
  apply andb_true_iff in Hf. destruct Hf. split; auto.
Qed.

Lemma coherent_refs_ok env : forall e, coherent env e = true -> refs_ok (Renv env) e.
Proof.
  induction e using expr_ind_c; intros Hc; cbn [coherent] in Hc; try exact I.
  - apply andb_true_iff in Hc. destruct Hc. split; auto.
  - cbn. auto.
  - apply andb_true_iff in Hc. destruct Hc as [Hn Ha]. rewrite refs_ok_call.
    split; [auto | apply forallb_all_refs; assumption].
  - destruct (lookup env nm) as [d'|] eqn:L; [|discriminate].
    apply andb_true_iff in Hc. destruct Hc as [He Hd]. apply expr_eqb_eq in He. subst d'.
    split; [exact L | auto].
  - rewrite refs_ok_list. apply forallb_all_refs; assumption.
  - apply andb_true_iff in Hc. destruct Hc. split; auto.
Qed.

Lemma href_on env k v : forall p a d, Renv env a d ->
  (forall c, cache_ok env k v c -> simr fo (cache_ok env k v) (eval k v d) (eval_c true k v d c)) ->
  forall c, cache_ok env k v c ->
  simr fo (cache_ok env k v) (eval k v d) (eval_c true k v (ERef p a d) c).
Proof.
  intros p a d Hr Hd c Hq. cbn [Cache.eval_c].
  destruct (cache_get fo c a) as [x|] eqn:G.
  - destruct (Hq a x G) as (d' & Hl & He). unfold Renv in Hr. rewrite Hr in Hl. inversion Hl; subst d'.
    rewrite He. cbn. eauto.
  - (* miss: evaluate the definition, store the result *)
    specialize (Hd c Hq). unfold bindc.
    destruct (eval k v d) as [x|e| |] eqn:E; cbn in Hd |- *.
    + destruct Hd as (c1 & -> & Hq1). exists (cache_set fo c1 a x). split; [reflexivity|].
      eapply cache_ok_set; eauto.
    + rewrite Hd; reflexivity.
    + rewrite Hd; reflexivity.
    + rewrite Hd; reflexivity.
Qed.

(* with the cache on, started in a context whose entries are right for the pair, evaluation
   returns what the cache-free evaluator returns and leaves such a context *)
Theorem eval_c_on : forall env k v e, coherent env e = true ->
  forall c, cache_ok env k v c ->
  simr fo (cache_ok env k v) (eval k v e) (eval_c true k v e c).
Proof.
  intros env k v e Hc c Hq.
  apply (eval_c_sim fo re_match true k v (cache_ok env k v) (Renv env)); auto.
  - apply href_on.
  - apply coherent_refs_ok, Hc.
Qed.

(* both settings at once: the contexts a run can be in *)
Definition good (on : bool) (env : list (string * expr)) (k v : bytes) (c : cache) : Prop :=
  if on then cache_ok env k v c else c = [].

Lemma good_empty on env k v : good on env k v [].
Proof. destruct on; cbn; [apply cache_ok_empty | reflexivity]. Qed.

Lemma eval_c_good : forall on env k v e, coherent env e = true ->
  forall c, good on env k v c ->
  simr fo (good on env k v) (eval k v e) (eval_c on k v e c).
Proof.
  intros [|] env k v e Hc c Hq; cbn [good] in *.
  - apply eval_c_on; assumption.
  - subst c. rewrite eval_c_off. destruct (eval k v e); cbn; eauto.
Qed.

End Instances.

(* ================================================================== Part 2: row-at-a-time plans *)
Section Plans.
Variable fo : fops.
Variable re_match : bytes -> bytes -> res bool.
Notation value := (value fo).
Notation cache := (cache fo).
Notation eval := (eval fo re_match).
Notation eval_c := (eval_c fo re_match).
Notation good := (good fo re_match).

(* FilterExec.Filter (with ctx.Clear() at entry): whatever context it is entered with *)
Lemma filter_sim on env k v wh c : coherent env wh = true ->
  simr fo (good on env k v) (filter_row fo re_match k v wh)
          (filter_row_c fo re_match (fixed_code) on k v wh c).
Proof.
  intros Hc. unfold filter_row_c, filter_row. cbn [d6 fixed_code].
  apply sim_bind; [apply eval_c_good; [assumption | apply good_empty]|].
  intros r c1 Hq1. destruct r; try apply sim_fail. apply sim_ret, Hq1.
Qed.

(* the Next loop of a scan *)
Lemma scan_sim on env wh : coherent env wh = true -> forall ps c,
  match scan_spec fo re_match wh ps with
  | Ok (Some (k, v), rest) =>
      exists c', scan_next fo re_match fixed_code on wh ps c = Ok ((Some (k, v), rest), c') /\ good on env k v c'
  | Ok (None, rest) => exists c', scan_next fo re_match fixed_code on wh ps c = Ok ((None, rest), c')
  | Err e => scan_next fo re_match fixed_code on wh ps c = Err e
  | Panic => scan_next fo re_match fixed_code on wh ps c = Panic
  | OutOfModel => scan_next fo re_match fixed_code on wh ps c = OutOfModel
  end.
Proof.
  intros Hc. induction ps as [|[k v] ps IH]; intros c; cbn [scan_spec scan_next].
  - unfold ret. eauto.
  - pose proof (filter_sim on env k v wh c Hc) as Hf. unfold bindc.
    destruct (filter_row fo re_match k v wh) as [ok|e| |]; cbn in Hf |- *.
    + destruct Hf as (c1 & -> & Hq1). destruct ok.
      * unfold ret. eauto.
      * apply IH.
    + rewrite Hf; reflexivity.
    + rewrite Hf; reflexivity.
    + rewrite Hf; reflexivity.
Qed.

Lemma lookup_first : forall (pre : list (string * expr)) a f rest,
  owns_name (map fst pre) a = true -> lookup (pre ++ (a, f) :: rest) a = Some f.
Proof.
  induction pre as [|[n d] pre IH]; intros a f rest H; cbn.
  - rewrite String.eqb_refl. reflexivity.
  - unfold owns_name in H. cbn in H. apply negb_true_iff in H. apply orb_false_iff in H.
    destruct H as [H1 H2]. rewrite String.eqb_sym, H1. apply IH.
    unfold owns_name. rewrite H2. reflexivity.
Qed.

(* processProjection *)
Lemma project_sim on env k v : forall nfs pre, env = pre ++ nfs ->
  forallb (coherent env) (map snd nfs) = true ->
  forall c, good on env k v c ->
  simr fo (good on env k v) (eval_fields fo re_match k v (map snd nfs))
          (project_fields fo re_match fixed_code on k v (map fst pre) nfs c).
Proof.
  induction nfs as [|[a f] nfs IH]; intros pre Henv Hco c Hq; cbn [map snd fst eval_fields project_fields].
  - apply sim_ret, Hq.
  - cbn [map snd forallb] in Hco. apply andb_true_iff in Hco. destruct Hco as [Hcf Hcr].
    apply sim_bind.
    + cbn [dupfix fixed_code negb orb].
      destruct (on && owns_name (map fst pre) a) eqn:Eo.
      * destruct (cache_get fo c a) as [x|] eqn:G.
        -- apply andb_true_iff in Eo. destruct Eo as [-> Eown]. unfold good in Hq.
           destruct (Hq a x G) as (d & Hl & He).
           rewrite Henv, (lookup_first pre a f nfs Eown) in Hl. inversion Hl; subst d.
           rewrite He. cbn. eauto.
        -- apply eval_c_good; assumption.
      * apply eval_c_good; assumption.
    + intros x c1 Hq1. destruct (column_ok fo x); [|apply sim_fail].
      apply sim_bind.
      * replace (map fst pre ++ [a])%list with (map fst (pre ++ [(a, f)])) by (rewrite map_app; reflexivity).
        apply IH; [rewrite <- app_assoc; exact Henv | exact Hcr | exact Hq1].
      * intros xs c2 Hq2. apply sim_ret, Hq2.
Qed.

Lemma map_snd_combine : forall (A B : Type) (l : list A) (m : list B),
  List.length l = List.length m -> map snd (combine l m) = m.
Proof.
  induction l; destruct m; cbn; intros H; try discriminate; auto. f_equal. apply IHl. lia.
Qed.

(* ProjectionPlan.Next *)
Lemma proj_next_spec on s ps : stmt_ok s = true ->
  match scan_spec fo re_match (s_where s) ps with
  | Ok (None, rest) => exists c, proj_next fo re_match fixed_code on s ps = Ok (None, rest, c)
  | Ok (Some (k, v), rest) =>
      match eval_fields fo re_match k v (s_fields s) with
      | Ok row => exists c, proj_next fo re_match fixed_code on s ps = Ok (Some row, rest, c)
      | Err e => proj_next fo re_match fixed_code on s ps = Err e
      | Panic => proj_next fo re_match fixed_code on s ps = Panic
      | OutOfModel => proj_next fo re_match fixed_code on s ps = OutOfModel
      end
  | Err e => proj_next fo re_match fixed_code on s ps = Err e
  | Panic => proj_next fo re_match fixed_code on s ps = Panic
  | OutOfModel => proj_next fo re_match fixed_code on s ps = OutOfModel
  end.
Proof.
  intros Hok. unfold stmt_ok in Hok.
  apply andb_true_iff in Hok. destruct Hok as [Hok Hcf]. apply andb_true_iff in Hok. destruct Hok as [Hlen Hcw].
  apply Nat.eqb_eq in Hlen.
  unfold proj_next. pose proof (scan_sim on (env_of s) (s_where s) Hcw ps []) as Hs.
  destruct (scan_spec fo re_match (s_where s) ps) as [[[[k v]|] rest]|e| |].
  - destruct Hs as (c' & -> & Hq).
    pose proof (project_sim on (env_of s) k v (env_of s) [] eq_refl) as Hp.
    assert (Hm : map snd (env_of s) = s_fields s) by (unfold env_of; apply map_snd_combine, Hlen).
    rewrite Hm in Hp.
    specialize (Hp Hcf c' Hq). unfold project_row. cbn [map] in Hp.
    destruct (eval_fields fo re_match k v (s_fields s)); cbn in Hp.
    + destruct Hp as (c2 & -> & _). eauto.
    + rewrite Hp; reflexivity.
    + rewrite Hp; reflexivity.
    + rewrite Hp; reflexivity.
  - destruct Hs as (c' & ->). eauto.
  - rewrite Hs; reflexivity.
  - rewrite Hs; reflexivity.
  - rewrite Hs; reflexivity.
Qed.

Lemma scan_spec_shorter wh : forall ps kv rest,
  scan_spec fo re_match wh ps = Ok (Some kv, rest) -> List.length rest < List.length ps.
Proof.
  induction ps as [|[k v] ps IH]; intros kv rest H; cbn [scan_spec] in H; [discriminate|].
  destruct (filter_row fo re_match k v wh) as [ok| | |]; cbn in H; try discriminate.
  destruct ok.
  - inversion H; subst. cbn. lia.
  - apply IH in H. cbn. lia.
Qed.

Lemma spec_rows_scan wh fs : forall ps,
  spec_rows fo re_match wh fs ps =
  match scan_spec fo re_match wh ps with
  | Ok (None, _) => Ok []
  | Ok (Some (k, v), rest) =>
      do row <- eval_fields fo re_match k v fs;
      do rows <- spec_rows fo re_match wh fs rest; Ok (row :: rows)
  | Err e => Err e
  | Panic => Panic
  | OutOfModel => OutOfModel
  end.
Proof.
  induction ps as [|[k v] ps IH]; cbn [spec_rows scan_spec]; [reflexivity|].
  destruct (filter_row fo re_match k v wh) as [ok| | |]; cbn; try reflexivity.
  destruct ok; [reflexivity | apply IH].
Qed.

Lemma drain_spec on s : stmt_ok s = true -> forall fuel ps, List.length ps < fuel ->
  drain_row_fuel fo re_match fuel fixed_code on s ps =
  spec_rows fo re_match (s_where s) (s_fields s) ps.
Proof.
  intros Hok. induction fuel as [|fuel IH]; intros ps Hlt; [lia|].
  cbn [drain_row_fuel]. rewrite spec_rows_scan.
  pose proof (proj_next_spec on s ps Hok) as Hp.
  destruct (scan_spec fo re_match (s_where s) ps) as [[[[k v]|] rest]|e| |] eqn:Es.
  - destruct (eval_fields fo re_match k v (s_fields s)) as [row|e| |].
    + destruct Hp as (c & ->). cbn [bind]. rewrite IH; [reflexivity|].
      apply scan_spec_shorter in Es. lia.
    + rewrite Hp; reflexivity.
    + rewrite Hp; reflexivity.
    + rewrite Hp; reflexivity.
  - destruct Hp as (c & ->). reflexivity.
  - rewrite Hp; reflexivity.
  - rewrite Hp; reflexivity.
  - rewrite Hp; reflexivity.
Qed.

(* Draining an accepted statement row-at-a-time gives exactly the cache-free rows, whether the
   field cache is on or off, whatever pairs are rejected in between. *)
Theorem drain_row_is_spec : forall on s ps, stmt_ok s = true ->
  drain_row fo re_match fixed_code on s ps = spec_rows fo re_match (s_where s) (s_fields s) ps.
Proof. intros. unfold drain_row. apply drain_spec; [assumption | lia]. Qed.

Theorem cache_invisible_row_lemma : forall s ps, stmt_ok s = true ->
  drain_row fo re_match fixed_code true s ps = drain_row fo re_match fixed_code false s ps.
Proof. intros. rewrite !drain_row_is_spec by assumption. reflexivity. Qed.

End Plans.

(* ================================================================== Part 3: the shape of the rows *)
Section Shape.
Variable fo : fops.
Variable re_match : bytes -> bytes -> res bool.
Notation eval := (eval fo re_match).

(* the WHERE clause accepts the pair *)
Definition accepts (wh : expr) (kv : bytes * bytes) : bool :=
  match filter_row fo re_match (fst kv) (snd kv) wh with Ok true => true | _ => false end.

(* column j of the row is the value of field j on the pair *)
Definition row_of (fs : list expr) (kv : bytes * bytes) (row : list (value fo)) : Prop :=
  Forall2 (fun f x => eval (fst kv) (snd kv) f = Ok x) fs row.

Lemma eval_fields_shape k v : forall fs row,
  eval_fields fo re_match k v fs = Ok row -> row_of fs (k, v) row.
Proof.
  induction fs as [|f fs IH]; intros row H; cbn [eval_fields] in H.
  - inversion H. constructor.
  - destruct (eval k v f) as [x| | |] eqn:E; cbn in H; try discriminate.
    destruct (column_ok fo x); [|discriminate].
    destruct (eval_fields fo re_match k v fs) as [xs| | |]; cbn in H; try discriminate.
    inversion H; subst. constructor; [exact E | apply IH; reflexivity].
Qed.

Lemma spec_rows_shape wh fs : forall ps rows,
  spec_rows fo re_match wh fs ps = Ok rows ->
  Forall2 (row_of fs) (filter (accepts wh) ps) rows.
Proof.
  induction ps as [|[k v] ps IH]; intros rows H; cbn [spec_rows] in H.
  - inversion H. constructor.
  - cbn [filter]. unfold accepts at 1. cbn [fst snd].
    destruct (filter_row fo re_match k v wh) as [ok| | |]; cbn in H; try discriminate.
    destruct ok; [|apply IH, H].
    destruct (eval_fields fo re_match k v fs) as [row| | |] eqn:Er; cbn in H; try discriminate.
    destruct (spec_rows fo re_match wh fs ps) as [rest| | |]; cbn in H; try discriminate.
    inversion H; subst. constructor; [apply eval_fields_shape, Er | apply IH; reflexivity].
Qed.

Lemma row_of_length fs kv row : row_of fs kv row -> List.length row = List.length fs.
Proof. induction 1; cbn; auto. Qed.

(* Every row a drained statement returns has exactly one column per announced field name, in
   the announced order, column j being the value of field j's expression on the row's pair;
   the rows are those of the accepted pairs, in scan order. *)
Theorem row_shape_lemma : forall on s ps rows, stmt_ok s = true ->
  drain_row fo re_match fixed_code on s ps = Ok rows ->
  Forall2 (row_of (s_fields s)) (filter (accepts (s_where s)) ps) rows /\
  Forall (fun row => List.length row = List.length (s_names s)) rows.
Proof.
  intros on s ps rows Hok H. rewrite drain_row_is_spec in H by assumption.
  apply spec_rows_shape in H. split; [exact H|].
  unfold stmt_ok in Hok. apply andb_true_iff in Hok. destruct Hok as [Hok _].
  apply andb_true_iff in Hok. destruct Hok as [Hlen _]. apply Nat.eqb_eq in Hlen.
  rewrite Hlen. clear -H. induction H; constructor; auto. eapply row_of_length; eassumption.
Qed.

End Shape.

(* ================================================================== Part 5: chunk-cache bookkeeping *)
Section ChunkProofs.
Variables (P X : Type).
Variable pass : P -> bool.
Variable val : string -> P -> X.
Notation ccache := (ccache X).

(* the indexes (counted from i) of the rows the filter accepts *)
Fixpoint positions (i : nat) (l : list P) : list nat :=
  match l with
  | [] => []
  | r :: l' => if pass r then i :: positions (S i) l' else positions (S i) l'
  end.

Lemma positions_ge : forall l i j, In j (positions i l) -> i <= j.
Proof.
  induction l as [|r l IH]; intros i j H; cbn in H; [contradiction|].
  destruct (pass r); [destruct H as [<-|H]|]; try lia; apply IH in H; lia.
Qed.

Lemma positions_app : forall l m i,
  positions i (l ++ m) = positions i l ++ positions (i + List.length l) m.
Proof.
  induction l as [|r l IH]; intros m i; cbn.
  - rewrite Nat.add_0_r. reflexivity.
  - rewrite IH. replace (S i + List.length l) with (i + S (List.length l)) by lia.
    destruct (pass r); reflexivity.
Qed.

(* AdjustChunkCache keeps exactly the accepted rows' items *)
Lemma keep_from_spec (f : P -> X) : forall l i idxs,
  (forall j, i <= j -> (existsb (Nat.eqb j) idxs = true <-> In j (positions i l))) ->
  keep_from X i idxs (map f l) = map f (filter pass l).
Proof.
  induction l as [|r l IH]; intros i idxs H; cbn [map keep_from filter]; [reflexivity|].
  assert (Hi : existsb (Nat.eqb i) idxs = pass r).
  { specialize (H i (le_n i)). cbn [positions] in H. destruct (pass r).
    - apply H. left; reflexivity.
    - destruct (existsb (Nat.eqb i) idxs); [|reflexivity].
      destruct H as [H _]. specialize (H eq_refl). apply positions_ge in H. lia. }
  assert (Hrec : forall j, S i <= j -> (existsb (Nat.eqb j) idxs = true <-> In j (positions (S i) l))).
  { intros j Hj. rewrite (H j) by lia. cbn [positions]. destruct (pass r); [|reflexivity].
    split; [intros [E|E]; [lia|exact E] | intros E; right; exact E]. }
  rewrite Hi. destruct (pass r); cbn [map]; [f_equal|]; apply IH; exact Hrec.
Qed.

Lemma keep_positions (f : P -> X) : forall l,
  keep_from X 0 (positions 0 l) (map f l) = map f (filter pass l).
Proof.
  intros l. apply keep_from_spec. intros j _. rewrite existsb_exists. split.
  - intros (x & Hx & E). apply Nat.eqb_eq in E. subst; exact Hx.
  - intros Hj. exists j. split; [exact Hj | apply Nat.eqb_refl].
Qed.

(* the matchs loop *)
Lemma take_matches_spec : forall ch rt idxs bidx count,
  take_matches P pass true ch rt idxs bidx count =
  (rt ++ filter pass ch, idxs ++ positions bidx ch, bidx + List.length ch,
   count + List.length (filter pass ch)).
Proof.
  induction ch as [|r ch IH]; intros rt idxs bidx count; cbn [take_matches filter positions List.length].
  - rewrite !app_nil_r, !Nat.add_0_r. reflexivity.
  - destruct (pass r); rewrite IH; cbn [List.length]; rewrite <- ?app_assoc; cbn [app];
      rewrite ?Nat.add_succ_comm; reflexivity.
Qed.

(* the chunk cache while the scan reads: nothing before the first refill, then one column per
   alias the filter refers to, one item per row read *)
Definition cc_of (refd : list string) (started : bool) (all : list P) : ccache :=
  if started then map (fun a => (a, map (val a) all)) refd else [].

Lemma cc_get_map (F : string -> list X) : forall refd a, In a refd ->
  cc_get X (map (fun a => (a, F a)) refd) a = Some (F a).
Proof.
  induction refd as [|b refd IH]; intros a H; [contradiction|]. cbn [map cc_get].
  destruct (String.eqb b a) eqn:E.
  - apply String.eqb_eq in E. subst. reflexivity.
  - destruct H as [->|H]; [rewrite String.eqb_refl in E; discriminate | apply IH, H].
Qed.

Lemma cc_append_spec refd started all ch : (started = false -> all = []) ->
  cc_append P X val refd (cc_of refd started all) ch = cc_of refd true (all ++ ch).
Proof.
  intros Hs. unfold cc_append, cc_of. apply map_ext_in. intros a Ha. f_equal.
  destruct started.
  - rewrite (cc_get_map (fun a => map (val a) all) refd a Ha). rewrite map_app. reflexivity.
  - rewrite (Hs eq_refl). reflexivity.
Qed.

Lemma cc_get_adjust idxs : forall (cc : ccache) a col,
  cc_get X cc a = Some col -> cc_get X (adjust X idxs cc) a = Some (keep_from X 0 idxs col).
Proof.
  induction cc as [|[n c0] cc IH]; intros a col H; cbn in H |- *; [discriminate|].
  destruct (String.eqb n a); [inversion H; reflexivity | apply IH, H].
Qed.

(* the refill loop, from any state reached after reading [all] *)
Lemma scan_batch_loop_spec B refd : forall chunks started all count,
  (started = false -> all = []) ->
  exists n started',
    let all' := all ++ List.concat (firstn n chunks) in
    scan_batch_loop P X pass val true B refd chunks (filter pass all) (positions 0 all)
                    (List.length all) count (cc_of refd started all)
    = (filter pass all', adjust X (positions 0 all') (cc_of refd started' all')) /\
    (started' = false -> all' = []).
Proof.
  induction chunks as [|ch chunks IH]; intros started all count Hs; cbn [scan_batch_loop].
  - exists 0, started. cbn [firstn List.concat]. rewrite app_nil_r. auto.
  - destruct ch as [|r ch'].
    + exists 0, started. cbn [firstn List.concat]. rewrite app_nil_r. auto.
    + set (ch := r :: ch'). rewrite (cc_append_spec refd started all ch Hs).
      rewrite take_matches_spec.
      pose proof (positions_app all ch 0) as Hpa. cbn [Nat.add] in Hpa.
      rewrite <- filter_app, <- Hpa, <- app_length. clear Hpa.
      destruct (Nat.leb B _).
      * exists 1, true. cbn [firstn List.concat]. rewrite app_nil_r. split; [reflexivity | discriminate].
      * destruct (IH true (all ++ ch) (count + List.length (filter pass ch))) as (n & st' & Heq & Hst).
        { discriminate. }
        exists (S n), st'. cbn [firstn List.concat]. rewrite app_assoc. split; [exact Heq | exact Hst].
Qed.

(* After a scan's Batch (any batch size, any sequence of refills, whatever rows the filter
   rejects) every cached column is the alias evaluated on exactly the rows returned. *)
Theorem chunk_cache_exact_lemma : forall B refd chunks,
  let '(rows, cc) := scan_batch P X pass val true B refd chunks in
  (exists n, rows = filter pass (List.concat (firstn n chunks))) /\
  (forall a col, cc_get X cc a = Some col -> In a refd /\ col = map (val a) rows) /\
  (rows <> [] -> forall a, In a refd -> cc_get X cc a = Some (map (val a) rows)).
Proof.
  intros B refd chunks. unfold scan_batch.
  destruct (scan_batch_loop_spec B refd chunks false [] 0 (fun _ => eq_refl)) as (n & st & Heq & Hst).
  cbn [filter positions List.length cc_of app] in Heq. rewrite Heq.
  set (all := List.concat (firstn n chunks)) in *.
  split; [exists n; reflexivity|]. split.
  - intros a col H. destruct st; [|cbn in H; discriminate].
    unfold cc_of in H.
    assert (Hin : In a refd).
    { clear -H. induction refd as [|b refd IH]; cbn in H; [discriminate|].
      destruct (String.eqb b a) eqn:E; [apply String.eqb_eq in E; left; exact E | right; apply IH, H]. }
    split; [exact Hin|].
    rewrite (cc_get_adjust _ _ a _ (cc_get_map (fun a => map (val a) all) refd a Hin)) in H.
    inversion H. apply keep_positions.
  - intros Hne a Hin. destruct st.
    + unfold cc_of. rewrite (cc_get_adjust _ _ a _ (cc_get_map (fun a => map (val a) all) refd a Hin)).
      rewrite keep_positions. reflexivity.
    + pose proof (Hst eq_refl) as Hz. cbn [app] in Hz. rewrite Hz in Hne. cbn in Hne. contradiction.
Qed.

(* ---- the batch projection reads those columns *)

Lemma project_columns_cache (rows : list P) (cc : ccache) :
  (forall a col, cc_get X cc a = Some col -> col = map (val a) rows) ->
  forall (nfs : list (string * (P -> X))) seen,
  (forall pre a f post, nfs = pre ++ (a, f) :: post ->
     owns_name (seen ++ map fst pre) a = true -> forall p, In p rows -> f p = val a p) ->
  project_columns P X true cc seen nfs rows = project_columns P X false cc seen nfs rows.
Proof.
  intros Hcc. induction nfs as [|[a f] nfs IH]; intros seen Hdef; cbn [project_columns]; [reflexivity|].
  f_equal.
  - unfold field_column. cbn [andb].
    destruct (owns_name seen a) eqn:Eo; [|reflexivity].
    destruct (cc_get X cc a) as [col|] eqn:G; [|reflexivity].
    rewrite (Hcc a col G). apply map_ext_in. intros p Hp. symmetry.
    apply (Hdef [] a f nfs eq_refl); [cbn; rewrite app_nil_r; exact Eo | exact Hp].
  - apply IH. intros pre b g post Hn Hown p Hp.
    apply (Hdef ((a, f) :: pre) b g post); [cbn; rewrite Hn; reflexivity | | exact Hp].
    cbn [map fst]. rewrite <- app_assoc in Hown. exact Hown.
Qed.

(* Scan + projection of one batch: the rows are the same with the cache on and off, provided a
   field that owns an alias name computes that alias (fields are their own definitions). *)
Theorem cache_invisible_batch_lemma : forall B refd chunks (nfs : list (string * (P -> X))),
  (forall pre a f post, nfs = pre ++ (a, f) :: post ->
     owns_name (map fst pre) a = true -> forall p, f p = val a p) ->
  let '(rows, cc) := scan_batch P X pass val true B refd chunks in
  project_batch P X true cc nfs rows = project_batch P X false [] nfs rows.
Proof.
  intros B refd chunks nfs Hdef.
  pose proof (chunk_cache_exact_lemma B refd chunks) as H.
  destruct (scan_batch P X pass val true B refd chunks) as [rows cc].
  destruct H as (_ & Hcc & _).
  unfold project_batch.
  rewrite (project_columns_cache rows cc (fun a col G => proj2 (Hcc a col G)) nfs []).
  - assert (E : forall seen, project_columns P X false cc seen nfs rows = project_columns P X false [] seen nfs rows).
    { clear. induction nfs as [|[a f] nfs IH]; intros seen; cbn [project_columns]; [reflexivity|].
      rewrite IH. reflexivity. }
    rewrite E. reflexivity.
  - intros pre a f post Hn Hown p _. apply (Hdef pre a f post Hn Hown).
Qed.

End ChunkProofs.

(* ================================================================== Part 4: aliases are abbreviations *)
Section Expand.
Variable fo : fops.
Variable re_match : bytes -> bytes -> res bool.
Notation value := (value fo).
Notation eval := (eval fo re_match).

(* the same outcome: the same value, or a failure on both sides (an alias use and the
   expression written in its place sit at different offsets, so the position an error carries
   is not compared) *)
Definition same_outcome {A} (r r' : res A) : Prop :=
  match r, r' with
  | Ok a, Ok b => a = b
  | Err _, Err _ => True
  | Panic, Panic => True
  | OutOfModel, OutOfModel => True
  | _, _ => False
  end.

Lemma so_refl {A} (r : res A) : same_outcome r r.
Proof. destruct r; cbn; auto. Qed.

Lemma so_bind {A B} (r r' : res A) (f g : A -> res B) :
  same_outcome r r' -> (forall a, same_outcome (f a) (g a)) -> same_outcome (bind r f) (bind r' g).
Proof. intros H Hf. destruct r, r'; cbn in H |- *; try contradiction; subst; auto. Qed.

Lemma rtype_expand : forall e, rtype (expand e) = rtype e.
Proof.
  induction e using expr_ind_c; cbn [expand rtype]; auto.
  rewrite IHe1. reflexivity.
Qed.

Lemma expand_not_ref : forall e p a d, expand e <> ERef p a d.
Proof. induction e using expr_ind_c; cbn [expand]; intros; try discriminate. apply IHe. Qed.

Lemma expand_list_strip : forall e p l, expand e = EList p l -> is_list_node (strip e) = true.
Proof.
  induction e using expr_ind_c; cbn [expand strip]; intros q l0 H0; try discriminate.
  - eapply IHe; eassumption.
  - reflexivity.
Qed.

Lemma rtype_list_shape : forall e, rtype e = TList ->
  match e with ECall _ _ _ | EList _ _ | ERef _ _ _ => True | _ => False end.
Proof.
  destruct e; cbn [rtype]; intros H; try exact I; try discriminate.
  destruct o; try discriminate. destruct (rtype e1); discriminate.
Qed.

Lemma so_math_op l r o p1 p2 : same_outcome (math_op fo l r o p1) (math_op fo l r o p2).
Proof.
  unfold math_op.
  repeat match goal with
         | |- same_outcome (match ?x with _ => _ end) _ => destruct x
         | |- same_outcome (if ?x then _ else _) _ => destruct x
         end; cbn; auto.
Qed.

Definition E (k v : bytes) (e : expr) : Prop :=
  no_list_alias e = true -> same_outcome (eval k v e) (eval k v (expand e)).

Definition items_E (k v : bytes) (e : expr) : Prop :=
  match e with EList _ items => Forall (E k v) items | _ => True end.

Lemma so_in_list k v lv number : forall items, Forall (E k v) items -> forallb no_list_alias items = true ->
  same_outcome (in_list fo lv number items (map (eval k v) items))
               (in_list fo lv number (map expand items) (map (eval k v) (map expand items))).
Proof.
  induction 1 as [|it items Hi _ IH]; intros Hn; cbn [map in_list forallb] in *; [reflexivity|].
  apply andb_true_iff in Hn. destruct Hn as [Hn1 Hn2].
  rewrite rtype_expand. destruct (negb (ty_eqb (rtype it) _)); [exact I|].
  apply so_bind; [apply Hi, Hn1|]. intros a. apply so_bind; [apply so_refl|].
  intros c. destruct c; [reflexivity | apply IH, Hn2].
Qed.

Lemma so_nth_res (rs rs' : list (res value)) : Forall2 same_outcome rs rs' ->
  forall i, same_outcome (nth_res fo rs i) (nth_res fo rs' i).
Proof.
  unfold nth_res. induction 1; intros i; destruct i; cbn; auto.
Qed.

Lemma so_all_ok (rs rs' : list (res value)) : Forall2 same_outcome rs rs' ->
  same_outcome (all_ok rs) (all_ok rs').
Proof.
  induction 1; cbn [all_ok]; [reflexivity|].
  apply so_bind; [assumption|]. intros a. apply so_bind; [assumption|]. intros; reflexivity.
Qed.

Ltac so_step :=
  first
    [ exact I
    | reflexivity
    | apply so_refl
    | apply so_bind; [ first [ apply so_nth_res; assumption | apply so_all_ok; assumption | apply so_refl ] | intros ? ]
    | match goal with
      | |- same_outcome (match ?x with _ => _ end) (match ?x with _ => _ end) => destruct x
      | |- same_outcome (if ?x then _ else _) (if ?x then _ else _) => destruct x
      end ].

Lemma so_apply_func nm (args args' : list expr) (rs rs' : list (res value)) :
  Forall2 same_outcome rs rs' ->
  (forall i, rtype (nth_arg args i) = rtype (nth_arg args' i)) ->
  same_outcome (apply_func fo nm args rs) (apply_func fo nm args' rs').
Proof.
  intros Hrs Hty. unfold apply_func.
  assert (Htl : Forall2 same_outcome (tl rs) (tl rs')) by (destruct Hrs; cbn; auto).
  repeat match goal with
         | |- same_outcome (if String.eqb nm ?s then _ else _) _ => destruct (String.eqb nm s)
         | |- same_outcome (if (String.eqb nm ?s || String.eqb nm ?t) then _ else _) _ =>
             destruct (String.eqb nm s || String.eqb nm t)
         end;
    rewrite <- ?Hty; try solve [repeat so_step].
  (* list: the kind is decided by the first argument *)
  destruct Hrs as [|r0 r0' rs1 rs1' H0 H1]; [reflexivity|].
  apply so_bind; [assumption|]. intros first. apply so_bind; [apply so_refl|]. intros ui.
  apply so_bind; [apply so_all_ok; constructor; assumption|]. intros vals. apply so_refl.
Qed.

Lemma nth_arg_expand args i : nth_arg (map expand args) i = expand (nth_arg args i).
Proof. unfold nth_arg. change (EBool 0 false) with (expand (EBool 0 false)) at 1. apply map_nth. Qed.

Lemma expand_strong k v : forall e, E k v e /\ items_E k v e.
Proof.
  induction e using expr_ind_c.
  - (* EBin *)
    destruct IHe1 as [Hl _]. destruct IHe2 as [Hr Hitems]. split; [|exact I].
    intros Hn. cbn [no_list_alias] in Hn. apply andb_true_iff in Hn. destruct Hn as [Hnl Hnr].
    specialize (Hl Hnl). cbn [expand Eval.eval]. rewrite ?rtype_expand.
    destruct o; cbv zeta beta;
      try (apply so_bind; [exact Hl|]; intros lv; apply so_bind; [exact (Hr Hnr)|]; intros rv;
           first [apply so_refl | apply so_math_op]).
    + (* OAnd *)
      apply so_bind; [exact Hl|]. intros lv. destruct lv; try exact I. destruct b; [|reflexivity].
      apply so_bind; [exact (Hr Hnr)|]. intros rv. destruct rv; try exact I. reflexivity.
    + (* OOr *)
      apply so_bind; [exact Hl|]. intros lv. destruct lv; try exact I. destruct b; [reflexivity|].
      apply so_bind; [exact (Hr Hnr)|]. intros rv. destruct rv; try exact I. reflexivity.
    + (* ONot *) exact I.
    + (* OAdd *)
      destruct (rtype e1);
        (apply so_bind; [exact Hl|]; intros lv; apply so_bind; [exact (Hr Hnr)|]; intros rv;
         first [apply so_refl | apply so_math_op]).
    + (* OIn *)
      apply so_bind; [exact Hl|]. intros lv.
      destruct e2; cbn [expand]; try exact I.
      * (* ECall *)
        destruct (negb (ty_eqb (rtype (ECall pos e2 args)) TList)); [exact I|].
        apply so_bind; [exact (Hr Hnr)|]. intros fv. apply so_refl.
      * (* ERef: the branch taken by what the name stands for *)
        cbn [no_list_alias] in Hnr. apply andb_true_iff in Hnr. destruct Hnr as [Hnot Hnd].
        assert (HrE := Hr). specialize (HrE (proj2 (andb_true_iff _ _) (conj Hnot Hnd))).
        cbn [expand] in HrE.
        assert (Hrt : rtype (ERef pos name e2) = rtype (expand e2)) by (cbn [rtype]; rewrite rtype_expand; reflexivity).
        destruct (expand e2) eqn:Ed;
          try (destruct (negb (ty_eqb (rtype (ERef pos name e2)) TList)) eqn:Et; [exact I|];
               apply negb_false_iff in Et; destruct (rtype (ERef pos name e2)) eqn:Ety; try discriminate;
               symmetry in Hrt; apply rtype_list_shape in Hrt; contradiction).
        -- (* ECall *)
           destruct (negb (ty_eqb _ TList)); [exact I|].
           apply so_bind; [exact HrE|]. intros fv. destruct (unpack_list fo fv); [reflexivity | exact I].
        -- (* ERef *) exfalso. eapply expand_not_ref; eassumption.
        -- (* EList *) apply expand_list_strip in Ed. rewrite Ed in Hnot. discriminate.
      * (* EList *)
        cbn [no_list_alias] in Hnr.
        apply so_bind; [apply so_in_list; assumption|]. intros b. reflexivity.
    + (* OBetween *)
      apply so_bind; [exact Hl|]. intros lv.
      destruct e2; cbn [expand]; try exact I.
      * (* ERef *)
        cbn [no_list_alias] in Hnr. apply andb_true_iff in Hnr. destruct Hnr as [Hnot Hnd].
        destruct (expand e2) eqn:Ed; try exact I.
        apply expand_list_strip in Ed. rewrite Ed in Hnot. discriminate.
      * (* EList *)
        destruct l as [|lo [|hi [|]]]; cbn [map]; try exact I.
        cbn in Hitems. inversion Hitems as [|? ? Hlo Hrest]; subst. inversion Hrest as [|? ? Hhi _]; subst.
        cbn [no_list_alias forallb] in Hnr. apply andb_true_iff in Hnr. destruct Hnr as [Hnlo Hnr].
        apply andb_true_iff in Hnr. destruct Hnr as [Hnhi _].
        rewrite !rtype_expand.
        destruct (negb (ty_eqb (rtype lo) _)); [exact I|].
        destruct (negb (ty_eqb (rtype hi) _)); [exact I|].
        apply so_bind; [exact (Hlo Hnlo)|]. intros lov. apply so_bind; [exact (Hhi Hnhi)|]. intros hiv.
        apply so_refl.
    + (* OKWAnd *)
      apply so_bind; [exact Hl|]. intros lv. destruct lv; try exact I. destruct b; [|reflexivity].
      apply so_bind; [exact (Hr Hnr)|]. intros rv. destruct rv; try exact I. reflexivity.
    + (* OKWOr *)
      apply so_bind; [exact Hl|]. intros lv. destruct lv; try exact I. destruct b; [reflexivity|].
      apply so_bind; [exact (Hr Hnr)|]. intros rv. destruct rv; try exact I. reflexivity.
  - split; [|exact I]. intros _. apply so_refl.
  - split; [|exact I]. intros _. apply so_refl.
  - (* ENot *)
    destruct IHe as [Hr _]. split; [|exact I]. intros Hn. cbn [no_list_alias] in Hn.
    cbn [expand Eval.eval]. apply so_bind; [exact (Hr Hn)|]. intros rv. destruct rv; try exact I. reflexivity.
  - (* ECall *)
    split; [|exact I]. intros Hn. cbn [no_list_alias] in Hn. apply andb_true_iff in Hn. destruct Hn as [_ Hna].
    cbn [expand Eval.eval]. destruct e; try exact I.
    destruct (call_name (EName pos s)); [|exact I].
    destruct (func_info s0) as [[[nargs varargs] t]|]; [|exact I].
    rewrite map_length.
    match goal with |- same_outcome (if ?b then _ else _) _ => destruct b end; [exact I|].
    apply so_apply_func.
    + clear -H Hna. induction H as [|x l [Hx _] _ IH]; cbn [map forallb] in *; constructor.
      * apply andb_true_iff in Hna. destruct Hna. apply Hx; assumption.
      * apply andb_true_iff in Hna. destruct Hna. apply IH; assumption.
    + intros i. rewrite nth_arg_expand, rtype_expand. reflexivity.
  - split; [|exact I]. intros _. apply so_refl.
  - (* ERef *)
    destruct IHe as [Hd _]. split; [|exact I]. intros Hn. cbn [no_list_alias] in Hn.
    apply andb_true_iff in Hn. destruct Hn as [_ Hnd]. cbn [expand Eval.eval]. apply Hd, Hnd.
  - split; [|exact I]. intros _. apply so_refl.
  - split; [|exact I]. intros _. apply so_refl.
  - split; [|exact I]. intros _. apply so_refl.
  - (* EList *)
    split.
    + intros _. cbn [expand Eval.eval]. rewrite map_length. reflexivity.
    + cbn. clear -H. induction H as [|x l [Hx _] _ IH]; constructor; auto.
  - (* EAccess *)
    destruct IHe1 as [Hl _]. split; [|exact I]. intros Hn. cbn [no_list_alias] in Hn.
    apply andb_true_iff in Hn. destruct Hn as [Hnl _]. cbn [expand Eval.eval].
    apply so_bind; [exact (Hl Hnl)|]. intros lv.
    destruct e2; try exact I.
    + destruct lv; try exact I. destruct s0; [reflexivity | exact I].
    + destruct lv; try exact I; try reflexivity. destruct s; [reflexivity | exact I].
Qed.

(* Replacing every use of a field name by its defining expression does not change what an
   expression evaluates to, on any pair. *)
Theorem expand_preserves_eval : forall k v e, no_list_alias e = true ->
  same_outcome (eval k v e) (eval k v (expand e)).
Proof. intros k v e. apply (proj1 (expand_strong k v e)). Qed.

End Expand.

(* ---- statements with the definitions written out *)
Section ExpandStmt.
Variable fo : fops.
Variable re_match : bytes -> bytes -> res bool.
Notation eval := (eval fo re_match).

Definition no_list_alias_stmt (s : stmt) : bool :=
  no_list_alias (s_where s) && forallb no_list_alias (s_fields s).

Lemma so_filter_row k v wh : no_list_alias wh = true ->
  same_outcome (filter_row fo re_match k v wh) (filter_row fo re_match k v (expand wh)).
Proof.
  intros Hn. unfold filter_row. apply so_bind; [apply expand_preserves_eval, Hn|].
  intros r. destruct r; try exact I. reflexivity.
Qed.

Lemma so_eval_fields k v : forall fs, forallb no_list_alias fs = true ->
  same_outcome (eval_fields fo re_match k v fs) (eval_fields fo re_match k v (map expand fs)).
Proof.
  induction fs as [|f fs IH]; intros Hn; cbn [map eval_fields forallb] in *; [reflexivity|].
  apply andb_true_iff in Hn. destruct Hn as [Hf Hr].
  apply so_bind; [apply expand_preserves_eval, Hf|]. intros x.
  destruct (column_ok fo x); [|exact I].
  apply so_bind; [apply IH, Hr|]. intros xs. reflexivity.
Qed.

Lemma so_spec_rows wh fs : no_list_alias wh = true -> forallb no_list_alias fs = true ->
  forall ps, same_outcome (spec_rows fo re_match wh fs ps)
                          (spec_rows fo re_match (expand wh) (map expand fs) ps).
Proof.
  intros Hw Hf. induction ps as [|[k v] ps IH]; cbn [spec_rows]; [reflexivity|].
  apply so_bind; [apply so_filter_row, Hw|]. intros ok. destruct ok; [|exact IH].
  apply so_bind; [apply so_eval_fields, Hf|]. intros row.
  apply so_bind; [exact IH|]. intros rows. reflexivity.
Qed.

(* An accepted statement that uses field names returns -- row-at-a-time, cache on or off --
   the rows the cache-free evaluator gives for the statement with every use of a name
   replaced by its defining expression. *)
Theorem alias_rows_lemma : forall on s ps, stmt_ok s = true -> no_list_alias_stmt s = true ->
  same_outcome (drain_row fo re_match fixed_code on s ps)
               (spec_rows fo re_match (expand (s_where s)) (map expand (s_fields s)) ps).
Proof.
  intros on s ps Hok Hn. rewrite drain_row_is_spec by assumption.
  unfold no_list_alias_stmt in Hn. apply andb_true_iff in Hn. destruct Hn.
  apply so_spec_rows; assumption.
Qed.

End ExpandStmt.

(* ================================================================== regression witnesses *)
Section Witnesses.
Variable fo : fops.
Variable re_match : bytes -> bytes -> res bool.
Open Scope string_scope.

(* select key, int(value) as n where n > 2 *)
Definition w_int_value := ECall 12 (EName 12 "int") [EField 16 ValueKW].
Definition w_stmt : stmt :=
  Stmt ["KEY"; "n"] [EField 7 KeyKW; w_int_value] (EBin 36 OGt (ERef 34 "n" w_int_value) (ENum 38 "2")).
Definition w_store : list (bytes * bytes) := [("k0", "1"); ("k1", "5"); ("k2", "2"); ("k3", "7")].

Lemma w_stmt_ok : stmt_ok w_stmt = true.
Proof. reflexivity. Qed.

Lemma w_rows : forall on,
  drain_row fo re_match fixed_code on w_stmt w_store
  = Ok [[VBytes "k1"; VInt 5%Z]; [VBytes "k3"; VInt 7%Z]].
Proof. intros [|]; vm_compute; reflexivity. Qed.

(* D6, the pinned FilterExec.Filter (no Clear at entry): the value cached for the rejected
   pair k0 answers for k1 and k3 as well, and nothing is returned *)
Lemma d6_refuted_lemma :
  drain_row fo re_match (Variant false true) true w_stmt w_store = Ok [] /\
  drain_row fo re_match (Variant false true) false w_stmt w_store
  = Ok [[VBytes "k1"; VInt 5%Z]; [VBytes "k3"; VInt 7%Z]].
Proof. split; vm_compute; reflexivity. Qed.

(* select key as a, value as a where a = 'k1': the pinned projection served the second field
   named a from the cache entry of the first *)
Definition w_dup : stmt :=
  Stmt ["a"; "a"] [EField 7 KeyKW; EField 17 ValueKW]
       (EBin 36 OEq (ERef 34 "a" (EField 7 KeyKW)) (EStr 38 "k1")).

Lemma dup_refuted_lemma :
  drain_row fo re_match (Variant true false) true w_dup [("k1", "5")] = Ok [[VBytes "k1"; VBytes "k1"]] /\
  drain_row fo re_match (Variant true false) false w_dup [("k1", "5")] = Ok [[VBytes "k1"; VBytes "5"]] /\
  drain_row fo re_match fixed_code true w_dup [("k1", "5")] = Ok [[VBytes "k1"; VBytes "5"]].
Proof. repeat split; vm_compute; reflexivity. Qed.

End Witnesses.

(* D8, the pinned MultiGetPlan.Batch (bidx never advanced): rows 5 and 7 are returned, the
   cached column keeps the single item of index 0, and the batch projection indexes past its
   end (Go: index out of range) *)
Lemma d8_refuted_lemma :
  let pass := fun n => Nat.ltb 2 n in
  let val := fun (_ : string) (n : nat) => n in
  scan_batch nat nat pass val false 2 ["n"%string] [[1; 5]; [7; 2]] = ([5; 7], [("n"%string, [1])]) /\
  project_batch nat nat true [("n"%string, [1])] [("n"%string, fun n => n)] [5; 7] = None /\
  scan_batch nat nat pass val true 2 ["n"%string] [[1; 5]; [7; 2]] = ([5; 7], [("n"%string, [5; 7])]).
Proof. repeat split; reflexivity. Qed.

Lemma alias_eval_def : forall (fo : fops) re k v p a d,
  eval fo re k v (ERef p a d) = eval fo re k v d.
Proof. reflexivity. Qed.
