(* Proofs/CacheVecPointwise.v -- the batch evaluator twin (Model/EvalVec.v) is pointwise: the
   result of a chunk is exactly the list of its single-row results, hence independent of how rows
   are grouped into chunks.

   The only whole-chunk decision of eval_batch is the comparison kind of = / != (the dynamic type of
   the first left value); gluing single rows needs that this kind is the same on all rows, which is
   the Section hypothesis [Hkind] (proved elsewhere as CacheVecShape.eval_eq_kind_inv).

   Technique: [PW F] says that a column function F : chunk -> res column splits at the head of a
   chunk with at least two rows:  F (kv :: ch) = Ok vs  <->  vs = v :: vs', F [kv] = Ok [v],
   F ch = Ok vs'.  Every case of eval_batch is a constant column, a vmap / vmap2 / vmap3 over PW
   columns, map_res over the rows, equal_batch or in_cols + in_rows. *)
From Coq Require Import List String Ascii ZArith Bool Arith Lia.
Import ListNotations.
From KV Require Import Base.Bytes Base.Num Model.Ast Model.Value Model.Eval Model.EvalVec Proofs.EvalVecProofs.
Local Open Scope list_scope.

(* the elements whose mask bit is true *)
Fixpoint sel {A} (m : list bool) (l : list A) : list A :=
  match m, l with
  | b :: m', x :: l' => if b then x :: sel m' l' else sel m' l'
  | _, _ => []
  end.

Lemma Forall2_sel {A B} (R : A -> B -> Prop) l1 l2 :
  Forall2 R l1 l2 -> forall m, Forall2 R (sel m l1) (sel m l2).
Proof.
  induction 1 as [|a b l1 l2 Hab H IH]; intros [|[|] m]; cbn [sel]; try constructor; auto.
Qed.

Lemma Forall2_concat {A B} (R : A -> B -> Prop) ls1 ls2 :
  Forall2 (Forall2 R) ls1 ls2 -> Forall2 R (List.concat ls1) (List.concat ls2).
Proof.
  induction 1 as [|a b l1 l2 Hab H IH]; cbn [List.concat]; [constructor|]. apply Forall2_app; assumption.
Qed.

(* decide the name tests of apply_func_vec for a literal name (copied from EvalVecProofs.v, where
   they are section-local) *)
Ltac red_names_goal :=
  repeat match goal with
         | |- context [String.eqb ?a ?b] =>
             let c := eval vm_compute in (String.eqb a b) in
             change (String.eqb a b) with c
         end;
  cbn [orb].

Ltac each_name Hin :=
  unfold func_names in Hin; cbn [In] in Hin;
  repeat match type of Hin with _ \/ _ => destruct Hin as [Hin|Hin] end;
  [subst .. | contradiction].

Section Pointwise.
Variable fo : fops.
Variable re_match : bytes -> bytes -> res bool.
Notation value := (value fo).
Notation eval := (eval fo re_match).
Notation eval_batch := (eval_batch fo re_match true).

Hypothesis Hkind : forall e k1 v1 k2 v2 x1 x2 kd1 kd2,
  eval k1 v1 e = Ok x1 -> eval k2 v2 e = Ok x2 ->
  eq_kind fo x1 = Some kd1 -> eq_kind fo x2 = Some kd2 -> kd1 = kd2.

(* ---------------------------------------------------------------- the per-index loops *)

Lemma vmap_cons f x xs zs :
  vmap fo f (x :: xs) = Ok zs <-> exists z zs', zs = z :: zs' /\ f x = Ok z /\ vmap fo f xs = Ok zs'.
Proof.
  unfold vmap. cbn [map_res]. split.
  - intros H. apply bind_ok in H. destruct H as (z & Hz & H).
    apply bind_ok in H. destruct H as (zs' & Hzs & H). inversion H. eauto.
  - intros (z & zs' & -> & Hz & Hzs). rewrite Hz. cbn [bind]. rewrite Hzs. reflexivity.
Qed.

Lemma vmap2_cons f x xs y ys zs :
  vmap2 fo f (x :: xs) (y :: ys) = Ok zs <->
  exists z zs', zs = z :: zs' /\ f x y = Ok z /\ vmap2 fo f xs ys = Ok zs'.
Proof.
  cbn [vmap2]. split.
  - intros H. apply bind_ok in H. destruct H as (z & Hz & H).
    apply bind_ok in H. destruct H as (zs' & Hzs & H). inversion H. eauto.
  - intros (z & zs' & -> & Hz & Hzs). rewrite Hz. cbn [bind]. rewrite Hzs. reflexivity.
Qed.

Lemma vmap3_cons f x xs y ys w ws zs :
  vmap3 fo f (x :: xs) (y :: ys) (w :: ws) = Ok zs <->
  exists z zs', zs = z :: zs' /\ f x y w = Ok z /\ vmap3 fo f xs ys ws = Ok zs'.
Proof.
  cbn [vmap3]. split.
  - intros H. apply bind_ok in H. destruct H as (z & Hz & H).
    apply bind_ok in H. destruct H as (zs' & Hzs & H). inversion H. eauto.
  - intros (z & zs' & -> & Hz & Hzs). rewrite Hz. cbn [bind]. rewrite Hzs. reflexivity.
Qed.

Lemma vmap_nil_inv f xs : vmap fo f xs = Ok [] -> xs = [].
Proof.
  destruct xs as [|x xs]; [reflexivity|]. intros H. apply vmap_cons in H.
  destruct H as (? & ? & H & _). discriminate H.
Qed.

Lemma vmap2_nil_inv f xs ys : vmap2 fo f xs ys = Ok [] -> xs = [] /\ ys = [].
Proof.
  destruct xs as [|x xs], ys as [|y ys]; cbn [vmap2]; intros H; try discriminate H; [split; reflexivity|].
  apply (proj1 (vmap2_cons f x xs y ys [])) in H. destruct H as (? & ? & H & _). discriminate H.
Qed.

Lemma vmap3_nil_inv f xs ys ws : vmap3 fo f xs ys ws = Ok [] -> xs = [] /\ ys = [] /\ ws = [].
Proof.
  destruct xs as [|x xs], ys as [|y ys], ws as [|w ws]; cbn [vmap3]; intros H; try discriminate H;
    [repeat split; reflexivity|].
  apply (proj1 (vmap3_cons f x xs y ys w ws [])) in H. destruct H as (? & ? & H & _). discriminate H.
Qed.

Lemma vmap_sing f xs v : vmap fo f xs = Ok [v] -> exists x, xs = [x] /\ f x = Ok v.
Proof.
  destruct xs as [|x xs]; [intros H; cbn in H; discriminate H|]. intros H. apply vmap_cons in H.
  destruct H as (z & zs' & E & Hz & Hzs). inversion E; subst z zs'.
  apply vmap_nil_inv in Hzs. subst xs. eauto.
Qed.

Lemma vmap2_sing f xs ys v :
  vmap2 fo f xs ys = Ok [v] -> exists x y, xs = [x] /\ ys = [y] /\ f x y = Ok v.
Proof.
  destruct xs as [|x xs], ys as [|y ys]; cbn [vmap2]; intros H; try discriminate H.
  apply (proj1 (vmap2_cons f x xs y ys [v])) in H.
  destruct H as (z & zs' & E & Hz & Hzs). inversion E; subst z zs'.
  apply vmap2_nil_inv in Hzs. destruct Hzs as (-> & ->). eauto 6.
Qed.

Lemma vmap3_sing f xs ys ws v :
  vmap3 fo f xs ys ws = Ok [v] -> exists x y w, xs = [x] /\ ys = [y] /\ ws = [w] /\ f x y w = Ok v.
Proof.
  destruct xs as [|x xs], ys as [|y ys], ws as [|w ws]; cbn [vmap3]; intros H; try discriminate H.
  apply (proj1 (vmap3_cons f x xs y ys w ws [v])) in H.
  destruct H as (z & zs' & E & Hz & Hzs). inversion E; subst z zs'.
  apply vmap3_nil_inv in Hzs. destruct Hzs as (-> & -> & ->). eauto 8.
Qed.

(* ---------------------------------------------------------------- pointwise column functions *)

Definition PW (F : list kvpair -> res (list value)) : Prop :=
  forall kv ch vs, ch <> [] ->
    (F (kv :: ch) = Ok vs <-> exists v vs', vs = v :: vs' /\ F [kv] = Ok [v] /\ F ch = Ok vs').

Lemma PW_ext F G : (forall ch, F ch = G ch) -> PW G -> PW F.
Proof. intros E H kv ch vs Hne. rewrite (E (kv :: ch)), (E [kv]), (E ch). apply H, Hne. Qed.

Lemma PW_fail F : (forall ch vs, F ch <> Ok vs) -> PW F.
Proof.
  intros HF kv ch vs Hne. split.
  - intros H. exfalso. exact (HF _ _ H).
  - intros (v & vs' & _ & H & _). exfalso. exact (HF _ _ H).
Qed.

Ltac pw_fail :=
  apply PW_fail;
  let H := fresh "Hf" in
  intros ? ? H; cbv beta iota in H;
  repeat (apply bind_ok in H; destruct H as (? & ? & H); cbv beta iota in H);
  discriminate H.

Lemma PW_const (g : kvpair -> value) : PW (fun ch => Ok (map g ch)).
Proof.
  intros kv ch vs Hne. cbv beta. cbn [map]. split.
  - intros H. inversion H. eauto.
  - intros (v & vs' & -> & H1 & H2). congruence.
Qed.

Lemma PW_map_res (g : kvpair -> res value) : PW (fun ch => map_res g ch).
Proof.
  intros kv ch vs Hne. cbv beta. cbn [map_res]. split.
  - intros H. apply bind_ok in H. destruct H as (z & Hz & H).
    apply bind_ok in H. destruct H as (zs & Hzs & H). inversion H.
    exists z, zs. rewrite Hz. cbn [bind]. auto.
  - intros (v & vs' & -> & H1 & H2). apply bind_ok in H1. destruct H1 as (z & Hz & H1).
    cbn [bind] in H1. inversion H1; subst z. rewrite Hz, H2. reflexivity.
Qed.

Lemma PW_vmap f F : PW F -> PW (fun ch => do xs <- F ch; vmap fo f xs).
Proof.
  intros HF kv ch vs Hne. cbv beta. split.
  - intros H. apply bind_ok in H. destruct H as (xs & E & H).
    apply (HF kv ch xs Hne) in E. destruct E as (x & xs' & -> & E1 & E2).
    apply vmap_cons in H. destruct H as (z & zs & -> & Hz & Hzs).
    exists z, zs. split; [reflexivity|]. rewrite E1, E2. cbn [bind]. split; [|exact Hzs].
    apply vmap_cons. exists z, []. repeat split; auto.
  - intros (v & vs' & -> & H1 & H2).
    apply bind_ok in H1. destruct H1 as (xs1 & E1 & H1).
    apply vmap_sing in H1. destruct H1 as (x & -> & Hx).
    apply bind_ok in H2. destruct H2 as (xs' & E2 & H2).
    assert (E : F (kv :: ch) = Ok (x :: xs')) by (apply (HF kv ch _ Hne); eauto 6).
    rewrite E. cbn [bind]. apply vmap_cons. eauto 6.
Qed.

Lemma PW_vmap2 f F G :
  PW F -> PW G -> PW (fun ch => do xs <- F ch; do ys <- G ch; vmap2 fo f xs ys).
Proof.
  intros HF HG kv ch vs Hne. cbv beta. split.
  - intros H. apply bind_ok in H. destruct H as (xs & E & H).
    apply bind_ok in H. destruct H as (ys & E' & H).
    apply (HF kv ch xs Hne) in E. destruct E as (x & xs' & -> & E1 & E2).
    apply (HG kv ch ys Hne) in E'. destruct E' as (y & ys' & -> & E1' & E2').
    apply vmap2_cons in H. destruct H as (z & zs & -> & Hz & Hzs).
    exists z, zs. split; [reflexivity|]. rewrite E1, E2, E1', E2'. cbn [bind]. split; [|exact Hzs].
    apply vmap2_cons. exists z, []. repeat split; auto.
  - intros (v & vs' & -> & H1 & H2).
    apply bind_ok in H1. destruct H1 as (xs1 & E1 & H1).
    apply bind_ok in H1. destruct H1 as (ys1 & E1' & H1).
    apply vmap2_sing in H1. destruct H1 as (x & y & -> & -> & Hx).
    apply bind_ok in H2. destruct H2 as (xs' & E2 & H2).
    apply bind_ok in H2. destruct H2 as (ys' & E2' & H2).
    assert (E : F (kv :: ch) = Ok (x :: xs')) by (apply (HF kv ch _ Hne); eauto 6).
    assert (E' : G (kv :: ch) = Ok (y :: ys')) by (apply (HG kv ch _ Hne); eauto 6).
    rewrite E, E'. cbn [bind]. apply vmap2_cons. eauto 6.
Qed.

Lemma PW_vmap3 f F G K :
  PW F -> PW G -> PW K ->
  PW (fun ch => do xs <- F ch; do ys <- G ch; do ws <- K ch; vmap3 fo f xs ys ws).
Proof.
  intros HF HG HK kv ch vs Hne. cbv beta. split.
  - intros H. apply bind_ok in H. destruct H as (xs & E & H).
    apply bind_ok in H. destruct H as (ys & E' & H).
    apply bind_ok in H. destruct H as (ws & E'' & H).
    apply (HF kv ch xs Hne) in E. destruct E as (x & xs' & -> & E1 & E2).
    apply (HG kv ch ys Hne) in E'. destruct E' as (y & ys' & -> & E1' & E2').
    apply (HK kv ch ws Hne) in E''. destruct E'' as (w & ws' & -> & E1'' & E2'').
    apply vmap3_cons in H. destruct H as (z & zs & -> & Hz & Hzs).
    exists z, zs. split; [reflexivity|]. rewrite E1, E2, E1', E2', E1'', E2''. cbn [bind]. split; [|exact Hzs].
    apply vmap3_cons. exists z, []. repeat split; auto.
  - intros (v & vs' & -> & H1 & H2).
    apply bind_ok in H1. destruct H1 as (xs1 & E1 & H1).
    apply bind_ok in H1. destruct H1 as (ys1 & E1' & H1).
    apply bind_ok in H1. destruct H1 as (ws1 & E1'' & H1).
    apply vmap3_sing in H1. destruct H1 as (x & y & w & -> & -> & -> & Hx).
    apply bind_ok in H2. destruct H2 as (xs' & E2 & H2).
    apply bind_ok in H2. destruct H2 as (ys' & E2' & H2).
    apply bind_ok in H2. destruct H2 as (ws' & E2'' & H2).
    assert (E : F (kv :: ch) = Ok (x :: xs')) by (apply (HF kv ch _ Hne); eauto 6).
    assert (E' : G (kv :: ch) = Ok (y :: ys')) by (apply (HG kv ch _ Hne); eauto 6).
    assert (E'' : K (kv :: ch) = Ok (w :: ws')) by (apply (HK kv ch _ Hne); eauto 6).
    rewrite E, E', E''. cbn [bind]. apply vmap3_cons. eauto 6.
Qed.

(* the shape of BETWEEN: the left operand is evaluated first and used last *)
Lemma PW_vmap3_rot f F G K :
  PW F -> PW G -> PW K ->
  PW (fun ch => do xs <- F ch; do ys <- G ch; do ws <- K ch; vmap3 fo f ys ws xs).
Proof.
  intros HF HG HK kv ch vs Hne. cbv beta. split.
  - intros H. apply bind_ok in H. destruct H as (xs & E & H).
    apply bind_ok in H. destruct H as (ys & E' & H).
    apply bind_ok in H. destruct H as (ws & E'' & H).
    apply (HF kv ch xs Hne) in E. destruct E as (x & xs' & -> & E1 & E2).
    apply (HG kv ch ys Hne) in E'. destruct E' as (y & ys' & -> & E1' & E2').
    apply (HK kv ch ws Hne) in E''. destruct E'' as (w & ws' & -> & E1'' & E2'').
    apply vmap3_cons in H. destruct H as (z & zs & -> & Hz & Hzs).
    exists z, zs. split; [reflexivity|]. rewrite E1, E2, E1', E2', E1'', E2''. cbn [bind]. split; [|exact Hzs].
    apply vmap3_cons. exists z, []. repeat split; auto.
  - intros (v & vs' & -> & H1 & H2).
    apply bind_ok in H1. destruct H1 as (xs1 & E1 & H1).
    apply bind_ok in H1. destruct H1 as (ys1 & E1' & H1).
    apply bind_ok in H1. destruct H1 as (ws1 & E1'' & H1).
    apply vmap3_sing in H1. destruct H1 as (y & w & x & -> & -> & -> & Hx).
    apply bind_ok in H2. destruct H2 as (xs' & E2 & H2).
    apply bind_ok in H2. destruct H2 as (ys' & E2' & H2).
    apply bind_ok in H2. destruct H2 as (ws' & E2'' & H2).
    assert (E : F (kv :: ch) = Ok (x :: xs')) by (apply (HF kv ch _ Hne); eauto 6).
    assert (E' : G (kv :: ch) = Ok (y :: ys')) by (apply (HG kv ch _ Hne); eauto 6).
    assert (E'' : K (kv :: ch) = Ok (w :: ws')) by (apply (HK kv ch _ Hne); eauto 6).
    rewrite E, E', E''. cbn [bind]. apply vmap3_cons. eauto 6.
Qed.

(* ---------------------------------------------------------------- expressions *)

Definition IPW (e : expr) : Prop := PW (eval_batch e).

Lemma batch_single_len e kv vs : eval_batch e [kv] = Ok vs -> exists v, vs = [v].
Proof.
  intros H. apply eval_batch_length in H. destruct vs as [|v [|? ?]]; try discriminate H. eauto.
Qed.

Lemma batch_head_row e kv ch x xs :
  eval_batch e (kv :: ch) = Ok (x :: xs) -> exists r, eval (fst kv) (snd kv) e = Ok r /\ vrel fo x r.
Proof. intros H. apply exec_batch_ok_vrel in H. inversion H; subst. assumption. Qed.

(* ---------------------------------------------------------------- = and != *)

Lemma eq_at_kind kd neg p l r z : eq_at fo kd neg p l r = Ok z -> eq_kind fo l = Some kd.
Proof. destruct kd, l; cbn; intros H; try discriminate H; reflexivity. Qed.

Lemma vrel_eq_kind b r : vrel fo b r -> eq_kind fo b = eq_kind fo r.
Proof. intros [->|(s & -> & ->)]; reflexivity. Qed.

Lemma PW_equal neg p l r : IPW l -> IPW r ->
  PW (fun ch => do ls <- eval_batch l ch; do rs <- eval_batch r ch; equal_batch fo ch neg p ls rs).
Proof.
  intros Hl Hr kv ch vs Hne. cbv beta. split.
  - intros H. apply bind_ok in H. destruct H as (ls & El & H).
    apply bind_ok in H. destruct H as (rs & Er & H).
    apply (Hl kv ch _ Hne) in El. destruct El as (x & xs & -> & L1 & L2).
    apply (Hr kv ch _ Hne) in Er. destruct Er as (y & ys & -> & R1 & R2).
    cbn [equal_batch] in H. destruct (eq_kind fo x) as [kd|] eqn:K; [|discriminate H].
    apply vmap2_cons in H. destruct H as (z & zs & -> & Hz & Hzs).
    exists z, zs. split; [reflexivity|]. rewrite L1, L2, R1, R2. cbn [bind equal_batch]. rewrite K.
    split.
    + apply vmap2_cons. exists z, []. repeat split; auto.
    + destruct ch as [|kv' ch']; [congruence|].
      pose proof (eval_batch_length _ _ _ _ _ L2) as Len.
      destruct xs as [|x' xs]; [discriminate Len|].
      destruct ys as [|y' ys]; [cbn [vmap2] in Hzs; discriminate Hzs|].
      pose proof Hzs as Hzs'. apply vmap2_cons in Hzs'. destruct Hzs' as (z' & ? & _ & Hz' & _).
      cbn [equal_batch]. rewrite (eq_at_kind _ _ _ _ _ _ Hz'). exact Hzs.
  - intros (v & vs' & -> & H1 & H2).
    apply bind_ok in H1. destruct H1 as (xs1 & L1 & H1).
    apply bind_ok in H1. destruct H1 as (ys1 & R1 & H1).
    apply bind_ok in H2. destruct H2 as (xs & L2 & H2).
    apply bind_ok in H2. destruct H2 as (ys & R2 & H2).
    destruct (batch_single_len _ _ _ L1) as (x & ->).
    destruct (batch_single_len _ _ _ R1) as (y & ->).
    cbn [equal_batch] in H1. destruct (eq_kind fo x) as [kd|] eqn:K; [|discriminate H1].
    apply vmap2_cons in H1. destruct H1 as (z & zs & E & Hz & Hzs). inversion E; subst z zs.
    destruct ch as [|kv' ch']; [congruence|].
    pose proof (eval_batch_length _ _ _ _ _ L2) as Len.
    destruct xs as [|x' xs]; [discriminate Len|].
    cbn [equal_batch] in H2. destruct (eq_kind fo x') as [kd'|] eqn:K'; [|discriminate H2].
    assert (kd = kd').
    { destruct (batch_head_row _ _ _ _ _ L1) as (r1 & Ev1 & V1).
      destruct (batch_head_row _ _ _ _ _ L2) as (r2 & Ev2 & V2).
      eapply Hkind; [exact Ev1 | exact Ev2 | |].
      - rewrite <- (vrel_eq_kind _ _ V1). exact K.
      - rewrite <- (vrel_eq_kind _ _ V2). exact K'. }
    subst kd'.
    assert (EL : eval_batch l (kv :: kv' :: ch') = Ok (x :: x' :: xs)) by (apply (Hl _ _ _ Hne); eauto 6).
    assert (ER : eval_batch r (kv :: kv' :: ch') = Ok (y :: ys)) by (apply (Hr _ _ _ Hne); eauto 6).
    rewrite EL, ER. cbn [bind equal_batch]. rewrite K. apply vmap2_cons. eauto 6.
Qed.

(* ---------------------------------------------------------------- IN over a written list *)

(* put a row of heads in front of the columns *)
Fixpoint consc (hs : list value) (cs : list (list value)) : list (list value) :=
  match hs, cs with
  | h :: hs', c :: cs' => (h :: c) :: consc hs' cs'
  | _, _ => []
  end.

Definition sing (v : value) : list value := [v].

Lemma heads_sing hs : heads fo (map sing hs) = map (@Ok value) hs.
Proof. induction hs as [|h hs IH]; [reflexivity|]. unfold heads in *. cbn [map sing]. now rewrite IH. Qed.

Lemma heads_consc hs cs : List.length hs = List.length cs -> heads fo (consc hs cs) = map (@Ok value) hs.
Proof.
  revert cs; induction hs as [|h hs IH]; intros [|c cs] E; try discriminate E; [reflexivity|].
  unfold heads in *. cbn [consc map]. f_equal. apply IH. now inversion E.
Qed.

Lemma tails_consc hs cs : List.length hs = List.length cs -> tails fo (consc hs cs) = cs.
Proof.
  revert cs; induction hs as [|h hs IH]; intros [|c cs] E; try discriminate E; [reflexivity|].
  unfold tails in *. cbn [consc map tl]. f_equal. apply IH. now inversion E.
Qed.

Lemma in_cols_len number items (g : expr -> res (list value)) cols :
  in_cols fo number items (map g items) = Ok cols -> List.length cols = List.length items.
Proof.
  revert cols; induction items as [|it items IH]; intros cols H; cbn [map in_cols] in H.
  - inversion H. reflexivity.
  - match type of H with (if ?b then _ else _) = _ => destruct b; [discriminate H|] end.
    apply bind_ok in H. destruct H as (col & Ec & H).
    apply bind_ok in H. destruct H as (cols' & Ecs & H). inversion H; subst cols.
    cbn [List.length]. f_equal. apply IH, Ecs.
Qed.

Lemma in_cols_sing number items kv cols1 :
  in_cols fo number items (map (fun it => eval_batch it [kv]) items) = Ok cols1 ->
  exists hs, cols1 = map sing hs.
Proof.
  revert cols1; induction items as [|it items IH]; intros cols1 H; cbn [map in_cols] in H.
  - inversion H. exists []. reflexivity.
  - match type of H with (if ?b then _ else _) = _ => destruct b; [discriminate H|] end.
    apply bind_ok in H. destruct H as (col & Ec & H).
    apply bind_ok in H. destruct H as (cols' & Ecs & H). inversion H; subst cols1.
    destruct (IH _ Ecs) as (hs & ->). destruct (batch_single_len _ _ _ Ec) as (h & ->).
    exists (h :: hs). reflexivity.
Qed.

Lemma in_cols_PW number items : Forall IPW items -> forall kv ch cols, ch <> [] ->
  (in_cols fo number items (map (fun it => eval_batch it (kv :: ch)) items) = Ok cols <->
   exists hs cs, cols = consc hs cs /\ List.length hs = List.length cs /\
     in_cols fo number items (map (fun it => eval_batch it [kv]) items) = Ok (map sing hs) /\
     in_cols fo number items (map (fun it => eval_batch it ch) items) = Ok cs).
Proof.
  intros HI kv ch cols Hne. revert cols.
  induction HI as [|it items Hit HI IH]; intros cols; cbn [map in_cols].
  - split.
    + intros H; inversion H. exists [], []. repeat split.
    + intros (hs & cs & -> & L & H1 & H2). destruct hs; [reflexivity | discriminate H1].
  - destruct (negb (ty_eqb (rtype it) (if number then TNumber else TStr))).
    + split; [intros H; discriminate H|]. intros (hs & cs & _ & _ & H1 & _). discriminate H1.
    + split.
      * intros H. apply bind_ok in H. destruct H as (col & Ec & H).
        apply bind_ok in H. destruct H as (cols' & Ecs & H). inversion H; subst cols.
        apply (Hit kv ch _ Hne) in Ec. destruct Ec as (h & c & -> & E1 & E2).
        apply IH in Ecs. destruct Ecs as (hs & cs & -> & L & C1 & C2).
        exists (h :: hs), (c :: cs). cbn [consc map List.length]. rewrite E1, E2, C1, C2. cbn [bind].
        repeat split. now rewrite L.
      * intros (hs & cs & -> & L & H1 & H2).
        apply bind_ok in H1. destruct H1 as (col1 & Ec1 & H1).
        apply bind_ok in H1. destruct H1 as (cols1 & Ecs1 & H1).
        apply bind_ok in H2. destruct H2 as (c & Ec & H2).
        apply bind_ok in H2. destruct H2 as (cs' & Ecs & H2).
        inversion H2; subst cs. destruct hs as [|h hs]; [discriminate L|].
        cbn [map] in H1. inversion H1; subst col1 cols1.
        assert (E : eval_batch it (kv :: ch) = Ok (h :: c)) by (apply (Hit kv ch _ Hne); unfold sing in Ec1; eauto 6).
        assert (E' : in_cols fo number items (map (fun it => eval_batch it (kv :: ch)) items) = Ok (consc hs cs')).
        { apply IH. exists hs, cs'. repeat split; auto. }
        rewrite E, E'. reflexivity.
Qed.

Lemma PW_in_list number l items : IPW l -> Forall IPW items ->
  PW (fun ch => do ls <- eval_batch l ch;
                do cols <- in_cols fo number items (map (fun it => eval_batch it ch) items);
                in_rows fo number ls cols).
Proof.
  intros Hl HI kv ch vs Hne. cbv beta. split.
  - intros H. apply bind_ok in H. destruct H as (ls & El & H).
    apply bind_ok in H. destruct H as (cols & Ec & H).
    apply (Hl kv ch _ Hne) in El. destruct El as (x & xs & -> & E1 & E2).
    apply (in_cols_PW number items HI kv ch _ Hne) in Ec. destruct Ec as (hs & cs & -> & L & C1 & C2).
    cbn [in_rows] in H. rewrite (heads_consc _ _ L), (tails_consc _ _ L) in H.
    apply bind_ok in H. destruct H as (b & Hb & H).
    apply bind_ok in H. destruct H as (rest & Hr & H). inversion H; subst vs.
    exists (VBool b), rest. split; [reflexivity|]. rewrite E1, E2, C1, C2. cbn [bind in_rows].
    rewrite heads_sing, Hb. cbn [bind]. split; [reflexivity | exact Hr].
  - intros (v & vs' & -> & H1 & H2).
    apply bind_ok in H1. destruct H1 as (xs1 & E1 & H1).
    apply bind_ok in H1. destruct H1 as (cols1 & C1 & H1).
    apply bind_ok in H2. destruct H2 as (xs' & E2 & H2).
    apply bind_ok in H2. destruct H2 as (cs & C2 & H2).
    destruct (batch_single_len _ _ _ E1) as (x & ->).
    destruct (in_cols_sing _ _ _ _ C1) as (hs & ->).
    assert (L : List.length hs = List.length cs).
    { apply in_cols_len in C1. apply in_cols_len in C2. rewrite map_length in C1. congruence. }
    cbn [in_rows] in H1. rewrite heads_sing in H1.
    apply bind_ok in H1. destruct H1 as (b & Hb & H1). cbn [bind] in H1. inversion H1; subst v.
    assert (E : eval_batch l (kv :: ch) = Ok (x :: xs')) by (apply (Hl kv ch _ Hne); eauto 6).
    assert (Ec : in_cols fo number items (map (fun it => eval_batch it (kv :: ch)) items) = Ok (consc hs cs)).
    { apply (in_cols_PW number items HI kv ch _ Hne). exists hs, cs. repeat split; auto. }
    rewrite E, Ec. cbn [bind in_rows]. rewrite (heads_consc _ _ L), (tails_consc _ _ L), Hb, H2. reflexivity.
Qed.

(* ---------------------------------------------------------------- function calls *)

Lemma PW_nth_col args i :
  Forall IPW args -> PW (fun ch => nth_col fo (map (fun a => eval_batch a ch) args) i).
Proof.
  intros HA. revert i. induction HA as [|a args Ha HA IH]; intros i.
  - apply PW_fail. intros ch vs. unfold nth_col. cbn [map]. destruct i; discriminate.
  - destruct i as [|i].
    + exact Ha.
    + exact (IH i).
Qed.

Lemma call_PW p n args : Forall IPW args -> IPW (ECall p n args).
Proof.
  intros HA. unfold IPW.
  eapply PW_ext; [intros ch; cbn [EvalVec.eval_batch]; reflexivity|].
  destruct n; try solve [pw_fail].
  destruct (call_name (EName pos s)) as [nm|]; [|pw_fail].
  destruct (func_info nm) as [[[na va] t]|] eqn:Hfi; [|pw_fail].
  match goal with |- context [if ?c then _ else _] => destruct c eqn:Har end; [pw_fail|].
  pose proof (func_info_cases _ _ Hfi) as Hin.
  each_name Hin; cbn in Hfi; inversion Hfi; subst na va t; clear Hfi;
    unfold apply_func_vec; red_names_goal.
  all: try solve [pw_fail].
  all: try solve [apply PW_vmap, PW_nth_col, HA].
  all: try solve [apply PW_map_res].
  all: try solve [apply PW_vmap2; apply PW_nth_col, HA].
  - (* substr *)
    destruct (ty_eqb (rtype (nth_arg args 1)) TNumber); cbn [negb]; [|pw_fail].
    destruct (ty_eqb (rtype (nth_arg args 2)) TNumber); cbn [negb]; [|pw_fail].
    apply PW_vmap3; apply PW_nth_col, HA.
  - (* split *)
    destruct (ty_eqb (rtype (nth_arg args 1)) TStr); cbn [negb]; [|pw_fail].
    apply PW_vmap2; apply PW_nth_col, HA.
  - (* list *)
    destruct args as [|a args]; [cbn in Har; discriminate Har|].
    intros kv ch vs Hne. destruct ch as [|kv' ch']; [congruence|].
    exact (PW_map_res _ kv (kv' :: ch') vs Hne).
Qed.

(* ---------------------------------------------------------------- binary operators *)

Definition QPW (e : expr) : Prop :=
  IPW e /\ match e with EList _ items => Forall IPW items | _ => True end.

Lemma bin_PW p o l r : QPW l -> QPW r -> IPW (EBin p o l r).
Proof.
  intros (Hl & _) (Hr & Sr). unfold IPW.
  destruct o; (eapply PW_ext; [intros ch; cbn [EvalVec.eval_batch]; reflexivity|]).
  all: try solve [apply PW_vmap2; assumption].
  all: try solve [destruct (rtype l); apply PW_vmap2; assumption].
  all: try solve [apply PW_equal; assumption].
  all: try solve [pw_fail].
  - (* IN *)
    destruct r; try solve [pw_fail].
    + cbv beta iota. apply PW_vmap2; assumption.
    + cbv beta iota. apply PW_vmap2; assumption.
    + cbv beta iota. apply PW_in_list; assumption.
  - (* BETWEEN *)
    destruct r; try solve [pw_fail].
    destruct l0 as [|lo [|hi [|? ?]]]; try solve [pw_fail].
    cbv beta iota. rewrite orb_true_r. cbn [andb].
    inversion Sr as [|? ? Hlo Sr2]; subst. inversion Sr2 as [|? ? Hhi _]; subst.
    match goal with |- context [negb (ty_eqb ?a ?b)] => destruct (ty_eqb a b) end; cbn [negb]; [|pw_fail].
    match goal with |- context [negb (ty_eqb ?a ?b)] => destruct (ty_eqb a b) end; cbn [negb]; [|pw_fail].
    apply PW_vmap3_rot; assumption.
Qed.

Lemma Forall_QPW_IPW l : Forall QPW l -> Forall IPW l.
Proof. induction 1 as [|? ? H ? ?]; constructor; auto. now destruct H. Qed.

Theorem eval_batch_PW : forall e, QPW e.
Proof.
  induction e using expr_ind2.
  - split; [|exact I]. now apply bin_PW.
  - split; [|exact I]. unfold IPW.
    destruct f; (eapply PW_ext; [intros ch; cbn [EvalVec.eval_batch]; reflexivity|]); apply PW_const.
  - split; [|exact I]. unfold IPW. eapply PW_ext; [intros ch; cbn [EvalVec.eval_batch]; reflexivity|]. apply PW_const.
  - split; [|exact I]. unfold IPW. eapply PW_ext; [intros ch; cbn [EvalVec.eval_batch]; reflexivity|].
    apply PW_vmap. apply IHe.
  - split; [|exact I]. apply call_PW. now apply Forall_QPW_IPW.
  - split; [|exact I]. unfold IPW. eapply PW_ext; [intros ch; cbn [EvalVec.eval_batch]; reflexivity|]. apply PW_const.
  - split; [|exact I]. unfold IPW. eapply PW_ext; [intros ch; cbn [EvalVec.eval_batch]; reflexivity|]. apply IHe.
  - split; [|exact I]. unfold IPW. eapply PW_ext; [intros ch; cbn [EvalVec.eval_batch]; reflexivity|]. apply PW_const.
  - split; [|exact I]. unfold IPW. eapply PW_ext; [intros ch; cbn [EvalVec.eval_batch]; reflexivity|].
    destruct (float_value fo s); cbn [bind]; [apply PW_const | pw_fail ..].
  - split; [|exact I]. unfold IPW. eapply PW_ext; [intros ch; cbn [EvalVec.eval_batch]; reflexivity|]. apply PW_const.
  - split; [|now apply Forall_QPW_IPW]. unfold IPW.
    eapply PW_ext; [intros ch; cbn [EvalVec.eval_batch]; reflexivity|]. apply PW_const.
  - split; [|exact I]. unfold IPW. eapply PW_ext; [intros ch; cbn [EvalVec.eval_batch]; reflexivity|].
    destruct e2; try solve [pw_fail]; cbv beta iota; apply PW_vmap; apply IHe1.
Qed.

(* ---------------------------------------------------------------- the theorems *)

(* restriction to one row *)
Theorem eval_batch_single : forall e ch vs,
  eval_batch e ch = Ok vs -> Forall2 (fun kv v => eval_batch e [kv] = Ok [v]) ch vs.
Proof.
  intros e ch. induction ch as [|kv ch IH]; intros vs H.
  - apply eval_batch_length in H. destruct vs; [constructor | discriminate H].
  - destruct ch as [|kv' ch'].
    + destruct (batch_single_len _ _ _ H) as (v & ->). constructor; [exact H | constructor].
    + apply (proj1 (eval_batch_PW e) kv (kv' :: ch') vs) in H; [|discriminate].
      destruct H as (v & vs' & -> & H1 & H2). constructor; [exact H1 | apply IH, H2].
Qed.

(* gluing single rows *)
Theorem eval_batch_glue : forall e ch vs, ch <> [] ->
  Forall2 (fun kv v => eval_batch e [kv] = Ok [v]) ch vs -> eval_batch e ch = Ok vs.
Proof.
  intros e ch vs Hne H. induction H as [|kv v ch vs Hv H IH]; [congruence|].
  destruct ch as [|kv' ch'].
  - inversion H; subst. exact Hv.
  - apply (proj1 (eval_batch_PW e) kv (kv' :: ch') (v :: vs)); [discriminate|].
    exists v, vs. split; [reflexivity|]. split; [exact Hv|]. apply IH. discriminate.
Qed.

(* chunk-wise results, concatenated and restricted to a sub-sequence of rows, are the result on
   that sub-sequence *)
Theorem eval_batch_regroup : forall e (chunks : list (list kvpair)) (cols : list (list value)) (m : list bool),
  Forall2 (fun ch col => eval_batch e ch = Ok col) chunks cols ->
  sel m (List.concat chunks) <> [] ->
  eval_batch e (sel m (List.concat chunks)) = Ok (sel m (List.concat cols)).
Proof.
  intros e chunks cols m H Hne. apply eval_batch_glue; [exact Hne|].
  apply Forall2_sel. apply Forall2_concat.
  eapply Forall2_imp; [|exact H]. intros ch col Hc. apply eval_batch_single, Hc.
Qed.

End Pointwise.

Print Assumptions eval_batch_regroup.
