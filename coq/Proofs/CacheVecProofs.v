(* Proofs/CacheVecProofs.v -- the chunk caches of batch mode are invisible (C05, batch part).

   Part 1  eval_batch_c (Model/CacheVec.v: ExecuteBatch with the context as state) simulates
           Model/EvalVec.eval_batch: generic simulation over an invariant indexed by the set of
           aliases evaluated so far on the current chunk.
   Part 2  the two instances: cache off (eval_batch_c IS eval_batch and leaves the context alone)
           and cache on (started in a context whose per-chunk entries for the current chunk are
           the columns of the aliases' definitions, it returns what eval_batch returns, and the
           context afterwards holds exactly the entries of the aliases the expression evaluates).
   Part 3  the scans' Batch loop: refills, chooseIdxes / AdjustChunkCache.
   Part 4  processProjectionBatch and the drain: cache on = cache off. *)
From Coq Require Import List String Ascii ZArith Bool Arith Lia.
Import ListNotations.
From KV Require Import Base.Bytes Base.Num Model.Ast Model.Value Model.Eval Model.EvalVec
                       Model.Cache Model.ScanProj Proofs.CacheProofs Proofs.EvalVecProofs
                       Proofs.CacheVecShape Proofs.CacheVecPointwise.
From KV Require Import Model.CacheVec.
Local Open Scope list_scope.

(* ------------------------------------------------------------------ name tests on literal names *)
Ltac red_names H :=
  repeat match type of H with
         | context [String.eqb ?a ?b] =>
             let c := eval vm_compute in (String.eqb a b) in
             change (String.eqb a b) with c in H
         end;
  cbn [orb negb] in H.

Ltac red_names_goal :=
  repeat match goal with
         | |- context [String.eqb ?a ?b] =>
             let c := eval vm_compute in (String.eqb a b) in
             change (String.eqb a b) with c
         end;
  cbn [orb negb].

Ltac each_name Hin :=
  unfold func_names in Hin; cbn [In] in Hin;
  repeat match type of Hin with _ \/ _ => destruct Hin as [Hin|Hin] end;
  [subst .. | contradiction].

(* ------------------------------------------------------------------ the aliases batch evaluation reaches *)

(* the names whose FieldReferenceExpr.ExecuteBatch runs when [e] is evaluated on a chunk without
   error, in reverse order of first evaluation (what is below a row-body function, the items of
   a list literal used as a value, function names and index positions are not evaluated) *)
Fixpoint brefs (e : expr) : list string :=
  match e with
  | ERef _ a d => a :: brefs d
  | ENot _ r => brefs r
  | ECall _ n args =>
      match call_name n with
      | Some nm =>
          if vec_args nm
          then (fix bl (l : list expr) : list string :=
                  match l with [] => [] | x :: l' => bl l' ++ brefs x end) args
          else []
      | None => []
      end
  | EAccess _ l _ => brefs l
  | EBin _ o l r =>
      match o with
      | OIn =>
          match r with
          | EList _ items =>
              (fix bl (l : list expr) : list string :=
                 match l with [] => [] | x :: l' => bl l' ++ brefs x end) items ++ brefs l
          | ECall _ _ _ | ERef _ _ _ => brefs r ++ brefs l
          | _ => brefs l
          end
      | OBetween =>
          match r with
          | EList _ [lo; hi] => brefs hi ++ brefs lo ++ brefs l
          | _ => brefs l
          end
      | ONot => []
      | _ => brefs r ++ brefs l
      end
  | EStr _ _ | EField _ _ | EName _ _ | ENum _ _ | EFloat _ _ | EBool _ _ | EList _ _ => []
  end.

Fixpoint brefs_list (l : list expr) : list string :=
  match l with [] => [] | x :: l' => brefs_list l' ++ brefs x end.

Lemma brefs_call p n args :
  brefs (ECall p n args) =
  match call_name n with
  | Some nm => if vec_args nm then brefs_list args else []
  | None => []
  end.
Proof.
  cbn [brefs]. destruct (call_name n); [|reflexivity]. destruct (vec_args s); reflexivity.
Qed.

Lemma brefs_in_list p l q items :
  brefs (EBin p OIn l (EList q items)) = brefs_list items ++ brefs l.
Proof.
  reflexivity.
Qed.

Section Sim.
Variable fo : fops.
Variable re_match : bytes -> bytes -> res bool.
Variable keyfix : bool.
Notation value := (value fo).
Notation ctx := (ctx fo).
Notation eval_batch := (eval_batch fo re_match true).
Notation eval_batch_c := (eval_batch_c fo re_match keyfix).

(* ------------------------------------------------------------------ the simulation relation *)

(* [rc], a computation on the context, returns what the cache-free result [r] is, and ends in a
   context satisfying [Q] *)
Definition simv {A} (Q : ctx -> Prop) (r : res A) (rc : res (A * ctx)) : Prop :=
  match r with
  | Ok a => exists s', rc = Ok (a, s') /\ Q s'
  | Err e => rc = Err e
  | Panic => rc = Panic
  | OutOfModel => rc = OutOfModel
  end.

Lemma simv_ret {A} (Q : ctx -> Prop) (a : A) s : Q s -> simv Q (Ok a) (retv fo a s).
Proof. intros H; cbn; unfold retv; eauto. Qed.

Lemma simv_lift {A} (Q : ctx -> Prop) (r : res A) s : Q s -> simv Q r (liftv fo r s).
Proof. intros H; destruct r; cbn; unfold liftv; eauto. Qed.

Lemma simv_fail {A} (Q : ctx -> Prop) e s : simv Q (@Err A e) (@failv fo A e s).
Proof. reflexivity. Qed.

Lemma simv_bind {A B} (Q1 Q2 : ctx -> Prop) (r : res A) (m : MV fo A) (g : A -> res B) (f : A -> MV fo B) s :
  simv Q1 r (m s) ->
  (forall a s', Q1 s' -> simv Q2 (g a) (f a s')) ->
  simv Q2 (bind r g) (bindv fo m f s).
Proof.
  intros H Hf. unfold bindv. destruct r as [a|e| |]; cbn in H |- *.
  - destruct H as (s' & -> & Hq). apply Hf, Hq.
  - rewrite H; reflexivity.
  - rewrite H; reflexivity.
  - rewrite H; reflexivity.
Qed.

Lemma bindv_ok {A B} (m : MV fo A) (K : A -> MV fo B) st a st' :
  m st = Ok (a, st') -> bindv fo m K st = K a st'.
Proof. unfold bindv. intros ->. reflexivity. Qed.
Lemma bindv_err {A B} (m : MV fo A) (K : A -> MV fo B) st e : m st = Err e -> bindv fo m K st = Err e.
Proof. unfold bindv. intros ->. reflexivity. Qed.
Lemma bindv_panic {A B} (m : MV fo A) (K : A -> MV fo B) st : m st = Panic -> bindv fo m K st = Panic.
Proof. unfold bindv. intros ->. reflexivity. Qed.
Lemma bindv_oom {A B} (m : MV fo A) (K : A -> MV fo B) st : m st = OutOfModel -> bindv fo m K st = OutOfModel.
Proof. unfold bindv. intros ->. reflexivity. Qed.
Lemma bindv_liftv {A B} (r : res A) (K : A -> MV fo B) st :
  bindv fo (liftv fo r) K st =
  match r with Ok a => K a st | Err e => Err e | Panic => Panic | OutOfModel => OutOfModel end.
Proof. destruct r; reflexivity. Qed.

Lemma simv_weaken {A} (Q1 Q2 : ctx -> Prop) (r : res A) rc :
  (forall s, Q1 s -> Q2 s) -> simv Q1 r rc -> simv Q2 r rc.
Proof. intros H; destruct r; cbn; auto. intros (s' & E & Hq). eauto. Qed.

(* ------------------------------------------------------------------ facts about the function table *)

(* the row-body functions never look at the argument columns *)
Lemma rowbody_cols_irrelevant nm args ch cols cols' :
  vec_args nm = false ->
  apply_func_vec fo re_match nm args ch cols = apply_func_vec fo re_match nm args ch cols'.
Proof.
  unfold vec_args. intros H. apply negb_false_iff in H.
  repeat (apply orb_true_iff in H; destruct H as [H|H]);
    apply String.eqb_eq in H; subst nm; unfold apply_func_vec; red_names_goal; reflexivity.
Qed.

Definition is_ok {A} (r : res A) : Prop := exists a, r = Ok a.

Lemma bind_okv {A B} (r : res A) (f : A -> res B) b :
  bind r f = Ok b -> exists a, r = Ok a /\ f a = Ok b.
Proof. destruct r; cbn; intros H; try discriminate; eauto. Qed.

(* a vector body that succeeds has consumed every argument column *)
Lemma vec_cols_used nm na va t args ch cols vs :
  func_info nm = Some (na, va, t) ->
  ((negb va && negb (Nat.eqb (List.length cols) na)) || (va && Nat.ltb (List.length cols) na)) = false ->
  vec_args nm = true ->
  apply_func_vec fo re_match nm args ch cols = Ok vs ->
  Forall is_ok cols.
Proof.
  intros Hfi Har Hv H. pose proof (func_info_cases _ _ Hfi) as Hin.
  each_name Hin; cbn in Hfi; inversion Hfi; subst na va t; try discriminate Hv;
    cbn [negb andb orb] in Har; rewrite ?orb_false_r in Har; apply negb_false_iff, Nat.eqb_eq in Har;
    repeat (destruct cols as [|? cols]; cbn [List.length] in Har; try discriminate Har);
    unfold apply_func_vec in H; red_names H; unfold nth_col in H; cbn [nth] in H;
    repeat match type of H with
           | (if ?c then _ else _) = Ok _ => destruct c; try discriminate H
           end;
    repeat (apply bind_okv in H; let x := fresh "x" in let E := fresh "E" in destruct H as (x & E & H));
    try discriminate H;
    repeat constructor; unfold is_ok; eauto.
Qed.

(* ------------------------------------------------------------------ the generic simulation *)

Section Generic.
Variable on : bool.
Variable ch : list kvpair.
Variable Q : list string -> ctx -> Prop.     (* indexed by the aliases evaluated so far on [ch] *)
Variable R : string -> expr -> Prop.

Definition SimB (e : expr) : Prop :=
  refs_ok R e -> forall T s, Q T s -> simv (Q (brefs e ++ T)) (eval_batch e ch) (eval_batch_c on e ch s).

(* what FieldReferenceExpr.ExecuteBatch needs, given that its definition simulates *)
Hypothesis Href : forall p a d, R a d ->
  (forall T s, Q T s -> simv (Q (brefs d ++ T)) (eval_batch d ch) (eval_batch_c on d ch s)) ->
  forall T s, Q T s -> simv (Q (a :: brefs d ++ T)) (eval_batch d ch) (eval_batch_c on (ERef p a d) ch s).

Definition items_SB (e : expr) : Prop :=
  match e with EList _ items => Forall SimB items | _ => True end.

Lemma cols_sim : forall args, Forall SimB args -> all_refs_ok R args -> forall T s, Q T s ->
  exists s' T', cols_c fo (fun a => eval_batch_c on a ch) args s = (map (fun a => eval_batch a ch) args, s') /\
                Q T' s' /\
                (Forall is_ok (map (fun a => eval_batch a ch) args) -> T' = brefs_list args ++ T).
Proof.
  induction 1 as [|a args Ha _ IH]; intros Hr T s Hq; cbn [cols_c map brefs_list].
  - exists s, T. auto.
  - destruct Hr as [Hra Hrl]. specialize (Ha Hra T s Hq). unfold cols_step.
    destruct (eval_batch a ch) as [col|e| |] eqn:E; cbn in Ha.
    + destruct Ha as (s1 & -> & Hq1). destruct (IH Hrl _ s1 Hq1) as (s2 & T2 & -> & Hq2 & HT).
      exists s2, T2. split; [reflexivity|]. split; [assumption|].
      intros Hall. inversion Hall; subst. rewrite (HT H2). rewrite app_assoc. reflexivity.
    + rewrite Ha. destruct (IH Hrl T s Hq) as (s2 & T2 & -> & Hq2 & _).
      exists s2, T2. split; [reflexivity|]. split; [assumption|].
      intros Hall. inversion Hall; subst. destruct H1; discriminate.
    + rewrite Ha. destruct (IH Hrl T s Hq) as (s2 & T2 & -> & Hq2 & _).
      exists s2, T2. split; [reflexivity|]. split; [assumption|].
      intros Hall. inversion Hall; subst. destruct H1; discriminate.
    + rewrite Ha. destruct (IH Hrl T s Hq) as (s2 & T2 & -> & Hq2 & _).
      exists s2, T2. split; [reflexivity|]. split; [assumption|].
      intros Hall. inversion Hall; subst. destruct H1; discriminate.
Qed.

Lemma in_cols_sim number : forall items, Forall SimB items -> all_refs_ok R items -> forall T s, Q T s ->
  simv (Q (brefs_list items ++ T))
       (in_cols fo number items (map (fun it => eval_batch it ch) items))
       (in_cols_c fo (fun it => eval_batch_c on it ch) number items s).
Proof.
  induction 1 as [|it items Hi _ IH]; intros Hr T s Hq; cbn [in_cols_c in_cols map brefs_list].
  - apply simv_ret, Hq.
  - destruct Hr as [Hri Hrl].
    destruct (negb (ty_eqb (rtype it) (if number then TNumber else TStr))); [apply simv_fail|].
    eapply simv_bind; [apply Hi; eassumption|]. intros col s1 Hq1.
    eapply simv_bind; [apply IH; eassumption|]. intros cols s2 Hq2.
    apply simv_ret. rewrite <- app_assoc. exact Hq2.
Qed.

Ltac both_tac Hl Hr :=
  eapply simv_bind; [apply Hl; eassumption|]; intros ? ? ?;
  eapply simv_bind; [apply Hr; eassumption|]; intros ? ? ?;
  apply simv_lift; rewrite <- app_assoc; assumption.

Lemma eval_batch_c_sim_strong : forall e, SimB e /\ items_SB e.
Proof.
  induction e using expr_ind_c.
  - (* EBin *)
    destruct IHe1 as [Hl _]. destruct IHe2 as [Hr Hitems]. split; [|exact I].
    intros [Hrl Hrr] T st Hq. cbn [EvalVec.eval_batch CacheVec.eval_batch_c].
    destruct o; cbv zeta beta; cbn [brefs];
      try (both_tac Hl Hr).
    + (* ONot *) apply simv_fail.
    + (* OAdd *) destruct (rtype e1); both_tac Hl Hr.
    + (* OGt *) destruct (rtype e1); both_tac Hl Hr.
    + destruct (rtype e1); both_tac Hl Hr.
    + destruct (rtype e1); both_tac Hl Hr.
    + destruct (rtype e1); both_tac Hl Hr.
    + (* OIn *)
      eapply simv_bind; [apply Hl; eassumption|]. intros ls s1 Hq1.
      destruct e2; try apply simv_fail.
      * (* ECall *)
        eapply simv_bind; [apply Hr; eassumption|]. intros fv s2 Hq2.
        apply simv_lift. rewrite <- app_assoc. exact Hq2.
      * (* ERef *)
        eapply simv_bind; [apply Hr; eassumption|]. intros fv s2 Hq2.
        apply simv_lift. rewrite <- app_assoc. exact Hq2.
      * (* EList *)
        change ((fix bl (l0 : list expr) : list string :=
                   match l0 with [] => [] | x :: l' => bl l' ++ brefs x end) l) with (brefs_list l).
        eapply simv_bind; [apply in_cols_sim; [exact Hitems | exact Hrr | exact Hq1]|].
        intros cols s2 Hq2. apply simv_lift. rewrite <- app_assoc. exact Hq2.
    + (* OBetween *)
      eapply simv_bind; [apply Hl; eassumption|]. intros ls s1 Hq1.
      destruct e2; try apply simv_fail.
      destruct l as [|lo [|hi [|]]]; try apply simv_fail.
      cbn in Hitems. inversion Hitems as [|? ? Hlo Hrest]; subst. inversion Hrest as [|? ? Hhi _]; subst.
      destruct Hrr as (Hrlo & Hrhi & _).
      destruct (negb (ty_eqb (rtype lo) _)); [apply simv_fail|].
      rewrite orb_true_r. cbn [andb].
      destruct (negb (ty_eqb (rtype hi) _)); [apply simv_fail|].
      eapply simv_bind; [apply Hlo; eassumption|]. intros los s2 Hq2.
      eapply simv_bind; [apply Hhi; eassumption|]. intros his s3 Hq3.
      apply simv_lift. rewrite <- !app_assoc. exact Hq3.
  - (* EField *) split; [|exact I]. intros _ T st Hq. apply simv_lift, Hq.
  - (* EStr *) split; [|exact I]. intros _ T st Hq. apply simv_lift, Hq.
  - (* ENot *)
    destruct IHe as [Hr _]. split; [|exact I]. intros Hrr T st Hq.
    cbn [EvalVec.eval_batch CacheVec.eval_batch_c brefs].
    eapply simv_bind; [apply Hr; eassumption|]. intros rs s1 Hq1. apply simv_lift, Hq1.
  - (* ECall *)
    split; [|exact I]. intros Hr T st Hq. rewrite refs_ok_call in Hr. destruct Hr as [_ Hra].
    rewrite brefs_call. cbn [EvalVec.eval_batch CacheVec.eval_batch_c].
    destruct e; try apply simv_fail.
    destruct (call_name (EName pos s)) as [nm|]; [|apply simv_lift, Hq].
    destruct (func_info nm) as [[[nargs varargs] t]|] eqn:Hfi; [|apply simv_fail].
    destruct ((negb varargs && negb (Nat.eqb (List.length args) nargs)) || (varargs && Nat.ltb (List.length args) nargs)) eqn:Har;
      [apply simv_fail|].
    destruct (vec_args nm) eqn:Hv.
    + assert (HS : Forall SimB args).
      { clear -H. induction H as [|x l [Hx _] _ IH]; constructor; auto. }
      destruct (cols_sim args HS Hra T st Hq) as (s' & T' & -> & Hq' & HT).
      destruct (apply_func_vec fo re_match nm args ch (map (fun a => eval_batch a ch) args)) as [vs|x| |] eqn:Eap;
        cbn; unfold liftv; try reflexivity.
      exists s'. split; [reflexivity|]. rewrite <- HT; [exact Hq'|].
      eapply vec_cols_used; [exact Hfi | rewrite map_length; exact Har | exact Hv | exact Eap].
    + rewrite (rowbody_cols_irrelevant nm args ch _ [] Hv). apply simv_lift, Hq.
  - (* EName *) split; [|exact I]. intros _ T st Hq. apply simv_lift, Hq.
  - (* ERef *)
    destruct IHe as [Hd _]. split; [|exact I]. intros [Hra Hrd] T st Hq.
    cbn [EvalVec.eval_batch brefs]. apply Href; [assumption | intros; apply Hd; assumption | assumption].
  - (* ENum *) split; [|exact I]. intros _ T st Hq. apply simv_lift, Hq.
  - (* EFloat *) split; [|exact I]. intros _ T st Hq. apply simv_lift, Hq.
  - (* EBool *) split; [|exact I]. intros _ T st Hq. apply simv_lift, Hq.
  - (* EList *)
    split.
    + intros _ T st Hq. apply simv_lift, Hq.
    + cbn. clear -H. induction H as [|x l [Hx _] _ IH]; constructor; auto.
  - (* EAccess *)
    destruct IHe1 as [Hl _]. split; [|exact I]. intros [Hrl _] T st Hq.
    cbn [EvalVec.eval_batch CacheVec.eval_batch_c brefs].
    eapply simv_bind; [apply Hl; eassumption|]. intros ls s1 Hq1.
    destruct e2; try apply simv_fail; apply simv_lift, Hq1.
Qed.

Lemma eval_batch_c_sim : forall e, refs_ok R e -> forall T s, Q T s ->
  simv (Q (brefs e ++ T)) (eval_batch e ch) (eval_batch_c on e ch s).
Proof. intros e. apply (proj1 (eval_batch_c_sim_strong e)). Qed.

End Generic.
End Sim.

(* ================================================================== Part 2: the two instances *)
Section Instances.
Variable fo : fops.
Variable re_match : bytes -> bytes -> res bool.
Variable keyfix : bool.
Notation value := (value fo).
Notation ctx := (ctx fo).
Notation eval_batch := (eval_batch fo re_match true).
Notation eval_batch_c := (eval_batch_c fo re_match keyfix).
Notation kc_get := (kc_get fo keyfix).
Notation simv := (simv fo).
Notation kc := (kc fo).
Notation cc := (cc fo).

(* ---- cache off: eval_batch_c is eval_batch, and the context is left alone (a chunk handed to
   ExecuteBatch by a plan is never empty; on an empty one FieldReferenceExpr would index chunk[0]) *)
Theorem eval_batch_c_off : forall e kv0 ch0 s,
  eval_batch_c false e (kv0 :: ch0) s = liftv fo (eval_batch e (kv0 :: ch0)) s.
Proof.
  intros e kv0 ch0 s.
  assert (Hs : simv (fun s' => s' = s) (eval_batch e (kv0 :: ch0)) (eval_batch_c false e (kv0 :: ch0) s)).
  { refine (eval_batch_c_sim fo re_match keyfix false (kv0 :: ch0) (fun _ s' => s' = s) (fun _ _ => True)
              _ e (refs_ok_trivial e) [] s eq_refl).
    intros p a d _ Hd T s1 Hq. cbn [CacheVec.eval_batch_c]. apply Hd; assumption. }
  unfold CacheVecProofs.simv in Hs. destruct (eval_batch e (kv0 :: ch0)); cbn [liftv].
  - destruct Hs as (s' & -> & ->). reflexivity.
  - assumption.
  - assumption.
  - assumption.
Qed.

(* ---- cache on, one chunk *)

Lemma keq_refl x : keq keyfix x x = true.
Proof. unfold keq. destruct keyfix; rewrite ?String.eqb_refl; reflexivity. Qed.

Definition capp (o : option (list value)) (V : list value) : list value :=
  match o with Some b => b ++ V | None => V end.

Section OneChunk.
Variable env : list (string * expr).
Variable kv0 : kvpair.
Variable ch0 : list kvpair.
Let ch := kv0 :: ch0.
Let k := fst kv0.
Variable s0 : ctx.                    (* the context when the evaluation on this chunk starts *)

(* two (name, key) pairs with names of the select list address the same entry only if equal *)
Hypothesis Hinj : forall a a' k1 k2, lookup env a <> None -> lookup env a' <> None ->
  keq keyfix (a, k1) (a', k2) = true -> a = a' /\ k1 = k2.

(* [T]: the aliases evaluated on [ch] so far.  The per-chunk entries for this chunk are exactly
   those of T, each the column of the alias's definition on [ch] with the cache off; entries of
   other chunks are untouched; the accumulated column of every alias of T is what it was at the
   start with this chunk's column appended, once. *)
Record Qon (T : list string) (s : ctx) : Prop := {
  q_wf : forall x col, In (x, col) (kc s) ->
           lookup env (fst x) <> None /\ (In (x, col) (kc s0) \/ snd x = k);
  q_dom : forall a, lookup env a <> None -> (In a T <-> kc_get (kc s) (a, k) <> None);
  q_val : forall a col, lookup env a <> None -> kc_get (kc s) (a, k) = Some col ->
           exists d, lookup env a = Some d /\ eval_batch d ch = Ok col;
  q_clo : forall a d, In a T -> lookup env a = Some d -> incl (brefs d) T;
  q_env : forall a, In a T -> lookup env a <> None;
  q_cc : forall a,
           (In a T -> exists V, kc_get (kc s) (a, k) = Some V /\
                                cc_get value (cc s) a = Some (capp (cc_get value (cc s0) a) V)) /\
           (~ In a T -> cc_get value (cc s) a = cc_get value (cc s0) a)
}.

Lemma Qon_equiv T T' s : (forall x, In x T <-> In x T') -> Qon T s -> Qon T' s.
Proof.
  intros He [Hwf Hdom Hval Hclo Henv Hcc]. constructor.
  - exact Hwf.
  - intros a Ha. rewrite <- He. apply Hdom, Ha.
  - exact Hval.
  - intros a d Ha Hl x Hx. apply He. apply (Hclo a d); [apply He, Ha | exact Hl | exact Hx].
  - intros a Ha. apply Henv, He, Ha.
  - intros a. destruct (Hcc a) as [H1 H2]. split.
    + intros Ha. apply H1, He, Ha.
    + intros Ha. apply H2. intros Hx. apply Ha, He, Hx.
Qed.

Lemma Qon_start :
  (forall x col, In (x, col) (kc s0) -> lookup env (fst x) <> None) ->
  (forall a, lookup env a <> None -> kc_get (kc s0) (a, k) = None) ->
  Qon [] s0.
Proof.
  intros Hwf Hfresh. constructor.
  - intros x col Hin. split; [eapply Hwf; eauto | left; exact Hin].
  - intros a Ha. rewrite (Hfresh a Ha). split; [intros [] | intros H; exfalso; apply H; reflexivity].
  - intros a col Ha H. rewrite (Hfresh a Ha) in H. discriminate.
  - intros a d [].
  - intros a [].
  - intros a. split; [intros [] | reflexivity].
Qed.

Lemma href_on : forall p a d, Renv env a d ->
  (forall T s, Qon T s -> simv (Qon (brefs d ++ T)) (eval_batch d ch) (eval_batch_c true d ch s)) ->
  forall T s, Qon T s ->
  simv (Qon (a :: brefs d ++ T)) (eval_batch d ch) (eval_batch_c true (ERef p a d) ch s).
Proof.
  intros p a d Hr Hd T s Hq. unfold Renv in Hr.
  assert (Hea : lookup env a <> None) by congruence.
  unfold ch at 2. cbn [CacheVec.eval_batch_c]. fold ch. fold k.
  destruct (kc_get (kc s) (a, k)) as [col|] eqn:G.
  - (* hit *)
    destruct (q_val T s Hq a col Hea G) as (d' & Hl & Hv). rewrite Hr in Hl. inversion Hl; subst d'.
    rewrite Hv. cbn. exists s. split; [reflexivity|].
    assert (HaT : In a T). { apply (q_dom T s Hq a Hea). rewrite G. discriminate. }
    apply (Qon_equiv T); [|exact Hq]. intros x. split.
    + intros Hx. right. apply in_or_app. right. exact Hx.
    + intros [->|Hx]; [exact HaT|]. apply in_app_or in Hx. destruct Hx as [Hx|Hx]; [|exact Hx].
      exact (q_clo T s Hq a d HaT Hr x Hx).
  - (* miss: evaluate the definition, store and append *)
    specialize (Hd T s Hq).
    destruct (eval_batch d ch) as [col|e| |] eqn:E; cbn in Hd |- *.
    2,3,4: rewrite Hd; reflexivity.
    destruct Hd as (s1 & -> & Hq1). unfold set_chunk. fold k.
    destruct (kc_get (kc s1) (a, k)) as [c1|] eqn:G1.
    + (* the definition itself evaluated the name on this chunk *)
      exists s1. split; [reflexivity|].
      assert (HaL : In a (brefs d ++ T)). { apply (q_dom _ s1 Hq1 a Hea). rewrite G1. discriminate. }
      apply (Qon_equiv (brefs d ++ T)); [|exact Hq1]. intros x. split.
      * intros Hx. right. exact Hx.
      * intros [->|Hx]; assumption.
    + eexists. split; [reflexivity|].
      set (L := brefs d ++ T) in *.
      assert (HaL : ~ In a L). { intros HaL. apply (q_dom _ s1 Hq1 a Hea) in HaL. apply HaL, G1. }
      assert (Hne : forall b, lookup env b <> None -> b <> a -> keq keyfix (a, k) (b, k) = false).
      { intros b Hb Hba. destruct (keq keyfix (a, k) (b, k)) eqn:K; [|reflexivity].
        destruct (Hinj a b k k Hea Hb K) as [-> _]. exfalso; apply Hba; reflexivity. }
      constructor; cbn [CacheVec.kc CacheVec.cc].
      * intros x c [Hin|Hin].
        -- inversion Hin; subst. cbn [fst snd]. split; [exact Hea | right; reflexivity].
        -- exact (q_wf _ s1 Hq1 x c Hin).
      * intros b Hb. cbn [CacheVec.kc_get].
        destruct (string_dec b a) as [->|Hba].
        -- rewrite keq_refl. split; [discriminate | intros _; left; reflexivity].
        -- rewrite (Hne b Hb Hba). rewrite <- (q_dom _ s1 Hq1 b Hb). split.
           ++ intros [Hx|Hx]; [exfalso; apply Hba; symmetry; exact Hx | exact Hx].
           ++ intros Hx. right. exact Hx.
      * intros b c Hb. cbn [CacheVec.kc_get].
        destruct (string_dec b a) as [->|Hba].
        -- rewrite keq_refl. intros Hc. inversion Hc; subst c. exists d. split; assumption.
        -- rewrite (Hne b Hb Hba). apply (q_val _ s1 Hq1 b c Hb).
      * intros b d' [Hb|Hb] Hl.
        -- subst b. rewrite Hr in Hl. inversion Hl; subst d'.
           apply incl_tl. unfold L. apply incl_appl, incl_refl.
        -- apply incl_tl. exact (q_clo _ s1 Hq1 b d' Hb Hl).
      * intros b [Hb|Hb]; [subst b; exact Hea | exact (q_env _ s1 Hq1 b Hb)].
      * intros b. destruct (q_cc _ s1 Hq1 b) as [H1 H2]. split.
        -- intros Hb. destruct (string_dec b a) as [->|Hba].
           ++ exists col. cbn [CacheVec.kc_get]. rewrite keq_refl. split; [reflexivity|].
              unfold cc_put. cbn [cc_get]. rewrite String.eqb_refl.
              destruct (q_cc _ s1 Hq1 a) as [_ H2a]. rewrite (H2a HaL). reflexivity.
           ++ destruct Hb as [Hb|Hb]; [exfalso; apply Hba; symmetry; exact Hb|].
              destruct (H1 Hb) as (V & HV & Hc). exists V.
              cbn [CacheVec.kc_get]. rewrite (Hne b (q_env _ s1 Hq1 b Hb) Hba).
              split; [exact HV|]. unfold cc_put. cbn [cc_get].
              destruct (String.eqb_spec a b) as [Eab|_]; [exfalso; apply Hba; symmetry; exact Eab|].
              exact Hc.
        -- intros Hb. unfold cc_put. cbn [cc_get].
           destruct (String.eqb_spec a b) as [Eab|_]; [exfalso; apply Hb; left; exact Eab|].
           apply H2. intros Hx. apply Hb. right. exact Hx.
Qed.

(* with the cache on, started in a context that is right for the chunk, evaluation returns what
   the cache-free evaluator returns, and the context afterwards is right for the chunk with the
   aliases of [e] evaluated *)
Theorem eval_batch_c_on : forall e, coherent env e = true -> forall T s, Qon T s ->
  simv (Qon (brefs e ++ T)) (eval_batch e ch) (eval_batch_c true e ch s).
Proof.
  intros e Hc T s Hq.
  apply (eval_batch_c_sim fo re_match keyfix true ch Qon (Renv env)); auto.
  - apply href_on.
  - apply coherent_refs_ok, Hc.
Qed.

End OneChunk.
End Instances.

(* ================================================================== Part 3: lists, masks, indexes *)

Lemma sel_app {A} : forall (m1 m2 : list bool) (l1 l2 : list A),
  List.length m1 = List.length l1 -> sel (m1 ++ m2) (l1 ++ l2) = sel m1 l1 ++ sel m2 l2.
Proof.
  induction m1 as [|b m1 IH]; intros m2 l1 l2 H; destruct l1 as [|x l1]; cbn in H; try discriminate.
  - reflexivity.
  - cbn [app sel]. rewrite IH by lia. destruct b; reflexivity.
Qed.

Lemma sel_nil_mask {A} (l : list A) : sel [] l = [].
Proof. reflexivity. Qed.

Lemma select_matches_sel {P} : forall (ms : list bool) (ch r : list P),
  select_matches ch ms = Ok r -> r = sel ms ch.
Proof.
  induction ms as [|m ms IH]; intros ch r H.
  - destruct ch; cbn in H; inversion H; reflexivity.
  - destruct ch as [|kv ch]; cbn [select_matches] in H; [discriminate|].
    destruct (select_matches ch ms) as [rest| | |] eqn:E; cbn [bind] in H; try discriminate.
    inversion H; subst r. cbn [sel]. rewrite (IH ch rest E). reflexivity.
Qed.

Lemma choose_app : forall m1 m2 i, choose i (m1 ++ m2) = choose i m1 ++ choose (i + List.length m1) m2.
Proof.
  induction m1 as [|b m1 IH]; intros m2 i; cbn [app choose List.length].
  - rewrite Nat.add_0_r. reflexivity.
  - rewrite IH. replace (S i + List.length m1) with (i + S (List.length m1)) by lia.
    destruct b; reflexivity.
Qed.

Lemma choose_ge : forall m i j, In j (choose i m) -> i <= j.
Proof.
  induction m as [|b m IH]; intros i j H; cbn [choose] in H; [contradiction|].
  destruct b.
  - destruct H as [<-|H]; [lia | apply IH in H; lia].
  - apply IH in H. lia.
Qed.

Lemma existsb_choose_lt : forall m i j, j < i -> existsb (Nat.eqb j) (choose i m) = false.
Proof.
  intros m i j Hlt. destruct (existsb (Nat.eqb j) (choose i m)) eqn:E; [|reflexivity].
  apply existsb_exists in E. destruct E as (x & Hx & Ex). apply Nat.eqb_eq in Ex. subst x.
  apply choose_ge in Hx. lia.
Qed.

Lemma keep_from_small {X} : forall (col : list X) i j idxs, j < i ->
  keep_from X i (j :: idxs) col = keep_from X i idxs col.
Proof.
  induction col as [|x col IH]; intros i j idxs Hlt; cbn [keep_from]; [reflexivity|].
  cbn [existsb]. destruct (Nat.eqb_spec i j) as [E|_]; [lia|]. cbn [orb].
  rewrite IH by lia. reflexivity.
Qed.

(* AdjustChunkCache with the chosen indexes keeps exactly the masked items *)
Lemma keep_choose {X} : forall (m : list bool) (col : list X) i,
  keep_from X i (choose i m) col = sel m col.
Proof.
  induction m as [|b m IH]; intros col i.
  - cbn [choose sel]. induction col as [|x col IHc] in i |- *; cbn [keep_from existsb]; [reflexivity | apply IHc].
  - destruct col as [|x col]; [destruct b; reflexivity|].
    cbn [choose sel]. destruct b.
    + cbn [keep_from existsb]. rewrite Nat.eqb_refl. cbn [orb].
      rewrite keep_from_small by lia. rewrite IH. reflexivity.
    + cbn [keep_from]. rewrite existsb_choose_lt by lia. apply IH.
Qed.

Lemma cc_get_adjust_opt {X} idxs : forall (c : ccache X) a,
  cc_get X (adjust X idxs c) a = option_map (keep_from X 0 idxs) (cc_get X c a).
Proof.
  induction c as [|[n c0] c IH]; intros a; cbn [adjust map cc_get fst snd]; [reflexivity|].
  destruct (String.eqb n a); [reflexivity | apply IH].
Qed.

Lemma somes_app {P} (l1 l2 : list (option P)) : somes (l1 ++ l2) = somes l1 ++ somes l2.
Proof. induction l1 as [|[x|] l1 IH]; cbn; rewrite ?IH; reflexivity. Qed.

Lemma somes_split {P} B (rest : list (option P)) : somes rest = somes (firstn B rest) ++ somes (skipn B rest).
Proof. rewrite <- somes_app, firstn_skipn. reflexivity. Qed.

Lemma skipn_skipn' {A} : forall B j (l : list A), skipn j (skipn B l) = skipn (B + j) l.
Proof.
  induction B as [|B IH]; intros j l; [reflexivity|].
  destruct l as [|x l]; cbn [skipn Nat.add]; [destruct j; reflexivity | apply IH].
Qed.

Lemma NoDup_app_disjoint {A} (l1 l2 : list A) x : NoDup (l1 ++ l2) -> In x l1 -> In x l2 -> False.
Proof.
  induction l1 as [|y l1 IH]; cbn; intros Hn H1 H2; [contradiction|].
  inversion Hn; subst. destruct H1 as [->|H1].
  - apply H3. apply in_or_app. right. exact H2.
  - apply IH; assumption.
Qed.

Lemma NoDup_app_r {A} (l1 l2 : list A) : NoDup (l1 ++ l2) -> NoDup l2.
Proof. induction l1; cbn; intros H; [exact H | inversion H; auto]. Qed.

Lemma concat_snoc {A} (ls : list (list A)) (l : list A) : List.concat (ls ++ [l]) = List.concat ls ++ l.
Proof. rewrite concat_app. cbn. rewrite app_nil_r. reflexivity. Qed.

Lemma Forall2_snoc {A B} (R : A -> B -> Prop) l1 l2 x y :
  Forall2 R l1 l2 -> R x y -> Forall2 R (l1 ++ [x]) (l2 ++ [y]).
Proof. intros H Hxy. apply Forall2_app; [exact H | constructor; [exact Hxy | constructor]]. Qed.

(* ------------------------------------------------------------------ the key text *)

Fixpoint has_dash (s : string) : bool :=
  match s with
  | EmptyString => false
  | String c s' => Ascii.eqb c "-"%char || has_dash s'
  end.

Lemma ckey_text_inj : forall a a' k k',
  has_dash a = false -> has_dash a' = false ->
  ckey_text (a, k) = ckey_text (a', k') -> a = a' /\ k = k'.
Proof.
  unfold ckey_text. cbn [fst snd].
  induction a as [|c a IH]; intros a' k k' Ha Ha' H; destruct a' as [|c' a']; cbn in H.
  - inversion H. auto.
  - inversion H; subst c'. cbn in Ha'. discriminate.
  - inversion H; subst c. cbn in Ha. discriminate.
  - inversion H; subst c'. cbn in Ha, Ha'.
    apply orb_false_iff in Ha. apply orb_false_iff in Ha'. destruct Ha, Ha'.
    destruct (IH a' k k') as [-> ->]; auto.
Qed.

(* the premise on the names of the select list under which the per-chunk entries cannot be
   confused: none with the code repaired, no '-' in a name with the code as it is *)
Definition names_ok (keyfix : bool) (s : stmt) : bool :=
  keyfix || forallb (fun a => negb (has_dash a)) (s_names s).

Lemma lookup_in_names : forall (names : list string) (fields : list expr) a,
  lookup (combine names fields) a <> None -> In a names.
Proof.
  induction names as [|n names IH]; intros fields a H; destruct fields as [|f fields]; cbn in H;
    try (exfalso; apply H; reflexivity).
  destruct (String.eqb_spec n a) as [->|_]; [left; reflexivity | right; eapply IH; eauto].
Qed.

Lemma keq_inj keyfix s : names_ok keyfix s = true ->
  forall a a' k1 k2, lookup (env_of s) a <> None -> lookup (env_of s) a' <> None ->
  keq keyfix (a, k1) (a', k2) = true -> a = a' /\ k1 = k2.
Proof.
  unfold names_ok, keq. intros Hn a a' k1 k2 Ha Ha' H. destruct keyfix; cbn [fst snd] in H.
  - apply andb_true_iff in H. destruct H as [H1 H2].
    apply String.eqb_eq in H1. apply String.eqb_eq in H2. auto.
  - cbn [orb] in Hn. rewrite forallb_forall in Hn.
    apply String.eqb_eq in H. apply ckey_text_inj in H; auto.
    + apply lookup_in_names in Ha. apply Hn in Ha. apply negb_true_iff in Ha. exact Ha.
    + apply lookup_in_names in Ha'. apply Hn in Ha'. apply negb_true_iff in Ha'. exact Ha'.
Qed.

(* ================================================================== Part 3b: the scans' Batch with the cache on *)
Section Plans.
Variable fo : fops.
Variable re_match : bytes -> bytes -> res bool.
Variable keyfix : bool.
Notation value := (value fo).
Notation ctx := (ctx fo).
Notation eval := (eval fo re_match).
Notation eval_batch := (eval_batch fo re_match true).
Notation eval_batch_c := (eval_batch_c fo re_match keyfix).
Notation kc_get := (kc_get fo keyfix).
Notation simv := (simv fo).
Notation kc := (kc fo).
Notation cc := (cc fo).
Notation Qon := (Qon fo re_match keyfix).

Variable s : stmt.
Hypothesis Hok : stmt_ok s = true.
Hypothesis Hnames : names_ok keyfix s = true.
Let env := env_of s.
Let wh := s_where s.
Variable B : nat.

Lemma stmt_ok_parts :
  List.length (s_names s) = List.length (s_fields s) /\ coherent env wh = true /\
  forallb (coherent env) (s_fields s) = true.
Proof.
  unfold stmt_ok in Hok. apply andb_true_iff in Hok. destruct Hok as [H12 H3].
  apply andb_true_iff in H12. destruct H12 as [H1 H2]. apply Nat.eqb_eq in H1. auto.
Qed.

Let Hinj := keq_inj keyfix s Hnames.

Lemma kc_get_in : forall (m : list (ckey * list value)) x col,
  kc_get m x = Some col -> exists y, In (y, col) m /\ keq keyfix y x = true.
Proof.
  induction m as [|[y c] m IH]; intros x col H; cbn [CacheVec.kc_get] in H; [discriminate|].
  destruct (keq keyfix y x) eqn:K.
  - inversion H; subst c. exists y. split; [left; reflexivity | exact K].
  - destruct (IH x col H) as (y' & Hin & K'). exists y'. split; [right; exact Hin | exact K'].
Qed.

Lemma filter_sim kv0 ch0 s0 T st : Qon env kv0 ch0 s0 T st ->
  simv (Qon env kv0 ch0 s0 (brefs wh ++ T)) (filter_batch fo re_match true wh (kv0 :: ch0))
       (filter_batch_c fo re_match keyfix true wh (kv0 :: ch0) st).
Proof.
  intros Hq. unfold filter_batch, filter_batch_c.
  eapply simv_bind.
  - apply (eval_batch_c_on fo re_match keyfix env kv0 ch0 s0 Hinj wh); [apply stmt_ok_parts | exact Hq].
  - intros rs s1 Hq1. apply simv_lift, Hq1.
Qed.

Lemma filter_batch_len e ch ms : filter_batch fo re_match true e ch = Ok ms -> List.length ms = List.length ch.
Proof.
  unfold filter_batch. intros H. apply bind_okv in H. destruct H as (rs & Er & H).
  apply eval_batch_length in Er. rewrite <- Er. clear Er.
  revert ms H. induction rs as [|r rs IH]; intros ms H; cbn [map_res] in H.
  - inversion H. reflexivity.
  - apply bind_okv in H. destruct H as (b & _ & H). apply bind_okv in H. destruct H as (bs & Eb & H).
    inversion H; subst ms. cbn [List.length]. f_equal. apply IH, Eb.
Qed.

(* what is true of the context after the refills [chunks] of one Batch call, [mask] the filter
   verdicts on their rows *)
Record Inv (chunks : list (list kvpair)) (mask : list bool) (ret : list kvpair) (idxs : list nat)
           (bidx : nat) (st : ctx) : Prop := {
  i_ret : ret = sel mask (List.concat chunks);
  i_idxs : idxs = choose 0 mask;
  i_bidx : bidx = List.length mask;
  i_len : List.length mask = List.length (List.concat chunks);
  i_kc : forall x col, In (x, col) (kc st) ->
           lookup env (fst x) <> None /\ In (snd x) (map fst (List.concat chunks));
  i_cc : forall a,
           match cc_get value (cc st) a with
           | Some col => In a (brefs wh) /\ chunks <> [] /\
                         exists d cols, lookup env a = Some d /\
                                        Forall2 (fun ch c => eval_batch d ch = Ok c) chunks cols /\
                                        col = List.concat cols
           | None => chunks = [] \/ ~ In a (brefs wh)
           end
}.

Lemma inv_start : Inv [] [] [] [] 0 (ctx0 fo).
Proof.
  constructor; try reflexivity.
  - intros x col [].
  - intros a. cbn. left. reflexivity.
Qed.

(* the context a scan's Batch leaves: no per-chunk entries, and every accumulated column is the
   column of its alias's definition on the RETURNED rows, with the cache off *)
Definition Post (ret : list kvpair) (st : ctx) : Prop :=
  kc st = [] /\
  forall a c, cc_get value (cc st) a = Some c ->
    exists d, lookup env a = Some d /\ (ret <> [] -> eval_batch d ret = Ok c).

Lemma inv_finish chunks mask ret idxs bidx st :
  Inv chunks mask ret idxs bidx st -> Post ret (adjust_ctx fo idxs st).
Proof.
  intros [Hret Hidx _ _ _ Hcc]. split; [reflexivity|].
  intros a c. unfold adjust_ctx. cbn [CacheVec.cc]. rewrite cc_get_adjust_opt.
  specialize (Hcc a). destruct (cc_get value (cc st) a) as [col|]; cbn [option_map]; [|discriminate].
  intros Hc. inversion Hc; subst c. clear Hc.
  destruct Hcc as (_ & _ & d & cols & Hl & Hf & ->).
  exists d. split; [exact Hl|]. intros Hne. subst idxs ret. rewrite keep_choose.
  apply (eval_batch_regroup fo re_match (eval_eq_kind_inv fo re_match)); assumption.
Qed.

Lemma inv_qstart chunks mask ret idxs bidx st kv0 ch0 :
  Inv chunks mask ret idxs bidx st -> ~ In (fst kv0) (map fst (List.concat chunks)) ->
  Qon env kv0 ch0 st [] st.
Proof.
  intros Hi Hfresh. apply Qon_start.
  - intros x col Hin. apply (i_kc _ _ _ _ _ _ Hi x col Hin).
  - intros a Ha. destruct (kc_get (kc st) (a, fst kv0)) as [col|] eqn:G; [|reflexivity].
    exfalso. apply kc_get_in in G. destruct G as (y & Hin & K).
    destruct (i_kc _ _ _ _ _ _ Hi y col Hin) as [Hy Hk].
    destruct y as [a' k']. cbn [fst snd] in *.
    destruct (Hinj a' a k' (fst kv0) Hy Ha K) as [_ Ek]. apply Hfresh. rewrite <- Ek. exact Hk.
Qed.

Lemma inv_step chunks mask ret idxs bidx st kv0 ch0 ms sl st1 :
  Inv chunks mask ret idxs bidx st ->
  filter_batch fo re_match true wh (kv0 :: ch0) = Ok ms ->
  Qon env kv0 ch0 st (brefs wh ++ []) st1 ->
  select_matches (kv0 :: ch0) ms = Ok sl ->
  Inv (chunks ++ [kv0 :: ch0]) (mask ++ ms) (ret ++ sl) (idxs ++ choose bidx ms) (bidx + List.length ms) st1.
Proof.
  intros [Hret Hidx Hb Hlen Hkc Hcc] Hf Hq Hs. rewrite app_nil_r in Hq.
  pose proof (filter_batch_len _ _ _ Hf) as Hml.
  constructor.
  - rewrite concat_snoc, sel_app by exact Hlen. rewrite <- Hret, (select_matches_sel _ _ _ Hs). reflexivity.
  - rewrite choose_app, <- Hidx, <- Hb. reflexivity.
  - rewrite app_length. lia.
  - rewrite concat_snoc, !app_length. lia.
  - intros x col Hin. destruct (q_wf _ _ _ _ _ _ _ _ _ Hq x col Hin) as [Hx [Hold|Hk]].
    + split; [exact Hx|]. rewrite concat_snoc, map_app. apply in_or_app. left. apply (Hkc x col Hold).
    + split; [exact Hx|]. rewrite concat_snoc, map_app. apply in_or_app. right. left. symmetry. exact Hk.
  - intros a. destruct (q_cc _ _ _ _ _ _ _ _ _ Hq a) as [H1 H2].
    destruct (in_dec string_dec a (brefs wh)) as [Hin|Hnin].
    + destruct (H1 Hin) as (V & HV & Hc). rewrite Hc.
      pose proof (q_env _ _ _ _ _ _ _ _ _ Hq a Hin) as Hea.
      destruct (q_val _ _ _ _ _ _ _ _ _ Hq a V Hea HV) as (d & Hl & Hev).
      split; [exact Hin|]. split; [intros E; apply app_eq_nil in E; destruct E; discriminate|].
      exists d. specialize (Hcc a). destruct (cc_get value (cc st) a) as [col|]; cbn [capp].
      * destruct Hcc as (_ & _ & d0 & cols & Hl0 & Hf0 & ->).
        rewrite Hl in Hl0. inversion Hl0; subst d0.
        exists (cols ++ [V]). split; [exact Hl|]. split; [apply Forall2_snoc; assumption|].
        rewrite concat_snoc. reflexivity.
      * destruct Hcc as [->|Hx]; [|contradiction].
        exists [V]. split; [exact Hl|]. split; [constructor; [exact Hev | constructor]|].
        cbn. rewrite app_nil_r. reflexivity.
    + rewrite (H2 Hnin). specialize (Hcc a). destruct (cc_get value (cc st) a) as [col|].
      * destruct Hcc as (Hin & _). contradiction.
      * right. exact Hnin.
Qed.

Definition fb := filter_batch fo re_match true wh.

Lemma scan_loop_on : forall fuel (rest : list (option kvpair)) (ret : list kvpair) idxs bidx st
    (chunks : list (list kvpair)) mask,
  NoDup (map fst (List.concat chunks ++ somes rest)) ->
  Inv chunks mask ret idxs bidx st ->
  match @ScanProj.scan_batch_loop kvpair fb fuel B rest ret with
  | Ok (ret', rest') =>
      exists st', scan_batch_loop_c fo re_match keyfix true wh fuel B rest ret idxs bidx st = Ok ((ret', rest'), st') /\
                  Post ret' st' /\ exists j, rest' = skipn j rest
  | Err e => scan_batch_loop_c fo re_match keyfix true wh fuel B rest ret idxs bidx st = Err e
  | Panic => scan_batch_loop_c fo re_match keyfix true wh fuel B rest ret idxs bidx st = Panic
  | OutOfModel => scan_batch_loop_c fo re_match keyfix true wh fuel B rest ret idxs bidx st = OutOfModel
  end.
Proof.
  induction fuel as [|f IH]; intros rest ret idxs bidx st chunks mask Hnd Hi;
    cbn [ScanProj.scan_batch_loop CacheVec.scan_batch_loop_c]; [reflexivity|].
  unfold slot.
  pose proof (@somes_split kvpair B rest) as Hsp.
  destruct (@somes kvpair (firstn B rest)) as [|kv0 ch0] eqn:Ech.
  - destruct (Nat.ltb (List.length rest) B).
    + eexists. split; [reflexivity|]. split; [eapply inv_finish; exact Hi | exists B; reflexivity].
    + cbn [app] in Hsp. specialize (IH (skipn B rest) ret idxs bidx st chunks mask).
      rewrite <- Hsp in IH. specialize (IH Hnd Hi).
      destruct (@ScanProj.scan_batch_loop kvpair fb f B (skipn B rest) ret) as [[ret' rest']|e| |]; try exact IH.
      destruct IH as (st' & E & Hp & j & Hj). exists st'. split; [exact E|]. split; [exact Hp|].
      exists (B + j). rewrite Hj, skipn_skipn'. reflexivity.
  - assert (Hfresh : ~ In (fst kv0) (map fst (List.concat chunks))).
    { intros Hin. rewrite map_app in Hnd. eapply NoDup_app_disjoint; [exact Hnd | exact Hin|].
      rewrite Hsp. cbn [app map]. left. reflexivity. }
    pose proof (inv_qstart _ _ _ _ _ _ kv0 ch0 Hi Hfresh) as Hq0.
    pose proof (filter_sim kv0 ch0 st [] st Hq0) as Hfs.
    unfold fb at 1.
    destruct (filter_batch fo re_match true wh (kv0 :: ch0)) as [ms|e| |] eqn:Ef; cbn in Hfs; cbn [bind].
    2: rewrite (bindv_err _ _ _ _ _ Hfs); reflexivity.
    2: rewrite (bindv_panic _ _ _ _ Hfs); reflexivity.
    2: rewrite (bindv_oom _ _ _ _ Hfs); reflexivity.
    destruct Hfs as (st1 & Hfs & Hq1). rewrite (bindv_ok _ _ _ _ _ _ Hfs). rewrite bindv_liftv.
    destruct (select_matches (kv0 :: ch0) ms) as [sl|e| |] eqn:Es; cbn [bind]; try reflexivity.
    pose proof (inv_step _ _ _ _ _ _ _ _ _ _ _ Hi Ef Hq1 Es) as Hi1.
    destruct (Nat.ltb (List.length rest) B || Nat.leb B (List.length (ret ++ sl))).
    + eexists. split; [reflexivity|]. split; [eapply inv_finish; exact Hi1 | exists B; reflexivity].
    + specialize (IH (skipn B rest) (ret ++ sl) (idxs ++ choose bidx ms) (bidx + List.length ms) st1
                     (chunks ++ [kv0 :: ch0]) (mask ++ ms)).
      rewrite concat_snoc, <- app_assoc, <- Hsp in IH. specialize (IH Hnd Hi1).
      destruct (@ScanProj.scan_batch_loop kvpair fb f B (skipn B rest) (ret ++ sl)) as [[ret' rest']|e| |]; try exact IH.
      destruct IH as (st' & E & Hp & j & Hj). exists st'. split; [exact E|]. split; [exact Hp|].
      exists (B + j). rewrite Hj, skipn_skipn'. reflexivity.
Qed.


(* ================================================================== Part 4: processProjectionBatch, the drain *)

Lemma firstn_len_id {A} (l : list A) n : List.length l = n -> firstn n l = l.
Proof. intros <-. apply firstn_all. Qed.

Lemma firstn_app_len {A} (l1 l2 : list A) n : List.length l1 = n -> firstn n (l1 ++ l2) = l1.
Proof.
  intros <-. rewrite firstn_app, firstn_all, Nat.sub_diag. cbn. apply app_nil_r.
Qed.

Lemma heads_firstn n (cols : list (list value)) : heads fo (map (firstn (S n)) cols) = heads fo cols.
Proof.
  unfold heads. rewrite map_map. apply map_ext. intros [|v c]; reflexivity.
Qed.

Lemma tails_firstn n (cols : list (list value)) : tails fo (map (firstn (S n)) cols) = map (firstn n) (tails fo cols).
Proof.
  unfold tails. rewrite !map_map. apply map_ext. intros [|v c]; [destruct n; reflexivity | reflexivity].
Qed.

(* row[j] = cols[j][i] for i < len(chunk): what a column holds beyond len(chunk) is never read *)
Lemma transpose_firstn : forall (ch : list kvpair) (cols : list (list value)),
  transpose fo ch (map (firstn (List.length ch)) cols) = transpose fo ch cols.
Proof.
  induction ch as [|kv ch IH]; intros cols; cbn [transpose List.length]; [reflexivity|].
  rewrite heads_firstn, tails_firstn, IH. reflexivity.
Qed.

Lemma Qon_proj_start kvr rows0 st1 : kc st1 = [] -> Qon env kvr rows0 st1 [] st1.
Proof.
  intros Hk. apply Qon_start; rewrite Hk.
  - intros x col [].
  - intros a _. reflexivity.
Qed.

Lemma proj_cols_on kvr rows0 st1 : Post (kvr :: rows0) st1 ->
  forall nfs pre T st, env = pre ++ nfs -> forallb (coherent env) (map snd nfs) = true ->
  Qon env kvr rows0 st1 T st ->
  match project_cols fo re_match (map snd nfs) (kvr :: rows0) with
  | Ok cols =>
      exists cols' st' T',
        project_cols_c fo re_match keyfix true (map fst pre) nfs (kvr :: rows0) st = Ok (cols', st') /\
        Qon env kvr rows0 st1 T' st' /\
        map (firstn (List.length (kvr :: rows0))) cols' = cols
  | Err e => project_cols_c fo re_match keyfix true (map fst pre) nfs (kvr :: rows0) st = Err e
  | Panic => project_cols_c fo re_match keyfix true (map fst pre) nfs (kvr :: rows0) st = Panic
  | OutOfModel => project_cols_c fo re_match keyfix true (map fst pre) nfs (kvr :: rows0) st = OutOfModel
  end.
Proof.
  intros [Hk1 Hp1]. set (rows := kvr :: rows0) in *. set (n := List.length rows).
  assert (Hrne : rows <> []) by discriminate.
  induction nfs as [|[a f] nfs IH]; intros pre T st Henv Hco Hq;
    cbn [map snd fst project_cols CacheVec.project_cols_c].
  - exists [], st, T. split; [reflexivity|]. split; [exact Hq | reflexivity].
  - cbn [map snd forallb] in Hco. apply andb_true_iff in Hco. destruct Hco as [Hcf Hcr].
    assert (Hnext : forall col0 st2 T2, Qon env kvr rows0 st1 T2 st2 ->
              match (do cols <- project_cols fo re_match (map snd nfs) rows; Ok (firstn n col0 :: cols)) with
              | Ok cols =>
                  exists cols' st' T',
                    bindv fo (project_cols_c fo re_match keyfix true (map fst pre ++ [a]) nfs rows)
                      (fun cols1 => retv fo (col0 :: cols1)) st2 = Ok (cols', st') /\
                    Qon env kvr rows0 st1 T' st' /\ map (firstn n) cols' = cols
              | Err e => bindv fo (project_cols_c fo re_match keyfix true (map fst pre ++ [a]) nfs rows)
                           (fun cols1 => retv fo (col0 :: cols1)) st2 = Err e
              | Panic => bindv fo (project_cols_c fo re_match keyfix true (map fst pre ++ [a]) nfs rows)
                           (fun cols1 => retv fo (col0 :: cols1)) st2 = Panic
              | OutOfModel => bindv fo (project_cols_c fo re_match keyfix true (map fst pre ++ [a]) nfs rows)
                           (fun cols1 => retv fo (col0 :: cols1)) st2 = OutOfModel
              end).
    { intros col0 st2 T2 Hq2.
      replace (map fst pre ++ [a]) with (map fst (pre ++ [(a, f)])) by (rewrite map_app; reflexivity).
      assert (Henv' : env = (pre ++ [(a, f)]) ++ nfs) by (rewrite <- app_assoc; exact Henv).
      specialize (IH (pre ++ [(a, f)]) T2 st2 Henv' Hcr Hq2).
      destruct (project_cols fo re_match (map snd nfs) rows) as [cols|e| |]; cbn [bind].
      - destruct IH as (cols' & st' & T' & E & Hq' & Hm). rewrite (bindv_ok fo _ _ _ _ _ E).
        exists (col0 :: cols'), st', T'. split; [reflexivity|]. split; [exact Hq' | cbn [map]; rewrite Hm; reflexivity].
      - rewrite (bindv_err fo _ _ _ _ IH). reflexivity.
      - rewrite (bindv_panic fo _ _ _ IH). reflexivity.
      - rewrite (bindv_oom fo _ _ _ IH). reflexivity. }
    destruct (owns_name (map fst pre) a) eqn:Eown; cbn [andb].
    + destruct (cc_get value (cc st) a) as [col'|] eqn:G.
      * (* served from the accumulated column *)
        assert (Hlf : lookup env a = Some f) by (rewrite Henv; apply lookup_first; exact Eown).
        assert (Hea : lookup env a <> None) by congruence.
        assert (Hev : eval_batch f rows = Ok (firstn n col')).
        { destruct (q_cc _ _ _ _ _ _ _ _ _ Hq a) as [H1 H2].
          destruct (in_dec string_dec a T) as [Hin|Hnin].
          - destruct (H1 Hin) as (V & HV & Hc). rewrite G in Hc. inversion Hc; subst col'. clear Hc.
            destruct (q_val _ _ _ _ _ _ _ _ _ Hq a V Hea HV) as (d & Hl & HevV).
            rewrite Hlf in Hl. inversion Hl; subst d. fold rows in HevV.
            pose proof (eval_batch_length _ _ _ _ _ HevV) as HlenV. fold n in HlenV.
            destruct (cc_get value (cc st1) a) as [c0|] eqn:G1; cbn [capp].
            + destruct (Hp1 a c0 G1) as (d0 & Hl0 & Hev0). rewrite Hlf in Hl0. inversion Hl0; subst d0.
              specialize (Hev0 Hrne). rewrite HevV in Hev0. inversion Hev0; subst c0.
              rewrite firstn_app_len by exact HlenV. exact HevV.
            + rewrite firstn_len_id by exact HlenV. exact HevV.
          - rewrite (H2 Hnin) in G. destruct (Hp1 a col' G) as (d0 & Hl0 & Hev0).
            rewrite Hlf in Hl0. inversion Hl0; subst d0. specialize (Hev0 Hrne).
            pose proof (eval_batch_length _ _ _ _ _ Hev0) as Hlen. fold n in Hlen.
            rewrite firstn_len_id by exact Hlen. exact Hev0. }
        rewrite Hev. cbn [bind].
        assert (Hstep : (fun s1 : ctx => match cc_get value (cc s1) a with
                                         | Some col => Ok (col, s1)
                                         | None => eval_batch_c true f rows s1
                                         end) st = Ok (col', st)) by (cbn beta; rewrite G; reflexivity).
        rewrite (bindv_ok fo _ _ _ _ _ Hstep).
        apply (Hnext col' st T Hq).
      * (* no column under that name: evaluate the field *)
        pose proof (eval_batch_c_on fo re_match keyfix env kvr rows0 st1 Hinj f Hcf T st Hq) as Hs.
        fold rows in Hs.
        destruct (eval_batch f rows) as [col|e| |] eqn:Ef; cbn in Hs; cbn [bind].
        -- destruct Hs as (st2 & E2 & Hq2).
           assert (Hstep : (fun s1 : ctx => match cc_get value (cc s1) a with
                                            | Some col => Ok (col, s1)
                                            | None => eval_batch_c true f rows s1
                                            end) st = Ok (col, st2)) by (cbn beta; rewrite G; exact E2).
           rewrite (bindv_ok fo _ _ _ _ _ Hstep).
           pose proof (eval_batch_length _ _ _ _ _ Ef) as Hlen. fold n in Hlen.
           pose proof (Hnext col st2 _ Hq2) as Hn. rewrite (firstn_len_id col n Hlen) in Hn.
           apply Hn.
        -- apply bindv_err. cbn beta. rewrite G. exact Hs.
        -- apply bindv_panic. cbn beta. rewrite G. exact Hs.
        -- apply bindv_oom. cbn beta. rewrite G. exact Hs.
    + pose proof (eval_batch_c_on fo re_match keyfix env kvr rows0 st1 Hinj f Hcf T st Hq) as Hs.
      fold rows in Hs.
      destruct (eval_batch f rows) as [col|e| |] eqn:Ef; cbn in Hs; cbn [bind].
      * destruct Hs as (st2 & E2 & Hq2).
        rewrite (bindv_ok fo _ _ _ _ _ E2).
        pose proof (eval_batch_length _ _ _ _ _ Ef) as Hlen. fold n in Hlen.
        pose proof (Hnext col st2 _ Hq2) as Hn. rewrite (firstn_len_id col n Hlen) in Hn.
        apply Hn.
      * apply bindv_err. exact Hs.
      * apply bindv_panic. exact Hs.
      * apply bindv_oom. exact Hs.
Qed.

Definition pb := ScanProj.project_batch fo re_match (s_fields s).

Lemma env_fields : map snd env = s_fields s.
Proof. unfold env, env_of. apply map_snd_combine. apply stmt_ok_parts. Qed.

Lemma project_batch_on kvr rows0 st1 : Post (kvr :: rows0) st1 ->
  match pb (kvr :: rows0) with
  | Ok rows => exists st', project_batch_c fo re_match keyfix true s (kvr :: rows0) st1 = Ok (rows, st')
  | Err e => project_batch_c fo re_match keyfix true s (kvr :: rows0) st1 = Err e
  | Panic => project_batch_c fo re_match keyfix true s (kvr :: rows0) st1 = Panic
  | OutOfModel => project_batch_c fo re_match keyfix true s (kvr :: rows0) st1 = OutOfModel
  end.
Proof.
  intros Hp. unfold pb, ScanProj.project_batch, project_batch_c.
  pose proof (proj_cols_on kvr rows0 st1 Hp env [] [] st1 eq_refl) as H.
  rewrite env_fields in H. specialize (H (proj2 (proj2 stmt_ok_parts)) (Qon_proj_start kvr rows0 st1 (proj1 Hp))).
  fold env. cbn [map] in H.
  destruct (project_cols fo re_match (s_fields s) (kvr :: rows0)) as [cols|e| |]; cbn [bind].
  - destruct H as (cols' & st' & T' & E & _ & Hm). rewrite (bindv_ok fo _ _ _ _ _ E).
    rewrite <- Hm, transpose_firstn. unfold liftv.
    destruct (transpose fo (kvr :: rows0) cols'); eauto.
  - apply bindv_err, H.
  - apply bindv_panic, H.
  - apply bindv_oom, H.
Qed.

Lemma NoDup_skipn_keys (rest : list (option kvpair)) j :
  NoDup (map fst (somes rest)) -> NoDup (map fst (somes (skipn j rest))).
Proof.
  intros H. rewrite (somes_split j rest), map_app in H. eapply NoDup_app_r; exact H.
Qed.

(* ProjectionPlan.Batch *)
Lemma proj_batch_on (rest : list (option kvpair)) : NoDup (map fst (somes rest)) ->
  proj_batch_c fo re_match keyfix true s B rest = @ScanProj.proj_batch kvpair _ fb pb B rest /\
  forall rows rest', @ScanProj.proj_batch kvpair _ fb pb B rest = Ok (rows, rest') -> exists j, rest' = skipn j rest.
Proof.
  intros Hnd. unfold proj_batch_c, ScanProj.proj_batch, scan_batch_c, ScanProj.scan_batch.
  pose proof (scan_loop_on (S (List.length rest)) rest [] [] 0 (ctx0 fo) [] [] Hnd inv_start) as H.
  fold wh. unfold slot.
  destruct (@ScanProj.scan_batch_loop kvpair fb (S (List.length rest)) B rest []) as [[ret' rest']|e| |];
    cbn [bind].
  - destruct H as (st' & -> & Hp & j & Hj).
    destruct ret' as [|kvr rows0].
    + split; [reflexivity|]. intros rows r' E. inversion E; subst. eauto.
    + pose proof (project_batch_on kvr rows0 st' Hp) as Hpb.
      destruct (pb (kvr :: rows0)) as [rows|e| |]; cbn [bind].
      * destruct Hpb as (st2 & ->). split; [reflexivity|]. intros rows1 r' E. inversion E; subst. eauto.
      * rewrite Hpb. split; [reflexivity | discriminate].
      * rewrite Hpb. split; [reflexivity | discriminate].
      * rewrite Hpb. split; [reflexivity | discriminate].
  - rewrite H. split; [reflexivity | discriminate].
  - rewrite H. split; [reflexivity | discriminate].
  - rewrite H. split; [reflexivity | discriminate].
Qed.

Lemma drain_on : forall fuel (rest : list (option kvpair)), NoDup (map fst (somes rest)) ->
  drain_batch_c_fuel fo re_match keyfix true s fuel B rest = @ScanProj.drain_batch_fuel kvpair _ fb pb fuel B rest.
Proof.
  induction fuel as [|f IH]; intros rest Hnd; cbn [drain_batch_c_fuel ScanProj.drain_batch_fuel]; [reflexivity|].
  destruct (proj_batch_on rest Hnd) as [-> Hsk].
  destruct (@ScanProj.proj_batch kvpair _ fb pb B rest) as [[rows rest']|e| |]; cbn [bind]; try reflexivity.
  destruct rows as [|r rows]; [reflexivity|].
  destruct (Hsk _ _ eq_refl) as (j & ->). rewrite IH; [reflexivity | apply NoDup_skipn_keys, Hnd].
Qed.

(* ------------------------------------------------------------------ cache off *)

Lemma filter_off kv0 ch0 st :
  filter_batch_c fo re_match keyfix false wh (kv0 :: ch0) st = liftv fo (fb (kv0 :: ch0)) st.
Proof.
  unfold filter_batch_c, fb, filter_batch, bindv. rewrite eval_batch_c_off. unfold liftv.
  destruct (eval_batch wh (kv0 :: ch0)); cbn [bind]; try reflexivity.
Qed.

Lemma scan_loop_off : forall fuel (rest : list (option kvpair)) (ret : list kvpair) idxs bidx st,
  scan_batch_loop_c fo re_match keyfix false wh fuel B rest ret idxs bidx st =
  match @ScanProj.scan_batch_loop kvpair fb fuel B rest ret with
  | Ok r => Ok (r, st) | Err e => Err e | Panic => Panic | OutOfModel => OutOfModel
  end.
Proof.
  induction fuel as [|f IH]; intros rest ret idxs bidx st;
    cbn [ScanProj.scan_batch_loop CacheVec.scan_batch_loop_c]; [reflexivity|].
  unfold slot.
  destruct (@somes kvpair (firstn B rest)) as [|kv0 ch0] eqn:Ech.
  - destruct (Nat.ltb (List.length rest) B); [reflexivity | apply IH].
  - unfold bindv at 1. rewrite filter_off. unfold liftv at 1.
    destruct (fb (kv0 :: ch0)) as [ms|e| |]; cbn [bind]; try reflexivity.
    rewrite bindv_liftv.
    destruct (select_matches (kv0 :: ch0) ms) as [sl|e| |]; cbn [bind]; try reflexivity.
    destruct (Nat.ltb (List.length rest) B || Nat.leb B (List.length (ret ++ sl))); [reflexivity | apply IH].
Qed.

Lemma proj_cols_off kvr rows0 : forall nfs seen st,
  project_cols_c fo re_match keyfix false seen nfs (kvr :: rows0) st =
  liftv fo (project_cols fo re_match (map snd nfs) (kvr :: rows0)) st.
Proof.
  induction nfs as [|[a f] nfs IH]; intros seen st; cbn [map snd project_cols CacheVec.project_cols_c andb].
  - reflexivity.
  - unfold bindv at 1. cbn beta. rewrite eval_batch_c_off. unfold liftv at 1.
    destruct (eval_batch f (kvr :: rows0)) as [col|e| |]; cbn [bind]; try reflexivity.
    unfold bindv. rewrite IH. unfold liftv, retv.
    destruct (project_cols fo re_match (map snd nfs) (kvr :: rows0)); reflexivity.
Qed.

Lemma proj_batch_off (rest : list (option kvpair)) :
  proj_batch_c fo re_match keyfix false s B rest = @ScanProj.proj_batch kvpair _ fb pb B rest.
Proof.
  unfold proj_batch_c, ScanProj.proj_batch, scan_batch_c, ScanProj.scan_batch. fold wh. unfold slot.
  rewrite scan_loop_off.
  destruct (@ScanProj.scan_batch_loop kvpair fb (S (List.length rest)) B rest []) as [[ret' rest']|e| |];
    cbn [bind]; try reflexivity.
  destruct ret' as [|kvr rows0]; [reflexivity|].
  unfold project_batch_c, pb, ScanProj.project_batch, bindv. rewrite proj_cols_off. fold env. rewrite env_fields.
  unfold liftv.
  destruct (project_cols fo re_match (s_fields s) (kvr :: rows0)) as [cols|e| |]; cbn [bind]; try reflexivity.
  destruct (transpose fo (kvr :: rows0) cols); reflexivity.
Qed.

Lemma drain_off : forall fuel (rest : list (option kvpair)),
  drain_batch_c_fuel fo re_match keyfix false s fuel B rest = @ScanProj.drain_batch_fuel kvpair _ fb pb fuel B rest.
Proof.
  induction fuel as [|f IH]; intros rest; cbn [drain_batch_c_fuel ScanProj.drain_batch_fuel]; [reflexivity|].
  rewrite proj_batch_off.
  destruct (@ScanProj.proj_batch kvpair _ fb pb B rest) as [[rows rest']|e| |]; cbn [bind]; try reflexivity.
  destruct rows as [|r rows]; [reflexivity|]. rewrite IH. reflexivity.
Qed.

End Plans.

(* ================================================================== chunk sequences on one shared context *)
Section Seq.
Variable fo : fops.
Variable re_match : bytes -> bytes -> res bool.
Variable keyfix : bool.
Notation ctx := (ctx fo).
Notation eval_batch := (eval_batch fo re_match true).
Notation eval_batch_c := (eval_batch_c fo re_match keyfix).
Notation kc_get := (kc_get fo keyfix).
Notation kc := (kc fo).

Variable env : list (string * expr).
Hypothesis Hinj : forall a a' k1 k2, lookup env a <> None -> lookup env a' <> None ->
  keq keyfix (a, k1) (a', k2) = true -> a = a' /\ k1 = k2.
Variable e : expr.
Hypothesis Hco : coherent env e = true.

Definition first_key (ch : list kvpair) : bytes := match ch with kv :: _ => fst kv | [] => EmptyString end.

(* the per-chunk entries of the context belong to names of the select list and to the chunks
   (first keys) seen so far *)
Definition Kinv (keys : list bytes) (st : ctx) : Prop :=
  forall x col, In (x, col) (kc st) -> lookup env (fst x) <> None /\ In (snd x) keys.

Lemma eval_seq_on_off : forall (chunks : list (list kvpair)) keys st st',
  Kinv keys st -> Forall (fun ch => ch <> []) chunks -> NoDup (keys ++ map first_key chunks) ->
  eval_seq_c fo re_match keyfix true e chunks st = eval_seq_c fo re_match keyfix false e chunks st'.
Proof.
  induction chunks as [|ch chunks IH]; intros keys st st' Hk Hne Hnd; cbn [eval_seq_c]; [reflexivity|].
  inversion Hne as [|? ? Hch Hne']; subst. destruct ch as [|kv0 ch0]; [exfalso; apply Hch; reflexivity|].
  rewrite eval_batch_c_off.
  assert (Hfresh : ~ In (fst kv0) keys).
  { intros Hin. eapply NoDup_app_disjoint; [exact Hnd | exact Hin | left; reflexivity]. }
  assert (Hq0 : Qon fo re_match keyfix env kv0 ch0 st [] st).
  { apply Qon_start.
    - intros x col Hin. apply (Hk x col Hin).
    - intros a Ha. destruct (kc_get (kc st) (a, fst kv0)) as [col|] eqn:G; [|reflexivity].
      exfalso. apply kc_get_in in G. destruct G as (y & Hin & K).
      destruct (Hk y col Hin) as [Hy Hky]. destruct y as [a' k']. cbn [fst snd] in *.
      destruct (Hinj a' a k' (fst kv0) Hy Ha K) as [_ Ek]. apply Hfresh. rewrite <- Ek. exact Hky. }
  pose proof (eval_batch_c_on fo re_match keyfix env kv0 ch0 st Hinj e Hco [] st Hq0) as Hs.
  unfold liftv.
  destruct (eval_batch e (kv0 :: ch0)) as [col|x| |]; cbn in Hs; try (rewrite Hs; reflexivity).
  destruct Hs as (st1 & -> & Hq1). f_equal.
  apply (IH (keys ++ [fst kv0]) st1 st').
  - intros x c Hin. destruct (q_wf _ _ _ _ _ _ _ _ _ Hq1 x c Hin) as [Hx [Hold|Hkk]].
    + split; [exact Hx|]. apply in_or_app. left. apply (Hk x c Hold).
    + split; [exact Hx|]. apply in_or_app. right. left. symmetry. exact Hkk.
  - exact Hne'.
  - rewrite <- app_assoc. exact Hnd.
Qed.

End Seq.

(* ================================================================== the theorems *)

(* with the cache disabled the twin with the context IS the cache-free batch drain of C03
   (Model/ScanProj.select_batch over Model/EvalVec.eval_batch) *)
Theorem drain_batch_c_off_is_select : forall (fo : fops) re keyfix s B (slots : list (option kvpair)),
  stmt_ok s = true ->
  drain_batch_c fo re keyfix false s B slots = select_batch fo re B (s_where s) (Some (s_fields s)) slots.
Proof.
  intros fo re keyfix s B slots Hok. unfold drain_batch_c, select_batch, drain_batch, sel_pbatch.
  apply drain_off; exact Hok.
Qed.

(* with the cache enabled it returns exactly the same batches, errors included *)
Theorem drain_batch_c_on_is_select : forall (fo : fops) re keyfix s B (slots : list (option kvpair)),
  stmt_ok s = true -> names_ok keyfix s = true -> NoDup (map fst (somes slots)) ->
  drain_batch_c fo re keyfix true s B slots = select_batch fo re B (s_where s) (Some (s_fields s)) slots.
Proof.
  intros fo re keyfix s B slots Hok Hn Hnd. unfold drain_batch_c, select_batch, drain_batch, sel_pbatch.
  apply drain_on; assumption.
Qed.

(* expression layer, as the scans use it: ExecuteBatch of a WHERE clause (or a field) of an accepted
   statement on successive non-empty chunks with different first keys, all on one context that
   starts empty, gives chunk by chunk the outcome of the cache-free evaluator *)
Theorem eval_seq_invisible : forall (fo : fops) re keyfix s e (chunks : list (list kvpair)),
  stmt_ok s = true -> names_ok keyfix s = true -> coherent (env_of s) e = true ->
  Forall (fun ch => ch <> []) chunks -> NoDup (map first_key chunks) ->
  eval_seq_c fo re keyfix true e chunks (ctx0 fo) = eval_seq_c fo re keyfix false e chunks (ctx0 fo).
Proof.
  intros fo re keyfix s e chunks Hok Hn Hco Hne Hnd.
  apply (eval_seq_on_off fo re keyfix (env_of s) (keq_inj keyfix s Hn) e Hco chunks [] (ctx0 fo) (ctx0 fo)).
  - intros x col [].
  - exact Hne.
  - exact Hnd.
Qed.

Theorem cache_invisible_batch_lemma : forall (fo : fops) re keyfix s B (slots : list (option kvpair)),
  stmt_ok s = true -> names_ok keyfix s = true -> NoDup (map fst (somes slots)) ->
  drain_batch_c fo re keyfix true s B slots = drain_batch_c fo re keyfix false s B slots.
Proof.
  intros. rewrite drain_batch_c_on_is_select, drain_batch_c_off_is_select by assumption. reflexivity.
Qed.

(* ================================================================== witnesses *)
Section VecWitnesses.
Variable fo : fops.
Variable re_match : bytes -> bytes -> res bool.
Local Open Scope string_scope.

(* select key, int(value) as n where n > 2 (CacheProofs.w_stmt) over k0=1 k1=5 k2=2 k3=7 in
   batches of 2: one Batch call filters two refills, rejects one pair of each, and projects n
   from the accumulated column *)
Lemma wv_rows : forall keyfix on,
  drain_batch_c fo re_match keyfix on w_stmt 2 (map Some w_store)
  = Ok [[[VBytes "k1"; VInt 5%Z]; [VBytes "k3"; VInt 7%Z]]].
Proof. intros [|] [|]; reflexivity. Qed.

Lemma wv_premise : forall keyfix, stmt_ok w_stmt = true /\ names_ok keyfix w_stmt = true /\
  NoDup (map fst (somes (map Some w_store))).
Proof.
  intros keyfix. split; [reflexivity|]. split; [destruct keyfix; reflexivity|].
  cbn. repeat constructor; cbn; intuition discriminate.
Qed.

(* the code as it is keys the per-chunk entries by the text name-key:
     select key, value as a, upper(key) as `a-b` where a = '9' | `a-b` = 'C'
   over b-c=1 c=2 d=3 in batches of 1: the entry of alias a for the chunk starting at key "b-c"
   has the text "a-b-c", which is also the text of alias a-b for the chunk starting at key "c" *)
Definition wd_upper := ECall 24 (EName 24 "upper") [EField 30 KeyKW].
Definition wd_stmt : stmt :=
  Stmt ["key"; "a"; "a-b"] [EField 7 KeyKW; EField 12 ValueKW; wd_upper]
       (EBin 55 OOr (EBin 52 OEq (ERef 50 "a" (EField 12 ValueKW)) (EStr 54 "9"))
                    (EBin 63 OEq (ERef 57 "a-b" wd_upper) (EStr 65 "C"))).
Definition wd_slots : list (option kvpair) := [Some ("b-c", "1"); Some ("c", "2"); Some ("d", "3")].

Lemma wd_premises : stmt_ok wd_stmt = true /\ NoDup (map fst (somes wd_slots)) /\
  names_ok false wd_stmt = false /\ names_ok true wd_stmt = true.
Proof.
  split; [reflexivity|]. split; [|split; reflexivity].
  cbn. repeat constructor; cbn; intuition discriminate.
Qed.

Lemma wd_refuted :
  drain_batch_c fo re_match false true wd_stmt 1 wd_slots = Ok [] /\
  drain_batch_c fo re_match false false wd_stmt 1 wd_slots = Ok [[[VBytes "c"; VBytes "2"; VStr "C"]]] /\
  drain_batch_c fo re_match true true wd_stmt 1 wd_slots = Ok [[[VBytes "c"; VBytes "2"; VStr "C"]]].
Proof. repeat split; reflexivity. Qed.

End VecWitnesses.
