(* Proofs/CacheVecShape.v -- the "shape" of the value an expression yields under the row evaluator
   (Model/Eval.v) does not depend on the row, up to int/float: constructor class, and for numeric
   lists the length.  Corollary: the equality kind (Model/EvalVec.v eq_kind) of the results of one
   expression on two rows is the same whenever both are defined. *)
From Coq Require Import List String Ascii ZArith Bool Arith Lia.
Import ListNotations.
From KV Require Import Base.Bytes Base.Num Model.Ast Model.Value Model.Eval Model.EvalVec Proofs.EvalVecProofs.
Local Open Scope list_scope.

Inductive shape := ShStr | ShNum | ShBool | ShStrs | ShNums (n : nat) | ShExprs (n : nat) | ShNil.

Section Shape.
Variable fo : fops.
Variable re_match : bytes -> bytes -> res bool.
Notation value := (value fo).
Notation eval := (eval fo re_match).

Definition shape_of (v : value) : shape :=
  match v with
  | VBytes _ | VStr _ => ShStr
  | VInt _ | VFlt _ => ShNum
  | VBool _ => ShBool
  | VStrs _ => ShStrs
  | VInts l => ShNums (List.length l)
  | VFlts l => ShNums (List.length l)
  | VExprs n => ShExprs n
  | VNil => ShNil
  end.

Lemma bind_ok' {A B} (r : res A) (f : A -> res B) b :
  bind r f = Ok b -> exists a, r = Ok a /\ f a = Ok b.
Proof. destruct r; cbn; intros H; try discriminate; eauto. Qed.

Ltac kind0 H :=
  repeat (first
    [ apply bind_ok' in H; destruct H as (? & ? & H); cbn beta in H
    | match type of H with
      | match ?x with _ => _ end = Ok _ => destruct x eqn:?; try discriminate
      | (if ?c then _ else _) = Ok _ => destruct c eqn:?; try discriminate
      end ]);
  try (inversion H; subst; reflexivity).

Ltac kind1 H :=
  repeat (first
    [ apply bind_ok' in H; destruct H as (? & ? & H); cbn beta in H
    | match type of H with
      | match ?x with _ => _ end = Ok _ => destruct x eqn:?; try discriminate
      | (if ?c then _ else _) = Ok _ => destruct c eqn:?; try discriminate
      end ]).

Ltac red_names H :=
  repeat match type of H with
         | context [String.eqb ?a ?b] =>
             let c := eval vm_compute in (String.eqb a b) in
             change (String.eqb a b) with c in H
         end;
  cbn [orb] in H.

Ltac red_names_goal :=
  repeat match goal with
         | |- context [String.eqb ?a ?b] =>
             let c := eval vm_compute in (String.eqb a b) in
             change (String.eqb a b) with c
         end;
  cbn [orb].

Ltac each_name Hin :=
  unfold func_names in Hin; cbn [In] in Hin;
  repeat match type of Hin with _ \/ _ => destruct Hin as [Hin|Hin] end;
  [subst .. | contradiction].

(* ---------------------------------------------------------------- helpers *)

Lemma all_ok_len {A} (l : list (res A)) l' : all_ok l = Ok l' -> List.length l' = List.length l.
Proof.
  revert l'; induction l as [|r l IH]; intros l' H; cbn [all_ok] in H.
  - inversion H; reflexivity.
  - apply bind_ok' in H. destruct H as (a & _ & H).
    apply bind_ok' in H. destruct H as (as_ & E & H). inversion H; subst. cbn. f_equal. auto.
Qed.

Lemma map_res_len {A B} (f : A -> res B) l l' : map_res f l = Ok l' -> List.length l' = List.length l.
Proof.
  revert l'; induction l as [|r l IH]; intros l' H; cbn [map_res] in H.
  - inversion H; reflexivity.
  - apply bind_ok' in H. destruct H as (a & _ & H).
    apply bind_ok' in H. destruct H as (as_ & E & H). inversion H; subst. cbn. f_equal. auto.
Qed.

(* ---------------------------------------------------------------- scalar functions *)

Local Open Scope string_scope.
Definition func_shape (nm : string) (n : nat) : shape :=
  if String.eqb nm "split" then ShStrs
  else if String.eqb nm "list" || String.eqb nm "int_list" || String.eqb nm "ilist"
          || String.eqb nm "float_list" || String.eqb nm "flist" then ShNums n
  else if String.eqb nm "int" || String.eqb nm "float" || String.eqb nm "len" || String.eqb nm "strlen"
          || String.eqb nm "cosine_distance" || String.eqb nm "l2_distance" then ShNum
  else if String.eqb nm "is_int" || String.eqb nm "is_float" then ShBool
  else ShStr.
Local Close Scope string_scope.

Lemma apply_func_shape nm args rs x :
  In nm func_names -> apply_func fo nm args rs = Ok x -> shape_of x = func_shape nm (List.length rs).
Proof.
  intros Hin H.
  each_name Hin; unfold apply_func in H; red_names H; unfold func_shape; red_names_goal;
    kind0 H; try discriminate.
  all: inversion H; subst; cbn [shape_of List.length]; f_equal;
    repeat match goal with
           | E : map_res _ _ = Ok _ |- _ => apply map_res_len in E
           | E : all_ok _ = Ok _ |- _ => apply all_ok_len in E
           end; cbn [List.length] in *; congruence.
Qed.

(* ---------------------------------------------------------------- binary operators *)

Definition bin_shape (o : op) (l : expr) : shape :=
  match o with
  | OAdd => match rtype l with TStr => ShStr | _ => ShNum end
  | OSub | OMul | ODiv => ShNum
  | _ => ShBool
  end.

Lemma math_op_shape l r o p x : math_op fo l r o p = Ok x -> shape_of x = ShNum.
Proof. unfold math_op. intros H. kind0 H. Qed.

Lemma eval_bin_shape k v p o l r x : eval k v (EBin p o l r) = Ok x -> shape_of x = bin_shape o l.
Proof.
  intros H. destruct o; cbn [Eval.eval] in H; unfold bin_shape; kind0 H;
    try (eapply math_op_shape; eassumption).
Qed.

(* ---------------------------------------------------------------- function calls *)

Lemma eval_call_shape k v p n args x :
  eval k v (ECall p n args) = Ok x ->
  exists nm, call_name n = Some nm /\ shape_of x = func_shape nm (List.length args).
Proof.
  intros H. cbn [Eval.eval] in H. destruct n; try discriminate.
  destruct (call_name (EName pos s)) as [nm|] eqn:Hcn; try discriminate.
  destruct (func_info nm) as [[[na va] t]|] eqn:Hfi; try discriminate.
  match type of H with (if ?c then _ else _) = _ => destruct c; try discriminate end.
  exists nm; split; [reflexivity|].
  rewrite (apply_func_shape _ _ _ _ (func_info_cases _ _ Hfi) H). now rewrite map_length.
Qed.

(* ---------------------------------------------------------------- indexing *)

Lemma nth_error_same_len {A B} (l : list A) (l' : list B) n :
  List.length l = List.length l' ->
  (nth_error l n = None <-> nth_error l' n = None).
Proof. intros E. rewrite !nth_error_None, E. tauto. Qed.

Definition idx_shape {A} (l : list A) (n : nat) (s : shape) : shape :=
  match nth_error l n with Some _ => s | None => ShStr end.

Lemma idx_shape_len {A B} (l : list A) (l' : list B) n s :
  List.length l = List.length l' -> idx_shape l n s = idx_shape l' n s.
Proof.
  intros E. unfold idx_shape. pose proof (nth_error_same_len l l' n E) as [H1 H2].
  destruct (nth_error l n), (nth_error l' n); try reflexivity.
  - discriminate (H2 eq_refl).
  - discriminate (H1 eq_refl).
Qed.

(* shape of l[d] as a function of the evaluated l *)
Definition access_num_shape (lv : value) (n : nat) : shape :=
  match lv with
  | VInts xs => idx_shape xs n ShNum
  | VFlts xs => idx_shape xs n ShNum
  | _ => ShStr
  end.

Lemma access_num_shape_inv lv1 lv2 n :
  shape_of lv1 = shape_of lv2 -> access_num_shape lv1 n = access_num_shape lv2 n.
Proof.
  destruct lv1, lv2; cbn [shape_of access_num_shape]; intros E; try discriminate E; try reflexivity;
    injection E as E; apply idx_shape_len; exact E.
Qed.

Lemma eval_access_shape k v p l fn x :
  eval k v (EAccess p l fn) = Ok x ->
  exists lv, eval k v l = Ok lv /\
    match fn with
    | ENum _ d => shape_of x = access_num_shape lv (Z.to_nat (num_value d))
    | _ => shape_of x = ShStr
    end.
Proof.
  intros H. cbn [Eval.eval] in H. apply bind_ok' in H. destruct H as (lv & El & H).
  exists lv; split; [exact El|].
  destruct fn; try discriminate.
  - kind0 H.
  - destruct lv; try discriminate; cbn [access_num_shape]; unfold idx_shape;
      kind0 H; inversion H; subst; try reflexivity.
    all: match goal with |- context [nth_error ?a ?b] => destruct (nth_error a b) end; reflexivity.
Qed.

(* ---------------------------------------------------------------- the theorem *)

Theorem eval_shape_inv_sec e : forall k1 v1 k2 v2 x1 x2,
  eval k1 v1 e = Ok x1 -> eval k2 v2 e = Ok x2 -> shape_of x1 = shape_of x2.
Proof.
  induction e using expr_ind2; intros k1 v1 k2 v2 x1 x2 H1 H2.
  - rewrite (eval_bin_shape _ _ _ _ _ _ _ H1), (eval_bin_shape _ _ _ _ _ _ _ H2). reflexivity.
  - destruct f; inversion H1; inversion H2; reflexivity.
  - inversion H1; inversion H2; reflexivity.
  - cbn [Eval.eval] in H1, H2. kind1 H1; kind1 H2; inversion H1; inversion H2; reflexivity.
  - destruct (eval_call_shape _ _ _ _ _ _ H1) as (nm1 & C1 & S1).
    destruct (eval_call_shape _ _ _ _ _ _ H2) as (nm2 & C2 & S2).
    rewrite C1 in C2. inversion C2; subst. congruence.
  - inversion H1; inversion H2; reflexivity.
  - cbn [Eval.eval] in H1, H2. eauto.
  - inversion H1; inversion H2; reflexivity.
  - cbn [Eval.eval] in H1, H2. kind1 H1; kind1 H2; inversion H1; inversion H2; reflexivity.
  - inversion H1; inversion H2; reflexivity.
  - inversion H1; inversion H2; reflexivity.
  - destruct (eval_access_shape _ _ _ _ _ _ H1) as (lv1 & E1 & S1).
    destruct (eval_access_shape _ _ _ _ _ _ H2) as (lv2 & E2 & S2).
    pose proof (IHe1 _ _ _ _ _ _ E1 E2) as Sl.
    destruct e2; try congruence.
    rewrite S1, S2. apply access_num_shape_inv, Sl.
Qed.

End Shape.

Theorem eval_shape_inv : forall (fo : fops) re e k1 v1 k2 v2 x1 x2,
  eval fo re k1 v1 e = Ok x1 -> eval fo re k2 v2 e = Ok x2 -> shape_of fo x1 = shape_of fo x2.
Proof. intros; eapply eval_shape_inv_sec; eassumption. Qed.

Corollary eval_eq_kind_inv : forall (fo : fops) re e k1 v1 k2 v2 x1 x2 kd1 kd2,
  eval fo re k1 v1 e = Ok x1 -> eval fo re k2 v2 e = Ok x2 ->
  eq_kind fo x1 = Some kd1 -> eq_kind fo x2 = Some kd2 -> kd1 = kd2.
Proof.
  intros fo re e k1 v1 k2 v2 x1 x2 kd1 kd2 H1 H2 K1 K2.
  pose proof (eval_shape_inv fo re e k1 v1 k2 v2 x1 x2 H1 H2) as S.
  destruct x1, x2; cbn in S, K1, K2; try discriminate; congruence.
Qed.

Print Assumptions eval_shape_inv.
Print Assumptions eval_eq_kind_inv.
