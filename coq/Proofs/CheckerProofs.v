(* Proofs/CheckerProofs.v -- the static checker twin (Model/Checker.v, fixed variant) against
   the typing rules (Spec/Typing.v): soundness and completeness of Check + the call validation
   for expressions and statements. *)
From Coq Require Import List String ZArith Bool Arith Lia.
Import ListNotations.
From KV Require Import Base.Bytes Base.Num Model.Ast Model.Value Model.Eval Model.Checker Spec.Typing.
Open Scope string_scope.
Set Warnings "-unused-intro-pattern".

(* ---------------------------------------------------------------- induction on trees *)
Section ExprInd.
Variable P : expr -> Prop.
Hypothesis HBin : forall p o l r, P l -> P r -> P (EBin p o l r).
Hypothesis HField : forall p f, P (EField p f).
Hypothesis HStr : forall p s, P (EStr p s).
Hypothesis HNot : forall p r, P r -> P (ENot p r).
Hypothesis HCall : forall p n args, P n -> Forall P args -> P (ECall p n args).
Hypothesis HName : forall p s, P (EName p s).
Hypothesis HRef : forall p nm d, P d -> P (ERef p nm d).
Hypothesis HNum : forall p d, P (ENum p d).
Hypothesis HFloat : forall p d, P (EFloat p d).
Hypothesis HBool : forall p b, P (EBool p b).
Hypothesis HList : forall p l, Forall P l -> P (EList p l).
Hypothesis HAccess : forall p l f, P l -> P f -> P (EAccess p l f).

Fixpoint expr_induction (e : expr) : P e :=
  match e with
  | EBin p o l r => HBin p o l r (expr_induction l) (expr_induction r)
  | EField p f => HField p f
  | EStr p s => HStr p s
  | ENot p r => HNot p r (expr_induction r)
  | ECall p n args =>
      HCall p n args (expr_induction n)
        ((fix go (l : list expr) : Forall P l :=
            match l with
            | [] => Forall_nil P
            | x :: l' => Forall_cons x (expr_induction x) (go l')
            end) args)
  | EName p s => HName p s
  | ERef p nm d => HRef p nm d (expr_induction d)
  | ENum p d => HNum p d
  | EFloat p d => HFloat p d
  | EBool p b => HBool p b
  | EList p l =>
      HList p l
        ((fix go (l : list expr) : Forall P l :=
            match l with
            | [] => Forall_nil P
            | x :: l' => Forall_cons x (expr_induction x) (go l')
            end) l)
  | EAccess p l f => HAccess p l f (expr_induction l) (expr_induction f)
  end.
End ExprInd.

(* ---------------------------------------------------------------- the bridge between the
   implementation's types and the documented ones *)
Definition sty_of (t : ty) : sty :=
  match t with
  | TUnknown => SUnknown | TBool => SBool | TStr => SStr | TNumber => SNum
  | TIdent => SIdent | TList => SList | TJson => SJson
  end.

Lemma sty_of_inj : forall a b, sty_of a = sty_of b -> a = b.
Proof. destruct a, b; simpl; congruence. Qed.

Lemma ty_eqb_eq : forall a b, ty_eqb a b = true <-> a = b.
Proof. destruct a, b; simpl; split; congruence. Qed.

Lemma ty_eqb_neq : forall a b, ty_eqb a b = false <-> a <> b.
Proof. destruct a, b; simpl; split; congruence. Qed.

Lemma sty_eqb_eq : forall a b, sty_eqb a b = true <-> a = b.
Proof. destruct a, b; simpl; split; congruence. Qed.

Lemma sty_eqb_sty_of : forall a b, sty_eqb (sty_of a) (sty_of b) = ty_eqb a b.
Proof. destruct a, b; reflexivity. Qed.

(* the environment a CheckCtx denotes: a name has the static type of its definition *)
Definition env_of (names : list (string * expr)) : env :=
  fun s => match get_named names s with Some d => Some (sty_of (rtype d)) | None => None end.

Definition mode_of (ctx : cctx) : mode := Mode (negb (c_nokey ctx)) (negb (c_novalue ctx)).

(* parser outputs hold no FieldReferenceExpr *)
Fixpoint no_refs (e : expr) : bool :=
  match e with
  | EBin _ _ l r => no_refs l && no_refs r
  | ENot _ r => no_refs r
  | ECall _ n args => no_refs n && forallb no_refs args
  | ERef _ _ _ => false
  | EList _ l => forallb no_refs l
  | EAccess _ l f => no_refs l && no_refs f
  | _ => true
  end.

(* Premise of soundness (known finding: the fixed-type parameters of substr / split / join /
   json / len / the distance functions are tested only when the function runs): in the
   checked tree those arguments have the required static type. *)
Fixpoint params_static (e : expr) : bool :=
  match e with
  | EBin _ _ l r => params_static l && params_static r
  | ENot _ r => params_static r
  | ECall _ n args =>
      match call_name n with
      | Some nm => params_ok nm (map (fun a => sty_of (rtype a)) args)
      | None => true
      end && forallb params_static args
  | EList _ l => forallb params_static l
  | EAccess _ l _ => params_static l
  | _ => true
  end.

(* no comparison of key with key or value with value anywhere (implied by typing: see
   SelectProofs.infer_no_same_field) *)
Fixpoint no_same_field (e : expr) : bool :=
  match e with
  | EBin _ o l r => negb (is_compare_op o && same_field l r) && no_same_field l && no_same_field r
  | ENot _ r => no_same_field r
  | ECall _ _ args => forallb no_same_field args
  | EList _ l => forallb no_same_field l
  | EAccess _ l _ => no_same_field l
  | _ => true
  end.

(* ---------------------------------------------------------------- generic facts *)
Lemma bind_ok : forall {A B} (r : res A) (f : A -> res B) b,
  bind r f = Ok b -> exists a, r = Ok a /\ f a = Ok b.
Proof. intros A B [a|e| |] f b H; simpl in H; try discriminate. eauto. Qed.

Tactic Notation "inv_bind" hyp(H) "as" ident(a) ident(Ha) ident(Hb) :=
  apply bind_ok in H; destruct H as [a [Ha Hb]].

Lemma Forall2_len : forall {A B} (R : A -> B -> Prop) l l2, Forall2 R l l2 -> List.length l = List.length l2.
Proof. induction 1; simpl; congruence. Qed.

Section Proofs.
Variable fo : fops.

Notation check := (check fo true).
Notation check_math := (check_math fo).

(* ---------------------------------------------------------------- function tables agree *)
Lemma scalar_sig_func_info : forall nm,
  scalar_sig nm = match func_info nm with
                  | Some (n, v, t) => Some (n, v, sty_of t)
                  | None => None
                  end.
Proof.
  intros nm. unfold scalar_sig, func_info.
  repeat (match goal with |- context [String.eqb nm ?s] => destruct (String.eqb nm s) end; [reflexivity|]).
  reflexivity.
Qed.

Lemma aggr_sig_aggr_rtype : forall nm,
  aggr_sig nm = match aggr_rtype nm with Some t => Some (sty_of t) | None => None end.
Proof.
  intros nm. unfold aggr_sig, aggr_rtype.
  destruct (_ || _); [reflexivity|]. destruct (_ || _); reflexivity.
Qed.

Lemma fname_call_name : forall n, fname n = call_name n.
Proof. destruct n; reflexivity. Qed.

(* ---------------------------------------------------------------- operand tests by static type *)
Lemma andor_side_spec : forall e,
  andor_side true e = if ty_eqb (rtype e) TBool then Ok tt else serr (epos e).
Proof. destruct e; simpl; try reflexivity. Qed.

Lemma math_side_spec : forall e,
  math_side e = match rtype e with
                | TNumber => Ok false
                | TStr => Ok true
                | _ => serr (epos e)
                end.
Proof. destruct e; simpl; try reflexivity. Qed.

Definition field_counts (e : expr) : nat * nat :=
  match e with
  | EField _ KeyKW => (1, 0)
  | EField _ ValueKW => (0, 1)
  | _ => (0, 0)
  end.

Definition cmp_cond (o : op) (t : ty) : bool :=
  match o with
  | OEq | ONotEq => is_scalar_ty t
  | OGt | OGte | OLt | OLte => is_strnum_ty t
  | OPrefixMatch | ORegExpMatch => ty_eqb t TStr
  | _ => true
  end.

Lemma cmp_cond_name_list : forall o e, is_compare_op o = true ->
  match e with EName _ _ | EList _ _ => True | _ => False end -> cmp_cond o (rtype e) = false.
Proof. intros o e Ho He. destruct e; try contradiction; destruct o; try discriminate; reflexivity. Qed.

Lemma check_compares_spec : forall p o l r, is_compare_op o = true ->
  (check_compares true p o l r = Ok tt <->
   same_field l r = false /\ rtype l = rtype r /\ cmp_cond o (rtype l) = true).
Proof.
  intros p o l r Ho. unfold check_compares.
  destruct (compare_side true l) as [lc| | |] eqn:Hl.
  2:{ split; [discriminate|]. intros [_ [_ Hc]].
      destruct l; try discriminate Hl; try (destruct f; discriminate Hl);
        rewrite cmp_cond_name_list in Hc; auto; discriminate. }
  2:{ destruct l; try discriminate Hl; destruct f; discriminate Hl. }
  2:{ destruct l; try discriminate Hl; destruct f; discriminate Hl. }
  destruct (compare_side true r) as [rc| | |] eqn:Hr.
  2:{ split; [discriminate|]. intros [_ [Ht Hc]]. rewrite Ht in Hc.
      destruct r; try discriminate Hr; try (destruct f; discriminate Hr);
        rewrite cmp_cond_name_list in Hc; auto; discriminate. }
  2:{ destruct r; try discriminate Hr; destruct f; discriminate Hr. }
  2:{ destruct r; try discriminate Hr; destruct f; discriminate Hr. }
  cbn [bind].
  assert (Hsf : (Nat.eqb (fst lc + fst rc) 2 || Nat.eqb (snd lc + snd rc) 2) = same_field l r).
  { destruct l; try discriminate Hl; try (destruct f); inversion Hl; subst;
    destruct r; try discriminate Hr; try (destruct f); inversion Hr; subst; reflexivity. }
  rewrite Hsf. destruct (same_field l r).
  { split; [discriminate | intros [H _]; discriminate]. }
  destruct (ty_eqb (rtype l) (rtype r)) eqn:Et; cbn [negb].
  2:{ apply ty_eqb_neq in Et. split; [discriminate | intros [_ [H _]]; contradiction]. }
  apply ty_eqb_eq in Et.
  unfold cmp_cond; destruct o; try discriminate Ho; cbn [andb];
    destruct (rtype l); cbn; split; try discriminate; auto; intros [_ [_ H]]; try discriminate; auto.
Qed.

Lemma check_andor_spec : forall l r,
  check_andor true l r = Ok tt <-> rtype l = TBool /\ rtype r = TBool.
Proof.
  intros l r. unfold check_andor. rewrite !andor_side_spec.
  destruct (ty_eqb (rtype l) TBool) eqn:El; cbn [bind].
  - apply ty_eqb_eq in El. destruct (ty_eqb (rtype r) TBool) eqn:Er.
    + apply ty_eqb_eq in Er. tauto.
    + apply ty_eqb_neq in Er. split; [discriminate | tauto].
  - apply ty_eqb_neq in El. split; [discriminate | tauto].
Qed.

Definition is_math_op (o : op) : bool :=
  match o with OAdd | OSub | OMul | ODiv => true | _ => false end.

Lemma check_math_spec : forall o l r, is_math_op o = true ->
  (check_math o l r = Ok tt <->
   ((o = OAdd /\ rtype l = TStr /\ rtype r = TStr) \/ (rtype l = TNumber /\ rtype r = TNumber))
   /\ (o = ODiv -> zero_divisor fo r = Ok false)).
Proof.
  intros o l r Ho. unfold Checker.check_math. rewrite !math_side_spec.
  destruct (rtype l) eqn:El; cbn [bind];
    try (split; [discriminate | intros [[[_ [H _]]|[H _]] _]; discriminate]);
  (destruct (rtype r) eqn:Er; cbn [bind];
    try (split; [discriminate | intros [[[_ [_ H]]|[_ H]] _]; discriminate]));
  destruct o; try discriminate Ho; cbn [op_eqb op_code Nat.eqb andb bind];
  try (split; [discriminate | intros [[[H1 [H2 H3]]|[H2 H3]] _]; discriminate]);
  try (split; [intros _; split; [auto | intros; discriminate] | reflexivity]).
  all: destruct (zero_divisor fo r) as [z| | |]; cbn [bind];
    [ destruct z; split; try discriminate; try (intros [_ H]; specialize (H eq_refl); discriminate);
      try (intros _; split; auto); try reflexivity
    | split; [discriminate | intros [_ H]; specialize (H eq_refl); discriminate] ..].
Qed.

Lemma check_in_spec : forall l r,
  check_in true l r = Ok tt <->
  is_strnum_ty (rtype l) = true /\
  match r with
  | EList _ items => first_mistyped (rtype l) items = None
  | ECall _ _ _ | ERef _ _ _ => rtype r = TList
  | _ => False
  end.
Proof.
  intros l r. unfold check_in. cbn [andb].
  destruct (is_strnum_ty (rtype l)); cbn [negb].
  2:{ split; [discriminate | intros [H _]; discriminate]. }
  destruct r; try (split; [discriminate | tauto]).
  - destruct (ty_eqb (rtype (ECall pos r args)) TList) eqn:Et.
    + apply ty_eqb_eq in Et. tauto.
    + apply ty_eqb_neq in Et. split; [discriminate | tauto].
  - destruct (ty_eqb (rtype (ERef pos name r)) TList) eqn:Et.
    + apply ty_eqb_eq in Et. tauto.
    + apply ty_eqb_neq in Et. split; [discriminate | tauto].
  - destruct (first_mistyped (rtype l) l0); split; try discriminate; try tauto.
    intros [_ H]; discriminate.
Qed.

Lemma first_mistyped_none : forall t l,
  first_mistyped t l = None <-> Forall (fun x => rtype x = t) l.
Proof.
  intros t l. induction l as [|x l IH]; simpl.
  - split; auto.
  - destruct (ty_eqb (rtype x) t) eqn:E.
    + apply ty_eqb_eq in E. rewrite IH. split; intros H; [constructor; auto | inversion H; auto].
    + apply ty_eqb_neq in E. split; [discriminate | intros H; inversion H; contradiction].
Qed.

(* ---------------------------------------------------------------- shape of a checked node *)
Section WithCtx.
Variable ctx : cctx.
Notation names := (c_names ctx).
Notation rw := (rewrite_name (c_names ctx)).

(* the arguments / items loop *)
Fixpoint check_list (l : list expr) : res (list expr) :=
  match l with
  | [] => Ok []
  | a :: l' => do a1 <- check ctx a; do l2 <- check_list l'; Ok (rw a1 :: l2)
  end.

Lemma check_call_eq : forall p q s args,
  check ctx (ECall p (EName q s) args) =
  (do args2 <- check_list args; Ok (ECall p (EName q s) args2)).
Proof. intros. reflexivity. Qed.

Lemma check_list_eq : forall p x items,
  check ctx (EList p (x :: items)) =
  (do items2 <- check_list (x :: items);
   match items2 with
   | [] => serr p
   | y :: rest => match first_mistyped (rtype y) rest with
                  | Some z => serr (epos z)
                  | None => Ok (EList p items2)
                  end
   end).
Proof. intros. reflexivity. Qed.

Lemma check_list_ok : forall l l2, check_list l = Ok l2 ->
  Forall2 (fun a a2 => exists a1, check ctx a = Ok a1 /\ a2 = rw a1) l l2.
Proof.
  induction l as [|a l IH]; intros l2 H; cbn [check_list] in H.
  - inversion H. constructor.
  - inv_bind H as a1 Ha1 H. inv_bind H as l3 Hl3 H. inversion H; subst. constructor; eauto.
Qed.

Lemma check_list_intro : forall l l2,
  Forall2 (fun a a2 => exists a1, check ctx a = Ok a1 /\ a2 = rw a1) l l2 -> check_list l = Ok l2.
Proof.
  induction 1 as [|a a2 l l2 [a1 [H1 H2]] _ IH]; cbn [check_list]; [reflexivity|].
  rewrite H1. cbn [bind]. rewrite IH. cbn [bind]. subst. reflexivity.
Qed.

(* what Check does to the top of a tree *)
Definition head_rel (e e2 : expr) : Prop :=
  match e with
  | EBin p o _ _ => exists l r, e2 = EBin p o l r
  | ENot p _ => exists r, e2 = ENot p r
  | ECall p n _ => exists a, e2 = ECall p n a
  | EName p s => e2 = EName p s \/ exists d, e2 = ERef p s d
  | EList p _ => exists l, e2 = EList p l
  | EAccess p _ _ => exists l f2, e2 = EAccess p l f2
  | _ => e2 = e
  end.

Lemma check_head : forall e e1, check ctx e = Ok e1 -> head_rel e (rw e1).
Proof.
  intros e e1 H. destruct e; cbn [Checker.check] in H.
  - inv_bind H as l1 Hl1 H. inv_bind H as r1 Hr1 H. inv_bind H as u Hu H. inversion H; subst. cbn. eauto.
  - destruct f.
    + destruct (c_nokey ctx); inversion H; subst; reflexivity.
    + destruct (c_novalue ctx); inversion H; subst; reflexivity.
  - inversion H; subst; reflexivity.
  - inv_bind H as r2 Hr2 H. destruct (ty_eqb (rtype r2) TBool); inversion H; subst. cbn. eauto.
  - destruct e; try discriminate H. inv_bind H as a2 Ha2 H. inversion H; subst. cbn. eauto.
  - inversion H; subst. cbn. destruct (get_named (c_names ctx) s); eauto.
  - inversion H; subst; reflexivity.
  - inversion H; subst; reflexivity.
  - inversion H; subst; reflexivity.
  - inversion H; subst; reflexivity.
  - destruct l; try discriminate H. inv_bind H as i2 Hi2 H. destruct i2; try discriminate H.
    destruct (first_mistyped (rtype e0) i2); inversion H; subst. cbn. eauto.
  - inv_bind H as l2 Hl2 H. inv_bind H as f2 Hf2 H. inv_bind H as u Hu H. inversion H; subst. cbn. eauto.
Qed.

(* Check keeps a literal a literal, and only a literal becomes one *)
Lemma check_literal_back : forall f f2, check ctx f = Ok f2 ->
  match f2 with EStr _ _ | ENum _ _ => f = f2 | _ => True end.
Proof.
  intros f f2 H. pose proof (check_head _ _ H) as Hh.
  destruct f2; try exact I; cbn [rewrite_name] in Hh;
    (destruct f; cbn in Hh;
     try (destruct Hh as [x [y Hh]]; discriminate Hh);
     try (destruct Hh as [x Hh]; discriminate Hh);
     try (destruct Hh as [Hh|[d Hh]]; discriminate Hh);
     try discriminate Hh; try (inversion Hh; reflexivity)).
Qed.

Lemma shape_literal : forall l f, check_access_shape true l f = Ok tt ->
  match f with EStr _ _ | ENum _ _ => True | _ => False end.
Proof.
  intros l f H. unfold check_access_shape in H.
  destruct (rtype l); destruct (is_access l); destruct f; try discriminate H; exact I.
Qed.

Lemma rw_idem_kind : forall e, match e with EName _ _ => False | _ => True end -> rw e = e.
Proof. destruct e; simpl; tauto. Qed.

Lemma zero_div_iff : forall r r2, head_rel r r2 ->
  (zero_divisor fo r2 = Ok false <-> lit_zero fo r = false).
Proof.
  intros r r2 H. destruct r; cbn in H;
    try (destruct H as [? [? ?]]; subst; cbn; tauto);
    try (destruct H as [? ?]; subst; cbn; tauto);
    try (subst; cbn; tauto).
  - destruct H as [H|[d H]]; subst; cbn; tauto.
  - subst. cbn. split; intros H; [inversion H; auto | rewrite H; reflexivity].
  - subst. cbn. destruct (float_value fo data) as [f| | |]; cbn.
    + split; intros H; [inversion H; auto | rewrite H; reflexivity].
    + split; discriminate.
    + split; discriminate.
    + split; discriminate.
Qed.

Lemma head_rel_field : forall e e2, head_rel e e2 ->
  match e with EField _ _ => e2 = e | _ => match e2 with EField _ _ => False | _ => True end end.
Proof.
  intros e e2 H. destruct e; cbn in H; auto;
    try (destruct H as [x [y H]]; subst; exact I);
    try (destruct H as [x H]; subst; exact I);
    try (subst; exact I).
  destruct H as [H|[d H]]; subst; exact I.
Qed.

Lemma same_field_head : forall l r l2 r2, head_rel l l2 -> head_rel r r2 ->
  same_field l2 r2 = same_field l r.
Proof.
  intros l r l2 r2 Hl Hr. apply head_rel_field in Hl. apply head_rel_field in Hr.
  destruct l; try (destruct l2; try contradiction; reflexivity).
  subst l2. destruct r; try (destruct r2; try contradiction; destruct f; reflexivity).
  subst r2. reflexivity.
Qed.

(* ---------------------------------------------------------------- the typing side, unfolded *)
Notation E := (env_of (c_names ctx)).
Notation m := (mode_of ctx).

Fixpoint infer_list (l : list expr) : option (list sty) :=
  match l with
  | [] => Some []
  | a :: l' => match infer fo E m a, infer_list l' with
               | Some t, Some ts => Some (t :: ts)
               | _, _ => None
               end
  end.

Lemma infer_call_eq : forall p n args,
  infer fo E m (ECall p n args) =
  match fname n with
  | None => None
  | Some nm =>
      match infer_list args with
      | None => None
      | Some ts =>
          match scalar_sig nm with
          | Some (nargs, more, ret) =>
              if count_ok nargs more (List.length args) && params_ok nm ts then Some ret else None
          | None => aggr_sig nm
          end
      end
  end.
Proof. reflexivity. Qed.

Lemma infer_elist_eq : forall p items,
  infer fo E m (EList p items) =
  match infer_list items with
  | Some (t :: ts) => if forallb (sty_eqb t) ts then Some SList else None
  | _ => None
  end.
Proof. reflexivity. Qed.

Lemma infer_in_list_eq : forall p l q x rest,
  infer fo E m (EBin p OIn l (EList q (x :: rest))) =
  match infer fo E m l with
  | Some tl =>
      if strnum tl then
        match infer_list (x :: rest) with
        | Some ts => if forallb (sty_eqb tl) ts then Some SBool else None
        | None => None
        end
      else None
  | None => None
  end.
Proof. reflexivity. Qed.

Lemma infer_in_call_eq : forall p l q n args,
  infer fo E m (EBin p OIn l (ECall q n args)) =
  match infer fo E m l with
  | Some tl => if strnum tl then
                 match infer fo E m (ECall q n args) with Some SList => Some SBool | _ => None end
               else None
  | None => None
  end.
Proof. reflexivity. Qed.

Lemma infer_in_name_eq : forall p l q s,
  infer fo E m (EBin p OIn l (EName q s)) =
  match infer fo E m l with
  | Some tl => if strnum tl then
                 match infer fo E m (EName q s) with Some SList => Some SBool | _ => None end
               else None
  | None => None
  end.
Proof. reflexivity. Qed.

Lemma infer_bin_eq : forall p o l r, o <> OIn -> o <> OBetween ->
  infer fo E m (EBin p o l r) =
  if is_compare_op o && same_field l r then None
  else match infer fo E m l, infer fo E m r with
       | Some tl, Some tr => bin_type fo o tl tr r
       | _, _ => None
       end.
Proof. intros. destruct o; try congruence; reflexivity. Qed.

Lemma calls_placed_bin : forall a p o l r,
  calls_placed a (EBin p o l r) = calls_placed a l && calls_placed a r.
Proof. reflexivity. Qed.

Fixpoint calls_list (l : list expr) : res unit :=
  match l with
  | [] => Ok tt
  | a :: l' => do _ <- check_calls false a; calls_list l'
  end.

Lemma check_calls_elist_eq : forall a p items,
  check_calls a (EList p items) = calls_list items.
Proof. reflexivity. Qed.

Lemma check_calls_call_eq : forall a p q s args,
  check_calls a (ECall p (EName q s) args) =
  match call_name (EName q s) with
  | None => OutOfModel
  | Some nm =>
      do _ <- (match func_info nm with
               | Some (nargs, varargs, _) =>
                   let cnt := List.length args in
                   if (negb varargs && negb (Nat.eqb cnt nargs)) || (varargs && Nat.ltb cnt nargs)
                   then serr p else Ok tt
               | None =>
                   match aggr_rtype nm with
                   | Some _ => if a then Ok tt else serr p
                   | None => serr p
                   end
               end);
      calls_list args
  end.
Proof. reflexivity. Qed.

Lemma check_calls_rw : forall a e, check_calls a (rw e) = check_calls a e.
Proof. intros a e. destruct e; try reflexivity. cbn. destruct (get_named (c_names ctx) s); reflexivity. Qed.

Lemma params_static_rw : forall e, params_static (rw e) = params_static e.
Proof. intros e. destruct e; try reflexivity. cbn. destruct (get_named (c_names ctx) s); reflexivity. Qed.

Lemma scalar_sty_of : forall t, scalar (sty_of t) = is_scalar_ty t.
Proof. destruct t; reflexivity. Qed.
Lemma strnum_sty_of : forall t, strnum (sty_of t) = is_strnum_ty t.
Proof. destruct t; reflexivity. Qed.

(* binary operators other than IN / BETWEEN: the operator test of the checker implies the
   typing rule *)
Definition op_check (p : nat) (o : op) (l2 r2 : expr) : res unit :=
  match o with
  | OAnd | OOr | OKWAnd | OKWOr => check_andor true l2 r2
  | ONot => serr p
  | OAdd | OSub | OMul | ODiv => check_math o l2 r2
  | OIn => check_in true l2 r2
  | OBetween => check_between l2 r2
  | _ => check_compares true p o l2 r2
  end.

Lemma bin_sound : forall p o l2 r2 r, head_rel r r2 ->
  o <> OIn -> o <> OBetween ->
  op_check p o l2 r2 = Ok tt ->
  bin_type fo o (sty_of (rtype l2)) (sty_of (rtype r2)) r = Some (sty_of (rtype (EBin p o l2 r2))).
Proof.
  intros p o l2 r2 r Hh Hin Hbt H.
  assert (Hrefl : forall t, ty_eqb t t = true) by (intros t; apply ty_eqb_eq; reflexivity).
  destruct o; try congruence; cbn [op_check] in H; try discriminate H.
  1-2,15-16: apply check_andor_spec in H; destruct H as [Hl Hr]; cbn; rewrite Hl, Hr; reflexivity.
  1-2: apply check_compares_spec in H; [|reflexivity]; destruct H as [_ [Ht Hc]];
       cbn [bin_type rtype cmp_cond] in *; rewrite <- Ht, sty_eqb_sty_of, Hrefl, scalar_sty_of, Hc; reflexivity.
  1-2: apply check_compares_spec in H; [|reflexivity]; destruct H as [_ [Ht Hc]];
       cbn [bin_type rtype cmp_cond] in *; apply ty_eqb_eq in Hc; rewrite <- Ht, Hc; reflexivity.
  5-8: apply check_compares_spec in H; [|reflexivity]; destruct H as [_ [Ht Hc]];
       cbn [bin_type rtype cmp_cond] in *; rewrite <- Ht, sty_eqb_sty_of, Hrefl, strnum_sty_of, Hc; reflexivity.
  all: apply check_math_spec in H; [|reflexivity]; destruct H as [[[Ho [Hl Hr]]|[Hl Hr]] Hz];
       try discriminate Ho; cbn [bin_type rtype]; rewrite Hl, ?Hr; cbn; try reflexivity.
  (* division *)
  specialize (Hz eq_refl). apply (zero_div_iff r r2 Hh) in Hz. rewrite Hz. reflexivity.
Qed.

(* ---------------------------------------------------------------- soundness, expressions *)
Definition sound_at (e : expr) : Prop :=
  no_refs e = true ->
  forall e1 a, check ctx e = Ok e1 -> check_calls a (rw e1) = Ok tt -> params_static (rw e1) = true ->
  infer fo E m e = Some (sty_of (rtype (rw e1))) /\ calls_placed a e = true.

Lemma sound_list : forall items, Forall sound_at items -> forallb no_refs items = true ->
  forall items2, check_list items = Ok items2 -> calls_list items2 = Ok tt ->
  forallb params_static items2 = true ->
  infer_list items = Some (map (fun x => sty_of (rtype x)) items2) /\
  forallb (calls_placed false) items = true.
Proof.
  induction items as [|x items IH]; intros HS Hnr items2 Hc Hcalls Hps.
  - inversion Hc; subst. split; reflexivity.
  - inversion HS as [|? ? HSx HSr]; subst.
    cbn [forallb] in Hnr. apply andb_true_iff in Hnr. destruct Hnr as [Hnx Hnr].
    cbn [check_list] in Hc. inv_bind Hc as x1 Hx1 Hc. inv_bind Hc as r2 Hr2 Hc. inversion Hc; subst.
    cbn [calls_list] in Hcalls. inv_bind Hcalls as u Hu Hcalls. destruct u.
    cbn [forallb] in Hps. apply andb_true_iff in Hps. destruct Hps as [Hpx Hpr].
    destruct (HSx Hnx x1 false Hx1 Hu Hpx) as [Hix Hcx].
    destruct (IH HSr Hnr r2 Hr2 Hcalls Hpr) as [Hir Hcr].
    cbn [infer_list map forallb]. rewrite Hix, Hir, Hcx, Hcr. split; reflexivity.
Qed.

Lemma forallb_sty_eqb_map : forall t l,
  Forall (fun x => rtype x = t) l -> forallb (sty_eqb (sty_of t)) (map (fun x => sty_of (rtype x)) l) = true.
Proof.
  intros t l H. induction H as [|x l Hx _ IH]; [reflexivity|].
  cbn. rewrite Hx, IH. destruct t; reflexivity.
Qed.

Lemma head_rel_access : forall e e2, head_rel e e2 -> is_access e2 = true ->
  exists p l f, e = EAccess p l f.
Proof.
  intros e e2 H Ha. destruct e; cbn in H; eauto;
    try (destruct H as [x [y H]]; subst; discriminate);
    try (destruct H as [x H]; subst; discriminate);
    try (subst; discriminate).
  destruct H as [H|[d H]]; subst; discriminate.
Qed.

Lemma count_ok_spec : forall nargs more cnt,
  ((negb more && negb (Nat.eqb cnt nargs)) || (more && Nat.ltb cnt nargs)) = negb (count_ok nargs more cnt).
Proof.
  intros nargs more cnt. unfold count_ok. destruct more; cbn.
  - apply Nat.ltb_antisym.
  - rewrite orb_false_r. reflexivity.
Qed.

Lemma sound_expr : forall e, sound_at e.
Proof.
  intros e0.
  enough (Hq : sound_at e0 /\ match e0 with EList _ items => Forall sound_at items | _ => True end) by apply Hq.
  induction e0 using expr_induction.
  - (* EBin *)
    split; [|exact I]. destruct IHe0_1 as [IHl IHlx]. destruct IHe0_2 as [IHr IHrx].
    intros Hnr e1 a Hc Hcalls Hps.
    cbn [no_refs] in Hnr. apply andb_true_iff in Hnr. destruct Hnr as [Hnl Hnrr].
    cbn [Checker.check] in Hc.
    inv_bind Hc as l1 Hl1 Hc. inv_bind Hc as r1 Hr1 Hc. inv_bind Hc as u Hop Hc. inversion Hc; subst e1. clear Hc.
    cbn [rewrite_name] in Hcalls, Hps |- *.
    cbn [check_calls] in Hcalls. inv_bind Hcalls as u1 Hcl Hcr. destruct u1.
    cbn [params_static] in Hps. apply andb_true_iff in Hps. destruct Hps as [Hpl Hpr].
    destruct (IHl Hnl l1 a Hl1 Hcl Hpl) as [Hil Hpll].
    assert (Hop' : op_check p o (rw l1) (rw r1) = Ok tt) by (destruct u; destruct o; exact Hop).
    clear Hop.
    pose proof (check_head _ _ Hr1) as Hhr.
    destruct (op_eqb o OIn) eqn:EoIn.
    { (* IN *)
      destruct o; try discriminate EoIn. cbn [op_check] in Hop'.
      apply check_in_spec in Hop'. destruct Hop' as [Hsn Hr].
      destruct e0_2; cbn in Hhr; try (cbn in Hnrr; discriminate Hnrr);
        try (destruct Hhr as [x [y Hhr]]; rewrite Hhr in Hr; contradiction);
        try (destruct Hhr as [x Hhr]; rewrite Hhr in Hr; try contradiction);
        try (rewrite Hhr in Hr; contradiction).
      - (* call *)
        destruct (IHr Hnrr r1 a Hr1 Hcr Hpr) as [Hir Hprr].
        rewrite calls_placed_bin, Hpll, Hprr.
        rewrite infer_in_call_eq, Hil, strnum_sty_of, Hsn, Hir, Hhr, Hr. split; reflexivity.
      - (* name *)
        destruct Hhr as [Hhr|[d Hhr]]; rewrite Hhr in Hr; try contradiction.
        destruct (IHr Hnrr r1 a Hr1 Hcr Hpr) as [Hir Hprr].
        rewrite calls_placed_bin, Hpll, Hprr.
        rewrite infer_in_name_eq, Hil, strnum_sty_of, Hsn, Hir, Hhr, Hr. split; reflexivity.
      - (* list *)
        destruct l; [cbn in Hr1; discriminate|].
        rewrite check_list_eq in Hr1. inv_bind Hr1 as items2 Hi2 Hr1.
        destruct items2 as [|y rest2]; [discriminate|].
        destruct (first_mistyped (rtype y) rest2) eqn:Efm; [discriminate|]. inversion Hr1; subst r1. clear Hr1.
        cbn [rewrite_name] in *. inversion Hhr; subst x. clear Hhr.
        rewrite check_calls_elist_eq in Hcr. cbn [params_static] in Hpr. cbn [no_refs] in Hnrr.
        destruct (sound_list _ IHrx Hnrr _ Hi2 Hcr Hpr) as [Hinf Hpl2].
        apply first_mistyped_none in Hr.
        rewrite infer_in_list_eq, Hil, strnum_sty_of, Hsn, Hinf.
        rewrite (forallb_sty_eqb_map _ _ Hr). cbn [calls_placed]. rewrite Hpll, Hpl2. split; reflexivity. }
    destruct (op_eqb o OBetween) eqn:EoBt.
    { (* BETWEEN *)
      destruct o; try discriminate EoBt. cbn [op_check] in Hop'.
      unfold check_between in Hop'.
      destruct (rw r1) as [| | | | | | | | | |q its|] eqn:Er2; try discriminate Hop'.
      destruct its as [|lo2 [|hi2 [|]]]; try discriminate Hop'.
      destruct (is_strnum_ty (rtype (rw l1))) eqn:Hsn; cbn [negb] in Hop'; [|discriminate].
      destruct (ty_eqb (rtype lo2) (rtype (rw l1)) && ty_eqb (rtype hi2) (rtype (rw l1))) eqn:Ebt; [|discriminate].
      apply andb_true_iff in Ebt. destruct Ebt as [Elo Ehi]. apply ty_eqb_eq in Elo, Ehi.
      destruct e0_2; cbn in Hhr;
        try (destruct Hhr as [x [y Hhr]]; rewrite Hhr in Er2; discriminate);
        try (destruct Hhr as [x Hhr]; rewrite Hhr in Er2; try discriminate);
        try (rewrite Hhr in Er2; discriminate).
      { destruct Hhr as [Hhr|[d Hhr]]; rewrite Hhr in Er2; discriminate. }
      inversion Hhr; subst q x. clear Hhr.
      destruct l; [cbn in Hr1; discriminate|].
      rewrite check_list_eq in Hr1. inv_bind Hr1 as items2 Hi2 Hr1.
      destruct items2 as [|y rest2]; [discriminate|].
      destruct (first_mistyped (rtype y) rest2) eqn:Efm; [discriminate|]. inversion Hr1; subst r1. clear Hr1.
      cbn [rewrite_name] in Er2. inversion Er2; subst y rest2. clear Er2.
      rewrite check_calls_elist_eq in Hcr. cbn [params_static] in Hpr. cbn [no_refs] in Hnrr.
      destruct (sound_list _ IHrx Hnrr _ Hi2 Hcr Hpr) as [Hinf Hpl2].
      pose proof (Forall2_len _ _ _ (check_list_ok _ _ Hi2)) as Hlen.
      destruct l as [|hi [|]]; try discriminate Hlen.
      cbn [infer_list map] in Hinf.
      destruct (infer fo E m e) as [tlo|] eqn:Ilo; [|discriminate].
      destruct (infer fo E m hi) as [thi|] eqn:Ihi; [|discriminate].
      inversion Hinf; subst tlo thi. clear Hinf.
      cbn [calls_placed forallb] in Hpl2 |- *. rewrite Hpll, Hpl2.
      cbn [infer]. rewrite Hil, strnum_sty_of, Hsn, Ilo, Ihi, Elo, Ehi.
      replace (sty_eqb (sty_of (rtype (rw l1))) (sty_of (rtype (rw l1)))) with true
        by (symmetry; apply sty_eqb_eq; reflexivity).
      split; reflexivity. }
    (* the other operators *)
    destruct (IHr Hnrr r1 a Hr1 Hcr Hpr) as [Hir Hprr].
    assert (HnIn : o <> OIn) by (intros ->; discriminate EoIn).
    assert (HnBt : o <> OBetween) by (intros ->; discriminate EoBt).
    pose proof (bin_sound p o (rw l1) (rw r1) e0_2 Hhr HnIn HnBt Hop') as Hb.
    cbn [calls_placed]. rewrite Hpll, Hprr. split; [|reflexivity].
    rewrite infer_bin_eq by assumption.
    assert (Hsame : is_compare_op o && same_field e0_1 e0_2 = false).
    { destruct (is_compare_op o) eqn:Eco; [|reflexivity]. cbn [andb].
      rewrite <- (same_field_head _ _ _ _ (check_head _ _ Hl1) Hhr).
      assert (Hcc : check_compares true p o (rw l1) (rw r1) = Ok tt)
        by (destruct o; try discriminate Eco; exact Hop').
      apply check_compares_spec in Hcc; [|exact Eco]. exact (proj1 Hcc). }
    rewrite Hsame, Hil, Hir. exact Hb.
  - (* EField *)
    split; [|exact I]. intros _ e1 a Hc _ _. cbn [Checker.check] in Hc.
    destruct f; cbn [infer mode_of m_key m_value].
    + destruct (c_nokey ctx); inversion Hc; subst. split; reflexivity.
    + destruct (c_novalue ctx); inversion Hc; subst. split; reflexivity.
  - split; [|exact I]. intros _ e1 a Hc _ _. inversion Hc; subst. split; reflexivity.
  - (* ENot *)
    split; [|exact I]. destruct IHe0 as [IHr _].
    intros Hnr e1 a Hc Hcalls Hps. cbn [no_refs] in Hnr. cbn [Checker.check] in Hc.
    inv_bind Hc as r2 Hr2 Hc. inv_bind Hr2 as r1 Hr1 Hr2. inversion Hr2; subst r2. clear Hr2.
    destruct (ty_eqb (rtype (rw r1)) TBool) eqn:Eb; [|discriminate]. inversion Hc; subst e1. clear Hc.
    apply ty_eqb_eq in Eb. cbn [rewrite_name check_calls params_static] in *.
    destruct (IHr Hnr r1 false Hr1 Hcalls Hps) as [Hir Hpr].
    cbn [infer calls_placed rtype]. rewrite Hir, Eb, Hpr. split; reflexivity.
  - (* ECall *)
    split; [|exact I]. clear IHe0.
    intros Hnr e1 a Hc Hcalls Hps. cbn [no_refs] in Hnr. apply andb_true_iff in Hnr. destruct Hnr as [_ Hna].
    destruct e0; try (cbn [Checker.check] in Hc; discriminate Hc).
    rewrite check_call_eq in Hc. inv_bind Hc as args2 Ha2 Hc. inversion Hc; subst e1. clear Hc.
    cbn [rewrite_name] in *. rewrite check_calls_call_eq in Hcalls.
    cbn [params_static] in Hps. apply andb_true_iff in Hps. destruct Hps as [Hpk Hpa].
    destruct (call_name (EName pos s)) as [nm|] eqn:Ecn; [|discriminate].
    inv_bind Hcalls as u Htab Hcalls.
    assert (HS : Forall sound_at args) by (eapply Forall_impl; [|exact H]; intros x [Hx _]; exact Hx).
    destruct (sound_list _ HS Hna _ Ha2 Hcalls Hpa) as [Hinf Hpl].
    rewrite infer_call_eq, fname_call_name, Ecn, Hinf, scalar_sig_func_info.
    cbn [calls_placed]. rewrite fname_call_name, Ecn, scalar_sig_func_info, aggr_sig_aggr_rtype, Hpl.
    cbn [rtype]. rewrite Ecn.
    destruct (func_info nm) as [[[nargs more] t]|] eqn:Efi.
    + cbv zeta in Htab. rewrite count_ok_spec in Htab.
      replace (List.length args) with (List.length args2).
      2:{ apply check_list_ok in Ha2. symmetry. eapply Forall2_len; eauto. }
      destruct (count_ok nargs more (List.length args2)); [|discriminate]. rewrite Hpk. split; reflexivity.
    + rewrite ?aggr_sig_aggr_rtype. destruct (aggr_rtype nm) as [t|]; [|discriminate].
      destruct a; [|discriminate]. split; reflexivity.
  - (* EName *)
    split; [|exact I]. intros _ e1 a Hc _ _. inversion Hc; subst. cbn. unfold env_of.
    destruct (get_named (c_names ctx) s); split; reflexivity.
  - (* ERef *)
    split; [|exact I]. intros Hnr. discriminate.
  - split; [|exact I]. intros _ e1 a Hc _ _. inversion Hc; subst. split; reflexivity.
  - split; [|exact I]. intros _ e1 a Hc _ _. inversion Hc; subst. split; reflexivity.
  - split; [|exact I]. intros _ e1 a Hc _ _. inversion Hc; subst. split; reflexivity.
  - (* EList *)
    assert (HS : Forall sound_at l). { eapply Forall_impl; [|exact H]. intros x [Hx _]; exact Hx. }
    split; [|exact HS].
    intros Hnr e1 a Hc Hcalls Hps. cbn [no_refs] in Hnr.
    destruct l as [|x items]; [cbn in Hc; discriminate|].
    rewrite check_list_eq in Hc. inv_bind Hc as items2 Hi2 Hc.
    destruct items2 as [|y rest2]; [discriminate|].
    destruct (first_mistyped (rtype y) rest2) eqn:Efm; [discriminate|]. inversion Hc; subst e1. clear Hc.
    cbn [rewrite_name] in *. rewrite check_calls_elist_eq in Hcalls. cbn [params_static] in Hps.
    destruct (sound_list _ HS Hnr _ Hi2 Hcalls Hps) as [Hinf Hpl].
    rewrite infer_elist_eq, Hinf. cbn [map calls_placed].
    apply first_mistyped_none in Efm. rewrite (forallb_sty_eqb_map _ _ Efm). split; [reflexivity|exact Hpl].
  - (* EAccess *)
    split; [|exact I]. destruct IHe0_1 as [IHl _]. clear IHe0_2.
    intros Hnr e1 a Hc Hcalls Hps. cbn [no_refs] in Hnr. apply andb_true_iff in Hnr. destruct Hnr as [Hnl _].
    cbn [Checker.check] in Hc. inv_bind Hc as l2 Hl2 Hc. inv_bind Hl2 as l1 Hl1 Hl2. inversion Hl2; subst l2. clear Hl2.
    inv_bind Hc as f2 Hf2 Hc. inv_bind Hc as u Hsh Hc. inversion Hc; subst e1. clear Hc. destruct u.
    pose proof (check_literal_back _ _ Hf2) as Hlit. pose proof (shape_literal _ _ Hsh) as Hshl.
    assert (Hfeq : e0_2 = f2) by (destruct f2; try contradiction; exact Hlit). subst f2. clear Hlit Hshl Hf2.
    cbn [rewrite_name check_calls params_static] in *.
    destruct (IHl Hnl l1 false Hl1 Hcalls Hps) as [Hil Hpl].
    cbn [calls_placed]. split; [|exact Hpl].
    cbn [infer rtype]. rewrite Hil.
    unfold check_access_shape in Hsh.
    destruct (rtype (rw l1)) eqn:Et; cbn [sty_of].
    all: try (destruct (is_access (rw l1)) eqn:Ea;
              [ destruct (rw l1); try discriminate Ea; cbn in Et; discriminate | ]).
    all: try discriminate Hsh.
    + (* text: a cascaded access *)
      destruct (is_access (rw l1)) eqn:Ea; [|discriminate].
      destruct (head_rel_access _ _ (check_head _ _ Hl1) Ea) as [q [l' [f' ->]]].
      destruct e0_2; try discriminate Hsh; reflexivity.
    + destruct e0_2; try discriminate Hsh; reflexivity.
    + destruct e0_2; try discriminate Hsh; reflexivity.
Qed.

(* ---------------------------------------------------------------- completeness, expressions *)
Lemma bin_complete : forall p o l2 r2 r t, head_rel r r2 ->
  o <> OIn -> o <> OBetween ->
  (is_compare_op o = true -> same_field l2 r2 = false) ->
  bin_type fo o (sty_of (rtype l2)) (sty_of (rtype r2)) r = Some t ->
  op_check p o l2 r2 = Ok tt /\ t = sty_of (rtype (EBin p o l2 r2)).
Proof.
  intros p o l2 r2 r t Hh Hin Hbt Hsf H.
  destruct o; try congruence; cbn [op_check]; try discriminate H.
  1-2,15-16: destruct (rtype l2) eqn:El; destruct (rtype r2) eqn:Er; cbn in H; try discriminate H;
             (inversion H; split; [apply check_andor_spec; auto | reflexivity]).
  1-4,9-12: specialize (Hsf eq_refl);
       destruct (rtype l2) eqn:El; destruct (rtype r2) eqn:Er; cbn in H; try discriminate H;
       (inversion H; split; [apply check_compares_spec; [reflexivity|]; rewrite El, Er; auto | reflexivity]).
  all: destruct (rtype l2) eqn:El; destruct (rtype r2) eqn:Er; cbn [bin_type sty_of] in H; try discriminate H.
  all: try (inversion H; split; [apply check_math_spec; [reflexivity|]; rewrite El, Er;
                                 split; [auto | intros; discriminate] | cbn [rtype]; rewrite ?El; reflexivity]).
  (* division *)
  destruct (lit_zero fo r) eqn:Ez; [discriminate|]. inversion H. split.
  - apply check_math_spec; [reflexivity|]. rewrite El, Er. split; [auto|]. intros _.
    apply (zero_div_iff r r2 Hh). exact Ez.
  - reflexivity.
Qed.

Definition complete_at (e : expr) : Prop :=
  forall t a, infer fo E m e = Some t -> calls_placed a e = true -> no_same_field e = true ->
  exists e1, check ctx e = Ok e1 /\ check_calls a (rw e1) = Ok tt /\ sty_of (rtype (rw e1)) = t
             /\ params_static (rw e1) = true.

Lemma complete_list : forall items, Forall complete_at items ->
  forall ts, infer_list items = Some ts -> forallb (calls_placed false) items = true ->
  forallb no_same_field items = true ->
  exists items2, check_list items = Ok items2 /\ calls_list items2 = Ok tt /\
                 map (fun x => sty_of (rtype x)) items2 = ts /\ forallb params_static items2 = true.
Proof.
  induction items as [|x items IH]; intros HC ts Hi Hp Hs.
  - inversion Hi; subst. exists []. repeat split; reflexivity.
  - inversion HC as [|? ? HCx HCr]; subst.
    cbn [infer_list] in Hi.
    destruct (infer fo E m x) as [tx|] eqn:Ix; [|discriminate].
    destruct (infer_list items) as [tr|] eqn:Ir; [|discriminate]. inversion Hi; subst ts. clear Hi.
    cbn [forallb] in Hp, Hs. apply andb_true_iff in Hp. destruct Hp as [Hpx Hpr].
    apply andb_true_iff in Hs. destruct Hs as [Hsx Hsr].
    destruct (HCx tx false Ix Hpx Hsx) as [x1 [Hx1 [Hcx [Htx Hpsx]]]].
    destruct (IH HCr tr eq_refl Hpr Hsr) as [r2 [Hr2 [Hcr [Htr Hpsr]]]].
    exists (rw x1 :: r2). cbn [check_list calls_list map forallb].
    rewrite Hx1, Hr2, Hcx, Hcr, Htx, Htr, Hpsx, Hpsr. repeat split; reflexivity.
Qed.

Lemma check_calls_bin : forall a p o l r,
  check_calls a (EBin p o l r) = (do _ <- check_calls a l; check_calls a r).
Proof. reflexivity. Qed.

Lemma check_bin_eq : forall p o l r,
  check ctx (EBin p o l r) =
  (do l1 <- check ctx l; do r1 <- check ctx r;
   do _ <- op_check p o (rw l1) (rw r1); Ok (EBin p o (rw l1) (rw r1))).
Proof. intros. destruct o; reflexivity. Qed.

Lemma homogeneous_items : forall t0 items2,
  forallb (sty_eqb (sty_of t0)) (map (fun x => sty_of (rtype x)) items2) = true ->
  Forall (fun x => rtype x = t0) items2.
Proof.
  induction items2 as [|x l IH]; intros H; [constructor|].
  cbn in H. apply andb_true_iff in H. destruct H as [Hx Hl]. constructor; [|auto].
  apply sty_eqb_eq in Hx. apply sty_of_inj in Hx. congruence.
Qed.

Lemma params_ok_not_scalar : forall nm ts, scalar_sig nm = None -> params_ok nm ts = true.
Proof.
  intros nm ts H. unfold scalar_sig in H. unfold params_ok.
  repeat (match type of H with context [String.eqb nm ?s] =>
            destruct (String.eqb nm s) eqn:?; [discriminate H|] end).
  reflexivity.
Qed.

Lemma complete_expr : forall e, complete_at e.
Proof.
  intros e0.
  enough (Hq : complete_at e0 /\ match e0 with EList _ items => Forall complete_at items | _ => True end) by apply Hq.
  induction e0 using expr_induction.
  - (* EBin *)
    split; [|exact I]. destruct IHe0_1 as [IHl _]. destruct IHe0_2 as [IHr IHrx].
    intros t a Hi Hp Hs.
    rewrite calls_placed_bin in Hp. apply andb_true_iff in Hp. destruct Hp as [Hpl Hpr].
    cbn [no_same_field] in Hs. apply andb_true_iff in Hs. destruct Hs as [Hs Hsr].
    apply andb_true_iff in Hs. destruct Hs as [Hsf Hsl].
    rewrite check_bin_eq.
    destruct (op_eqb o OIn) eqn:EoIn.
    { destruct o; try discriminate EoIn. clear EoIn Hsf.
      destruct e0_2; try (cbn in Hi; destruct (infer fo E m e0_1) as [tl|]; [destruct (strnum tl)|]; discriminate Hi).
      - (* call *)
        rewrite infer_in_call_eq in Hi.
        destruct (infer fo E m e0_1) as [tl|] eqn:Il; [|discriminate].
        destruct (strnum tl) eqn:Esn; [|discriminate].
        destruct (infer fo E m (ECall pos e0_2 args)) as [tr|] eqn:Ir; [|discriminate].
        destruct tr; try discriminate Hi. inversion Hi; subst t. clear Hi.
        destruct (IHl tl a Il Hpl Hsl) as [l1 [Hl1 [Hcl [Htl Hpsl]]]].
        destruct (IHr SList a Ir Hpr Hsr) as [r1 [Hr1 [Hcr [Htr Hpsr]]]].
        exists (EBin p OIn (rw l1) (rw r1)). rewrite Hl1, Hr1. cbn [bind op_check].
        assert (Hin : check_in true (rw l1) (rw r1) = Ok tt).
        { apply check_in_spec. split.
          - rewrite <- strnum_sty_of, Htl. exact Esn.
          - destruct (check_head _ _ Hr1) as [x Hx]. rewrite Hx in *.
            change SList with (sty_of TList) in Htr. apply sty_of_inj in Htr. exact Htr. }
        rewrite Hin. cbn [bind rewrite_name check_calls params_static rtype sty_of].
        rewrite Hcl, Hcr, Hpsl, Hpsr. repeat split; reflexivity.
      - (* name *)
        rewrite infer_in_name_eq in Hi.
        destruct (infer fo E m e0_1) as [tl|] eqn:Il; [|discriminate].
        destruct (strnum tl) eqn:Esn; [|discriminate].
        destruct (infer fo E m (EName pos s)) as [tr|] eqn:Ir; [|discriminate].
        destruct tr; try discriminate Hi. inversion Hi; subst t. clear Hi.
        destruct (IHl tl a Il Hpl Hsl) as [l1 [Hl1 [Hcl [Htl Hpsl]]]].
        destruct (IHr SList a Ir Hpr Hsr) as [r1 [Hr1 [Hcr [Htr Hpsr]]]].
        exists (EBin p OIn (rw l1) (rw r1)). rewrite Hl1, Hr1. cbn [bind op_check].
        assert (Hin : check_in true (rw l1) (rw r1) = Ok tt).
        { apply check_in_spec. split.
          - rewrite <- strnum_sty_of, Htl. exact Esn.
          - change SList with (sty_of TList) in Htr. apply sty_of_inj in Htr.
            destruct (check_head _ _ Hr1) as [Hx|[d Hx]]; rewrite Hx in *; [discriminate Htr | exact Htr]. }
        rewrite Hin. cbn [bind rewrite_name check_calls params_static rtype sty_of].
        rewrite Hcl, Hcr, Hpsl, Hpsr. repeat split; reflexivity.
      - (* list *)
        destruct l as [|x rest]; [cbn in Hi; destruct (infer fo E m e0_1) as [tl|]; [destruct (strnum tl)|]; discriminate Hi|].
        rewrite infer_in_list_eq in Hi.
        destruct (infer fo E m e0_1) as [tl|] eqn:Il; [|discriminate].
        destruct (strnum tl) eqn:Esn; [|discriminate].
        destruct (infer_list (x :: rest)) as [ts|] eqn:Ils; [|discriminate].
        destruct (forallb (sty_eqb tl) ts) eqn:Eall; [|discriminate]. inversion Hi; subst t. clear Hi.
        destruct (IHl tl a Il Hpl Hsl) as [l1 [Hl1 [Hcl [Htl Hpsl]]]].
        cbn [calls_placed] in Hpr. cbn [no_same_field] in Hsr.
        destruct (complete_list _ IHrx ts Ils Hpr Hsr) as [items2 [Hi2 [Hc2 [Hm2 Hps2]]]].
        subst tl ts. apply homogeneous_items in Eall.
        assert (Hr1 : check ctx (EList pos (x :: rest)) = Ok (EList pos items2)).
        { rewrite check_list_eq, Hi2. cbn [bind].
          destruct items2 as [|y rest2].
          - pose proof (Forall2_len _ _ _ (check_list_ok _ _ Hi2)) as Hlen. discriminate Hlen.
          - inversion Eall as [|? ? Hy Hrest]; subst.
            replace (first_mistyped (rtype y) rest2) with (@None expr); [reflexivity|].
            symmetry. apply first_mistyped_none. rewrite Hy. exact Hrest. }
        exists (EBin p OIn (rw l1) (EList pos items2)). rewrite Hl1, Hr1. cbn [bind op_check rewrite_name].
        assert (Hin : check_in true (rw l1) (EList pos items2) = Ok tt).
        { apply check_in_spec. split.
          - rewrite <- strnum_sty_of. exact Esn.
          - apply first_mistyped_none. exact Eall. }
        rewrite Hin. cbn [bind]. rewrite check_calls_bin, check_calls_elist_eq, Hcl, Hc2.
        cbn [bind params_static rtype sty_of]. rewrite Hpsl, Hps2.
        repeat split; reflexivity. }
    destruct (op_eqb o OBetween) eqn:EoBt.
    { destruct o; try discriminate EoBt. clear EoIn EoBt Hsf.
      cbn [infer] in Hi.
      destruct (infer fo E m e0_1) as [tl|] eqn:Il; [|discriminate].
      destruct (strnum tl) eqn:Esn; [|discriminate].
      destruct e0_2; try discriminate Hi.
      destruct l as [|lo [|hi [|]]]; try discriminate Hi.
      destruct (infer fo E m lo) as [ta|] eqn:Ilo; [|discriminate].
      destruct (infer fo E m hi) as [tb|] eqn:Ihi; [|discriminate].
      destruct (sty_eqb ta tl && sty_eqb tb tl) eqn:Eab; [|discriminate]. inversion Hi; subst t. clear Hi.
      apply andb_true_iff in Eab. destruct Eab as [Ea Eb]. apply sty_eqb_eq in Ea, Eb. subst ta tb.
      destruct (IHl tl a Il Hpl Hsl) as [l1 [Hl1 [Hcl [Htl Hpsl]]]].
      cbn [calls_placed] in Hpr. cbn [no_same_field] in Hsr.
      assert (Ils : infer_list [lo; hi] = Some [tl; tl]) by (cbn [infer_list]; rewrite Ilo, Ihi; reflexivity).
      destruct (complete_list _ IHrx _ Ils Hpr Hsr) as [items2 [Hi2 [Hc2 [Hm2 Hps2]]]].
      pose proof (Forall2_len _ _ _ (check_list_ok _ _ Hi2)) as Hlen.
      destruct items2 as [|lo2 [|hi2 [|]]]; try discriminate Hlen.
      cbn [map] in Hm2. injection Hm2 as Hlo2 Hhi2.
      rewrite <- Htl in Hlo2, Hhi2. apply sty_of_inj in Hlo2, Hhi2.
      assert (Hr1 : check ctx (EList pos [lo; hi]) = Ok (EList pos [lo2; hi2])).
      { rewrite check_list_eq, Hi2. cbn [bind first_mistyped]. rewrite Hhi2, Hlo2.
        replace (ty_eqb (rtype (rw l1)) (rtype (rw l1))) with true by (symmetry; apply ty_eqb_eq; reflexivity).
        reflexivity. }
      exists (EBin p OBetween (rw l1) (EList pos [lo2; hi2])). rewrite Hl1, Hr1. cbn [bind op_check rewrite_name].
      assert (Hbt : check_between (rw l1) (EList pos [lo2; hi2]) = Ok tt).
      { unfold check_between. rewrite <- strnum_sty_of, Htl, Esn. cbn [negb]. rewrite Hlo2, Hhi2.
        replace (ty_eqb (rtype (rw l1)) (rtype (rw l1))) with true by (symmetry; apply ty_eqb_eq; reflexivity).
        reflexivity. }
      rewrite Hbt. cbn [bind]. rewrite check_calls_bin, check_calls_elist_eq, Hcl, Hc2.
      cbn [bind params_static rtype sty_of]. rewrite Hpsl, Hps2.
      repeat split; reflexivity. }
    (* the other operators *)
    assert (HnIn : o <> OIn) by (intros ->; discriminate EoIn).
    assert (HnBt : o <> OBetween) by (intros ->; discriminate EoBt).
    rewrite infer_bin_eq in Hi by assumption.
    destruct (is_compare_op o && same_field e0_1 e0_2) eqn:Esame; [discriminate Hi|].
    destruct (infer fo E m e0_1) as [tl|] eqn:Il; [|discriminate].
    destruct (infer fo E m e0_2) as [tr|] eqn:Ir; [|discriminate].
    destruct (IHl tl a Il Hpl Hsl) as [l1 [Hl1 [Hcl [Htl Hpsl]]]].
    destruct (IHr tr a Ir Hpr Hsr) as [r1 [Hr1 [Hcr [Htr Hpsr]]]].
    subst tl tr.
    pose proof (check_head _ _ Hl1) as Hhl. pose proof (check_head _ _ Hr1) as Hhr.
    assert (Hsf' : is_compare_op o = true -> same_field (rw l1) (rw r1) = false).
    { intros Hco. rewrite (same_field_head _ _ _ _ Hhl Hhr). rewrite Hco in Esame. exact Esame. }
    destruct (bin_complete p o (rw l1) (rw r1) e0_2 t Hhr HnIn HnBt Hsf' Hi) as [Hop Ht].
    exists (EBin p o (rw l1) (rw r1)). rewrite Hl1, Hr1. cbn [bind]. rewrite Hop. cbn [bind rewrite_name].
    cbn [check_calls params_static]. rewrite Hcl, Hcr, Hpsl, Hpsr. subst t. repeat split; reflexivity.
  - (* EField *)
    split; [|exact I]. intros t a Hi _ _. cbn [Checker.check].
    destruct f; cbn [infer mode_of m_key m_value] in Hi.
    + destruct (c_nokey ctx); [discriminate|]. inversion Hi. eexists; repeat split; reflexivity.
    + destruct (c_novalue ctx); [discriminate|]. inversion Hi. eexists; repeat split; reflexivity.
  - split; [|exact I]. intros t a Hi _ _. inversion Hi. eexists; repeat split; reflexivity.
  - (* ENot *)
    split; [|exact I]. destruct IHe0 as [IHr _]. intros t a Hi Hp Hs.
    cbn [infer] in Hi. destruct (infer fo E m e0) as [tr|] eqn:Ir; [|discriminate].
    destruct tr; try discriminate Hi. inversion Hi; subst t. clear Hi.
    cbn [calls_placed] in Hp. cbn [no_same_field] in Hs.
    destruct (IHr SBool false Ir Hp Hs) as [r1 [Hr1 [Hcr [Htr Hpsr]]]].
    change SBool with (sty_of TBool) in Htr. apply sty_of_inj in Htr.
    exists (ENot p (rw r1)). cbn [Checker.check]. rewrite Hr1. cbn [bind]. rewrite Htr. cbn [ty_eqb].
    cbn [rewrite_name check_calls params_static rtype sty_of]. rewrite Hcr, Hpsr. repeat split; reflexivity.
  - (* ECall *)
    split; [|exact I]. clear IHe0.
    assert (HC : Forall complete_at args) by (eapply Forall_impl; [|exact H]; intros x [Hx _]; exact Hx).
    intros t a Hi Hp Hs. rewrite infer_call_eq in Hi.
    destruct (fname e0) as [nm|] eqn:Efn; [|discriminate].
    destruct e0; try discriminate Efn.
    destruct (infer_list args) as [ts|] eqn:Ils; [|discriminate].
    cbn [calls_placed] in Hp. rewrite Efn in Hp. apply andb_true_iff in Hp. destruct Hp as [Hpa Hpl].
    cbn [no_same_field] in Hs.
    destruct (complete_list _ HC ts Ils Hpl Hs) as [args2 [Ha2 [Hc2 [Hm2 Hps2]]]].
    exists (ECall p (EName pos s) args2). rewrite check_call_eq, Ha2. cbn [bind rewrite_name].
    rewrite check_calls_call_eq. rewrite fname_call_name in Efn. rewrite Efn.
    cbn [params_static rtype]. rewrite Efn, Hm2, Hps2, Hc2.
    rewrite scalar_sig_func_info in Hi, Hpa.
    replace (List.length args2) with (List.length args)
      by (eapply Forall2_len; apply check_list_ok; exact Ha2).
    destruct (func_info nm) as [[[nargs more] t0]|] eqn:Efi.
    + cbv zeta. rewrite count_ok_spec.
      destruct (count_ok nargs more (List.length args)); [|discriminate].
      destruct (params_ok nm ts); [|discriminate]. inversion Hi; subst t. cbn [negb bind andb].
      repeat split; reflexivity.
    + rewrite aggr_sig_aggr_rtype in Hi, Hpa.
      destruct (aggr_rtype nm) as [t0|]; [|discriminate]. inversion Hi; subst t. subst a. cbn [bind].
      rewrite params_ok_not_scalar by (rewrite scalar_sig_func_info, Efi; reflexivity).
      repeat split; reflexivity.
  - (* EName *)
    split; [|exact I]. intros t a Hi _ _. exists (EName p s). cbn [Checker.check].
    cbn [infer] in Hi. unfold env_of in Hi. cbn [rewrite_name].
    destruct (get_named (c_names ctx) s); inversion Hi; repeat split; reflexivity.
  - split; [|exact I]. intros t a Hi. discriminate Hi.
  - split; [|exact I]. intros t a Hi _ _. inversion Hi. eexists; repeat split; reflexivity.
  - split; [|exact I]. intros t a Hi _ _. inversion Hi. eexists; repeat split; reflexivity.
  - split; [|exact I]. intros t a Hi _ _. inversion Hi. eexists; repeat split; reflexivity.
  - (* EList *)
    assert (HC : Forall complete_at l) by (eapply Forall_impl; [|exact H]; intros x [Hx _]; exact Hx).
    split; [|exact HC]. intros t a Hi Hp Hs. rewrite infer_elist_eq in Hi.
    destruct (infer_list l) as [ts|] eqn:Ils; [|discriminate].
    destruct ts as [|t0 ts]; [discriminate|].
    destruct (forallb (sty_eqb t0) ts) eqn:Eall; [|discriminate]. inversion Hi; subst t. clear Hi.
    cbn [calls_placed] in Hp. cbn [no_same_field] in Hs.
    destruct (complete_list _ HC _ Ils Hp Hs) as [items2 [Hi2 [Hc2 [Hm2 Hps2]]]].
    destruct l as [|x rest]; [discriminate Ils|].
    destruct items2 as [|y rest2]; [discriminate Hm2|].
    cbn [map] in Hm2. inversion Hm2 as [[Hy Hrest]]. subst t0 ts. apply homogeneous_items in Eall.
    exists (EList p (y :: rest2)). rewrite check_list_eq, Hi2. cbn [bind].
    replace (first_mistyped (rtype y) rest2) with (@None expr)
      by (symmetry; apply first_mistyped_none; exact Eall).
    cbn [rewrite_name]. rewrite check_calls_elist_eq, Hc2. cbn [params_static rtype sty_of]. rewrite Hps2.
    repeat split; reflexivity.
  - (* EAccess *)
    split; [|exact I]. destruct IHe0_1 as [IHl _]. clear IHe0_2. intros t a Hi Hp Hs.
    cbn [infer] in Hi. destruct (infer fo E m e0_1) as [tl|] eqn:Il; [|discriminate].
    cbn [calls_placed] in Hp. cbn [no_same_field] in Hs.
    destruct (IHl tl false Il Hp Hs) as [l1 [Hl1 [Hcl [Htl Hpsl]]]].
    assert (Hf : check ctx e0_2 = Ok e0_2).
    { destruct tl; try discriminate Hi; try (destruct e0_1; try discriminate Hi);
        destruct e0_2; try discriminate Hi; reflexivity. }
    exists (EAccess p (rw l1) e0_2). cbn [Checker.check]. rewrite Hl1. cbn [bind]. rewrite Hf. cbn [bind].
    assert (Hsh : check_access_shape true (rw l1) e0_2 = Ok tt /\ t = SStr).
    { unfold check_access_shape. destruct tl; try discriminate Hi.
      - (* text: cascaded *)
        change SStr with (sty_of TStr) in Htl. apply sty_of_inj in Htl. rewrite Htl.
        destruct e0_1; try discriminate Hi.
        destruct (check_head _ _ Hl1) as [x [y Hx]]. rewrite Hx. cbn [is_access].
        destruct e0_2; try discriminate Hi; inversion Hi; split; reflexivity.
      - change SList with (sty_of TList) in Htl. apply sty_of_inj in Htl. rewrite Htl.
        destruct e0_2; try discriminate Hi; inversion Hi; split; reflexivity.
      - change SJson with (sty_of TJson) in Htl. apply sty_of_inj in Htl. rewrite Htl.
        destruct e0_2; try discriminate Hi; inversion Hi; split; reflexivity. }
    destruct Hsh as [Hsh Ht]. rewrite Hsh. cbn [bind rewrite_name check_calls params_static rtype sty_of].
    rewrite Hcl, Hpsl. subst t. repeat split; reflexivity.
Qed.

End WithCtx.

(* ---------------------------------------------------------------- statements without field names:
   PUT, REMOVE, DELETE *)
Lemma rw_nil : forall e, rewrite_name [] e = e.
Proof. destruct e; reflexivity. Qed.

Lemma check_list_nil_id : forall nokey novalue l,
  Forall (fun e => forall e1, check (Cctx [] nokey novalue) e = Ok e1 -> e1 = e) l ->
  forall l2, check_list (Cctx [] nokey novalue) l = Ok l2 -> l2 = l.
Proof.
  induction 1 as [|x l Hx _ IH]; intros l2 H; cbn [check_list] in H.
  - inversion H; reflexivity.
  - inv_bind H as x1 Hx1 H. inv_bind H as r2 Hr2 H. inversion H; subst l2.
    cbn [c_names]. rewrite rw_nil, (Hx _ Hx1), (IH _ Hr2). reflexivity.
Qed.

(* without field names Check returns the tree unchanged *)
Lemma check_nil_id : forall nokey novalue e ec, check (Cctx [] nokey novalue) e = Ok ec -> ec = e.
Proof.
  intros nokey novalue e0. induction e0 using expr_induction; intros ec Hc.
  - rewrite check_bin_eq in Hc. inv_bind Hc as l1 Hl1 Hc. inv_bind Hc as r1 Hr1 Hc. inv_bind Hc as u Hu Hc.
    inversion Hc; subst ec. cbn [c_names]. rewrite !rw_nil, (IHe0_1 _ Hl1), (IHe0_2 _ Hr1). reflexivity.
  - cbn [Checker.check] in Hc. destruct f.
    + destruct (c_nokey (Cctx [] nokey novalue)); inversion Hc; reflexivity.
    + destruct (c_novalue (Cctx [] nokey novalue)); inversion Hc; reflexivity.
  - inversion Hc; reflexivity.
  - cbn [Checker.check] in Hc. inv_bind Hc as r2 Hr2 Hc. inv_bind Hr2 as r1 Hr1 Hr2. inversion Hr2; subst r2.
    destruct (ty_eqb _ TBool); inversion Hc; subst ec. cbn [c_names]. rewrite rw_nil, (IHe0 _ Hr1). reflexivity.
  - destruct e0; try (cbn [Checker.check] in Hc; discriminate Hc).
    rewrite check_call_eq in Hc. inv_bind Hc as a2 Ha2 Hc. inversion Hc; subst ec.
    rewrite (check_list_nil_id _ _ _ H _ Ha2). reflexivity.
  - inversion Hc; reflexivity.
  - inversion Hc; reflexivity.
  - inversion Hc; reflexivity.
  - inversion Hc; reflexivity.
  - inversion Hc; reflexivity.
  - destruct l as [|x items]; [cbn in Hc; discriminate|].
    rewrite check_list_eq in Hc. inv_bind Hc as i2 Hi2 Hc. destruct i2 as [|y rest2]; [discriminate|].
    destruct (first_mistyped (rtype y) rest2); inversion Hc; subst ec.
    rewrite (check_list_nil_id _ _ _ H _ Hi2). reflexivity.
  - cbn [Checker.check] in Hc. inv_bind Hc as l2 Hl2 Hc. inv_bind Hl2 as l1 Hl1 Hl2. inversion Hl2; subst l2.
    inv_bind Hc as f2 Hf2 Hc. inv_bind Hc as u Hu Hc. inversion Hc; subst ec. cbn [c_names].
    rewrite rw_nil, (IHe0_1 _ Hl1), (IHe0_2 _ Hf2). reflexivity.
Qed.

Lemma sound_expr0 : forall nokey novalue e e1 a,
  no_refs e = true ->
  check (Cctx [] nokey novalue) e = Ok e1 -> check_calls a e1 = Ok tt -> params_static e1 = true ->
  infer fo no_env (Mode (negb nokey) (negb novalue)) e = Some (sty_of (rtype e1)) /\ calls_placed a e = true.
Proof.
  intros nokey novalue e e1 a Hn Hc Hcalls Hps.
  pose proof (sound_expr (Cctx [] nokey novalue) e Hn e1 a Hc) as H.
  cbn [c_names] in H. rewrite rw_nil in H. exact (H Hcalls Hps).
Qed.

Lemma complete_expr0 : forall nokey novalue e t a,
  infer fo no_env (Mode (negb nokey) (negb novalue)) e = Some t -> calls_placed a e = true ->
  no_same_field e = true ->
  exists e1, check (Cctx [] nokey novalue) e = Ok e1 /\ check_calls a e1 = Ok tt /\ sty_of (rtype e1) = t.
Proof.
  intros nokey novalue e t a Hi Hp Hs.
  destruct (complete_expr (Cctx [] nokey novalue) e t a Hi Hp Hs) as [e1 [H1 [H2 [H3 _]]]].
  cbn [c_names] in H2, H3. rewrite rw_nil in H2, H3. eauto.
Qed.

End Proofs.

(* a float interface without floats: for concrete witnesses that involve no float literal
   (keeps them free of Coq's primitive-float constants) *)
Definition no_floats : fops :=
  {| F := unit;
     fadd := fun _ _ => tt; fsub := fun _ _ => tt; fmul := fun _ _ => tt; fdiv := fun _ _ => tt;
     fsqrt := fun _ => tt; fabs := fun _ => tt;
     feqb := fun _ _ => true; fltb := fun _ _ => false; fleb := fun _ _ => true;
     f_of_Z := fun _ => tt; f_trunc := fun _ => None; f_parse := fun _ => PF_oom;
     f_fmt := fun _ => ""; f_zero := tt; f_one := tt; f_bits := fun _ => 0%Z |}.

(* ---------------------------------------------------------------- typing of statements *)
Definition stmt_typed (fo : fops) (s : stmt) : bool :=
  match s with
  | SSelect f w o => select_typed fo f w o
  | SPut p => put_typed fo p
  | SRemove k => remove_typed fo k
  | SDelete w => delete_typed fo w
  end.

Definition stmt_no_refs (s : stmt) : bool :=
  match s with
  | SSelect f w _ => forallb (fun nf => no_refs (snd nf)) f && no_refs w
  | SPut p => forallb (fun kv => no_refs (fst kv) && no_refs (snd kv)) p
  | SRemove k => forallb no_refs k
  | SDelete w => no_refs w
  end.

Definition stmt_params_static (s : stmt) : bool :=
  match s with
  | SSelect f w _ => forallb (fun nf => params_static (snd nf)) f && params_static w
  | SPut p => forallb (fun kv => params_static (fst kv) && params_static (snd kv)) p
  | SRemove k => forallb params_static k
  | SDelete w => params_static w
  end.

Definition stmt_no_same_field (s : stmt) : bool :=
  match s with
  | SSelect f w _ => forallb (fun nf => no_same_field (snd nf)) f && no_same_field w
  | SPut p => forallb (fun kv => no_same_field (fst kv) && no_same_field (snd kv)) p
  | SRemove k => forallb no_same_field k
  | SDelete w => no_same_field w
  end.

Definition is_select (s : stmt) : bool := match s with SSelect _ _ _ => true | _ => false end.

Section StmtProofs.
Variable fo : fops.

Lemma strnum_or_ok : forall e, strnum_or e = Ok tt <-> is_strnum_ty (rtype e) = true.
Proof. intros e. unfold strnum_or, serr. destruct (is_strnum_ty (rtype e)); split; congruence. Qed.

Lemma where_bool_ok : forall e, where_bool e = Ok tt <-> rtype e = TBool.
Proof.
  intros e. unfold where_bool. destruct (ty_eqb (rtype e) TBool) eqn:Eb.
  - apply ty_eqb_eq in Eb. tauto.
  - apply ty_eqb_neq in Eb. split; [discriminate | tauto].
Qed.

(* DELETE *)
Lemma delete_sound : forall w s2,
  build_check fo true (SDelete w) = Ok s2 -> no_refs w = true -> stmt_params_static s2 = true ->
  delete_typed fo w = true.
Proof.
  intros w s2 H Hn Hps. unfold build_check in H. inv_bind H as s1 Hs1 H. inv_bind H as u Hc H. inversion H; subst s2. clear H.
  cbn [check_stmt] in Hs1. inv_bind Hs1 as w2 Hw2 Hs1. inv_bind Hs1 as u2 Hb Hs1. inversion Hs1; subst s1. clear Hs1.
  destruct u, u2. apply where_bool_ok in Hb. cbn [check_stmt_calls] in Hc. cbn [stmt_params_static] in Hps.
  destruct (sound_expr0 fo false false w w2 false Hn Hw2 Hc Hps) as [Hi Hp].
  unfold delete_typed, is_type, all_allowed. cbn [negb] in Hi. rewrite Hi, Hb, Hp. reflexivity.
Qed.

Lemma delete_complete : forall w,
  delete_typed fo w = true -> no_same_field w = true ->
  exists s2, build_check fo true (SDelete w) = Ok s2.
Proof.
  intros w H Hs. unfold delete_typed, is_type, all_allowed in H. apply andb_true_iff in H. destruct H as [Ht Hp].
  destruct (infer fo no_env (Mode true true) w) as [t|] eqn:Hi; [|discriminate].
  apply sty_eqb_eq in Ht. subst t.
  destruct (complete_expr0 fo false false w SBool false Hi Hp Hs) as [w2 [Hw2 [Hc Hty]]].
  change SBool with (sty_of TBool) in Hty. apply sty_of_inj in Hty.
  exists (SDelete w2). unfold build_check. cbn [check_stmt]. rewrite Hw2. cbn [bind].
  replace (where_bool w2) with (@Ok unit tt) by (symmetry; apply where_bool_ok; exact Hty).
  cbn [bind check_stmt_calls]. rewrite Hc. reflexivity.
Qed.

(* REMOVE *)
Lemma remove_sound : forall keys s2,
  build_check fo true (SRemove keys) = Ok s2 -> forallb no_refs keys = true -> stmt_params_static s2 = true ->
  remove_typed fo keys = true.
Proof.
  intros keys s2 H Hn Hps. unfold build_check in H. inv_bind H as s1 Hs1 H. inv_bind H as u Hc H. inversion H; subst s2. clear H.
  cbn [check_stmt] in Hs1. inv_bind Hs1 as k2 Hk2 Hs1. inversion Hs1; subst s1. clear Hs1.
  cbn [check_stmt_calls] in Hc. cbn [stmt_params_static] in Hps. destruct u.
  revert k2 Hk2 Hc Hps Hn. induction keys as [|k keys IH]; intros k2 Hk2 Hc Hps Hn; [reflexivity|].
  cbn [check_keys] in Hk2. inv_bind Hk2 as u Hsn Hk2. inv_bind Hk2 as k1 Hk1 Hk2. inv_bind Hk2 as r2 Hr2 Hk2.
  inversion Hk2; subst k2. clear Hk2.
  cbn [calls_keys] in Hc. inv_bind Hc as u1 Hck Hc. destruct u, u1.
  cbn [forallb] in Hps, Hn. apply andb_true_iff in Hps. destruct Hps as [Hpk Hpr].
  apply andb_true_iff in Hn. destruct Hn as [Hnk Hnr].
  destruct (sound_expr0 fo true true k k1 false Hnk Hk1 Hck Hpk) as [Hi Hp].
  apply strnum_or_ok in Hsn. rewrite (check_nil_id fo _ _ _ _ Hk1) in Hi.
  cbn [remove_typed forallb]. unfold is_strnum. cbn [negb] in Hi. rewrite Hi, strnum_sty_of, Hsn, Hp.
  cbn [andb]. exact (IH r2 Hr2 Hc Hpr Hnr).
Qed.

Lemma remove_complete : forall keys,
  remove_typed fo keys = true -> forallb no_same_field keys = true ->
  exists s2, build_check fo true (SRemove keys) = Ok s2.
Proof.
  intros keys H Hs.
  enough (Hk : exists k2, check_keys fo true keys = Ok k2 /\ calls_keys k2 = Ok tt).
  { destruct Hk as [k2 [Hk2 Hc]]. exists (SRemove k2). unfold build_check. cbn [check_stmt]. rewrite Hk2.
    cbn [bind check_stmt_calls]. rewrite Hc. reflexivity. }
  induction keys as [|k keys IH]; [exists []; split; reflexivity|].
  cbn [remove_typed forallb] in H, Hs. apply andb_true_iff in H. destruct H as [Hk Hr].
  apply andb_true_iff in Hk. destruct Hk as [Hsn Hp]. apply andb_true_iff in Hs. destruct Hs as [Hsk Hsr].
  unfold is_strnum in Hsn. destruct (infer fo no_env (Mode false false) k) as [t|] eqn:Hi; [|discriminate].
  destruct (complete_expr0 fo true true k t false Hi Hp Hsk) as [k1 [Hk1 [Hc Hty]]].
  destruct (IH Hr Hsr) as [r2 [Hr2 Hcr]].
  pose proof (check_nil_id fo _ _ _ _ Hk1) as Hid. subst k1.
  exists (k :: r2). cbn [check_keys calls_keys].
  replace (strnum_or k) with (@Ok unit tt)
    by (symmetry; apply strnum_or_ok; rewrite <- strnum_sty_of, Hty; exact Hsn).
  cbn [bind]. rewrite Hk1. cbn [bind]. rewrite Hr2. cbn [bind]. rewrite Hc, Hcr. split; reflexivity.
Qed.

(* PUT *)
Lemma put_sound : forall pairs s2,
  build_check fo true (SPut pairs) = Ok s2 ->
  forallb (fun kv => no_refs (fst kv) && no_refs (snd kv)) pairs = true -> stmt_params_static s2 = true ->
  put_typed fo pairs = true.
Proof.
  intros pairs s2 H Hn Hps. unfold build_check in H. inv_bind H as s1 Hs1 H. inv_bind H as u Hc H. inversion H; subst s2. clear H.
  cbn [check_stmt] in Hs1. inv_bind Hs1 as p2 Hp2 Hs1. inversion Hs1; subst s1. clear Hs1.
  cbn [check_stmt_calls] in Hc. cbn [stmt_params_static] in Hps. destruct u.
  revert p2 Hp2 Hc Hps Hn. induction pairs as [|[k v] pairs IH]; intros p2 Hp2 Hc Hps Hn; [reflexivity|].
  cbn [check_pairs] in Hp2. inv_bind Hp2 as kv2 Hkv Hp2. inv_bind Hp2 as r2 Hr2 Hp2. inversion Hp2; subst p2. clear Hp2.
  unfold check_pair in Hkv. cbn [fst snd] in Hkv.
  inv_bind Hkv as k2 Hk2 Hkv. inv_bind Hkv as u1 Hsk Hkv. inv_bind Hkv as v2 Hv2 Hkv. inv_bind Hkv as u2 Hsv Hkv.
  inversion Hkv; subst kv2. clear Hkv.
  cbn [calls_pairs] in Hc. inv_bind Hc as u3 Hck Hc. inv_bind Hc as u4 Hcv Hc. destruct u1, u2, u3, u4.
  cbn [forallb fst snd] in Hps, Hn. apply andb_true_iff in Hps. destruct Hps as [Hpkv Hpr].
  apply andb_true_iff in Hpkv. destruct Hpkv as [Hpk Hpv].
  apply andb_true_iff in Hn. destruct Hn as [Hnkv Hnr]. apply andb_true_iff in Hnkv. destruct Hnkv as [Hnk Hnv].
  destruct (sound_expr0 fo true true k k2 false Hnk Hk2 Hck Hpk) as [Hik Hpk'].
  destruct (sound_expr0 fo false true v v2 false Hnv Hv2 Hcv Hpv) as [Hiv Hpv'].
  apply strnum_or_ok in Hsk, Hsv.
  cbn [put_typed forallb fst snd]. unfold is_strnum. cbn [negb] in Hik, Hiv.
  rewrite Hik, Hiv, !strnum_sty_of, Hsk, Hsv, Hpk', Hpv'. cbn [andb]. exact (IH r2 Hr2 Hc Hpr Hnr).
Qed.

Lemma put_complete : forall pairs,
  put_typed fo pairs = true ->
  forallb (fun kv => no_same_field (fst kv) && no_same_field (snd kv)) pairs = true ->
  exists s2, build_check fo true (SPut pairs) = Ok s2.
Proof.
  intros pairs H Hs.
  enough (Hk : exists p2, check_pairs fo true pairs = Ok p2 /\ calls_pairs p2 = Ok tt).
  { destruct Hk as [p2 [Hp2 Hc]]. exists (SPut p2). unfold build_check. cbn [check_stmt]. rewrite Hp2.
    cbn [bind check_stmt_calls]. rewrite Hc. reflexivity. }
  induction pairs as [|[k v] pairs IH]; [exists []; split; reflexivity|].
  cbn [put_typed forallb fst snd] in H, Hs. apply andb_true_iff in H. destruct H as [Hkv Hr].
  apply andb_true_iff in Hkv. destruct Hkv as [Hkv Hpv]. apply andb_true_iff in Hkv. destruct Hkv as [Hkv Hsv].
  apply andb_true_iff in Hkv. destruct Hkv as [Hsk Hpk].
  apply andb_true_iff in Hs. destruct Hs as [Hskv Hsr]. apply andb_true_iff in Hskv. destruct Hskv as [Hsfk Hsfv].
  unfold is_strnum in Hsk, Hsv.
  destruct (infer fo no_env (Mode false false) k) as [tk|] eqn:Hik; [|discriminate].
  destruct (infer fo no_env (Mode true false) v) as [tv|] eqn:Hiv; [|discriminate].
  destruct (complete_expr0 fo true true k tk false Hik Hpk Hsfk) as [k2 [Hk2 [Hck Htk]]].
  destruct (complete_expr0 fo false true v tv false Hiv Hpv Hsfv) as [v2 [Hv2 [Hcv Htv]]].
  destruct (IH Hr Hsr) as [r2 [Hr2 Hcr]].
  exists ((k2, v2) :: r2). cbn [check_pairs calls_pairs]. unfold check_pair. cbn [fst snd].
  rewrite Hk2. cbn [bind].
  replace (strnum_or k2) with (@Ok unit tt)
    by (symmetry; apply strnum_or_ok; rewrite <- strnum_sty_of, Htk; exact Hsk).
  cbn [bind]. rewrite Hv2. cbn [bind].
  replace (strnum_or v2) with (@Ok unit tt)
    by (symmetry; apply strnum_or_ok; rewrite <- strnum_sty_of, Htv; exact Hsv).
  cbn [bind]. rewrite Hr2. cbn [bind]. rewrite Hck. cbn [bind]. rewrite Hcv, Hcr. split; reflexivity.
Qed.

End StmtProofs.
