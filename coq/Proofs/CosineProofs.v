(* Proofs/CosineProofs.v -- cosine_distance equals its documented formula
   1 - (sum a_i*b_i) / (sqrt(sum a_i^2) * sqrt(sum b_i^2)), each sum a left fold in index order
   starting from 0, over the abstract float operations (no float laws used). *)
From Coq Require Import List String ZArith Bool Arith.
Import ListNotations.
From KV Require Import Base.Bytes Model.Ast Model.Value Model.Eval.

Section Cosine.
Variable fo : fops.

Lemma dot3_folds (l r : list (F fo)) : forall t1 t2 t3,
  List.length l = List.length r ->
  dot3 fo l r t1 t2 t3 =
    (fold_left (fun t ab => fadd fo t (fmul fo (fst ab) (snd ab))) (combine l r) t1,
     fold_left (fun t a => fadd fo t (fmul fo a a)) l t2,
     fold_left (fun t b => fadd fo t (fmul fo b b)) r t3).
Proof.
  revert r. induction l as [|a l IH]; intros [|b r] t1 t2 t3 H; cbn in H; try discriminate; cbn; [reflexivity|].
  apply IH. now injection H.
Qed.

Theorem cosine_distance_formula (l r : list (F fo)) :
  List.length l = List.length r ->
  cosine_distance fo l r =
    Ok (fsub fo (f_one fo)
          (fdiv fo (fold_left (fun t ab => fadd fo t (fmul fo (fst ab) (snd ab))) (combine l r) (f_zero fo))
                   (fmul fo (fsqrt fo (fold_left (fun t a => fadd fo t (fmul fo a a)) l (f_zero fo)))
                            (fsqrt fo (fold_left (fun t b => fadd fo t (fmul fo b b)) r (f_zero fo)))))).
Proof.
  intros H. unfold cosine_distance. rewrite H, Nat.eqb_refl. rewrite (dot3_folds l r _ _ _ H). reflexivity.
Qed.

End Cosine.
