(* Proofs/DeleteProofs.v -- DELETE removes exactly what its WHERE (and LIMIT) selects (C11):
     - [delete_execute_sem]: the scan-and-delete loop of DeletePlan on a store whose cursors are
       snapshots: what a plan state still delivers does not change when pairs it has already
       delivered are deleted, so the loop deletes exactly the rows SELECT would return;
     - [delete_exact_lemma]: the whole statement (BuildPlan's two Init calls, the polls);
     - [remove_plan_effect], [delete_strategy_irrelevant_lemma]: the RemovePlan shortcut;
     - [optimize_mget_exact]: the optimizer only takes the shortcut when the filter is true on
       exactly the listed keys;
     - [live_cursor_refuted_lemma]: with cursors that are positions in the live data the
       statement is false;
     - [history_refines_map_lemma]: statement sequences against a map. *)
From Coq Require Import List String Bool Arith Lia.
Import ListNotations.
From KV Require Import Base.Bytes Base.Ord Model.Ast Model.Storage Model.Write Model.ScanIO
                       Model.FilterOpt Model.ScanSem Model.Delete Spec.KeySem
                       Proofs.StorageProofs Proofs.WriteProofs Proofs.ScanIOProofs Proofs.ScanIOFuel
                       Proofs.FilterOptProofs Proofs.ShortcutProofs Proofs.ScanSemProofs.

Set Implicit Arguments.
Local Open Scope list_scope.
Local Open Scope nat_scope.

(* ------------------------------------------------------------------ the log of a DELETE *)

Definition no_put (c : scall) : bool :=
  match c with CPut _ _ | CBatchPut _ => false | _ => true end.

(* the keys handed to Delete / BatchDelete, in order *)
Definition deleted_keys (l : list scall) : list bytes :=
  flat_map (fun c => match c with CBatchDelete ks => ks | CDelete k => [k] | _ => [] end) l.

Lemma deleted_keys_app : forall a b, deleted_keys (a ++ b) = deleted_keys a ++ deleted_keys b.
Proof. intros. unfold deleted_keys. apply flat_map_app. Qed.

Lemma log_ok_reads : forall sc l, log_ok sc l -> deleted_keys l = [] /\ forallb no_put l = true.
Proof.
  intros sc l H. destruct sc as [| |p|lo hi|keys]; cbn [log_ok] in H.
  - subst. auto.
  - induction l as [|c l IH]; [auto|]. cbn [forallb] in H. apply andb_true_iff in H.
    destruct H as [H1 H2]. destruct c; try discriminate H1. cbn. apply IH. exact H2.
  - induction l as [|c l IH]; [auto|]. cbn [forallb] in H. apply andb_true_iff in H.
    destruct H as [H1 H2]. destruct c; try discriminate H1. cbn. apply IH. exact H2.
  - induction l as [|c l IH]; [auto|]. cbn [forallb] in H. apply andb_true_iff in H.
    destruct H as [H1 H2]. destruct c; try discriminate H1. cbn. apply IH. exact H2.
  - induction H as [|c l [k [-> _]] _ IH]; [auto|]. cbn. exact IH.
Qed.

Lemma init_calls_reads : forall l, forallb is_init_call l = true -> deleted_keys l = [] /\ forallb no_put l = true.
Proof.
  induction l as [|c l IH]; intros H; [auto|]. cbn [forallb] in H. apply andb_true_iff in H.
  destruct H as [H1 H2]. destruct c; try discriminate H1; cbn; apply IH; exact H2.
Qed.

Lemma nodup_app_disjoint : forall (A : Type) (a b : list A) x, NoDup (a ++ b) -> In x a -> ~ In x b.
Proof.
  intros A a. induction a as [|y a IH]; intros b x N Hin; [destruct Hin|].
  cbn [app] in N. inversion N as [|? ? Hn N']. subst. destruct Hin as [->|Hin].
  - intros Hb. apply Hn. apply in_or_app. right. exact Hb.
  - apply IH; assumption.
Qed.

(* the read calls of a log *)
Definition reads (l : list scall) : list scall := filter (fun c => negb (is_write c)) l.

Lemma reads_app : forall a b, reads (a ++ b) = reads a ++ reads b.
Proof. intros. unfold reads. apply filter_app. Qed.

Lemma log_ok_reads_id : forall sc l, log_ok sc l -> reads l = l.
Proof.
  intros sc l H. unfold reads. apply filter_all_true. intros c Hc.
  destruct sc as [| |p|lo hi|keys]; cbn [log_ok] in H.
  - subst. destruct Hc.
  - rewrite forallb_forall in H. specialize (H c Hc). destruct c; try discriminate H; reflexivity.
  - rewrite forallb_forall in H. specialize (H c Hc). destruct c; try discriminate H; reflexivity.
  - rewrite forallb_forall in H. specialize (H c Hc). destruct c; try discriminate H; reflexivity.
  - rewrite Forall_forall in H. destruct (H c Hc) as [k [-> _]]. reflexivity.
Qed.

Lemma init_calls_reads_id : forall l, forallb is_init_call l = true -> reads l = l.
Proof.
  intros l H. unfold reads. apply filter_all_true. intros c Hc.
  rewrite forallb_forall in H. specialize (H c Hc). destruct c; try discriminate H; reflexivity.
Qed.

(* ------------------------------------------------------------------ the scan-and-delete loop *)

Section DeleteSem.
Variable flt : kvp -> bool.
Variable B : nat.
Variable fuel : nat.
Hypothesis HB : 1 <= B.

Lemma delete_execute_sem : forall f c cst count d, wfst c cst ->
  wspec (delete_execute true flt B fuel f c cst count) d (fun x d' l =>
    d' = sdel_all (map fst (R flt c cst d)) d /\
    fst x = count + List.length (R flt c cst d) /\
    deleted_keys l = map fst (R flt c cst d) /\ forallb no_put l = true /\
    lstep c cst (reads l) (snd x)).
Proof.
  induction f as [|f IH]; intros c cst count d W; cbn [delete_execute]; [reflexivity|].
  apply wspec_bind. apply wspec_rd.
  eapply rspec_mono; [|apply (@plan_batch_sem flt B fuel HB); exact W]. cbn beta.
  intros [rows cst'] l [W' [LS [[con [C1 C2]] [HR HE]]]]. cbn [fst snd] in *.
  pose proof LS as [L _].
  destruct (log_ok_reads _ _ L) as [D1 D2].
  pose proof (log_ok_reads_id _ _ L) as RL.
  destruct rows as [|r0 rows].
  - cbn [wspec fst snd]. rewrite app_nil_r. specialize (HE eq_refl). rewrite HR, HE. cbn [app map List.length].
    rewrite Nat.add_0_r, RL. auto.
  - set (rws := r0 :: rows) in *.
    cbn [op_batch_delete bind wspec answer effect entry].
    assert (Hfr : R flt c cst' (sdel_all (map fst rws) d) = R flt c cst' d).
    { apply R_frame; [exact W'|]. intros k Hk Hin.
      apply in_map_iff in Hk. destruct Hk as [kv [<- Hkv]].
      pose proof (nodupk_Rall flt c cst d W) as N. unfold nodupk in N. rewrite C1, map_app in N.
      eapply nodup_app_disjoint; [exact N| |exact Hin].
      apply in_map. apply C2. exact Hkv. }
    eapply wspec_mono; [|apply IH; exact W']. cbn beta.
    intros [n cst''] d' l2 [E1 [E2 [E3 [E4 E5]]]]. cbn [fst snd] in *. rewrite Hfr in *.
    split; [rewrite E1, HR, map_app, sdel_all_app; reflexivity|].
    split; [rewrite E2, HR, app_length; lia|].
    split.
    { rewrite deleted_keys_app, D1. cbn [app deleted_keys flat_map]. fold (deleted_keys l2).
      rewrite E3, HR, map_app. reflexivity. }
    split; [rewrite forallb_app, D2; cbn [forallb no_put andb]; exact E4|].
    rewrite reads_app, RL. cbn [reads filter is_write negb]. fold (reads l2).
    eapply lstep_trans; eassumption.
Qed.

(* the caller's polls: the first executes, the second finds the plan executed *)
Lemma delete_drain_sem : forall f c cst sizes d, wfst c cst ->
  wspec (delete_drain true flt B fuel f c false cst sizes) d (fun res d' l =>
    res = sizes ++ [1] /\
    d' = sdel_all (map fst (R flt c cst d)) d /\
    deleted_keys l = map fst (R flt c cst d) /\ forallb no_put l = true /\
    exists cst', lstep c cst (reads l) cst').
Proof.
  intros f c cst sizes d W. destruct f as [|f]; cbn [delete_drain]; [reflexivity|].
  unfold delete_poll at 1. cbn [negb]. apply wspec_bind. apply wspec_bind.
  eapply wspec_mono; [|apply delete_execute_sem; exact W]. cbn beta.
  intros [n cst'] d' l [E1 [_ [E3 [E4 E5]]]]. cbn [wspec snd] in *. rewrite !app_nil_r.
  destruct f as [|f]; cbn [delete_drain]; [reflexivity|].
  unfold delete_poll. cbn [negb bind wspec]. rewrite app_nil_r. eauto 10.
Qed.

Lemma delete_prog_sem : forall c d, ssorted d -> keys_ok c ->
  wspec (delete_prog true flt B fuel c) d (fun res d' l =>
    res = [1] /\
    d' = sdel_all (map fst (Rsel flt c d)) d /\
    deleted_keys l = map fst (Rsel flt c d) /\ forallb no_put l = true /\
    reads_ok (leaf c) (reads l)).
Proof.
  intros c d S K. unfold delete_prog, delete_init.
  apply wspec_bind. apply wspec_bind. apply wspec_rd.
  eapply rspec_mono; [|apply (@plan_init_sem flt); [exact S|apply fresh_pstate0; exact K]]. cbn beta.
  intros st1 l1 [_ [F1 [I1 [J1 _]]]]. cbn [wspec]. rewrite app_nil_r.
  apply wspec_bind. apply wspec_bind. apply wspec_rd.
  eapply rspec_mono; [|apply (@plan_init_sem flt); [exact S|exact F1]]. cbn beta.
  intros st2 l2 [W [_ [I2 [J2 [HR [_ HP]]]]]]. cbn [wspec]. rewrite app_nil_r.
  eapply wspec_mono; [|apply delete_drain_sem; exact W]. cbn beta.
  intros res d' l3 [E1 [E2 [E3 [E4 [cst' E5]]]]]. rewrite HR in *.
  destruct (init_calls_reads _ I1) as [A1 A2]. destruct (init_calls_reads _ I2) as [B1 B2].
  split; [exact E1|]. split; [exact E2|].
  split; [rewrite !deleted_keys_app, A1, B1; exact E3|].
  split; [rewrite !forallb_app, A2, B2; exact E4|].
  rewrite !reads_app, (init_calls_reads_id _ I1), (init_calls_reads_id _ I2), app_assoc.
  apply (@drained_reads_ok B HB c d st2 (l1 ++ l2) (reads l3) cst').
  - rewrite forallb_app, I1, I2. reflexivity.
  - intros E. rewrite (J1 E), (J2 E). reflexivity.
  - exact HP.
  - exact E5.
Qed.

End DeleteSem.

(* ------------------------------------------------------------------ DELETE is exact *)

Theorem delete_exact_lemma : forall (flt : kvp -> bool) (B fuel : nat) (c : plan) (d : store) (l0 : list scall),
  1 <= B -> ssorted d -> keys_ok c -> List.length d + plan_keys c + 2 <= fuel ->
  let sel := Rsel flt c d in
  exists s', run exec_req (delete_prog true flt B fuel c) (SState d l0 None) = (Ok [1], s') /\
    sdata s' = filter (fun kv => negb (mem (fst kv) (map fst sel))) d /\
    (forall k, sget k (sdata s') = if mem k (map fst sel) then None else sget k d) /\
    ssorted (sdata s') /\ sfault s' = None /\
    exists ext, slog s' = l0 ++ ext /\ forallb no_put ext = true /\ deleted_keys ext = map fst sel /\
                reads_ok (leaf c) (reads ext).
Proof.
  intros flt B fuel c d l0 HB S K Hf sel.
  destruct (@wspec_total (List.length d) _ (delete_prog true flt B fuel c) d
              (fun res d' l => res = [1] /\ d' = sdel_all (map fst sel) d /\
                               deleted_keys l = map fst sel /\ forallb no_put l = true /\
                               reads_ok (leaf c) (reads l)) l0)
    as [res [s' [E [ext [[-> [E2 [E3 [E4 E6]]]] [El Efl]]]]]].
  - apply delete_prog_sem; assumption.
  - apply delete_prog_spec; [exact HB| |lia]. pose proof (bound_plan_le (List.length d) c). lia.
  - lia.
  - exists s'. split; [exact E|]. rewrite E2.
    split; [apply sdel_all_filter|]. split; [intros k; apply sget_sdel_all|].
    split; [apply ssorted_sdel_all; exact S|]. split; [exact Efl|]. exists ext. auto.
Qed.

(* ------------------------------------------------------------------ the RemovePlan shortcut *)

Lemma keys_eval_lit : forall ks, keys_eval ev_lit ks ks.
Proof. induction ks as [|k ks IH]; constructor; [reflexivity|exact IH]. Qed.

Lemma pairs_eval_lit : forall kvs, pairs_eval ev_lit kvs kvs.
Proof. induction kvs as [|kv kvs IH]; constructor; [split; reflexivity|exact IH]. Qed.

Lemma remove_plan_effect : forall flt B fuel keys d l0,
  run_delete flt B fuel (DRemove keys) (SState d l0 None)
  = SState (sdel_all keys d) (l0 ++ remove_call keys) None.
Proof.
  intros flt B fuel keys d l0. cbn [run_delete].
  rewrite (wexec_remove_ok PNext [PNext] (SState d l0 None) (keys_eval_lit keys) eq_refl). reflexivity.
Qed.

(* the same final store whether the keys are deleted without looking (RemovePlan) or read,
   filtered and deleted batch by batch (DeletePlan over MultiGetPlan), provided the filter is
   true on every listed key that is present *)
Theorem delete_strategy_irrelevant_lemma : forall (flt : kvp -> bool) (B fuel : nat) (keys : list bytes) (d : store),
  1 <= B -> ssorted d -> ksorted keys -> List.length d + List.length keys + 2 <= fuel ->
  (forall kv, In kv d -> In (fst kv) keys -> flt kv = true) ->
  sdata (run_delete flt B fuel (DRemove keys) (sinit d None))
  = sdata (run_delete flt B fuel (DScan (PScan (SMget keys))) (sinit d None)).
Proof.
  intros flt B fuel keys d HB S K Hf Hflt. unfold sinit. rewrite remove_plan_effect. cbn [sdata run_delete].
  destruct (@delete_exact_lemma flt B fuel (PScan (SMget keys)) d [] HB S K Hf) as [s' [E [E2 _]]].
  rewrite E. cbn [snd]. rewrite E2, sdel_all_filter. apply filter_ext_in. intros kv Hin. f_equal.
  cbn [Rsel region_of covers].
  destruct (mem (fst kv) keys) eqn:Em.
  - symmetry. apply mem_in. apply in_map. apply filter_In. split.
    + apply filter_In. split; [exact Hin|exact Em].
    + apply Hflt; [exact Hin|]. apply mem_in. exact Em.
  - destruct (mem (fst kv) (map fst (filter flt (filter (fun kv0 => mem (fst kv0) keys) d)))) eqn:E3; [|reflexivity].
    apply mem_in in E3. apply in_map_iff in E3. destruct E3 as [kv' [Ek Hk]].
    apply filter_In in Hk. destruct Hk as [Hk _]. apply filter_In in Hk. destruct Hk as [_ Hk].
    rewrite Ek in Hk. rewrite Hk in Em. discriminate.
Qed.

(* ------------------------------------------------------------------ the whole statement, from the filter *)

Definition limit_slice (A : Type) (limit : option (nat * nat)) (l : list A) : list A :=
  match limit with
  | None => l
  | Some (s, n) => firstn n (skipn s l)
  end.

Definition dplan_keys (dp : dplan) : nat :=
  match dp with DScan c => plan_keys c | DRemove _ => 0 end.

Lemma run_dscan_exact : forall flt B fuel c d,
  1 <= B -> ssorted d -> keys_ok c -> List.length d + plan_keys c + 2 <= fuel ->
  sdata (run_delete flt B fuel (DScan c) (sinit d None))
  = filter (fun kv => negb (mem (fst kv) (map fst (Rsel flt c d)))) d.
Proof.
  intros flt B fuel c d HB S K Hf. cbn [run_delete]. unfold sinit.
  destruct (@delete_exact_lemma flt B fuel c d [] HB S K Hf) as [s' [E [E2 _]]].
  rewrite E. exact E2.
Qed.

Lemma Rsel_region : forall opq e d,
  Rsel (FilterOptProofs.accepts opq e) (PScan (scan_of_region (optimize e))) d
  = filter (FilterOptProofs.accepts opq e) d.
Proof.
  intros opq e d. cbn [Rsel].
  rewrite (filter_ext _ (fun kv => covers (optimize e) (fst kv))) by (intros kv; apply covers_scan_of_region).
  apply FilterOptProofs.narrowed_eq_full_lemma.
Qed.

(* delete where e [limit s, n], as BuildPlan plans it and the caller polls it, on a sorted
   store with snapshot cursors: the store loses exactly the pairs on which e is true under the
   reference semantics (sliced by LIMIT in key order), whichever plan the optimizer chose *)
Theorem delete_statement_exact_lemma :
  forall (opq : bytes -> bytes -> expr -> option bool) (e : expr) (limit : option (nat * nat))
         (B fuel : nat) (d : store),
  1 <= B -> ssorted d -> List.length d + dplan_keys (build_delete e limit) + 2 <= fuel ->
  let flt := FilterOptProofs.accepts opq e in
  let sel := limit_slice limit (filter flt d) in
  sdata (run_delete flt B fuel (build_delete e limit) (sinit d None))
  = filter (fun kv => negb (mem (fst kv) (map fst sel))) d.
Proof.
  intros opq e limit B fuel d HB S Hf flt sel.
  assert (Hgen : forall c, build_delete e limit = DScan c ->
            keys_ok c -> plan_keys c = dplan_keys (build_delete e limit) ->
            Rsel flt c d = sel ->
            sdata (run_delete flt B fuel (build_delete e limit) (sinit d None))
            = filter (fun kv => negb (mem (fst kv) (map fst sel))) d).
  { intros c Eb K Ek Er. rewrite Eb. rewrite run_dscan_exact; [rewrite Er; reflexivity|exact HB|exact S|exact K|lia]. }
  pose proof (Rsel_region opq e d) as HR. fold flt in HR.
  pose proof (keys_ok_scan_of_region (optimize e)) as HK.
  unfold build_delete in *. set (sc := scan_of_region (optimize e)) in *.
  assert (Hlim : forall s n, Rsel flt (PLimit s n (PScan sc)) d = limit_slice (Some (s, n)) (filter flt d)).
  { intros s n. cbn [Rsel limit_slice] in *. rewrite HR. reflexivity. }
  destruct sc as [| |p|lo hi|keys] eqn:Esc.
  - (* EmptyResultPlan: LIMIT ignored; nothing passes the filter *)
    apply Hgen with (c := PScan SEmpty); try reflexivity; try exact I.
    rewrite HR. unfold sel. cbn [Rsel region_of covers] in HR.
    rewrite (@filter_all_false kvp _ d) in HR by (intros; reflexivity). cbn [filter] in HR.
    rewrite <- HR. destruct limit as [[s n]|]; cbn [limit_slice]; [rewrite skipn_nil, firstn_nil|]; reflexivity.
  - destruct limit as [[s n]|].
    + apply Hgen with (c := PLimit s n (PScan SFull)); try reflexivity; try exact I; apply Hlim.
    + apply Hgen with (c := PScan SFull); try reflexivity; try exact I; exact HR.
  - destruct limit as [[s n]|].
    + apply Hgen with (c := PLimit s n (PScan (SPrefix p))); try reflexivity; try exact I; apply Hlim.
    + apply Hgen with (c := PScan (SPrefix p)); try reflexivity; try exact I; exact HR.
  - destruct limit as [[s n]|].
    + apply Hgen with (c := PLimit s n (PScan (SRange lo hi))); try reflexivity; try exact I; apply Hlim.
    + apply Hgen with (c := PScan (SRange lo hi)); try reflexivity; try exact I; exact HR.
  - destruct limit as [[s n]|].
    + apply Hgen with (c := PLimit s n (PScan (SMget keys))); try reflexivity; try exact HK; apply Hlim.
    + destruct (has_and e) eqn:Ea; cbn [negb].
      * apply Hgen with (c := PScan (SMget keys)); try reflexivity; try exact HK; exact HR.
      * (* the RemovePlan shortcut *)
        unfold sinit. rewrite remove_plan_effect. cbn [sdata]. rewrite sdel_all_filter.
        unfold sel. cbn [limit_slice]. apply filter_ext_in. intros kv Hin. f_equal.
        destruct (optimize e) as [|ks|q|a b|] eqn:Ho; try discriminate Esc.
        cbn [scan_of_region] in Esc. injection Esc as <-. rewrite mget_keys_mem.
        assert (Hflt : forall kv', flt kv' = mem (fst kv') ks).
        { intros [k' v']. unfold flt, FilterOptProofs.accepts. cbn [fst snd].
          rewrite (ShortcutProofs.optimize_mget_exact (opq k' v') e ks Ea Ho k' v').
          destruct (mem k' ks); reflexivity. }
        destruct (mem (fst kv) ks) eqn:Em.
        -- symmetry. apply mem_in. apply in_map. apply filter_In. split; [exact Hin|]. rewrite Hflt. exact Em.
        -- destruct (mem (fst kv) (map fst (filter flt d))) eqn:E3; [|reflexivity].
           apply mem_in in E3. apply in_map_iff in E3. destruct E3 as [kv' [Ek Hk]].
           apply filter_In in Hk. destruct Hk as [_ Hk]. rewrite Hflt, Ek, Em in Hk. discriminate.
Qed.

(* ------------------------------------------------------------------ why snapshot cursors *)

Local Open Scope string_scope.

(* delete where true, batch size 1, on four pairs: with a cursor that is a position in the live
   data every deletion shifts the data under the cursor and every second pair survives, while
   the statement selects (and, with snapshot cursors, deletes) all four *)
Lemma live_cursor_refuted_lemma :
  exists (B : nat) (d : store),
    1 <= B /\ ssorted d /\
    Rsel (fun _ => true) (PScan SFull) d = d /\
    live_delete_execute (S (List.length d)) B 0 d
    <> filter (fun kv => negb (mem (fst kv) (map fst (Rsel (fun _ => true) (PScan SFull) d)))) d.
Proof.
  exists 1, [("a","1"); ("b","2"); ("c","3"); ("d","4")].
  split; [lia|]. split; [cbn; auto|]. split; [reflexivity|]. vm_compute. discriminate.
Qed.

(* ------------------------------------------------------------------ statement sequences vs. a map *)

Local Open Scope list_scope.

(* point-read keys of the plan are sorted and distinct (NewMultiGetPlan) *)
Definition dkeys_ok (dp : dplan) : Prop :=
  match dp with DScan c => keys_ok c | DRemove _ => True end.

(* the keys a DELETE plan removes from a sorted store *)
Definition ddeleted (flt : kvp -> bool) (dp : dplan) (d : store) : list bytes :=
  match dp with
  | DScan c => map fst (Rsel flt c d)
  | DRemove keys => keys
  end.

(* reference semantics of one statement on a map; [d] is the sorted listing of the map *)
Inductive hstep_spec : hstmt -> kvmap -> kvmap -> Prop :=
  | hs_put : forall kvs m, hstep_spec (HPut kvs) m (fun k => last_binding k kvs (m k))
  | hs_remove : forall ks m,
      hstep_spec (HRemove ks) m (fun k => if existsb (String.eqb k) ks then None else m k)
  | hs_delete : forall flt B fuel dp m d,
      ssorted d -> (forall k, sget k d = m k) ->
      1 <= B -> dkeys_ok dp -> List.length d + dplan_keys dp + 2 <= fuel ->
      hstep_spec (HDelete flt B fuel dp) m (fun k => if mem k (ddeleted flt dp d) then None else m k)
  | hs_select : forall flt B fuel md p m d,
      ssorted d -> (forall k, sget k d = m k) ->
      1 <= B -> keys_ok p -> List.length d + plan_keys p < fuel ->
      hstep_spec (HSelect flt B fuel md p) m m.

Inductive hseq_spec : list hstmt -> kvmap -> kvmap -> Prop :=
  | hseq_nil : forall m, hseq_spec [] m m
  | hseq_cons : forall h hs m m1 m2,
      hstep_spec h m m1 -> hseq_spec hs m1 m2 -> hseq_spec (h :: hs) m m2.

Lemma run_hstmt_refines : forall h s m m',
  sfault s = None -> ssorted (sdata s) -> agrees s m -> hstep_spec h m m' ->
  sfault (run_hstmt s h) = None /\ ssorted (sdata (run_hstmt s h)) /\ agrees (run_hstmt s h) m'.
Proof.
  intros h [d0 l0 f0] m m' Hf S Ha Hs. cbn [sfault sdata] in *. subst f0.
  unfold agrees in *. cbn [sdata] in Ha.
  inversion Hs as [kvs m0|ks m0|flt B fuel dp m0 d Sd Hd HB K Hfu|flt B fuel md p m0 d Sd Hd HB K Hfu]; subst.
  - cbn [run_hstmt]. rewrite (wexec_put_ok PNext [PNext] (SState d0 l0 None) (pairs_eval_lit kvs) eq_refl).
    cbn [snd sfault sdata]. split; [reflexivity|]. split; [apply ssorted_sput_all; exact S|].
    intros k. rewrite sget_sput_all, Ha. reflexivity.
  - cbn [run_hstmt]. rewrite (wexec_remove_ok PNext [PNext] (SState d0 l0 None) (keys_eval_lit ks) eq_refl).
    cbn [snd sfault sdata]. split; [reflexivity|]. split; [apply ssorted_sdel_all; exact S|].
    intros k. rewrite sget_sdel_all, Ha. reflexivity.
  - assert (d = d0) as -> by (apply ssorted_ext; [exact Sd|exact S|intros k; rewrite Hd, Ha; reflexivity]).
    cbn [run_hstmt]. destruct dp as [c|keys]; cbn [dkeys_ok dplan_keys ddeleted] in *.
    + cbn [run_delete].
      destruct (@delete_exact_lemma flt B fuel c d0 l0 HB S K Hfu) as [s' [E [_ [E3 [E4 [E5 _]]]]]].
      rewrite E. cbn [snd]. split; [exact E5|]. split; [exact E4|].
      intros k. rewrite E3, Ha. reflexivity.
    + rewrite remove_plan_effect. cbn [sfault sdata]. split; [reflexivity|].
      split; [apply ssorted_sdel_all; exact S|]. intros k. rewrite sget_sdel_all, Ha. reflexivity.
  - assert (d = d0) as -> by (apply ssorted_ext; [exact Sd|exact S|intros k; rewrite Hd, Ha; reflexivity]).
    cbn [run_hstmt]. destruct md.
    + destruct (@scan_rows_row_lemma flt fuel p d0 l0 S K Hfu) as [l [E _]]. rewrite E. cbn [snd sfault sdata]. auto.
    + destruct (@scan_rows_batch_lemma flt B fuel p d0 l0 HB S K Hfu) as [outs [l [E _]]]. rewrite E. cbn [snd sfault sdata]. auto.
Qed.

Theorem history_refines_map_lemma : forall hs s m m',
  sfault s = None -> ssorted (sdata s) -> agrees s m -> hseq_spec hs m m' ->
  agrees (run_history hs s) m' /\ ssorted (sdata (run_history hs s)).
Proof.
  induction hs as [|h hs IH]; intros s m m' Hf S Ha Hs; inversion Hs; subst; cbn [run_history fold_left].
  - auto.
  - destruct (@run_hstmt_refines h s m m1 Hf S Ha) as [Hf' [S' Ha']]; [assumption|].
    apply (IH (run_hstmt s h) m1 m' Hf' S' Ha'). assumption.
Qed.

(* what a SELECT * of a history returns: the rows the same statement's DELETE would remove *)
Theorem history_select_rows_lemma : forall flt B fuel p d l0,
  1 <= B -> ssorted d -> keys_ok p -> List.length d + plan_keys p < fuel ->
  fst (run_read (select_rows true flt fuel p) (SState d l0 None)) = Ok (Rsel flt p d) /\
  exists outs, fst (run_read (select_batches true flt B fuel p) (SState d l0 None)) = Ok outs /\
               List.concat outs = Rsel flt p d.
Proof.
  intros flt B fuel p d l0 HB S K Hf.
  destruct (@scan_rows_row_lemma flt fuel p d l0 S K Hf) as [l [E _]].
  destruct (@scan_rows_batch_lemma flt B fuel p d l0 HB S K Hf) as [outs [l2 [E2 [E3 _]]]].
  rewrite E, E2. cbn [fst]. split; [reflexivity|]. exists outs. auto.
Qed.
