(* Proofs/ErrPosProofs.v -- provenance of positions (C17, part 2, over the abstract model of
   Model/ErrPos.v): the node builders of the parser / checker / folder preserve "every Pos is 0
   or a token's Pos", every sub-node of such a tree has such a Pos, and therefore an error whose
   position is -1, a token's Pos, a node's GetPos() or a statement's Pos is -1, 0 or a token
   start, and lies inside the query as soon as the lexer's token offsets do. *)
From Coq Require Import String List ZArith Bool Arith Lia.
From KV Require Import Model.Token Model.Ast Model.ErrPos Model.ErrRender Spec.CaretSpec.
Import ListNotations.

Definition tok_starts (toks : list token) : list nat := map pos toks.

(* p is 0 or the Pos of one of the tokens *)
Definition prov (toks : list token) (p : nat) : Prop := p = 0 \/ In p (tok_starts toks).
Definition expr_prov (toks : list token) (e : expr) : Prop := Forall (prov toks) (positions e).

Lemma prov_b_spec : forall toks p, prov_b (tok_starts toks) p = true <-> prov toks p.
Proof.
  intros toks p. unfold prov_b, prov. rewrite orb_true_iff, Nat.eqb_eq, existsb_exists.
  split; intros [H|H]; auto; right.
  - destruct H as [x [I E]]. apply Nat.eqb_eq in E. now subst.
  - exists p. split; [exact H | apply Nat.eqb_refl].
Qed.

Lemma expr_prov_b_spec : forall toks e,
  expr_prov_b (tok_starts toks) e = true <-> expr_prov toks e.
Proof.
  intros toks e. unfold expr_prov_b, expr_prov. rewrite forallb_forall, Forall_forall.
  split; intros H x I; apply prov_b_spec, H, I.
Qed.

Lemma prov_tok : forall toks t, In t toks -> prov toks (pos t).
Proof. intros toks t H. right. unfold tok_starts. now apply in_map. Qed.

Lemma epos_in_positions : forall e, In (epos e) (positions e).
Proof. destruct e; cbn; auto. Qed.

Lemma expr_prov_epos : forall toks e, expr_prov toks e -> prov toks (epos e).
Proof.
  intros toks e H. unfold expr_prov in H. rewrite Forall_forall in H.
  apply H, epos_in_positions.
Qed.

Lemma Forall_flat_map : forall (P : nat -> Prop) (l : list expr),
  Forall (fun e => Forall P (positions e)) l -> Forall P (flat_map positions l).
Proof.
  intros P l H. induction H as [|e l He Hl IH]; cbn; [constructor|].
  apply Forall_app. split; assumption.
Qed.

(* ---------------------------------------------------------------- the builders preserve it *)

Lemma mk_operand_prov : forall toks t e, In t toks -> mk_operand t = Some e -> expr_prov toks e.
Proof.
  intros toks t e I H. unfold mk_operand in H.
  destruct (tp t); inversion H; subst; (constructor; [now apply prov_tok | constructor]).
Qed.

Lemma mk_binop_prov : forall toks t o x y,
  In t toks -> expr_prov toks x -> expr_prov toks y -> expr_prov toks (mk_binop t o x y).
Proof.
  intros toks t o x y I X Y. unfold expr_prov, mk_binop. cbn [positions].
  constructor; [now apply prov_tok | apply Forall_app; split; assumption].
Qed.

Lemma mk_not_prov : forall toks t x, In t toks -> expr_prov toks x -> expr_prov toks (mk_not t x).
Proof. intros toks t x I X. constructor; [now apply prov_tok | exact X]. Qed.

Lemma mk_call_prov : forall toks f args,
  expr_prov toks f -> Forall (expr_prov toks) args -> expr_prov toks (mk_call f args).
Proof.
  intros toks f args F A. unfold expr_prov, mk_call. cbn [positions].
  constructor; [now apply expr_prov_epos|].
  apply Forall_app. split; [exact F | now apply Forall_flat_map].
Qed.

Lemma mk_access_prov : forall toks t x fld,
  In t toks -> expr_prov toks x -> expr_prov toks fld -> expr_prov toks (mk_access t x fld).
Proof.
  intros toks t x fld I X F. unfold expr_prov, mk_access. cbn [positions].
  constructor; [now apply prov_tok | apply Forall_app; split; assumption].
Qed.

Lemma mk_list_prov : forall toks t l,
  In t toks -> Forall (expr_prov toks) l -> expr_prov toks (mk_list t l).
Proof.
  intros toks t l I L. unfold expr_prov, mk_list. cbn [positions].
  constructor; [now apply prov_tok | now apply Forall_flat_map].
Qed.

Lemma star_fields_prov : forall toks, Forall (expr_prov toks) star_fields.
Proof. intros toks. repeat (constructor; [constructor; [now left | constructor] |]). constructor. Qed.

Lemma mk_ref_prov : forall toks name def,
  expr_prov toks name -> expr_prov toks def -> expr_prov toks (mk_ref name def).
Proof.
  intros toks name def N D. destruct name; cbn [mk_ref]; try exact N.
  unfold expr_prov in *. cbn [positions] in *. inversion N; subst. constructor; assumption.
Qed.

Lemma mk_folded_prov : forall toks e l, expr_prov toks e -> expr_prov toks (mk_folded e l).
Proof.
  intros toks e l H. apply expr_prov_epos in H.
  destruct l; cbn [mk_folded]; (constructor; [exact H | constructor]).
Qed.

Lemma mk_reassoc_prov : forall toks e o l r,
  expr_prov toks e -> expr_prov toks l -> expr_prov toks r -> expr_prov toks (mk_reassoc e o l r).
Proof.
  intros toks e o l r E L R. unfold expr_prov, mk_reassoc. cbn [positions].
  constructor; [now apply expr_prov_epos | apply Forall_app; split; assumption].
Qed.

(* ---------------------------------------------------------------- sub-nodes *)

Inductive child : expr -> expr -> Prop :=
  | ch_bin_l p o l r : child l (EBin p o l r)
  | ch_bin_r p o l r : child r (EBin p o l r)
  | ch_not p r : child r (ENot p r)
  | ch_call_name p n args : child n (ECall p n args)
  | ch_call_arg p n args a : In a args -> child a (ECall p n args)
  | ch_ref_def p s d : child d (ERef p s d)
  | ch_list_item p l a : In a l -> child a (EList p l)
  | ch_access_l p l f : child l (EAccess p l f)
  | ch_access_f p l f : child f (EAccess p l f).

Inductive subexpr : expr -> expr -> Prop :=
  | sub_refl e : subexpr e e
  | sub_step e c r : subexpr e c -> child c r -> subexpr e r.

Lemma child_positions : forall c r, child c r -> incl (positions c) (positions r).
Proof.
  intros c r H x I. destruct H; cbn [positions]; right;
    rewrite ?in_app_iff; auto.
  - right. apply in_flat_map. eauto.
  - apply in_flat_map. eauto.
Qed.

Lemma subexpr_positions : forall e r, subexpr e r -> incl (positions e) (positions r).
Proof.
  intros e r H. induction H as [e | e c r _ IH C]; [apply incl_refl|].
  eapply incl_tran; [exact IH | now apply child_positions].
Qed.

Lemma subexpr_prov : forall toks e r, subexpr e r -> expr_prov toks r -> expr_prov toks e.
Proof.
  intros toks e r S R. unfold expr_prov in *. rewrite Forall_forall in *.
  intros x I. apply R. eapply subexpr_positions; eauto.
Qed.

(* ---------------------------------------------------------------- error positions *)

(* the source of an error position is legitimate w.r.t. the tokens and the statement's trees *)
Definition src_ok (toks : list token) (roots : list expr) (s : err_src) : Prop :=
  match s with
  | AtEOF => True
  | AtTok t => In t toks
  | AtNode e => exists r, In r roots /\ subexpr e r
  | AtStmt p => prov toks p
  end.

Definition zstarts (toks : list token) : list Z := map Z.of_nat (tok_starts toks).

Lemma src_prov : forall toks roots s,
  Forall (expr_prov toks) roots -> src_ok toks roots s ->
  err_pos s = (-1)%Z \/ exists p, err_pos s = Z.of_nat p /\ prov toks p.
Proof.
  intros toks roots s R H. destruct s; cbn [err_pos src_ok] in *.
  - now left.
  - right. eexists. split; [reflexivity | now apply prov_tok].
  - right. destruct H as [r [I S]]. eexists. split; [reflexivity|].
    apply expr_prov_epos. eapply subexpr_prov; [exact S|].
    rewrite Forall_forall in R. now apply R.
  - right. eauto.
Qed.

Theorem err_pos_token_start : forall toks roots s,
  Forall (expr_prov toks) roots -> src_ok toks roots s ->
  pos_is_token_start (zstarts toks) (err_pos s) = true.
Proof.
  intros toks roots s R H. destruct (src_prov toks roots s R H) as [E | [p [E [Z0 | I]]]];
    unfold pos_is_token_start; rewrite E.
  - reflexivity.
  - subst p. reflexivity.
  - apply orb_true_iff. right. apply existsb_exists. exists (Z.of_nat p). split.
    + unfold zstarts. now apply in_map.
    + apply Z.eqb_refl.
Qed.

(* the lexer's offsets lie inside the query (a C16 fact, hypothesis here) *)
Definition tokens_in_query (q : string) (toks : list token) : Prop :=
  Forall (fun t => pos t < String.length q) toks.

Theorem err_pos_inside_query : forall q toks roots s,
  tokens_in_query q toks -> toks <> [] ->
  Forall (expr_prov toks) roots -> src_ok toks roots s ->
  pos_in_query q (err_pos s) = true.
Proof.
  intros q toks roots s T NE R H.
  assert (Q : 0 < String.length q).
  { destruct toks as [|t toks]; [congruence|]. inversion T; subst. lia. }
  unfold pos_in_query, zlen.
  destruct (src_prov toks roots s R H) as [E | [p [E [Z0 | I]]]]; rewrite E.
  - reflexivity.
  - subst p. apply orb_true_iff. right. apply andb_true_iff. split;
      [apply Z.leb_le | apply Z.ltb_lt]; lia.
  - unfold tok_starts in I. apply in_map_iff in I. destruct I as [t [Et It]].
    unfold tokens_in_query in T. rewrite Forall_forall in T. specialize (T t It).
    apply orb_true_iff. right. apply andb_true_iff. split;
      [apply Z.leb_le | apply Z.ltb_lt]; lia.
Qed.

(* non-vacuity: the tree the parser builds for   where key = 'a' & !(value ^= 'b')   *)
Definition ex_toks : list token :=
  [Tok WHERE "where" 0; Tok KEY "key" 6; Tok OPERATOR "=" 10; Tok STRING "a" 12;
   Tok OPERATOR "&" 16; Tok OPERATOR "!" 18; Tok LPAREN "(" 19; Tok VALUE "value" 20;
   Tok OPERATOR "^=" 26; Tok STRING "b" 29; Tok RPAREN ")" 32].
Definition ex_tree : expr :=
  mk_binop (Tok OPERATOR "&" 16) OAnd
    (mk_binop (Tok OPERATOR "=" 10) OEq (EField 6 KeyKW) (EStr 12 "a"))
    (mk_not (Tok OPERATOR "!" 18)
       (mk_binop (Tok OPERATOR "^=" 26) OPrefixMatch (EField 20 ValueKW) (EStr 29 "b"))).

Lemma ex_tree_prov : expr_prov ex_toks ex_tree.
Proof. apply expr_prov_b_spec. vm_compute. reflexivity. Qed.

Lemma ex_sub : subexpr (EStr 29 "b") ex_tree.
Proof.
  eapply sub_step; [|apply ch_bin_r]. eapply sub_step; [|apply ch_not].
  eapply sub_step; [|apply ch_bin_r]. apply sub_refl.
Qed.

(* all node builders at once: the invariant "every Pos is 0 or a token's Pos" is preserved by
   every way the parser, the checker's alias rewriting and the constant folder make a node *)
Theorem builders_preserve_prov : forall toks,
  (forall t e, In t toks -> mk_operand t = Some e -> expr_prov toks e) /\
  (forall t o x y, In t toks -> expr_prov toks x -> expr_prov toks y ->
     expr_prov toks (mk_binop t o x y)) /\
  (forall t x, In t toks -> expr_prov toks x -> expr_prov toks (mk_not t x)) /\
  (forall f args, expr_prov toks f -> Forall (expr_prov toks) args ->
     expr_prov toks (mk_call f args)) /\
  (forall t x fld, In t toks -> expr_prov toks x -> expr_prov toks fld ->
     expr_prov toks (mk_access t x fld)) /\
  (forall t l, In t toks -> Forall (expr_prov toks) l -> expr_prov toks (mk_list t l)) /\
  Forall (expr_prov toks) star_fields /\
  (forall name def, expr_prov toks name -> expr_prov toks def ->
     expr_prov toks (mk_ref name def)) /\
  (forall e l, expr_prov toks e -> expr_prov toks (mk_folded e l)) /\
  (forall e o l r, expr_prov toks e -> expr_prov toks l -> expr_prov toks r ->
     expr_prov toks (mk_reassoc e o l r)).
Proof.
  intros toks. repeat split.
  - apply mk_operand_prov.
  - apply mk_binop_prov.
  - apply mk_not_prov.
  - apply mk_call_prov.
  - apply mk_access_prov.
  - apply mk_list_prov.
  - apply star_fields_prov.
  - apply mk_ref_prov.
  - apply mk_folded_prov.
  - apply mk_reassoc_prov.
Qed.
