(* Proofs/ErrRenderProofs.v -- the error renderer (twin of errors.go after the D22 fix) never
   panics and puts the caret under the byte at the reported position, for every query, every
   position, every leading / trailing white space and every padding (C17, part 1). *)
From Coq Require Import String Ascii ZArith NArith List Bool Lia Arith.
From KV Require Import Model.ErrRender Spec.CaretSpec.
Import ListNotations.
Local Open Scope string_scope.
Local Open Scope nat_scope.

(* ------------------------------------------------------------------ strings *)

Lemma length_append : forall a b, String.length (a ++ b) = String.length a + String.length b.
Proof. induction a as [|c a IH]; intros b; cbn; [reflexivity | now rewrite IH]. Qed.

Lemma substring_length : forall s n m,
  String.length (substring n m s) = Nat.min m (String.length s - n).
Proof.
  induction s as [|c s IH]; intros n m.
  - destruct n, m; cbn; lia.
  - destruct n as [|n].
    + destruct m as [|m]; cbn [substring String.length]; [lia|].
      rewrite IH. cbn. lia.
    + cbn [substring String.length]. rewrite IH. cbn. reflexivity.
Qed.

Lemma substring_0_0 : forall s, substring 0 0 s = "".
Proof. destruct s; reflexivity. Qed.

Lemma substring_full : forall s, substring 0 (String.length s) s = s.
Proof. induction s as [|c s IH]; cbn; [reflexivity | now rewrite IH]. Qed.

Lemma substring_append_head : forall a b, substring 0 (String.length a) (a ++ b) = a.
Proof.
  induction a as [|c a IH]; intros b; cbn [String.length append].
  - apply substring_0_0.
  - cbn [substring]. now rewrite IH.
Qed.

Lemma substring_append_skip : forall a b n m,
  substring (String.length a + n) m (a ++ b) = substring n m b.
Proof. induction a as [|c a IH]; intros b n m; cbn; [reflexivity | apply IH]. Qed.

Lemma substring_append_tail : forall a b,
  substring (String.length a) (String.length b) (a ++ b) = b.
Proof.
  intros a b. replace (String.length a) with (String.length a + 0) at 1 by lia.
  rewrite substring_append_skip. apply substring_full.
Qed.

Lemma get_append_skip : forall a b k, get (String.length a + k) (a ++ b) = get k b.
Proof.
  intros a b k. replace (String.length a + k) with (k + String.length a) by lia.
  symmetry. apply append_correct2.
Qed.

Lemma get_append_left : forall a b k, k < String.length a -> get k (a ++ b) = get k a.
Proof.
  induction a as [|c a IH]; intros b k H; cbn in H; [lia|].
  destruct k as [|k]; cbn; [reflexivity | apply IH; lia].
Qed.

Lemma get_none_iff : forall s k, get k s = None <-> String.length s <= k.
Proof.
  induction s as [|c s IH]; intros k; cbn.
  - split; intros; [lia | reflexivity].
  - destruct k as [|k]; [split; [discriminate | lia]|].
    rewrite IH. lia.
Qed.

Lemma get_some_lt : forall s k a, get k s = Some a -> k < String.length s.
Proof.
  intros s k a H. destruct (le_lt_dec (String.length s) k) as [L|L]; [|exact L].
  apply get_none_iff in L. congruence.
Qed.

Lemma spaces_length : forall n, String.length (spaces n) = n.
Proof. induction n; cbn; congruence. Qed.

(* ------------------------------------------------------------------ trimming *)

Definition all_space (s : string) : Prop :=
  forall k a, get k s = Some a -> is_space a = true.

Lemma all_space_nil : all_space "".
Proof. intros k a H. destruct k; discriminate. Qed.

Lemma all_space_cons : forall c s, is_space c = true -> all_space s -> all_space (String c s).
Proof.
  intros c s Hc Hs k a H. destruct k as [|k]; cbn in H; [congruence | eapply Hs; eauto].
Qed.

Lemma trim_left_split : forall q, exists l, q = l ++ trim_left q /\ all_space l.
Proof.
  induction q as [|c q [l [E A]]]; cbn [trim_left].
  - exists "". split; [reflexivity | apply all_space_nil].
  - destruct (is_space c) eqn:Hc.
    + exists (String c l). split; [cbn; congruence | now apply all_space_cons].
    + exists "". split; [reflexivity | apply all_space_nil].
Qed.

Lemma trim_right_split : forall s, exists r, s = trim_right s ++ r /\ all_space r.
Proof.
  induction s as [|c s [r [E A]]]; cbn [trim_right].
  - exists "". split; [reflexivity | apply all_space_nil].
  - destruct (trim_right s) as [|d t] eqn:T.
    + cbn in E. subst r. destruct (is_space c) eqn:Hc.
      * exists (String c s). split; [reflexivity | now apply all_space_cons].
      * exists s. split; [reflexivity | exact A].
    + exists r. split; [cbn; cbn in E; congruence | exact A].
Qed.

(* the shape of a query: leading blanks, trimmed text, trailing blanks *)
Lemma query_shape : forall q, exists l r,
  q = l ++ trim_space q ++ r /\ all_space l /\ all_space r /\
  trim_left q = trim_space q ++ r /\
  lead_blanks q = Z.of_nat (String.length l).
Proof.
  intros q. destruct (trim_left_split q) as [l [E A]].
  destruct (trim_right_split (trim_left q)) as [r [E' A']].
  exists l, r. unfold trim_space, lead_blanks, zlen. repeat split; try assumption.
  - rewrite <- E'. exact E.
  - rewrite E at 1. rewrite length_append. lia.
Qed.

(* a non-blank byte of the query lies inside the trimmed text, at offset pos - lead *)
Lemma nonblank_in_trimmed : forall q pos,
  nonblank_at q pos = true ->
  (0 <= pos - lead_blanks q < zlen (trim_space q))%Z /\
  byte_at q pos = get (Z.to_nat (pos - lead_blanks q)) (trim_space q).
Proof.
  intros q pos H. unfold nonblank_at, byte_at in *.
  destruct (pos <? 0)%Z eqn:Hneg; [discriminate|]. apply Z.ltb_ge in Hneg.
  destruct (get (Z.to_nat pos) q) as [a|] eqn:G; [|discriminate].
  apply negb_true_iff in H.
  destruct (query_shape q) as [l [r [E [Al [Ar [_ L]]]]]].
  rewrite L. unfold zlen. set (k := Z.to_nat pos) in *.
  assert (Hk : pos = Z.of_nat k) by (unfold k; lia).
  destruct (lt_dec k (String.length l)) as [C1|C1].
  { rewrite E, get_append_left in G by exact C1. apply Al in G. congruence. }
  assert (Ek : k = String.length l + (k - String.length l)) by lia.
  rewrite E, Ek, get_append_skip in G.
  destruct (lt_dec (k - String.length l) (String.length (trim_space q))) as [C2|C2].
  - rewrite get_append_left in G by exact C2.
    split; [lia|]. rewrite <- G. f_equal. lia.
  - replace (k - String.length l)
      with (String.length (trim_space q) + (k - String.length l - String.length (trim_space q)))
      in G by lia.
    rewrite get_append_skip in G. apply Ar in G. congruence.
Qed.

(* ------------------------------------------------------------------ the window *)

Record window_ok (tq : string) (p : Z) (w : window) (off : Z) : Prop := {
  wk_off : (0 <= off)%Z;
  wk_end : (off + zlen (w_text w) <= zlen tq)%Z;
  wk_text : w_text w = substring (Z.to_nat off) (String.length (w_text w)) tq;
  wk_pos : w_pos w = (p - off)%Z;
  wk_left : w_left w = (0 <? off)%Z;
  wk_right : w_right w = (off + zlen (w_text w) <? zlen tq)%Z;
  wk_len : (zlen (w_text w) <= 70)%Z;
  wk_col : (w_pos w <= zlen (w_text w))%Z;
  wk_col_strict : (p < zlen tq -> w_pos w < zlen (w_text w))%Z;
  wk_before : (Z.min p 35 <= w_pos w)%Z;
  wk_after : (Z.min (zlen tq - p) 35 <= zlen (w_text w) - w_pos w)%Z;
  wk_whole : (70 < zlen tq \/ zlen (w_text w) = zlen tq)%Z
}.

Lemma go_slice_ok : forall s i j, (0 <= i <= j)%Z -> (j <= zlen s)%Z ->
  go_slice s i j = Ok (substring (Z.to_nat i) (Z.to_nat (j - i)) s) /\
  zlen (substring (Z.to_nat i) (Z.to_nat (j - i)) s) = (j - i)%Z.
Proof.
  intros s i j H1 H2. unfold go_slice.
  replace (0 <=? i)%Z with true by (symmetry; apply Z.leb_le; lia).
  replace (i <=? j)%Z with true by (symmetry; apply Z.leb_le; lia).
  replace (j <=? zlen s)%Z with true by (symmetry; apply Z.leb_le; lia).
  split; [reflexivity|]. unfold zlen in *. rewrite substring_length. lia.
Qed.

Lemma clip_window_spec : forall tq p, (0 <= p <= zlen tq)%Z ->
  exists w off, clip_window tq p = Ok w /\ window_ok tq p w off.
Proof.
  intros tq p Hp. unfold clip_window.
  destruct (70 <? zlen tq)%Z eqn:Hlong.
  - apply Z.ltb_lt in Hlong.
    destruct (p <=? 35)%Z eqn:Hhead.
    + apply Z.leb_le in Hhead.
      destruct (go_slice_ok tq 0 70) as [S L]; [lia | lia |].
      rewrite S. eexists; exists 0%Z. split; [reflexivity|].
      replace (70 - 0)%Z with 70%Z in * by lia.
      constructor; cbn [w_text w_pos w_left w_right]; rewrite ?L; try lia.
      all: f_equal; unfold zlen in *; lia.
    + apply Z.leb_gt in Hhead.
      set (trim := (p - 35)%Z). set (rest := (zlen tq - trim)%Z).
      destruct (70 <? rest)%Z eqn:Hr.
      * apply Z.ltb_lt in Hr.
        destruct (go_slice_ok tq trim (trim + 70)) as [S L]; [unfold trim; lia | unfold rest, trim in *; lia |].
        rewrite S. eexists; exists trim. split; [reflexivity|].
        replace (trim + 70 - trim)%Z with 70%Z in * by lia.
        constructor; cbn [w_text w_pos w_left w_right]; rewrite ?L; unfold rest, trim in *; try lia.
        all: f_equal; unfold zlen in *; lia.
      * apply Z.ltb_ge in Hr.
        destruct (go_slice_ok tq trim (trim + rest)) as [S L]; [unfold rest, trim; lia | unfold rest, trim in *; lia |].
        rewrite S. eexists; exists trim. split; [reflexivity|].
        replace (trim + rest - trim)%Z with rest in * by lia.
        constructor; cbn [w_text w_pos w_left w_right]; rewrite ?L; unfold rest, trim in *; try lia.
        all: f_equal; unfold zlen in *; lia.
  - apply Z.ltb_ge in Hlong.
    eexists; exists 0%Z. split; [reflexivity|].
    constructor; cbn [w_text w_pos w_left w_right]; try lia.
    cbn. symmetry. apply substring_full.
Qed.

(* the adjusted position is always inside [0, |tq|] for the fixed code *)
Lemma adjust_pos_range : forall q pos,
  (0 <= adjust_pos true q (trim_space q) pos <= zlen (trim_space q))%Z.
Proof.
  intros q pos. unfold adjust_pos.
  assert (0 <= zlen (trim_space q))%Z by (unfold zlen; lia).
  destruct (pos =? -1)%Z; [lia|].
  destruct (_ <? 0)%Z eqn:A; [lia|]. apply Z.ltb_ge in A.
  destruct (zlen (trim_space q) <? _)%Z eqn:B; [lia|]. apply Z.ltb_ge in B. lia.
Qed.

Lemma adjust_pos_trimmed : forall q pos,
  (0 <= trimmed_pos q pos <= zlen (trim_space q))%Z ->
  adjust_pos true q (trim_space q) pos = trimmed_pos q pos.
Proof.
  intros q pos H. unfold adjust_pos, trimmed_pos, lead_blanks in *.
  destruct (pos =? -1)%Z; [reflexivity|].
  destruct (_ <? 0)%Z eqn:A; [apply Z.ltb_lt in A; lia|].
  destruct (zlen (trim_space q) <? _)%Z eqn:B; [apply Z.ltb_lt in B; lia|]. reflexivity.
Qed.

(* ------------------------------------------------------------------ no panic *)

Theorem output_never_panics : forall q pos pad,
  exists s, output_query_and_err_pos true q pos pad = Ok s.
Proof.
  intros q pos pad. unfold output_query_and_err_pos.
  destruct (clip_window_spec (trim_space q) _ (adjust_pos_range q pos)) as [w [off [E _]]].
  rewrite E. eauto.
Qed.

Theorem error_text_never_panics : forall e, exists s, error_text true e = Ok s.
Proof.
  intros e. unfold error_text, query_error.
  destruct (String.eqb (e_query e) ""); [eauto|].
  destruct (output_never_panics (e_query e) (e_pos e) (e_pad e)) as [s E]. rewrite E. eauto.
Qed.

(* the layout of the full message: two rendered lines, then the padded label and message *)
Theorem error_text_layout : forall e, e_query e <> "" ->
  exists ret, output_query_and_err_pos true (e_query e) (e_pos e) (e_pad e) = Ok ret /\
    error_text true e = Ok (ret ++ spaces (Z.to_nat (e_pad e)) ++ kind_label (e_kind e) ++ e_msg e).
Proof.
  intros e H. destruct (output_never_panics (e_query e) (e_pos e) (e_pad e)) as [s E].
  exists s. split; [exact E|]. unfold error_text, query_error.
  apply String.eqb_neq in H. rewrite H, E. reflexivity.
Qed.

(* ------------------------------------------------------------------ stripping the markers *)

Lemma strip_pre_append : forall pre s, strip_pre pre (pre ++ s) = Some s.
Proof.
  intros pre s. unfold strip_pre. rewrite substring_append_head, String.eqb_refl.
  f_equal. rewrite length_append.
  replace (String.length pre + String.length s - String.length pre) with (String.length s) by lia.
  apply substring_append_tail.
Qed.

Lemma strip_suf_append : forall suf s, strip_suf suf (s ++ suf) = Some s.
Proof.
  intros suf s. unfold strip_suf. rewrite length_append.
  replace (String.length s + String.length suf - String.length suf) with (String.length s) by lia.
  rewrite substring_append_tail, String.eqb_refl.
  replace (String.length suf <=? String.length s + String.length suf)%nat with true
    by (symmetry; apply Nat.leb_le; lia).
  cbn. f_equal. apply substring_append_head.
Qed.

Lemma strip_both_append : forall pre suf s, strip_both pre suf (pre ++ s ++ suf) = Some s.
Proof. intros. unfold strip_both. rewrite strip_pre_append. apply strip_suf_append. Qed.

(* ------------------------------------------------------------------ the caret *)

Definition pre_of (w : window) : string := if w_left w then "... " else "".
Definition suf_of (w : window) : string := if w_right w then " ..." else "".

Lemma err_col_pre : forall w pad, err_col w pad = (w_pos w + pad + zlen (pre_of w))%Z.
Proof. intros w pad. unfold err_col, pre_of. destruct (w_left w); reflexivity. Qed.

Lemma window_caret_ok : forall q pos pad w off,
  (0 <= trimmed_pos q pos <= zlen (trim_space q))%Z ->
  window_ok (trim_space q) (trimmed_pos q pos) w off ->
  caret_ok_with q pos pad (line1_of w) (err_col w pad) (w_left w) (w_right w) = true.
Proof.
  intros q pos pad w off Hp K. destruct K.
  unfold caret_ok_with.
  change (line1_of w) with (pre_of w ++ w_text w ++ suf_of w).
  change (if w_left w then "... " else "") with (pre_of w).
  change (if w_right w then " ..." else "") with (suf_of w).
  rewrite strip_both_append, err_col_pre.
  set (p := trimmed_pos q pos) in *. set (n := zlen (trim_space q)) in *.
  replace (w_pos w + pad + zlen (pre_of w) - pad - zlen (pre_of w))%Z with (w_pos w) by lia.
  replace (p - w_pos w)%Z with off by lia.
  rewrite <- wk_text0, String.eqb_refl, wk_left0, wk_right0, !eqb_reflx.
  assert (0 <= w_pos w)%Z by lia.
  repeat (apply andb_true_intro; split); try (apply Z.leb_le; lia); try reflexivity.
  destruct wk_whole0 as [A|A]; apply orb_true_iff; [left; apply Z.ltb_lt | right; apply Z.eqb_eq]; lia.
Qed.

Lemma caret_ok_of_with : forall q pos pad line1 c l r,
  caret_ok_with q pos pad line1 c l r = true -> caret_ok q pos pad line1 c = true.
Proof.
  intros q pos pad line1 c l r H. unfold caret_ok.
  destruct l, r; rewrite H; rewrite ?orb_true_r; reflexivity.
Qed.

(* what the renderer returns, in terms of its window *)
Lemma output_window : forall q pos pad,
  exists w off,
    output_query_and_err_pos true q pos pad = Ok (render_window w pad) /\
    window_ok (trim_space q) (adjust_pos true q (trim_space q) pos) w off.
Proof.
  intros q pos pad. unfold output_query_and_err_pos.
  destruct (clip_window_spec (trim_space q) _ (adjust_pos_range q pos)) as [w [off [E K]]].
  rewrite E. eauto.
Qed.

(* the byte under the caret: column (c - pad) of the first line is byte p of the trimmed text *)
Lemma window_caret_byte : forall tq p w off,
  (0 <= p < zlen tq)%Z -> window_ok tq p w off ->
  get (Z.to_nat (zlen (pre_of w) + w_pos w)) (line1_of w) = get (Z.to_nat p) tq.
Proof.
  intros tq p w off Hp K. destruct K.
  change (line1_of w) with (pre_of w ++ w_text w ++ suf_of w).
  assert (P0 : (0 <= w_pos w)%Z) by lia.
  specialize (wk_col_strict0 ltac:(lia)).
  replace (Z.to_nat (zlen (pre_of w) + w_pos w))
    with (String.length (pre_of w) + Z.to_nat (w_pos w)) by (unfold zlen; lia).
  rewrite get_append_skip, get_append_left by (unfold zlen in *; lia).
  rewrite wk_text0, substring_correct1 by (unfold zlen in *; lia).
  f_equal. lia.
Qed.

(* ---- main theorem: the position of a non-blank byte of the query ---- *)
Theorem render_caret_lemma : forall q pos pad,
  (0 <= pad)%Z -> nonblank_at q pos = true ->
  exists line1 c,
    output_query_and_err_pos true q pos pad
      = Ok (line1 ++ nl ++ spaces (Z.to_nat c) ++ "^--" ++ nl) /\
    (pad <= c)%Z /\
    caret_ok q pos pad line1 c = true /\
    get (Z.to_nat (c - pad)) line1 = byte_at q pos.
Proof.
  intros q pos pad Hpad Hnb.
  destruct (nonblank_in_trimmed q pos Hnb) as [R B].
  assert (Hne : (pos =? -1)%Z = false).
  { unfold nonblank_at, byte_at in Hnb. destruct (pos <? 0)%Z eqn:N; [discriminate|].
    apply Z.ltb_ge in N. apply Z.eqb_neq. lia. }
  assert (T : trimmed_pos q pos = (pos - lead_blanks q)%Z) by (unfold trimmed_pos; now rewrite Hne).
  destruct (output_window q pos pad) as [w [off [E K]]].
  rewrite adjust_pos_trimmed in K by (rewrite T; lia).
  exists (line1_of w), (err_col w pad). split; [exact E|].
  assert (P0 : (0 <= w_pos w)%Z) by (destruct K; lia).
  assert (Z0 : (0 <= zlen (pre_of w))%Z) by (unfold zlen; lia).
  split; [rewrite err_col_pre; lia|]. split.
  - eapply caret_ok_of_with. eapply window_caret_ok; [rewrite T; lia | exact K].
  - rewrite B, err_col_pre.
    replace (w_pos w + pad + zlen (pre_of w) - pad)%Z with (zlen (pre_of w) + w_pos w)%Z by lia.
    rewrite <- T. eapply window_caret_byte; [rewrite T; lia | exact K].
Qed.

(* ---- end of input: the caret is one past the last shown byte, which is the last byte of the
        trimmed query (no elision marker on the right) ---- *)
Theorem render_eof_lemma : forall q pad,
  (0 <= pad)%Z ->
  exists line1 c,
    output_query_and_err_pos true q (-1) pad
      = Ok (line1 ++ nl ++ spaces (Z.to_nat c) ++ "^--" ++ nl) /\
    caret_ok q (-1) pad line1 c = true /\
    (c - pad)%Z = zlen line1 /\
    exists pre w, line1 = pre ++ w /\ (pre = "" \/ pre = "... ") /\
      w = substring (String.length (trim_space q) - String.length w) (String.length w) (trim_space q).
Proof.
  intros q pad Hpad.
  assert (T : trimmed_pos q (-1) = zlen (trim_space q)) by reflexivity.
  assert (N0 : (0 <= zlen (trim_space q))%Z) by (unfold zlen; lia).
  destruct (output_window q (-1) pad) as [w [off [E K]]].
  rewrite adjust_pos_trimmed in K by (rewrite T; lia).
  exists (line1_of w), (err_col w pad). split; [exact E|]. split.
  - eapply caret_ok_of_with. eapply window_caret_ok; [rewrite T; lia | exact K].
  - rewrite T in K. destruct K.
    assert (Eo : (off + zlen (w_text w) = zlen (trim_space q))%Z) by lia.
    assert (Rf : w_right w = false) by (rewrite wk_right0; apply Z.ltb_ge; lia).
    assert (L1 : line1_of w = pre_of w ++ w_text w).
    { unfold line1_of, pre_of. rewrite Rf. f_equal.
      clear. induction (w_text w); cbn; congruence. }
    split.
    + rewrite err_col_pre, L1. unfold zlen in *. rewrite length_append. lia.
    + exists (pre_of w), (w_text w). split; [exact L1|]. split.
      * unfold pre_of. destruct (w_left w); auto.
      * rewrite wk_text0 at 1. f_equal. unfold zlen in *. lia.
Qed.

(* ---- any other position (inside the leading / trailing blanks, outside the text, below -1):
        the caret is clamped into the shown text, still no panic, still a well-formed window ---- *)
Theorem render_clamped_lemma : forall q pos pad,
  exists w off,
    output_query_and_err_pos true q pos pad = Ok (render_window w pad) /\
    (0 <= w_pos w <= zlen (w_text w))%Z /\ (zlen (w_text w) <= 70)%Z /\
    w_text w = substring (Z.to_nat off) (String.length (w_text w)) (trim_space q).
Proof.
  intros q pos pad. destruct (output_window q pos pad) as [w [off [E K]]].
  pose proof (adjust_pos_range q pos) as R.
  exists w, off. split; [exact E|]. destruct K. repeat split; try assumption; lia.
Qed.

(* ------------------------------------------------------------------ the pinned renderer (D22) *)

(* 40 leading blanks, 77 bytes of text, position of the last byte: the pinned code panics *)
Definition d22_query : string :=
  spaces 40 ++ "select * where key = 'aaaaaaaaaaaaaaaaaaaaaaaaaaaaaaaaaaaaaaaaaaaaaaaaaa' & x".

Lemma pinned_renderer_panics :
  nonblank_at d22_query 116 = true /\
  output_query_and_err_pos false d22_query 116 7 = Panic.
Proof. split; vm_compute; reflexivity. Qed.

(* one leading blank: the pinned code puts the caret one column to the right *)
Lemma pinned_renderer_misaligned :
  nonblank_at " ab" 1 = true /\
  output_query_and_err_pos false " ab" 1 0 = Ok ("ab" ++ nl ++ spaces 1 ++ "^--" ++ nl) /\
  get (Z.to_nat (1 - 0)) "ab" <> byte_at " ab" 1.
Proof. repeat split; try (vm_compute; reflexivity). vm_compute. discriminate. Qed.
