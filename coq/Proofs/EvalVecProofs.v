(* Proofs/EvalVecProofs.v -- the batch evaluator twin (Model/EvalVec.v) against the row evaluator
   twin (Model/Eval.v): whenever ExecuteBatch succeeds on a chunk, Execute succeeds on every pair
   of the chunk with the same content (C03, expression layer).

   The relation between a batch result b and the row result r of the same pair is [vrel b r]:
   equal, or b is the []byte where r is the string of the same bytes (string concatenation
   builds a []byte in batch mode and a string in row mode).  It is finer than equality of
   content ([vrel_canon]) and needs no law about floats. *)
From Coq Require Import List String Ascii ZArith Bool Arith Lia.
Import ListNotations.
From KV Require Import Base.Bytes Base.Num Model.Ast Model.Value Model.Eval Model.EvalVec.
Local Open Scope nat_scope.
Local Open Scope list_scope.

(* ---------------------------------------------------------------- induction on expressions *)
Section ExprInd.
Variable P : expr -> Prop.
Hypothesis HBin : forall p o l r, P l -> P r -> P (EBin p o l r).
Hypothesis HField : forall p f, P (EField p f).
Hypothesis HStr : forall p s, P (EStr p s).
Hypothesis HNot : forall p r, P r -> P (ENot p r).
Hypothesis HCall : forall p n args, P n -> Forall P args -> P (ECall p n args).
Hypothesis HName : forall p s, P (EName p s).
Hypothesis HRef : forall p nm d, P d -> P (ERef p nm d).
Hypothesis HNum : forall p s, P (ENum p s).
Hypothesis HFloat : forall p s, P (EFloat p s).
Hypothesis HBool : forall p b, P (EBool p b).
Hypothesis HList : forall p l, Forall P l -> P (EList p l).
Hypothesis HAccess : forall p l fn, P l -> P fn -> P (EAccess p l fn).

Fixpoint expr_ind2 (e : expr) : P e :=
  match e with
  | EBin p o l r => HBin p o l r (expr_ind2 l) (expr_ind2 r)
  | EField p f => HField p f
  | EStr p s => HStr p s
  | ENot p r => HNot p r (expr_ind2 r)
  | ECall p n args =>
      HCall p n args (expr_ind2 n)
        ((fix go (l : list expr) : Forall P l :=
            match l with [] => Forall_nil P | x :: l' => Forall_cons x (expr_ind2 x) (go l') end) args)
  | EName p s => HName p s
  | ERef p nm d => HRef p nm d (expr_ind2 d)
  | ENum p s => HNum p s
  | EFloat p s => HFloat p s
  | EBool p b => HBool p b
  | EList p l =>
      HList p l
        ((fix go (l : list expr) : Forall P l :=
            match l with [] => Forall_nil P | x :: l' => Forall_cons x (expr_ind2 x) (go l') end) l)
  | EAccess p l fn => HAccess p l fn (expr_ind2 l) (expr_ind2 fn)
  end.
End ExprInd.

Section Proofs.
Variable fo : fops.
Variable re_match : bytes -> bytes -> res bool.
Notation value := (value fo).
Notation eval := (eval fo re_match).
Notation eval_batch := (eval_batch fo re_match true).

(* ---------------------------------------------------------------- the value relation *)

Definition vrel (b r : value) : Prop := b = r \/ exists s, b = VBytes s /\ r = VStr s.

Definition norm (v : value) : value := match v with VBytes s => VStr s | _ => v end.

Lemma vrel_refl v : vrel v v.
Proof. now left. Qed.

Lemma vrel_norm b r : vrel b r -> norm b = norm r.
Proof. intros [->|(s & -> & ->)]; reflexivity. Qed.

Lemma vrel_canon b r : vrel b r -> canon_of fo b = canon_of fo r.
Proof. intros [->|(s & -> & ->)]; reflexivity. Qed.

Lemma vrel_not_bytes b r : vrel b r -> (forall s, b <> VBytes s) -> r = b.
Proof. intros [->|(s & -> & ->)] H; [reflexivity | exfalso; now apply (H s)]. Qed.

(* the consumers of values do not tell []byte from string *)
Lemma conv_bytes_norm v : conv_bytes fo v = conv_bytes fo (norm v).
Proof. destruct v; reflexivity. Qed.
Lemma conv_int_norm v : conv_int fo v = conv_int fo (norm v).
Proof. destruct v; reflexivity. Qed.
Lemma conv_float_norm v : conv_float fo v = conv_float fo (norm v).
Proof. destruct v; reflexivity. Qed.
Lemma to_string_norm v : to_string fo v = to_string fo (norm v).
Proof. destruct v; reflexivity. Qed.
Lemma to_int_norm v : to_int fo v = to_int fo (norm v).
Proof. destruct v; reflexivity. Qed.
Lemma to_float_norm v : to_float fo v = to_float fo (norm v).
Proof. destruct v; reflexivity. Qed.
Lemma list_length_norm v : list_length fo v = list_length fo (norm v).
Proof. destruct v; reflexivity. Qed.
Lemma unpack_list_norm v : unpack_list fo v = unpack_list fo (norm v).
Proof. destruct v; reflexivity. Qed.
Lemma to_float_list_norm v : to_float_list fo v = to_float_list fo (norm v).
Proof. destruct v; reflexivity. Qed.
Lemma list_use_int_norm v : list_use_int fo v = list_use_int fo (norm v).
Proof. destruct v; reflexivity. Qed.

Lemma math_op_norm l r o p : math_op fo l r o p = math_op fo (norm l) (norm r) o p.
Proof.
  unfold math_op. now rewrite (conv_int_norm l), (conv_int_norm r), (conv_float_norm l), (conv_float_norm r).
Qed.
Lemma number_compare_norm l r c : number_compare fo l r c = number_compare fo (norm l) (norm r) c.
Proof.
  unfold number_compare. now rewrite (conv_int_norm l), (conv_int_norm r), (conv_float_norm l), (conv_float_norm r).
Qed.
Lemma string_compare_norm l r c : string_compare fo l r c = string_compare fo (norm l) (norm r) c.
Proof. unfold string_compare. now rewrite (conv_bytes_norm l), (conv_bytes_norm r). Qed.

Lemma math_op_vrel l r l' r' o p : vrel l l' -> vrel r r' -> math_op fo l r o p = math_op fo l' r' o p.
Proof. intros H1 H2. rewrite math_op_norm, (math_op_norm l'). now rewrite (vrel_norm _ _ H1), (vrel_norm _ _ H2). Qed.
Lemma number_compare_vrel l r l' r' c : vrel l l' -> vrel r r' -> number_compare fo l r c = number_compare fo l' r' c.
Proof. intros H1 H2. rewrite number_compare_norm, (number_compare_norm l'). now rewrite (vrel_norm _ _ H1), (vrel_norm _ _ H2). Qed.
Lemma string_compare_vrel l r l' r' c : vrel l l' -> vrel r r' -> string_compare fo l r c = string_compare fo l' r' c.
Proof. intros H1 H2. rewrite string_compare_norm, (string_compare_norm l'). now rewrite (vrel_norm _ _ H1), (vrel_norm _ _ H2). Qed.

Lemma conv_bytes_vrel b r : vrel b r -> conv_bytes fo b = conv_bytes fo r.
Proof. intros H. rewrite conv_bytes_norm, (conv_bytes_norm r). now rewrite (vrel_norm _ _ H). Qed.
Lemma to_string_vrel b r : vrel b r -> to_string fo b = to_string fo r.
Proof. intros H. rewrite to_string_norm, (to_string_norm r). now rewrite (vrel_norm _ _ H). Qed.
Lemma to_int_vrel b r : vrel b r -> to_int fo b = to_int fo r.
Proof. intros H. rewrite to_int_norm, (to_int_norm r). now rewrite (vrel_norm _ _ H). Qed.
Lemma to_float_vrel b r : vrel b r -> to_float fo b = to_float fo r.
Proof. intros H. rewrite to_float_norm, (to_float_norm r). now rewrite (vrel_norm _ _ H). Qed.

Lemma vrel_bool x r : vrel (VBool x) r -> r = VBool x.
Proof. intros H. apply vrel_not_bytes in H; [exact H | discriminate]. Qed.

(* ---------------------------------------------------------------- the agreement relation *)

(* batch result [b] of pair [kv] for expression [e] *)
Definition agree (e : expr) (kv : kvpair) (b : value) : Prop :=
  exists r, eval (fst kv) (snd kv) e = Ok r /\ vrel b r.

(* ---------------------------------------------------------------- the loops *)

Lemma map_res_Forall2 {A B} (f : A -> res B) l out :
  map_res f l = Ok out -> Forall2 (fun a b => f a = Ok b) l out.
Proof.
  revert out; induction l as [|a l IH]; intros out H; cbn in H.
  - inversion H; constructor.
  - destruct (f a) eqn:E; cbn in H; try discriminate.
    destruct (map_res f l) eqn:E2; cbn in H; try discriminate.
    inversion H; subst. constructor; auto.
Qed.

Lemma vmap_ok (R1 R2 : kvpair -> value -> Prop) f ch xs zs :
  Forall2 R1 ch xs -> vmap fo f xs = Ok zs ->
  (forall kv x z, R1 kv x -> f x = Ok z -> R2 kv z) ->
  Forall2 R2 ch zs.
Proof.
  intros H; revert zs; induction H as [|kv x ch xs Hx H IH]; intros zs Hm Hp; cbn in Hm.
  - inversion Hm; constructor.
  - unfold vmap in *. cbn in Hm. destruct (f x) eqn:E; cbn in Hm; try discriminate.
    destruct (map_res f xs) eqn:E2; cbn in Hm; try discriminate.
    inversion Hm; subst. constructor; eauto.
Qed.

Lemma vmap2_ok (R1 R2 R3 : kvpair -> value -> Prop) f ch xs ys zs :
  Forall2 R1 ch xs -> Forall2 R2 ch ys -> vmap2 fo f xs ys = Ok zs ->
  (forall kv x y z, R1 kv x -> R2 kv y -> f x y = Ok z -> R3 kv z) ->
  Forall2 R3 ch zs.
Proof.
  intros H; revert ys zs; induction H as [|kv x ch xs Hx H IH]; intros ys zs H2 Hm Hp;
    inversion H2; subst; cbn in Hm.
  - inversion Hm; constructor.
  - destruct (f x y) eqn:E; cbn in Hm; try discriminate.
    destruct (vmap2 fo f xs l') eqn:E2; cbn in Hm; try discriminate.
    inversion Hm; subst. constructor; eauto.
Qed.

Lemma vmap3_ok (R1 R2 R3 R4 : kvpair -> value -> Prop) f ch xs ys ws zs :
  Forall2 R1 ch xs -> Forall2 R2 ch ys -> Forall2 R3 ch ws -> vmap3 fo f xs ys ws = Ok zs ->
  (forall kv x y w z, R1 kv x -> R2 kv y -> R3 kv w -> f x y w = Ok z -> R4 kv z) ->
  Forall2 R4 ch zs.
Proof.
  intros H; revert ys ws zs; induction H as [|kv x ch xs Hx H IH]; intros ys ws zs H2 H3 Hm Hp;
    inversion H2; subst; inversion H3; subst; cbn in Hm.
  - inversion Hm; constructor.
  - destruct (f x y y0) eqn:E; cbn in Hm; try discriminate.
    destruct (vmap3 fo f xs l' l'0) eqn:E2; cbn in Hm; try discriminate.
    inversion Hm; subst. constructor; eauto.
Qed.

Lemma Forall2_map_r {A B} (R : A -> B -> Prop) (g : A -> B) l :
  (forall a, R a (g a)) -> Forall2 R l (map g l).
Proof. intros H; induction l; cbn; constructor; auto. Qed.

(* ---------------------------------------------------------------- binary operators *)

Definition IHP (e : expr) : Prop :=
  forall ch vs, eval_batch e ch = Ok vs -> Forall2 (agree e) ch vs.

Lemma bind_ok {A B} (r : res A) (f : A -> res B) b :
  bind r f = Ok b -> exists a, r = Ok a /\ f a = Ok b.
Proof. destruct r; cbn; intros H; try discriminate; eauto. Qed.

(* operators whose two modes evaluate both operands and combine them *)
Lemma both_case e l r (fb fr : value -> value -> res value) ch vs :
  IHP l -> IHP r ->
  (do ls <- eval_batch l ch; do rs <- eval_batch r ch; vmap2 fo fb ls rs) = Ok vs ->
  (forall k v, eval k v e = (do lv <- eval k v l; do rv <- eval k v r; fr lv rv)) ->
  (forall x y x' y' z, vrel x x' -> vrel y y' -> fb x y = Ok z ->
                       exists z', fr x' y' = Ok z' /\ vrel z z') ->
  Forall2 (agree e) ch vs.
Proof.
  intros IHl IHr H Hev Hpt.
  apply bind_ok in H. destruct H as (ls & El & H).
  apply bind_ok in H. destruct H as (rs & Er & H).
  eapply vmap2_ok; [apply IHl, El | apply IHr, Er | exact H |].
  intros kv x y z (x' & Ex & Vx) (y' & Ey & Vy) Hf.
  destruct (Hpt _ _ _ _ _ Vx Vy Hf) as (z' & Hz & Vz).
  exists z'. split; [|exact Vz]. rewrite Hev, Ex, Ey. exact Hz.
Qed.

Lemma math_case p o l r ch vs :
  IHP l -> IHP r -> (o = OSub \/ o = OMul \/ o = ODiv \/ (o = OAdd /\ rtype l <> TStr)) ->
  eval_batch (EBin p o l r) ch = Ok vs -> Forall2 (agree (EBin p o l r)) ch vs.
Proof.
  intros IHl IHr Ho H.
  assert (Hpt : forall x y x' y' z, vrel x x' -> vrel y y' -> math_op fo x y o (epos r) = Ok z ->
                  exists z', math_op fo x' y' o (epos r) = Ok z' /\ vrel z z').
  { intros x y x' y' z Vx Vy Hm. exists z. split; [|apply vrel_refl].
    now rewrite <- (math_op_vrel _ _ _ _ _ _ Vx Vy). }
  destruct Ho as [->|[->|[->|[-> Hne]]]].
  - cbn [EvalVec.eval_batch] in H. eapply (both_case _ l r _ _ ch vs IHl IHr H); cycle 1; [exact Hpt | reflexivity].
  - cbn [EvalVec.eval_batch] in H. eapply (both_case _ l r _ _ ch vs IHl IHr H); cycle 1; [exact Hpt | reflexivity].
  - cbn [EvalVec.eval_batch] in H. eapply (both_case _ l r _ _ ch vs IHl IHr H); cycle 1; [exact Hpt | reflexivity].
  - cbn [EvalVec.eval_batch] in H.
    destruct (rtype l) eqn:Et; try congruence;
      (eapply (both_case _ l r _ _ ch vs IHl IHr H); cycle 1; [exact Hpt|];
       intros k v; cbn [Eval.eval]; rewrite Et; reflexivity).
Qed.

Lemma concat_case p l r ch vs :
  IHP l -> IHP r -> rtype l = TStr ->
  eval_batch (EBin p OAdd l r) ch = Ok vs -> Forall2 (agree (EBin p OAdd l r)) ch vs.
Proof.
  intros IHl IHr Et H. cbn [EvalVec.eval_batch] in H. rewrite Et in H.
  eapply (both_case _ l r _ (fun lv rv => Ok (VStr (to_string fo lv ++ to_string fo rv)%string)) ch vs IHl IHr H).
  - intros k v. cbn [Eval.eval]. rewrite Et. reflexivity.
  - intros x y x' y' z Vx Vy Hf. cbn beta in Hf.
    destruct (conv_bytes fo x) as [a|] eqn:Ea; try discriminate.
    destruct (conv_bytes fo y) as [b|] eqn:Eb; try discriminate.
    inversion Hf; subst z. eexists; split; [reflexivity|].
    right. exists (a ++ b)%string. split; [reflexivity|].
    rewrite <- (to_string_vrel _ _ Vx), <- (to_string_vrel _ _ Vy).
    destruct x; try discriminate; destruct y; try discriminate; cbn in *; congruence.
Qed.

Lemma prefix_case p l r ch vs :
  IHP l -> IHP r ->
  eval_batch (EBin p OPrefixMatch l r) ch = Ok vs -> Forall2 (agree (EBin p OPrefixMatch l r)) ch vs.
Proof.
  intros IHl IHr H. cbn [EvalVec.eval_batch] in H.
  eapply (both_case _ l r _ _ ch vs IHl IHr H); cycle 1.
  - intros x y x' y' z Vx Vy Hf. cbn beta in Hf.
    rewrite (conv_bytes_vrel _ _ Vx), (conv_bytes_vrel _ _ Vy) in Hf.
    exists z. split; [exact Hf | apply vrel_refl].
  - reflexivity.
Qed.

Lemma regexp_case p l r ch vs :
  IHP l -> IHP r ->
  eval_batch (EBin p ORegExpMatch l r) ch = Ok vs -> Forall2 (agree (EBin p ORegExpMatch l r)) ch vs.
Proof.
  intros IHl IHr H. cbn [EvalVec.eval_batch] in H.
  eapply (both_case _ l r _ _ ch vs IHl IHr H); cycle 1.
  - intros x y x' y' z Vx Vy Hf. cbn beta in Hf.
    rewrite (conv_bytes_vrel _ _ Vx), (conv_bytes_vrel _ _ Vy) in Hf.
    exists z. split; [exact Hf | apply vrel_refl].
  - reflexivity.
Qed.

Definition cmp_of (o : op) : option cmpop :=
  match o with OGt => Some CGt | OGte => Some CGte | OLt => Some CLt | OLte => Some CLte | _ => None end.

Lemma compare_case p o c l r ch vs :
  IHP l -> IHP r -> cmp_of o = Some c ->
  eval_batch (EBin p o l r) ch = Ok vs -> Forall2 (agree (EBin p o l r)) ch vs.
Proof.
  intros IHl IHr Ho H.
  assert (Hs : forall x y x' y' z, vrel x x' -> vrel y y' ->
                (do b <- string_compare fo x y c; Ok (VBool b)) = Ok z ->
                exists z', (do b <- string_compare fo x' y' c; Ok (VBool b)) = Ok z' /\ vrel z z').
  { intros x y x' y' z Vx Vy Hf. exists z. split; [|apply vrel_refl].
    now rewrite <- (string_compare_vrel _ _ _ _ _ Vx Vy). }
  assert (Hn : forall x y x' y' z, vrel x x' -> vrel y y' ->
                (do b <- number_compare fo x y c; Ok (VBool b)) = Ok z ->
                exists z', (do b <- number_compare fo x' y' c; Ok (VBool b)) = Ok z' /\ vrel z z').
  { intros x y x' y' z Vx Vy Hf. exists z. split; [|apply vrel_refl].
    now rewrite <- (number_compare_vrel _ _ _ _ _ Vx Vy). }
  destruct o; try discriminate; inversion Ho; subst c; cbn [EvalVec.eval_batch] in H;
    destruct (rtype l) eqn:Et;
    (eapply (both_case _ l r _ _ ch vs IHl IHr H); cycle 1;
     [first [exact Hs | exact Hn] | intros k v; cbn [Eval.eval]; rewrite Et; reflexivity]).
Qed.

(* & and |: batch mode evaluates both sides, row mode stops at the deciding left operand *)
Lemma andor_case p o (is_and : bool) l r ch vs :
  IHP l -> IHP r ->
  (is_and = true /\ (o = OAnd \/ o = OKWAnd)) \/ (is_and = false /\ (o = OOr \/ o = OKWOr)) ->
  eval_batch (EBin p o l r) ch = Ok vs -> Forall2 (agree (EBin p o l r)) ch vs.
Proof.
  intros IHl IHr Ho H.
  assert (H' : (do ls <- eval_batch l ch; do rs <- eval_batch r ch;
                vmap2 fo (fun lv rv => match lv, rv with
                                       | VBool a, VBool b => Ok (VBool (if is_and then a && b else a || b))
                                       | _, _ => Err (EExec p)
                                       end) ls rs) = Ok vs).
  { destruct Ho as [[-> [->| ->]]|[-> [->| ->]]]; exact H. }
  clear H. apply bind_ok in H'. destruct H' as (ls & El & H).
  apply bind_ok in H. destruct H as (rs & Er & H).
  eapply vmap2_ok; [apply IHl, El | apply IHr, Er | exact H |].
  intros kv x y z (x' & Ex & Vx) (y' & Ey & Vy) Hf.
  destruct x; try discriminate. destruct y; try discriminate.
  apply vrel_bool in Vx. apply vrel_bool in Vy. subst x' y'.
  inversion Hf; subst z. unfold agree.
  destruct Ho as [[-> [->| ->]]|[-> [->| ->]]]; cbn [Eval.eval]; rewrite Ex; cbn [bind];
    destruct b; cbn; try rewrite Ey; cbn; eexists; (split; [reflexivity | apply vrel_refl]).
Qed.

(* = and !=: the kind is taken from the first row; later rows of another kind fail the batch *)
Lemma eq_at_row kd neg p x y x' y' z :
  vrel x x' -> vrel y y' -> eq_at fo kd neg p x y = Ok z ->
  exists b, equal_values fo x' y' p = Ok b /\ z = VBool (if neg then negb b else b).
Proof.
  intros Vx Vy H. destruct kd; cbn in H.
  - rewrite (conv_bytes_vrel _ _ Vx), (conv_bytes_vrel _ _ Vy) in H.
    destruct (conv_bytes fo x') as [a|] eqn:Ea; try discriminate.
    destruct (conv_bytes fo y') as [b|] eqn:Eb; try discriminate.
    inversion H; subst z. exists (String.eqb a b). split; [|reflexivity].
    destruct x'; try discriminate; cbn in *; rewrite Eb; congruence.
  - rewrite (number_compare_vrel _ _ _ _ CEq Vx Vy) in H.
    destruct (number_compare fo x' y' CEq) as [b| | |] eqn:Ec; try discriminate.
    inversion H; subst z. exists b. split; [|reflexivity].
    destruct x'; try (cbn in Ec; destruct y'; discriminate Ec);
      cbn [equal_values]; rewrite Ec; reflexivity.
  - destruct x; try discriminate. destruct y; try discriminate.
    apply vrel_bool in Vx. apply vrel_bool in Vy. subst. inversion H; subst z. cbn. eauto.
Qed.

Lemma equal_case p (neg : bool) o l r ch vs :
  IHP l -> IHP r -> ((neg = false /\ o = OEq) \/ (neg = true /\ o = ONotEq)) ->
  eval_batch (EBin p o l r) ch = Ok vs -> Forall2 (agree (EBin p o l r)) ch vs.
Proof.
  intros IHl IHr Ho H.
  assert (H' : (do ls <- eval_batch l ch; do rs <- eval_batch r ch; equal_batch fo ch neg p ls rs) = Ok vs).
  { destruct Ho as [[-> ->]|[-> ->]]; exact H. }
  clear H. apply bind_ok in H'. destruct H' as (ls & El & H).
  apply bind_ok in H. destruct H as (rs & Er & H).
  pose proof (IHl _ _ El) as Fl. pose proof (IHr _ _ Er) as Fr.
  unfold equal_batch in H. destruct ch as [|kv0 ch].
  - inversion H; constructor.
  - destruct ls as [|first ls']; try discriminate.
    destruct (eq_kind fo first) as [kd|]; try discriminate.
    eapply vmap2_ok; [exact Fl | exact Fr | exact H |].
    intros kv x y z (x' & Ex & Vx) (y' & Ey & Vy) Hf.
    destruct (eq_at_row _ _ _ _ _ _ _ _ Vx Vy Hf) as (b & Hb & ->).
    unfold agree. destruct Ho as [[-> ->]|[-> ->]]; cbn [Eval.eval]; rewrite Ex, Ey; cbn [bind]; rewrite Hb; cbn [bind];
      eexists; (split; [reflexivity | apply vrel_refl]).
Qed.

(* IN *)
Definition cmp_eq (number : bool) (a b : value) : res bool :=
  if number then number_compare fo a b CEq else string_compare fo a b CEq.

Lemma cmp_eq_vrel number a b a' b' : vrel a a' -> vrel b b' -> cmp_eq number a b = cmp_eq number a' b'.
Proof.
  intros Va Vb. unfold cmp_eq. destruct number;
    [apply number_compare_vrel | apply string_compare_vrel]; assumption.
Qed.

(* one row of the ListExpr case: the heads of the columns against the row evaluation of the items *)
Lemma in_row_list (number : bool) kv lf lf' items firsts b :
  vrel lf lf' ->
  Forall2 (fun it v => agree it kv v) items firsts ->
  Forall (fun it => ty_eqb (rtype it) (if number then TNumber else TStr) = true) items ->
  in_row fo number lf (map (@Ok value) firsts) = Ok b ->
  in_list fo lf' number items (map (eval (fst kv) (snd kv)) items) = Ok b.
Proof.
  intros Vl H; revert b; induction H as [|it v items firsts (v' & Ev & Vv) H IH]; intros b Hty Hr.
  - cbn in *. exact Hr.
  - inversion Hty; subst. cbn [map in_row bind] in Hr. cbn [map in_list].
    rewrite H2. cbn [negb]. rewrite Ev. cbn [bind].
    fold (cmp_eq number lf v) in Hr. fold (cmp_eq number lf' v').
    rewrite <- (cmp_eq_vrel _ _ _ _ _ Vl Vv).
    destruct (cmp_eq number lf v) as [c| | |]; cbn [bind] in *; try discriminate.
    destruct c; [exact Hr | apply IH; assumption].
Qed.

Lemma in_cols_ok (number : bool) items ch cols :
  Forall IHP items ->
  in_cols fo number items (map (fun it => eval_batch it ch) items) = Ok cols ->
  Forall2 (fun it col => Forall2 (agree it) ch col) items cols /\
  Forall (fun it => ty_eqb (rtype it) (if number then TNumber else TStr) = true) items.
Proof.
  intros HI; revert cols; induction HI as [|it items Hit HI IH]; intros cols H; cbn in H.
  - inversion H; split; constructor.
  - destruct (ty_eqb (rtype it) (if number then TNumber else TStr)) eqn:Et; cbn in H; try discriminate.
    apply bind_ok in H. destruct H as (col & Ec & H).
    apply bind_ok in H. destruct H as (cols' & Ecs & H). inversion H; subst cols.
    destruct (IH _ Ecs) as (F1 & F2). split; constructor; auto.
Qed.

Lemma heads_tails_split kv ch (items : list expr) cols :
  Forall2 (fun it col => Forall2 (agree it) (kv :: ch) col) items cols ->
  exists firsts, heads fo cols = map (@Ok value) firsts /\
                 Forall2 (fun it v => agree it kv v) items firsts /\
                 Forall2 (fun it col => Forall2 (agree it) ch col) items (tails fo cols).
Proof.
  induction 1 as [|it col items cols Hc H IH].
  - exists []. repeat split; constructor.
  - destruct IH as (firsts & Eh & F1 & F2). inversion Hc; subst.
    exists (y :: firsts). unfold heads, tails in *. cbn [map tl]. rewrite Eh.
    repeat split; constructor; auto.
Qed.

Lemma in_rows_ok (number : bool) e items ch lefts cols vs :
  Forall2 (agree e) ch lefts ->
  Forall2 (fun it col => Forall2 (agree it) ch col) items cols ->
  Forall (fun it => ty_eqb (rtype it) (if number then TNumber else TStr) = true) items ->
  in_rows fo number lefts cols = Ok vs ->
  Forall2 (fun kv z => exists lf' b, eval (fst kv) (snd kv) e = Ok lf' /\
                                       in_list fo lf' number items (map (eval (fst kv) (snd kv)) items) = Ok b /\
                                       z = VBool b) ch vs.
Proof.
  intros Fl; revert cols vs; induction Fl as [|kv lf ch lefts (lf' & El & Vl) Fl IH]; intros cols vs Fc Hty H.
  - cbn in H. inversion H; constructor.
  - cbn [in_rows] in H. apply bind_ok in H. destruct H as (b & Hb & H).
    apply bind_ok in H. destruct H as (rest & Hrest & H). inversion H; subst vs.
    destruct (heads_tails_split _ _ _ _ Fc) as (firsts & Eh & F1 & F2).
    rewrite Eh in Hb. constructor.
    + exists lf', b. repeat split; auto. eapply in_row_list; eauto.
    + eapply IH; eauto.
Qed.

Lemma Forall2_len {A B} (R : A -> B -> Prop) l1 l2 : Forall2 R l1 l2 -> List.length l1 = List.length l2.
Proof. induction 1; cbn; congruence. Qed.

Lemma Forall2_imp {A B} (R1 R2 : A -> B -> Prop) l1 l2 :
  (forall a b, R1 a b -> R2 a b) -> Forall2 R1 l1 l2 -> Forall2 R2 l1 l2.
Proof. intros H; induction 1; constructor; auto. Qed.

Lemma in_list_case p l q items ch vs :
  IHP l -> Forall IHP items ->
  eval_batch (EBin p OIn l (EList q items)) ch = Ok vs ->
  Forall2 (agree (EBin p OIn l (EList q items))) ch vs.
Proof.
  intros IHl IHi H. cbn [EvalVec.eval_batch] in H.
  set (number := match rtype l with TStr => false | _ => true end) in *.
  apply bind_ok in H. destruct H as (ls & El & H).
  apply bind_ok in H. destruct H as (cols & Ec & H).
  destruct (in_cols_ok _ _ _ _ IHi Ec) as (Fc & Hty).
  pose proof (in_rows_ok number l items ch ls cols vs (IHl _ _ El) Fc Hty H) as F.
  eapply Forall2_imp; [|exact F]. intros kv z (lf' & b & E1 & E2 & ->).
  exists (VBool b); split; [|apply vrel_refl]. cbn [Eval.eval]. fold number.
  rewrite E1; cbn [bind]. rewrite E2. reflexivity.
Qed.

Lemma in_row_values (number : bool) lf lf' vals b :
  vrel lf lf' -> in_row fo number lf (map (@Ok value) vals) = Ok b -> in_values fo lf' number vals = b.
Proof.
  intros Vl; induction vals as [|lv vals IH]; cbn [map in_row in_values bind]; intros H.
  - now inversion H.
  - fold (cmp_eq number lf lv) in H. fold (cmp_eq number lf' lv).
    rewrite <- (cmp_eq_vrel _ _ _ _ _ Vl (vrel_refl lv)).
    destruct (cmp_eq number lf lv) as [c| | |]; cbn [bind] in H; try discriminate.
    destruct c; [now inversion H | auto].
Qed.

(* ---------------------------------------------------------------- what kind of value an expression can yield *)

Definition vkind (v : value) : nat :=
  match v with
  | VStrs _ | VInts _ | VFlts _ => 1
  | VExprs _ => 2
  | _ => 0
  end.

Fixpoint is_list_lit (e : expr) : bool :=
  match e with
  | EList _ _ => true
  | ERef _ _ d => is_list_lit d
  | _ => false
  end.

Ltac kind0 H :=
  repeat (first
    [ apply bind_ok in H; destruct H as (? & ? & H); cbn beta in H
    | match type of H with
      | match ?x with _ => _ end = Ok _ => destruct x eqn:?; try discriminate
      | (if ?c then _ else _) = Ok _ => destruct c eqn:?; try discriminate
      end ]);
  try (inversion H; subst; reflexivity).

Lemma math_op_kind0 l r o p v : math_op fo l r o p = Ok v -> vkind v = 0.
Proof. unfold math_op. intros H. kind0 H. Qed.

Lemma eval_bin_kind0 k v p o l r x : eval k v (EBin p o l r) = Ok x -> vkind x = 0.
Proof.
  intros H. destruct o; cbn [Eval.eval] in H; kind0 H; try (eapply math_op_kind0; eassumption).
Qed.

(* ---------------------------------------------------------------- the function table *)

Local Open Scope string_scope.
Definition func_names : list string :=
  ["lower"; "upper"; "int"; "float"; "str"; "is_int"; "is_float"; "substr"; "json"; "split"; "list";
   "float_list"; "int_list"; "flist"; "ilist"; "len"; "join"; "strlen"; "cosine_distance"; "l2_distance"].
Local Close Scope string_scope.

Lemma func_info_cases nm x : func_info nm = Some x -> In nm func_names.
Proof.
  unfold func_info, func_names.
  repeat match goal with
         | |- context [String.eqb nm ?s] =>
             destruct (String.eqb_spec nm s) as [->|_]; [intros _; cbn; tauto|]
         end.
  discriminate.
Qed.

(* decide the name tests of apply_func / apply_func_vec for a literal name *)
Ltac red_names H :=
  repeat match type of H with
         | context [String.eqb ?a ?b] =>
             let c := eval vm_compute in (String.eqb a b) in
             change (String.eqb a b) with c in H
         end;
  cbn [orb] in H.

Ltac red_names_goal :=
  repeat match goal with
         | |- context [String.eqb ?a ?b] =>
             let c := eval vm_compute in (String.eqb a b) in
             change (String.eqb a b) with c
         end;
  cbn [orb].

Ltac each_name Hin :=
  unfold func_names in Hin; cbn [In] in Hin;
  repeat match type of Hin with _ \/ _ => destruct Hin as [Hin|Hin] end;
  [subst .. | contradiction].

Lemma apply_func_kind nm args rs v na va t :
  func_info nm = Some (na, va, t) -> apply_func fo nm args rs = Ok v ->
  vkind v <> 2 /\ (vkind v = 1 -> t = TList).
Proof.
  intros Hfi H. pose proof (func_info_cases _ _ Hfi) as Hin.
  each_name Hin; cbn in Hfi; inversion Hfi; subst; split; try reflexivity;
    unfold apply_func in H; red_names H; kind0 H; try discriminate.
  all: try (inversion H; subst; cbn; solve [discriminate | intros Hx; discriminate Hx | congruence]).
Qed.

Lemma eval_kind k v e : forall x, eval k v e = Ok x ->
  (vkind x = 1 -> rtype e = TList) /\ (vkind x = 2 -> is_list_lit e = true).
Proof.
  induction e; intros x H.
  - apply eval_bin_kind0 in H. rewrite H. split; discriminate.
  - destruct f; inversion H; subst; cbn; split; discriminate.
  - inversion H; subst; cbn; split; discriminate.
  - cbn [Eval.eval] in H. kind0 H; inversion H; subst; cbn; split; discriminate.
  - cbn [Eval.eval] in H. destruct e; try discriminate.
    destruct (call_name (EName pos0 s)) as [nm|] eqn:Hcn; try discriminate.
    destruct (func_info nm) as [[[na va] t]|] eqn:Hfi; try discriminate.
    match type of H with (if ?c then _ else _) = _ => destruct c; try discriminate end.
    destruct (apply_func_kind _ _ _ _ _ _ _ Hfi H) as (K2 & K1).
    split; [|intros Hk; contradiction].
    intros Hk. cbn [rtype]. rewrite Hcn, Hfi. auto.
  - inversion H; subst; cbn; split; discriminate.
  - cbn [Eval.eval] in H. cbn [rtype is_list_lit]. auto.
  - inversion H; subst; cbn; split; discriminate.
  - cbn [Eval.eval] in H. kind0 H; inversion H; subst; cbn; split; discriminate.
  - inversion H; subst; cbn; split; discriminate.
  - inversion H; subst; cbn; split; [discriminate | reflexivity].
  - cbn [Eval.eval] in H. kind0 H; inversion H; subst; cbn;
      repeat match goal with |- context [match ?x with _ => _ end] => destruct x end;
      cbn; split; discriminate.
Qed.

Lemma eval_list_rtype k v e x vals : eval k v e = Ok x -> unpack_list fo x = Some vals -> rtype e = TList.
Proof.
  intros H Hu. apply (proj1 (eval_kind _ _ _ _ H)). destruct x; try discriminate; reflexivity.
Qed.

(* IN over a list-valued function call or alias *)
Lemma eval_in_fn k v p l r :
  ((exists q n a, r = ECall q n a) \/ (exists q nm d, r = ERef q nm d)) ->
  eval k v (EBin p OIn l r) =
    (let number := match rtype l with TStr => false | _ => true end in
     do lv <- eval k v l;
     if negb (ty_eqb (rtype r) TList) then Err (EExec (epos r))
     else do fv <- eval k v r;
          match unpack_list fo fv with
          | Some vals => Ok (VBool (in_values fo lv number vals))
          | None => Err (EExec (epos r))
          end).
Proof. intros [(q & n & a & ->)|(q & nm & d & ->)]; reflexivity. Qed.

Lemma in_fn_case p l r ch vs :
  IHP l -> IHP r ->
  ((exists q n a, r = ECall q n a) \/ (exists q nm d, r = ERef q nm d)) ->
  eval_batch (EBin p OIn l r) ch = Ok vs -> Forall2 (agree (EBin p OIn l r)) ch vs.
Proof.
  intros IHl IHr Hr H.
  set (number := match rtype l with TStr => false | _ => true end).
  assert (H' : (do ls <- eval_batch l ch; do frets <- eval_batch r ch;
                vmap2 fo (in_fn_at fo number p) ls frets) = Ok vs).
  { destruct Hr as [(q & n & a & ->)|(q & nm & d & ->)]; exact H. }
  clear H. apply bind_ok in H'. destruct H' as (ls & El & H).
  apply bind_ok in H. destruct H as (rs & Er & H).
  eapply vmap2_ok; [apply IHl, El | apply IHr, Er | exact H |].
  intros kv x y z (x' & Ex & Vx) (y' & Ey & Vy) Hf.
  unfold in_fn_at in Hf. destruct (unpack_list fo y) as [vals|] eqn:Eu; try discriminate.
  assert (y' = y) by (apply (vrel_not_bytes _ _ Vy); intros s ->; discriminate). subst y'.
  apply bind_ok in Hf. destruct Hf as (b & Hb & Hf). inversion Hf; subst z.
  pose proof (eval_list_rtype _ _ _ _ _ Ey Eu) as Ht.
  pose proof (in_row_values _ _ _ _ _ Vx Hb) as Hv.
  exists (VBool b). split; [|apply vrel_refl].
  rewrite (eval_in_fn _ _ _ _ _ Hr). cbv zeta. fold number.
  rewrite Ex; cbn [bind]; rewrite Ht; cbn [ty_eqb negb]; rewrite Ey; cbn [bind]; rewrite Eu, Hv; reflexivity.
Qed.

(* BETWEEN *)
Lemma between_case p l q lo hi ch vs :
  IHP l -> IHP lo -> IHP hi ->
  eval_batch (EBin p OBetween l (EList q [lo; hi])) ch = Ok vs ->
  Forall2 (agree (EBin p OBetween l (EList q [lo; hi]))) ch vs.
Proof.
  intros IHl IHlo IHhi H. cbn [EvalVec.eval_batch] in H.
  set (number := match rtype l with TStr => false | _ => true end) in *.
  apply bind_ok in H. destruct H as (ls & El & H).
  destruct (ty_eqb (rtype lo) (if number then TNumber else TStr)) eqn:Tlo; cbn [negb] in H; try discriminate.
  rewrite orb_true_r in H. cbn [andb] in H.
  destruct (ty_eqb (rtype hi) (if number then TNumber else TStr)) eqn:Thi; cbn [negb] in H; try discriminate.
  apply bind_ok in H. destruct H as (los & Elo & H).
  apply bind_ok in H. destruct H as (his & Ehi & H).
  eapply vmap3_ok; [apply IHlo, Elo | apply IHhi, Ehi | apply IHl, El | exact H |].
  intros kv a b c z (a' & Ea & Va) (b' & Eb & Vb) (c' & Ec & Vc) Hf.
  unfold agree. cbn [Eval.eval]. fold number. rewrite Ec; cbn [bind]. rewrite Tlo, Thi; cbn [negb].
  rewrite Ea, Eb; cbn [bind].
  unfold between_at in Hf. exists z. split; [|apply vrel_refl].
  destruct number.
  - rewrite <- (number_compare_vrel _ _ _ _ _ Va Vb), <- (number_compare_vrel _ _ _ _ _ Va Vc),
            <- (number_compare_vrel _ _ _ _ _ Vc Vb). exact Hf.
  - rewrite <- (string_compare_vrel _ _ _ _ _ Va Vb), <- (string_compare_vrel _ _ _ _ _ Va Vc),
            <- (string_compare_vrel _ _ _ _ _ Vc Vb). exact Hf.
Qed.

(* ---------------------------------------------------------------- ! and indexing *)

Lemma not_case p r ch vs :
  IHP r -> eval_batch (ENot p r) ch = Ok vs -> Forall2 (agree (ENot p r)) ch vs.
Proof.
  intros IHr H. cbn [EvalVec.eval_batch] in H.
  apply bind_ok in H. destruct H as (rs & Er & H).
  eapply vmap_ok; [apply IHr, Er | exact H |].
  intros kv x z (x' & Ex & Vx) Hf. destruct x; try discriminate.
  apply vrel_bool in Vx. subst x'. inversion Hf; subst z.
  exists (VBool (negb b)). split; [|apply vrel_refl]. cbn [Eval.eval]. rewrite Ex. reflexivity.
Qed.

Lemma access_case p l fn ch vs :
  IHP l -> eval_batch (EAccess p l fn) ch = Ok vs -> Forall2 (agree (EAccess p l fn)) ch vs.
Proof.
  intros IHl H. cbn [EvalVec.eval_batch] in H.
  apply bind_ok in H. destruct H as (ls & El & H).
  destruct fn; try discriminate.
  - (* dict access: only the empty string is inside the model *)
    eapply vmap_ok; [apply IHl, El | exact H |].
    intros kv x z (x' & Ex & Vx) Hf. unfold dict_access_at in Hf.
    destruct x; try discriminate. destruct s0; try discriminate. inversion Hf; subst z.
    apply vrel_not_bytes in Vx; [|discriminate]. subst x'.
    exists (VStr ""%string). split; [|apply vrel_refl]. cbn [Eval.eval]. rewrite Ex. reflexivity.
  - eapply vmap_ok; [apply IHl, El | exact H |].
    intros kv x z (x' & Ex & Vx) Hf. unfold list_access_at in Hf.
    assert (x' = x).
    { apply (vrel_not_bytes _ _ Vx). intros b ->. discriminate. }
    subst x'. exists z. split; [|apply vrel_refl]. cbn [Eval.eval]. rewrite Ex. cbn [bind].
    destruct x; try discriminate; try exact Hf.
Qed.

(* ---------------------------------------------------------------- function calls *)

Lemma eval_call k v p q s args nm na va t :
  call_name (EName q s) = Some nm -> func_info nm = Some (na, va, t) ->
  ((negb va && negb (Nat.eqb (List.length args) na)) || (va && Nat.ltb (List.length args) na)) = false ->
  eval k v (ECall p (EName q s) args) = apply_func fo nm args (map (eval k v) args).
Proof. intros Hcn Hfi Har. cbn [Eval.eval]. rewrite Hcn, Hfi, Har. reflexivity. Qed.

Lemma unary_fn (g : value -> res value) e a ch vs :
  IHP a ->
  (do xs <- eval_batch a ch; vmap fo g xs) = Ok vs ->
  (forall k v x, eval k v a = Ok x -> eval k v e = g x) ->
  (forall x x', vrel x x' -> g x = g x') ->
  Forall2 (agree e) ch vs.
Proof.
  intros IHa H Hev Hg. apply bind_ok in H. destruct H as (xs & Ex & H).
  eapply vmap_ok; [apply IHa, Ex | exact H |].
  intros kv x z (x' & Ex' & Vx) Hf. exists z. split; [|apply vrel_refl].
  rewrite (Hev _ _ _ Ex'). now rewrite <- (Hg _ _ Vx).
Qed.

Lemma binary_fn (g : value -> value -> res value) e a b ch vs :
  IHP a -> IHP b ->
  (do xs <- eval_batch a ch; do ys <- eval_batch b ch; vmap2 fo g xs ys) = Ok vs ->
  (forall k v x y, eval k v a = Ok x -> eval k v b = Ok y -> eval k v e = g x y) ->
  (forall x x' y y', vrel x x' -> vrel y y' -> g x y = g x' y') ->
  Forall2 (agree e) ch vs.
Proof.
  intros IHa IHb H Hev Hg.
  apply bind_ok in H. destruct H as (xs & Ex & H).
  apply bind_ok in H. destruct H as (ys & Ey & H).
  eapply vmap2_ok; [apply IHa, Ex | apply IHb, Ey | exact H |].
  intros kv x y z (x' & Ex' & Vx) (y' & Ey' & Vy) Hf.
  exists z. split; [|apply vrel_refl]. rewrite (Hev _ _ _ _ Ex' Ey').
  now rewrite <- (Hg _ _ _ _ Vx Vy).
Qed.

Lemma ternary_fn (g : value -> value -> value -> res value) e a b c ch vs :
  IHP a -> IHP b -> IHP c ->
  (do xs <- eval_batch a ch; do ys <- eval_batch b ch; do ws <- eval_batch c ch; vmap3 fo g xs ys ws) = Ok vs ->
  (forall k v x y w, eval k v a = Ok x -> eval k v b = Ok y -> eval k v c = Ok w -> eval k v e = g x y w) ->
  (forall x x' y y' w w', vrel x x' -> vrel y y' -> vrel w w' -> g x y w = g x' y' w') ->
  Forall2 (agree e) ch vs.
Proof.
  intros IHa IHb IHc H Hev Hg.
  apply bind_ok in H. destruct H as (xs & Ex & H).
  apply bind_ok in H. destruct H as (ys & Ey & H).
  apply bind_ok in H. destruct H as (ws & Ew & H).
  eapply vmap3_ok; [apply IHa, Ex | apply IHb, Ey | apply IHc, Ew | exact H |].
  intros kv x y w z (x' & Ex' & Vx) (y' & Ey' & Vy) (w' & Ew' & Vw) Hf.
  exists z. split; [|apply vrel_refl]. rewrite (Hev _ _ _ _ _ Ex' Ey' Ew').
  now rewrite <- (Hg _ _ _ _ _ _ Vx Vy Vw).
Qed.

(* the bodies that loop over the row body *)
Lemma rowbody_fn e nm args ch vs :
  map_res (fun kv : kvpair => apply_func fo nm args (map (eval (fst kv) (snd kv)) args)) ch = Ok vs ->
  (forall k v, eval k v e = apply_func fo nm args (map (eval k v) args)) ->
  Forall2 (agree e) ch vs.
Proof.
  intros H Hev. apply map_res_Forall2 in H. eapply Forall2_imp; [|exact H].
  intros kv z Hz. exists z. split; [|apply vrel_refl]. now rewrite Hev.
Qed.

Lemma arity_fixed (args : list expr) na :
  (negb false && negb (Nat.eqb (List.length args) na)) || (false && Nat.ltb (List.length args) na) = false ->
  List.length args = na.
Proof.
  cbn [negb andb]. rewrite orb_false_r. intros H. apply negb_false_iff in H. now apply Nat.eqb_eq.
Qed.

Lemma arity_var (args : list expr) na :
  (negb true && negb (Nat.eqb (List.length args) na)) || (true && Nat.ltb (List.length args) na) = false ->
  na <= List.length args.
Proof. cbn [negb andb orb]. intros H. apply Nat.ltb_ge in H. exact H. Qed.

Lemma call_case p q s args ch vs :
  Forall IHP args ->
  eval_batch (ECall p (EName q s) args) ch = Ok vs ->
  Forall2 (agree (ECall p (EName q s) args)) ch vs.
Proof.
  intros IHa H. cbn [EvalVec.eval_batch] in H.
  destruct (call_name (EName q s)) as [nm|] eqn:Hcn; try discriminate.
  destruct (func_info nm) as [[[na va] t]|] eqn:Hfi; try discriminate.
  match type of H with (if ?c then _ else _) = _ => destruct c eqn:Har; try discriminate end.
  assert (Hev : forall k v, eval k v (ECall p (EName q s) args) = apply_func fo nm args (map (eval k v) args)).
  { intros. eapply eval_call; eauto. }
  pose proof (func_info_cases _ _ Hfi) as Hin.
  each_name Hin; cbn in Hfi; inversion Hfi; subst na va t; clear Hfi;
    unfold apply_func_vec in H; red_names H.
  all: try (apply arity_fixed in Har).
  all: try (apply arity_var in Har).
  (* json *)
  all: try discriminate H.
  (* unary bodies *)
  all: try solve
    [ destruct args as [|a [|? ?]]; try discriminate Har;
      inversion IHa as [|? ? IH1 _]; subst; cbn [map nth_col nth] in H;
      eapply (unary_fn _ _ a ch vs IH1 H);
      [ intros k v x Ex; rewrite Hev; unfold apply_func; red_names_goal; cbn [map nth_res nth];
        rewrite Ex; reflexivity
      | intros x x' [->|(b & -> & ->)]; reflexivity ] ].
  (* bodies that loop over the row body *)
  all: try solve [ eapply rowbody_fn; [exact H | exact Hev] ].
  - (* substr *)
    destruct args as [|a [|b [|c [|? ?]]]]; try discriminate Har.
    inversion IHa as [|? ? IH1 IHa2]; subst. inversion IHa2 as [|? ? IH2 IHa3]; subst.
    inversion IHa3 as [|? ? IH3 _]; subst.
    cbn [nth_arg nth map nth_col] in H.
    destruct (ty_eqb (rtype b) TNumber) eqn:T1; cbn [negb] in H; try discriminate.
    destruct (ty_eqb (rtype c) TNumber) eqn:T2; cbn [negb] in H; try discriminate.
    eapply (ternary_fn _ _ a b c ch vs IH1 IH2 IH3 H).
    + intros k v x y w Ex Ey Ew. rewrite Hev. unfold apply_func; red_names_goal.
      cbn [map nth_res nth nth_arg]. rewrite Ex, Ey, Ew, T1, T2. cbn [negb bind].
      destruct (to_int fo y); reflexivity.
    + intros x x' y y' w w' Vx Vy Vw.
      now rewrite (to_int_vrel _ _ Vy), (to_int_vrel _ _ Vw), (to_string_vrel _ _ Vx).
  - (* split *)
    destruct args as [|a [|b [|? ?]]]; try discriminate Har.
    inversion IHa as [|? ? IH1 IHa2]; subst. inversion IHa2 as [|? ? IH2 _]; subst.
    cbn [nth_arg nth map nth_col] in H.
    destruct (ty_eqb (rtype b) TStr) eqn:T1; cbn [negb] in H; try discriminate.
    eapply (binary_fn _ _ a b ch vs IH1 IH2 H).
    + intros k v x y Ex Ey. rewrite Hev. unfold apply_func; red_names_goal.
      cbn [map nth_res nth nth_arg]. rewrite Ex, Ey, T1. reflexivity.
    + intros x x' y y' Vx Vy. now rewrite (to_string_vrel _ _ Vx), (to_string_vrel _ _ Vy).
  - (* list *)
    destruct args as [|a args]; [cbn in Har; lia|].
    destruct ch as [|kv ch]; [inversion H; constructor|].
    eapply rowbody_fn; [exact H | exact Hev].
  - (* cosine_distance *)
    destruct args as [|a [|b [|? ?]]]; try discriminate Har.
    inversion IHa as [|? ? IH1 IHa2]; subst. inversion IHa2 as [|? ? IH2 _]; subst.
    cbn [nth_arg nth map nth_col] in H.
    eapply (binary_fn _ _ a b ch vs IH1 IH2 H).
    + intros k v x y Ex Ey. rewrite Hev. unfold apply_func; red_names_goal.
      cbn [map nth_res nth nth_arg]. rewrite Ex, Ey. reflexivity.
    + intros x x' y y' Vx Vy.
      rewrite (to_float_list_norm x), (to_float_list_norm y), (vrel_norm _ _ Vx), (vrel_norm _ _ Vy).
      now rewrite <- (to_float_list_norm x'), <- (to_float_list_norm y').
  - (* l2_distance *)
    destruct args as [|a [|b [|? ?]]]; try discriminate Har.
    inversion IHa as [|? ? IH1 IHa2]; subst. inversion IHa2 as [|? ? IH2 _]; subst.
    cbn [nth_arg nth map nth_col] in H.
    eapply (binary_fn _ _ a b ch vs IH1 IH2 H).
    + intros k v x y Ex Ey. rewrite Hev. unfold apply_func; red_names_goal.
      cbn [map nth_res nth nth_arg]. rewrite Ex, Ey. reflexivity.
    + intros x x' y y' Vx Vy.
      rewrite (to_float_list_norm x), (to_float_list_norm y), (vrel_norm _ _ Vx), (vrel_norm _ _ Vy).
      now rewrite <- (to_float_list_norm x'), <- (to_float_list_norm y').
Qed.

(* ---------------------------------------------------------------- the expression layer of C03 *)

Lemma const_case e (c : value) ch vs :
  (forall k v, eval k v e = Ok c) -> Ok (map (fun _ : kvpair => c) ch) = Ok vs -> Forall2 (agree e) ch vs.
Proof.
  intros He H. inversion H; subst vs. apply Forall2_map_r. intros kv. exists c. split; [apply He | apply vrel_refl].
Qed.

(* the induction carries, for a list literal, the hypothesis for its items (IN and BETWEEN look
   inside the literal on their right) *)
Definition QP (e : expr) : Prop :=
  IHP e /\ match e with EList _ items => Forall IHP items | _ => True end.

Lemma bin_case p o l r : QP l -> QP r -> IHP (EBin p o l r).
Proof.
  intros (IHl & _) (IHr & Sr) ch vs H.
  destruct o.
  - eapply andor_case with (is_and := true); eauto.
  - eapply andor_case with (is_and := false); eauto.
  - discriminate H.
  - eapply equal_case with (neg := false); eauto.
  - eapply equal_case with (neg := true); eauto.
  - eapply prefix_case; eauto.
  - eapply regexp_case; eauto.
  - destruct (ty_eqb (rtype l) TStr) eqn:Et.
    + apply concat_case; auto. destruct (rtype l); try discriminate; reflexivity.
    + apply math_case; auto. right; right; right. split; [reflexivity|]. intros E. rewrite E in Et. discriminate.
  - apply math_case; auto.
  - apply math_case; auto.
  - apply math_case; auto.
  - eapply compare_case; eauto; reflexivity.
  - eapply compare_case; eauto; reflexivity.
  - eapply compare_case; eauto; reflexivity.
  - eapply compare_case; eauto; reflexivity.
  - (* IN *)
    destruct r;
      try (cbn [EvalVec.eval_batch] in H; apply bind_ok in H; destruct H as (? & ? & H0); discriminate H0).
    + apply in_fn_case; auto. left; eauto.
    + apply in_fn_case; auto. right; eauto.
    + apply in_list_case; auto.
  - (* BETWEEN *)
    destruct r;
      try (cbn [EvalVec.eval_batch] in H; apply bind_ok in H; destruct H as (? & ? & H0); discriminate H0).
    destruct l0 as [|lo [|hi [|? ?]]];
      try (cbn [EvalVec.eval_batch] in H; apply bind_ok in H; destruct H as (? & ? & H0); discriminate H0).
    inversion Sr as [|? ? Hlo Sr2]; subst. inversion Sr2 as [|? ? Hhi _]; subst.
    apply between_case; auto.
  - eapply andor_case with (is_and := true); eauto.
  - eapply andor_case with (is_and := false); eauto.
Qed.

Lemma Forall_QP_IHP l : Forall QP l -> Forall IHP l.
Proof. induction 1; constructor; auto. now destruct H. Qed.

Theorem exec_batch_agree_all : forall e, QP e.
Proof.
  induction e using expr_ind2.
  - split; [|exact I]. now apply bin_case.
  - split; [|exact I]. intros ch vs H. destruct f; cbn [EvalVec.eval_batch] in H; inversion H; subst vs;
      apply Forall2_map_r; intros kv; eexists; (split; [reflexivity | apply vrel_refl]).
  - split; [|exact I]. intros ch vs H. eapply const_case; [|exact H]. reflexivity.
  - split; [|exact I]. intros ch vs H. apply not_case; auto. now destruct IHe.
  - split; [|exact I]. intros ch vs H0. destruct e; try discriminate H0.
    apply call_case; auto. now apply Forall_QP_IHP.
  - split; [|exact I]. intros ch vs H. eapply const_case; [|exact H]. reflexivity.
  - split; [|exact I]. intros ch vs H. cbn [EvalVec.eval_batch] in H. destruct IHe as (IH & _).
    eapply Forall2_imp; [|apply IH, H]. intros kv z (r & Er & Vr). exists r. split; auto.
  - split; [|exact I]. intros ch vs H. eapply const_case; [|exact H]. reflexivity.
  - split; [|exact I]. intros ch vs H. cbn [EvalVec.eval_batch] in H.
    apply bind_ok in H. destruct H as (f & Ef & H).
    eapply const_case; [|exact H]. intros k v. cbn [Eval.eval]. rewrite Ef. reflexivity.
  - split; [|exact I]. intros ch vs H. eapply const_case; [|exact H]. reflexivity.
  - split; [|now apply Forall_QP_IHP]. intros ch vs H0. eapply const_case; [|exact H0]. reflexivity.
  - split; [|exact I]. intros ch vs H. apply access_case; auto. now destruct IHe1.
Qed.

(* whenever batch evaluation succeeds, row evaluation succeeds on every pair of the chunk, with
   the same value up to the string / []byte representation of text *)
Theorem exec_batch_ok_vrel e ch vs :
  eval_batch e ch = Ok vs ->
  Forall2 (fun kv b => exists r, eval (fst kv) (snd kv) e = Ok r /\ vrel b r) ch vs.
Proof. intros H. exact (proj1 (exec_batch_agree_all e) ch vs H). Qed.

Theorem exec_batch_ok e ch vs :
  eval_batch e ch = Ok vs ->
  Forall2 (fun kv b => exists r, eval (fst kv) (snd kv) e = Ok r /\ canon_of fo r = canon_of fo b) ch vs.
Proof.
  intros H. eapply Forall2_imp; [|apply exec_batch_ok_vrel, H].
  intros kv b (r & Er & Vr). exists r. split; [exact Er | symmetry; now apply vrel_canon].
Qed.

Corollary eval_batch_length e ch vs : eval_batch e ch = Ok vs -> List.length vs = List.length ch.
Proof. intros H. apply exec_batch_ok in H. symmetry. eapply Forall2_len; eauto. Qed.

(* the WHERE clause: FilterBatch against Filter *)
Theorem filter_batch_ok e ch bs :
  filter_batch fo re_match true e ch = Ok bs ->
  Forall2 (fun kv b => filter_row fo re_match (fst kv) (snd kv) e = Ok b) ch bs.
Proof.
  unfold filter_batch. intros H. apply bind_ok in H. destruct H as (rs & Er & H).
  apply exec_batch_ok_vrel in Er. apply map_res_Forall2 in H.
  revert bs H; induction Er as [|kv x ch rs (r & Erow & Vr) Er IH]; intros bs H; inversion H; subst; constructor; auto.
  unfold filter_row. rewrite Erow. cbn [bind]. destruct x; try discriminate.
  apply vrel_bool in Vr. subst r. assumption.
Qed.

(* ---------------------------------------------------------------- the converse is false by design *)
Local Open Scope string_scope.

(* key = 'zz' & 1 / (strlen(key) - 1) > 0  on the pair (a, x): row mode stops at the false left
   operand, batch mode evaluates both sides for the whole chunk and divides by zero *)
Definition asym_expr : expr :=
  EBin 11 OAnd (EBin 4 OEq (EField 0 KeyKW) (EStr 6 "zz"))
       (EBin 37 OGt (EBin 15 ODiv (ENum 13 "1")
                        (EBin 30 OSub (ECall 18 (EName 18 "strlen") [EField 25 KeyKW]) (ENum 32 "1")))
             (ENum 39 "0")).

Lemma exec_batch_converse_fails :
  eval "a" "x" asym_expr = Ok (VBool false) /\
  eval_batch asym_expr [("a", "x")] = Err (EExec 30).
Proof. split; reflexivity. Qed.

(* the pinned batch BETWEEN (before the fix for D29) accepted an upper bound that is not text:
   key between 'a' and zz  with zz a bare name *)
Definition between_expr : expr :=
  EBin 4 OBetween (EField 0 KeyKW) (EList 12 [EStr 12 "a"; EName 20 "zz"]).

Lemma exec_batch_pinned_between :
  EvalVec.eval_batch fo re_match false between_expr [("b", "")] = Ok [VBool true] /\
  eval "b" "" between_expr = Err (EExec 20) /\
  eval_batch between_expr [("b", "")] = Err (EExec 20).
Proof. repeat split; reflexivity. Qed.
Local Close Scope string_scope.

End Proofs.
