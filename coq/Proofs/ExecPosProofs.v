(* Proofs/ExecPosProofs.v -- C17, part 2, for what happens AFTER BuildPlan accepted a statement:
   the positions of errors raised while EXECUTING (row evaluator Model/Eval.v, batch evaluator
   Model/EvalVec.v, the scan + projection drain Model/ScanProj.v) and what the constant folder
   (Model/Fold.v, statement level Model/FoldStmt.v) does to positions -- over the real twins, no
   abstract provenance model.

   (i)   the evaluators invent no position: a positional error (ExecuteError, and the
         SyntaxErrors Execute can return: unknown function, bad field-name expression) of
         eval / filter_row / eval_batch / filter_batch on a tree e carries the Pos of a NODE of e
         ([positions e]; the definition under a FieldReferenceExpr counts: a reference evaluates
         its definition, the position then belongs to the definition).  No error of the twins is
         built with a literal 0: every `args[i].GetPos()` of a function body is guarded by the
         arity check of FunctionCallExpr.Execute.
   (ii)  the folder invents no position: every Pos of fold e (of every intermediate stage, and of
         the objects it rewrites in place, which is what a reference evaluates afterwards) is a
         Pos of e.  The folder returns no error at all (an error met while folding leaves the node
         unfolded: the twin's [fold] is a total function into trees).
   (iii) composition with Model/ParseCheck.v: for every query text q that parse_check accepts,
         every tree T of the checked statement, its folded form / the tree the plan executes,
         every pair / chunk: the position of an execution error is 0 or a token start of q, and
         lies inside q.  Statement level: the same for the drain of `SELECT fields WHERE w`
         (scan + filter + projection, any slots, any batch size). *)
From Coq Require Import List String Ascii ZArith Bool Arith Lia.
Import ListNotations.
From KV Require Import Base.Bytes Base.Num Model.Token Model.Ast Model.Value Model.Eval Model.EvalVec
                       Model.ErrPos Model.Fold Model.FoldStmt Model.ScanProj Model.Lexer
                       Model.StmtParser Model.ParseCheck Spec.CaretSpec
                       Proofs.AstInd Proofs.ErrPosProofs Proofs.FoldProofs Proofs.ParseCheckProofs.
From KV Require Model.Checker.
Local Open Scope nat_scope.
Local Open Scope list_scope.

(* ------------------------------------------------------------------ positional outcomes *)

(* the position of a positional error satisfies P; other outcomes are unconstrained *)
Definition okp {A} (P : nat -> Prop) (r : res A) : Prop :=
  match r with
  | Err (EExec p) => P p
  | Err (ESyntax p) => P p
  | _ => True
  end.

Lemma okp_bind {A B} (P : nat -> Prop) (r : res A) (f : A -> res B) :
  okp P r -> (forall a, okp P (f a)) -> okp P (bind r f).
Proof. destruct r as [a|[p|p|]| |]; cbn; auto. Qed.

Lemma okp_mono {A} (P Q : nat -> Prop) (r : res A) :
  (forall p, P p -> Q p) -> okp P r -> okp Q r.
Proof. intros H. destruct r as [a|[p|p|]| |]; cbn; auto. Qed.

Lemma okp_exec {A} (P : nat -> Prop) p : P p -> okp P (@Err A (EExec p)).
Proof. exact (fun H => H). Qed.
Lemma okp_syn {A} (P : nat -> Prop) p : P p -> okp P (@Err A (ESyntax p)).
Proof. exact (fun H => H). Qed.

Lemma okp_inv_exec {A} (P : nat -> Prop) (r : res A) p : okp P r -> r = Err (EExec p) -> P p.
Proof. intros H ->. exact H. Qed.
Lemma okp_inv_syn {A} (P : nat -> Prop) (r : res A) p : okp P r -> r = Err (ESyntax p) -> P p.
Proof. intros H ->. exact H. Qed.

(* the regexp oracle stands for regexp.Compile + Match: library code, whose error is a plain Go
   error (never a *SyntaxError / *ExecuteError of kvql, execRegexpMatch returns it as it is) *)
Definition re_plain (re : bytes -> bytes -> res bool) : Prop :=
  forall pat text, okp (fun _ => False) (re pat text).

Lemma re_plain_okp re (P : nat -> Prop) pat text : re_plain re -> okp P (re pat text).
Proof. intros H. eapply okp_mono; [|apply H]. intros p []. Qed.

Ltac okp_step :=
  first
    [ exact I
    | assumption
    | apply okp_bind; [|intros ?]
    | match goal with
      | |- okp _ (match ?x with _ => _ end) => destruct x
      | |- okp _ (if ?c then _ else _) => destruct c
      | |- okp _ (let '(_, _) := ?x in _) => destruct x
      end
    | progress cbv beta iota zeta ].
Ltac okp_tac := repeat okp_step.

(* ================================================================== (i) the row evaluator *)
Section RowEval.
Variable fo : fops.
Variable re_match : bytes -> bytes -> res bool.
Hypothesis re_ok : re_plain re_match.
Notation value := (value fo).
Implicit Types P Q : nat -> Prop.

Lemma okp_all_ok P (rs : list (res value)) : Forall (okp P) rs -> okp P (all_ok rs).
Proof.
  induction 1 as [|r rs Hr Hrs IH]; cbn; [exact I|].
  apply okp_bind; [assumption|]. intros a. apply okp_bind; [assumption|]. intros; exact I.
Qed.

Lemma okp_map_res {A B} P (f : A -> res B) (l : list A) :
  (forall a, okp P (f a)) -> okp P (map_res f l).
Proof.
  intros Hf. induction l as [|a l IH]; cbn; [exact I|].
  apply okp_bind; [apply Hf|]. intros b. apply okp_bind; [assumption|]. intros; exact I.
Qed.

Lemma okp_nth P (rs : list (res value)) i : Forall (okp P) rs -> okp P (nth_res fo rs i).
Proof.
  intros H. unfold nth_res. destruct (lt_dec i (List.length rs)) as [Hi|Hi].
  - rewrite Forall_forall in H. apply H. now apply nth_In.
  - rewrite nth_overflow by lia. exact I.
Qed.

Lemma okp_to_int P x : okp P (to_int fo x).
Proof. unfold to_int. okp_tac. Qed.
Lemma okp_to_float P x : okp P (to_float fo x).
Proof. unfold to_float. okp_tac. Qed.
Lemma okp_parse_floats P l : okp P (parse_floats fo l).
Proof. induction l as [|s l IH]; cbn; okp_tac. Qed.
Lemma okp_to_float_list P x : okp P (to_float_list fo x).
Proof. unfold to_float_list. destruct x; try exact I. apply okp_parse_floats. Qed.
Lemma okp_math P l r o p : P p -> okp P (math_op fo l r o p).
Proof. intros Hp. unfold math_op. okp_tac. Qed.
Lemma okp_number_compare P l r c : okp P (number_compare fo l r c).
Proof. unfold number_compare. okp_tac. Qed.
Lemma okp_string_compare P l r c : okp P (string_compare fo l r c).
Proof. unfold string_compare. okp_tac. Qed.
Lemma okp_equal P l r p : P p -> okp P (equal_values fo l r p).
Proof. intros Hp. unfold equal_values. okp_tac. Qed.
Lemma okp_cosine P l r : okp P (cosine_distance fo l r).
Proof. unfold cosine_distance. okp_tac. Qed.
Lemma okp_l2 P l r : okp P (l2_distance fo l r).
Proof. unfold l2_distance. okp_tac. Qed.
Lemma okp_use_int P x : okp P (list_use_int fo x).
Proof. unfold list_use_int. okp_tac. Qed.
Lemma okp_float_value P d : okp P (float_value fo d).
Proof. unfold float_value. okp_tac. Qed.

Hint Resolve okp_to_int okp_to_float okp_to_float_list okp_number_compare okp_string_compare
  okp_cosine okp_l2 okp_use_int okp_float_value : okp.

(* the body of a scalar function, once the arity check of FunctionCallExpr.Execute has passed:
   its own errors carry the Pos of one of the arguments (args[i].GetPos() with i inside the
   argument list), the others come from evaluating the arguments *)
Lemma okp_apply_func P nm args (rs : list (res value)) nargs varargs t :
  func_info nm = Some (nargs, varargs, t) ->
  Forall (okp P) rs ->
  (forall a, In a args -> P (epos a)) ->
  ((negb varargs && negb (Nat.eqb (List.length args) nargs)) || (varargs && Nat.ltb (List.length args) nargs)) = false ->
  okp P (apply_func fo nm args rs).
Proof.
  intros Hinfo Hrs Hargs Har. unfold apply_func.
  assert (Hall : okp P (all_ok rs)) by now apply okp_all_ok.
  assert (Htl : okp P (all_ok (tl rs))).
  { apply okp_all_ok. destruct rs; [constructor | now inversion Hrs]. }
  assert (Hnth : forall i, i < List.length args -> P (epos (nth_arg args i))).
  { intros i Hi. apply Hargs. unfold nth_arg. now apply nth_In. }
  repeat match goal with
  | |- okp _ (if String.eqb nm ?lit then _ else _) =>
      let E := fresh "E" in destruct (String.eqb nm lit) eqn:E;
      [ apply String.eqb_eq in E; subst nm; cbn in Hinfo; injection Hinfo as <- <- <-; cbn in Har | ]
  | |- okp _ (if String.eqb nm ?a || String.eqb nm ?b then _ else _) =>
      let E := fresh "E" in destruct (String.eqb nm a || String.eqb nm b) eqn:E;
      [ apply orb_true_iff in E; destruct E as [E|E]; apply String.eqb_eq in E; subst nm;
        cbn in Hinfo; injection Hinfo as <- <- <-; cbn in Har | ]
  end;
  try exact I.
  all: cbn in Har; rewrite ?orb_false_r, ?orb_false_l, ?andb_true_l, ?andb_false_l in Har;
       first [ apply negb_false_iff in Har; apply Nat.eqb_eq in Har | apply Nat.ltb_ge in Har | apply Nat.leb_gt in Har | idtac ].
  all: repeat first
    [ exact I
    | assumption
    | apply okp_nth; assumption
    | apply okp_map_res; intros ?
    | solve [auto with okp]
    | apply okp_bind; [|intros ?]
    | match goal with
      | |- okp _ (Err (EExec (epos (nth_arg _ _)))) => apply okp_exec, Hnth; lia
      | H : Forall (okp _) (?r :: _) |- okp _ ?r => inversion H; assumption
      | |- okp _ (match ?x with _ => _ end) => destruct x
      | |- okp _ (if ?c then _ else _) => destruct c
      end ].
Qed.

Lemma okp_in_list P left number items rs :
  Forall (okp P) rs -> (forall it, In it items -> P (epos it)) ->
  okp P (in_list fo left number items rs).
Proof.
  intros H. revert rs H. induction items as [|it items IH]; intros rs H Hit; cbn; [exact I|].
  destruct rs as [|r rs]; [exact I|]. inversion H; subst.
  destruct (negb _); [apply okp_exec, Hit; now left|].
  apply okp_bind; [assumption|]. intros lv. apply okp_bind; [destruct number; auto with okp|].
  intros c. destruct c; [exact I|]. apply IH; [assumption|]. intros x Hx. apply Hit. now right.
Qed.

Definition posin (e : expr) : nat -> Prop := fun p => In p (positions e).

Lemma posin_epos e : posin e (epos e).
Proof. apply epos_in_positions. Qed.

Lemma positions_item (items : list expr) x p : In x items -> In p (positions x) -> In p (flat_map positions items).
Proof. intros Hx Hp. apply in_flat_map. exists x. split; assumption. Qed.

Lemma Forall_map_okp P (l : list expr) (f : expr -> res value) :
  Forall (fun e => okp P (f e)) l -> Forall (okp P) (map f l).
Proof. induction 1; cbn; constructor; auto. Qed.

(* the statement, strengthened for the two operators that evaluate the ITEMS of a list operand
   (a ListExpr evaluates to itself; IN and BETWEEN evaluate its elements) *)
Theorem eval_okp_strong k v : forall e,
  okp (posin e) (eval fo re_match k v e) /\
  match e with
  | EList _ items => Forall (fun x => okp (posin x) (eval fo re_match k v x)) items
  | _ => True
  end.
Proof.
  apply expr_ind2.
  - (* binary *)
    intros p o l r [IHl _] [IHr IHr']. split; [|exact I].
    set (Q := fun x : nat => In x (p :: positions l ++ positions r)).
    change (okp Q (eval fo re_match k v (EBin p o l r))).
    assert (Qp : Q p) by (left; reflexivity).
    assert (Ql : forall x, posin l x -> Q x) by (intros x Hx; right; apply in_or_app; now left).
    assert (Qr : forall x, posin r x -> Q x) by (intros x Hx; right; apply in_or_app; now right).
    assert (Qel : Q (epos l)) by apply Ql, posin_epos.
    assert (Qer : Q (epos r)) by apply Qr, posin_epos.
    assert (El : okp Q (eval fo re_match k v l)) by (eapply okp_mono; [exact Ql | exact IHl]).
    assert (Er : okp Q (eval fo re_match k v r)) by (eapply okp_mono; [exact Qr | exact IHr]).
    clearbody Q. clear IHl IHr.
    destruct o; cbn [eval].
    all: try (repeat first
      [ exact I | assumption
      | apply okp_math; assumption
      | apply okp_equal; assumption
      | apply re_plain_okp; exact re_ok
      | apply okp_bind; [|intros ?]
      | solve [auto with okp]
      | match goal with
        | |- okp _ (match ?x with _ => _ end) => destruct x
        | |- okp _ (if ?c then _ else _) => destruct c
        end ]; fail).
    + (* in *)
      apply okp_bind; [assumption|]. intros lv.
      destruct r; try (destruct (match rtype l with TStr => false | _ => true end); assumption).
      * destruct (negb _); [assumption|]. apply okp_bind; [assumption|]. intros fv.
        destruct (unpack_list fo fv); [exact I | assumption].
      * destruct (negb _); [assumption|]. apply okp_bind; [assumption|]. intros fv.
        destruct (unpack_list fo fv); [exact I | assumption].
      * apply okp_bind; [|intros; exact I]. apply okp_in_list.
        -- apply Forall_map_okp. rewrite Forall_forall in *. intros a Ha.
           eapply okp_mono; [|apply IHr', Ha]. intros x Hx. apply Qr. right.
           eapply positions_item; eassumption.
        -- intros it Hit. apply Qr. right. eapply positions_item; [exact Hit | apply epos_in_positions].
    + (* between *)
      apply okp_bind; [assumption|]. intros lv. destruct r; try assumption.
      destruct l0 as [|lo [|hi [|? ?]]]; try assumption.
      inversion IHr' as [|? ? Hlo Hr2]; subst. inversion Hr2 as [|? ? Hhi _]; subst.
      assert (Qlo : forall x, posin lo x -> Q x).
      { intros x Hx. apply Qr. right. cbn. apply in_or_app. now left. }
      assert (Qhi : forall x, posin hi x -> Q x).
      { intros x Hx. apply Qr. right. cbn. apply in_or_app. right. apply in_or_app. now left. }
      assert (Qelo : Q (epos lo)) by apply Qlo, posin_epos.
      assert (Qehi : Q (epos hi)) by apply Qhi, posin_epos.
      assert (Elo : okp Q (eval fo re_match k v lo)) by (eapply okp_mono; [exact Qlo | exact Hlo]).
      assert (Ehi : okp Q (eval fo re_match k v hi)) by (eapply okp_mono; [exact Qhi | exact Hhi]).
      destruct (match rtype l with TStr => false | _ => true end).
      all: repeat first
        [ exact I | assumption
        | apply okp_bind; [|intros ?]
        | solve [auto with okp]
        | match goal with
          | |- okp _ (match ?x with _ => _ end) => destruct x
          | |- okp _ (if ?c then _ else _) => destruct c
          end ].
  - intros p f. split; [|exact I]. destruct f; exact I.
  - intros. split; exact I.
  - (* not *)
    intros p r [IH _]. split; [|exact I]. cbn [eval]. apply okp_bind.
    + eapply okp_mono; [|exact IH]. intros x Hx. right. exact Hx.
    + intros rv. destruct rv; try exact I; apply okp_exec; right; apply posin_epos.
  - (* call *)
    intros p n args _ IHargs. split; [|exact I]. cbn [eval].
    destruct n; try (apply okp_syn; left; reflexivity).
    destruct (call_name _) as [nm|]; [|exact I].
    destruct (func_info nm) as [[[nargs varargs] t]|] eqn:Hinfo; [|apply okp_syn; left; reflexivity].
    destruct ((negb varargs && negb (Nat.eqb (List.length args) nargs)) || (varargs && Nat.ltb (List.length args) nargs)) eqn:Har;
      [apply okp_exec; left; reflexivity|].
    apply (okp_apply_func _ nm args _ nargs varargs t Hinfo).
    + apply Forall_map_okp. rewrite Forall_forall in *. intros a Ha.
      eapply okp_mono; [|apply (proj1 (IHargs a Ha))]. intros x Hx. right. apply in_or_app. right.
      eapply positions_item; eassumption.
    + intros a Ha. right. apply in_or_app. right.
      eapply positions_item; [exact Ha | apply epos_in_positions].
    + exact Har.
  - intros. split; exact I.
  - (* reference *)
    intros p nm d [IH _]. split; [|exact I]. cbn [eval].
    eapply okp_mono; [|exact IH]. intros x Hx. right. exact Hx.
  - intros. split; exact I.
  - intros p d. split; [|exact I]. cbn [eval]. apply okp_bind; [apply okp_float_value | intros; exact I].
  - intros. split; exact I.
  - intros p l IH. split; [exact I|]. eapply Forall_impl; [|exact IH]. intros a [Ha _]. exact Ha.
  - (* access *)
    intros p l f [IHl _] _. split; [|exact I]. cbn [eval].
    assert (Hl : posin (EAccess p l f) (epos l)).
    { right. apply in_or_app. left. apply epos_in_positions. }
    assert (Hf : posin (EAccess p l f) (epos f)).
    { right. apply in_or_app. right. apply epos_in_positions. }
    apply okp_bind.
    + eapply okp_mono; [|exact IHl]. intros x Hx. right. apply in_or_app. now left.
    + intros lv. destruct f; try exact Hf.
      all: repeat first
        [ exact I | exact Hl
        | match goal with
          | |- okp _ (match ?x with _ => _ end) => destruct x
          end ].
Qed.

(* (i) row mode.  [eval_err_position] is the statement for ExecuteErrors; [eval_err_position_syntax]
   the same for the SyntaxErrors Execute can return (function lookup, field-name expression) *)
Theorem eval_err_position_lemma k v e p :
  eval fo re_match k v e = Err (EExec p) -> In p (positions e).
Proof. apply (okp_inv_exec (posin e)). exact (proj1 (eval_okp_strong k v e)). Qed.

Theorem eval_err_position_syntax_lemma k v e p :
  eval fo re_match k v e = Err (ESyntax p) -> In p (positions e).
Proof. apply (okp_inv_syn (posin e)). exact (proj1 (eval_okp_strong k v e)). Qed.

Lemma filter_row_okp k v e : okp (posin e) (filter_row fo re_match k v e).
Proof.
  unfold filter_row. apply okp_bind; [exact (proj1 (eval_okp_strong k v e))|].
  intros r. destruct r; try exact I; apply okp_exec, posin_epos.
Qed.

Theorem filter_row_err_position_lemma k v e p :
  filter_row fo re_match k v e = Err (EExec p) -> In p (positions e).
Proof. apply (okp_inv_exec (posin e)). apply filter_row_okp. Qed.

End RowEval.

Arguments okp_all_ok {fo} P rs _.
Arguments okp_nth {fo} P rs i _.

(* ================================================================== (i) the batch evaluator *)
Section BatchEval.
Variable fo : fops.
Variable re_match : bytes -> bytes -> res bool.
Variable fb : bool.                        (* EvalVec's fixed_between: either variant *)
Hypothesis re_ok : re_plain re_match.
Notation value := (value fo).
Implicit Types P Q : nat -> Prop.

Lemma okp_vmap P (f : value -> res value) xs : (forall x, okp P (f x)) -> okp P (vmap fo f xs).
Proof. intros H. unfold vmap. now apply okp_map_res. Qed.

Lemma okp_vmap2 P (f : value -> value -> res value) xs ys :
  (forall x y, okp P (f x y)) -> okp P (vmap2 fo f xs ys).
Proof.
  intros H. revert ys. induction xs as [|x xs IH]; intros [|y ys]; cbn; try exact I.
  apply okp_bind; [apply H|]. intros z. apply okp_bind; [apply IH|]. intros; exact I.
Qed.

Lemma okp_vmap3 P (f : value -> value -> value -> res value) xs ys zs :
  (forall x y z, okp P (f x y z)) -> okp P (vmap3 fo f xs ys zs).
Proof.
  intros H. revert ys zs. induction xs as [|x xs IH]; intros [|y ys] [|z zs]; cbn; try exact I.
  apply okp_bind; [apply H|]. intros w. apply okp_bind; [apply IH|]. intros; exact I.
Qed.

Lemma okp_eq_at P kd neg pos l r : P pos -> okp P (eq_at fo kd neg pos l r).
Proof. intros Hp. unfold eq_at. okp_tac. Qed.

Lemma okp_equal_batch P ch neg pos ls rs : P pos -> okp P (equal_batch fo ch neg pos ls rs).
Proof.
  intros Hp. unfold equal_batch. destruct ch; [exact I|]. destruct ls; [exact I|].
  destruct (eq_kind fo v); [|exact Hp]. apply okp_vmap2. intros; now apply okp_eq_at.
Qed.

Lemma okp_in_cols P number items rs :
  Forall (okp P) rs -> (forall it, In it items -> P (epos it)) ->
  okp P (in_cols fo number items rs).
Proof.
  intros H. revert rs H. induction items as [|it items IH]; intros rs H Hit; cbn; [exact I|].
  destruct rs as [|r rs]; [exact I|]. inversion H; subst.
  destruct (negb _); [apply okp_exec, Hit; now left|].
  apply okp_bind; [assumption|]. intros col. apply okp_bind; [|intros; exact I].
  apply IH; [assumption|]. intros x Hx. apply Hit. now right.
Qed.

Lemma okp_in_row P number left vals : Forall (okp P) vals -> okp P (in_row fo number left vals).
Proof.
  induction 1 as [|r vals Hr Hvals IH]; cbn; [exact I|].
  apply okp_bind; [assumption|]. intros lv.
  apply okp_bind; [destruct number; [apply okp_number_compare | apply okp_string_compare]|].
  intros c. destruct c; [exact I | exact IH].
Qed.

Lemma okp_heads P cols : Forall (okp P) (heads fo cols).
Proof. unfold heads. induction cols as [|c cols IH]; cbn; constructor; [destruct c; exact I | exact IH]. Qed.

Lemma okp_in_rows P number lefts : forall cols, okp P (in_rows fo number lefts cols).
Proof.
  induction lefts as [|lv lefts IH]; intros cols; cbn; [exact I|].
  apply okp_bind; [apply okp_in_row, okp_heads|]. intros b.
  apply okp_bind; [apply IH|]. intros; exact I.
Qed.

Lemma okp_in_fn_at P number pos left fret : P pos -> okp P (in_fn_at fo number pos left fret).
Proof.
  intros Hp. unfold in_fn_at. destruct (unpack_list fo fret) as [vals|]; [|exact Hp].
  apply okp_bind; [|intros; exact I]. apply okp_in_row.
  induction vals; cbn; constructor; [exact I | assumption].
Qed.

Lemma okp_between_at P number pos lo hi left : P pos -> okp P (between_at fo number pos lo hi left).
Proof.
  intros Hp. unfold between_at. destruct number; cbv beta iota zeta.
  all: repeat first
    [ exact I | assumption
    | apply okp_number_compare | apply okp_string_compare
    | apply okp_bind; [|intros ?]
    | match goal with
      | |- okp _ (if ?c then _ else _) => destruct c
      end ].
Qed.

Lemma okp_dict_access_at P lpos lv : P lpos -> okp P (dict_access_at fo lpos lv).
Proof. intros Hp. unfold dict_access_at. okp_tac. Qed.

Lemma okp_list_access_at P idx lpos lv : P lpos -> okp P (list_access_at fo idx lpos lv).
Proof. intros Hp. unfold list_access_at. okp_tac. Qed.

Lemma okp_nth_col P (cols : list (res (list value))) i : Forall (okp P) cols -> okp P (nth_col fo cols i).
Proof.
  intros H. unfold nth_col. destruct (lt_dec i (List.length cols)) as [Hi|Hi].
  - rewrite Forall_forall in H. apply H. now apply nth_In.
  - rewrite nth_overflow by lia. exact I.
Qed.

(* the vector body of a scalar function, after the arity check of ExecuteBatch *)
Lemma okp_apply_func_vec P nm args ch (cols : list (res (list value))) nargs varargs t :
  func_info nm = Some (nargs, varargs, t) ->
  Forall (okp P) cols ->
  (forall a, In a args -> P (epos a)) ->
  (forall a k v, In a args -> okp P (eval fo re_match k v a)) ->
  ((negb varargs && negb (Nat.eqb (List.length args) nargs)) || (varargs && Nat.ltb (List.length args) nargs)) = false ->
  okp P (apply_func_vec fo re_match nm args ch cols).
Proof.
  intros Hinfo Hcols Hargs Hev Har. unfold apply_func_vec.
  assert (Hrow : okp P (map_res (fun kv : kvpair =>
              apply_func fo nm args (map (eval fo re_match (fst kv) (snd kv)) args)) ch)).
  { apply okp_map_res. intros kv. apply (okp_apply_func fo P nm args _ nargs varargs t Hinfo); [|exact Hargs|exact Har].
    apply Forall_map_okp. apply Forall_forall. intros a Ha. now apply Hev. }
  assert (Hnth : forall i, i < List.length args -> P (epos (nth_arg args i))).
  { intros i Hi. apply Hargs. unfold nth_arg. now apply nth_In. }
  cbv zeta.
  repeat match goal with
  | |- okp _ (if String.eqb nm ?lit then _ else _) =>
      let E := fresh "E" in destruct (String.eqb nm lit) eqn:E;
      [ apply String.eqb_eq in E; subst nm; cbn in Hinfo; injection Hinfo as <- <- <-; cbn in Har | ]
  | |- okp _ (if String.eqb nm ?a || String.eqb nm ?b then _ else _) =>
      let E := fresh "E" in destruct (String.eqb nm a || String.eqb nm b) eqn:E;
      [ apply orb_true_iff in E; destruct E as [E|E]; apply String.eqb_eq in E; subst nm;
        cbn in Hinfo; injection Hinfo as <- <- <-; cbn in Har | ]
  end;
  try exact I; try exact Hrow.
  all: cbn in Har; rewrite ?orb_false_r, ?orb_false_l, ?andb_true_l, ?andb_false_l in Har;
       first [ apply negb_false_iff in Har; apply Nat.eqb_eq in Har | apply Nat.ltb_ge in Har | apply Nat.leb_gt in Har | idtac ].
  all: repeat first
    [ exact I
    | assumption
    | apply okp_nth_col; assumption
    | apply okp_vmap; intros ?
    | apply okp_vmap2; intros ? ?
    | apply okp_vmap3; intros ? ? ?
    | solve [auto with okp]
    | apply okp_to_int | apply okp_to_float | apply okp_to_float_list | apply okp_cosine | apply okp_l2
    | apply okp_bind; [|intros ?]
    | match goal with
      | |- okp _ (Err (EExec (epos (nth_arg _ _)))) => apply okp_exec, Hnth; lia
      | |- okp _ (match ?x with _ => _ end) => destruct x
      | |- okp _ (if ?c then _ else _) => destruct c
      end ].
Qed.

Notation ev := (eval fo re_match).
Notation evb := (eval_batch fo re_match fb).

Lemma Forall_map_okp_b P (l : list expr) (f : expr -> res (list value)) :
  Forall (fun e => okp P (f e)) l -> Forall (okp P) (map f l).
Proof. induction 1; cbn; constructor; auto. Qed.

Theorem eval_batch_okp_strong ch : forall e,
  okp (posin e) (evb e ch) /\
  match e with
  | EList _ items => Forall (fun x => okp (posin x) (evb x ch)) items
  | _ => True
  end.
Proof.
  apply expr_ind2.
  - (* binary *)
    intros p o l r [IHl _] [IHr IHr']. split; [|exact I].
    set (Q := fun x : nat => In x (p :: positions l ++ positions r)).
    change (okp Q (evb (EBin p o l r) ch)).
    assert (Qp : Q p) by (left; reflexivity).
    assert (Ql : forall x, posin l x -> Q x) by (intros x Hx; right; apply in_or_app; now left).
    assert (Qr : forall x, posin r x -> Q x) by (intros x Hx; right; apply in_or_app; now right).
    assert (Qel : Q (epos l)) by apply Ql, posin_epos.
    assert (Qer : Q (epos r)) by apply Qr, posin_epos.
    assert (El : okp Q (evb l ch)) by (eapply okp_mono; [exact Ql | exact IHl]).
    assert (Er : okp Q (evb r ch)) by (eapply okp_mono; [exact Qr | exact IHr]).
    clearbody Q. clear IHl IHr.
    destruct o; cbn [eval_batch].
    all: try (repeat first
      [ exact I | assumption
      | apply okp_math; assumption
      | apply okp_equal_batch; assumption
      | apply re_plain_okp; exact re_ok
      | apply okp_vmap2; intros ? ?
      | apply okp_bind; [|intros ?]
      | solve [auto with okp]
      | apply okp_number_compare | apply okp_string_compare
      | match goal with
        | |- okp _ (match ?x with _ => _ end) => destruct x
        | |- okp _ (if ?c then _ else _) => destruct c
        end ]; fail).
    + (* in *)
      apply okp_bind; [assumption|]. intros ls.
      destruct r; try assumption.
      * apply okp_bind; [assumption|]. intros frets. apply okp_vmap2. intros; now apply okp_in_fn_at.
      * apply okp_bind; [assumption|]. intros frets. apply okp_vmap2. intros; now apply okp_in_fn_at.
      * apply okp_bind; [|intros; apply okp_in_rows]. apply okp_in_cols.
        -- apply Forall_map_okp_b. rewrite Forall_forall in *. intros a Ha.
           eapply okp_mono; [|apply IHr', Ha]. intros x Hx. apply Qr. right.
           eapply positions_item; eassumption.
        -- intros it Hit. apply Qr. right. eapply positions_item; [exact Hit | apply epos_in_positions].
    + (* between *)
      apply okp_bind; [assumption|]. intros ls. destruct r; try assumption.
      destruct l0 as [|lo [|hi [|? ?]]]; try assumption.
      inversion IHr' as [|? ? Hlo Hr2]; subst. inversion Hr2 as [|? ? Hhi _]; subst.
      assert (Qlo : forall x, posin lo x -> Q x).
      { intros x Hx. apply Qr. right. cbn. apply in_or_app. now left. }
      assert (Qhi : forall x, posin hi x -> Q x).
      { intros x Hx. apply Qr. right. cbn. apply in_or_app. right. apply in_or_app. now left. }
      assert (Qelo : Q (epos lo)) by apply Qlo, posin_epos.
      assert (Qehi : Q (epos hi)) by apply Qhi, posin_epos.
      assert (Elo : okp Q (evb lo ch)) by (eapply okp_mono; [exact Qlo | exact Hlo]).
      assert (Ehi : okp Q (evb hi ch)) by (eapply okp_mono; [exact Qhi | exact Hhi]).
      repeat first
        [ exact I | assumption
        | apply okp_vmap3; intros ? ? ?; apply okp_between_at; assumption
        | apply okp_bind; [|intros ?]
        | match goal with
          | |- okp _ (if ?c then _ else _) => destruct c
          end ].
  - intros p f. split; [|exact I]. destruct f; exact I.
  - intros. split; exact I.
  - (* not *)
    intros p r [IH _]. split; [|exact I]. cbn [eval_batch]. apply okp_bind.
    + eapply okp_mono; [|exact IH]. intros x Hx. right. exact Hx.
    + intros rs. apply okp_vmap. intros rv. destruct rv; try exact I; apply okp_exec; right; apply posin_epos.
  - (* call *)
    intros p n args _ IHargs. split; [|exact I]. cbn [eval_batch].
    destruct n; try (apply okp_syn; left; reflexivity).
    destruct (call_name _) as [nm|]; [|exact I].
    destruct (func_info nm) as [[[nargs varargs] t]|] eqn:Hinfo; [|apply okp_syn; left; reflexivity].
    destruct ((negb varargs && negb (Nat.eqb (List.length args) nargs)) || (varargs && Nat.ltb (List.length args) nargs)) eqn:Har;
      [apply okp_exec; left; reflexivity|].
    apply (okp_apply_func_vec _ nm args ch _ nargs varargs t Hinfo).
    + apply Forall_map_okp_b. rewrite Forall_forall in *. intros a Ha.
      eapply okp_mono; [|apply (proj1 (IHargs a Ha))]. intros x Hx. right. apply in_or_app. right.
      eapply positions_item; eassumption.
    + intros a Ha. right. apply in_or_app. right.
      eapply positions_item; [exact Ha | apply epos_in_positions].
    + intros a k v Ha. eapply okp_mono; [|exact (proj1 (eval_okp_strong fo re_match re_ok k v a))].
      intros x Hx. right. apply in_or_app. right. eapply positions_item; eassumption.
    + exact Har.
  - intros. split; exact I.
  - (* reference *)
    intros p nm d [IH _]. split; [|exact I]. cbn [eval_batch].
    eapply okp_mono; [|exact IH]. intros x Hx. right. exact Hx.
  - intros. split; exact I.
  - intros p d. split; [|exact I]. cbn [eval_batch]. apply okp_bind; [apply okp_float_value | intros; exact I].
  - intros. split; exact I.
  - intros p l IH. split; [exact I|]. eapply Forall_impl; [|exact IH]. intros a [Ha _]. exact Ha.
  - (* access *)
    intros p l f [IHl _] _. split; [|exact I]. cbn [eval_batch].
    assert (Hl : posin (EAccess p l f) (epos l)).
    { right. apply in_or_app. left. apply epos_in_positions. }
    assert (Hf : posin (EAccess p l f) (epos f)).
    { right. apply in_or_app. right. apply epos_in_positions. }
    apply okp_bind.
    + eapply okp_mono; [|exact IHl]. intros x Hx. right. apply in_or_app. now left.
    + intros ls. destruct f; try exact Hf.
      * apply okp_vmap. intros; now apply okp_dict_access_at.
      * apply okp_vmap. intros; now apply okp_list_access_at.
Qed.

Theorem eval_batch_err_position_lemma e ch p :
  evb e ch = Err (EExec p) -> In p (positions e).
Proof. apply (okp_inv_exec (posin e)). exact (proj1 (eval_batch_okp_strong ch e)). Qed.

Theorem eval_batch_err_position_syntax_lemma e ch p :
  evb e ch = Err (ESyntax p) -> In p (positions e).
Proof. apply (okp_inv_syn (posin e)). exact (proj1 (eval_batch_okp_strong ch e)). Qed.

Lemma filter_batch_okp e ch : okp (posin e) (filter_batch fo re_match fb e ch).
Proof.
  unfold filter_batch. apply okp_bind; [exact (proj1 (eval_batch_okp_strong ch e))|].
  intros rs. apply okp_map_res. intros r. destruct r; try exact I; apply okp_exec, posin_epos.
Qed.

Theorem filter_batch_err_position_lemma e ch p :
  filter_batch fo re_match fb e ch = Err (EExec p) -> In p (positions e).
Proof. apply (okp_inv_exec (posin e)). apply filter_batch_okp. Qed.

End BatchEval.

(* ================================================================== (i) statement level: the
   scan + filter + projection drain of a SELECT without ORDER BY / GROUP BY / LIMIT
   (Model/ScanProj.v), row mode and batch mode *)
Section Drain.
Variables (Pr R : Type).
Variable frow : Pr -> res bool.
Variable fbatch : list Pr -> res (list bool).
Variable prow : Pr -> res R.
Variable pbatch : list Pr -> res (list R).
Variable Q : nat -> Prop.
Hypothesis Hfrow : forall kv, okp Q (frow kv).
Hypothesis Hfbatch : forall ch, okp Q (fbatch ch).
Hypothesis Hprow : forall kv, okp Q (prow kv).
Hypothesis Hpbatch : forall ch, okp Q (pbatch ch).

Lemma okp_scan_next rest : okp Q (scan_next frow rest).
Proof.
  induction rest as [|[kv|] rest IH]; cbn; [exact I| |exact IH].
  apply okp_bind; [apply Hfrow|]. intros ok. destruct ok; [exact I | exact IH].
Qed.

Lemma okp_proj_next rest : okp Q (proj_next frow prow rest).
Proof.
  unfold proj_next. apply okp_bind; [apply okp_scan_next|]. intros [[kv|] rest']; [|exact I].
  apply okp_bind; [apply Hprow | intros; exact I].
Qed.

Lemma okp_drain_row_fuel fuel : forall rest, okp Q (drain_row_fuel frow prow fuel rest).
Proof.
  induction fuel as [|f IH]; intros rest; cbn; [exact I|].
  apply okp_bind; [apply okp_proj_next|]. intros [[row|] rest']; [|exact I].
  apply okp_bind; [apply IH | intros; exact I].
Qed.

Lemma okp_drain_row rest : okp Q (drain_row frow prow rest).
Proof. apply okp_drain_row_fuel. Qed.

Lemma okp_select_matches (ms : list bool) : forall chunk : list Pr, okp Q (select_matches chunk ms).
Proof.
  induction ms as [|m ms IH]; intros [|kv chunk]; cbn; try exact I.
  apply okp_bind; [apply IH | intros; exact I].
Qed.

Lemma okp_scan_batch_loop fuel B : forall rest ret, okp Q (scan_batch_loop fbatch fuel B rest ret).
Proof.
  induction fuel as [|f IH]; intros rest ret; cbn [scan_batch_loop]; [exact I|]. cbv zeta.
  destruct (somes (firstn B rest)) as [|kv chunk].
  - match goal with |- okp _ (if ?c then _ else _) => destruct c end; [exact I | apply IH].
  - apply okp_bind; [apply Hfbatch|]. intros ms.
    apply okp_bind; [apply okp_select_matches|]. intros sel.
    match goal with |- okp _ (if ?c then _ else _) => destruct c end; [exact I | apply IH].
Qed.

Lemma okp_proj_batch B rest : okp Q (proj_batch fbatch pbatch B rest).
Proof.
  unfold proj_batch, scan_batch. apply okp_bind; [apply okp_scan_batch_loop|].
  intros [[|kv kvs] rest']; [exact I|]. apply okp_bind; [apply Hpbatch | intros; exact I].
Qed.

Lemma okp_drain_batch_fuel fuel B : forall rest, okp Q (drain_batch_fuel fbatch pbatch fuel B rest).
Proof.
  induction fuel as [|f IH]; intros rest; cbn; [exact I|].
  apply okp_bind; [apply okp_proj_batch|]. intros [[|row rows] rest']; [exact I|].
  apply okp_bind; [apply IH | intros; exact I].
Qed.

Lemma okp_drain_batch B rest : okp Q (drain_batch fbatch pbatch B rest).
Proof. apply okp_drain_batch_fuel. Qed.

End Drain.

Section SelectDrain.
Variable fo : fops.
Variable re_match : bytes -> bytes -> res bool.
Hypothesis re_ok : re_plain re_match.
Notation value := (value fo).

Definition posin_list (l : list expr) : nat -> Prop := fun p => In p (flat_map positions l).

Lemma posin_list_item l x p : In x l -> posin x p -> posin_list l p.
Proof. intros Hx Hp. eapply positions_item; eassumption. Qed.

(* processProjection: "Expression result type not support" is raised at the field *)
Lemma project_row_okp fields kv : okp (posin_list fields) (project_row fo re_match fields kv).
Proof.
  induction fields as [|f fields IH]; cbn [project_row]; [exact I|].
  assert (Hf : forall p, posin f p -> posin_list (f :: fields) p).
  { intros p Hp. apply (posin_list_item (f :: fields) f); [now left | exact Hp]. }
  apply okp_bind.
  - eapply okp_mono; [exact Hf|]. exact (proj1 (eval_okp_strong fo re_match re_ok (fst kv) (snd kv) f)).
  - intros v. assert (Hrest : okp (posin_list (f :: fields)) (do vs <- project_row fo re_match fields kv; Ok (v :: vs))).
    { apply okp_bind; [|intros; exact I]. eapply okp_mono; [|exact IH].
      intros p Hp. unfold posin_list in *. cbn. apply in_or_app. now right. }
    destruct v; try exact Hrest. apply okp_exec, Hf, posin_epos.
Qed.

Lemma project_cols_okp fields ch : okp (posin_list fields) (project_cols fo re_match fields ch).
Proof.
  induction fields as [|f fields IH]; cbn [project_cols]; [exact I|].
  apply okp_bind.
  - eapply okp_mono; [|exact (proj1 (eval_batch_okp_strong fo re_match true re_ok ch f))].
    intros p Hp. apply (posin_list_item (f :: fields) f); [now left | exact Hp].
  - intros col. apply okp_bind; [|intros; exact I]. eapply okp_mono; [|exact IH].
    intros p Hp. unfold posin_list in *. cbn. apply in_or_app. now right.
Qed.

Lemma transpose_okp P (ch : list kvpair) : forall cols : list (list value), okp P (transpose fo ch cols).
Proof.
  induction ch as [|kv ch IH]; intros cols; cbn; [exact I|].
  apply okp_bind; [apply okp_all_ok, okp_heads|]. intros row.
  apply okp_bind; [apply IH | intros; exact I].
Qed.

Lemma project_batch_okp fields ch : okp (posin_list fields) (project_batch fo re_match fields ch).
Proof.
  unfold project_batch. apply okp_bind; [apply project_cols_okp | intros; apply transpose_okp].
Qed.

(* the positions a SELECT's drain can report: nodes of the WHERE tree and of the fields *)
Definition select_positions (wh : expr) (fields : option (list expr)) : list nat :=
  positions wh ++ match fields with Some fs => flat_map positions fs | None => [] end.

Lemma sel_prow_okp wh fields kv :
  okp (fun p => In p (select_positions wh fields)) (sel_prow fo re_match fields kv).
Proof.
  destruct fields as [fs|]; cbn; [|exact I].
  eapply okp_mono; [|apply project_row_okp]. intros p Hp. apply in_or_app. now right.
Qed.

Lemma sel_pbatch_okp wh fields ch :
  okp (fun p => In p (select_positions wh fields)) (sel_pbatch fo re_match fields ch).
Proof.
  destruct fields as [fs|]; cbn; [|exact I].
  eapply okp_mono; [|apply project_batch_okp]. intros p Hp. apply in_or_app. now right.
Qed.

Theorem select_row_okp wh fields slots :
  okp (fun p => In p (select_positions wh fields)) (select_row fo re_match wh fields slots).
Proof.
  unfold select_row. apply okp_drain_row.
  - intros kv. eapply okp_mono; [|apply (filter_row_okp fo re_match re_ok)].
    intros p Hp. apply in_or_app. now left.
  - intros kv. apply sel_prow_okp.
Qed.

Theorem select_batch_okp B wh fields slots :
  okp (fun p => In p (select_positions wh fields)) (select_batch fo re_match B wh fields slots).
Proof.
  unfold select_batch. apply okp_drain_batch.
  - intros ch. eapply okp_mono; [|apply (filter_batch_okp fo re_match true re_ok)].
    intros p Hp. apply in_or_app. now left.
  - intros ch. apply sel_pbatch_okp.
Qed.

Theorem select_row_err_position_lemma wh fields slots p :
  select_row fo re_match wh fields slots = Err (EExec p) -> In p (select_positions wh fields).
Proof. apply (okp_inv_exec (fun p => In p (select_positions wh fields))). apply select_row_okp. Qed.

Theorem select_batch_err_position_lemma B wh fields slots p :
  select_batch fo re_match B wh fields slots = Err (EExec p) -> In p (select_positions wh fields).
Proof. apply (okp_inv_exec (fun p => In p (select_positions wh fields))). apply select_batch_okp. Qed.

End SelectDrain.

(* ================================================================== (ii) the constant folder *)
Section FoldPos.
Variable fo : fops.
Variable re_match : bytes -> bytes -> res bool.
Variable fmt_v : F fo -> string.
Variable P : nat -> Prop.

Notation optimize := (Fold.optimize fo re_match fmt_v).
Notation opt_args := (Fold.opt_args fo re_match fmt_v).
Notation try_exec := (Fold.try_exec fo re_match fmt_v).
Notation call_fold := (Fold.call_fold fo re_match fmt_v).
Notation finish_bin := (Fold.finish_bin fo re_match fmt_v).
Notation fold := (Fold.fold fo re_match fmt_v).
Notation exec_child := (FoldProofs.exec_child fo re_match fmt_v).
Notation exec_node := (FoldProofs.exec_node fo re_match fmt_v).

(* every Pos of the tree satisfies P *)
Definition allp (e : expr) : Prop := Forall P (positions e).

Lemma allp_epos e : allp e -> P (epos e).
Proof. unfold allp. rewrite Forall_forall. intros H. apply H, epos_in_positions. Qed.

Lemma allp_bin p o l r : allp (EBin p o l r) <-> P p /\ allp l /\ allp r.
Proof. unfold allp. cbn [positions]. rewrite Forall_cons_iff, Forall_app. tauto. Qed.

Lemma allp_items l : Forall P (flat_map positions l) <-> Forall allp l.
Proof.
  unfold allp. induction l as [|x l IH]; cbn [flat_map].
  - split; constructor.
  - rewrite Forall_app, Forall_cons_iff, IH. tauto.
Qed.

Lemma allp_call p n args : allp (ECall p n args) <-> P p /\ allp n /\ Forall allp args.
Proof. unfold allp at 1. cbn [positions]. rewrite Forall_cons_iff, Forall_app, allp_items. tauto. Qed.

Lemma allp_lit_str p s : P p -> allp (EStr p s).
Proof. intros H. constructor; [exact H | constructor]. Qed.
Lemma allp_lit_num p s : P p -> allp (ENum p s).
Proof. intros H. constructor; [exact H | constructor]. Qed.
Lemma allp_lit_float p s : P p -> allp (EFloat p s).
Proof. intros H. constructor; [exact H | constructor]. Qed.
Lemma allp_lit_bool p b : P p -> allp (EBool p b).
Proof. intros H. constructor; [exact H | constructor]. Qed.

(* tryReorderBinaryOp: the new BinaryOpExpr takes e.GetPos(); the position of the left operator
   node that is dissolved disappears *)
Lemma reorder_pos : forall e, allp e -> allp (reorder e).
Proof.
  induction e as [p o l IHl r IHr| | | | | | | | | | |]; try (intros H; exact H).
  intros H. apply allp_bin in H as (Hp & Hl & Hr). rewrite reorder_eq.
  specialize (IHl Hl). specialize (IHr Hr).
  destruct (site_of o (reorder l) (reorder r)) as [[[x c1] c2]|] eqn:S.
  - apply site_of_inv in S as (_ & (lp & El) & Er & _). rewrite El in IHl. rewrite Er in IHr.
    apply allp_bin in IHl as (_ & Hx & Hc1).
    apply allp_bin. split; [exact Hp|]. split; [exact Hx|]. apply allp_bin. auto.
  - apply allp_bin. auto.
Qed.

(* tryOptimizeFunctionCall after its argument loop: the call itself or a literal at e.GetPos() *)
Lemma call_fold_pos p n args : allp (ECall p n args) -> allp (fst (call_fold p n args)).
Proof.
  intros H. assert (Hp : P p) by (apply allp_call in H; tauto).
  unfold Fold.call_fold. cbv zeta.
  repeat match goal with
  | |- allp (fst (if ?c then _ else _)) => destruct c
  | |- allp (fst (match ?x with _ => _ end)) => destruct x
  | |- allp (fst (_, _)) => cbn [fst]
  end; first [ exact H | now apply allp_lit_str | now apply allp_lit_num | now apply allp_lit_float | now apply allp_lit_bool ].
Qed.

Lemma exec_node_pos p o l' lv r' rv :
  P p -> allp l' -> allp r' -> allp (fst (exec_node p o l' lv r' rv)).
Proof.
  intros Hp Hl Hr. assert (He : allp (EBin p o l' r')) by (apply allp_bin; auto).
  assert (Hlp : P (epos l')) by now apply allp_epos.
  unfold FoldProofs.exec_node. cbv zeta.
  repeat match goal with
  | |- allp (fst (if ?c then _ else _)) => destruct c
  | |- allp (fst (match ?x with _ => _ end)) => destruct x
  | |- allp (fst (_, _)) => cbn [fst]
  end; first [ exact He | now apply allp_lit_str | now apply allp_lit_num | now apply allp_lit_float | now apply allp_lit_bool ].
Qed.

(* tryOptimizeBinaryOpExecute: a folded literal takes the position of the (folded) LEFT operand *)
Lemma try_exec_pos : forall e, allp e -> allp (fst (try_exec e)).
Proof.
  induction e as [p o l IHl r IHr| | | | | | | | | | |]; try (intros H; exact H).
  intros H. apply allp_bin in H as (Hp & Hl & Hr). rewrite try_exec_eq.
  assert (Hc : forall c, allp c -> (allp c -> allp (fst (try_exec c))) -> allp (fst (exec_child c))).
  { intros c Hc IH. unfold FoldProofs.exec_child. destruct c; try exact Hc.
    - now apply IH.
    - now apply call_fold_pos. }
  apply exec_node_pos; [exact Hp | now apply Hc | now apply Hc].
Qed.

(* tryOptimizeAndOr: an operand, or a literal at the position of the operand it stands for *)
Lemma and_or_pos e : allp e -> allp (fst (and_or e)).
Proof.
  intros H. destruct e; try exact H. apply allp_bin in H as H'. destruct H' as (Hp & Hl & Hr).
  assert (Hel : P (epos e1)) by now apply allp_epos.
  assert (Her : P (epos e2)) by now apply allp_epos.
  unfold and_or.
  repeat match goal with
  | |- allp (fst (if ?c then _ else _)) => destruct c
  | |- allp (fst (match ?x with _ => _ end)) => destruct x
  | |- allp (fst (_, _)) => cbn [fst]
  end; first [ exact H | exact Hl | exact Hr | now apply allp_lit_bool ].
Qed.

Lemma finish_bin_pos e : allp e -> allp (finish_bin e).
Proof. intros H. unfold Fold.finish_bin. apply and_or_pos, try_exec_pos, reorder_pos, H. Qed.

Lemma Forall_map_allp (f : expr -> expr) l :
  Forall (fun a => allp a -> allp (f a)) l -> Forall allp l -> Forall allp (map f l).
Proof.
  induction 1 as [|a l Ha Hl IH]; intros H; cbn; [constructor|].
  inversion H; subst. constructor; auto.
Qed.

(* optimize and the argument loops *)
Lemma optimize_pos_both : forall e, (allp e -> allp (optimize e)) /\ (allp e -> allp (opt_args e)).
Proof.
  apply expr_ind2; try (intros; split; intros Hx; exact Hx).
  - (* binary *)
    intros p o l r [_ IHl] [_ IHr].
    assert (Ha : allp (EBin p o l r) -> allp (EBin p o (opt_args l) (opt_args r))).
    { intros H. apply allp_bin in H as (Hp & Hl & Hr). apply allp_bin. auto. }
    split; intros H.
    + rewrite optimize_bin_eq. apply finish_bin_pos, Ha, H.
    + rewrite opt_args_bin_eq. apply Ha, H.
  - (* call *)
    intros p n args _ IHargs.
    assert (Ha : allp (ECall p n args) -> allp (ECall p n (map optimize args))).
    { intros H. apply allp_call in H as (Hp & Hn & Hargs). apply allp_call. split; [exact Hp|]. split; [exact Hn|].
      apply Forall_map_allp; [|exact Hargs]. eapply Forall_impl; [|exact IHargs]. intros a [Ho _]. exact Ho. }
    split; intros H.
    + rewrite optimize_call_eq. apply call_fold_pos, Ha, H.
    + rewrite opt_args_call_eq. apply Ha, H.
Qed.

Lemma optimize_pos e : allp e -> allp (optimize e).
Proof. exact (proj1 (optimize_pos_both e)). Qed.
Lemma opt_args_pos e : allp e -> allp (opt_args e).
Proof. exact (proj2 (optimize_pos_both e)). Qed.

Theorem fold_pos e : allp e -> allp (fold e).
Proof. intros H. unfold Fold.fold. apply optimize_pos, optimize_pos, H. Qed.

(* ---- the objects the folder rewrites in place (Model/FoldStmt.v) ---- *)
Notation after_pass := (FoldStmt.after_pass fo re_match fmt_v).
Notation in_place := (FoldStmt.in_place fo re_match fmt_v).
Notation relink := (FoldStmt.relink fo re_match fmt_v).
Notation exec_tree := (FoldStmt.exec_tree fo re_match fmt_v).

Lemma exec_operand_pos c : allp c -> allp (exec_operand fo re_match fmt_v c).
Proof.
  intros H. unfold exec_operand. destruct c; try exact H.
  - now apply try_exec_pos.
  - now apply call_fold_pos.
Qed.

Lemma after_pass_pos e : allp e -> allp (after_pass e).
Proof.
  intros H. destruct e; try exact H.
  - cbn [FoldStmt.after_pass].
    assert (Hr : allp (reorder (EBin pos o (opt_args e1) (opt_args e2)))).
    { apply reorder_pos. apply allp_bin in H as (Hp & Hl & Hr). apply allp_bin.
      split; [exact Hp|]. split; now apply opt_args_pos. }
    destruct (reorder (EBin pos o (opt_args e1) (opt_args e2))); try exact Hr.
    apply allp_bin in Hr as (Hp & Hl & Hr). apply allp_bin.
    split; [exact Hp|]. split; now apply exec_operand_pos.
  - cbn [FoldStmt.after_pass]. apply allp_call in H as (Hp & Hn & Hargs). apply allp_call.
    split; [exact Hp|]. split; [exact Hn|]. apply Forall_map_allp; [|exact Hargs].
    apply Forall_forall. intros a _. apply optimize_pos.
Qed.

Lemma in_place_pos e : allp e -> allp (in_place e).
Proof.
  intros H. unfold FoldStmt.in_place. cbv zeta.
  assert (H1 : allp (after_pass e)) by now apply after_pass_pos.
  destruct (was_folded fo re_match fmt_v e); [exact H1|].
  destruct (after_pass e) as [p o l' r'| | | | | | | | | | |]; try exact H1.
  - assert (H2 : allp (after_pass (EBin p o l' r'))) by now apply after_pass_pos.
    destruct (proj1 (allp_bin p o l' r') H1) as (Hp & Hl & Hr).
    destruct (negb _); [exact H2|].
    destruct (bool_lit l'), (bool_lit r'); try exact H1; try exact H2.
    + destruct (Bool.eqb _ _); [|exact H1]. apply allp_bin. split; [exact Hp|]. split; [exact Hl | now apply after_pass_pos].
    + destruct (Bool.eqb _ _); [|exact H1]. apply allp_bin. split; [exact Hp|]. split; [now apply after_pass_pos | exact Hr].
  - now apply after_pass_pos.
Qed.

Lemma relink_pos : forall e, allp e -> allp (relink e).
Proof.
  apply (expr_ind2 (fun e => allp e -> allp (relink e))); try (intros; assumption).
  - intros p o l r IHl IHr H. apply allp_bin in H as (Hp & Hl & Hr). cbn [FoldStmt.relink]. apply allp_bin. auto.
  - intros p r IH H. cbn [FoldStmt.relink]. unfold allp in *. cbn [positions] in *.
    apply Forall_cons_iff in H as [Hp Hr]. apply Forall_cons_iff. auto.
  - intros p n args _ IHargs H. cbn [FoldStmt.relink]. apply allp_call in H as (Hp & Hn & Hargs). apply allp_call.
    split; [exact Hp|]. split; [exact Hn|]. now apply Forall_map_allp.
  - intros p nm d IH H. cbn [FoldStmt.relink]. unfold allp in H. cbn [positions] in H.
    apply Forall_cons_iff in H as [Hp Hd].
    assert (Hd' : allp (in_place (relink d))) by (apply in_place_pos, IH, Hd).
    unfold allp. cbn [positions]. apply Forall_cons_iff. split; [exact Hp | exact Hd'].
  - intros p l IH H. cbn [FoldStmt.relink]. unfold allp in *. cbn [positions] in *.
    apply Forall_cons_iff in H as [Hp Hl]. apply Forall_cons_iff. split; [exact Hp|].
    apply allp_items. apply allp_items in Hl. now apply Forall_map_allp.
  - intros p l f IHl IHf H. cbn [FoldStmt.relink]. unfold allp in *. cbn [positions] in *.
    apply Forall_cons_iff in H as [Hp H]. apply Forall_app in H as [Hl Hf].
    apply Forall_cons_iff. split; [exact Hp|]. apply Forall_app. split; [now apply IHl | now apply IHf].
Qed.

Theorem exec_tree_pos e : allp e -> allp (exec_tree e).
Proof. intros H. unfold FoldStmt.exec_tree. apply relink_pos, fold_pos, H. Qed.

End FoldPos.

(* ---- (ii) in terms of lists: the folder invents no position ---- *)
Section FoldIncl.
Variable fo : fops.
Variable re_match : bytes -> bytes -> res bool.
Variable fmt_v : F fo -> string.

Lemma allp_incl (f : expr -> expr) :
  (forall (P : nat -> Prop) e, allp P e -> allp P (f e)) -> forall e, incl (positions (f e)) (positions e).
Proof.
  intros H e p Hp. specialize (H (fun x => In x (positions e)) e). unfold allp in H.
  rewrite !Forall_forall in H. apply H; auto.
Qed.

Theorem reorder_positions_lemma e : incl (positions (reorder e)) (positions e).
Proof. apply (allp_incl reorder). intros P x. apply reorder_pos. Qed.

Theorem optimize_positions_lemma e :
  incl (positions (Fold.optimize fo re_match fmt_v e)) (positions e).
Proof. apply (allp_incl (Fold.optimize fo re_match fmt_v)). intros P x. apply optimize_pos. Qed.

Theorem fold_positions_lemma e : incl (positions (Fold.fold fo re_match fmt_v e)) (positions e).
Proof. apply (allp_incl (Fold.fold fo re_match fmt_v)). intros P x. apply fold_pos. Qed.

Theorem in_place_positions_lemma e : incl (positions (in_place fo re_match fmt_v e)) (positions e).
Proof. apply (allp_incl (in_place fo re_match fmt_v)). intros P x. apply in_place_pos. Qed.

Theorem exec_tree_positions_lemma e : incl (positions (exec_tree fo re_match fmt_v e)) (positions e).
Proof. apply (allp_incl (exec_tree fo re_match fmt_v)). intros P x. apply exec_tree_pos. Qed.

(* a folded literal stands at the position of the node it replaces (a call) or of its left
   operand (a binary operator): the root of the folded tree keeps a position of the tree *)
Theorem fold_root_position_lemma e : In (epos (Fold.fold fo re_match fmt_v e)) (positions e).
Proof. apply fold_positions_lemma, epos_in_positions. Qed.

(* An error met WHILE folding is not reported: tryOptimizeBinaryOpExecute / tryOptimizeFunctionCall
   test `err == nil` and otherwise return the node unfolded -- BuildPlan cannot fail in the folder,
   the error (with its position, a node of the tree by part (i)) comes back when the plan
   executes the node.  In the twin [fold] is a total function into trees; the two places: *)
Theorem try_exec_error_unfolded_lemma p o l r x :
  is_value l = true -> is_value r = true ->
  const_eval fo re_match (EBin p o l r) = Err x ->
  Fold.try_exec fo re_match fmt_v (EBin p o l r) = (EBin p o l r, false).
Proof.
  intros Hl Hr He. rewrite try_exec_eq.
  assert (Cl : FoldProofs.exec_child fo re_match fmt_v l = (l, true)) by (destruct l; try discriminate Hl; reflexivity).
  assert (Cr : FoldProofs.exec_child fo re_match fmt_v r = (r, true)) by (destruct r; try discriminate Hr; reflexivity).
  rewrite Cl, Cr. cbn [fst snd]. unfold FoldProofs.exec_node. cbv zeta. cbn [andb negb].
  rewrite He. destruct o; reflexivity.
Qed.

Theorem call_fold_error_unfolded_lemma p n args x :
  const_eval fo re_match (ECall p n args) = Err x ->
  Fold.call_fold fo re_match fmt_v p n args = (ECall p n args, false).
Proof.
  intros He. unfold Fold.call_fold. cbv zeta. rewrite He.
  destruct (negb _); [reflexivity|]. destruct (rtype (ECall p n args)); reflexivity.
Qed.

End FoldIncl.

(* ================================================================== (iii) composition with
   Model/ParseCheck.v: positions of execution errors of an ACCEPTED query text *)
Section Compose.
Variable fo : fops.
Variable re_match : bytes -> bytes -> res bool.
Variable fmt_v : F fo -> string.
Hypothesis re_ok : re_plain re_match.

Notation fold := (Fold.fold fo re_match fmt_v).
Notation exec_tree := (FoldStmt.exec_tree fo re_match fmt_v).

(* the offset is 0 or the start of one of the query's tokens, and lies inside the query *)
Definition good_pos (q : string) (p : nat) : Prop :=
  let z := Z.of_nat p in
  (z = 0%Z \/ In z (zstarts (lex q))) /\ pos_in_query q z = true.

(* the tree X carries only positions stored in the checked statement c *)
Definition runs_tree (c : Checker.stmt) (X : expr) : Prop := incl (positions X) (cstmt_positions c).

Lemma accepted_good q s c a :
  parse_check fo re_match fmt_v q = PCOk s c a -> forall p, In p (cstmt_positions c) -> good_pos q p.
Proof.
  intros E p Hp. destruct (parse_check_ok_positions_thm fo re_match fmt_v q s c a E) as (_ & _ & Hc & Hq).
  rewrite Forall_forall in Hc, Hq. split.
  - destruct (Hc p Hp) as [->|Hin]; [left; reflexivity | right; unfold zstarts; now apply in_map].
  - apply Hq. apply in_or_app. now right.
Qed.

Lemma runs_checked c T : In T (cstmt_exprs c) -> runs_tree c T.
Proof.
  intros HT p Hp. unfold cstmt_positions. apply in_or_app. left. apply in_flat_map. exists T. split; assumption.
Qed.

Lemma runs_fold c T : runs_tree c T -> runs_tree c (fold T).
Proof. intros H p Hp. apply H. eapply fold_positions_lemma; exact Hp. Qed.

Lemma runs_exec_tree c T : runs_tree c T -> runs_tree c (exec_tree T).
Proof. intros H p Hp. apply H. eapply exec_tree_positions_lemma; exact Hp. Qed.

(* any tree that carries only positions of the checked statement, all four entry points *)
Theorem exec_err_pos_general_lemma q s c a X :
  parse_check fo re_match fmt_v q = PCOk s c a -> runs_tree c X ->
  (forall k v p, eval fo re_match k v X = Err (EExec p) -> good_pos q p) /\
  (forall k v p, filter_row fo re_match k v X = Err (EExec p) -> good_pos q p) /\
  (forall fb ch p, eval_batch fo re_match fb X ch = Err (EExec p) -> good_pos q p) /\
  (forall fb ch p, filter_batch fo re_match fb X ch = Err (EExec p) -> good_pos q p).
Proof.
  intros E HX. pose proof (accepted_good q s c a E) as G.
  split; [|split; [|split]]; intros.
  - eapply G, HX, eval_err_position_lemma; eassumption.
  - eapply G, HX, filter_row_err_position_lemma; eassumption.
  - eapply G, HX, eval_batch_err_position_lemma; eassumption.
  - eapply G, HX, filter_batch_err_position_lemma; eassumption.
Qed.

(* the statement of the task: T a tree of the checked statement, its folded form, every pair *)
Theorem exec_err_pos_row_lemma q s c a T k v p :
  parse_check fo re_match fmt_v q = PCOk s c a -> In T (cstmt_exprs c) ->
  eval fo re_match k v (fold T) = Err (EExec p) \/ filter_row fo re_match k v (fold T) = Err (EExec p) ->
  good_pos q p.
Proof.
  intros E HT H.
  destruct (exec_err_pos_general_lemma q s c a (fold T) E (runs_fold c T (runs_checked c T HT))) as (A & B & _ & _).
  destruct H; eauto.
Qed.

Theorem exec_err_pos_batch_lemma q s c a T fb ch p :
  parse_check fo re_match fmt_v q = PCOk s c a -> In T (cstmt_exprs c) ->
  eval_batch fo re_match fb (fold T) ch = Err (EExec p) \/
  filter_batch fo re_match fb (fold T) ch = Err (EExec p) ->
  good_pos q p.
Proof.
  intros E HT H.
  destruct (exec_err_pos_general_lemma q s c a (fold T) E (runs_fold c T (runs_checked c T HT))) as (_ & _ & A & B).
  destruct H; eauto.
Qed.

(* the same for the tree the plan really executes (references see the field objects as the
   folder left them, Model/FoldStmt.v) and for the checked tree itself (PUT / REMOVE trees are
   not folded) *)
Theorem exec_err_pos_exec_tree_lemma q s c a T p :
  parse_check fo re_match fmt_v q = PCOk s c a -> In T (cstmt_exprs c) ->
  (exists k v, eval fo re_match k v (exec_tree T) = Err (EExec p) \/
               filter_row fo re_match k v (exec_tree T) = Err (EExec p)) \/
  (exists fb ch, eval_batch fo re_match fb (exec_tree T) ch = Err (EExec p) \/
                 filter_batch fo re_match fb (exec_tree T) ch = Err (EExec p)) ->
  good_pos q p.
Proof.
  intros E HT H.
  destruct (exec_err_pos_general_lemma q s c a (exec_tree T) E (runs_exec_tree c T (runs_checked c T HT))) as (A & B & C & D).
  destruct H as [(k & v & [H|H])|(fb & ch & [H|H])]; eauto.
Qed.

Theorem exec_err_pos_unfolded_lemma q s c a T p :
  parse_check fo re_match fmt_v q = PCOk s c a -> In T (cstmt_exprs c) ->
  (exists k v, eval fo re_match k v T = Err (EExec p)) \/
  (exists fb ch, eval_batch fo re_match fb T ch = Err (EExec p)) ->
  good_pos q p.
Proof.
  intros E HT H.
  destruct (exec_err_pos_general_lemma q s c a T E (runs_checked c T HT)) as (A & _ & C & _).
  destruct H as [(k & v & H)|(fb & ch & H)]; eauto.
Qed.

(* statement level: SELECT fields WHERE w, scan + filter + projection, drained in row mode or in
   batch mode, over any stream of slots, at any batch size, with the trees the plan executes *)
Definition exec_fields (fields : list (string * expr)) : list expr := map (fun nf => exec_tree (snd nf)) fields.

Lemma select_positions_runs fields w order all_fields :
  incl (select_positions (exec_tree w) (if all_fields : bool then None else Some (exec_fields fields)))
       (cstmt_positions (Checker.SSelect fields w order)).
Proof.
  intros p Hp. unfold select_positions in Hp. apply in_app_or in Hp as [Hp|Hp].
  - apply (runs_exec_tree (Checker.SSelect fields w order) w); [|exact Hp].
    apply runs_checked. cbn. apply in_or_app. right. now left.
  - destruct all_fields; [destruct Hp|]. unfold exec_fields in Hp. apply in_flat_map in Hp as (x & Hx & Hpx).
    apply in_map_iff in Hx as (nf & <- & Hnf).
    apply (runs_exec_tree (Checker.SSelect fields w order) (snd nf)); [|exact Hpx].
    apply runs_checked. cbn. apply in_or_app. left. now apply in_map.
Qed.

Theorem select_err_pos_lemma q s fields w order a all_fields slots B p :
  parse_check fo re_match fmt_v q = PCOk s (Checker.SSelect fields w order) a ->
  select_row fo re_match (exec_tree w) (if all_fields : bool then None else Some (exec_fields fields)) slots = Err (EExec p) \/
  select_batch fo re_match B (exec_tree w) (if all_fields then None else Some (exec_fields fields)) slots = Err (EExec p) ->
  good_pos q p.
Proof.
  intros E H. apply (accepted_good q s _ a E). apply (select_positions_runs fields w order all_fields).
  destruct H as [H|H].
  - eapply select_row_err_position_lemma; eassumption.
  - eapply select_batch_err_position_lemma; eassumption.
Qed.

End Compose.

(* ---- for the examples of Properties/C17.v: the checked WHERE tree and the checked field trees
   of an accepted SELECT ---- *)
Definition pc_where (r : pcres) : option expr :=
  match r with PCOk _ (Checker.SSelect _ w _) _ => Some w | _ => None end.
Definition pc_fields (r : pcres) : list expr :=
  match r with PCOk _ (Checker.SSelect fs _ _) _ => map snd fs | _ => [] end.

(* oracles that satisfy the premise [re_plain]: one that models nothing, one that fails with a
   plain error (a pattern that does not compile), one that answers *)
Lemma re_plain_examples :
  re_plain (fun _ _ => OutOfModel) /\ re_plain (fun _ _ => Err EOther) /\
  re_plain (fun pat text => Ok (String.eqb pat text)).
Proof. repeat split; intros pat text; exact I. Qed.
