(* Proofs/ExecPosStmtProofs.v -- positions of EXECUTION errors of EVERY SELECT shape.

   Properties/C17.v (ADDENDUM 3) proves, for a SELECT that buildFinalPlan turns into a
   ProjectionPlan over a scan, that an execution error of the drain carries the offset 0 or the
   start of a token of the query, inside the query (select_exec_err_pos_in_query).  This file
   lifts that to the text twin of Model/PipelineS.v: every query text that BuildPlan accepts
   (plan_stmt_text q = STOk pl), every shape buildFinalPlan builds -- ProjectionPlan,
   AggregatePlan (with or without a pushed-down LIMIT), FinalOrderPlan and FinalLimitPlan on top --,
   every store, row mode and batch mode at every batch size.

     1. the plan nodes above the evaluators invent no position: whatever positional error
        the drains of Model/LimitLazy.v, Model/AggregateLazy.v, Model/SelectPlans.v return is an
        error of one of the functions they are given (filter, projection, the three groups of
        expressions the AggregatePlan evaluates), or the `Cannot find field` of FinalOrderPlan.Init
        (position 0 in the twin, SelectPlans.with_ords; unreachable for a parsed statement), or
        carries no position (completing a group, Model/Aggregate.v)          okp_run_shape_row / _batch
     2. with the evaluator twins: the position is a position of a tree the plan executes
                                                                             select_shape_row_okp / _batch_okp
     3. the trees an accepted text executes carry only positions of the statement
        (WHERE and fields folded in place; GROUP BY expressions: the item itself or the field
        object it names, as the folder left it; the non-aggregate fields; the first arguments
        of the aggregate calls: sub-trees of the fields)                     planned_positions
     4. composition with parse_check                                         select_stmt_exec_err_pos_in_query
     5. the completion errors of AggregatePlan.next / batch (Model/AggErrPos.v): the position
        of a `Divide by zero` raised while a group's row is completed is the position of a
        node of a select field                                               completion_err_okp,
                                                                             select_stmt_exec_err_pos_in_query_stp
        and select_stmt_text_stp differs from select_stmt_text_st in nothing else
                                                                             stp_refines_st, stp_same_tres *)
From Coq Require Import List String Ascii ZArith Bool Arith Lia.
Import ListNotations.
From KV Require Import Model.Storage Model.Pipeline.
From KV Require Import Base.Bytes Base.Num Model.Token Model.Ast Model.Value Model.Eval Model.EvalVec
                       Model.Lexer Model.StmtParser Model.ParseCheck Model.ErrPos Model.ScanProj
                       Model.LimitLazy Model.AggregateLazy Model.SelectPlans Model.PipelineS
                       Model.AggErrPos Spec.CaretSpec.
From KV Require Model.PipelineW Model.Checker Model.Fold Model.FoldStmt Model.Order Model.Aggregate Model.Limit Spec.Group.
From KV Require Import Proofs.ErrPosProofs Proofs.ParseCheckProofs Proofs.ExecPosProofs Proofs.PipelineSProofs.
Local Open Scope nat_scope.
Local Open Scope list_scope.

(* one step towards [okp Q r]: through binds, matches and lets; leaves are closed by a hypothesis *)
Ltac okp_leaf :=
  match goal with
  | |- okp _ (Value.Ok _) => exact I
  | |- okp _ Value.OutOfModel => exact I
  | |- okp _ Value.Panic => exact I
  | |- okp _ (Value.Err Value.EOther) => exact I
  | H : _ |- _ => solve [apply H]
  end.
Ltac okp_go :=
  repeat first
    [ okp_leaf
    | progress cbv zeta
    | apply okp_bind; [ | intros ]
    | match goal with
      | |- okp _ (match ?x with _ => _ end) => destruct x
      end ].

(* ================================================================ 1. the plan nodes *)

(* ---- Model/LimitLazy.v: FinalLimitPlan over a pulled child *)
Section LimitNodes.
Variables (S A : Type).
Variable cnext : S -> res (option A * S).
Variable cbatch : S -> res (list A * S).
Variable Q : nat -> Prop.
Hypothesis Hnext : forall s, okp Q (cnext s).
Hypothesis Hbatch : forall s, okp Q (cbatch s).

Lemma okp_lskip n : forall s, okp Q (lskip cnext n s).
Proof. induction n as [|n IH]; intros s; cbn [lskip]; okp_go. Qed.

Lemma okp_lnext start count st s : okp Q (lnext cnext start count st s).
Proof. unfold lnext. apply okp_bind; [apply okp_lskip|]. intros. okp_go. Qed.

Lemma okp_ldrain_row_fuel fuel start count : forall st s, okp Q (ldrain_row_fuel cnext fuel start count st s).
Proof.
  induction fuel as [|f IH]; intros st s; cbn [ldrain_row_fuel]; [exact I|].
  apply okp_bind; [apply okp_lnext|]. intros. okp_go.
Qed.

Lemma okp_ldrain_row start count s : okp Q (ldrain_row cnext start count s).
Proof. apply okp_ldrain_row_fuel. Qed.

Lemma okp_lskip_batch fuel start : forall sk s, okp Q (lskip_batch cbatch fuel start sk s).
Proof.
  induction fuel as [|f IH]; intros sk s; cbn [lskip_batch]; okp_go.
Qed.

Lemma okp_lfill fuel B count : forall cur ret cnt s, okp Q (lfill cbatch fuel B count cur ret cnt s).
Proof.
  induction fuel as [|f IH]; intros cur ret cnt s; cbn [lfill]; okp_go.
Qed.

Lemma okp_lbatch B start count st s : okp Q (lbatch cbatch B start count st s).
Proof.
  unfold lbatch. apply okp_bind; [apply okp_lskip_batch|]. intros [[[rows|] sk] s1]; [|exact I].
  destruct (Limit.take_left count (Limit.current st) rows [] 0) as [[ret cur] cnt].
  destruct (count <=? cur); [exact I|].
  apply okp_bind; [apply okp_lfill|]. intros. okp_go.
Qed.

Lemma okp_ldrain_batch_fuel fuel B start count :
  forall st s, okp Q (ldrain_batch_fuel cbatch fuel B start count st s).
Proof.
  induction fuel as [|f IH]; intros st s; cbn [ldrain_batch_fuel]; [exact I|].
  apply okp_bind; [apply okp_lbatch|]. intros. okp_go.
Qed.

End LimitNodes.

(* ---- Model/AggregateLazy.v: the loops of prepare / prepareBatch, what is evaluated on a pair,
   completing the rows *)
Section AggDrains.
Variables (P R T : Type).
Variable frow : P -> res bool.
Variable fbatch : list P -> res (list bool).
Variable orow : T -> P -> res (R * T).
Variable obatch : T -> list P -> res (list R * T).
Variable Q : nat -> Prop.
Hypothesis Hfrow : forall kv, okp Q (frow kv).
Hypothesis Hfbatch : forall ch, okp Q (fbatch ch).
Hypothesis Horow : forall t kv, okp Q (orow t kv).
Hypothesis Hobatch : forall t ch, okp Q (obatch t ch).

Lemma okp_sdrain_row_fuel fuel : forall t rest, okp Q (sdrain_row_fuel frow orow fuel t rest).
Proof.
  induction fuel as [|f IH]; intros t rest; cbn [sdrain_row_fuel]; [exact I|].
  apply okp_bind; [apply okp_scan_next; assumption|]. intros. okp_go.
Qed.

Lemma okp_sdrain_row t rest : okp Q (sdrain_row frow orow t rest).
Proof. apply okp_sdrain_row_fuel. Qed.

Lemma okp_sdrain_batch_fuel fuel B : forall t rest, okp Q (sdrain_batch_fuel fbatch obatch fuel B t rest).
Proof.
  induction fuel as [|f IH]; intros t rest; cbn [sdrain_batch_fuel]; [exact I|].
  apply okp_bind; [unfold scan_batch; apply okp_scan_batch_loop; assumption|]. intros. okp_go.
Qed.

Lemma okp_sdrain_batch B t rest : okp Q (sdrain_batch fbatch obatch B t rest).
Proof. apply okp_sdrain_batch_fuel. Qed.

End AggDrains.

Section AggObs.
Variable F : Type.
Variable fmt_f bits_f : F -> bytes.
Variable P : Type.
Variable eval_g : P -> res (list (Group.value F)).
Variable batch_g : list P -> res (list (list (Group.value F))).
Variable eval_k : P -> res (list (Group.value F)).
Variable eval_a : (nat -> bool) -> P -> res (list (Group.value F)).
Variable Q : nat -> Prop.
Hypothesis Hg : forall kv, okp Q (eval_g kv).
Hypothesis Hbg : forall ch, okp Q (batch_g ch).
Hypothesis Hk : forall kv, okp Q (eval_k kv).
Hypothesis Ha : forall need kv, okp Q (eval_a need kv).

Lemma okp_lobs_tail p t kv g : okp Q (lobs_tail fmt_f bits_f eval_k eval_a p t kv g).
Proof. unfold lobs_tail. okp_go. Qed.

Lemma okp_lobs_row p t kv : okp Q (lobs_row fmt_f bits_f eval_g eval_k eval_a p t kv).
Proof.
  unfold lobs_row. apply okp_bind; [destruct (Group.pl_all p); [exact I | apply Hg]|].
  intros. apply okp_lobs_tail.
Qed.

Lemma okp_lobs_zip p : forall ch t gss, okp Q (lobs_zip fmt_f bits_f eval_k eval_a p t ch gss).
Proof.
  induction ch as [|kv ch IH]; intros t gss; cbn [lobs_zip]; [exact I|].
  destruct gss as [|g gss]; [exact I|].
  apply okp_bind; [apply okp_lobs_tail|]. intros. okp_go.
Qed.

Lemma okp_lobs_batch p t ch : okp Q (lobs_batch fmt_f bits_f batch_g eval_k eval_a p t ch).
Proof.
  unfold lobs_batch. apply okp_bind; [destruct (Group.pl_all p); [exact I | apply Hbg]|].
  intros. apply okp_lobs_zip.
Qed.

End AggObs.

(* completing the rows raises no positional error in the twin (Model/Aggregate.v answers None;
   the positions are Model/AggErrPos.v's) *)
Lemma okp_exec_res {A} Q (o : option A) : okp Q (exec_res o).
Proof. destruct o; exact I. Qed.

Section AggFinish.
Variable F : Type.
Variable fadd fsub fmul fdiv : F -> F -> F.
Variable fltb : F -> F -> bool.
Variable fis0 : F -> bool.
Variable of_Z : Z -> F.
Variable to_Z : F -> Z.
Variable fmt_f bits_f : F -> bytes.
Variable json_f : F -> option bytes.
Variable parse_f : bytes -> option F.
Variable json_s : bytes -> bytes.
Variable Q : nat -> Prop.

Lemma okp_anext rows : okp Q (anext fadd fsub fmul fdiv fis0 of_Z json_f json_s rows).
Proof.
  unfold anext. destruct rows; [exact I|]. apply okp_bind; [apply okp_exec_res|]. intros; exact I.
Qed.

Lemma okp_abatch B rows : okp Q (abatch fadd fsub fmul fdiv fis0 of_Z json_f json_s B rows).
Proof.
  unfold abatch. destruct rows; [exact I|]. apply okp_bind; [apply okp_exec_res|]. intros; exact I.
Qed.

Lemma okp_adrain_row p rows : okp Q (adrain_row fadd fsub fmul fdiv fis0 of_Z json_f json_s p rows).
Proof.
  unfold adrain_row. destruct (Group.pl_limit p); [|apply okp_exec_res].
  apply okp_ldrain_row. intros s. apply okp_anext.
Qed.

Lemma okp_adrain_batch p B rows : okp Q (adrain_batch fadd fsub fmul fdiv fis0 of_Z json_f json_s p B rows).
Proof.
  unfold adrain_batch. destruct (Group.pl_limit p); [|apply okp_exec_res].
  apply okp_bind; [|intros; exact I]. apply okp_ldrain_batch_fuel. intros s. apply okp_abatch.
Qed.

Lemma okp_lrun_row p pairs :
  okp Q (lrun_row fadd fsub fmul fdiv fltb fis0 of_Z to_Z fmt_f bits_f json_f parse_f json_s p pairs).
Proof. apply okp_adrain_row. Qed.

Lemma okp_lrun_batch p B chunks :
  okp Q (lrun_batch fadd fsub fmul fdiv fltb fis0 of_Z to_Z fmt_f bits_f json_f parse_f json_s p B chunks).
Proof. apply okp_adrain_batch. Qed.

End AggFinish.

(* ---- Model/SelectPlans.v: FinalOrderPlan over a child *)
Lemma okp_of_pop {A} Q (o : option A) : okp Q (of_pop o).
Proof. destruct o; exact I. Qed.

Section OrderNodes.
Variable C : Type.
Variable crows : C -> res (list Order.row).
Variable cbats : C -> res (list (list Order.row)).
Variable cdone : C.
Variable parse_int parse_float : bytes -> option Z.
Variable ords : list Order.ofield.
Variable Q : nat -> Prop.
Hypothesis Hrows : forall c, okp Q (crows c).
Hypothesis Hbats : forall c, okp Q (cbats c).

Lemma okp_ord_row c : okp Q (ord_row C crows parse_int parse_float ords c).
Proof. unfold ord_row. apply okp_bind; [apply Hrows|]. intros. apply okp_of_pop. Qed.

Lemma okp_ord_batch B c : okp Q (ord_batch C cbats parse_int parse_float ords B c).
Proof. unfold ord_batch. apply okp_bind; [apply Hbats|]. intros. apply okp_of_pop. Qed.

Lemma okp_onext s : okp Q (onext C crows cdone parse_int parse_float ords s).
Proof. unfold onext. okp_go. Qed.

Lemma okp_obatch B s : okp Q (obatch C cbats cdone parse_int parse_float ords B s).
Proof. unfold obatch. okp_go. Qed.

Lemma okp_ord_limit_row start count c :
  okp Q (ord_limit_row C crows cdone parse_int parse_float ords start count c).
Proof. unfold ord_limit_row. apply okp_ldrain_row. intros s. apply okp_onext. Qed.

Lemma okp_ord_limit_batch fuel B start count c :
  okp Q (ord_limit_batch C cbats cdone parse_int parse_float ords fuel B start count c).
Proof. unfold ord_limit_batch. apply okp_ldrain_batch_fuel. intros s. apply okp_obatch. Qed.

End OrderNodes.

(* ---- Model/SelectPlans.v: the statement *)
Section StatementNodes.
Variable P : Type.
Variable frow : P -> res bool.
Variable fbatch : list P -> res (list bool).
Variable prow : P -> res Order.row.
Variable pbatch : list P -> res (list Order.row).
Variable F : Type.
Variable fadd fsub fmul fdiv : F -> F -> F.
Variable fltb : F -> F -> bool.
Variable fis0 : F -> bool.
Variable of_Z : Z -> F.
Variable to_Z : F -> Z.
Variable fmt_f : F -> bytes.
Variable bits_f : F -> bytes.
Variable json_f : F -> option bytes.
Variable parse_f : bytes -> option F.
Variable json_s : bytes -> bytes.
Variable T : Type.
Variable t0 : T.
Variable obs_row : Group.plan F -> T -> P -> res (Group.pobs F * T).
Variable obs_batch : Group.plan F -> T -> list P -> res (list (Group.pobs F) * T).
Variable aconv : list (Group.value F) -> Order.row.
Variable parse_int parse_float : bytes -> option Z.
Variable Q : nat -> Prop.
Hypothesis Hfrow : forall kv, okp Q (frow kv).
Hypothesis Hfbatch : forall ch, okp Q (fbatch ch).
Hypothesis Hprow : forall kv, okp Q (prow kv).
Hypothesis Hpbatch : forall ch, okp Q (pbatch ch).
Hypothesis Hobs_row : forall p t kv, okp Q (obs_row p t kv).
Hypothesis Hobs_batch : forall p t ch, okp Q (obs_batch p t ch).
Hypothesis Q0 : Q 0.                        (* SelectPlans.with_ords: `Cannot find field` *)

Notation agg_row := (agg_row P frow F fadd fsub fmul fdiv fltb fis0 of_Z to_Z fmt_f bits_f json_f parse_f json_s T t0 obs_row).
Notation agg_batch := (agg_batch P fbatch F fadd fsub fmul fdiv fltb fis0 of_Z to_Z fmt_f bits_f json_f parse_f json_s T t0 obs_batch).
Notation agg_rows := (agg_rows P frow F fadd fsub fmul fdiv fltb fis0 of_Z to_Z fmt_f bits_f json_f parse_f json_s T t0 obs_row aconv).
Notation agg_bats := (agg_bats P fbatch F fadd fsub fmul fdiv fltb fis0 of_Z to_Z fmt_f bits_f json_f parse_f json_s T t0 obs_batch aconv).

Lemma okp_agg_row p sl : okp Q (agg_row p sl).
Proof.
  unfold SelectPlans.agg_row. apply okp_bind; [apply okp_sdrain_row; auto|]. intros. apply okp_lrun_row.
Qed.

Lemma okp_agg_batch B p sl : okp Q (agg_batch B p sl).
Proof.
  unfold SelectPlans.agg_batch. apply okp_bind; [apply okp_sdrain_batch; auto|]. intros. apply okp_lrun_batch.
Qed.

Lemma okp_agg_rows p sl : okp Q (agg_rows p sl).
Proof. unfold SelectPlans.agg_rows. apply okp_bind; [apply okp_agg_row|]. intros; exact I. Qed.

Lemma okp_agg_bats B p sl : okp Q (agg_bats B p sl).
Proof. unfold SelectPlans.agg_bats. apply okp_bind; [apply okp_agg_batch|]. intros; exact I. Qed.

Lemma okp_proj_rows sl : okp Q (proj_rows P frow prow sl).
Proof. apply okp_drain_row; assumption. Qed.

Lemma okp_proj_bats B sl : okp Q (proj_bats P fbatch pbatch B sl).
Proof. apply okp_drain_batch; assumption. Qed.

Lemma okp_with_ords {A} (s : stmt F) os (k : list Order.ofield -> res A) :
  (forall ords, okp Q (k ords)) -> okp Q (with_ords F s os k).
Proof. intros H. unfold with_ords. destruct (Order.init_orders _ _ _); [apply H | exact Q0]. Qed.

Theorem okp_run_shape_row s sh sl :
  okp Q (run_shape_row P frow prow F fadd fsub fmul fdiv fltb fis0 of_Z to_Z fmt_f bits_f json_f parse_f json_s
                       T t0 obs_row aconv parse_int parse_float s sh sl).
Proof.
  unfold run_shape_row.
  repeat match goal with
         | |- okp _ (match ?x with _ => _ end) => destruct x
         end;
  try exact I;
  try (apply okp_with_ords; intros);
  first [ apply okp_proj_rows
        | apply okp_agg_rows
        | apply okp_ldrain_row; intros; apply okp_proj_next; assumption
        | apply okp_ord_row; intros; first [apply okp_proj_rows | apply okp_agg_rows]
        | apply okp_ord_limit_row; intros; first [apply okp_proj_rows | apply okp_agg_rows] ].
Qed.

Theorem okp_run_shape_batch B s sh sl :
  okp Q (run_shape_batch P fbatch pbatch F fadd fsub fmul fdiv fltb fis0 of_Z to_Z fmt_f bits_f json_f parse_f json_s
                         T t0 obs_batch aconv parse_int parse_float B s sh sl).
Proof.
  unfold run_shape_batch.
  repeat match goal with
         | |- okp _ (match ?x with _ => _ end) => destruct x
         end;
  try exact I;
  try (apply okp_with_ords; intros);
  (apply okp_bind; [|intros; exact I]);
  first [ apply okp_proj_bats
        | apply okp_agg_bats
        | apply okp_ldrain_batch_fuel; intros; apply okp_proj_batch; assumption
        | apply okp_ord_batch; intros; first [apply okp_proj_bats | apply okp_agg_bats]
        | apply okp_ord_limit_batch; intros; first [apply okp_proj_bats | apply okp_agg_bats] ].
Qed.

End StatementNodes.

(* ================================================================ 2. with the evaluator twins *)
Section Concrete.
Variable fo : fops.
Variable re_match : bytes -> bytes -> res bool.
Hypothesis re_ok : re_plain re_match.
Variable ag : aggops fo.
Variable parse_int parse_float : bytes -> option Z.

Lemma okp_gval Q v : okp Q (gval fo v).
Proof. destruct v; exact I. Qed.

Lemma okp_gvals Q vs : okp Q (gvals fo vs).
Proof.
  induction vs as [|v vs IH]; cbn [gvals]; [exact I|].
  apply okp_bind; [apply okp_gval|]. intros. apply okp_bind; [exact IH | intros; exact I].
Qed.

Lemma okp_gvals_all Q grows : okp Q (gvals_all fo grows).
Proof.
  induction grows as [|g grows IH]; cbn [gvals_all]; [exact I|].
  apply okp_bind; [apply okp_gvals|]. intros. apply okp_bind; [exact IH | intros; exact I].
Qed.

Lemma posin_list_cons f es p : posin_list es p -> posin_list (f :: es) p.
Proof. unfold posin_list. cbn. intros H. apply in_or_app. now right. Qed.

Lemma posin_list_head f es p : posin f p -> posin_list (f :: es) p.
Proof. unfold posin_list, posin. cbn. intros H. apply in_or_app. now left. Qed.

Lemma evals_row_okp es kv : okp (posin_list es) (evals_row fo re_match es kv).
Proof.
  induction es as [|f es IH]; cbn [evals_row]; [exact I|].
  apply okp_bind.
  - eapply okp_mono; [apply posin_list_head|]. exact (proj1 (eval_okp_strong fo re_match re_ok (fst kv) (snd kv) f)).
  - intros v. apply okp_bind; [apply okp_gval|]. intros g.
    apply okp_bind; [|intros; exact I]. eapply okp_mono; [apply posin_list_cons | exact IH].
Qed.

Lemma evals_need_okp need es kv : forall i, okp (posin_list es) (evals_need fo re_match need i es kv).
Proof.
  induction es as [|f es IH]; intros i; cbn [evals_need]; [exact I|].
  assert (Hrest : forall j, okp (posin_list (f :: es)) (evals_need fo re_match need j es kv)).
  { intros j. eapply okp_mono; [apply posin_list_cons | apply IH]. }
  destruct (need i).
  - apply okp_bind.
    + eapply okp_mono; [apply posin_list_head|].
      exact (proj1 (eval_okp_strong fo re_match re_ok (fst kv) (snd kv) f)).
    + intros v. apply okp_bind; [apply okp_gval|]. intros g.
      apply okp_bind; [apply Hrest | intros; exact I].
  - apply okp_bind; [apply Hrest | intros; exact I].
Qed.

Lemma c_batch_g_okp gs ch : okp (posin_list gs) (c_batch_g fo re_match gs ch).
Proof.
  unfold c_batch_g. apply okp_bind; [apply project_batch_okp; exact re_ok|]. intros. apply okp_gvals_all.
Qed.

(* every position of a tree the plan nodes of [c] execute *)
Definition cstmt_run_positions (c : cstmt fo) : list nat :=
  positions (q_where fo c) ++
  match q_fields fo c with Some l => flat_map positions l | None => [] end ++
  flat_map positions (q_group fo c) ++ flat_map positions (q_keys fo c) ++ flat_map positions (q_args fo c).

(* ... or 0 (SelectPlans.with_ords) *)
Definition runq (c : cstmt fo) : nat -> Prop := fun p => p = 0 \/ In p (cstmt_run_positions c).

Lemma runq_where c p : posin (q_where fo c) p -> runq c p.
Proof. intros H. right. unfold cstmt_run_positions. apply in_or_app. now left. Qed.
Lemma runq_fields c p : In p (select_positions (q_where fo c) (q_fields fo c)) -> runq c p.
Proof.
  intros H. right. unfold cstmt_run_positions. unfold select_positions in H.
  apply in_app_or in H as [H|H]; apply in_or_app; [now left|]. right. apply in_or_app. now left.
Qed.
Lemma runq_group c p : posin_list (q_group fo c) p -> runq c p.
Proof. intros H. right. unfold cstmt_run_positions. do 2 (apply in_or_app; right). apply in_or_app. now left. Qed.
Lemma runq_keys c p : posin_list (q_keys fo c) p -> runq c p.
Proof.
  intros H. right. unfold cstmt_run_positions. do 3 (apply in_or_app; right). apply in_or_app. now left.
Qed.
Lemma runq_args c p : posin_list (q_args fo c) p -> runq c p.
Proof. intros H. right. unfold cstmt_run_positions. do 4 (apply in_or_app; right). exact H. Qed.

Lemma c_prow_okp c kv : okp (runq c) (c_prow fo re_match ag (q_fields fo c) kv).
Proof.
  unfold c_prow. apply okp_bind; [|intros; exact I].
  eapply okp_mono; [apply runq_fields | apply (sel_prow_okp fo re_match re_ok (q_where fo c))].
Qed.

Lemma c_pbatch_okp c ch : okp (runq c) (c_pbatch fo re_match ag (q_fields fo c) ch).
Proof.
  unfold c_pbatch. apply okp_bind; [|intros; exact I].
  eapply okp_mono; [apply runq_fields | apply (sel_pbatch_okp fo re_match re_ok (q_where fo c))].
Qed.

Lemma sel_frow_okp c kv : okp (runq c) (sel_frow fo re_match (q_where fo c) kv).
Proof. unfold sel_frow. eapply okp_mono; [apply runq_where | apply (filter_row_okp fo re_match re_ok)]. Qed.

Lemma sel_fbatch_okp c ch : okp (runq c) (filter_batch fo re_match true (q_where fo c) ch).
Proof. eapply okp_mono; [apply runq_where | apply (filter_batch_okp fo re_match true re_ok)]. Qed.

Lemma c_lobs_row_okp c p t kv :
  okp (runq c) (c_lobs_row fo re_match ag (q_group fo c) (q_keys fo c) (q_args fo c) p t kv).
Proof.
  unfold c_lobs_row. apply okp_lobs_row.
  - intros x. eapply okp_mono; [apply runq_group | apply evals_row_okp].
  - intros x. eapply okp_mono; [apply runq_keys | apply evals_row_okp].
  - intros need x. eapply okp_mono; [apply runq_args | apply evals_need_okp].
Qed.

Lemma c_lobs_batch_okp c p t ch :
  okp (runq c) (c_lobs_batch fo re_match ag (q_group fo c) (q_keys fo c) (q_args fo c) p t ch).
Proof.
  unfold c_lobs_batch. apply okp_lobs_batch.
  - intros x. eapply okp_mono; [apply runq_group | apply c_batch_g_okp].
  - intros x. eapply okp_mono; [apply runq_keys | apply evals_row_okp].
  - intros need x. eapply okp_mono; [apply runq_args | apply evals_need_okp].
Qed.

(* a positional error of the drain of ANY shape carries 0 or a position of an executed tree *)
Theorem select_shape_row_okp c sh sl :
  okp (runq c) (select_shape_row fo re_match ag parse_int parse_float c sh sl).
Proof.
  unfold select_shape_row. apply okp_run_shape_row.
  - apply sel_frow_okp.
  - apply c_prow_okp.
  - apply c_lobs_row_okp.
  - now left.
Qed.

Theorem select_shape_batch_okp B c sh sl :
  okp (runq c) (select_shape_batch fo re_match ag parse_int parse_float B c sh sl).
Proof.
  unfold select_shape_batch. apply okp_run_shape_batch.
  - apply sel_fbatch_okp.
  - apply c_pbatch_okp.
  - apply c_lobs_batch_okp.
  - now left.
Qed.

Theorem run_mode_okp m c sh sl : okp (runq c) (run_mode fo re_match ag parse_int parse_float m c sh sl).
Proof. destruct m; cbn [run_mode]; [apply select_shape_row_okp | apply select_shape_batch_okp]. Qed.

(* ================================================================ 5a. completing a group: the
   position of the error Model/AggErrPos.v reports is a position of a node of a select field *)
Section Completion.
Variable F : Type.
Variable fadd fsub fmul fdiv : F -> F -> F.
Variable fis0 : F -> bool.
Variable of_Z : Z -> F.
Variable json_f : F -> option bytes.
Variable json_s : bytes -> bytes.

Definition okerr (Q : nat -> Prop) (e : err) : Prop := okp Q (@Err unit e).

Lemma math_err_ok (Q : nat -> Prop) (l r : Group.value F) p : Q p -> okerr Q (math_err F l r p).
Proof.
  intros H. unfold math_err, okerr.
  destruct (Aggregate.convertToInt l), (Aggregate.convertToInt r),
           (Aggregate.convertToFloat l), (Aggregate.convertToFloat r); cbn; auto.
Qed.

Lemma aexpr_err_ok : forall e a results,
  okerr (posin e) (aexpr_err F fadd fsub fmul fdiv fis0 of_Z e a results).
Proof.
  induction e as [p o l IHl r IHr| | | | | | | | | | |] using expr_ind; intros a results; try exact I.
  destruct a as [| | |op al ar]; try exact I. cbn [aexpr_err].
  destruct (Aggregate.eval_aexpr fadd fsub fmul fdiv fis0 of_Z al results).
  - destruct (Aggregate.eval_aexpr fadd fsub fmul fdiv fis0 of_Z ar results).
    + apply math_err_ok. unfold posin. cbn [positions]. right. apply in_or_app. right. apply posin_epos.
    + eapply (okp_mono (posin r)); [|apply IHr]. intros x Hx. unfold posin in *. cbn [positions].
      right. apply in_or_app. now right.
  - eapply (okp_mono (posin l)); [|apply IHl]. intros x Hx. unfold posin in *. cbn [positions].
    right. apply in_or_app. now left.
Qed.

Lemma row_err_ok : forall fields row,
  okerr (posin_list fields) (row_err F fadd fsub fmul fdiv fis0 of_Z json_f json_s fields row).
Proof.
  induction fields as [|f fields IH]; intros row; [exact I|]. destruct row as [|c row]; [exact I|].
  cbn [row_err]. unfold col_err. destruct c as [v|a calls sts].
  - eapply (okp_mono (posin_list fields)); [apply posin_list_cons | apply IH].
  - destruct (Group.seq_opt _); [|exact I].
    destruct (Aggregate.eval_aexpr fadd fsub fmul fdiv fis0 of_Z a l).
    + eapply (okp_mono (posin_list fields)); [apply posin_list_cons | apply IH].
    + eapply (okp_mono (posin f)); [apply posin_list_head | apply aexpr_err_ok].
Qed.

Lemma rows_err_ok fields : forall rows,
  okerr (posin_list fields) (rows_err F fadd fsub fmul fdiv fis0 of_Z json_f json_s fields rows).
Proof.
  induction rows as [|kr rows IH]; [exact I|]. cbn [rows_err].
  destruct (Aggregate.finish_row _ _ _ _ _ _ _ _ _); [exact IH | apply row_err_ok].
Qed.

(* ... and never a SyntaxError *)
Definition nosyn (e : err) : Prop := match e with ESyntax _ => False | _ => True end.

Lemma math_err_nosyn (l r : Group.value F) p : nosyn (math_err F l r p).
Proof.
  unfold math_err.
  destruct (Aggregate.convertToInt l), (Aggregate.convertToInt r),
           (Aggregate.convertToFloat l), (Aggregate.convertToFloat r); exact I.
Qed.

Lemma aexpr_err_nosyn : forall e a results, nosyn (aexpr_err F fadd fsub fmul fdiv fis0 of_Z e a results).
Proof.
  induction e as [p o l IHl r IHr| | | | | | | | | | |] using expr_ind; intros a results; try exact I.
  destruct a as [| | |op al ar]; try exact I. cbn [aexpr_err].
  destruct (Aggregate.eval_aexpr fadd fsub fmul fdiv fis0 of_Z al results); [|apply IHl].
  destruct (Aggregate.eval_aexpr fadd fsub fmul fdiv fis0 of_Z ar results); [apply math_err_nosyn | apply IHr].
Qed.

Lemma row_err_nosyn : forall fields row, nosyn (row_err F fadd fsub fmul fdiv fis0 of_Z json_f json_s fields row).
Proof.
  induction fields as [|f fields IH]; intros row; [exact I|]. destruct row as [|c row]; [exact I|].
  cbn [row_err]. unfold col_err. destruct c as [v|a calls sts]; [apply IH|].
  destruct (Group.seq_opt _); [|exact I].
  destruct (Aggregate.eval_aexpr fadd fsub fmul fdiv fis0 of_Z a l); [apply IH | apply aexpr_err_nosyn].
Qed.

Lemma rows_err_nosyn fields : forall rows, nosyn (rows_err F fadd fsub fmul fdiv fis0 of_Z json_f json_s fields rows).
Proof.
  induction rows as [|kr rows IH]; [exact I|]. cbn [rows_err].
  destruct (Aggregate.finish_row _ _ _ _ _ _ _ _ _); [exact IH | apply row_err_nosyn].
Qed.

End Completion.

Lemma completion_err_ok c sh m sl :
  okerr (runq c) (completion_err fo re_match ag c sh m sl).
Proof.
  unfold completion_err. destruct (shape_agg sh) as [[st l]|]; [|exact I].
  destruct (prepared_rows fo re_match ag c _ m sl); try exact I.
  eapply (okp_mono (posin_list (agg_fields fo c))); [|apply rows_err_ok].
  intros p Hp. right. unfold cstmt_run_positions, agg_fields in *. apply in_or_app. right.
  apply in_or_app. left. destruct (q_fields fo c); [exact Hp | destruct Hp].
Qed.

Lemma completion_err_nosyn c sh m sl : nosyn (completion_err fo re_match ag c sh m sl).
Proof.
  unfold completion_err. destruct (shape_agg sh) as [[st l]|]; [|exact I].
  destruct (prepared_rows fo re_match ag c _ m sl); try exact I. apply rows_err_nosyn.
Qed.

Lemma refine_other_okp {A} Q (r : res A) e : okp Q r -> okerr Q e -> okp Q (refine_other r e).
Proof. intros Hr He. destruct r as [a|[p|p|]| |]; cbn; auto. Qed.

End Concrete.

(* ================================================================ 3. the trees an accepted text
   executes carry only positions of the statement *)
Lemma bind_inv {A B} (r : res A) (f : A -> res B) b :
  bind r f = Ok b -> exists a, r = Ok a /\ f a = Ok b.
Proof. destruct r; cbn; intros H; try discriminate; eauto. Qed.

Ltac in_solve := repeat (progress (repeat rewrite in_app_iff in *; cbn [In] in *)); tauto.

Section Text.
Variable fo : fops.
Variable re : bytes -> bytes -> res bool.
Variable fmt_v : F fo -> string.
Hypothesis re_ok : re_plain re.

Notation exec_of := (PipelineS.exec_of fo re fmt_v).
Notation fp := (flat_map positions).

Lemma get_named_in fields s f : Checker.get_named fields s = Some f -> In f (map snd fields).
Proof.
  induction fields as [|[n d] fields IH]; cbn; [discriminate|].
  destruct (String.eqb n s); [intros H; injection H as <-; now left | intros H; right; auto].
Qed.

(* AggregatePlan.Init: the first arguments of the aggregate calls are sub-trees of the field *)
Lemma aexpr_of_args : forall e calls args a calls' args',
  aexpr_of fo e calls args = Ok (a, calls', args') ->
  incl (fp args') (fp args ++ positions e).
Proof.
  induction e as [p o l IHl r IHr| | | |p n IHn cargs| | | | | | |] using expr_ind;
    intros calls args a calls' args' H; cbn [aexpr_of] in H; try discriminate.
  - apply bind_inv in H. destruct H as ([[a1 c1] g1] & E1 & H).
    apply bind_inv in H. destruct H as ([[a2 c2] g2] & E2 & H). cbn [fst snd] in *.
    destruct (arith_of o); [|discriminate]. injection H as <- <- <-.
    specialize (IHl _ _ _ _ _ E1). specialize (IHr _ _ _ _ _ E2).
    intros z Hz. apply IHr in Hz. cbn [positions]. apply in_app_or in Hz as [Hz|Hz].
    + apply IHl in Hz. in_solve.
    + in_solve.
  - destruct (Checker.is_aggr_call (ECall p n cargs)); [|discriminate].
    destruct (call_name n); [|discriminate].
    apply bind_inv in H. destruct H as (f & _ & H). destruct cargs as [|a0 rest]; [discriminate|].
    injection H as <- <- <-. intros z Hz. rewrite flat_map_app in Hz. cbn [flat_map positions] in *.
    in_solve.
  - injection H as <- <- <-. intros z Hz. in_solve.
Qed.

Lemma agg_split_positions : forall fields keys args r keys' args',
  agg_split fo fields keys args = Ok (r, keys', args') ->
  incl keys' (keys ++ fields) /\ incl (fp args') (fp args ++ fp fields).
Proof.
  induction fields as [|f fields IH]; intros keys args r keys' args' H; cbn [agg_split] in H.
  - injection H as <- <- <-. split; intros z Hz; in_solve.
  - destruct (is_agg_field f).
    + apply bind_inv in H. destruct H as ([[a1 c1] g1] & E1 & H).
      apply bind_inv in H. destruct H as ([[r2 k2] g2] & E2 & H). cbn [fst snd] in *.
      injection H as <- <- <-. destruct (IH _ _ _ _ _ E2) as (Hk & Ha).
      pose proof (aexpr_of_args _ _ _ _ _ _ E1) as Hf. split.
      * intros z Hz. apply Hk in Hz. in_solve.
      * intros z Hz. apply Ha in Hz. cbn [flat_map]. apply in_app_or in Hz as [Hz|Hz]; [apply Hf in Hz|]; in_solve.
    + apply bind_inv in H. destruct H as ([[r2 k2] g2] & E2 & H). cbn [fst snd] in *.
      injection H as <- <- <-. destruct (IH _ _ _ _ _ E2) as (Hk & Ha). split.
      * intros z Hz. apply Hk in Hz. in_solve.
      * intros z Hz. apply Ha in Hz. cbn [flat_map]. in_solve.
Qed.

(* every Pos of the parser's statement and of the checked statement *)
Definition allpos (x : select_t) (fields : list (string * expr)) (w : expr) : list nat :=
  stmt_positions (StmtParser.StSelect x) ++
  cstmt_positions (Checker.SSelect fields w (order_items (StmtParser.s_order x))).

Definition planned_allpos (pl : splanned fo) : list nat :=
  allpos (sp_select fo pl) (sp_fields fo pl) (sp_where fo pl).

Lemma checked_tree_pos x fields w T :
  In T (map snd fields ++ [w]) -> incl (positions (exec_of T)) (allpos x fields w).
Proof.
  intros HT p Hp. unfold allpos, cstmt_positions. apply in_or_app. right. apply in_or_app. left.
  apply in_flat_map. exists T. split; [exact HT|].
  exact (exec_tree_positions_lemma fo re fmt_v T p Hp).
Qed.

Lemma relink_positions e : incl (positions (FoldStmt.relink fo re fmt_v e)) (positions e).
Proof. apply (allp_incl (FoldStmt.relink fo re fmt_v)). intros P x. apply relink_pos. Qed.

Lemma group_expr_pos x fields w g it :
  s_group x = Some g -> In it (g_items g) ->
  incl (positions (group_expr fo re fmt_v fields it)) (allpos x fields w).
Proof.
  intros Hg Hin.
  assert (Hit : incl (positions it) (allpos x fields w)).
  { intros p Hp. unfold allpos, stmt_positions. apply in_or_app. left. apply in_or_app. right.
    apply in_flat_map. exists it. split; [|exact Hp]. cbn [stmt_exprs]. rewrite Hg.
    repeat (apply in_or_app; right). exact Hin. }
  assert (Hnamed : forall f, Checker.get_named fields (item_name it) = Some f ->
            incl (positions (FoldStmt.in_place fo re fmt_v (FoldStmt.relink fo re fmt_v f))) (allpos x fields w)).
  { intros f E p Hp. apply in_place_positions_lemma in Hp. apply relink_positions in Hp.
    unfold allpos, cstmt_positions. apply in_or_app. right. apply in_or_app. left.
    apply in_flat_map. exists f. split; [|exact Hp]. cbn [cstmt_exprs]. apply in_or_app. left.
    eapply get_named_in; exact E. }
  unfold group_expr.
  destruct it; try exact Hit;
    (destruct (Checker.get_named fields _) eqn:E; [exact (Hnamed _ eq_refl) | exact Hit]).
Qed.

Theorem planned_positions q pl :
  plan_stmt_text fo re fmt_v q = STOk pl ->
  incl (cstmt_run_positions fo (sp_q fo pl)) (planned_allpos pl).
Proof.
  unfold PipelineS.plan_stmt_text. intros H. apply stbind_ok in H. destruct H as ([[x fields] w] & Ef & H).
  cbn [fst snd] in H. unfold PipelineS.plan_of_front in H.
  destruct (PipelineW.limit_of (StmtParser.s_limit x)) as [limit|]; [|discriminate].
  destruct (_ || _); [discriminate|].
  assert (Hw : incl (positions (exec_of w)) (allpos x fields w)).
  { apply checked_tree_pos. apply in_or_app. right. now left. }
  assert (Hf : incl (fp (map snd (map (fun nf : string * expr => (fst nf, exec_of (snd nf))) fields)))
                    (allpos x fields w)).
  { intros p Hp. apply in_flat_map in Hp as (T & HT & Hp). rewrite map_map in HT. cbn [snd] in HT.
    apply in_map_iff in HT as (nf & <- & Hnf). apply (checked_tree_pos x fields w (snd nf)); [|exact Hp].
    apply in_or_app. left. now apply in_map. }
  destruct (plan_select x _) eqn:Ep; try discriminate.
  - injection H as <-. unfold planned_allpos, cstmt_run_positions.
    cbn [sp_q sp_select sp_fields sp_where q_where q_fields q_group q_keys q_args flat_map].
    intros p Hp. apply in_app_or in Hp as [Hp|Hp]; [exact (Hw p Hp)|].
    rewrite !app_nil_r in Hp. destruct (s_all x); [destruct Hp | exact (Hf p Hp)].
  - apply stbind_ok in H. destruct H as ([[fs keys] args] & Es & H). apply of_init_ok in Es.
    injection H as <-. unfold planned_allpos, cstmt_run_positions.
    cbn [sp_q sp_select sp_fields sp_where q_where q_fields q_group q_keys q_args fst snd].
    destruct (agg_split_positions _ _ _ _ _ _ Es) as (Hk & Ha). cbn [app flat_map] in Hk, Ha.
    intros p Hp. apply in_app_or in Hp as [Hp|Hp]; [exact (Hw p Hp)|].
    apply in_app_or in Hp as [Hp|Hp]; [exact (Hf p Hp)|].
    apply in_app_or in Hp as [Hp|Hp].
    + destruct (s_group x) as [g|] eqn:Hg; [|destruct Hp].
      apply in_flat_map in Hp as (T & HT & Hp). apply in_map_iff in HT as (it & <- & Hit).
      exact (group_expr_pos x fields w g it Hg Hit p Hp).
    + apply in_app_or in Hp as [Hp|Hp].
      * apply in_flat_map in Hp as (T & HT & Hp). apply Hk in HT. apply Hf. apply in_flat_map. eauto.
      * apply Ha in Hp. exact (Hf p Hp).
Qed.

(* ================================================================ 4. composition with parse_check *)

Lemma planned_good q pl :
  plan_stmt_text fo re fmt_v q = STOk pl ->
  (forall p, In p (planned_allpos pl) -> good_pos q p) /\ good_pos q 0.
Proof.
  intros Ep. pose proof (plan_stmt_text_parse_check fo re fmt_v q pl Ep) as E.
  destruct (parse_check_ok_positions_thm fo re fmt_v q _ _ _ E) as (_ & Hs & Hc & Hq).
  assert (G : forall p, In p (planned_allpos pl) -> good_pos q p).
  { intros p Hp. unfold planned_allpos, allpos in Hp. rewrite Forall_forall in Hs, Hc, Hq. split.
    - assert (Hpr : prov (lex q) p) by (apply in_app_or in Hp as [Hp|Hp]; auto).
      destruct Hpr as [->|Hin]; [left; reflexivity | right; unfold zstarts; now apply in_map].
    - apply Hq. exact Hp. }
  split; [exact G|].
  (* the statement's own Pos is inside the query, so the query is not empty *)
  assert (H0 : In (s_pos (sp_select fo pl)) (planned_allpos pl)).
  { unfold planned_allpos, allpos, stmt_positions. apply in_or_app. left. apply in_or_app. left.
    cbn [stmt_own_positions]. now left. }
  destruct (G _ H0) as (_ & Hin). split; [now left|].
  unfold pos_in_query in *. cbn [Z.of_nat]. apply orb_true_iff in Hin as [Hin|Hin].
  - apply Z.eqb_eq in Hin. lia.
  - apply andb_true_iff in Hin as (Hlo & Hhi). apply Z.leb_le in Hlo. apply Z.ltb_lt in Hhi.
    apply orb_true_iff. right. apply andb_true_iff. split; [reflexivity | apply Z.ltb_lt; lia].
Qed.

Lemma runq_good q pl p :
  plan_stmt_text fo re fmt_v q = STOk pl -> runq fo (sp_q fo pl) p -> good_pos q p.
Proof.
  intros Ep [->|Hp]; destruct (planned_good q pl Ep) as (G & G0); [exact G0|].
  apply G. exact (planned_positions q pl Ep p Hp).
Qed.

Variable ag : aggops fo.
Variable pi pf : bytes -> option Z.

Lemma of_drain_err {A} (r : res A) e : of_drain r = STRunErr e -> r = Err e.
Proof. destruct r; cbn; try discriminate. congruence. Qed.

(* THE THEOREM (Properties/C17.v select_stmt_exec_err_pos_in_query): every query text BuildPlan
   accepts, whatever plan buildFinalPlan builds for it, every store, row mode and batch mode at
   every batch size: a positional error of the drain -- an ExecuteError, or one of the SyntaxErrors
   Execute can return -- carries 0 or the offset of a token of the query, inside the query *)
Theorem select_stmt_exec_err_pos_lemma q pl d m p :
  plan_stmt_text fo re fmt_v q = STOk pl ->
  select_stmt_text_st fo re fmt_v ag pi pf q d m = STRunErr (EExec p) \/
  select_stmt_text_st fo re fmt_v ag pi pf q d m = STRunErr (ESyntax p) ->
  good_pos q p.
Proof.
  intros Ep H. unfold PipelineS.select_stmt_text_st in H. rewrite Ep in H. cbn [stbind] in H.
  apply (runq_good q pl p Ep).
  pose proof (run_mode_okp fo re re_ok ag pi pf m (sp_q fo pl) (sp_shape fo pl) (scan_slots (sp_scan fo pl) d)) as Hok.
  unfold drain_planned in H. destruct H as [H|H]; apply of_drain_err in H; rewrite H in Hok; exact Hok.
Qed.

(* ================================================================ 5. with the errors of
   AggregatePlan.next / batch (Model/AggErrPos.v) *)
Theorem select_stmt_exec_err_pos_stp_lemma q pl d m p :
  plan_stmt_text fo re fmt_v q = STOk pl ->
  select_stmt_text_stp fo re fmt_v ag pi pf q d m = STRunErr (EExec p) \/
  select_stmt_text_stp fo re fmt_v ag pi pf q d m = STRunErr (ESyntax p) ->
  good_pos q p.
Proof.
  intros Ep H. unfold select_stmt_text_stp in H. rewrite Ep in H. cbn [stbind] in H.
  apply (runq_good q pl p Ep).
  assert (Hok : okp (runq fo (sp_q fo pl)) (drain_planned_pos fo re ag pi pf pl d m)).
  { unfold drain_planned_pos. apply refine_other_okp.
    - unfold drain_planned. apply run_mode_okp. exact re_ok.
    - apply completion_err_ok. }
  destruct H as [H|H]; apply of_drain_err in H; rewrite H in Hok; exact Hok.
Qed.

(* select_stmt_text_stp is select_stmt_text_st with `STRunErr EOther` refined (to an ExecuteError
   or to itself), nothing else *)
Theorem stp_refines_st q d m :
  select_stmt_text_stp fo re fmt_v ag pi pf q d m = select_stmt_text_st fo re fmt_v ag pi pf q d m \/
  (select_stmt_text_st fo re fmt_v ag pi pf q d m = STRunErr EOther /\
   exists e, nosyn e /\ select_stmt_text_stp fo re fmt_v ag pi pf q d m = STRunErr e).
Proof.
  unfold select_stmt_text_stp, PipelineS.select_stmt_text_st.
  destruct (plan_stmt_text fo re fmt_v q) as [pl| | | | | | |]; cbn [stbind]; try (left; reflexivity).
  unfold drain_planned_pos. destruct (drain_planned fo re ag pi pf pl d m) as [a|[x|x|]| |]; cbn;
    try (left; reflexivity).
  right. split; [reflexivity|]. eexists. split; [|reflexivity]. apply completion_err_nosyn.
Qed.

Theorem stp_same_tres q d m :
  to_tres (select_stmt_text_stp fo re fmt_v ag pi pf q d m) = select_stmt_text fo re fmt_v ag pi pf q d m.
Proof.
  unfold PipelineS.select_stmt_text. destruct (stp_refines_st q d m) as [->|(E & e & Hn & E')]; [reflexivity|].
  rewrite E, E'. cbn. destruct e; [reflexivity | destruct Hn | reflexivity].
Qed.

End Text.
