(* Proofs/ExprParserProofs.v -- lemmas about the parser twin (Model/ExprParser.v). *)
From Coq Require Import String List Arith Bool Lia.
Import ListNotations.
From KV Require Import Model.Token Model.Ast Model.ExprParser.
Open Scope string_scope.
Open Scope list_scope.

(* ------------------------------------------------------------------ the table *)

Lemma precedence_levels :
  forall p, map (fun d => precedence (Tok OPERATOR d p))
    ["|"; "or"; "&"; "and"; "="; "!="; "^="; "~="; ">"; ">="; "<"; "<="; "in"; "between"; "+"; "-"; "*"; "/"; "!"]%string
  = [1; 1; 2; 2; 3; 3; 3; 3; 3; 3; 3; 3; 3; 3; 4; 4; 5; 5; 0].
Proof. reflexivity. Qed.

(* ------------------------------------------------------------------ one-step equations
   (rewriting with these keeps the mutual fixpoint folded) *)

Lemma parse_expr_S f ts : parse_expr (S f) ts = parse_binary_expr f None (LowestPrec + 1) ts.
Proof. reflexivity. Qed.

Lemma parse_binary_expr_S f x p ts :
  parse_binary_expr (S f) x p ts =
  match x with
  | None => bind (parse_unary_expr f ts) (fun x' ts' => binary_loop f x' p ts')
  | Some x' => binary_loop f x' p ts
  end.
Proof. reflexivity. Qed.

Lemma binary_loop_S f x prec1 ts :
  binary_loop (S f) x prec1 ts =
  match ts with
  | [] => POk x []
  | opTok :: ts' =>
      let oprec := precedence opTok in
      if Nat.ltb oprec prec1 then POk x ts
      else
        let ry :=
          if (data opTok =? "in")%string then
            match ts' with
            | [] => PErr None
            | t :: _ => if is_tp t LPAREN then parse_list f (pos opTok) ts'
                        else parse_binary_expr f None (oprec + 1) ts'
            end
          else if (data opTok =? "between")%string then parse_between f (pos opTok) (oprec + 1) ts'
          else parse_binary_expr f None (oprec + 1) ts' in
        bind ry (fun y ts'' =>
          match build_op (data opTok) with
          | None => PErr (Some (pos opTok))
          | Some o => binary_loop f (EBin (pos opTok) o x y) prec1 ts''
          end)
  end.
Proof. reflexivity. Qed.

Lemma parse_unary_expr_S f ts :
  parse_unary_expr (S f) ts =
  match ts with
  | [] => PErr None
  | t :: ts' =>
      if is_tp t OPERATOR && (data t =? "!")%string then
        bind (parse_unary_expr f ts') (fun x r => POk (ENot (pos t) x) r)
      else parse_primary_expr f None ts
  end.
Proof. reflexivity. Qed.

Lemma parse_primary_expr_S f x ts :
  parse_primary_expr (S f) x ts =
  match x with
  | None => bind (parse_operand f ts) (fun x' ts' => primary_loop f x' ts')
  | Some x' => primary_loop f x' ts
  end.
Proof. reflexivity. Qed.

Lemma primary_loop_S f x ts :
  primary_loop (S f) x ts =
  match ts with
  | [] => POk x []
  | t :: _ =>
      if is_tp t LPAREN then bind (parse_func_call f x ts) (fun x' ts' => primary_loop f x' ts')
      else if is_tp t LBRACK then
        bind (parse_field_access f (pos t) x ts) (fun x' ts' => primary_loop f x' ts')
      else POk x ts
  end.
Proof. reflexivity. Qed.

Lemma parse_func_call_S f fn ts :
  parse_func_call (S f) fn ts =
  bind (expect LPAREN ts) (fun _ ts1 =>
  bind (func_args f ts1) (fun args ts2 =>
  bind (expect RPAREN ts2) (fun _ ts3 => POk (ECall (epos fn) fn args) ts3))).
Proof. reflexivity. Qed.

Lemma func_args_S f ts :
  func_args (S f) ts =
  match ts with
  | [] => POk [] []
  | t :: _ =>
      if is_tp t RPAREN then POk [] ts
      else
        bind (parse_expr f ts) (fun arg ts1 =>
          match ts1 with
          | [] => POk [arg] []
          | t1 :: ts2 =>
              if is_tp t1 RPAREN then POk [arg] ts1
              else if is_tp t1 SEP && (data t1 =? ",")%string then
                bind (func_args f ts2) (fun l r => POk (arg :: l) r)
              else PErr (Some (pos t1))
          end)
  end.
Proof. reflexivity. Qed.

Lemma parse_field_access_S f p left ts :
  parse_field_access (S f) p left ts =
  bind (expect LBRACK ts) (fun _ ts1 =>
  bind (list_items f RBRACK ts1) (fun names ts2 =>
  bind (expect RBRACK ts2) (fun _ ts3 =>
    match names with
    | [name] => POk (EAccess p left name) ts3
    | _ => PErr (Some p)
    end))).
Proof. reflexivity. Qed.

Lemma list_items_S f closer ts :
  list_items (S f) closer ts =
  match ts with
  | [] => POk [] []
  | t :: _ =>
      if is_tp t closer then POk [] ts
      else
        bind (parse_expr f ts) (fun arg ts1 =>
          match ts1 with
          | [] => POk [arg] []
          | t1 :: ts2 =>
              if is_tp t1 closer then POk [arg] ts1
              else bind (list_items f closer ts2) (fun l r => POk (arg :: l) r)
          end)
  end.
Proof. reflexivity. Qed.

Lemma parse_list_S f p ts :
  parse_list (S f) p ts =
  bind (expect LPAREN ts) (fun _ ts1 =>
  bind (list_items f RPAREN ts1) (fun l ts2 =>
  bind (expect RPAREN ts2) (fun _ ts3 => POk (EList p l) ts3))).
Proof. reflexivity. Qed.

Lemma parse_between_S f p oprec ts :
  parse_between (S f) p oprec ts =
  bind (parse_binary_expr f None oprec ts) (fun lower ts1 =>
  bind (expect OPERATOR ts1) (fun _ ts2 =>
  bind (parse_binary_expr f None oprec ts2) (fun upper ts3 =>
    POk (EList p [lower; upper]) ts3))).
Proof. reflexivity. Qed.

Lemma parse_operand_S f ts :
  parse_operand (S f) ts =
  match ts with
  | [] => PPanic
  | t :: ts' =>
      match tp t with
      | KEY => POk (EField (pos t) KeyKW) ts'
      | VALUE => POk (EField (pos t) ValueKW) ts'
      | STRING => POk (EStr (pos t) (data t)) ts'
      | LPAREN =>
          bind (parse_expr f ts') (fun x ts1 =>
          bind (expect RPAREN ts1) (fun _ ts2 => POk x ts2))
      | NAME => POk (EName (pos t) (data t)) ts'
      | NUMBER => POk (ENum (pos t) (data t)) ts'
      | FLOAT => POk (EFloat (pos t) (data t)) ts'
      | TRUE => POk (EBool (pos t) true) ts'
      | FALSE => POk (EBool (pos t) false) ts'
      | _ => PErr (Some (pos t))
      end
  end.
Proof. reflexivity. Qed.

(* ------------------------------------------------------------------ continuations *)

Lemma stop_cont p k : stop_ok p k -> cont_ok k.
Proof. destruct k; simpl; tauto. Qed.

Lemma primary_loop_stop f x k : cont_ok k -> primary_loop (S f) x k = POk x k.
Proof.
  intros H. rewrite primary_loop_S. destruct k as [|t k']; [reflexivity|].
  destruct H as [H1 H2]. rewrite H1, H2. reflexivity.
Qed.

Lemma binary_loop_stop f x p k : stop_ok p k -> binary_loop (S f) x p k = POk x k.
Proof.
  intros H. rewrite binary_loop_S. destruct k as [|t k']; [reflexivity|].
  destruct H as (_ & _ & H). cbv zeta.
  destruct (Nat.ltb_spec (precedence t) p); [reflexivity|lia].
Qed.

(* ------------------------------------------------------------------ operators *)

Lemma build_op_text o : build_op (op_text o) = Some o.
Proof. destruct o; reflexivity. Qed.

Lemma op_text_prec o : o <> ONot -> 1 <= precedence (T OPERATOR (op_text o)).
Proof. destruct o; intros H; try congruence; cbv; lia. Qed.

Lemma op_text_in o : (op_text o =? "in")%string = true -> o = OIn.
Proof. destruct o; cbv; congruence. Qed.

Lemma op_text_between o : (op_text o =? "between")%string = true -> o = OBetween.
Proof. destruct o; cbv; congruence. Qed.

(* ---------------------------------------------------------------- generic loop steps *)

Lemma binary_loop_step f x p1 (o : token) ts oo :
  p1 <= precedence o -> (data o =? "in")%string = false -> (data o =? "between")%string = false ->
  build_op (data o) = Some oo ->
  binary_loop (S f) x p1 (o :: ts) =
  bind (parse_binary_expr f None (precedence o + 1) ts)
       (fun y ts'' => binary_loop f (EBin (pos o) oo x y) p1 ts'').
Proof.
  intros Hp Hin Hbt Hop. rewrite binary_loop_S. cbv zeta.
  destruct (Nat.ltb_spec (precedence o) p1); [lia|].
  rewrite Hin, Hbt, Hop. reflexivity.
Qed.

Lemma build_op_in d : (d =? "in")%string = true -> build_op d = Some OIn.
Proof. intros H. apply String.eqb_eq in H. subst. reflexivity. Qed.

Lemma build_op_between d : (d =? "between")%string = true -> build_op d = Some OBetween.
Proof. intros H. apply String.eqb_eq in H. subst. reflexivity. Qed.

Lemma binary_loop_step_in f x p1 (o t : token) ts :
  p1 <= precedence o -> (data o =? "in")%string = true -> is_tp t LPAREN = false ->
  binary_loop (S f) x p1 (o :: t :: ts) =
  bind (parse_binary_expr f None (precedence o + 1) (t :: ts))
       (fun y ts'' => binary_loop f (EBin (pos o) OIn x y) p1 ts'').
Proof.
  intros Hp Hin Ht. rewrite binary_loop_S. cbv zeta.
  destruct (Nat.ltb_spec (precedence o) p1); [lia|].
  rewrite Hin, Ht, (build_op_in _ Hin). reflexivity.
Qed.

Lemma binary_loop_step_inlist f x p1 (o t : token) ts :
  p1 <= precedence o -> (data o =? "in")%string = true -> is_tp t LPAREN = true ->
  binary_loop (S f) x p1 (o :: t :: ts) =
  bind (parse_list f (pos o) (t :: ts))
       (fun y ts'' => binary_loop f (EBin (pos o) OIn x y) p1 ts'').
Proof.
  intros Hp Hin Ht. rewrite binary_loop_S. cbv zeta.
  destruct (Nat.ltb_spec (precedence o) p1); [lia|].
  rewrite Hin, Ht, (build_op_in _ Hin). reflexivity.
Qed.

Lemma binary_loop_step_between f x p1 (o : token) ts :
  p1 <= precedence o -> (data o =? "between")%string = true ->
  binary_loop (S f) x p1 (o :: ts) =
  bind (parse_between f (pos o) (precedence o + 1) ts)
       (fun y ts'' => binary_loop f (EBin (pos o) OBetween x y) p1 ts'').
Proof.
  intros Hp Hbt. rewrite binary_loop_S. cbv zeta.
  destruct (Nat.ltb_spec (precedence o) p1); [lia|].
  assert (Hin : (data o =? "in")%string = false).
  { apply String.eqb_eq in Hbt. rewrite Hbt. reflexivity. }
  rewrite Hin, Hbt, (build_op_between _ Hbt). reflexivity.
Qed.

(* ---------------------------------------------------------------- sizes and heads *)

Fixpoint esize (e : expr) : nat :=
  match e with
  | EBin _ _ l r => S (esize l + esize r)
  | ENot _ r => S (esize r)
  | ECall _ n args => S (esize n + list_sum (map esize args))
  | EList _ l => S (list_sum (map esize l))
  | EAccess _ l f => S (esize l + esize f)
  | _ => 1
  end.

Lemma esize_in x l : In x l -> esize x <= list_sum (map esize l).
Proof.
  induction l as [|y l IH]; simpl; [tauto|]. intros [->|H]; [lia|]. specialize (IH H). lia.
Qed.

Lemma epos_erase e : epos (erase e) = 0.
Proof. destruct e; reflexivity. Qed.

(* first token of a rendering: never a closer, never a separator *)
Definition opener (t : token) : Prop :=
  is_tp t RPAREN = false /\ is_tp t RBRACK = false.

Lemma rtoks_head e : exists t rest, rtoks e = t :: rest /\ opener t.
Proof.
  induction e; simpl; try (eexists _, _; split; [reflexivity|split; reflexivity]).
  - destruct f; eexists _, _; (split; [reflexivity|split; reflexivity]).
  - destruct IHe as (t & rest & -> & Ho). eexists _, _; split; [reflexivity|exact Ho].
  - destruct b; eexists _, _; (split; [reflexivity|split; reflexivity]).
  - destruct IHe1 as (t & rest & -> & Ho). eexists _, _; split; [reflexivity|exact Ho].
Qed.

Lemma rtoks_len_pos e : 1 <= length (rtoks e).
Proof. destruct (rtoks_head e) as (t & rest & -> & _). simpl. lia. Qed.

Definition not_bang (t : token) : Prop := (is_tp t OPERATOR && (data t =? "!")%string) = false.

Lemma rtoks_head_nobang e :
  rt_ok e = true -> is_not e = false -> exists t rest, rtoks e = t :: rest /\ not_bang t.
Proof.
  induction e; simpl; intros Hok Hn; try discriminate;
    try (eexists _, _; split; [reflexivity|reflexivity]).
  - destruct f; eexists _, _; (split; [reflexivity|reflexivity]).
  - apply andb_prop in Hok as [Hok _]. apply andb_prop in Hok as [Hok Hnn].
    apply negb_true_iff in Hnn.
    destruct (IHe Hok Hnn) as (t & rest & -> & Hb). eexists _, _; split; [reflexivity|exact Hb].
  - destruct b; eexists _, _; (split; [reflexivity|reflexivity]).
  - apply andb_prop in Hok as [Hok _]. apply andb_prop in Hok as [Hok Hnn].
    apply negb_true_iff in Hnn.
    destruct (IHe1 Hok Hnn) as (t & rest & -> & Hb). eexists _, _; split; [reflexivity|exact Hb].
Qed.

Lemma rtoks_head_noparen e :
  rt_ok e = true -> starts_paren e = false ->
  exists t rest, rtoks e = t :: rest /\ is_tp t LPAREN = false.
Proof.
  induction e; simpl; intros Hok Hs; try discriminate;
    try (eexists _, _; split; [reflexivity|reflexivity]).
  - destruct f; eexists _, _; (split; [reflexivity|reflexivity]).
  - apply andb_prop in Hok as [Hok _]. apply andb_prop in Hok as [Hok _].
    destruct (IHe Hok Hs) as (t & rest & -> & Hb). eexists _, _; split; [reflexivity|exact Hb].
  - destruct b; eexists _, _; (split; [reflexivity|reflexivity]).
  - apply andb_prop in Hok as [Hok _]. apply andb_prop in Hok as [Hok _].
    destruct (IHe1 Hok Hs) as (t & rest & -> & Hb). eexists _, _; split; [reflexivity|exact Hb].
Qed.

(* ---------------------------------------------------------------- the round trip *)

Definition comma : list token := [T SEP ","].

Definition UP (e : expr) : Prop :=
  forall fuel k, 8 * length (rtoks e) <= fuel -> cont_ok k ->
    parse_unary_expr fuel (rtoks e ++ k) = POk (erase e) k.

(* on [rtoks e ++ k] the primary parser behaves as the call/index loop entered with [erase e] on k *)
Definition PRIM (e : expr) : Prop :=
  forall fuel k R m, (forall f, m <= f -> primary_loop f (erase e) k = R) ->
    8 * length (rtoks e) - 4 + m <= fuel ->
    parse_primary_expr fuel None (rtoks e ++ k) = R.

Definition EP (e : expr) : Prop :=
  forall fuel k p, 8 * length (rtoks e) + 2 <= fuel -> stop_ok p k -> 1 <= p ->
    parse_binary_expr fuel None p (rtoks e ++ k) = POk (erase e) k.

Lemma UP_EP e : UP e -> EP e.
Proof.
  intros H fuel k p Hf Hk Hp. pose proof (rtoks_len_pos e).
  destruct fuel as [|f]; [lia|]. rewrite parse_binary_expr_S.
  rewrite H by (try lia; eapply stop_cont; eauto). cbn [bind].
  destruct f as [|f]; [lia|]. apply binary_loop_stop; assumption.
Qed.

Lemma EP_expr e : EP e -> forall fuel k, 8 * length (rtoks e) + 3 <= fuel -> stop_ok 1 k ->
  parse_expr fuel (rtoks e ++ k) = POk (erase e) k.
Proof.
  intros H fuel k Hf Hk. destruct fuel as [|f]; [lia|]. rewrite parse_expr_S.
  apply H; [lia|exact Hk|unfold LowestPrec; lia].
Qed.

Lemma parse_unary_nobang f t ts :
  not_bang t -> parse_unary_expr (S f) (t :: ts) = parse_primary_expr f None (t :: ts).
Proof. unfold not_bang. intros H. rewrite parse_unary_expr_S, H. reflexivity. Qed.

Lemma PRIM_UP e : PRIM e -> (exists t rest, rtoks e = t :: rest /\ not_bang t) -> UP e.
Proof.
  intros HP (t & rest & Hr & Hb) fuel k Hf Hk.
  pose proof (rtoks_len_pos e).
  destruct fuel as [|f]; [lia|].
  rewrite Hr. cbn [app]. rewrite parse_unary_nobang by exact Hb.
  change (t :: rest ++ k) with ((t :: rest) ++ k). rewrite <- Hr.
  apply (HP f k (POk (erase e) k) 1); [|lia].
  intros f' Hf'. destruct f' as [|f']; [lia|]. apply primary_loop_stop; assumption.
Qed.

(* closers and separators stop every loop *)
Lemma stop_rparen p k : 1 <= p -> stop_ok p (T RPAREN ")" :: k).
Proof. intros; unfold stop_ok; repeat split; try reflexivity. change (0 < p). lia. Qed.
Lemma stop_rbrack p k : 1 <= p -> stop_ok p (T RBRACK "]" :: k).
Proof. intros; unfold stop_ok; repeat split; try reflexivity. change (0 < p). lia. Qed.
Lemma stop_comma p k : 1 <= p -> stop_ok p (T SEP "," :: k).
Proof. intros; unfold stop_ok; repeat split; try reflexivity. change (0 < p). lia. Qed.

Lemma sep_concat_cons sep x y l :
  sep_concat sep (x :: y :: l) = x ++ sep ++ sep_concat sep (y :: l).
Proof. reflexivity. Qed.

(* item loop of parseList on a rendered list *)
Lemma list_items_ok items :
  Forall EP items -> forall fuel k,
  8 * length (sep_concat comma (map rtoks items)) + 6 <= fuel ->
  list_items fuel RPAREN (sep_concat comma (map rtoks items) ++ T RPAREN ")" :: k)
  = POk (map erase items) (T RPAREN ")" :: k).
Proof.
  induction items as [|x l IH]; intros HF fuel k Hf.
  - destruct fuel as [|f]; [lia|]. rewrite list_items_S. reflexivity.
  - inversion HF as [|? ? Hx Hl]; subst. destruct fuel as [|f]; [lia|]. rewrite list_items_S.
    destruct (rtoks_head x) as (t & rest & Hr & Hop1 & Hop2).
    destruct l as [|y l'].
    + cbn [map sep_concat] in *. rewrite Hr. cbn [app]. rewrite Hop1.
      change (t :: rest ++ T RPAREN ")" :: k) with ((t :: rest) ++ T RPAREN ")" :: k). rewrite <- Hr.
      rewrite (EP_expr x Hx) by (try lia; apply stop_rparen; lia). cbn [bind]. reflexivity.
    + cbn [map] in *. rewrite sep_concat_cons in *. rewrite !app_length in Hf.
      rewrite <- !app_assoc. rewrite Hr. cbn [app]. rewrite Hop1.
      change (t :: rest ++ ?z) with ((t :: rest) ++ z). rewrite <- Hr.
      unfold comma at 1. cbn [app].
      rewrite (EP_expr x Hx) by (try (cbn [length] in Hf; lia); apply stop_comma; lia). cbn [bind].
      change (is_tp (T SEP ",") RPAREN) with false. cbv iota.
      rewrite (IH Hl) by (cbn [length comma] in Hf; lia). reflexivity.
Qed.

Lemma func_args_ok items :
  Forall EP items -> forall fuel k,
  8 * length (sep_concat comma (map rtoks items)) + 6 <= fuel ->
  func_args fuel (sep_concat comma (map rtoks items) ++ T RPAREN ")" :: k)
  = POk (map erase items) (T RPAREN ")" :: k).
Proof.
  induction items as [|x l IH]; intros HF fuel k Hf.
  - destruct fuel as [|f]; [lia|]. rewrite func_args_S. reflexivity.
  - inversion HF as [|? ? Hx Hl]; subst. destruct fuel as [|f]; [lia|]. rewrite func_args_S.
    destruct (rtoks_head x) as (t & rest & Hr & Hop1 & Hop2).
    destruct l as [|y l'].
    + cbn [map sep_concat] in *. rewrite Hr. cbn [app]. rewrite Hop1.
      change (t :: rest ++ T RPAREN ")" :: k) with ((t :: rest) ++ T RPAREN ")" :: k). rewrite <- Hr.
      rewrite (EP_expr x Hx) by (try lia; apply stop_rparen; lia). cbn [bind]. reflexivity.
    + cbn [map] in *. rewrite sep_concat_cons in *. rewrite !app_length in Hf.
      rewrite <- !app_assoc. rewrite Hr. cbn [app]. rewrite Hop1.
      change (t :: rest ++ ?z) with ((t :: rest) ++ z). rewrite <- Hr.
      unfold comma at 1. cbn [app].
      rewrite (EP_expr x Hx) by (try (cbn [length] in Hf; lia); apply stop_comma; lia). cbn [bind].
      change (is_tp (T SEP ",") RPAREN) with false.
      change (is_tp (T SEP ",") SEP && (data (T SEP ",") =? ",")%string) with true. cbv iota.
      rewrite (IH Hl) by (cbn [length comma] in Hf; lia). reflexivity.
Qed.

Lemma PRIM_atom e t :
  rtoks e = [t] -> (forall f ts, parse_operand (S f) (t :: ts) = POk (erase e) ts) -> PRIM e.
Proof.
  intros Hr Hop fuel k R m HR Hf. rewrite Hr in *. cbn [length app] in *.
  destruct fuel as [|f]; [lia|]. rewrite parse_primary_expr_S.
  destruct f as [|f]; [lia|]. rewrite Hop. cbn [bind]. apply HR. lia.
Qed.

Lemma PRIM_paren e inner :
  rtoks e = T LPAREN "(" :: inner ++ [T RPAREN ")"] ->
  (forall fuel k, 8 * length inner + 6 <= fuel ->
     parse_expr fuel (inner ++ T RPAREN ")" :: k) = POk (erase e) (T RPAREN ")" :: k)) ->
  PRIM e.
Proof.
  intros Hr Hin fuel k R m HR Hf. rewrite Hr in *. cbn [length] in Hf. rewrite app_length in Hf.
  cbn [length] in Hf.
  destruct fuel as [|f]; [lia|]. rewrite parse_primary_expr_S.
  destruct f as [|f]; [lia|]. cbn [app]. rewrite parse_operand_S. cbn [tp T].
  rewrite <- app_assoc. cbn [app]. rewrite Hin by lia. cbn [bind expect].
  change (toktype_eqb (tp (T RPAREN ")")) RPAREN) with true. cbv iota. cbn [bind].
  apply HR. lia.
Qed.

Lemma cont_op d rest : cont_ok (T OPERATOR d :: rest).
Proof. split; reflexivity. Qed.

(* "( l op r )" for an operator that is neither IN nor BETWEEN *)
Lemma bin_plain l r o :
  UP l -> EP r -> o <> ONot -> o <> OIn -> o <> OBetween -> forall fuel k,
  8 * (length (rtoks l) + 1 + length (rtoks r)) + 6 <= fuel ->
  parse_expr fuel (rtoks l ++ T OPERATOR (op_text o) :: rtoks r ++ T RPAREN ")" :: k)
  = POk (EBin 0 o (erase l) (erase r)) (T RPAREN ")" :: k).
Proof.
  intros Hl Hr Hn Hi Hb fuel k Hf.
  pose proof (rtoks_len_pos l). pose proof (rtoks_len_pos r).
  destruct fuel as [|f]; [lia|]. rewrite parse_expr_S.
  destruct f as [|f]; [lia|]. rewrite parse_binary_expr_S.
  rewrite Hl by (try lia; apply cont_op). cbn [bind].
  destruct f as [|f]; [lia|].
  rewrite (binary_loop_step f (erase l) (LowestPrec + 1) (T OPERATOR (op_text o)) _ o).
  - rewrite Hr; [|lia|apply stop_rparen; lia|lia]. cbn [bind pos T].
    destruct f as [|f]; [lia|]. apply binary_loop_stop. apply stop_rparen. unfold LowestPrec; lia.
  - pose proof (op_text_prec o Hn). unfold LowestPrec. lia.
  - cbn [data T]. destruct (op_text o =? "in")%string eqn:E; [|reflexivity].
    apply op_text_in in E. congruence.
  - cbn [data T]. destruct (op_text o =? "between")%string eqn:E; [|reflexivity].
    apply op_text_between in E. congruence.
  - apply build_op_text.
Qed.

(* "( l in r )", r not a list and not printed with a leading parenthesis *)
Lemma bin_in_nolist l r :
  UP l -> EP r -> (exists t rest, rtoks r = t :: rest /\ is_tp t LPAREN = false) -> forall fuel k,
  8 * (length (rtoks l) + 1 + length (rtoks r)) + 6 <= fuel ->
  parse_expr fuel (rtoks l ++ T OPERATOR "in" :: rtoks r ++ T RPAREN ")" :: k)
  = POk (EBin 0 OIn (erase l) (erase r)) (T RPAREN ")" :: k).
Proof.
  intros Hl Hr (t & rest & Hrt & Ht) fuel k Hf.
  pose proof (rtoks_len_pos l). pose proof (rtoks_len_pos r).
  destruct fuel as [|f]; [lia|]. rewrite parse_expr_S.
  destruct f as [|f]; [lia|]. rewrite parse_binary_expr_S.
  rewrite Hl by (try lia; apply cont_op). cbn [bind].
  destruct f as [|f]; [lia|].
  rewrite Hrt. cbn [app].
  rewrite (binary_loop_step_in f (erase l) (LowestPrec + 1) (T OPERATOR "in") t); [|cbv; lia|reflexivity|exact Ht].
  change (t :: rest ++ ?z) with ((t :: rest) ++ z). rewrite <- Hrt.
  rewrite Hr; [|lia|apply stop_rparen; lia|lia]. cbn [bind pos T].
  destruct f as [|f]; [lia|]. apply binary_loop_stop. apply stop_rparen. unfold LowestPrec; lia.
Qed.

(* "( l in ( i1 , .. , in ) )" *)
Lemma bin_in_list l items :
  UP l -> Forall EP items -> forall fuel k,
  8 * (length (rtoks l) + 3 + length (sep_concat comma (map rtoks items))) + 6 <= fuel ->
  parse_expr fuel (rtoks l ++ T OPERATOR "in" :: T LPAREN "(" ::
                     sep_concat comma (map rtoks items) ++ T RPAREN ")" :: T RPAREN ")" :: k)
  = POk (EBin 0 OIn (erase l) (EList 0 (map erase items))) (T RPAREN ")" :: k).
Proof.
  intros Hl Hit fuel k Hf.
  pose proof (rtoks_len_pos l).
  destruct fuel as [|f]; [lia|]. rewrite parse_expr_S.
  destruct f as [|f]; [lia|]. rewrite parse_binary_expr_S.
  rewrite Hl by (try lia; apply cont_op). cbn [bind].
  destruct f as [|f]; [lia|].
  rewrite (binary_loop_step_inlist f (erase l) (LowestPrec + 1) (T OPERATOR "in") (T LPAREN "("));
    [|cbv; lia|reflexivity|reflexivity].
  destruct f as [|f]; [lia|]. rewrite parse_list_S. cbn [expect bind].
  change (toktype_eqb (tp (T LPAREN "(")) LPAREN) with true. cbv iota. cbn [bind].
  rewrite (list_items_ok items Hit) by lia. cbn [bind expect].
  change (toktype_eqb (tp (T RPAREN ")")) RPAREN) with true. cbv iota. cbn [bind pos T].
  apply binary_loop_stop. apply stop_rparen. unfold LowestPrec; lia.
Qed.

(* "( l between lo and hi )" *)
Lemma bin_between l lo hi :
  UP l -> EP lo -> EP hi -> forall fuel k,
  8 * (length (rtoks l) + 2 + length (rtoks lo) + length (rtoks hi)) + 6 <= fuel ->
  parse_expr fuel (rtoks l ++ T OPERATOR "between" :: rtoks lo ++ T OPERATOR "and" :: rtoks hi
                     ++ T RPAREN ")" :: k)
  = POk (EBin 0 OBetween (erase l) (EList 0 [erase lo; erase hi])) (T RPAREN ")" :: k).
Proof.
  intros Hl Hlo Hhi fuel k Hf.
  pose proof (rtoks_len_pos l). pose proof (rtoks_len_pos lo). pose proof (rtoks_len_pos hi).
  destruct fuel as [|f]; [lia|]. rewrite parse_expr_S.
  destruct f as [|f]; [lia|]. rewrite parse_binary_expr_S.
  rewrite Hl by (try lia; apply cont_op). cbn [bind].
  destruct f as [|f]; [lia|].
  rewrite (binary_loop_step_between f (erase l) (LowestPrec + 1) (T OPERATOR "between"));
    [|cbv; lia|reflexivity].
  destruct f as [|f]; [lia|]. rewrite parse_between_S.
  change (precedence (T OPERATOR "between") + 1) with 4.
  rewrite Hlo; [|lia| |lia].
  2:{ unfold stop_ok. repeat split; try reflexivity. cbv. lia. }
  cbn [bind expect]. change (toktype_eqb (tp (T OPERATOR "and")) OPERATOR) with true. cbv iota. cbn [bind].
  rewrite Hhi; [|lia|apply stop_rparen; lia|lia]. cbn [bind pos T].
  apply binary_loop_stop. apply stop_rparen. unfold LowestPrec; lia.
Qed.

(* call suffix: the loop entered with x on "( args ) k" goes on with the call on k *)
Lemma PRIM_call n args :
  PRIM n -> Forall EP args -> PRIM (ECall 0 n args).
Proof.
  intros Hn Ha fuel k R m HR Hf.
  cbn [rtoks] in *. rewrite <- !app_assoc. cbn [app].
  cbn [length] in Hf; repeat (rewrite app_length in Hf; cbn [length] in Hf).
  fold comma in *.
  apply (Hn fuel _ R (m + 8 * length (sep_concat comma (map rtoks args)) + 9)); [|lia].
  intros f Hf'. destruct f as [|f]; [lia|]. rewrite primary_loop_S.
  change (is_tp (T LPAREN "(") LPAREN) with true. cbv iota.
  destruct f as [|f]; [lia|]. rewrite parse_func_call_S. cbn [expect bind].
  change (toktype_eqb (tp (T LPAREN "(")) LPAREN) with true. cbv iota. cbn [bind].
  rewrite (func_args_ok args Ha) by lia. cbn [bind expect].
  change (toktype_eqb (tp (T RPAREN ")")) RPAREN) with true. cbv iota. cbn [bind].
  rewrite epos_erase. apply HR. lia.
Qed.

Lemma PRIM_access l fld :
  PRIM l -> EP fld -> PRIM (EAccess 0 l fld).
Proof.
  intros Hl Hfld fuel k R m HR Hf.
  cbn [rtoks] in *. rewrite <- !app_assoc. cbn [app].
  cbn [length] in Hf; repeat (rewrite app_length in Hf; cbn [length] in Hf).
  apply (Hl fuel _ R (m + 8 * length (rtoks fld) + 9)); [|lia].
  intros f Hf'. destruct f as [|f]; [lia|]. rewrite primary_loop_S.
  change (is_tp (T LBRACK "[") LPAREN) with false. change (is_tp (T LBRACK "[") LBRACK) with true. cbv iota.
  destruct f as [|f]; [lia|]. rewrite parse_field_access_S. cbn [expect bind].
  change (toktype_eqb (tp (T LBRACK "[")) LBRACK) with true. cbv iota. cbn [bind].
  destruct f as [|f]; [lia|]. rewrite list_items_S.
  destruct (rtoks_head fld) as (t & rest & Hr & Hop1 & Hop2).
  rewrite Hr. cbn [app]. rewrite Hop2.
  change (t :: rest ++ ?z) with ((t :: rest) ++ z). rewrite <- Hr.
  rewrite (EP_expr fld Hfld) by (try lia; apply stop_rbrack; lia). cbn [bind].
  change (is_tp (T RBRACK "]") RBRACK) with true. cbv iota. cbn [expect bind].
  change (toktype_eqb (tp (T RBRACK "]")) RBRACK) with true. cbv iota. cbn [bind pos T].
  apply HR. lia.
Qed.

Lemma UP_not r : EP r -> UP (ENot 0 r).
Proof.
  intros Hr fuel k Hf Hk. cbn [rtoks erase] in *. cbn [app length] in *.
  rewrite app_length in Hf. cbn [length] in Hf.
  destruct fuel as [|f]; [lia|]. rewrite parse_unary_expr_S.
  change (is_tp (T OPERATOR "!") OPERATOR && (data (T OPERATOR "!") =? "!")%string) with true. cbv iota.
  destruct f as [|f]; [lia|]. rewrite parse_unary_nobang by reflexivity.
  destruct f as [|f]; [lia|]. rewrite parse_primary_expr_S.
  destruct f as [|f]; [lia|]. rewrite parse_operand_S. cbn [tp T].
  rewrite <- app_assoc. cbn [app].
  rewrite (EP_expr r Hr) by (try lia; apply stop_rparen; lia). cbn [bind expect].
  change (toktype_eqb (tp (T RPAREN ")")) RPAREN) with true. cbv iota. cbn [bind].
  rewrite primary_loop_stop by exact Hk. cbn [bind pos T]. reflexivity.
Qed.

(* positions do not matter for the statements: they speak about erase and rtoks only *)
Lemma UP_pos_irrelevant e e' : rtoks e = rtoks e' -> erase e = erase e' -> UP e -> UP e'.
Proof. unfold UP. intros H1 H2 H. rewrite <- H1, <- H2. exact H. Qed.
Lemma PRIM_pos_irrelevant e e' : rtoks e = rtoks e' -> erase e = erase e' -> PRIM e -> PRIM e'.
Proof. unfold PRIM. intros H1 H2 H. rewrite <- H1, <- H2. exact H. Qed.

Lemma forallb_Forall_rt (P : expr -> Prop) l :
  forallb rt_ok l = true -> (forall x, In x l -> rt_ok x = true -> P x) -> Forall P l.
Proof.
  intros H HP. apply Forall_forall. intros x Hx. apply HP; [exact Hx|].
  rewrite forallb_forall in H. auto.
Qed.


Lemma list_or_not r :
  (exists p items, r = EList p items) \/ match r with EList _ _ => False | _ => True end.
Proof. destruct r; eauto. Qed.

Lemma rtoks_bin_nolist p o l r :
  match r with EList _ _ => False | _ => True end ->
  rtoks (EBin p o l r) = T LPAREN "(" :: (rtoks l ++ T OPERATOR (op_text o) :: rtoks r) ++ [T RPAREN ")"].
Proof.
  intros H. cbn [rtoks app].
  destruct o; try (rewrite <- app_assoc; reflexivity).
  destruct r; try contradiction; rewrite <- app_assoc; reflexivity.
Qed.

Lemma rt_ok_in_nolist p l r :
  match r with EList _ _ => False | _ => True end ->
  rt_ok (EBin p OIn l r) = rt_ok l && (rt_ok r && negb (starts_paren r)).
Proof. intros H. destruct r; try contradiction; reflexivity. Qed.

Lemma rt_ok_between_nolist p l r :
  match r with EList _ _ => False | _ => True end -> rt_ok (EBin p OBetween l r) = false.
Proof. intros H. destruct r; try contradiction; cbn [rt_ok]; apply andb_false_r. Qed.

Lemma rt_ok_plain p o l r :
  o <> ONot -> o <> OIn -> o <> OBetween -> rt_ok (EBin p o l r) = rt_ok l && rt_ok r.
Proof. intros; destruct o; try congruence; reflexivity. Qed.

Ltac norm_list := repeat first [rewrite <- app_assoc | progress (cbn [app])].

Lemma roundtrip_main : forall n e, esize e <= n -> rt_ok e = true ->
  UP e /\ (is_not e = false -> PRIM e).
Proof.
  induction n as [|n IH]; intros e Hs Hok.
  { destruct e; simpl in Hs; lia. }
  assert (IHU : forall x, esize x <= n -> rt_ok x = true -> UP x) by (intros; apply IH; assumption).
  assert (IHE : forall x, esize x <= n -> rt_ok x = true -> EP x) by (intros; apply UP_EP, IHU; assumption).
  assert (HPU : forall x, rt_ok x = true -> is_not x = false -> PRIM x -> UP x).
  { intros x H1 H2 H3. apply PRIM_UP; [exact H3|apply rtoks_head_nobang; assumption]. }
  assert (Hboth : forall x, rt_ok x = true -> is_not x = false -> PRIM x -> UP x /\ (is_not x = false -> PRIM x)).
  { intros x H1 H2 H3. split; [apply HPU; assumption|intros _; exact H3]. }
  destruct e; cbn [esize] in Hs.
  - (* EBin *)
    apply Hboth; [exact Hok|reflexivity|].
    destruct (list_or_not e2) as [(p' & items & ->)|Hnl].
    + (* the right side is a list: IN or BETWEEN *)
      cbn [rt_ok] in Hok.
      destruct o; try discriminate; try (apply andb_prop in Hok as [_ Hok]; discriminate).
      * (* in *)
        apply andb_prop in Hok as [Hl Hr].
        apply (PRIM_paren _ (rtoks e1 ++ T OPERATOR "in" :: T LPAREN "(" :: sep_concat comma (map rtoks items) ++ [T RPAREN ")"])).
        { cbn [rtoks op_text]. unfold comma. norm_list. reflexivity. }
        intros fuel k Hf. norm_list. cbn [erase].
        cbn [length] in Hf; repeat (rewrite app_length in Hf; cbn [length] in Hf).
        apply bin_in_list; [apply IHU; [lia|exact Hl]| |lia].
        apply (forallb_Forall_rt EP _ Hr); intros x Hx Hxok; apply IHE; [|exact Hxok].
        apply esize_in in Hx; cbn [esize] in Hs; lia.
      * (* between *)
        apply andb_prop in Hok as [Hl Hr].
        destruct items as [|lo [|hi [|? ?]]]; try discriminate.
        apply andb_prop in Hr as [Hlo Hhi].
        apply (PRIM_paren _ (rtoks e1 ++ T OPERATOR "between" :: rtoks lo ++ T OPERATOR "and" :: rtoks hi)).
        { cbn [rtoks]. norm_list. reflexivity. }
        intros fuel k Hf. norm_list. cbn [erase map].
        cbn [length] in Hf; repeat (rewrite app_length in Hf; cbn [length] in Hf).
        cbn [esize map list_sum fold_right] in Hs.
        apply bin_between; [apply IHU; [lia|exact Hl]|apply IHE; [lia|exact Hlo]|apply IHE; [lia|exact Hhi]|lia].
    + (* not a list *)
      apply (PRIM_paren _ (rtoks e1 ++ T OPERATOR (op_text o) :: rtoks e2)).
      { apply rtoks_bin_nolist; exact Hnl. }
      intros fuel k Hf. rewrite <- app_assoc. cbn [app erase].
      cbn [length] in Hf; repeat (rewrite app_length in Hf; cbn [length] in Hf).
      destruct (op_eqb o OIn) eqn:Ein.
      * assert (o = OIn) by (destruct o; try discriminate; reflexivity). subst o.
        rewrite (rt_ok_in_nolist _ _ _ Hnl) in Hok.
        apply andb_prop in Hok as [Hl Hr]. apply andb_prop in Hr as [Hr Hsp]. apply negb_true_iff in Hsp.
        apply bin_in_nolist; [apply IHU; [lia|exact Hl]|apply IHE; [lia|exact Hr]|
                              apply rtoks_head_noparen; assumption|lia].
      * assert (Hni : o <> OIn) by (intros ->; discriminate).
        destruct (op_eqb o OBetween) eqn:Ebt.
        { assert (o = OBetween) by (destruct o; try discriminate; reflexivity). subst o.
          rewrite (rt_ok_between_nolist _ _ _ Hnl) in Hok. discriminate. }
        assert (Hnb : o <> OBetween) by (intros ->; discriminate).
        destruct (op_eqb o ONot) eqn:Ent.
        { assert (o = ONot) by (destruct o; try discriminate; reflexivity). subst o. discriminate. }
        assert (Hnn : o <> ONot) by (intros ->; discriminate).
        rewrite (rt_ok_plain _ _ _ _ Hnn Hni Hnb) in Hok. apply andb_prop in Hok as [Hl Hr].
        apply bin_plain; [apply IHU; [lia|exact Hl]|apply IHE; [lia|exact Hr]|assumption..|lia].
  - (* EField *)
    apply Hboth; [exact Hok|reflexivity|].
    destruct f; (eapply PRIM_atom; [reflexivity|intros; rewrite parse_operand_S; reflexivity]).
  - (* EStr *)
    apply Hboth; [exact Hok|reflexivity|].
    eapply PRIM_atom; [reflexivity|intros; rewrite parse_operand_S; reflexivity].
  - (* ENot *)
    split; [|discriminate].
    cbn [rt_ok] in Hok.
    apply (UP_pos_irrelevant (ENot 0 e)); [reflexivity|reflexivity|].
    apply UP_not. apply IHE; [lia|exact Hok].
  - (* ECall *)
    apply Hboth; [exact Hok|reflexivity|].
    cbn [rt_ok] in Hok. apply andb_prop in Hok as [Hok Hargs]. apply andb_prop in Hok as [Hn Hnn].
    apply negb_true_iff in Hnn.
    apply (PRIM_pos_irrelevant (ECall 0 e args)); [reflexivity|reflexivity|].
    apply PRIM_call.
    + apply IH; [lia|exact Hn|exact Hnn].
    + apply (forallb_Forall_rt EP args Hargs). intros x Hx Hxok. apply IHE; [|exact Hxok].
      apply esize_in in Hx. lia.
  - (* EName *)
    apply Hboth; [exact Hok|reflexivity|].
    eapply PRIM_atom; [reflexivity|intros; rewrite parse_operand_S; reflexivity].
  - (* ERef *)
    apply Hboth; [exact Hok|reflexivity|].
    eapply PRIM_atom; [reflexivity|intros; rewrite parse_operand_S; reflexivity].
  - (* ENum *)
    apply Hboth; [exact Hok|reflexivity|].
    eapply PRIM_atom; [reflexivity|intros; rewrite parse_operand_S; reflexivity].
  - (* EFloat *)
    apply Hboth; [exact Hok|reflexivity|].
    eapply PRIM_atom; [reflexivity|intros; rewrite parse_operand_S; reflexivity].
  - (* EBool *)
    apply Hboth; [exact Hok|reflexivity|].
    destruct b; (eapply PRIM_atom; [reflexivity|intros; rewrite parse_operand_S; reflexivity]).
  - (* EList *) discriminate.
  - (* EAccess *)
    apply Hboth; [exact Hok|reflexivity|].
    cbn [rt_ok] in Hok. apply andb_prop in Hok as [Hok Hf]. apply andb_prop in Hok as [Hl Hnn].
    apply negb_true_iff in Hnn.
    apply (PRIM_pos_irrelevant (EAccess 0 e1 e2)); [reflexivity|reflexivity|].
    apply PRIM_access.
    + apply IH; [lia|exact Hl|exact Hnn].
    + apply IHE; [lia|exact Hf].
Qed.

Theorem print_parse_thm : forall e, rt_ok e = true ->
  parse_expr_top (rtoks e) = POk (erase e) [].
Proof.
  intros e H. destruct (roundtrip_main (esize e) e (le_n _) H) as [HU _].
  unfold parse_expr_top, fuel_of. rewrite <- (app_nil_r (rtoks e)) at 2.
  apply EP_expr; [apply UP_EP; exact HU|lia|exact I].
Qed.

(* every rendered expression is an operand for the surrounding parse *)
Lemma rendered_chunk_aux e : rt_ok e = true -> UP e.
Proof. intros H. exact (proj1 (roundtrip_main (esize e) e (le_n _) H)). Qed.

(* ================================================================ flat sequences *)

Definition iprec (i : item) : nat := precedence (fst i).

(* ---------------------------------------------------------------- climb (function) = Climb (relation) *)

Lemma last_min_in l i m : last_min l = Some (i, m) -> exists it, In it l /\ iprec it = m.
Proof.
  revert i m. induction l as [|[o a] l IH]; intros i m H; cbn [last_min] in H; [discriminate|].
  destruct (last_min l) as [[j m']|] eqn:E.
  - destruct (Nat.ltb (precedence o) m') eqn:L; inversion H; subst.
    + exists (o, a). split; [left; reflexivity|reflexivity].
    + destruct (IH _ _ eq_refl) as (it & Hin & Hp). exists it. split; [right; exact Hin|exact Hp].
  - inversion H; subst. exists (o, a). split; [left; reflexivity|reflexivity].
Qed.

Lemma last_min_split before o a after :
  (forall i, In i before -> precedence o <= iprec i) ->
  (forall i, In i after -> precedence o < iprec i) ->
  last_min (before ++ (o, a) :: after) = Some (length before, precedence o).
Proof.
  intros Hb Ha. induction before as [|[o' a'] before IH]; cbn [app last_min length].
  - destruct (last_min after) as [[j m']|] eqn:E; [|reflexivity].
    destruct (last_min_in _ _ _ E) as (it & Hin & Hp). specialize (Ha it Hin).
    destruct (Nat.ltb_spec (precedence o) m'); [reflexivity|lia].
  - rewrite IH by (intros i Hi; apply Hb; right; exact Hi).
    specialize (Hb (o', a') (or_introl eq_refl)). unfold iprec in Hb. cbn [fst] in Hb.
    destruct (Nat.ltb_spec (precedence o') (precedence o)); [lia|reflexivity].
Qed.

Lemma climb_spec_complete x l t : Climb x l t -> forall n, length l <= n -> climb_spec n x l = t.
Proof.
  induction 1 as [x|x before o a after oo tl tr Hb Ha Hop _ IH1 _ IH2]; intros n Hn.
  - destruct n; reflexivity.
  - rewrite app_length in Hn. cbn [length] in Hn. destruct n as [|n]; [lia|]. cbn [climb_spec].
    pose proof (last_min_split before o a after Hb Ha) as E. unfold item in *. rewrite E.
    replace (skipn (length before) (before ++ (o, a) :: after)) with ((o, a) :: after)
      by (rewrite skipn_app, skipn_all, Nat.sub_diag; reflexivity).
    rewrite Hop.
    replace (firstn (length before) (before ++ (o, a) :: after)) with before
      by (rewrite firstn_app, firstn_all, Nat.sub_diag; cbn [firstn]; rewrite app_nil_r; reflexivity).
    rewrite IH1 by lia. rewrite IH2 by lia. reflexivity.
Qed.

Lemma climb_complete x l t : Climb x l t -> climb x l = t.
Proof. intros H. apply (climb_spec_complete x l t H). apply le_n. Qed.

(* ---------------------------------------------------------------- contraction *)

Definition head_le (p : nat) (l : list item) : Prop :=
  match l with [] => True | i :: _ => iprec i <= p end.

Lemma Climb_contract x o a oo A ya B t :
  (forall i, In i A -> precedence o < iprec i) ->
  build_op (data o) = Some oo ->
  Climb a A ya ->
  Climb (EBin (pos o) oo x ya) B t ->
  head_le (precedence o) B ->
  Climb x ((o, a) :: A ++ B) t.
Proof.
  intros HA Hop HCa HC. remember (EBin (pos o) oo x ya) as x0 eqn:Ex0.
  induction HC as [x1|x1 before o' a' after oo' tl tr Hb Haf Hop' HC1 IH1 HC2 _]; intros Hh; subst x1.
  - rewrite app_nil_r. apply (Climb_split x [] o a A oo x ya); auto.
    + intros i [].
    + constructor.
  - assert (Hle : precedence o' <= precedence o).
    { destruct before as [|b before']; cbn [app head_le] in Hh.
      - exact Hh.
      - specialize (Hb b (or_introl eq_refl)). unfold iprec in Hh. lia. }
    replace ((o, a) :: A ++ before ++ (o', a') :: after)
      with (((o, a) :: A ++ before) ++ (o', a') :: after)
      by (cbn [app]; rewrite <- app_assoc; reflexivity).
    apply Climb_split; auto.
    + intros i [<-|Hi]; [exact Hle|]. apply in_app_or in Hi as [Hi|Hi].
      * specialize (HA i Hi). unfold iprec in HA. lia.
      * apply Hb; exact Hi.
    + apply IH1; [reflexivity|]. destruct before; [exact I|exact Hh].
Qed.

(* ---------------------------------------------------------------- the loop on a flat sequence *)

Fixpoint takeW (p : nat) (l : list fitem) : list fitem :=
  match l with
  | [] => []
  | i :: l' => if Nat.ltb (precedence (fop i)) p then [] else i :: takeW p l'
  end.
Fixpoint dropW (p : nat) (l : list fitem) : list fitem :=
  match l with
  | [] => []
  | i :: l' => if Nat.ltb (precedence (fop i)) p then l else dropW p l'
  end.

Lemma prec_pos_operator t : 1 <= precedence t -> tp t = OPERATOR.
Proof. unfold precedence, LowestPrec. destruct (tp t); intros; try lia; reflexivity. Qed.

Lemma prec_pos_build t : 1 <= precedence t -> exists oo, build_op (data t) = Some oo.
Proof.
  unfold precedence, LowestPrec. destruct (tp t); try lia. cbv zeta.
  repeat match goal with
  | |- context [(data t =? ?s)%string] =>
      destruct (String.eqb_spec (data t) s) as [->|?]; [intros _; eexists; reflexivity|]
  end.
  cbn. lia.
Qed.

Lemma dropW_length p l : length (dropW p l) <= length l.
Proof.
  induction l as [|i l IH]; cbn [dropW length]; [lia|].
  destruct (Nat.ltb _ _); cbn [length]; lia.
Qed.

Lemma dropW_Forall (P : fitem -> Prop) p l : Forall P l -> Forall P (dropW p l).
Proof.
  induction 1 as [|i l Hi Hl IH]; cbn [dropW]; [constructor|].
  destruct (Nat.ltb _ _); [constructor; assumption|exact IH].
Qed.

Lemma takeW_prec p l i : In i (takeW p l) -> p <= precedence (fop i).
Proof.
  induction l as [|j l IH]; cbn [takeW]; [intros []|].
  destruct (Nat.ltb_spec (precedence (fop j)) p); [intros []|].
  intros [<-|H']; [assumption|apply IH; exact H'].
Qed.

Lemma dropW_head p l : match dropW p l with [] => True | i :: _ => precedence (fop i) < p end.
Proof.
  induction l as [|j l IH]; cbn [dropW]; [exact I|].
  destruct (Nat.ltb_spec (precedence (fop j)) p); [assumption|exact IH].
Qed.

Lemma takeW_split p q l : p <= q ->
  takeW p l = takeW q l ++ takeW p (dropW q l) /\ dropW p l = dropW p (dropW q l).
Proof.
  intros Hpq. induction l as [|j l [IH1 IH2]]; cbn [takeW dropW app]; [split; reflexivity|].
  destruct (Nat.ltb_spec (precedence (fop j)) q) as [Hq|Hq].
  - cbn [app takeW dropW]. split; reflexivity.
  - destruct (Nat.ltb_spec (precedence (fop j)) p) as [Hp|Hp]; [lia|].
    cbn [app]. rewrite <- IH1, <- IH2. split; reflexivity.
Qed.

Lemma takeW_all p l : (forall i, In i l -> p <= precedence (fop i)) -> takeW p l = l /\ dropW p l = [].
Proof.
  induction l as [|j l IH]; intros H; cbn [takeW dropW]; [split; reflexivity|].
  destruct (Nat.ltb_spec (precedence (fop j)) p) as [Hp|Hp].
  - specialize (H j (or_introl eq_refl)). lia.
  - destruct IH as [-> ->]; [intros i Hi; apply H; right; exact Hi|]. split; reflexivity.
Qed.

Lemma stop_mono p q k : p <= q -> stop_ok p k -> stop_ok q k.
Proof. destruct k; cbn; [tauto|]. intros ? (?&?&?). repeat split; auto; lia. Qed.

Lemma cont_flat l k : Forall fitem_ok l -> cont_ok k -> cont_ok (flat l ++ k).
Proof.
  intros Hl Hk. destruct l as [|i l]; [exact Hk|].
  inversion Hl as [|? ? (Hp & _) _]; subst. cbn. apply prec_pos_operator in Hp.
  unfold is_tp. rewrite Hp. split; reflexivity.
Qed.

Lemma flat_cons o c a l : flat ((o, c, a) :: l) = o :: c ++ flat l.
Proof. reflexivity. Qed.

Lemma flat_length_cons o c a l : length (flat ((o, c, a) :: l)) = S (length c + length (flat l)).
Proof. rewrite flat_cons. cbn [length]. rewrite app_length. reflexivity. Qed.

Lemma dropW_flat_length p l : length (flat (dropW p l)) <= length (flat l).
Proof.
  induction l as [|[[o c] a] l IH]; cbn [dropW]; [lia|].
  destruct (Nat.ltb _ _); [lia|]. rewrite flat_length_cons. lia.
Qed.

Lemma loop_spec : forall n items, length items <= n -> Forall fitem_ok items ->
  forall x p1, 1 <= p1 ->
  exists t, Climb x (map fitem_item (takeW p1 items)) t /\
  forall fuel k, 8 * length (flat items) + 1 <= fuel -> stop_ok 1 k ->
    binary_loop fuel x p1 (flat items ++ k) = POk t (flat (dropW p1 items) ++ k).
Proof.
  induction n as [|n IH]; intros items Hlen Hok x p1 Hp1.
  - destruct items; [|cbn in Hlen; lia]. exists x. split; [constructor|].
    intros fuel k Hf Hk. destruct fuel as [|f]; [lia|]. cbn [flat map concat app dropW].
    apply binary_loop_stop. eapply stop_mono; eauto.
  - destruct items as [|[[o c] a] rest].
    { exists x. split; [constructor|].
      intros fuel k Hf Hk. destruct fuel as [|f]; [lia|]. cbn [flat map concat app dropW].
      apply binary_loop_stop. eapply stop_mono; eauto. }
    inversion Hok as [|? ? Hi Hrest]; subst. cbn [length] in Hlen.
    cbn [takeW dropW fop fst].
    destruct (Nat.ltb_spec (precedence o) p1) as [Hlt|Hge].
    + exists x. split; [constructor|]. intros fuel k Hf Hk. destruct fuel as [|f]; [lia|].
      rewrite flat_cons. cbn [app]. rewrite binary_loop_S. cbv zeta.
      destruct (Nat.ltb_spec (precedence o) p1); [reflexivity|lia].
    + destruct Hi as (Hpos & Hbt & Hin & Hc). cbn [fop fst snd] in *.
      destruct (prec_pos_build o Hpos) as (oo & Hoo).
      set (q := precedence o + 1).
      destruct (IH rest ltac:(lia) Hrest a q ltac:(lia)) as (t1 & HC1 & Hm1).
      pose proof (dropW_length q rest) as Hdl.
      destruct (IH (dropW q rest) ltac:(lia) (dropW_Forall _ q rest Hrest) (EBin (pos o) oo x t1) p1 Hp1)
        as (t2 & HC2 & Hm2).
      destruct (takeW_split p1 q rest ltac:(lia)) as [Et Ed].
      exists t2. split.
      * rewrite Et. cbn [map]. rewrite map_app. unfold fitem_item at 1. cbn [fst snd].
        apply (Climb_contract x o a oo _ t1 _ t2); auto.
        -- intros i Hi. apply in_map_iff in Hi as (j & <- & Hj). apply takeW_prec in Hj.
           unfold iprec, fitem_item. cbn [fst]. unfold fop in Hj. lia.
        -- pose proof (dropW_head q rest) as Hh.
           destruct (dropW q rest) as [|j r2]; [exact I|]. cbn [takeW].
           destruct (Nat.ltb _ _); [exact I|]. cbn [map head_le]. unfold iprec, fitem_item. cbn [fst].
           unfold fop in Hh. lia.
      * intros fuel k Hf Hk. rewrite flat_length_cons in Hf.
        pose proof (dropW_flat_length q rest) as Hfl.
        destruct fuel as [|f]; [lia|]. rewrite flat_cons. cbn [app].
        assert (Hy : parse_binary_expr f None q (c ++ flat rest ++ k) = POk t1 (flat (dropW q rest) ++ k)).
        { destruct f as [|f']; [lia|]. rewrite parse_binary_expr_S.
          rewrite Hc; [|lia|apply cont_flat; [exact Hrest|eapply stop_cont; eauto]].
          cbn [bind]. apply Hm1; [lia|exact Hk]. }
        rewrite <- app_assoc.
        destruct (data o =? "in")%string eqn:Ein.
        -- destruct (Hin eq_refl) as (t0 & r0 & -> & Ht0). cbn [app] in *.
           rewrite (binary_loop_step_in f x p1 o t0); [|exact Hge|exact Ein|exact Ht0].
           fold q. rewrite Hy. cbn [bind]. rewrite (build_op_in _ Ein) in Hoo. inversion Hoo; subst oo.
           rewrite Ed. apply Hm2; [lia|exact Hk].
        -- rewrite (binary_loop_step f x p1 o _ oo); [|exact Hge|exact Ein|exact Hbt|exact Hoo].
           fold q. rewrite Hy. cbn [bind]. rewrite Ed. apply Hm2; [lia|exact Hk].
Qed.

Theorem flat_precedence_thm c0 a0 items :
  chunk c0 a0 -> Forall fitem_ok items ->
  expr_chunk (c0 ++ flat items) (climb a0 (map fitem_item items)).
Proof.
  intros Hc0 Hok.
  destruct (loop_spec (length items) items (le_n _) Hok a0 1 (le_n _)) as (t & HC & Hm).
  destruct (takeW_all 1 items) as [Et Ed].
  { intros i Hi. rewrite Forall_forall in Hok. destruct (Hok i Hi) as (H & _). exact H. }
  rewrite Et in HC. rewrite Ed in Hm. cbn [flat map concat app] in Hm.
  rewrite (climb_complete _ _ _ HC).
  intros fuel k Hf Hk. rewrite <- app_assoc. rewrite app_length in Hf.
  destruct fuel as [|f]; [lia|]. rewrite parse_expr_S.
  destruct f as [|f]; [lia|]. rewrite parse_binary_expr_S.
  rewrite Hc0; [|lia|apply cont_flat; [exact Hok|eapply stop_cont; eauto]]. cbn [bind].
  unfold LowestPrec. cbn [Nat.add]. apply Hm; [lia|exact Hk].
Qed.

(* the tree is the one the relation describes, and the relation determines it *)
Theorem flat_precedence_rel c0 a0 items :
  chunk c0 a0 -> Forall fitem_ok items ->
  exists t, Climb a0 (map fitem_item items) t /\ expr_chunk (c0 ++ flat items) t.
Proof.
  intros Hc Hok.
  destruct (loop_spec (length items) items (le_n _) Hok a0 1 (le_n _)) as (t & HC & _).
  destruct (takeW_all 1 items) as [Et _].
  { intros i Hi. rewrite Forall_forall in Hok. destruct (Hok i Hi) as (H & _). exact H. }
  rewrite Et in HC. exists t. split; [exact HC|].
  rewrite <- (climb_complete _ _ _ HC). apply flat_precedence_thm; assumption.
Qed.

Theorem Climb_deterministic x l t1 t2 : Climb x l t1 -> Climb x l t2 -> t1 = t2.
Proof. intros H1 H2. rewrite <- (climb_complete _ _ _ H1). apply climb_complete. exact H2. Qed.

(* ---------------------------------------------------------------- building blocks: operands *)

Lemma atom_chunk t a : atom_of t = Some a -> chunk [t] a.
Proof.
  intros H fuel k Hf Hk. cbn [length] in Hf.
  do 4 (destruct fuel as [|fuel]; [lia|]). cbn [app].
  assert (Hnb : not_bang t).
  { unfold not_bang, is_tp, atom_of in *. destruct (tp t); try discriminate; reflexivity. }
  rewrite parse_unary_nobang by exact Hnb. rewrite parse_primary_expr_S, parse_operand_S.
  unfold atom_of in H. destruct (tp t); try discriminate; inversion H; subst; cbn [bind];
    apply primary_loop_stop; exact Hk.
Qed.

Lemma not_chunk b c a :
  tp b = OPERATOR -> data b = "!"%string -> chunk c a -> chunk (b :: c) (ENot (pos b) a).
Proof.
  intros Hb Hd Hc fuel k Hf Hk. cbn [length] in Hf.
  destruct fuel as [|f]; [lia|]. cbn [app]. rewrite parse_unary_expr_S.
  unfold is_tp. rewrite Hb, Hd. cbn [toktype_eqb toktype_code Nat.eqb andb String.eqb Ascii.eqb Bool.eqb].
  rewrite Hc by (try lia; exact Hk). reflexivity.
Qed.

Theorem parens_chunk lp rp ts t :
  tp lp = LPAREN -> tp rp = RPAREN -> expr_chunk ts t -> chunk (lp :: ts ++ [rp]) t.
Proof.
  intros Hl Hr Hm fuel k Hf Hk. cbn [length] in Hf. rewrite app_length in Hf. cbn [length] in Hf.
  do 4 (destruct fuel as [|fuel]; [lia|]). cbn [app].
  assert (Hnb : not_bang lp) by (unfold not_bang, is_tp; rewrite Hl; reflexivity).
  rewrite parse_unary_nobang by exact Hnb. rewrite parse_primary_expr_S, parse_operand_S, Hl.
  rewrite <- app_assoc. cbn [app].
  rewrite Hm; [|lia|].
  2:{ unfold stop_ok, is_tp, precedence. rewrite Hr. repeat split; try reflexivity. cbv. lia. }
  cbn [bind expect]. rewrite Hr. cbn [toktype_eqb toktype_code Nat.eqb bind].
  apply primary_loop_stop; exact Hk.
Qed.

Lemma chunk_expr_chunk c a : chunk c a -> expr_chunk c a.
Proof.
  intros H. pose proof (flat_precedence_thm c a [] H (Forall_nil _)) as H'.
  cbn in H'. rewrite app_nil_r in H'. exact H'.
Qed.

(* at the fuel the correspondence runs the twin with *)
Theorem expr_chunk_top ts t k : expr_chunk ts t -> stop_ok 1 k -> parse_expr_top (ts ++ k) = POk t k.
Proof.
  intros H Hk. unfold parse_expr_top, fuel_of. apply H; [|exact Hk]. rewrite app_length. lia.
Qed.

Lemma rendered_chunk e : rt_ok e = true -> chunk (rtoks e) (erase e).
Proof. intros H fuel k Hf Hk. apply (rendered_chunk_aux e H); assumption. Qed.

(* ================================================================ positions are irrelevant *)

Lemma bind_strip {A B} (fa : A -> A) (fb : B -> B) (r : pres A) f f' :
  (forall a ts, strip_res fb (f a ts) = f' (fa a) (map strip ts)) ->
  strip_res fb (bind r f) = bind (strip_res fa r) f'.
Proof. intros H. destruct r; cbn [bind strip_res]; auto. Qed.

Lemma is_tp_strip t k : is_tp (strip t) k = is_tp t k.
Proof. reflexivity. Qed.
Lemma precedence_strip t : precedence (strip t) = precedence t.
Proof. reflexivity. Qed.

Lemma expect_strip k ts : expect k (map strip ts) = strip_res (fun u => u) (expect k ts).
Proof. destruct ts as [|t ts]; cbn; [reflexivity|]. destruct (toktype_eqb (tp t) k); reflexivity. Qed.

Definition commutes (fuel : nat) : Prop :=
  (forall ts, parse_expr fuel (map strip ts) = strip_res erase (parse_expr fuel ts)) /\
  (forall x p ts, parse_binary_expr fuel (option_map erase x) p (map strip ts)
                  = strip_res erase (parse_binary_expr fuel x p ts)) /\
  (forall x p ts, binary_loop fuel (erase x) p (map strip ts) = strip_res erase (binary_loop fuel x p ts)) /\
  (forall ts, parse_unary_expr fuel (map strip ts) = strip_res erase (parse_unary_expr fuel ts)) /\
  (forall x ts, parse_primary_expr fuel (option_map erase x) (map strip ts)
                = strip_res erase (parse_primary_expr fuel x ts)) /\
  (forall x ts, primary_loop fuel (erase x) (map strip ts) = strip_res erase (primary_loop fuel x ts)) /\
  (forall fn ts, parse_func_call fuel (erase fn) (map strip ts) = strip_res erase (parse_func_call fuel fn ts)) /\
  (forall ts, func_args fuel (map strip ts) = strip_res (map erase) (func_args fuel ts)) /\
  (forall p l ts, parse_field_access fuel 0 (erase l) (map strip ts)
                  = strip_res erase (parse_field_access fuel p l ts)) /\
  (forall c ts, list_items fuel c (map strip ts) = strip_res (map erase) (list_items fuel c ts)) /\
  (forall p ts, parse_list fuel 0 (map strip ts) = strip_res erase (parse_list fuel p ts)) /\
  (forall p q ts, parse_between fuel 0 q (map strip ts) = strip_res erase (parse_between fuel p q ts)) /\
  (forall ts, parse_operand fuel (map strip ts) = strip_res erase (parse_operand fuel ts)).

Lemma commutes_all : forall fuel, commutes fuel.
Proof.
  induction fuel as [|f IH].
  { unfold commutes. repeat split; intros; reflexivity. }
  destruct IH as (Hexpr & Hbin & Hloop & Hun & Hprim & Hploop & Hcall & Hargs & Hacc & Hitems & Hlist & Hbtw & Hopd).
  unfold commutes. repeat split.
  - (* parse_expr *) intros ts. rewrite !parse_expr_S. apply (Hbin None).
  - (* parse_binary_expr *) intros x p ts. rewrite !parse_binary_expr_S.
    destruct x as [x|]; cbn [option_map]; [apply Hloop|].
    rewrite Hun. symmetry. apply bind_strip. intros a ts'. symmetry. apply Hloop.
  - (* binary_loop *) intros x p ts. rewrite !binary_loop_S.
    destruct ts as [|o ts']; [reflexivity|]. cbn [map]. cbv zeta.
    rewrite precedence_strip. change (data (strip o)) with (data o). change (pos (strip o)) with 0.
    destruct (Nat.ltb (precedence o) p); [reflexivity|].
    match goal with |- bind ?ry' _ = strip_res _ (bind ?ry _) =>
      assert (E : ry' = strip_res erase ry) end.
    { destruct (data o =? "in")%string.
      - destruct ts' as [|t ts'']; [reflexivity|]. cbn [map]. rewrite is_tp_strip.
        destruct (is_tp t LPAREN); [apply (Hlist (pos o) (t :: ts''))|apply (Hbin None _ (t :: ts''))].
      - destruct (data o =? "between")%string; [apply Hbtw|apply (Hbin None)]. }
    rewrite E. symmetry. apply bind_strip.
    intros y ts''. destruct (build_op (data o)); [|reflexivity]. symmetry. apply (Hloop (EBin (pos o) o0 x y)).
  - (* parse_unary_expr *) intros ts. rewrite !parse_unary_expr_S.
    destruct ts as [|t ts']; [reflexivity|]. cbn [map]. rewrite is_tp_strip.
    change (data (strip t)) with (data t). change (pos (strip t)) with 0.
    destruct (is_tp t OPERATOR && (data t =? "!")%string).
    + rewrite Hun. symmetry. apply bind_strip. reflexivity.
    + apply (Hprim None (t :: ts')).
  - (* parse_primary_expr *) intros x ts. rewrite !parse_primary_expr_S.
    destruct x as [x|]; cbn [option_map]; [apply Hploop|].
    rewrite Hopd. symmetry. apply bind_strip. intros a ts'. symmetry. apply Hploop.
  - (* primary_loop *) intros x ts. rewrite !primary_loop_S.
    destruct ts as [|t ts']; [reflexivity|]. cbn [map]. rewrite !is_tp_strip.
    change (pos (strip t)) with 0.
    destruct (is_tp t LPAREN).
    + change (strip t :: map strip ts') with (map strip (t :: ts')). rewrite (Hcall x (t :: ts')). symmetry. apply bind_strip. intros a ts''. symmetry. apply Hploop.
    + destruct (is_tp t LBRACK); [|reflexivity].
      change (strip t :: map strip ts') with (map strip (t :: ts')). rewrite (Hacc (pos t) x (t :: ts')). symmetry. apply bind_strip. intros a ts''. symmetry. apply Hploop.
  - (* parse_func_call *) intros fn ts. rewrite !parse_func_call_S.
    rewrite expect_strip. symmetry. apply bind_strip. intros _ ts1.
    rewrite Hargs. apply bind_strip. intros args ts2.
    rewrite expect_strip. apply bind_strip. intros _ ts3.
    cbn [strip_res erase]. rewrite epos_erase. reflexivity.
  - (* func_args *) intros ts. rewrite !func_args_S.
    destruct ts as [|t ts']; [reflexivity|]. cbn [map]. rewrite is_tp_strip.
    destruct (is_tp t RPAREN); [reflexivity|].
    change (strip t :: map strip ts') with (map strip (t :: ts')). rewrite (Hexpr (t :: ts')). symmetry. apply bind_strip. intros arg ts1.
    destruct ts1 as [|t1 ts2]; [reflexivity|]. cbn [map]. rewrite !is_tp_strip.
    change (data (strip t1)) with (data t1). change (pos (strip t1)) with 0.
    destruct (is_tp t1 RPAREN); [reflexivity|].
    destruct (is_tp t1 SEP && (data t1 =? ",")%string); [|reflexivity].
    rewrite Hargs. apply bind_strip. reflexivity.
  - (* parse_field_access *) intros p l ts. rewrite !parse_field_access_S.
    rewrite expect_strip. symmetry. apply bind_strip. intros _ ts1.
    rewrite Hitems. apply bind_strip. intros names ts2.
    rewrite expect_strip. apply bind_strip. intros _ ts3.
    destruct names as [|n1 [|n2 ns]]; reflexivity.
  - (* list_items *) intros c ts. rewrite !list_items_S.
    destruct ts as [|t ts']; [reflexivity|]. cbn [map]. rewrite is_tp_strip.
    destruct (is_tp t c); [reflexivity|].
    change (strip t :: map strip ts') with (map strip (t :: ts')). rewrite (Hexpr (t :: ts')). symmetry. apply bind_strip. intros arg ts1.
    destruct ts1 as [|t1 ts2]; [reflexivity|]. cbn [map]. rewrite !is_tp_strip.
    destruct (is_tp t1 c); [reflexivity|].
    rewrite Hitems. apply bind_strip. reflexivity.
  - (* parse_list *) intros p ts. rewrite !parse_list_S.
    rewrite expect_strip. symmetry. apply bind_strip. intros _ ts1.
    rewrite Hitems. apply bind_strip. intros l ts2.
    rewrite expect_strip. apply bind_strip. reflexivity.
  - (* parse_between *) intros p q ts. rewrite !parse_between_S.
    rewrite (Hbin None). symmetry. apply bind_strip. intros lo ts1.
    rewrite expect_strip. apply bind_strip. intros _ ts2.
    rewrite (Hbin None). apply bind_strip. reflexivity.
  - (* parse_operand *) intros ts. rewrite !parse_operand_S.
    destruct ts as [|t ts']; [reflexivity|]. cbn [map].
    change (tp (strip t)) with (tp t). change (data (strip t)) with (data t). change (pos (strip t)) with 0.
    destruct (tp t); try reflexivity.
    rewrite Hexpr. symmetry. apply bind_strip. intros x ts1.
    rewrite expect_strip. apply bind_strip. reflexivity.
Qed.

Lemma fuel_of_strip ts : fuel_of (map strip ts) = fuel_of ts.
Proof. unfold fuel_of. rewrite map_length. reflexivity. Qed.

(* two token lists that differ only in positions parse to trees that differ only in positions
   (and fail alike) *)
Theorem parse_positions_irrelevant_thm ts ts' :
  map strip ts = map strip ts' ->
  strip_res erase (parse_expr_top ts) = strip_res erase (parse_expr_top ts').
Proof.
  intros H. unfold parse_expr_top.
  destruct (commutes_all (fuel_of ts)) as (H1 & _). rewrite <- H1.
  destruct (commutes_all (fuel_of ts')) as (H2 & _). rewrite <- H2.
  rewrite <- (fuel_of_strip ts), <- (fuel_of_strip ts'), H. reflexivity.
Qed.

(* the round trip for the tokens of the rendering at ANY positions (as the real lexer yields) *)
Theorem print_parse_positions_thm e ts :
  rt_ok e = true -> map strip ts = rtoks e ->
  exists e', parse_expr_top ts = POk e' [] /\ erase e' = erase e.
Proof.
  intros Hok Hts. pose proof (print_parse_thm e Hok) as H.
  unfold parse_expr_top in *. rewrite <- Hts in H. rewrite fuel_of_strip in H.
  destruct (commutes_all (fuel_of ts)) as (H1 & _). rewrite H1 in H.
  destruct (parse_expr (fuel_of ts) ts) as [e' r| | |]; try discriminate.
  cbn [strip_res] in H. inversion H as [[He Hr]]. apply map_eq_nil in Hr. subst r.
  exists e'. split; reflexivity.
Qed.

(* ================================================================ what the parser can build *)

Definition invl (r : pres (list expr)) : Prop :=
  match r with POk l _ => forallb pimg l = true | PPanic => False | _ => True end.
Definition inv_list (r : pres expr) : Prop :=
  match r with POk (EList _ l) _ => forallb pimg l = true | POk _ _ => False | PPanic => False | _ => True end.
Definition inv_pair (r : pres expr) : Prop :=
  match r with
  | POk (EList _ [lo; hi]) _ => pimg lo = true /\ pimg hi = true
  | POk _ _ => False | PPanic => False | _ => True
  end.

Lemma inv_bind {A} (P : pres A -> Prop) (Q : pres expr -> Prop) (r : pres A) f :
  (match r with PPanic => False | _ => True end) ->
  (forall a ts, r = POk a ts -> Q (f a ts)) ->
  (Q (PErr None) /\ forall p, Q (PErr p)) -> Q PFuel ->
  Q (bind r f).
Proof. intros H1 H2 [H3 H3'] H4. destruct r; cbn [bind]; auto. contradiction. Qed.

Lemma build_op_cases d o : build_op d = Some o ->
  (o = OIn -> d = "in"%string) /\ (o = OBetween -> d = "between"%string) /\ (o = ONot -> d = "!"%string).
Proof.
  unfold build_op.
  repeat match goal with
  | |- context [(d =? ?s)%string] =>
      destruct (String.eqb_spec d s) as [->|?];
        [intros H; inversion H; subst; repeat split; intros; try discriminate; reflexivity|]
  end.
  discriminate.
Qed.

Lemma prec_bang t : data t = "!"%string -> precedence t = 0.
Proof. intros H. unfold precedence. rewrite H. destruct (tp t); reflexivity. Qed.

Definition image (fuel : nat) : Prop :=
  (forall ts, inv (parse_expr fuel ts)) /\
  (forall x p ts, 1 <= p -> match x with Some x' => pimg x' = true | None => True end ->
                  inv (parse_binary_expr fuel x p ts)) /\
  (forall x p ts, 1 <= p -> pimg x = true -> inv (binary_loop fuel x p ts)) /\
  (forall ts, inv (parse_unary_expr fuel ts)) /\
  (forall x ts, match x with Some x' => pimg x' = true | None => ts <> [] end ->
                inv (parse_primary_expr fuel x ts)) /\
  (forall x ts, pimg x = true -> inv (primary_loop fuel x ts)) /\
  (forall fn ts, pimg fn = true -> inv (parse_func_call fuel fn ts)) /\
  (forall ts, invl (func_args fuel ts)) /\
  (forall p l ts, pimg l = true -> inv (parse_field_access fuel p l ts)) /\
  (forall c ts, invl (list_items fuel c ts)) /\
  (forall p ts, inv_list (parse_list fuel p ts)) /\
  (forall p q ts, 1 <= q -> inv_pair (parse_between fuel p q ts)) /\
  (forall ts, ts <> [] -> inv (parse_operand fuel ts)).

Lemma expect_ok k ts ts' u : expect k ts = POk u ts' -> exists t, ts = t :: ts'.
Proof.
  destruct ts as [|t ts0]; cbn; [discriminate|].
  destruct (toktype_eqb (tp t) k); [|discriminate]. intros H; inversion H; subst. eauto.
Qed.

Lemma expect_nopanic k ts : expect k ts <> PPanic.
Proof. destruct ts as [|t ts0]; cbn; [discriminate|]. destruct (toktype_eqb (tp t) k); discriminate. Qed.

Lemma image_all : forall fuel, image fuel.
Proof.
  induction fuel as [|f IH].
  { unfold image. repeat split; intros; exact I. }
  destruct IH as (Hexpr & Hbin & Hloop & Hun & Hprim & Hploop & Hcall & Hargs & Hacc & Hitems & Hlist & Hbtw & Hopd).
  unfold image. repeat split.
  - (* parse_expr *) intros ts. rewrite parse_expr_S. apply Hbin; [unfold LowestPrec; lia|exact I].
  - (* parse_binary_expr *) intros x p ts Hp Hx. rewrite parse_binary_expr_S.
    destruct x as [x|]; [apply Hloop; assumption|].
    pose proof (Hun ts) as Hu. destruct (parse_unary_expr f ts) as [a ts'| | |]; cbn [bind inv] in *; auto.
  - (* binary_loop *) intros x p ts Hp Hx. rewrite binary_loop_S.
    destruct ts as [|o ts']; [exact Hx|]. cbv zeta.
    destruct (Nat.ltb_spec (precedence o) p) as [Hlt|Hge]; [exact Hx|].
    destruct (data o =? "in")%string eqn:Ein.
    + (* in *)
      rewrite (build_op_in _ Ein).
      destruct ts' as [|t ts'']; [exact I|].
      destruct (is_tp t LPAREN).
      * pose proof (Hlist (pos o) (t :: ts'')) as Hl.
        destruct (parse_list f (pos o) (t :: ts'')) as [y r| | |]; cbn [bind inv inv_list] in *; auto.
        destruct y; try contradiction. apply Hloop; [exact Hp|]. cbn [pimg]. rewrite Hx, Hl. reflexivity.
      * pose proof (Hbin None (precedence o + 1) (t :: ts'') ltac:(lia) I) as Hy.
        destruct (parse_binary_expr f None (precedence o + 1) (t :: ts'')) as [y r| | |]; cbn [bind inv] in *; auto.
        apply Hloop; [exact Hp|]. cbn [pimg]. rewrite Hx. destruct y; try exact Hy; discriminate.
    + destruct (data o =? "between")%string eqn:Ebt.
      * rewrite (build_op_between _ Ebt).
        pose proof (Hbtw (pos o) (precedence o + 1) ts' ltac:(lia)) as Hb.
        destruct (parse_between f (pos o) (precedence o + 1) ts') as [y r| | |]; cbn [bind inv inv_pair] in *; auto.
        destruct y; try contradiction. destruct l as [|lo [|hi [|? ?]]]; try contradiction.
        destruct Hb as [Hlo Hhi]. apply Hloop; [exact Hp|]. cbn [pimg]. rewrite Hx, Hlo, Hhi. reflexivity.
      * pose proof (Hbin None (precedence o + 1) ts' ltac:(lia) I) as Hy.
        destruct (parse_binary_expr f None (precedence o + 1) ts') as [y r| | |]; cbn [bind inv] in *; auto.
        destruct (build_op (data o)) as [oo|] eqn:Eop; [|exact I].
        destruct (build_op_cases _ _ Eop) as (Hi & Hb & Hn).
        apply Hloop; [exact Hp|]. cbn [pimg]. rewrite Hx.
        destruct oo; try exact Hy.
        -- (* ONot *) rewrite (prec_bang o (Hn eq_refl)) in Hge. lia.
        -- (* OIn *) rewrite (Hi eq_refl) in Ein. discriminate.
        -- (* OBetween *) rewrite (Hb eq_refl) in Ebt. discriminate.
  - (* parse_unary_expr *) intros ts. rewrite parse_unary_expr_S.
    destruct ts as [|t ts']; [exact I|].
    destruct (is_tp t OPERATOR && (data t =? "!")%string).
    + pose proof (Hun ts') as Hu.
      destruct (parse_unary_expr f ts') as [a r| | |]; cbn [bind inv pimg] in *; auto.
    + apply (Hprim None). discriminate.
  - (* parse_primary_expr *) intros x ts Hx. rewrite parse_primary_expr_S.
    destruct x as [x|]; [apply Hploop; exact Hx|].
    pose proof (Hopd ts Hx) as Ho.
    destruct (parse_operand f ts) as [a r| | |]; cbn [bind inv] in *; auto.
  - (* primary_loop *) intros x ts Hx. rewrite primary_loop_S.
    destruct ts as [|t ts']; [exact Hx|].
    destruct (is_tp t LPAREN).
    + pose proof (Hcall x (t :: ts') Hx) as Hc.
      destruct (parse_func_call f x (t :: ts')) as [a r| | |]; cbn [bind inv] in *; auto.
    + destruct (is_tp t LBRACK); [|exact Hx].
      pose proof (Hacc (pos t) x (t :: ts') Hx) as Hc.
      destruct (parse_field_access f (pos t) x (t :: ts')) as [a r| | |]; cbn [bind inv] in *; auto.
  - (* parse_func_call *) intros fn ts Hfn. rewrite parse_func_call_S.
    destruct (expect LPAREN ts) as [u ts1| | |] eqn:E1; cbn [bind inv]; auto; [|exact (expect_nopanic _ _ E1)].
    pose proof (Hargs ts1) as Ha.
    destruct (func_args f ts1) as [args ts2| | |]; cbn [bind inv invl] in *; auto.
    destruct (expect RPAREN ts2) as [u2 ts3| | |] eqn:E2; cbn [bind inv]; auto; [|exact (expect_nopanic _ _ E2)].
    cbn [pimg]. rewrite Hfn, Ha. reflexivity.
  - (* func_args *) intros ts. rewrite func_args_S.
    destruct ts as [|t ts']; [reflexivity|].
    destruct (is_tp t RPAREN); [reflexivity|].
    pose proof (Hexpr (t :: ts')) as He.
    destruct (parse_expr f (t :: ts')) as [arg ts1| | |]; cbn [bind inv invl] in *; auto.
    destruct ts1 as [|t1 ts2]; [cbn; rewrite He; reflexivity|].
    destruct (is_tp t1 RPAREN); [cbn; rewrite He; reflexivity|].
    destruct (is_tp t1 SEP && (data t1 =? ",")%string); [|exact I].
    pose proof (Hargs ts2) as Ha.
    destruct (func_args f ts2) as [l r| | |]; cbn [bind invl forallb] in *; auto.
    rewrite He, Ha. reflexivity.
  - (* parse_field_access *) intros p l ts Hl. rewrite parse_field_access_S.
    destruct (expect LBRACK ts) as [u ts1| | |] eqn:E1; cbn [bind inv]; auto; [|exact (expect_nopanic _ _ E1)].
    pose proof (Hitems RBRACK ts1) as Ha.
    destruct (list_items f RBRACK ts1) as [names ts2| | |]; cbn [bind inv invl] in *; auto.
    destruct (expect RBRACK ts2) as [u2 ts3| | |] eqn:E2; cbn [bind inv]; auto; [|exact (expect_nopanic _ _ E2)].
    destruct names as [|n1 [|n2 ns]]; cbn [inv]; auto.
    cbn [pimg forallb] in *. rewrite Hl. rewrite andb_true_r in Ha. rewrite Ha. reflexivity.
  - (* list_items *) intros c ts. rewrite list_items_S.
    destruct ts as [|t ts']; [reflexivity|].
    destruct (is_tp t c); [reflexivity|].
    pose proof (Hexpr (t :: ts')) as He.
    destruct (parse_expr f (t :: ts')) as [arg ts1| | |]; cbn [bind inv invl] in *; auto.
    destruct ts1 as [|t1 ts2]; [cbn; rewrite He; reflexivity|].
    destruct (is_tp t1 c); [cbn; rewrite He; reflexivity|].
    pose proof (Hitems c ts2) as Ha.
    destruct (list_items f c ts2) as [l r| | |]; cbn [bind invl forallb] in *; auto.
    rewrite He, Ha. reflexivity.
  - (* parse_list *) intros p ts. rewrite parse_list_S.
    destruct (expect LPAREN ts) as [u ts1| | |] eqn:E1; cbn [bind inv_list]; auto; [|exact (expect_nopanic _ _ E1)].
    pose proof (Hitems RPAREN ts1) as Ha.
    destruct (list_items f RPAREN ts1) as [l ts2| | |]; cbn [bind inv_list invl] in *; auto.
    destruct (expect RPAREN ts2) as [u2 ts3| | |] eqn:E2; cbn [bind inv_list]; auto; exact (expect_nopanic _ _ E2).
  - (* parse_between *) intros p q ts Hq. rewrite parse_between_S.
    pose proof (Hbin None q ts Hq I) as H1.
    destruct (parse_binary_expr f None q ts) as [lo ts1| | |]; cbn [bind inv inv_pair] in *; auto.
    destruct (expect OPERATOR ts1) as [u ts2| | |] eqn:E1; cbn [bind inv_pair]; auto; [|exact (expect_nopanic _ _ E1)].
    pose proof (Hbin None q ts2 Hq I) as H2.
    destruct (parse_binary_expr f None q ts2) as [hi ts3| | |]; cbn [bind inv inv_pair] in *; auto.
  - (* parse_operand *) intros ts Hne. rewrite parse_operand_S.
    destruct ts as [|t ts']; [congruence|].
    destruct (tp t); cbn [inv pimg]; auto.
    pose proof (Hexpr ts') as He.
    destruct (parse_expr f ts') as [x ts1| | |]; cbn [bind inv] in *; auto.
    destruct (expect RPAREN ts1) as [u ts2| | |] eqn:E1; cbn [bind inv]; auto. exact (expect_nopanic _ _ E1).
Qed.

Lemma forallb_ext_in {A} (f g : A -> bool) l :
  (forall x, In x l -> f x = g x) -> forallb f l = forallb g l.
Proof.
  induction l as [|a l IH]; intros H; cbn [forallb]; [reflexivity|].
  rewrite (H a (or_introl eq_refl)), IH; [reflexivity|]. intros x Hx. apply H. right. exact Hx.
Qed.

Lemma rt_ok_of_image : forall n e, esize e <= n -> pimg e = true -> rt_ok e = chk_shape e.
Proof.
  induction n as [|n IH]; intros e Hs Hp.
  { destruct e; cbn [esize] in Hs; lia. }
  assert (IHl : forall l, list_sum (map esize l) <= n -> forallb pimg l = true ->
                forallb rt_ok l = forallb chk_shape l).
  { intros l Hl Hpl. apply forallb_ext_in. intros x Hx. apply IH.
    - apply esize_in in Hx. lia.
    - rewrite forallb_forall in Hpl. apply Hpl. exact Hx. }
  destruct e; cbn [esize] in Hs; cbn [pimg] in Hp; try reflexivity; try discriminate.
  - (* EBin *)
    apply andb_prop in Hp as [Hl Hr].
    assert (El : rt_ok e1 = chk_shape e1) by (apply IH; [lia|exact Hl]).
    destruct o; try discriminate;
      try (assert (Er : rt_ok e2 = chk_shape e2) by (apply IH; [lia|exact Hr]);
           cbn [rt_ok chk_shape]; rewrite El;
           destruct e2; try discriminate; rewrite Er; reflexivity).
    + (* in *)
      destruct e2; try (assert (Er : rt_ok _ = chk_shape _) by (apply IH; [|exact Hr]; lia);
                        cbn [rt_ok chk_shape] in *; rewrite El; try rewrite Er; reflexivity).
      cbn [rt_ok chk_shape esize] in *. rewrite El, (IHl l); [reflexivity|lia|exact Hr].
    + (* between *)
      destruct e2; try discriminate. destruct l as [|lo [|hi [|? ?]]]; try discriminate.
      apply andb_prop in Hr as [Hlo Hhi]. cbn [esize map list_sum fold_right] in Hs.
      cbn [rt_ok chk_shape forallb]. rewrite El, (IH lo), (IH hi); try assumption; try lia.
      rewrite andb_true_r. reflexivity.
  - (* ENot *) cbn [rt_ok chk_shape]. apply IH; [lia|exact Hp].
  - (* ECall *) apply andb_prop in Hp as [Hn Ha]. cbn [rt_ok chk_shape].
    rewrite (IH e), (IHl args); try assumption; try lia. reflexivity.
  - (* EAccess *) apply andb_prop in Hp as [Hl Hf]. cbn [rt_ok chk_shape].
    rewrite (IH e1), (IH e2); try assumption; try lia. reflexivity.
Qed.

(* every tree the parser returns, on ANY token list, is in the image; never a nil dereference *)
Theorem parse_image_thm ts : inv (parse_expr_top ts).
Proof. unfold parse_expr_top. destruct (image_all (fuel_of ts)) as (H & _). apply H. Qed.

(* the round trip, for whatever the parser built, under the two facts the checker contributes *)
Theorem print_parse_of_parsed_thm ts e r :
  parse_expr_top ts = POk e r -> chk_shape e = true ->
  parse_expr_top (rtoks e) = POk (erase e) [].
Proof.
  intros Hp Hc. pose proof (parse_image_thm ts) as Hi. rewrite Hp in Hi. cbn [inv] in Hi.
  apply print_parse_thm. rewrite (rt_ok_of_image (esize e) e (le_n _) Hi). exact Hc.
Qed.

