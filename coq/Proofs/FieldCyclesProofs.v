(* Proofs/FieldCyclesProofs.v -- what SelectStmt.checkFieldCycles establishes: when the twin
   [check_cycles] (Model/ParseCheck.v) lets a field list through, the references between the
   fields can be ranked -- the premise [fields_ranked] of the SELECT theorems of C14
   (Proofs/SelectProofs.v).

   The test is a depth-first search with the three marks unvisited / visiting / done.  The
   invariant: there is a ranking of the fields marked done under which every field a done field
   refers to is done and has a smaller rank, and ranks stay below the number of done fields.
   A field is marked done when the walk over its definition has returned without an error: every
   field name met on the way was done already, or was visited (and finished) on the spot -- a
   name whose field is still "visiting" is the error.  The field that finishes gets the number
   of fields done so far as its rank. *)
From Coq Require Import List String Arith Bool Lia.
Import ListNotations.
From KV Require Import Base.Bytes Model.Ast Model.Value Model.Eval Model.StmtParser Model.ParseCheck.
From KV Require Import Model.Checker Proofs.CheckerProofs Proofs.SelectProofs Proofs.ParseCheckProofs.
Local Open Scope list_scope.
Set Warnings "-unused-intro-pattern".

(* ---------------------------------------------------------------- marks *)
Definition done (k : nat) (st : list nat) : Prop := 2 <= nth k st 2.
Definition cnt (st : list nat) : nat := List.length (filter (Nat.leb 2) st).

Lemma set_nth_length {A} i (x : A) l : List.length (set_nth i x l) = List.length l.
Proof. revert i. induction l as [|y l IH]; intros [|i]; cbn [set_nth List.length]; auto. Qed.

Lemma nth_set_nth_eq {A} i (x d : A) l : i < List.length l -> nth i (set_nth i x l) d = x.
Proof.
  revert i. induction l as [|y l IH]; intros [|i] H; cbn [List.length] in H; try lia; cbn [set_nth nth]; [reflexivity|].
  apply IH. lia.
Qed.

Lemma nth_set_nth_neq {A} i k (x d : A) l : k <> i -> nth k (set_nth i x l) d = nth k l d.
Proof.
  revert i k. induction l as [|y l IH]; intros [|i] [|k] H; cbn [set_nth nth]; try reflexivity; try lia.
  apply IH. lia.
Qed.

Lemma nth_zero_lt i st : nth i st 2 = 0 -> i < List.length st.
Proof. intros H. destruct (Nat.lt_ge_cases i (List.length st)) as [Hl|Hl]; [exact Hl|]. rewrite nth_overflow in H by exact Hl. discriminate. Qed.

Lemma nth_one_lt i st : nth i st 2 = 1 -> i < List.length st.
Proof. intros H. destruct (Nat.lt_ge_cases i (List.length st)) as [Hl|Hl]; [exact Hl|]. rewrite nth_overflow in H by exact Hl. discriminate. Qed.

Lemma cnt_le st : cnt st <= List.length st.
Proof. unfold cnt. induction st as [|y st IH]; cbn [filter List.length]; [lia|]. destruct (Nat.leb 2 y); cbn [List.length]; lia. Qed.

(* marking a field that is not done with a mark that is not done changes no count *)
Lemma cnt_set_low i v st : v < 2 -> nth i st 2 < 2 -> cnt (set_nth i v st) = cnt st.
Proof.
  intros Hv. unfold cnt. revert i. induction st as [|y st IH]; intros [|i] Hn; cbn [set_nth filter nth] in *; try reflexivity.
  - destruct (Nat.leb_spec 2 v); [lia|]. destruct (Nat.leb_spec 2 y); [lia|]. reflexivity.
  - specialize (IH i Hn). destruct (Nat.leb 2 y); cbn [List.length]; lia.
Qed.

Lemma cnt_set_done i st : i < List.length st -> nth i st 2 < 2 -> cnt (set_nth i 2 st) = S (cnt st).
Proof.
  unfold cnt. revert i. induction st as [|y st IH]; intros [|i] Hl Hn; cbn [List.length] in Hl; try lia;
    cbn [set_nth filter nth] in *.
  - destruct (Nat.leb_spec 2 y); [lia|]. reflexivity.
  - specialize (IH i ltac:(lia) Hn). destruct (Nat.leb 2 y); cbn [List.length]; lia.
Qed.

(* ---------------------------------------------------------------- the invariant *)
Section Cycles.
Variable names : list string.
Variable fields : list expr.
Hypothesis Hraw : Forall (fun e => no_refs e = true) fields.

Notation fidx := (field_idx names fields).

Definition not_bare (e : expr) : Prop := match e with EName _ _ => False | _ => True end.

(* field i refers to field j *)
Definition edge (i j : nat) : Prop :=
  exists fe s, nth_error fields i = Some fe /\ not_bare fe /\ In s (names_of fe) /\ fidx s = Some j.

Definition inv (st : list nat) : Prop :=
  List.length st = List.length fields /\
  exists r : nat -> nat,
    forall i, i < List.length st -> done i st ->
              r i < cnt st /\ forall j, edge i j -> done j st /\ r j < r i.

Lemma fidx_from_lt : forall ns i s j, field_idx_from fields i ns s = Some j -> j < List.length fields.
Proof.
  induction ns as [|n ns IH]; intros i s j H; cbn [field_idx_from] in H; [discriminate|].
  destruct (String.eqb n s && Nat.ltb i (List.length fields)) eqn:E.
  - inversion H; subst. apply andb_true_iff in E. apply Nat.ltb_lt. exact (proj2 E).
  - exact (IH _ _ _ H).
Qed.

Lemma edge_lt i j : edge i j -> j < List.length fields.
Proof. intros (fe & s & _ & _ & _ & Hj). exact (fidx_from_lt _ _ _ _ Hj). Qed.

(* what a walk, or a visit of an unvisited field, does to the marks *)
Definition step (st st' : list nat) : Prop :=
  List.length st' = List.length st /\
  (forall k, nth k st 2 <> 0 -> nth k st' 2 = nth k st 2) /\
  (forall k, nth k st' 2 = 1 -> nth k st 2 = 1) /\
  (inv st -> inv st').

Lemma step_refl st : step st st.
Proof. split; [reflexivity|]. split; [intros; reflexivity|]. split; [intros k H; exact H|intros H; exact H]. Qed.

Lemma step_trans a b c : step a b -> step b c -> step a c.
Proof.
  intros (L1 & N1 & O1 & I1) (L2 & N2 & O2 & I2).
  split; [congruence|]. split; [|split].
  - intros k Hk. rewrite N2, N1; auto. rewrite N1; auto.
  - intros k Hk. apply O1. apply O2. exact Hk.
  - intros H. apply I2. apply I1. exact H.
Qed.

Lemma step_done a b k : step a b -> done k a -> done k b.
Proof. intros (_ & N & _ & _) H. unfold done in *. rewrite N; [exact H|lia]. Qed.

Section WalkInv.
Variable rec : list nat -> nat -> list nat * cyc_out.
Hypothesis Hrec : forall st j st', nth j st 2 = 0 -> rec st j = (st', CNone) -> step st st' /\ done j st'.

Notation wk := (walk names fields rec).

Definition walked (e : expr) (st' : list nat) : Prop :=
  forall s j, In s (names_of e) -> fidx s = Some j -> done j st'.

Definition walk_ok (e : expr) : Prop :=
  no_refs e = true -> forall st st', wk st e = (st', CNone) -> step st st' /\ walked e st'.

Lemma walk_list_ok l : Forall walk_ok l -> forallb no_refs l = true ->
  forall st st', walk_list names fields rec st l = (st', CNone) ->
  step st st' /\ forall s j, In s (flat_map names_of l) -> fidx s = Some j -> done j st'.
Proof.
  induction 1 as [|a l Ha _ IH]; intros Hn st st' E; cbn [walk_list] in E.
  - inversion E; subst. split; [apply step_refl|]. intros s j [].
  - cbn [forallb] in Hn. apply andb_true_iff in Hn. destruct Hn as [Hna Hnl].
    destruct (wk st a) as [st1 [| |]] eqn:Ea; try discriminate.
    destruct (Ha Hna _ _ Ea) as [S1 W1]. destruct (IH Hnl _ _ E) as [S2 W2].
    split; [exact (step_trans _ _ _ S1 S2)|].
    intros s j Hin Hj. cbn [flat_map] in Hin. apply in_app_or in Hin. destruct Hin as [Hin|Hin].
    + exact (step_done _ _ _ S2 (W1 _ _ Hin Hj)).
    + exact (W2 _ _ Hin Hj).
Qed.

Lemma walk_seq_ok e1 e2 : walk_ok e1 -> walk_ok e2 -> no_refs e1 = true -> no_refs e2 = true ->
  forall st st',
  match wk st e1 with (st1, CNone) => wk st1 e2 | x => x end = (st', CNone) ->
  step st st' /\ forall s j, In s (names_of e1 ++ names_of e2) -> fidx s = Some j -> done j st'.
Proof.
  intros H1 H2 N1 N2 st st' E. destruct (wk st e1) as [st1 [| |]] eqn:E1; try discriminate.
  destruct (H1 N1 _ _ E1) as [S1 W1]. destruct (H2 N2 _ _ E) as [S2 W2].
  split; [exact (step_trans _ _ _ S1 S2)|].
  intros s j Hin Hj. apply in_app_or in Hin. destruct Hin as [Hin|Hin].
  - exact (step_done _ _ _ S2 (W1 _ _ Hin Hj)).
  - exact (W2 _ _ Hin Hj).
Qed.

Lemma walk_inv : forall e, walk_ok e.
Proof.
  induction e using expr_induction; intros Hn st st' E; cbn [walk] in E; cbn [no_refs] in Hn;
    try (inversion E; subst; split; [apply step_refl|intros s0 j []]; fail).
  - (* EBin *)
    apply andb_true_iff in Hn. destruct Hn as [N1 N2].
    exact (walk_seq_ok _ _ IHe1 IHe2 N1 N2 _ _ E).
  - (* ENot *) exact (IHe Hn _ _ E).
  - (* ECall *)
    apply andb_true_iff in Hn. destruct Hn as [_ Na].
    change (walk_list names fields rec st args = (st', CNone)) in E.
    exact (walk_list_ok _ H Na _ _ E).
  - (* EName *)
    destruct (fidx s) as [j|] eqn:Ej.
    + destruct (nth j st 2) as [|[|k]] eqn:En.
      * destruct (Hrec _ _ _ En E) as [S1 D1]. split; [exact S1|].
        intros s0 j0 [<-|[]] Hj0. rewrite Ej in Hj0. inversion Hj0; subst. exact D1.
      * discriminate.
      * inversion E; subst. split; [apply step_refl|].
        intros s0 j0 [<-|[]] Hj0. rewrite Ej in Hj0. inversion Hj0; subst. unfold done. rewrite En. lia.
    + inversion E; subst. split; [apply step_refl|].
      intros s0 j0 [<-|[]] Hj0. rewrite Ej in Hj0. discriminate.
  - (* ERef *) discriminate.
  - (* EList *)
    change (walk_list names fields rec st l = (st', CNone)) in E.
    exact (walk_list_ok _ H Hn _ _ E).
  - (* EAccess *)
    apply andb_true_iff in Hn. destruct Hn as [N1 N2].
    destruct (walk_seq_ok _ _ IHe1 IHe2 N1 N2 _ _ E) as [S W]. split; [exact S|].
    intros s j Hin Hj. apply (W s j); [|exact Hj]. cbn [names_of] in Hin. apply in_or_app. left. exact Hin.
Qed.

End WalkInv.

(* ---------------------------------------------------------------- visit *)
Lemma inv_mark_visiting i st : nth i st 2 = 0 -> inv st -> inv (set_nth i 1 st).
Proof.
  intros Hi [HL [r Hr]]. split; [rewrite set_nth_length; exact HL|]. exists r.
  pose proof (nth_zero_lt _ _ Hi) as Hl.
  assert (Hd : forall k, done k (set_nth i 1 st) <-> done k st).
  { intros k. unfold done. destruct (Nat.eq_dec k i) as [->|Hk].
    - rewrite nth_set_nth_eq by exact Hl. rewrite Hi. lia.
    - rewrite nth_set_nth_neq by exact Hk. tauto. }
  rewrite cnt_set_low by (rewrite ?Hi; lia). rewrite set_nth_length.
  intros k Hkl Hk. apply Hd in Hk. destruct (Hr _ Hkl Hk) as [H1 H2]. split; [exact H1|].
  intros j Hj. destruct (H2 _ Hj) as [H3 H4]. split; [apply Hd; exact H3|exact H4].
Qed.

Lemma inv_mark_done i st :
  nth i st 2 = 1 -> (forall j, edge i j -> done j st) -> inv st -> inv (set_nth i 2 st).
Proof.
  intros Hi He [HL [r Hr]]. pose proof (nth_one_lt _ _ Hi) as Hl.
  split; [rewrite set_nth_length; exact HL|].
  exists (fun k => if Nat.eqb k i then cnt st else r k).
  rewrite cnt_set_done by (rewrite ?Hi; lia). rewrite set_nth_length.
  assert (Hnd : ~ done i st) by (unfold done; rewrite Hi; lia).
  assert (Hd : forall k, k <> i -> (done k (set_nth i 2 st) <-> done k st)).
  { intros k Hk. unfold done. rewrite nth_set_nth_neq by exact Hk. tauto. }
  intros k Hkl Hk. destruct (Nat.eqb_spec k i) as [->|Hki].
  - split; [lia|]. intros j Hj. pose proof (He _ Hj) as Hdj.
    assert (Hji : j <> i) by (intros ->; exact (Hnd Hdj)).
    assert (Hjl : j < List.length st) by (rewrite HL; exact (edge_lt _ _ Hj)).
    split; [apply Hd; assumption|]. destruct (Nat.eqb_spec j i); [contradiction|]. exact (proj1 (Hr _ Hjl Hdj)).
  - apply Hd in Hk; [|exact Hki]. destruct (Hr _ Hkl Hk) as [H1 H2]. split; [lia|].
    intros j Hj. destruct (H2 _ Hj) as [H3 H4].
    assert (Hji : j <> i) by (intros ->; exact (Hnd H3)).
    split; [apply Hd; assumption|]. destruct (Nat.eqb_spec j i); [contradiction|]. exact H4.
Qed.

Lemma visit_inv : forall fuel st i st',
  nth i st 2 = 0 -> visit names fields fuel st i = (st', CNone) -> step st st' /\ done i st'.
Proof.
  induction fuel as [|f IH]; intros st i st' Hi E; [cbn [visit] in E; discriminate|].
  rewrite visit_unfold in E. cbv zeta in E.
  pose proof (nth_zero_lt _ _ Hi) as Hl.
  set (st1 := set_nth i 1 st) in *.
  assert (Hl1 : List.length st1 = List.length st) by apply set_nth_length.
  assert (H1i : nth i st1 2 = 1) by (unfold st1; apply nth_set_nth_eq; exact Hl).
  (* the walk over the definition, or nothing *)
  assert (HW : exists st2, st' = set_nth i 2 st2 /\ step st1 st2 /\ forall j, edge i j -> done j st2).
  { destruct (nth_error fields i) as [fe|] eqn:En.
    - assert (Hfe : no_refs fe = true).
      { rewrite Forall_forall in Hraw. apply Hraw. exact (nth_error_In _ _ En). }
      assert (Hgen : forall r, r = walk names fields (visit names fields f) st1 fe ->
                (set_nth i 2 (fst r), snd r) = (st', CNone) -> not_bare fe ->
                exists st2, st' = set_nth i 2 st2 /\ step st1 st2 /\ forall j, edge i j -> done j st2).
      { intros [st2 o] Hr E' Hnb. cbn [fst snd] in E'. inversion E'; subst o st'. symmetry in Hr.
        destruct (walk_inv (visit names fields f) (fun st0 j st0' H0 E0 => IH st0 j st0' H0 E0) fe Hfe _ _ Hr) as [S W].
        exists st2. split; [reflexivity|]. split; [exact S|].
        intros j (fe' & s & En' & _ & Hin & Hj). rewrite En in En'. inversion En'; subst fe'. exact (W _ _ Hin Hj). }
      destruct fe; try (apply (Hgen _ eq_refl E); exact I).
      (* a field that is only a name: not walked, no edge *)
      cbn [fst snd] in E. inversion E; subst st'. exists st1. split; [reflexivity|]. split; [apply step_refl|].
      intros j (fe' & s' & En' & Hnb & _). rewrite En in En'. inversion En'; subst fe'. contradiction.
    - cbn [fst snd] in E. inversion E; subst st'. exists st1. split; [reflexivity|]. split; [apply step_refl|].
      intros j (fe' & s' & En' & _). rewrite En in En'. discriminate. }
  destruct HW as (st2 & -> & (L2 & N2 & O2 & I2) & Hedges).
  assert (H2i : nth i st2 2 = 1) by (rewrite N2; [exact H1i|rewrite H1i; discriminate]).
  assert (Hl2 : i < List.length st2) by lia.
  split.
  - split; [|split; [|split]].
    + rewrite set_nth_length. lia.
    + intros k Hk. assert (Hki : k <> i) by (intros ->; contradiction).
      rewrite nth_set_nth_neq by exact Hki. rewrite N2; unfold st1; rewrite nth_set_nth_neq by exact Hki; [reflexivity|exact Hk].
    + intros k Hk. destruct (Nat.eq_dec k i) as [->|Hki].
      * rewrite nth_set_nth_eq in Hk by exact Hl2. discriminate.
      * rewrite nth_set_nth_neq in Hk by exact Hki. pose proof (O2 _ Hk) as H1k.
        unfold st1 in H1k. rewrite nth_set_nth_neq in H1k by exact Hki. exact H1k.
    + intros Hinv. apply inv_mark_done; [exact H2i|exact Hedges|]. apply I2. apply inv_mark_visiting; assumption.
  - unfold done. rewrite nth_set_nth_eq by exact Hl2. lia.
Qed.

(* ---------------------------------------------------------------- the loop *)
Lemma cyc_loop_inv : forall k i st,
  cyc_loop names fields k i st = CNone ->
  inv st -> (forall j, nth j st 2 <> 1) -> (forall j, j < i -> done j st) ->
  exists st', inv st' /\ List.length st' = List.length st /\ forall j, j < i + k -> done j st'.
Proof.
  induction k as [|k IH]; intros i st E Hinv Hno1 Hprev; cbn [cyc_loop] in E.
  - exists st. split; [exact Hinv|]. split; [reflexivity|]. intros j Hj. apply Hprev. lia.
  - destruct (nth i st 2) as [|m] eqn:En.
    + destruct (visit names fields (S (List.length fields)) st i) as [st1 [| |]] eqn:Ev; try discriminate.
      destruct (visit_inv _ _ _ _ En Ev) as [Hst D]. pose proof Hst as (L1 & N1 & O1 & I1).
      destruct (IH (S i) st1 E (I1 Hinv)) as (st' & Hi' & Hl' & Hd').
      * intros j Hj. exact (Hno1 j (O1 _ Hj)).
      * intros j Hj. destruct (Nat.eq_dec j i) as [->|Hji]; [exact D|]. apply (step_done _ _ _ Hst). apply Hprev. lia.
      * exists st'. split; [exact Hi'|]. split; [lia|]. intros j Hj. apply Hd'. lia.
    + destruct (IH (S i) st E Hinv Hno1) as (st' & Hi' & Hl' & Hd').
      * intros j Hj. destruct (Nat.eq_dec j i) as [->|Hji]; [|apply Hprev; lia].
        unfold done. rewrite En. specialize (Hno1 i). rewrite En in Hno1. destruct m; [contradiction|lia].
      * exists st'. split; [exact Hi'|]. split; [exact Hl'|]. intros j Hj. apply Hd'. lia.
Qed.

Lemma nth_repeat0 n j : j < n -> nth j (repeat 0 n) 2 = 0.
Proof.
  revert j. induction n as [|n IH]; intros j H; [lia|]. destruct j as [|j]; cbn [repeat nth]; [reflexivity|].
  apply IH. lia.
Qed.

(* a ranking of the field indices *)
Theorem check_cycles_index_ranking :
  check_cycles names fields = CNone ->
  exists r : nat -> nat,
    forall i, i < List.length fields -> r i < List.length fields /\ forall j, edge i j -> r j < r i.
Proof.
  unfold check_cycles. intros E.
  destruct (cyc_loop_inv _ 0 _ E) as (st' & [HL [r Hr]] & Hl & Hd).
  - split; [apply repeat_length|]. exists (fun _ => 0). intros i Hi Hdone. rewrite repeat_length in Hi.
    unfold done in Hdone. rewrite (nth_repeat0 _ _ Hi) in Hdone. lia.
  - intros j. destruct (Nat.lt_ge_cases j (List.length fields)) as [Hlt|Hge].
    + rewrite (nth_repeat0 _ _ Hlt). discriminate.
    + rewrite nth_overflow by (rewrite repeat_length; exact Hge). discriminate.
  - intros j Hj. lia.
  - exists r. intros i Hi. destruct (Hr i ltac:(lia) (Hd i ltac:(lia))) as [H1 H2].
    split.
    + pose proof (cnt_le st'). lia.
    + intros j Hj. exact (proj2 (H2 _ Hj)).
Qed.

End Cycles.

(* ---------------------------------------------------------------- from indices to names *)
Lemma get_named_field_idx (fields : list expr) : forall ns fs i s d,
  i + List.length fs <= List.length fields ->
  get_named (combine ns fs) s = Some d ->
  exists j, field_idx_from fields i ns s = Some j /\ i <= j /\ nth_error fs (j - i) = Some d.
Proof.
  induction ns as [|n ns IH]; intros fs i s d Hl H; [discriminate H|].
  destruct fs as [|f fs]; [discriminate H|]. cbn [combine get_named] in H. cbn [field_idx_from List.length] in *.
  destruct (String.eqb n s).
  - inversion H; subst. assert (Hlt : Nat.ltb i (List.length fields) = true) by (apply Nat.ltb_lt; lia).
    rewrite Hlt. cbn [andb]. exists i. split; [reflexivity|]. split; [lia|]. rewrite Nat.sub_diag. reflexivity.
  - cbn [andb]. destruct (IH fs (S i) s d ltac:(lia) H) as (j & Hj & Hle & Hn).
    exists j. split; [exact Hj|]. split; [lia|]. replace (j - i) with (S (j - S i)) by lia. exact Hn.
Qed.

(* What checkFieldCycles establishes, in the form the SELECT theorems of C14 take as premise.
   (A field that is only a name is skipped by the test, as it is never resolved: the second
   premise of those theorems, fields_no_bare, is needed here for the same reason.) *)
Theorem check_cycles_ranked : forall (names : list string) (fields : list expr),
  check_cycles names fields = CNone ->
  Forall (fun e => no_refs e = true) fields ->
  List.length names = List.length fields ->
  fields_no_bare (combine names fields) ->
  fields_ranked (combine names fields).
Proof.
  intros names fields Hc Hraw Hlen Hnb.
  destruct (check_cycles_index_ranking names fields Hraw Hc) as [r Hr].
  exists (fun s => match field_idx names fields s with Some i => r i | None => 0 end).
  assert (Hidx : forall s d, get_named (combine names fields) s = Some d ->
            exists j, field_idx names fields s = Some j /\ nth_error fields j = Some d).
  { intros s d H. destruct (get_named_field_idx fields names fields 0 s d ltac:(lia) H) as (j & Hj & _ & Hn).
    rewrite Nat.sub_0_r in Hn. exists j. split; assumption. }
  split.
  - intros s d Hs. destruct (Hidx _ _ Hs) as (j & Hj & Hn). rewrite Hj.
    assert (Hjl : j < List.length fields) by (apply nth_error_Some; rewrite Hn; discriminate).
    rewrite combine_length, Hlen, Nat.min_id. exact (proj1 (Hr _ Hjl)).
  - intros s d s' Hs Hin Hne. destruct (Hidx _ _ Hs) as (i & Hi & Hn). rewrite Hi.
    destruct (get_named (combine names fields) s') as [d'|] eqn:Hs'; [|contradiction].
    destruct (Hidx _ _ Hs') as (j & Hj & _). rewrite Hj.
    assert (Hil : i < List.length fields) by (apply nth_error_Some; rewrite Hn; discriminate).
    apply (proj2 (Hr _ Hil)). exists d, s'. split; [exact Hn|]. split; [|split; assumption].
    destruct (get_named_in _ _ _ Hs) as [n Hnin]. pose proof (no_bare_in _ _ _ Hnb Hnin) as Hb.
    destruct d; try exact I. cbn [names_of] in Hin. destruct Hin as [<-|[]]. rewrite Hb in Hs'. discriminate.
Qed.

(* ---------------------------------------------------------------- the SELECT theorems with
   the cycle test itself as the premise *)
Lemma raw_fields_of_stmt : forall (names : list string) (fields : list expr) w order,
  List.length names = List.length fields ->
  stmt_no_refs (SSelect (combine names fields) w order) = true ->
  Forall (fun e => no_refs e = true) fields.
Proof.
  intros names fields w order Hlen H. cbn [stmt_no_refs] in H. apply andb_true_iff in H. destruct H as [H _].
  rewrite forallb_forall in H. apply Forall_forall. intros e Hin.
  rewrite <- (map_snd_combine names fields Hlen) in Hin. apply in_map_iff in Hin.
  destruct Hin as [nf [<- Hnf]]. exact (H _ Hnf).
Qed.

Theorem select_sound_cycles : forall (fo : fops) names fields w order s2,
  check_cycles names fields = CNone -> List.length names = List.length fields ->
  build_check fo true (SSelect (combine names fields) w order) = Ok s2 ->
  fields_no_bare (combine names fields) ->
  stmt_no_refs (SSelect (combine names fields) w order) = true ->
  stmt_params_static s2 = true ->
  Spec.Typing.select_typed fo (combine names fields) w order = true.
Proof.
  intros fo names fields w order s2 Hc Hlen Hb Hnb Hnr Hps.
  apply (select_sound fo _ _ _ _ Hb); try assumption.
  exact (check_cycles_ranked names fields Hc (raw_fields_of_stmt _ _ _ _ Hlen Hnr) Hlen Hnb).
Qed.

Theorem select_complete_cycles : forall (fo : fops) names fields w order,
  check_cycles names fields = CNone -> List.length names = List.length fields ->
  Spec.Typing.select_typed fo (combine names fields) w order = true ->
  fields_no_bare (combine names fields) ->
  stmt_no_refs (SSelect (combine names fields) w order) = true ->
  exists s2, build_check fo true (SSelect (combine names fields) w order) = Ok s2.
Proof.
  intros fo names fields w order Hc Hlen Ht Hnb Hnr.
  apply (build_check_complete_typed fo (SSelect (combine names fields) w order) Ht).
  split; [|exact Hnb].
  exact (check_cycles_ranked names fields Hc (raw_fields_of_stmt _ _ _ _ Hlen Hnr) Hlen Hnb).
Qed.
