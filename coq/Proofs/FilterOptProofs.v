(* Proofs/FilterOptProofs.v -- every access path covers the filter (C02): remaining
   combinators, atoms, and the induction over the predicate tree. *)
From Coq Require Import List String Bool Arith Lia.
Import ListNotations.
From KV Require Import Base.Bytes Base.Ord Model.Ast Model.FilterOpt Spec.KeySem Proofs.RangeProofs.
Open Scope string_scope.

(* ------------------------------------------------------------------ key sets *)

Lemma mem_cons k x ks : mem k (x :: ks) = String.eqb k x || mem k ks.
Proof. reflexivity. Qed.

Lemma dedup_mem k ks : mem k (dedup ks) = mem k ks.
Proof.
  induction ks as [|x ks IH]; [reflexivity|]. cbn [dedup].
  destruct (mem x ks) eqn:E; rewrite ?mem_cons, IH; [|reflexivity].
  destruct (String.eqb k x) eqn:E2; [|reflexivity].
  apply String.eqb_eq in E2. subst. cbn. now rewrite E.
Qed.

Lemma mem_filter f k ks : mem k (filter f ks) = mem k ks && f k.
Proof.
  induction ks as [|x ks IH]; [reflexivity|]. cbn [filter].
  destruct (f x) eqn:E; rewrite ?mem_cons, IH.
  - destruct (String.eqb k x) eqn:E2; [|reflexivity].
    apply String.eqb_eq in E2. subst. now rewrite E.
  - destruct (String.eqb k x) eqn:E2; [|reflexivity].
    apply String.eqb_eq in E2. subst. rewrite E. now rewrite andb_false_r.
Qed.

Lemma mem_app k a b : mem k (a ++ b) = mem k a || mem k b.
Proof. unfold mem. apply existsb_app. Qed.

Lemma mget_or_empty (l : list bytes) k :
  covers (match l with [] => REmpty | x :: l' => RMget (x :: l') end) k = mem k l.
Proof. destruct l; reflexivity. Qed.

Lemma forallb_mem f k ks : forallb f ks = true -> mem k ks = true -> f k = true.
Proof.
  intros H1 H2. apply mem_true in H2. rewrite forallb_forall in H1. auto.
Qed.

Lemma inter_mget_sound a b k :
  mem k a = true -> mem k b = true -> covers (inter_mget a b) k = true.
Proof.
  intros Ha Hb. unfold inter_mget. rewrite mget_or_empty, mem_filter, dedup_mem, Ha, Hb. reflexivity.
Qed.

Lemma union_mget_sound a b k :
  mem k a = true \/ mem k b = true -> covers (union_mget a b) k = true.
Proof.
  intros H. unfold union_mget. rewrite mget_or_empty, dedup_mem, mem_app.
  destruct H as [H|H]; rewrite H; auto using orb_true_r.
Qed.

Lemma inter_mget_prefix_sound ks p k :
  mem k ks = true -> has_prefix p k = true -> covers (inter_mget_prefix ks p) k = true.
Proof.
  intros H1 H2. unfold inter_mget_prefix. rewrite mget_or_empty, mem_filter, H1, H2. reflexivity.
Qed.

Lemma union_mget_prefix_sound ks p k :
  mem k ks = true \/ has_prefix p k = true -> covers (union_mget_prefix ks p) k = true.
Proof.
  intros H. unfold union_mget_prefix. destruct (forallb (has_prefix p) ks) eqn:E; [|reflexivity].
  cbn [covers]. destruct H as [H|H]; [|assumption]. exact (forallb_mem _ _ _ E H).
Qed.

Lemma inter_mget_range_sound ks rs re k :
  mem k ks = true -> covers (RRange rs re) k = true -> covers (inter_mget_range ks rs re) k = true.
Proof.
  intros H1 H2. unfold inter_mget_range.
  rewrite mget_or_empty, mem_filter, H1, in_range_covers, H2. reflexivity.
Qed.

Lemma union_mget_range_sound ks rs re k :
  wf (RRange rs re) ->
  mem k ks = true \/ covers (RRange rs re) k = true -> covers (union_mget_range ks rs re) k = true.
Proof.
  intros W H. unfold union_mget_range.
  destruct (forallb (fun k0 => in_range rs re (Some k0) false) ks) eqn:E.
  - destruct H as [H|H]; [|assumption].
    pose proof (forallb_mem _ _ _ E H) as X. cbn beta in X. now rewrite in_range_covers in X.
  - destruct ks as [|mk [|? ?]]; try reflexivity.
    assert (H' : k = mk \/ covers (RRange rs re) k = true).
    { destruct H as [H|H]; [left|now right]. cbn in H. rewrite orb_false_r in H. now apply String.eqb_eq. }
    clear H E. destruct rs as [rs|], re as [re|]; cbn [wf] in W;
      repeat break_if; cbn [covers]; auto;
      destruct H' as [->|H']; fin.
Qed.

Lemma union_mget_range_wf ks rs re : wf (RRange rs re) -> wf (union_mget_range ks rs re).
Proof.
  intros W. unfold union_mget_range.
  destruct (forallb (fun k0 => in_range rs re (Some k0) false) ks); [assumption|].
  destruct ks as [|mk [|? ?]]; cbn [wf]; auto.
  destruct rs as [rs|], re as [re|]; cbn [wf] in *; repeat break_if; cbn [wf]; auto; fin.
Qed.

(* ------------------------------------------------------------------ prefixes *)

Lemma inter_prefix_sound lp rp k :
  has_prefix lp k = true -> has_prefix rp k = true -> covers (inter_prefix lp rp) k = true.
Proof.
  intros H1 H2. unfold inter_prefix. repeat break_if; cbn [covers]; auto.
  exfalso. destruct (has_prefix_comparable _ _ _ H1 H2) as [C|C].
  - rewrite C, andb_true_r in Heqb0. apply has_prefix_le in C. ord.
  - rewrite C, andb_true_r in Heqb1. apply has_prefix_le in C. ord.
Qed.

Lemma union_prefix_sound lp rp k :
  has_prefix lp k = true \/ has_prefix rp k = true -> covers (union_prefix lp rp) k = true.
Proof.
  intros H. unfold union_prefix. repeat break_if; cbn [covers]; auto.
  - apply String.eqb_eq in Heqb. subst. destruct H; assumption.
  - apply andb_true_iff in Heqb0. destruct Heqb0 as [_ P].
    destruct H as [H|H]; [assumption | exact (has_prefix_trans _ _ _ P H)].
  - apply andb_true_iff in Heqb1. destruct Heqb1 as [_ P].
    destruct H as [H|H]; [exact (has_prefix_trans _ _ _ P H) | assumption].
Qed.

(* saturate with the interval property of prefixes *)
Ltac pfx_step :=
  match goal with
  | H1 : has_prefix ?p ?k = true, H2 : has_prefix ?p ?r = false |- _ =>
      lazymatch goal with
      | _ : bleb r k = false |- _ => fail
      | _ => assert (bleb r k = false) by (apply (has_prefix_interval p k r H1 H2); ord)
      end
  end.

Ltac pfin :=
  cbn [covers finish_range mem existsb wf bytes_equal_opt] in *;
  repeat match goal with
         | H : context [if ?c then _ else _] |- _ => destruct c eqn:?
         | H : andb _ _ = false |- _ => apply andb_false_iff in H; destruct H
         | H : andb _ _ = true |- _ => apply andb_true_iff in H; destruct H
         | H : negb _ = true |- _ => apply negb_true_iff in H
         | H : negb _ = false |- _ => apply negb_false_iff in H
         | H : true = false |- _ => discriminate H
         | H : false = true |- _ => discriminate H
         | H : _ \/ _ |- _ => destruct H
         | H : _ /\ _ |- _ => destruct H
         | H : String.eqb _ _ = true |- _ => apply String.eqb_eq in H; try subst
         | |- andb _ _ = true => apply andb_true_iff; split
         | |- orb _ false = true => rewrite orb_false_r
         | |- String.eqb _ _ = true => apply String.eqb_eq
         | |- true = true => reflexivity
         | |- True => exact I
         end;
  try discriminate; try congruence;
  repeat pfx_step;
  try (ord; fail).

Lemma prefix_convex p s e k :
  has_prefix p s = true -> has_prefix p e = true -> bleb s k = true -> bleb k e = true ->
  has_prefix p k = true.
Proof.
  intros Hs He H1 H2. destruct (has_prefix p k) eqn:E; [reflexivity|exfalso].
  assert (bleb k e = false) by (apply (has_prefix_interval p e k He E); ord).
  ord.
Qed.

Lemma inter_prefix_range_sound p rs re k :
  has_prefix p k = true -> covers (RRange rs re) k = true ->
  covers (inter_prefix_range p rs re) k = true.
Proof.
  intros H1 H2. unfold inter_prefix_range. rewrite in_range_covers.
  destruct rs as [rs|], re as [re|]; repeat break_if; pfin.
Qed.

Lemma inter_prefix_range_wf p rs re : wf (RRange rs re) -> wf (inter_prefix_range p rs re).
Proof.
  intros W. unfold inter_prefix_range. rewrite in_range_covers.
  destruct rs as [rs|], re as [re|]; repeat break_if; pfin.
Qed.

Lemma union_prefix_range_sound p rs re k :
  wf (RRange rs re) ->
  has_prefix p k = true \/ covers (RRange rs re) k = true ->
  covers (union_prefix_range p rs re) k = true.
Proof.
  intros W H. unfold union_prefix_range. rewrite in_range_covers.
  destruct rs as [rs|], re as [re|]; repeat break_if; pfin.
  all: match goal with
       | Hs : has_prefix ?p ?s = true, He : has_prefix ?p ?e = true,
         H1 : bleb ?s ?k = true, H2 : bleb ?k ?e = true |- has_prefix ?p ?k = true =>
           exact (prefix_convex p s e k Hs He H1 H2)
       end.
Qed.

Lemma union_prefix_range_wf p rs re : wf (RRange rs re) -> wf (union_prefix_range p rs re).
Proof.
  intros W. unfold union_prefix_range. rewrite in_range_covers.
  destruct rs as [rs|], re as [re|]; repeat break_if; pfin.
Qed.

(* ------------------------------------------------------------------ AND / OR of two regions *)

Lemma wf_mget_or_empty (l : list bytes) :
  wf (match l with [] => REmpty | x :: l' => RMget (x :: l') end).
Proof. destruct l; exact I. Qed.

Lemma and_regions_wf l r : wf l -> wf r -> wf (and_regions l r).
Proof.
  intros Wl Wr. destruct l, r; cbn -[inter_range inter_prefix_range]; auto;
    try apply wf_mget_or_empty; try exact I.
  - unfold inter_prefix. repeat break_if; exact I.
  - now apply inter_prefix_range_wf.
  - now apply inter_prefix_range_wf.
  - now apply inter_range_wf.
Qed.

Lemma or_regions_wf l r : wf l -> wf r -> wf (or_regions l r).
Proof.
  intros Wl Wr. destruct l, r; cbn -[union_range union_prefix_range union_mget_range]; auto;
    try apply wf_mget_or_empty; try exact I.
  - unfold union_mget_prefix. break_if; exact I.
  - now apply union_mget_range_wf.
  - unfold union_mget_prefix. break_if; exact I.
  - unfold union_prefix. repeat break_if; exact I.
  - now apply union_prefix_range_wf.
  - now apply union_mget_range_wf.
  - now apply union_prefix_range_wf.
  - now apply union_range_wf.
Qed.

Lemma and_regions_sound l r k :
  wf l -> wf r -> covers l k = true -> covers r k = true -> covers (and_regions l r) k = true.
Proof.
  intros Wl Wr Hl Hr.
  destruct l, r; cbn -[inter_range inter_prefix_range inter_mget inter_mget_prefix
                       inter_mget_range inter_prefix covers]; auto; try discriminate.
  - now apply inter_mget_sound.
  - now apply inter_mget_prefix_sound.
  - now apply inter_mget_range_sound.
  - now apply inter_mget_prefix_sound.
  - now apply inter_prefix_sound.
  - now apply inter_prefix_range_sound.
  - now apply inter_mget_range_sound.
  - now apply inter_prefix_range_sound.
  - now apply inter_range_sound.
Qed.

Lemma or_regions_sound l r k :
  wf l -> wf r -> covers l k = true \/ covers r k = true -> covers (or_regions l r) k = true.
Proof.
  intros Wl Wr H.
  destruct l, r; cbn -[union_range union_prefix_range union_mget union_mget_prefix
                       union_mget_range union_prefix covers]; auto;
    try (destruct H as [H|H]; (discriminate || assumption)); try reflexivity.
  - now apply union_mget_sound.
  - now apply union_mget_prefix_sound.
  - now apply union_mget_range_sound.
  - apply union_mget_prefix_sound. tauto.
  - now apply union_prefix_sound.
  - now apply union_prefix_range_sound.
  - apply union_mget_range_sound; [assumption | tauto].
  - apply union_prefix_range_sound; [assumption | tauto].
  - now apply union_range_sound.
Qed.

(* ------------------------------------------------------------------ atoms *)

Ltac kw := repeat match goal with f : kvkw |- _ => destruct f end.
Ltac atom_cbn := cbn -[bleb bltb has_prefix String.eqb covers].

Lemma optimize_wf e : wf (optimize e).
Proof.
  induction e as [p o l IHl r IHr|p f|p s|p r IH|p n IHn args|p s|p nm d IHd|p d|p d|p b|p l|p l IHl fn IHfn];
    cbn [optimize]; try exact I.
  - destruct o; try exact I.
    + now apply and_regions_wf.
    + now apply or_regions_wf.
    + unfold opt_eq. destruct (extract l r) as [fx [key|]]; [destruct (is_key fx)|]; exact I.
    + unfold opt_prefix. destruct l; try exact I;
        destruct (extract _ r) as [fx [key|]]; try exact I; destruct (is_key fx); exact I.
    + unfold opt_gt, opt_lt_core, opt_gt_core. repeat break_if; try exact I;
        destruct (extract _ _) as [fx [key|]]; try exact I; repeat break_if; exact I.
    + unfold opt_gt, opt_lt_core, opt_gt_core. repeat break_if; try exact I;
        destruct (extract _ _) as [fx [key|]]; try exact I; repeat break_if; exact I.
    + unfold opt_lt, opt_lt_core, opt_gt_core. repeat break_if; try exact I;
        destruct (extract _ _) as [fx [key|]]; try exact I; repeat break_if; exact I.
    + unfold opt_lt, opt_lt_core, opt_gt_core. repeat break_if; try exact I;
        destruct (extract _ _) as [fx [key|]]; try exact I; repeat break_if; exact I.
    + unfold opt_in. destruct r; try exact I. destruct (str_items _); try exact I. break_if; exact I.
    + unfold opt_between. destruct r as [| | | | | | | | | |? items|]; try exact I.
      destruct items as [|[] [|[] [|? ?]]]; try exact I.
      break_if; [|exact I]. cbn [wf]. apply andb_true_iff in Heqb. destruct Heqb as [_ H]. ord.
    + now apply and_regions_wf.
    + now apply or_regions_wf.
  - destruct b; exact I.
Qed.

Section Sound.
Variable opq : expr -> option bool.
Variables k v : bytes.

Lemma opt_eq_sound e l r :
  cmp2 opq k v e l r String.eqb = Some true -> covers (opt_eq l r) k = true.
Proof.
  unfold opt_eq, cmp2. destruct l, r; atom_cbn; try reflexivity; kw; atom_cbn;
    try reflexivity; intros H; pfin.
Qed.

Lemma opt_prefix_sound e l r :
  cmp2 opq k v e l r (fun a b => has_prefix b a) = Some true -> covers (opt_prefix l r) k = true.
Proof.
  unfold opt_prefix, cmp2. destruct l, r; atom_cbn; try reflexivity; kw; atom_cbn;
    try reflexivity; intros H; pfin.
Qed.

Lemma opt_gt_sound e l r :
  cmp2 opq k v e l r (fun a b => bltb b a) = Some true -> covers (opt_gt false l r) k = true.
Proof.
  unfold opt_gt, opt_gt_core, opt_lt_core, cmp2. destruct l, r; atom_cbn; try reflexivity; kw; atom_cbn;
    try reflexivity; intros H; repeat break_if; pfin.
Qed.

Lemma opt_gte_sound e l r :
  cmp2 opq k v e l r (fun a b => bleb b a) = Some true -> covers (opt_gt true l r) k = true.
Proof.
  unfold opt_gt, opt_gt_core, opt_lt_core, cmp2. destruct l, r; atom_cbn; try reflexivity; kw; atom_cbn;
    try reflexivity; intros H; repeat break_if; pfin.
Qed.

Lemma opt_lt_sound e l r :
  cmp2 opq k v e l r (fun a b => bltb a b) = Some true -> covers (opt_lt false l r) k = true.
Proof.
  unfold opt_lt, opt_gt_core, opt_lt_core, cmp2. destruct l, r; atom_cbn; try reflexivity; kw; atom_cbn;
    try reflexivity; intros H; repeat break_if; pfin.
Qed.

Lemma opt_lte_sound e l r :
  cmp2 opq k v e l r (fun a b => bleb a b) = Some true -> covers (opt_lt true l r) k = true.
Proof.
  unfold opt_lt, opt_gt_core, opt_lt_core, cmp2. destruct l, r; atom_cbn; try reflexivity; kw; atom_cbn;
    try reflexivity; intros H; repeat break_if; pfin.
Qed.

(* a list of string literals evaluates to itself *)
Lemma str_items_operands items ks :
  str_items items = Some ks -> operands k v items = Some ks.
Proof.
  revert ks; induction items as [|x items IH]; intros ks H; cbn in *.
  - exact H.
  - destruct x; try discriminate. destruct (str_items items) as [ks'|]; [|discriminate].
    injection H as <-. cbn. now rewrite (IH ks' eq_refl).
Qed.

Lemma opt_in_sound e l r :
  match operand k v l, r with
  | Some a, EList _ items =>
      match operands k v items with
      | Some bs => Some (existsb (String.eqb a) bs)
      | None => opq e
      end
  | _, _ => opq e
  end = Some true -> covers (opt_in l r) k = true.
Proof.
  unfold opt_in. destruct r; try reflexivity.
  destruct (str_items l0) as [ks|] eqn:E; [|reflexivity].
  rewrite (str_items_operands _ _ E).
  destruct l; try reflexivity. kw; atom_cbn; [|reflexivity].
  break_if; [|reflexivity]. intros H. injection H as H. exact H.
Qed.

Lemma opt_between_sound e l r :
  match operand k v l, r with
  | Some a, EList _ [lo; hi] =>
      match operand k v lo, operand k v hi with
      | Some x, Some y => if bltb x y then Some (bleb x a && bleb a y) else None
      | _, _ => opq e
      end
  | _, _ => opq e
  end = Some true -> covers (opt_between l r) k = true.
Proof.
  unfold opt_between. destruct r as [| | | | | | | | | |? items|]; try reflexivity.
  destruct items as [|[] [|[] [|? ?]]]; try reflexivity.
  destruct l; try reflexivity. kw; atom_cbn; [|reflexivity].
  intros H. repeat break_if; pfin.
Qed.

Theorem optimize_sound_lemma e :
  psem opq k v e = Some true -> covers (optimize e) k = true.
Proof.
  induction e as [p o l IHl r IHr|p f|p s|p r IH|p n IHn args|p s|p nm d IHd|p d|p d|p b|p l|p l IHl fn IHfn];
    cbn [optimize psem]; try reflexivity.
  - destruct o; try reflexivity.
    + intros H. destruct (psem opq k v l) as [[|]|]; try discriminate.
      apply and_regions_sound; auto using optimize_wf.
    + intros H. apply or_regions_sound; auto using optimize_wf.
      destruct (psem opq k v l) as [[|]|]; try discriminate; auto.
    + apply opt_eq_sound.
    + apply opt_prefix_sound.
    + apply opt_gt_sound.
    + apply opt_gte_sound.
    + apply opt_lt_sound.
    + apply opt_lte_sound.
    + apply opt_in_sound.
    + apply opt_between_sound.
    + intros H. destruct (psem opq k v l) as [[|]|]; try discriminate.
      apply and_regions_sound; auto using optimize_wf.
    + intros H. apply or_regions_sound; auto using optimize_wf.
      destruct (psem opq k v l) as [[|]|]; try discriminate; auto.
  - destruct b; [reflexivity | discriminate].
Qed.

End Sound.

(* ------------------------------------------------------------------ narrowed scan = full scan *)

Lemma filter_filter_absorb {A} (f g : A -> bool) (l : list A) :
  (forall x, In x l -> f x = true -> g x = true) ->
  filter f (filter g l) = filter f l.
Proof.
  induction l as [|x l IH]; intros H; [reflexivity|]. cbn [filter].
  destruct (g x) eqn:G; cbn [filter].
  - destruct (f x); [f_equal|]; apply IH; intros y Hy; apply H; now right.
  - destruct (f x) eqn:F.
    + rewrite (H x (or_introl eq_refl) F) in G. discriminate.
    + apply IH; intros y Hy; apply H; now right.
Qed.

(* the pairs a statement selects: those on which its WHERE clause evaluates to true *)
Definition accepts (opq : bytes -> bytes -> expr -> option bool) (e : expr) (kv : bytes * bytes) : bool :=
  match psem (opq (fst kv) (snd kv)) (fst kv) (snd kv) e with
  | Some true => true
  | _ => false
  end.

Theorem narrowed_eq_full_lemma opq e (st : list (bytes * bytes)) :
  filter (accepts opq e) (filter (fun kv => covers (optimize e) (fst kv)) st)
  = filter (accepts opq e) st.
Proof.
  apply filter_filter_absorb. intros [k v] _ H. unfold accepts in H. cbn [fst snd] in *.
  destruct (psem (opq k v) k v e) as [[|]|] eqn:E; try discriminate.
  exact (optimize_sound_lemma _ _ _ _ E).
Qed.
