(* Proofs/FoldProofs.v -- constant folding and expression rewriting preserve values (C04). *)
From Coq Require Import List String Ascii ZArith Bool Arith Lia.
Import ListNotations.
From KV Require Import Base.Bytes Base.Num Model.Ast Model.Value Model.Eval Model.Fold Proofs.FuncProofs.
Local Open Scope Z_scope.

(* ------------------------------------------------------------------ int64 ring laws *)

Lemma wrap64_mod z : wrap64 z mod 2 ^ 64 = z mod 2 ^ 64.
Proof.
  unfold wrap64.
  rewrite Zminus_mod, Zmod_mod, <- Zminus_mod.
  f_equal. lia.
Qed.

Lemma wrap64_congr a b : a mod 2 ^ 64 = b mod 2 ^ 64 -> wrap64 a = wrap64 b.
Proof.
  intros H. unfold wrap64. f_equal.
  rewrite (Zplus_mod a), (Zplus_mod b), H. reflexivity.
Qed.

Lemma wrap64_in64 z : in64 (wrap64 z) = true.
Proof.
  unfold in64, wrap64, min64, max64.
  pose proof (Z.mod_pos_bound (z + 2 ^ 63) (2 ^ 64) ltac:(lia)).
  apply andb_true_intro; split; apply Z.leb_le; lia.
Qed.

Lemma add64_assoc a b c : add64 (add64 a b) c = add64 a (add64 b c).
Proof.
  unfold add64. apply wrap64_congr.
  rewrite (Zplus_mod (wrap64 (a + b)) c), wrap64_mod, <- Zplus_mod.
  rewrite (Zplus_mod a (wrap64 (b + c))), wrap64_mod, <- Zplus_mod.
  f_equal. lia.
Qed.

Lemma mul64_assoc a b c : mul64 (mul64 a b) c = mul64 a (mul64 b c).
Proof.
  unfold mul64. apply wrap64_congr.
  rewrite (Zmult_mod (wrap64 (a * b)) c), wrap64_mod, <- Zmult_mod.
  rewrite (Zmult_mod a (wrap64 (b * c))), wrap64_mod, <- Zmult_mod.
  f_equal. lia.
Qed.

Local Close Scope Z_scope.
Local Open Scope string_scope.

(* ------------------------------------------------------------------ induction on expression trees
   (hypotheses for the elements of argument / item lists) *)
Section ExprInd.
Variable P : expr -> Prop.
Hypothesis HBin : forall p o l r, P l -> P r -> P (EBin p o l r).
Hypothesis HField : forall p f, P (EField p f).
Hypothesis HStr : forall p s, P (EStr p s).
Hypothesis HNot : forall p r, P (ENot p r).
Hypothesis HCall : forall p n args, Forall P args -> P (ECall p n args).
Hypothesis HName : forall p s, P (EName p s).
Hypothesis HRef : forall p nm d, P (ERef p nm d).
Hypothesis HNum : forall p d, P (ENum p d).
Hypothesis HFloat : forall p d, P (EFloat p d).
Hypothesis HBool : forall p b, P (EBool p b).
Hypothesis HList : forall p l, P (EList p l).
Hypothesis HAccess : forall p l f, P (EAccess p l f).

Fixpoint fold_expr_ind (e : expr) : P e :=
  match e with
  | EBin p o l r => HBin p o l r (fold_expr_ind l) (fold_expr_ind r)
  | EField p f => HField p f
  | EStr p s => HStr p s
  | ENot p r => HNot p r
  | ECall p n args =>
      HCall p n args
        ((fix go (l : list expr) : Forall P l :=
            match l with
            | [] => Forall_nil P
            | x :: l' => Forall_cons x (fold_expr_ind x) (go l')
            end) args)
  | EName p s => HName p s
  | ERef p nm d => HRef p nm d
  | ENum p d => HNum p d
  | EFloat p d => HFloat p d
  | EBool p b => HBool p b
  | EList p l => HList p l
  | EAccess p l f => HAccess p l f
  end.
End ExprInd.

(* ------------------------------------------------------------------ values up to string / []byte *)
Section FoldProofs.
Variable fo : fops.
Variable re_match : bytes -> bytes -> res bool.
Variable fmt_v : F fo -> string.

Notation value := (value fo).
Notation ev := (eval fo re_match).

(* a folded text literal evaluates to []byte where the folded expression gave a string:
   the same text.  Nothing else changes. *)
Definition norm (x : value) : value := match x with VStr s => VBytes s | _ => x end.
Definition vsim (x x' : value) : Prop := norm x' = norm x.

Lemma vsim_refl x : vsim x x.
Proof. reflexivity. Qed.
Lemma vsim_trans x y z : vsim x y -> vsim y z -> vsim x z.
Proof. unfold vsim. congruence. Qed.
Lemma vsim_str s : vsim (VStr s) (VBytes s).
Proof. reflexivity. Qed.

(* the kind of a value as the property names it *)
Inductive kind := KText | KInt | KFloat | KBool | KList | KNil.
Definition kind_of (x : value) : kind :=
  match x with
  | VBytes _ | VStr _ => KText
  | VInt _ => KInt
  | VFlt _ => KFloat
  | VBool _ => KBool
  | VStrs _ | VInts _ | VFlts _ | VExprs _ => KList
  | VNil => KNil
  end.

Lemma canon_norm x : canon_of fo (norm x) = canon_of fo x.
Proof. destruct x; reflexivity. Qed.
Lemma kind_norm x : kind_of (norm x) = kind_of x.
Proof. destruct x; reflexivity. Qed.

Lemma vsim_canon x x' : vsim x x' -> canon_of fo x' = canon_of fo x.
Proof. intros H. rewrite <- (canon_norm x'), H. apply canon_norm. Qed.
Lemma vsim_kind x x' : vsim x x' -> kind_of x' = kind_of x.
Proof. intros H. rewrite <- (kind_norm x'), H. apply kind_norm. Qed.

Ltac sim_cases S :=
  match type of S with
  | vsim ?a ?b => unfold vsim in S; destruct a; destruct b; cbn [norm] in S; try discriminate S;
                  try (injection S as S); subst
  end.

Lemma sim_fn {A} (f : value -> A) : (forall x, f (norm x) = f x) ->
  forall x x', vsim x x' -> f x' = f x.
Proof. intros H x x' S. rewrite <- (H x'), S. apply H. Qed.

Lemma to_string_sim x x' : vsim x x' -> to_string fo x' = to_string fo x.
Proof. apply sim_fn. intros []; reflexivity. Qed.
Lemma conv_bytes_sim x x' : vsim x x' -> conv_bytes fo x' = conv_bytes fo x.
Proof. apply sim_fn. intros []; reflexivity. Qed.
Lemma conv_int_sim x x' : vsim x x' -> conv_int fo x' = conv_int fo x.
Proof. apply sim_fn. intros []; reflexivity. Qed.
Lemma conv_float_sim x x' : vsim x x' -> conv_float fo x' = conv_float fo x.
Proof. apply sim_fn. intros []; reflexivity. Qed.
Lemma to_int_sim x x' : vsim x x' -> to_int fo x' = to_int fo x.
Proof. apply sim_fn. intros []; reflexivity. Qed.
Lemma to_float_sim x x' : vsim x x' -> to_float fo x' = to_float fo x.
Proof. apply sim_fn. intros []; reflexivity. Qed.
Lemma list_length_sim x x' : vsim x x' -> list_length fo x' = list_length fo x.
Proof. apply sim_fn. intros []; reflexivity. Qed.
Lemma list_use_int_sim x x' : vsim x x' -> list_use_int fo x' = list_use_int fo x.
Proof. apply sim_fn. intros []; reflexivity. Qed.
Lemma to_float_list_sim x x' : vsim x x' -> to_float_list fo x' = to_float_list fo x.
Proof. apply sim_fn. intros []; reflexivity. Qed.
Lemma unpack_list_sim x x' : vsim x x' -> unpack_list fo x' = unpack_list fo x.
Proof. apply sim_fn. intros []; reflexivity. Qed.

Lemma math_op_sim x x' y y' o p : vsim x x' -> vsim y y' ->
  math_op fo x' y' o p = math_op fo x y o p.
Proof.
  intros Sx Sy. unfold math_op.
  rewrite (conv_int_sim _ _ Sx), (conv_int_sim _ _ Sy),
          (conv_float_sim _ _ Sx), (conv_float_sim _ _ Sy). reflexivity.
Qed.
Lemma number_compare_sim x x' y y' c : vsim x x' -> vsim y y' ->
  number_compare fo x' y' c = number_compare fo x y c.
Proof.
  intros Sx Sy. unfold number_compare.
  rewrite (conv_int_sim _ _ Sx), (conv_int_sim _ _ Sy),
          (conv_float_sim _ _ Sx), (conv_float_sim _ _ Sy). reflexivity.
Qed.
Lemma string_compare_sim x x' y y' c : vsim x x' -> vsim y y' ->
  string_compare fo x' y' c = string_compare fo x y c.
Proof.
  intros Sx Sy. unfold string_compare.
  rewrite (conv_bytes_sim _ _ Sx), (conv_bytes_sim _ _ Sy). reflexivity.
Qed.
Lemma equal_values_sim x x' y y' p : vsim x x' -> vsim y y' ->
  equal_values fo x' y' p = equal_values fo x y p.
Proof.
  intros Sx Sy. sim_cases Sx; cbn [equal_values];
    rewrite ?(conv_bytes_sim _ _ Sy), ?(conv_int_sim _ _ Sy); try reflexivity;
    sim_cases Sy; reflexivity.
Qed.

Lemma in_list_sim x x' number : vsim x x' -> forall items rs,
  in_list fo x' number items rs = in_list fo x number items rs.
Proof.
  intros S. induction items as [|it items IH]; intros rs; [reflexivity|].
  destruct rs as [|r rs]; [reflexivity|]. cbn [in_list].
  destruct (negb (ty_eqb (rtype it) (if number then TNumber else TStr))); [reflexivity|].
  destruct r as [lv| | |]; cbn [bind]; try reflexivity.
  destruct number.
  - rewrite (number_compare_sim _ _ _ _ CEq S (vsim_refl lv)).
    destruct (number_compare fo x lv CEq) as [[]| | |]; cbn [bind]; auto.
  - rewrite (string_compare_sim _ _ _ _ CEq S (vsim_refl lv)).
    destruct (string_compare fo x lv CEq) as [[]| | |]; cbn [bind]; auto.
Qed.

Lemma in_values_sim x x' number : vsim x x' -> forall vals,
  in_values fo x' number vals = in_values fo x number vals.
Proof.
  intros S. induction vals as [|lv vals IH]; [reflexivity|]. cbn [in_values].
  destruct number.
  - rewrite (number_compare_sim _ _ _ _ CEq S (vsim_refl lv)), IH. reflexivity.
  - rewrite (string_compare_sim _ _ _ _ CEq S (vsim_refl lv)), IH. reflexivity.
Qed.


Lemma vsim_bool b x' : vsim (VBool b) x' -> x' = VBool b.
Proof. unfold vsim. intros S. destruct x'; cbn in S; try discriminate S; congruence. Qed.

Lemma math_op_ok_pos x y o p q a : math_op fo x y o p = Ok a -> math_op fo x y o q = Ok a.
Proof.
  unfold math_op.
  destruct (conv_int fo x), (conv_int fo y), (conv_float fo x), (conv_float fo y);
    destruct o; try (intros H; exact H);
    try (destruct (Z.eqb _ 0); intros H; (exact H || discriminate H));
    try (destruct (feqb fo _ (f_zero fo)); intros H; (exact H || discriminate H)).
Qed.

Lemma ty_eqb_eq a b : ty_eqb a b = true -> a = b.
Proof. destruct a, b; cbn; congruence. Qed.
Lemma ty_eqb_refl a : ty_eqb a a = true.
Proof. destruct a; reflexivity. Qed.

(* ------------------------------------------------------------------ congruence of evaluation *)
Definition is_call (e : expr) : bool := match e with ECall _ _ _ => true | _ => false end.

(* what the parent's evaluation sees of the SHAPE of an operand: the right operand of IN /
   BETWEEN must stay a list, a list-valued call or a reference *)
Definition shape_ok (c c' : expr) : Prop :=
  match c with
  | EList _ _ | ERef _ _ _ => c' = c
  | ECall _ _ _ => rtype c = TList -> is_call c' = true
  | _ => True
  end.

Lemma shape_ok_refl c : shape_ok c c.
Proof. destruct c; cbn; auto. Qed.

Definition dyn_ok (k v : bytes) (c c' : expr) : Prop :=
  forall a, ev k v c = Ok a -> exists a', ev k v c' = Ok a' /\ vsim a a'.

Lemma dyn_ok_refl k v c : dyn_ok k v c c.
Proof. intros a H. exists a. split; [exact H | apply vsim_refl]. Qed.

Lemma dyn_ok_eq k v c c' : (forall a, ev k v c = Ok a -> ev k v c' = Ok a) -> dyn_ok k v c c'.
Proof. intros H a E. exists a. split; [auto | apply vsim_refl]. Qed.

Ltac ev_left k v l Dl :=
  let lv := fresh "lv" in let El := fresh "El" in
  destruct (ev k v l) as [lv| | |] eqn:El; cbn [bind]; try (intros H; discriminate H);
  let lv' := fresh "lv'" in let El' := fresh "El'" in let Sl := fresh "Sl" in
  destruct (Dl _ eq_refl) as (lv' & El' & Sl); rewrite El'; cbn [bind].

Lemma bin_congr k v p o l r l' r' x :
  rtype l' = rtype l -> dyn_ok k v l l' ->
  rtype r' = rtype r -> dyn_ok k v r r' -> shape_ok r r' ->
  ev k v (EBin p o l r) = Ok x -> ev k v (EBin p o l' r') = Ok x.
Proof.
  intros Rl Dl Rr Dr Sh H. unfold dyn_ok in Dl, Dr.
  destruct o; cbn [eval] in H |- *; rewrite ?Rl; revert H.
  - (* OAnd *)
    ev_left k v l Dl. destruct lv; try (intros H; discriminate H).
    rewrite (vsim_bool _ _ Sl). destruct b; [|auto].
    ev_left k v r Dr. destruct lv; try (intros H; discriminate H).
    rewrite (vsim_bool _ _ Sl0). auto.
  - (* OOr *)
    ev_left k v l Dl. destruct lv; try (intros H; discriminate H).
    rewrite (vsim_bool _ _ Sl). destruct b; [auto|].
    ev_left k v r Dr. destruct lv; try (intros H; discriminate H).
    rewrite (vsim_bool _ _ Sl0). auto.
  - (* ONot *) intros H; discriminate H.
  - (* OEq *)
    ev_left k v l Dl. ev_left k v r Dr. rewrite (equal_values_sim _ _ _ _ p Sl Sl0). auto.
  - (* ONotEq *)
    ev_left k v l Dl. ev_left k v r Dr. rewrite (equal_values_sim _ _ _ _ p Sl Sl0). auto.
  - (* OPrefixMatch *)
    ev_left k v l Dl. ev_left k v r Dr.
    rewrite (conv_bytes_sim _ _ Sl), (conv_bytes_sim _ _ Sl0). auto.
  - (* ORegExpMatch *)
    ev_left k v l Dl. ev_left k v r Dr.
    rewrite (conv_bytes_sim _ _ Sl), (conv_bytes_sim _ _ Sl0). auto.
  - (* OAdd *)
    destruct (rtype l); ev_left k v l Dl; ev_left k v r Dr;
      rewrite ?(to_string_sim _ _ Sl), ?(to_string_sim _ _ Sl0); auto;
      rewrite (math_op_sim _ _ _ _ OAdd (epos r') Sl Sl0); apply math_op_ok_pos.
  - (* OSub *)
    ev_left k v l Dl; ev_left k v r Dr.
    rewrite (math_op_sim _ _ _ _ OSub (epos r') Sl Sl0); apply math_op_ok_pos.
  - (* OMul *)
    ev_left k v l Dl; ev_left k v r Dr.
    rewrite (math_op_sim _ _ _ _ OMul (epos r') Sl Sl0); apply math_op_ok_pos.
  - (* ODiv *)
    ev_left k v l Dl; ev_left k v r Dr.
    rewrite (math_op_sim _ _ _ _ ODiv (epos r') Sl Sl0); apply math_op_ok_pos.
  - (* OGt *)
    destruct (rtype l); ev_left k v l Dl; ev_left k v r Dr;
      rewrite ?(string_compare_sim _ _ _ _ CGt Sl Sl0), ?(number_compare_sim _ _ _ _ CGt Sl Sl0); auto.
  - destruct (rtype l); ev_left k v l Dl; ev_left k v r Dr;
      rewrite ?(string_compare_sim _ _ _ _ CGte Sl Sl0), ?(number_compare_sim _ _ _ _ CGte Sl Sl0); auto.
  - destruct (rtype l); ev_left k v l Dl; ev_left k v r Dr;
      rewrite ?(string_compare_sim _ _ _ _ CLt Sl Sl0), ?(number_compare_sim _ _ _ _ CLt Sl Sl0); auto.
  - destruct (rtype l); ev_left k v l Dl; ev_left k v r Dr;
      rewrite ?(string_compare_sim _ _ _ _ CLte Sl Sl0), ?(number_compare_sim _ _ _ _ CLte Sl Sl0); auto.
  - (* OIn *)
    ev_left k v l Dl.
    destruct r; try (intros H; discriminate H); cbn [shape_ok] in Sh.
    + (* ECall *)
      destruct (ty_eqb (rtype (ECall pos r args)) TList) eqn:Et; cbn [negb];
        [|intros H; discriminate H].
      apply ty_eqb_eq in Et. specialize (Sh Et).
      destruct r'; try discriminate Sh.
      rewrite Rr, Et. cbn [ty_eqb negb].
      ev_left k v (ECall pos r args) Dr.
      rewrite (unpack_list_sim _ _ Sl0).
      destruct (unpack_list fo lv0); [|intros H; discriminate H].
      rewrite (in_values_sim _ _ _ Sl). auto.
    + (* ERef *)
      subst r'. destruct (negb (ty_eqb (rtype (ERef pos name r)) TList)); [auto|].
      destruct (ev k v (ERef pos name r)) as [fv| | |]; cbn [bind]; auto.
      destruct (unpack_list fo fv); [|intros H; discriminate H].
      rewrite (in_values_sim _ _ _ Sl). auto.
    + (* EList *)
      subst r'. rewrite (in_list_sim _ _ _ Sl). auto.
  - (* OBetween *)
    ev_left k v l Dl.
    destruct r; try (intros H; discriminate H); cbn [shape_ok] in Sh. subst r'.
    destruct l0 as [|lo [|hi [|]]]; try (intros H; discriminate H).
    destruct (negb (ty_eqb (rtype lo) _)); [auto|].
    destruct (negb (ty_eqb (rtype hi) _)); [auto|].
    destruct (ev k v lo) as [lov| | |]; cbn [bind]; auto.
    destruct (ev k v hi) as [hiv| | |]; cbn [bind]; auto.
    destruct (rtype l);
      rewrite ?(number_compare_sim _ _ _ _ CLte (vsim_refl lov) Sl),
              ?(number_compare_sim _ _ _ _ CLte Sl (vsim_refl hiv)),
              ?(string_compare_sim _ _ _ _ CLte (vsim_refl lov) Sl),
              ?(string_compare_sim _ _ _ _ CLte Sl (vsim_refl hiv)); auto.
  - (* OKWAnd *)
    ev_left k v l Dl. destruct lv; try (intros H; discriminate H).
    rewrite (vsim_bool _ _ Sl). destruct b; [|auto].
    ev_left k v r Dr. destruct lv; try (intros H; discriminate H).
    rewrite (vsim_bool _ _ Sl0). auto.
  - (* OKWOr *)
    ev_left k v l Dl. destruct lv; try (intros H; discriminate H).
    rewrite (vsim_bool _ _ Sl). destruct b; [auto|].
    ev_left k v r Dr. destruct lv; try (intros H; discriminate H).
    rewrite (vsim_bool _ _ Sl0). auto.
Qed.


(* ------------------------------------------------------------------ congruence of function calls *)
Definition res_sim (r r' : res value) : Prop :=
  forall a, r = Ok a -> exists a', r' = Ok a' /\ vsim a a'.

Lemma nth_res_sim rs rs' : Forall2 res_sim rs rs' -> forall i a,
  nth_res fo rs i = Ok a -> exists a', nth_res fo rs' i = Ok a' /\ vsim a a'.
Proof.
  unfold nth_res. induction 1 as [|r r' rs rs' Hr Hrs IH]; intros i a H.
  - destruct i; discriminate H.
  - destruct i as [|i]; cbn [nth] in *; [apply Hr; exact H | apply IH; exact H].
Qed.

Lemma nth_arg_rtype args args' :
  Forall2 (fun a a' => rtype a' = rtype a) args args' ->
  forall i, rtype (nth_arg args' i) = rtype (nth_arg args i).
Proof.
  unfold nth_arg. induction 1 as [|a a' l l' Ha Hl IH]; intros i.
  - destruct i; reflexivity.
  - destruct i as [|i]; cbn [nth]; [exact Ha | apply IH].
Qed.

Lemma all_ok_sim rs rs' : Forall2 res_sim rs rs' -> forall vals,
  all_ok rs = Ok vals -> exists vals', all_ok rs' = Ok vals' /\ Forall2 vsim vals vals'.
Proof.
  induction 1 as [|r r' rs rs' Hr Hrs IH]; intros vals H; cbn [all_ok] in *.
  - injection H as <-. exists []. split; [reflexivity | constructor].
  - destruct r as [a| | |]; cbn [bind] in H; try discriminate H.
    destruct (all_ok rs) as [vs| | |]; cbn [bind] in H; try discriminate H.
    injection H as <-.
    destruct (Hr a eq_refl) as (a' & -> & Sa).
    destruct (IH vs eq_refl) as (vs' & -> & Svs). cbn [bind].
    exists (a' :: vs'). split; [reflexivity | constructor; assumption].
Qed.

Lemma map_sim {A} (f : value -> A) : (forall x x', vsim x x' -> f x' = f x) ->
  forall vals vals', Forall2 vsim vals vals' -> map f vals' = map f vals.
Proof. intros Hf. induction 1; cbn [map]; [reflexivity | f_equal; auto]. Qed.

Lemma map_res_sim {A} (f : value -> res A) : (forall x x', vsim x x' -> f x' = f x) ->
  forall vals vals', Forall2 vsim vals vals' -> map_res f vals' = map_res f vals.
Proof.
  intros Hf. induction 1 as [|x x' l l' Hx Hl IH]; cbn [map_res]; [reflexivity|].
  rewrite (Hf _ _ Hx), IH. reflexivity.
Qed.

Lemma Forall2_tl {A B} (R : A -> B -> Prop) l l' : Forall2 R l l' -> Forall2 R (tl l) (tl l').
Proof. destruct 1; [constructor | assumption]. Qed.

(* one argument of a function body: the result, if there is one, is the same up to [vsim] *)
Ltac arg_step rs Hrs :=
  match goal with
  | |- (bind (nth_res fo rs ?i) _ = Ok _) -> _ =>
      let a := fresh "a" in let E := fresh "E" in
      destruct (nth_res fo rs i) as [a| | |] eqn:E; cbn [bind]; try (intros H; discriminate H);
      let a' := fresh "a'" in let E' := fresh "E'" in let S := fresh "S" in
      destruct (nth_res_sim _ _ Hrs i a E) as (a' & E' & S); rewrite E'; cbn [bind]
  end.

Lemma apply_func_congr nm args args' rs rs' x :
  Forall2 (fun a a' => rtype a' = rtype a) args args' ->
  Forall2 res_sim rs rs' ->
  apply_func fo nm args rs = Ok x -> apply_func fo nm args' rs' = Ok x.
Proof.
  intros Hargs Hrs. pose proof (nth_arg_rtype _ _ Hargs) as Hrt.
  unfold apply_func.
  destruct (String.eqb nm "lower"); cbv iota.
  { arg_step rs Hrs. rewrite (to_string_sim _ _ S). auto. }
  destruct (String.eqb nm "upper"); cbv iota.
  { arg_step rs Hrs. rewrite (to_string_sim _ _ S). auto. }
  destruct (String.eqb nm "int"); cbv iota.
  { arg_step rs Hrs. rewrite (to_int_sim _ _ S). auto. }
  destruct (String.eqb nm "float"); cbv iota.
  { arg_step rs Hrs. rewrite (to_float_sim _ _ S). auto. }
  destruct (String.eqb nm "str"); cbv iota.
  { arg_step rs Hrs. rewrite (to_string_sim _ _ S). auto. }
  destruct (String.eqb nm "is_int"); cbv iota.
  { arg_step rs Hrs. sim_cases S; auto. }
  destruct (String.eqb nm "is_float"); cbv iota.
  { arg_step rs Hrs. sim_cases S; auto. }
  destruct (String.eqb nm "substr"); cbv iota.
  { arg_step rs Hrs. rewrite !Hrt.
    destruct (negb (ty_eqb (rtype (nth_arg args 1)) TNumber)); [solve [auto | intros H; discriminate H]|].
    destruct (negb (ty_eqb (rtype (nth_arg args 2)) TNumber)); [solve [auto | intros H; discriminate H]|].
    arg_step rs Hrs. rewrite (to_int_sim _ _ S0).
    destruct (to_int fo a0); cbn [bind]; try solve [auto | intros H; discriminate H].
    arg_step rs Hrs. rewrite (to_int_sim _ _ S1), (to_string_sim _ _ S). auto. }
  destruct (String.eqb nm "json"); cbv iota; [solve [auto | intros H; discriminate H]|].
  destruct (String.eqb nm "split"); cbv iota.
  { arg_step rs Hrs. rewrite !Hrt.
    destruct (negb (ty_eqb (rtype (nth_arg args 1)) TStr)); [solve [auto | intros H; discriminate H]|].
    arg_step rs Hrs. rewrite (to_string_sim _ _ S), (to_string_sim _ _ S0). auto. }
  destruct (String.eqb nm "join"); cbv iota.
  { rewrite !Hrt.
    destruct (negb (ty_eqb (rtype (nth_arg args 0)) TStr)); [solve [auto | intros H; discriminate H]|].
    arg_step rs Hrs.
    destruct (all_ok (tl rs)) as [vals| | |] eqn:Ev; cbn [bind]; try (intros H; discriminate H).
    destruct (all_ok_sim _ _ (Forall2_tl _ _ _ Hrs) _ Ev) as (vals' & -> & Sv). cbn [bind].
    rewrite (to_string_sim _ _ S), (map_sim _ to_string_sim _ _ Sv). auto. }
  destruct (String.eqb nm "int_list" || String.eqb nm "ilist"); cbv iota.
  { destruct (all_ok rs) as [vals| | |] eqn:Ev; cbn [bind]; try (intros H; discriminate H).
    destruct (all_ok_sim _ _ Hrs _ Ev) as (vals' & -> & Sv). cbn [bind].
    rewrite (map_res_sim _ to_int_sim _ _ Sv). auto. }
  destruct (String.eqb nm "float_list" || String.eqb nm "flist"); cbv iota.
  { destruct (all_ok rs) as [vals| | |] eqn:Ev; cbn [bind]; try (intros H; discriminate H).
    destruct (all_ok_sim _ _ Hrs _ Ev) as (vals' & -> & Sv). cbn [bind].
    rewrite (map_res_sim _ to_float_sim _ _ Sv). auto. }
  destruct (String.eqb nm "list"); cbv iota.
  { destruct Hrs as [|r0 r0' rs rs' Hr0 Hrs0]; [solve [auto | intros H; discriminate H]|].
    destruct r0 as [first| | |]; cbn [bind]; try (intros H; discriminate H).
    destruct (Hr0 first eq_refl) as (first' & -> & Sf). cbn [bind].
    rewrite (list_use_int_sim _ _ Sf).
    destruct (list_use_int fo first) as [ui| | |]; cbn [bind]; try solve [auto | intros H; discriminate H].
    assert (Hall : Forall2 res_sim (Ok first :: rs) (Ok first' :: rs')).
    { constructor; [|assumption]. intros a Ha. injection Ha as <-. eauto. }
    destruct (all_ok (Ok first :: rs)) as [vals| | |] eqn:Ev; cbn [bind];
      try (intros H; discriminate H).
    destruct (all_ok_sim _ _ Hall _ Ev) as (vals' & -> & Sv). cbn [bind].
    rewrite (map_res_sim _ to_int_sim _ _ Sv), (map_res_sim _ to_float_sim _ _ Sv). auto. }
  destruct (String.eqb nm "len"); cbv iota.
  { arg_step rs Hrs. rewrite (list_length_sim _ _ S).
    destruct (list_length fo a); [auto | intros H; discriminate H]. }
  destruct (String.eqb nm "strlen"); cbv iota.
  { arg_step rs Hrs. rewrite (to_string_sim _ _ S). auto. }
  destruct (String.eqb nm "cosine_distance"); cbv iota.
  { arg_step rs Hrs. arg_step rs Hrs.
    rewrite (to_float_list_sim _ _ S), (to_float_list_sim _ _ S0). auto. }
  destruct (String.eqb nm "l2_distance"); cbv iota.
  { arg_step rs Hrs. arg_step rs Hrs.
    rewrite (to_float_list_sim _ _ S), (to_float_list_sim _ _ S0). auto. }
  auto.
Qed.


Lemma Forall2_len {A B} (R : A -> B -> Prop) l l' : Forall2 R l l' -> List.length l' = List.length l.
Proof. induction 1; cbn [List.length]; congruence. Qed.

Lemma call_congr k v p n args args' x :
  Forall2 (fun a a' => rtype a' = rtype a /\ dyn_ok k v a a') args args' ->
  ev k v (ECall p n args) = Ok x -> ev k v (ECall p n args') = Ok x.
Proof.
  intros HF. cbn [eval].
  destruct n; try (intros H; discriminate H).
  destruct (call_name (EName pos s)); [|intros H; exact H].
  destruct (func_info s0) as [[[nargs varargs] t]|]; [|intros H; exact H].
  rewrite (Forall2_len _ _ _ HF).
  destruct (_ || _); [intros H; exact H|].
  apply apply_func_congr.
  - clear -HF. induction HF; constructor; [tauto | assumption].
  - clear -HF. induction HF as [|a a' l l' [_ Ha] Hl IH]; cbn [map]; constructor; [|assumption].
    exact Ha.
Qed.

(* ------------------------------------------------------------------ literals *)
Lemma eval_value_indep k v k2 v2 e : is_value e = true -> ev k v e = ev k2 v2 e.
Proof. destruct e; try discriminate; reflexivity. Qed.

Lemma eval_bin_lits k v k2 v2 p o l r : is_value l = true -> is_value r = true ->
  ev k v (EBin p o l r) = ev k2 v2 (EBin p o l r).
Proof.
  intros Hl Hr.
  destruct l; try discriminate Hl; destruct r; try discriminate Hr; destruct o; reflexivity.
Qed.

Lemma map_eval_lits k v k2 v2 args : forallb is_value args = true ->
  map (ev k v) args = map (ev k2 v2) args.
Proof.
  induction args as [|a args IH]; [reflexivity|]. cbn [forallb map].
  intros H. apply andb_prop in H as [Ha Hargs].
  rewrite (eval_value_indep k v k2 v2 a Ha), (IH Hargs). reflexivity.
Qed.

Lemma eval_call_lits k v k2 v2 p n args : forallb is_value args = true ->
  ev k v (ECall p n args) = ev k2 v2 (ECall p n args).
Proof. intros H. cbn [eval]. rewrite (map_eval_lits k v k2 v2 args H). reflexivity. Qed.

(* ------------------------------------------------------------------ kinds of results *)
Definition is_number (a : value) : Prop :=
  (exists z, a = VInt z /\ in64 z = true) \/ (exists f, a = VFlt f).

Lemma math_op_kind x y o p a : math_op fo x y o p = Ok a -> is_number a.
Proof.
  unfold math_op, is_number, add64, sub64, mul64, div64.
  destruct (conv_int fo x), (conv_int fo y), (conv_float fo x), (conv_float fo y);
    destruct o; intros H; try discriminate H;
    try (destruct (Z.eqb _ 0); try discriminate H);
    try (destruct (feqb fo _ (f_zero fo)); try discriminate H);
    injection H as <-; solve [left; eexists; split; [reflexivity | apply wrap64_in64] | right; eauto].
Qed.

Definition is_arith (o : op) : bool :=
  match o with OAdd | OSub | OMul | ODiv => true | _ => false end.
Definition is_boolop (o : op) : bool :=
  match o with OAnd | OOr | OEq | ONotEq | OGt | OGte | OLt | OLte => true | _ => false end.

Lemma eval_arith_kind k v p o l r a : is_arith o = true ->
  ev k v (EBin p o l r) = Ok a ->
  (exists s, a = VStr s /\ rtype (EBin p o l r) = TStr) \/
  (is_number a /\ rtype (EBin p o l r) = TNumber).
Proof.
  intros Ho. destruct o; try discriminate Ho; cbn [eval rtype].
  - destruct (rtype l);
      (destruct (ev k v l) as [lv| | |]; cbn [bind]; try (intros H; discriminate H);
       destruct (ev k v r) as [rv| | |]; cbn [bind]; try (intros H; discriminate H); intros H);
      try (right; split; [exact (math_op_kind _ _ _ _ _ H) | reflexivity]).
    left. injection H as <-. eauto.
  - destruct (ev k v l) as [lv| | |]; cbn [bind]; try (intros H; discriminate H);
      destruct (ev k v r) as [rv| | |]; cbn [bind]; try (intros H; discriminate H); intros H.
    right; split; [exact (math_op_kind _ _ _ _ _ H) | reflexivity].
  - destruct (ev k v l) as [lv| | |]; cbn [bind]; try (intros H; discriminate H);
      destruct (ev k v r) as [rv| | |]; cbn [bind]; try (intros H; discriminate H); intros H.
    right; split; [exact (math_op_kind _ _ _ _ _ H) | reflexivity].
  - destruct (ev k v l) as [lv| | |]; cbn [bind]; try (intros H; discriminate H);
      destruct (ev k v r) as [rv| | |]; cbn [bind]; try (intros H; discriminate H); intros H.
    right; split; [exact (math_op_kind _ _ _ _ _ H) | reflexivity].
Qed.

Ltac bind_bool :=
  repeat match goal with
  | |- (bind ?r _ = Ok _) -> _ =>
      let b := fresh "b" in destruct r as [b| | |]; cbn [bind]; try (intros H; discriminate H)
  | |- (match ?r with Ok _ => _ | Err _ => _ | Panic => _ | OutOfModel => _ end = Ok _) -> _ =>
      let b := fresh "b" in destruct r as [b| | |]; cbn [bind]; try (intros H; discriminate H)
  end.

(* the type assertion ret.(bool) of tryOptimizeBinaryOpExecute cannot fail *)
Lemma bin_bool_is_bool k v p o l r a : is_boolop o = true ->
  ev k v (EBin p o l r) = Ok a -> exists b, a = VBool b.
Proof.
  intros Ho. destruct o; try discriminate Ho; cbn [eval];
    try (destruct (rtype l)); unfold bind;
    repeat match goal with
    | |- (match ?r with Ok _ => _ | Err _ => _ | Panic => _ | OutOfModel => _ end = Ok _) -> _ =>
        destruct r; try (intros H; discriminate H)
    | |- (match ?x with VBool _ => _ | _ => _ end = Ok _) -> _ =>
        destruct x; try (intros H; discriminate H)
    | |- ((if ?b then _ else _) = Ok _) -> _ => destruct b
    end;
    intros H; injection H as <-; eauto.
Qed.

Lemma rtype_boolop p o l r : is_boolop o = true -> rtype (EBin p o l r) = TBool.
Proof. destruct o; try discriminate; reflexivity. Qed.


(* ------------------------------------------------------------------ a rewriting step is good *)
Hypothesis fmt_v_parses : forall f, f_parse fo (fmt_v f) = PF_ok f.

Notation call_fold := (call_fold fo re_match fmt_v).
Notation try_exec := (try_exec fo re_match fmt_v).
Notation const_eval := (const_eval fo re_match).

Definition good (e e' : expr) : Prop :=
  rtype e' = rtype e /\ wt e' = true /\ shape_ok e e' /\ forall k v, dyn_ok k v e e'.

Lemma good_refl e : wt e = true -> good e e.
Proof.
  intros H. split; [|split; [|split]]; auto using shape_ok_refl. intros k v. apply dyn_ok_refl.
Qed.

Lemma dyn_ok_trans k v a b c : dyn_ok k v a b -> dyn_ok k v b c -> dyn_ok k v a c.
Proof.
  intros H1 H2 x Hx. destruct (H1 x Hx) as (y & Hy & S1). destruct (H2 y Hy) as (z & Hz & S2).
  exists z. split; [exact Hz | exact (vsim_trans _ _ _ S1 S2)].
Qed.

(* transitivity when the shape of the first tree is not observed (a BinaryOpExpr) *)
Lemma good_trans_bin e e1 e2 : is_bin e = true -> good e e1 -> good e1 e2 -> good e e2.
Proof.
  intros Hb (R1 & W1 & _ & D1) (R2 & W2 & _ & D2).
  split; [|split; [|split]]; [congruence | exact W2 | destruct e; try discriminate Hb; exact I |].
  intros k v. exact (dyn_ok_trans _ _ _ _ _ (D1 k v) (D2 k v)).
Qed.

Lemma wt_bin p o l r : wt (EBin p o l r) = true ->
  wt l = true /\ wt r = true /\
  match o with
  | OAnd | OOr => ty_eqb (rtype l) TBool && ty_eqb (rtype r) TBool
  | OAdd => Bool.eqb (ty_eqb (rtype l) TStr) (ty_eqb (rtype r) TStr)
  | _ => true
  end = true.
Proof.
  cbn [wt]. intros H. apply andb_prop in H as [H Hc]. apply andb_prop in H as [Hl Hr]. auto.
Qed.

Lemma good_bin p o l r l' r' : wt (EBin p o l r) = true -> good l l' -> good r r' ->
  good (EBin p o l r) (EBin p o l' r').
Proof.
  intros W (Rl & Wl & _ & Dl) (Rr & Wr & Sr & Dr).
  apply wt_bin in W as (_ & _ & Hc).
  split; [|split; [|split]].
  - cbn [rtype]. rewrite Rl. reflexivity.
  - cbn [wt]. rewrite Wl, Wr, Rl, Rr. exact Hc.
  - exact I.
  - intros k v. apply dyn_ok_eq. intros a. apply bin_congr; auto.
Qed.

(* a literal that stands for the value of a row-independent expression *)
Lemma lit_str_good e p s : (forall k v, ev k v e = Ok (VStr s)) -> rtype e = TStr ->
  forall k v, dyn_ok k v e (EStr p s).
Proof.
  intros He _ k v a Ha. rewrite He in Ha. injection Ha as <-.
  exists (VBytes s). split; [reflexivity | apply vsim_str].
Qed.

Lemma lit_int_good e p z : (forall k v, ev k v e = Ok (VInt z)) -> in64 z = true ->
  forall k v, dyn_ok k v e (ENum p (str_of_Z z)).
Proof.
  intros He Hz k v a Ha. rewrite He in Ha. injection Ha as <-.
  exists (VInt z). split; [|apply vsim_refl].
  cbn [eval]. unfold num_value. rewrite (FuncProofs.parse_int_str_of_Z z Hz). reflexivity.
Qed.

Lemma lit_flt_good e p f : (forall k v, ev k v e = Ok (VFlt f)) ->
  forall k v, dyn_ok k v e (EFloat p (fmt_v f)).
Proof.
  intros He k v a Ha. rewrite He in Ha. injection Ha as <-.
  exists (VFlt f). split; [|apply vsim_refl].
  cbn [eval]. unfold float_value. rewrite fmt_v_parses. reflexivity.
Qed.

Lemma lit_bool_good e p b : (forall k v, ev k v e = Ok (VBool b)) ->
  forall k v, dyn_ok k v e (EBool p b).
Proof.
  intros He k v a Ha. rewrite He in Ha. injection Ha as <-.
  exists (VBool b). split; [reflexivity | apply vsim_refl].
Qed.

(* ------------------------------------------------------------------ tryOptimizeFunctionCall *)
Lemma rtype_call p n args args' : rtype (ECall p n args') = rtype (ECall p n args).
Proof. reflexivity. Qed.

(* scalar functions of return type STR return a Go string, of type BOOL a bool:
   the type assertions ret.(string) / ret.(bool) of tryOptimizeFunctionCall cannot fail *)
Lemma apply_func_kind nm args rs a n v t : func_info nm = Some (n, v, t) ->
  apply_func fo nm args rs = Ok a ->
  match t with
  | TStr => exists s, a = VStr s
  | TBool => exists b, a = VBool b
  | _ => True
  end.
Proof.
  unfold func_info, apply_func.
  repeat match goal with
  | |- context [String.eqb nm ?s] => destruct (String.eqb nm s); cbv iota
  end;
  intros Hi; try discriminate Hi; injection Hi as <- <- <-; try exact (fun _ => I);
  cbn [orb]; cbv iota; unfold bind;
  repeat match goal with
  | |- (match ?r with Ok _ => _ | Err _ => _ | Panic => _ | OutOfModel => _ end = Ok _) -> _ =>
      destruct r; try (intros H; discriminate H)
  | |- ((if ?b then _ else _) = Ok _) -> _ => destruct b; try (intros H; discriminate H)
  | |- (match ?x with Some _ => _ | None => _ end = Ok _) -> _ =>
      destruct x; try (intros H; discriminate H)
  | |- (match ?x with PF_ok _ => _ | PF_err => _ | PF_oom => _ end = Ok _) -> _ =>
      destruct x; try (intros H; discriminate H)
  | |- (match ?x with VBytes _ => _ | _ => _ end = Ok _) -> _ =>
      destruct x; try (intros H; discriminate H)
  end;
  intros H; injection H as <-; eauto.
Qed.

Lemma call_kind k v p n args a : ev k v (ECall p n args) = Ok a ->
  match rtype (ECall p n args) with
  | TStr => exists s, a = VStr s
  | TBool => exists b, a = VBool b
  | _ => True
  end.
Proof.
  cbn [eval rtype]. destruct n; try (intros H; discriminate H).
  destruct (call_name (EName pos s)) as [nm|]; [|intros H; discriminate H].
  destruct (func_info nm) as [[[nargs varargs] t]|] eqn:Hi; [|intros H; discriminate H].
  destruct (_ || _); [intros H; discriminate H|].
  apply (apply_func_kind _ _ _ _ _ _ _ Hi).
Qed.

Lemma call_fold_good p n args : forallb wt args = true ->
  good (ECall p n args) (fst (call_fold p n args)) /\
  (snd (call_fold p n args) = true -> is_value (fst (call_fold p n args)) = true).
Proof.
  intros W. assert (We : wt (ECall p n args) = true) by exact W.
  unfold Fold.call_fold.
  destruct (negb (forallb is_value args && is_scalar_func n)) eqn:C;
    [split; [apply good_refl; exact We | discriminate]|].
  apply negb_false_iff, andb_prop in C as [Cv _].
  assert (Hc : forall ret, const_eval (ECall p n args) = Ok ret ->
               forall k v, ev k v (ECall p n args) = Ok ret).
  { intros ret Hr k v. rewrite (eval_call_lits k v "" "" p n args Cv). exact Hr. }
  destruct (Fold.const_eval fo re_match (ECall p n args)) as [ret| | |] eqn:Ce.
  2-4: destruct (rtype (ECall p n args)); split; try (apply good_refl; exact We); discriminate.
  specialize (Hc ret eq_refl).
  pose proof (call_kind "" "" p n args ret Ce) as Hk.
  destruct (rtype (ECall p n args)) eqn:Rt; cbn [fst snd];
    try (split; [apply good_refl; exact We | discriminate]).
  - (* TBool *)
    destruct Hk as (b & ->). cbn [fst snd]. split; [|reflexivity].
    split; [|split; [|split]]; [symmetry; exact Rt | reflexivity | cbn [shape_ok]; intros Hl; rewrite Rt in Hl; discriminate Hl | apply lit_bool_good; exact Hc].
  - (* TStr *)
    destruct Hk as (s & ->). cbn [fst snd]. split; [|reflexivity].
    split; [|split; [|split]]; [symmetry; exact Rt | reflexivity | cbn [shape_ok]; intros Hl; rewrite Rt in Hl; discriminate Hl | apply lit_str_good; [exact Hc | exact Rt]].
  - (* TNumber *)
    destruct ret; cbn [fst snd]; try (split; [apply good_refl; exact We | discriminate]).
    + destruct (returns_go_int n); cbn [fst snd];
        [split; [apply good_refl; exact We | discriminate]|].
      destruct (in64 z) eqn:Hz; cbn [fst snd];
        [|split; [apply good_refl; exact We | discriminate]].
      split; [|reflexivity].
      split; [|split; [|split]]; [symmetry; exact Rt | reflexivity | cbn [shape_ok]; intros Hl; rewrite Rt in Hl; discriminate Hl | apply lit_int_good; [exact Hc | exact Hz]].
    + split; [|reflexivity].
      split; [|split; [|split]]; [symmetry; exact Rt | reflexivity | cbn [shape_ok]; intros Hl; rewrite Rt in Hl; discriminate Hl | apply lit_flt_good; exact Hc].
Qed.


(* ------------------------------------------------------------------ tryOptimizeBinaryOpExecute *)
Definition exec_child (c : expr) : expr * bool :=
  match c with
  | EBin _ _ _ _ => try_exec c
  | ECall cp cn cargs => call_fold cp cn cargs
  | EStr _ _ | ENum _ _ | EFloat _ _ | EBool _ _ => (c, true)
  | _ => (c, false)
  end.

Definition exec_node (p : nat) (o : op) (l' : expr) (lv : bool) (r' : expr) (rv : bool) : expr * bool :=
  let e' := EBin p o l' r' in
  if negb (lv && rv) then (e', false)
  else
    let lp := epos l' in
    match o with
    | OAdd | OSub | OMul | ODiv =>
        match const_eval e' with
        | Ok (VStr s) => (EStr lp s, true)
        | Ok (VInt z) => (ENum lp (str_of_Z z), true)
        | Ok (VFlt f) => (EFloat lp (fmt_v f), true)
        | _ => (e', false)
        end
    | OAnd | OOr | OEq | ONotEq | OGt | OGte | OLt | OLte =>
        match const_eval e' with
        | Ok (VBool b) => (EBool lp b, true)
        | _ => (e', false)
        end
    | _ => (e', false)
    end.

Lemma try_exec_eq p o l r :
  try_exec (EBin p o l r) =
  exec_node p o (fst (exec_child l)) (snd (exec_child l)) (fst (exec_child r)) (snd (exec_child r)).
Proof.
  cbn [Fold.try_exec]. unfold exec_child.
  destruct l; destruct r;
    repeat match goal with
    | |- context [Fold.try_exec fo re_match fmt_v ?e] =>
        destruct (Fold.try_exec fo re_match fmt_v e)
    | |- context [Fold.call_fold fo re_match fmt_v ?a ?b ?c] =>
        destruct (Fold.call_fold fo re_match fmt_v a b c)
    end; reflexivity.
Qed.

Definition step_ok (e : expr) (res : expr * bool) : Prop :=
  good e (fst res) /\ (snd res = true -> is_value (fst res) = true).

Lemma exec_node_good p o l r l' lv r' rv :
  wt (EBin p o l r) = true ->
  step_ok l (l', lv) -> step_ok r (r', rv) ->
  step_ok (EBin p o l r) (exec_node p o l' lv r' rv).
Proof.
  intros W [Gl Vl] [Gr Vr]. cbn [fst snd] in *.
  pose proof (good_bin p o l r l' r' W Gl Gr) as G1.
  assert (Keep : step_ok (EBin p o l r) (EBin p o l' r', false)).
  { split; [exact G1 | discriminate]. }
  unfold exec_node.
  destruct (negb (lv && rv)) eqn:C; [exact Keep|].
  apply negb_false_iff, andb_prop in C as [-> ->].
  specialize (Vl eq_refl). specialize (Vr eq_refl).
  assert (Hc : forall ret, const_eval (EBin p o l' r') = Ok ret ->
               forall k v, ev k v (EBin p o l' r') = Ok ret).
  { intros ret Hr k v. rewrite (eval_bin_lits k v "" "" p o l' r' Vl Vr). exact Hr. }
  destruct G1 as (R1 & W1 & _ & D1).
  assert (Lit : forall lit, rtype lit = rtype (EBin p o l' r') -> wt lit = true ->
                 (forall k v, dyn_ok k v (EBin p o l' r') lit) -> is_value lit = true ->
                 step_ok (EBin p o l r) (lit, true)).
  { intros lit Rl Wl Dl Vlit. split; [|intros _; exact Vlit]. cbn [fst].
    split; [congruence | split; [exact Wl | split; [exact I|]]].
    intros k v. exact (dyn_ok_trans _ _ _ _ _ (D1 k v) (Dl k v)). }
  destruct (is_arith o) eqn:Ha; [|destruct (is_boolop o) eqn:Hb].
  - (* + - * / *)
    assert (Hk := fun ret Hr => eval_arith_kind "" "" p o l' r' ret Ha Hr).
    destruct (Fold.const_eval fo re_match (EBin p o l' r')) as [ret| | |] eqn:Ce;
      try (destruct o; try discriminate Ha; exact Keep).
    specialize (Hk ret Ce). specialize (Hc ret eq_refl).
    destruct Hk as [(s & -> & Rt) | [[(z & -> & Hz) | (f & ->)] Rt]].
    + replace (match o with
               | OAdd | OSub | OMul | ODiv => (EStr (epos l') s, true)
               | OAnd | OOr | OEq | ONotEq | OGt | OGte | OLt | OLte => (EBin p o l' r', false)
               | _ => (EBin p o l' r', false)
               end) with (EStr (epos l') s, true) by (destruct o; try discriminate Ha; reflexivity).
      apply Lit; [symmetry; exact Rt | reflexivity | apply lit_str_good; [exact Hc | exact Rt] | reflexivity].
    + replace (match o with
               | OAdd | OSub | OMul | ODiv => (ENum (epos l') (str_of_Z z), true)
               | OAnd | OOr | OEq | ONotEq | OGt | OGte | OLt | OLte => (EBin p o l' r', false)
               | _ => (EBin p o l' r', false)
               end) with (ENum (epos l') (str_of_Z z), true) by (destruct o; try discriminate Ha; reflexivity).
      apply Lit; [symmetry; exact Rt | reflexivity | apply lit_int_good; [exact Hc | exact Hz] | reflexivity].
    + replace (match o with
               | OAdd | OSub | OMul | ODiv => (EFloat (epos l') (fmt_v f), true)
               | OAnd | OOr | OEq | ONotEq | OGt | OGte | OLt | OLte => (EBin p o l' r', false)
               | _ => (EBin p o l' r', false)
               end) with (EFloat (epos l') (fmt_v f), true) by (destruct o; try discriminate Ha; reflexivity).
      apply Lit; [symmetry; exact Rt | reflexivity | apply lit_flt_good; exact Hc | reflexivity].
  - (* & | = != > >= < <= *)
    assert (Hk := fun ret Hr => bin_bool_is_bool "" "" p o l' r' ret Hb Hr).
    destruct (Fold.const_eval fo re_match (EBin p o l' r')) as [ret| | |] eqn:Ce;
      try (destruct o; try discriminate Hb; exact Keep).
    specialize (Hk ret Ce). specialize (Hc ret eq_refl). destruct Hk as (b & ->).
    replace (match o with
             | OAdd | OSub | OMul | ODiv => (EBin p o l' r', false)
             | OAnd | OOr | OEq | ONotEq | OGt | OGte | OLt | OLte => (EBool (epos l') b, true)
             | _ => (EBin p o l' r', false)
             end) with (EBool (epos l') b, true) by (destruct o; try discriminate Hb; reflexivity).
    apply Lit; [symmetry; apply rtype_boolop; exact Hb | reflexivity | apply lit_bool_good; exact Hc | reflexivity].
  - destruct o; try discriminate Ha; try discriminate Hb; exact Keep.
Qed.

Lemma exec_child_good c :
  (is_bin c = true -> wt c = true -> step_ok c (try_exec c)) ->
  wt c = true -> step_ok c (exec_child c).
Proof.
  intros IH W. destruct c; cbn [exec_child];
    try (split; [apply good_refl; exact W | cbn [snd fst]; (reflexivity || discriminate)]).
  - apply IH; [reflexivity | exact W].
  - exact (call_fold_good pos c args W).
Qed.

Lemma try_exec_good e : is_bin e = true -> wt e = true -> step_ok e (try_exec e).
Proof.
  induction e; intros Hb W; try discriminate Hb.
  rewrite try_exec_eq.
  apply wt_bin in W as W'. destruct W' as (Wl & Wr & _).
  apply (exec_node_good pos o e1 e2); [exact W | |].
  - rewrite <- surjective_pairing. apply exec_child_good; [exact IHe1 | exact Wl].
  - rewrite <- surjective_pairing. apply exec_child_good; [exact IHe2 | exact Wr].
Qed.

(* ------------------------------------------------------------------ tryOptimizeAndOr *)
Lemma eval_and_inv k v p l r a : ev k v (EBin p OAnd l r) = Ok a ->
  (ev k v l = Ok (VBool false) /\ a = VBool false) \/
  (ev k v l = Ok (VBool true) /\ exists b, ev k v r = Ok (VBool b) /\ a = VBool b).
Proof.
  cbn [eval]. destruct (ev k v l) as [lv| | |]; cbn [bind]; try (intros H; discriminate H).
  destruct lv; try (intros H; discriminate H). destruct b.
  - destruct (ev k v r) as [rv| | |]; cbn [bind]; try (intros H; discriminate H).
    destruct rv; try (intros H; discriminate H). intros H; injection H as <-. right. eauto.
  - intros H; injection H as <-. left. auto.
Qed.

Lemma eval_or_inv k v p l r a : ev k v (EBin p OOr l r) = Ok a ->
  (ev k v l = Ok (VBool true) /\ a = VBool true) \/
  (ev k v l = Ok (VBool false) /\ exists b, ev k v r = Ok (VBool b) /\ a = VBool b).
Proof.
  cbn [eval]. destruct (ev k v l) as [lv| | |]; cbn [bind]; try (intros H; discriminate H).
  destruct lv; try (intros H; discriminate H). destruct b.
  - intros H; injection H as <-. left. auto.
  - destruct (ev k v r) as [rv| | |]; cbn [bind]; try (intros H; discriminate H).
    destruct rv; try (intros H; discriminate H). intros H; injection H as <-. right. eauto.
Qed.

Lemma eval_bool_lit k v q b : ev k v (EBool q b) = Ok (VBool b).
Proof. reflexivity. Qed.

Lemma and_or_good e : is_bin e = true -> wt e = true -> good e (fst (and_or e)).
Proof.
  destruct e; intros Hb W; try discriminate Hb. clear Hb.
  assert (Keep : good (EBin pos o e1 e2) (EBin pos o e1 e2)) by (apply good_refl; exact W).
  cbn [and_or].
  destruct (negb (op_eqb o OAnd || op_eqb o OOr)) eqn:C; [exact Keep|].
  apply wt_bin in W as (W1 & W2 & Hc).
  assert (Ho : o = OAnd \/ o = OOr) by (destruct o; try discriminate C; auto).
  assert (Ht : rtype e1 = TBool /\ rtype e2 = TBool).
  { destruct Ho as [-> | ->]; apply andb_prop in Hc as [H1 H2];
      split; apply ty_eqb_eq; assumption. }
  destruct Ht as [T1 T2].
  assert (Lit : forall q b, (forall k v a, ev k v (EBin pos o e1 e2) = Ok a -> a = VBool b) ->
                 good (EBin pos o e1 e2) (EBool q b)).
  { intros q b Hv. split; [destruct Ho as [-> | ->]; reflexivity | split; [reflexivity | split; [exact I|]]].
    intros k v a Ha. rewrite (Hv k v a Ha). exists (VBool b). split; [reflexivity | apply vsim_refl]. }
  assert (Sub : forall c, wt c = true -> rtype c = TBool ->
                 (forall k v a, ev k v (EBin pos o e1 e2) = Ok a -> ev k v c = Ok a) ->
                 good (EBin pos o e1 e2) c).
  { intros c Wc Tc Hv. split; [destruct Ho as [-> | ->]; exact Tc | split; [exact Wc | split; [exact I|]]].
    intros k v. apply dyn_ok_eq. apply Hv. }
  destruct Ho as [-> | ->]; cbn [op_eqb op_code Nat.eqb].
  - (* & *)
    destruct e1; destruct e2; try exact Keep; cbn [fst epos];
      try (destruct b); try (destruct b0); cbn [fst andb];
      first
        [ discriminate T1 | discriminate T2
        | apply Lit; intros k v a Ha; apply eval_and_inv in Ha;
          rewrite ?eval_bool_lit in Ha;
          destruct Ha as [[Hl ->] | [Hl (b' & Hr & ->)]]; congruence
        | apply Sub; [assumption | assumption |];
          intros k v a Ha; apply eval_and_inv in Ha; rewrite ?eval_bool_lit in Ha;
          destruct Ha as [[Hl ->] | [Hl (b' & Hr & ->)]]; congruence ].
  - (* | *)
    destruct e1; destruct e2; try exact Keep; cbn [fst epos];
      try (destruct b); try (destruct b0); cbn [fst orb];
      first
        [ discriminate T1 | discriminate T2
        | apply Lit; intros k v a Ha; apply eval_or_inv in Ha;
          rewrite ?eval_bool_lit in Ha;
          destruct Ha as [[Hl ->] | [Hl (b' & Hr & ->)]]; congruence
        | apply Sub; [assumption | assumption |];
          intros k v a Ha; apply eval_or_inv in Ha; rewrite ?eval_bool_lit in Ha;
          destruct Ha as [[Hl ->] | [Hl (b' & Hr & ->)]]; congruence ].
Qed.


(* ------------------------------------------------------------------ tryReorderBinaryOp *)
Definition site_of (o : op) (l' r' : expr) : option (expr * expr * expr) :=
  if negb (op_eqb o OAdd || op_eqb o OMul) then None
  else
    match l' with
    | EBin _ lo ll lr =>
        if is_rvalue r' && op_eqb lo o then
          match lr with
          | EStr _ _ | ENum _ _ | EFloat _ _ => Some (ll, lr, r')
          | EBin _ _ _ _ => if all_value o lr then Some (ll, lr, r') else None
          | _ => None
          end
        else None
    | _ => None
    end.

Lemma reorder_eq p o l r :
  reorder (EBin p o l r) =
  match site_of o (reorder l) (reorder r) with
  | Some (x, c1, c2) => EBin p o x (EBin p o c1 c2)
  | None => EBin p o (reorder l) (reorder r)
  end.
Proof.
  cbn [reorder].
  assert (Hl : match l with EBin _ _ _ _ => reorder l | _ => l end = reorder l)
    by (destruct l; reflexivity).
  assert (Hr : match r with EBin _ _ _ _ => reorder r | _ => r end = reorder r)
    by (destruct r; reflexivity).
  rewrite Hl, Hr. unfold site_of.
  destruct (negb (op_eqb o OAdd || op_eqb o OMul)); [reflexivity|].
  destruct (reorder l); try reflexivity.
  destruct (is_rvalue (reorder r) && op_eqb o0 o); [|reflexivity].
  destruct e2; try reflexivity. destruct (all_value o (EBin pos0 o1 e2_1 e2_2)); reflexivity.
Qed.

Lemma op_eqb_eq a b : op_eqb a b = true -> a = b.
Proof. destruct a, b; cbn; congruence. Qed.

Lemma site_of_inv o l' r' x c1 c2 : site_of o l' r' = Some (x, c1, c2) ->
  (o = OAdd \/ o = OMul) /\ (exists lp, l' = EBin lp o x c1) /\ r' = c2 /\ is_rvalue c2 = true.
Proof.
  unfold site_of.
  destruct (negb (op_eqb o OAdd || op_eqb o OMul)) eqn:C; [discriminate|].
  assert (Ho : o = OAdd \/ o = OMul) by (destruct o; try discriminate C; auto).
  destruct l'; try discriminate.
  destruct (is_rvalue r' && op_eqb o0 o) eqn:C2; [|discriminate].
  apply andb_prop in C2 as [Hv Heq]. apply op_eqb_eq in Heq. subst o0.
  intros H.
  assert (H' : Some (l'1, l'2, r') = Some (x, c1, c2)).
  { destruct l'2; try discriminate H; try exact H.
    destruct (all_value o (EBin pos0 o0 l'2_1 l'2_2)); [exact H | discriminate H]. }
  injection H' as <- <- <-. repeat split; eauto.
Qed.

Definition is_flt (a : value) : bool := match a with VFlt _ => true | _ => false end.

(* (x op c1) op c2 = x op (c1 op c2) for the operands at hand, demanded only where a float
   takes part; integer and text chains need no premise *)
Definition site_exact (k v : bytes) (o : op) (x c1 c2 : expr) : Prop :=
  forall X C1 C2, ev k v x = Ok X -> ev k v c1 = Ok C1 -> ev k v c2 = Ok C2 ->
    is_flt X || is_flt C1 || is_flt C2 = true ->
    (do t <- math_op fo X C1 o 0; math_op fo t C2 o 0) =
    (do b <- math_op fo C1 C2 o 0; math_op fo X b o 0).

Fixpoint reorder_exact (k v : bytes) (e : expr) : Prop :=
  match e with
  | EBin _ o l r =>
      reorder_exact k v l /\ reorder_exact k v r /\
      match site_of o (reorder l) (reorder r) with
      | Some (x, c1, c2) => site_exact k v o x c1 c2
      | None => True
      end
  | _ => True
  end.

Lemma str_append_assoc (a b c : string) : ((a ++ b) ++ c = a ++ (b ++ c))%string.
Proof. induction a as [|ch a IH]; cbn; [reflexivity | rewrite IH; reflexivity]. Qed.

Lemma eval_add k v p l r :
  ev k v (EBin p OAdd l r) =
  if ty_eqb (rtype l) TStr
  then (do lv <- ev k v l; do rv <- ev k v r; Ok (VStr (to_string fo lv ++ to_string fo rv)))
  else (do lv <- ev k v l; do rv <- ev k v r; math_op fo lv rv OAdd (epos r)).
Proof. cbn [eval]. destruct (rtype l); reflexivity. Qed.

Lemma eval_mul k v p l r :
  ev k v (EBin p OMul l r) = (do lv <- ev k v l; do rv <- ev k v r; math_op fo lv rv OMul (epos r)).
Proof. reflexivity. Qed.

Lemma rtype_add_str p l r : ty_eqb (rtype (EBin p OAdd l r)) TStr = ty_eqb (rtype l) TStr.
Proof. cbn [rtype]. destruct (rtype l); reflexivity. Qed.

Lemma math_op_pos x y o p q : o = OAdd \/ o = OMul -> math_op fo x y o p = math_op fo x y o q.
Proof. intros [-> | ->]; reflexivity. Qed.

Lemma math_reassoc o X C1 C2 a p1 p2 p3 p4 : o = OAdd \/ o = OMul ->
  (is_flt X || is_flt C1 || is_flt C2 = true ->
   (do t <- math_op fo X C1 o 0; math_op fo t C2 o 0) =
   (do b <- math_op fo C1 C2 o 0; math_op fo X b o 0)) ->
  (do t <- math_op fo X C1 o p1; math_op fo t C2 o p2) = Ok a ->
  (do b <- math_op fo C1 C2 o p3; math_op fo X b o p4) = Ok a.
Proof.
  intros Ho Hp.
  rewrite (math_op_pos X C1 o p1 0 Ho), (math_op_pos C1 C2 o p3 0 Ho).
  assert (E1 : (do t <- math_op fo X C1 o 0; math_op fo t C2 o p2) =
               (do t <- math_op fo X C1 o 0; math_op fo t C2 o 0)).
  { destruct (math_op fo X C1 o 0); cbn [bind]; auto using math_op_pos. }
  assert (E2 : (do b <- math_op fo C1 C2 o 0; math_op fo X b o p4) =
               (do b <- math_op fo C1 C2 o 0; math_op fo X b o 0)).
  { destruct (math_op fo C1 C2 o 0); cbn [bind]; auto using math_op_pos. }
  rewrite E1, E2.
  destruct (is_flt X || is_flt C1 || is_flt C2) eqn:Hf; [rewrite (Hp eq_refl); auto|].
  clear Hp E1 E2.
  destruct Ho as [-> | ->];
    (destruct X; try discriminate Hf; destruct C1; try discriminate Hf; cbn [math_op conv_int conv_float bind];
     try (intros H; discriminate H);
     destruct C2; try discriminate Hf; cbn [math_op conv_int conv_float bind];
     try (intros H; discriminate H)).
  - rewrite add64_assoc. auto.
  - rewrite mul64_assoc. auto.
Qed.

Lemma site_rewrite k v p lp o x c1 c2 a :
  o = OAdd \/ o = OMul ->
  (o = OAdd -> ty_eqb (rtype x) TStr = ty_eqb (rtype c1) TStr) ->
  site_exact k v o x c1 c2 ->
  ev k v (EBin p o (EBin lp o x c1) c2) = Ok a ->
  ev k v (EBin p o x (EBin p o c1 c2)) = Ok a.
Proof.
  intros Ho Hc Hs. unfold site_exact in Hs.
  assert (Hm : forall p1 p2 p3 p4,
    (do X <- ev k v x; do C1 <- ev k v c1; do t <- math_op fo X C1 o p1;
     do C2 <- ev k v c2; math_op fo t C2 o p2) = Ok a ->
    (do X <- ev k v x; do C1 <- ev k v c1; do C2 <- ev k v c2;
     do b <- math_op fo C1 C2 o p3; math_op fo X b o p4) = Ok a).
  { intros p1 p2 p3 p4.
    destruct (ev k v x) as [X| | |]; cbn [bind]; try (intros H; discriminate H).
    destruct (ev k v c1) as [C1| | |]; cbn [bind]; try (intros H; discriminate H).
    destruct (ev k v c2) as [C2| | |]; cbn [bind].
    - apply (math_reassoc o X C1 C2 a p1 p2 p3 p4 Ho). apply Hs; reflexivity.
    - destruct (math_op fo X C1 o p1); cbn [bind]; intros H; discriminate H.
    - destruct (math_op fo X C1 o p1); cbn [bind]; intros H; discriminate H.
    - destruct (math_op fo X C1 o p1); cbn [bind]; intros H; discriminate H. }
  destruct Ho as [-> | ->].
  - specialize (Hc eq_refl).
    rewrite !eval_add, rtype_add_str, <- Hc.
    destruct (ty_eqb (rtype x) TStr).
    + (* text *)
      destruct (ev k v x) as [X| | |]; cbn [bind]; try (intros H; discriminate H).
      destruct (ev k v c1) as [C1| | |]; cbn [bind]; try (intros H; discriminate H).
      destruct (ev k v c2) as [C2| | |]; cbn [bind]; try (intros H; discriminate H).
      cbn [to_string]. rewrite str_append_assoc. auto.
    + intros H. 
      assert (G := Hm (epos c1) (epos c2) (epos c2) (epos (EBin p OAdd c1 c2))).
      revert H G.
      destruct (ev k v x) as [X| | |]; cbn [bind]; try (intros H; discriminate H).
      destruct (ev k v c1) as [C1| | |]; cbn [bind]; try (intros H; discriminate H).
      destruct (ev k v c2) as [C2| | |]; cbn [bind]; auto.
  - rewrite !eval_mul. intros H.
    assert (G := Hm (epos c1) (epos c2) (epos c2) (epos (EBin p OMul c1 c2))).
    revert H G.
    destruct (ev k v x) as [X| | |]; cbn [bind]; try (intros H; discriminate H).
    destruct (ev k v c1) as [C1| | |]; cbn [bind]; try (intros H; discriminate H).
    destruct (ev k v c2) as [C2| | |]; cbn [bind]; auto.
Qed.


Lemma shape_ok_reorder c : shape_ok c (reorder c).
Proof. destruct c; cbn [shape_ok reorder]; auto. Qed.

Lemma reorder_static e : wt e = true -> rtype (reorder e) = rtype e /\ wt (reorder e) = true.
Proof.
  induction e; intros W; try (split; [reflexivity | exact W]).
  rewrite reorder_eq.
  apply wt_bin in W as (W1 & W2 & Hc).
  destruct (IHe1 W1) as [R1 Wr1]. destruct (IHe2 W2) as [R2 Wr2].
  destruct (site_of o (reorder e1) (reorder e2)) as [[[x c1] c2]|] eqn:Hs.
  - apply site_of_inv in Hs as (Ho & (lp & Hl) & Hr & Hv).
    rewrite Hl in R1, Wr1. rewrite Hr in R2, Wr2.
    apply wt_bin in Wr1 as (Wx & Wc1 & Hc1).
    destruct Ho as [-> | ->].
    + (* + *)
      rewrite <- R1, <- R2 in Hc.
      rewrite rtype_add_str in Hc.
      split.
      * cbn [rtype]. rewrite <- R1. cbn [rtype]. destruct (rtype x); reflexivity.
      * cbn [wt]. rewrite Wx, Wc1, Wr2. cbn [andb].
        change (match rtype c1 with TStr => TStr | _ => TNumber end) with (rtype (EBin pos OAdd c1 c2)).
        rewrite rtype_add_str.
        destruct (ty_eqb (rtype x) TStr), (ty_eqb (rtype c1) TStr), (ty_eqb (rtype c2) TStr);
          cbn in *; congruence.
    + (* * *)
      split; [reflexivity|]. cbn [wt]. rewrite Wx, Wc1, Wr2. reflexivity.
  - split; [cbn [rtype]; rewrite R1; reflexivity|].
    cbn [wt]. rewrite Wr1, Wr2, R1, R2. exact Hc.
Qed.

Lemma reorder_dyn k v e : wt e = true -> reorder_exact k v e ->
  forall a, ev k v e = Ok a -> ev k v (reorder e) = Ok a.
Proof.
  induction e; intros W He a Ha; try exact Ha.
  rewrite reorder_eq.
  apply wt_bin in W as W'. destruct W' as (W1 & W2 & Hc).
  cbn [reorder_exact] in He. destruct He as (He1 & He2 & Hsite).
  destruct (reorder_static e1 W1) as [R1 Wr1]. destruct (reorder_static e2 W2) as [R2 Wr2].
  assert (H1 : ev k v (EBin pos o (reorder e1) (reorder e2)) = Ok a).
  { apply (bin_congr k v pos o e1 e2); auto using shape_ok_reorder.
    - apply dyn_ok_eq. apply IHe1; assumption.
    - apply dyn_ok_eq. apply IHe2; assumption. }
  destruct (site_of o (reorder e1) (reorder e2)) as [[[x c1] c2]|] eqn:Hs; [|exact H1].
  apply site_of_inv in Hs as (Ho & (lp & Hl) & Hr & Hv).
  rewrite Hl, Hr in H1.
  apply (site_rewrite k v pos lp o x c1 c2 a Ho); [|exact Hsite | exact H1].
  intros ->. rewrite Hl in Wr1. apply wt_bin in Wr1 as (_ & _ & Hc1).
  apply eqb_prop. exact Hc1.
Qed.

(* ------------------------------------------------------------------ optimize *)
Notation optimize := (optimize fo re_match fmt_v).
Notation opt_args := (opt_args fo re_match fmt_v).
Notation finish_bin := (finish_bin fo re_match fmt_v).

(* every re-association the optimizer performs on [e] is exact on the pair (k, v):
   [args_exact] for the arguments of the calls reached through operators, [pass_exact] for
   one application of optimize *)
Fixpoint pass_exact (k v : bytes) (e : expr) : Prop :=
  match e with
  | EBin p o l r =>
      args_exact k v l /\ args_exact k v r /\
      reorder_exact k v (EBin p o (opt_args l) (opt_args r))
  | ECall _ _ args =>
      (fix go (l : list expr) : Prop :=
         match l with [] => True | a :: l' => pass_exact k v a /\ go l' end) args
  | _ => True
  end
with args_exact (k v : bytes) (e : expr) : Prop :=
  match e with
  | EBin _ _ l r => args_exact k v l /\ args_exact k v r
  | ECall _ _ args =>
      (fix go (l : list expr) : Prop :=
         match l with [] => True | a :: l' => pass_exact k v a /\ go l' end) args
  | _ => True
  end.

Lemma pass_call_forall k v args :
  (fix go (l : list expr) : Prop :=
     match l with [] => True | a :: l' => pass_exact k v a /\ go l' end) args ->
  Forall (pass_exact k v) args.
Proof. induction args as [|a args IH]; intros H; constructor; [apply H | apply IH, H]. Qed.

Lemma finish_bin_good e : is_bin e = true -> wt e = true ->
  rtype (finish_bin e) = rtype e /\ wt (finish_bin e) = true /\
  forall k v, reorder_exact k v e -> dyn_ok k v e (finish_bin e).
Proof.
  intros Hb W. unfold Fold.finish_bin.
  destruct (reorder_static e W) as [R1 W1].
  assert (Hb1 : is_bin (reorder e) = true).
  { destruct e; try discriminate Hb. rewrite reorder_eq.
    destruct (site_of _ _ _) as [[[? ?] ?]|]; reflexivity. }
  destruct (try_exec_good (reorder e) Hb1 W1) as [(R2 & W2 & _ & D2) V2].
  set (e2 := fst (try_exec (reorder e))) in *.
  destruct (is_bin e2) eqn:Hb2.
  - destruct (and_or_good e2 Hb2 W2) as (R3 & W3 & _ & D3).
    split; [congruence | split; [exact W3|]].
    intros k v Hre. eapply dyn_ok_trans; [|apply D3]. eapply dyn_ok_trans; [|apply D2].
    apply dyn_ok_eq. apply reorder_dyn; assumption.
  - assert (Hid : fst (and_or e2) = e2) by (destruct e2; try discriminate Hb2; reflexivity).
    rewrite Hid. split; [congruence | split; [exact W2|]].
    intros k v Hre. eapply dyn_ok_trans; [|apply D2].
    apply dyn_ok_eq. apply reorder_dyn; assumption.
Qed.

Definition opt_ok (e : expr) : Prop :=
  wt e = true ->
  (rtype (optimize e) = rtype e /\ wt (optimize e) = true /\ shape_ok e (optimize e) /\
   forall k v, pass_exact k v e -> dyn_ok k v e (optimize e)) /\
  (rtype (opt_args e) = rtype e /\ wt (opt_args e) = true /\ shape_ok e (opt_args e) /\
   forall k v, args_exact k v e -> forall a, ev k v e = Ok a -> ev k v (opt_args e) = Ok a).

Lemma opt_ok_trivial e : optimize e = e -> opt_args e = e -> opt_ok e.
Proof.
  intros H1 H2 W. rewrite H1, H2.
  split; (split; [reflexivity | split; [exact W | split; [apply shape_ok_refl|]]]).
  - intros k v _. apply dyn_ok_refl.
  - auto.
Qed.

Lemma call_args_ok k v args :
  Forall opt_ok args -> forallb wt args = true -> Forall (pass_exact k v) args ->
  Forall2 (fun a a' => rtype a' = rtype a /\ dyn_ok k v a a') args (map optimize args).
Proof.
  induction 1 as [|a args Ha Hargs IH]; cbn [forallb map]; intros W HP; [constructor|].
  apply andb_prop in W as [Wa Wargs]. inversion HP as [|? ? Pa Pargs]; subst.
  constructor; [|apply IH; assumption].
  destruct (Ha Wa) as [(R & _ & _ & D) _]. split; [exact R | apply D; exact Pa].
Qed.

Lemma call_args_wt args : Forall opt_ok args -> forallb wt args = true ->
  forallb wt (map optimize args) = true.
Proof.
  induction 1 as [|a args Ha Hargs IH]; cbn [forallb map]; intros W; [reflexivity|].
  apply andb_prop in W as [Wa Wargs].
  destruct (Ha Wa) as [(_ & Wo & _) _]. rewrite Wo, (IH Wargs). reflexivity.
Qed.

Lemma optimize_bin_eq p o l r :
  optimize (EBin p o l r) = finish_bin (EBin p o (opt_args l) (opt_args r)).
Proof. reflexivity. Qed.
Lemma opt_args_bin_eq p o l r : opt_args (EBin p o l r) = EBin p o (opt_args l) (opt_args r).
Proof. reflexivity. Qed.
Lemma optimize_call_eq p n args :
  optimize (ECall p n args) = fst (call_fold p n (map optimize args)).
Proof. reflexivity. Qed.
Lemma opt_args_call_eq p n args : opt_args (ECall p n args) = ECall p n (map optimize args).
Proof. reflexivity. Qed.

Lemma optimize_ok e : opt_ok e.
Proof.
  induction e as [p o e1 e2 IHe1 IHe2| | | |p n args H| | | | | | |] using fold_expr_ind;
    try (apply opt_ok_trivial; reflexivity).
  - (* EBin *)
    intros W. apply wt_bin in W as W'. destruct W' as (Wl & Wr & Hc).
    destruct (IHe1 Wl) as [_ (Rl & Wal & Sl & Dl)].
    destruct (IHe2 Wr) as [_ (Rr & War & Sr & Dr)].
    assert (G : rtype (EBin p o (opt_args e1) (opt_args e2)) = rtype (EBin p o e1 e2) /\
                wt (EBin p o (opt_args e1) (opt_args e2)) = true /\
                forall k v, args_exact k v (EBin p o e1 e2) -> forall a,
                  ev k v (EBin p o e1 e2) = Ok a ->
                  ev k v (EBin p o (opt_args e1) (opt_args e2)) = Ok a).
    { split; [cbn [rtype]; rewrite Rl; reflexivity|].
      split; [cbn [wt]; rewrite Wal, War, Rl, Rr; exact Hc|].
      intros k v [A1 A2] a. apply bin_congr; auto.
      - apply dyn_ok_eq. apply Dl. exact A1.
      - apply dyn_ok_eq. apply Dr. exact A2. }
    destruct G as (G1 & G2 & G3).
    split.
    + rewrite optimize_bin_eq.
      destruct (finish_bin_good (EBin p o (opt_args e1) (opt_args e2)) eq_refl G2) as (F1 & F2 & F3).
      split; [rewrite F1; exact G1 | split; [exact F2 | split; [exact I|]]].
      intros k v (A1 & A2 & Hre). eapply dyn_ok_trans; [|apply F3; exact Hre].
      apply dyn_ok_eq. apply G3. split; assumption.
    + rewrite opt_args_bin_eq. split; [exact G1 | split; [exact G2 | split; [exact I | exact G3]]].
  - (* ECall *)
    intros W. assert (Wargs : forallb wt args = true) by exact W.
    pose proof (call_args_wt args H Wargs) as Wargs'.
    assert (Dcall : forall k v, Forall (pass_exact k v) args -> forall a,
              ev k v (ECall p n args) = Ok a -> ev k v (ECall p n (map optimize args)) = Ok a).
    { intros k v HP a. apply call_congr. apply call_args_ok; assumption. }
    split.
    + rewrite optimize_call_eq.
      destruct (call_fold_good p n (map optimize args) Wargs') as [(R & Wf & Sf & Df) _].
      split; [rewrite R; reflexivity | split; [exact Wf | split]].
      * cbn [shape_ok] in *. intros Hl. apply Sf. exact Hl.
      * intros k v HP. eapply dyn_ok_trans; [|apply Df].
        apply dyn_ok_eq. apply Dcall. apply pass_call_forall. exact HP.
    + rewrite opt_args_call_eq.
      split; [reflexivity | split; [exact Wargs' | split; [cbn [shape_ok]; reflexivity|]]].
      intros k v HP. apply Dcall. apply pass_call_forall. exact HP.
Qed.

(* ------------------------------------------------------------------ the property *)
Notation fold := (fold fo re_match fmt_v).

(* every re-association of a float or mixed chain that Optimize (= optimize twice) performs on
   [e] is exact on the pair (k, v) *)
Definition reassoc_exact (e : expr) (k v : bytes) : Prop :=
  pass_exact k v e /\ pass_exact k v (optimize e).

Theorem fold_preserves_value e k v x :
  wt e = true -> reassoc_exact e k v -> ev k v e = Ok x ->
  exists x', ev k v (fold e) = Ok x' /\ canon_of fo x' = canon_of fo x /\ kind_of x' = kind_of x.
Proof.
  intros W [P1 P2] Hx. unfold Fold.fold.
  destruct (optimize_ok e W) as [(R1 & W1 & _ & D1) _].
  destruct (optimize_ok (optimize e) W1) as [(R2 & W2 & _ & D2) _].
  destruct (D1 k v P1 x Hx) as (x1 & H1 & S1).
  destruct (D2 k v P2 x1 H1) as (x2 & H2 & S2).
  exists x2. pose proof (vsim_trans _ _ _ S1 S2) as S.
  split; [exact H2 | split; [apply vsim_canon; exact S | apply vsim_kind; exact S]].
Qed.

Theorem fold_static e : wt e = true -> rtype (fold e) = rtype e /\ wt (fold e) = true.
Proof.
  intros W. unfold Fold.fold.
  destruct (optimize_ok e W) as [(R1 & W1 & _) _].
  destruct (optimize_ok (optimize e) W1) as [(R2 & W2 & _) _].
  split; [congruence | exact W2].
Qed.

(* a WHERE clause selects the same rows *)
Theorem fold_preserves_filter e k v b :
  wt e = true -> reassoc_exact e k v ->
  filter_row fo re_match k v e = Ok b -> filter_row fo re_match k v (fold e) = Ok b.
Proof.
  intros W P. unfold filter_row.
  destruct (ev k v e) as [x| | |] eqn:Hx; cbn [bind]; try discriminate.
  destruct x; try discriminate. intros H; injection H as <-.
  destruct (fold_preserves_value e k v (VBool b0) W P Hx) as (x' & Hx' & Hc & _).
  rewrite Hx'. cbn [bind]. destruct x'; cbn in Hc; try discriminate Hc.
  injection Hc as ->. reflexivity.
Qed.

End FoldProofs.

(* ------------------------------------------------------------------ the type assertions of the
   Go code cannot fail (the branches the twin marks unreachable are dead) *)
Lemma call_str_is_string fo re_match p n args ret :
  const_eval fo re_match (ECall p n args) = Ok ret -> rtype (ECall p n args) = TStr ->
  exists s, ret = VStr s.
Proof.
  intros H Rt. pose proof (call_kind fo re_match "" "" p n args ret H) as Hk.
  rewrite Rt in Hk. exact Hk.
Qed.

Lemma call_bool_is_bool fo re_match p n args ret :
  const_eval fo re_match (ECall p n args) = Ok ret -> rtype (ECall p n args) = TBool ->
  exists b, ret = VBool b.
Proof.
  intros H Rt. pose proof (call_kind fo re_match "" "" p n args ret H) as Hk.
  rewrite Rt in Hk. exact Hk.
Qed.

(* ------------------------------------------------------------------ witnesses over binary64
   (Base/Flt.prim_fops: Coq's primitive floats; no axiom is used).  Results are compared
   through [canon_res], whose type does not mention the float structure: vm_compute on a goal
   normalises the goal's TYPE as well, and normalising the record prim_fops is very expensive. *)
From Coq Require Import Floats.
From KV Require Import Base.Flt.

Definition re_none (pat text : bytes) : res bool := OutOfModel.

Definition canon_res (r : res (value prim_fops)) : option canon :=
  match r with Ok x => Some (canon_of prim_fops x) | _ => None end.

Notation evp := (eval prim_fops re_none).
Notation foldp := (fold prim_fops re_none pf_fmt_v).

Ltac compute_site P :=
  match type of P with
  | match ?s with Some _ => _ | None => _ end =>
      let t := eval vm_compute in s in change s with t in P; cbv iota beta in P
  end.
Ltac compute_site_goal :=
  match goal with
  | |- match ?s with Some _ => _ | None => _ end =>
      let t := eval vm_compute in s in change s with t; cbv iota beta
  end.
Ltac compute_optimize :=
  match goal with
  | |- context [Fold.optimize prim_fops re_none pf_fmt_v ?e] =>
      let t := eval vm_compute in (Fold.optimize prim_fops re_none pf_fmt_v e) in
      change (Fold.optimize prim_fops re_none pf_fmt_v e) with t
  end.

(* (float(value) + 1.0) + 1.0 *)
Definition d15_expr : expr :=
  EBin 17 OAdd
    (EBin 13 OAdd (ECall 0 (EName 0 "float") [EField 6 ValueKW]) (EFloat 15 "1.0"))
    (EFloat 21 "1.0").

Lemma float_reassoc_refuted_lemma :
  wt d15_expr = true /\
  (exists c c',
     canon_res (evp "k" "1e16" d15_expr) = Some c /\
     canon_res (evp "k" "1e16" (foldp d15_expr)) = Some c' /\
     c' <> c) /\
  ~ reassoc_exact prim_fops re_none pf_fmt_v d15_expr "k" "1e16".
Proof.
  split; [reflexivity|]. split.
  - eexists. eexists. split; [vm_compute; reflexivity|]. split; [vm_compute; reflexivity|].
    discriminate.
  - intros [P _]. unfold d15_expr in P. cbn [pass_exact] in P. destruct P as (_ & _ & P).
    cbn [reorder_exact] in P. destruct P as (_ & _ & P).
    compute_site P. unfold site_exact in P.
    specialize (P (VFlt (fo := prim_fops) 1e16%float) (VFlt (fo := prim_fops) 1%float)
                  (VFlt (fo := prim_fops) 1%float) eq_refl eq_refl eq_refl eq_refl).
    apply (f_equal canon_res) in P. vm_compute in P. discriminate P.
Qed.

(* D14: the literal re-wrapped by the kind of the LEFT operand (the code before the fix)
   turns 3 * 0.5 = 1.5 into the integer literal 1 *)
Lemma rewrap_by_left_kind_refuted_lemma :
  exists ret lit,
    evp "" "" (EBin 2 OMul (ENum 0 "3") (EFloat 4 "0.5")) = Ok ret /\
    rewrap_by_left_kind prim_fops pf_fmt_v (ENum 0 "3") 0 ret = Some lit /\
    lit = ENum 0 "1" /\
    canon_res (Ok ret) = Some (CFlt (pf_bits 1.5%float)) /\
    canon_res (evp "" "" lit) = Some (CInt 1).
Proof.
  exists (VFlt (fo := prim_fops) 1.5%float), (ENum 0 "1").
  split; [reflexivity|]. split; [reflexivity|]. split; [reflexivity|].
  split; vm_compute; reflexivity.
Qed.

(* ---- non-vacuity witnesses *)

(* (int(value) + 1) + 2  on the pair (a, 12) *)
Definition ex_int : expr :=
  EBin 15 OAdd (EBin 11 OAdd (ECall 0 (EName 0 "int") [EField 4 ValueKW]) (ENum 13 "1")) (ENum 17 "2").

Lemma ex_int_lemma :
  wt ex_int = true /\
  reassoc_exact prim_fops re_none pf_fmt_v ex_int "a" "12" /\
  foldp ex_int = EBin 15 OAdd (ECall 0 (EName 0 "int") [EField 4 ValueKW]) (ENum 13 "3") /\
  canon_res (evp "a" "12" ex_int) = Some (CInt 15) /\
  canon_res (evp "a" "12" (foldp ex_int)) = Some (CInt 15).
Proof.
  split; [reflexivity|]. split.
  - split.
    + unfold ex_int. cbn [pass_exact args_exact]. repeat split.
      cbn [reorder_exact]. repeat split. compute_site_goal.
      intros X C1 C2 HX HC1 HC2 Hf.
      assert (E1 : evp "a" "12" (ECall 0 (EName 0 "int") [EField 4 ValueKW]) = Ok (VInt 12)) by reflexivity.
      rewrite E1 in HX. injection HX as <-.
      cbn [eval] in HC1, HC2. injection HC1 as <-. injection HC2 as <-. discriminate Hf.
    + unfold ex_int. compute_optimize. cbn [pass_exact args_exact]. repeat split;
        try (cbn [reorder_exact]; repeat split; try compute_site_goal; exact I).
  - split; [vm_compute; reflexivity|]. split; vm_compute; reflexivity.
Qed.

(* (float(value) * 0.5) * 2.0  on the pair (b, 2.5): a float chain re-associated exactly *)
Definition ex_flt : expr :=
  EBin 21 OMul (EBin 13 OMul (ECall 0 (EName 0 "float") [EField 6 ValueKW]) (EFloat 15 "0.5")) (EFloat 23 "2.0").

Lemma ex_flt_lemma :
  wt ex_flt = true /\
  reassoc_exact prim_fops re_none pf_fmt_v ex_flt "b" "2.5" /\
  foldp ex_flt = EBin 21 OMul (ECall 0 (EName 0 "float") [EField 6 ValueKW]) (EFloat 15 "1") /\
  canon_res (evp "b" "2.5" ex_flt) = Some (CFlt (pf_bits 2.5%float)) /\
  canon_res (evp "b" "2.5" (foldp ex_flt)) = Some (CFlt (pf_bits 2.5%float)).
Proof.
  split; [reflexivity|]. split.
  - split.
    + unfold ex_flt. cbn [pass_exact args_exact]. repeat split.
      cbn [reorder_exact]. repeat split. compute_site_goal.
      intros X C1 C2 HX HC1 HC2 Hf.
      assert (E1 : evp "b" "2.5" (ECall 0 (EName 0 "float") [EField 6 ValueKW])
                   = Ok (VFlt (fo := prim_fops) 2.5%float)) by reflexivity.
      assert (E2 : evp "b" "2.5" (EFloat 15 "0.5") = Ok (VFlt (fo := prim_fops) 0.5%float)) by reflexivity.
      assert (E3 : evp "b" "2.5" (EFloat 23 "2.0") = Ok (VFlt (fo := prim_fops) 2%float)) by reflexivity.
      rewrite E1 in HX. rewrite E2 in HC1. rewrite E3 in HC2.
      injection HX as <-. injection HC1 as <-. injection HC2 as <-. reflexivity.
    + unfold ex_flt. compute_optimize. cbn [pass_exact args_exact]. repeat split;
        try (cbn [reorder_exact]; repeat split; try compute_site_goal; exact I).
  - split; [vm_compute; reflexivity|]. split; vm_compute; reflexivity.
Qed.

(* (c < 2) & (key = 'a') *)
Definition ex_and (c : string) : expr :=
  EBin 8 OAnd (EBin 3 OLt (ENum 1 c) (ENum 5 "2"))
              (EBin 15 OEq (EField 11 KeyKW) (EStr 17 "a")).

Lemma ex_and_lemma :
  wt (ex_and "1") = true /\
  reassoc_exact prim_fops re_none pf_fmt_v (ex_and "1") "a" "12" /\
  foldp (ex_and "1") = EBin 15 OEq (EField 11 KeyKW) (EStr 17 "a") /\
  foldp (ex_and "3") = EBool 1 false /\
  canon_res (evp "a" "12" (ex_and "1")) = Some (CBool true) /\
  canon_res (evp "a" "12" (foldp (ex_and "1"))) = Some (CBool true) /\
  canon_res (evp "a" "12" (ex_and "3")) = Some (CBool false) /\
  canon_res (evp "a" "12" (foldp (ex_and "3"))) = Some (CBool false).
Proof.
  split; [reflexivity|]. split.
  - split.
    + unfold ex_and. cbn [pass_exact args_exact]. repeat split;
        try (cbn [reorder_exact]; repeat split; try compute_site_goal; exact I).
    + unfold ex_and. compute_optimize. cbn [pass_exact args_exact]. repeat split;
        try (cbn [reorder_exact]; repeat split; try compute_site_goal; exact I).
  - repeat split; vm_compute; reflexivity.
Qed.

Lemma ex_d14_lemma :
  foldp (EBin 2 OMul (ENum 0 "3") (EFloat 4 "0.5")) = EFloat 0 "1.5".
Proof. vm_compute. reflexivity. Qed.

(* the typing premise [wt] cannot be dropped: (key + 1) + 2 -- which checker.go rejects: the
   operands of + must be both text or both numbers -- is "k12" on the key "k", and is
   rewritten to key + (1 + 2) = key + 3 = "k3" *)
Definition untyped_expr : expr :=
  EBin 8 OAdd (EBin 4 OAdd (EField 0 KeyKW) (ENum 6 "1")) (ENum 10 "2").

Lemma untyped_refuted_lemma :
  wt untyped_expr = false /\
  foldp untyped_expr = EBin 8 OAdd (EField 0 KeyKW) (ENum 6 "3") /\
  canon_res (evp "k" "v" untyped_expr) = Some (CText "k12") /\
  canon_res (evp "k" "v" (foldp untyped_expr)) = Some (CText "k3").
Proof. repeat split; vm_compute; reflexivity. Qed.
