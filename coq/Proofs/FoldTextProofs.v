(* Proofs/FoldTextProofs.v -- C04 at the level of a STATEMENT: the tree a plan executes,
   FoldStmt.exec_tree T = relink (fold T) (the folder's result with every field reference
   carrying the state the in-place folder left the referenced field object in), evaluates to the
   same value of the same kind as the checked tree T.

   Fold.v's per-tree theorem (FoldProofs.fold_preserves_value) is lifted through references:
     after_pass_ok   the object e after one optimize(e) (operands folded, root kept) evaluates
                     to EXACTLY the value of e (the root operator / function is the same, its
                     operands agree up to the text / []byte representation)
     in_place_ok     the same for the two passes of Optimize
     relink_ok       re-pointing every reference to the in-place state of its definition keeps
                     every value exactly (congruence of evaluation, incl. IN lists / BETWEEN
                     bounds / reference operands of IN, which FoldProofs.bin_congr keeps fixed)
     exec_tree_preserves_lemma   composition with fold_preserves_value.
   Premises: typing (wt) of the tree and of every referenced definition, reassoc_exact (float
   re-association) for the tree and in_place_exact for every referenced definition. *)
From Coq Require Import List String ZArith Bool Arith Lia.
Import ListNotations.
From KV Require Import Base.Bytes Base.Num Base.Flt Model.Ast Model.Value Model.Eval Model.Fold Model.FoldStmt
                       Proofs.AstInd Proofs.FoldProofs.

Section FoldText.
Variable fo : fops.
Variable re_match : bytes -> bytes -> res bool.
Variable fmt_v : F fo -> string.
Hypothesis fmt_v_parses : forall f, f_parse fo (fmt_v f) = PF_ok f.

Notation value := (value fo).
Notation ev := (eval fo re_match).
Notation optimize := (Fold.optimize fo re_match fmt_v).
Notation opt_args := (Fold.opt_args fo re_match fmt_v).
Notation try_exec := (Fold.try_exec fo re_match fmt_v).
Notation call_fold := (Fold.call_fold fo re_match fmt_v).
Notation fold := (Fold.fold fo re_match fmt_v).
Notation after_pass := (FoldStmt.after_pass fo re_match fmt_v).
Notation in_place := (FoldStmt.in_place fo re_match fmt_v).
Notation relink := (FoldStmt.relink fo re_match fmt_v).
Notation exec_tree := (FoldStmt.exec_tree fo re_match fmt_v).
Notation exec_operand := (FoldStmt.exec_operand fo re_match fmt_v).
Notation exec_child := (FoldProofs.exec_child fo re_match fmt_v).
Notation pass_exact := (FoldProofs.pass_exact fo re_match fmt_v).
Notation args_exact := (FoldProofs.args_exact fo re_match fmt_v).
Notation reorder_exact := (FoldProofs.reorder_exact fo re_match).
Notation dyn_ok := (FoldProofs.dyn_ok fo re_match).
Notation good := (FoldProofs.good fo re_match).
Notation opt_ok := (FoldProofs.opt_ok fo re_match fmt_v).

(* exact preservation of the value on one pair *)
Definition keeps (k v : bytes) (e e' : expr) : Prop := forall a, ev k v e = Ok a -> ev k v e' = Ok a.

Lemma keeps_refl k v e : keeps k v e e.
Proof. intros a H; exact H. Qed.
Lemma keeps_trans k v a b c : keeps k v a b -> keeps k v b c -> keeps k v a c.
Proof. intros H1 H2 x Hx. apply H2, H1, Hx. Qed.
Lemma keeps_dyn k v e e' : keeps k v e e' -> dyn_ok k v e e'.
Proof. intros H. apply dyn_ok_eq. exact H. Qed.

(* ------------------------------------------------------------------ after_pass *)
Lemma exec_operand_eq c : exec_operand c = fst (exec_child c).
Proof. destruct c; reflexivity. Qed.

Lemma reorder_is_bin p o l r : exists p' o' tl tr, reorder (EBin p o l r) = EBin p' o' tl tr.
Proof.
  rewrite reorder_eq. destruct (site_of _ _ _) as [[[x c1] c2]|]; eauto.
Qed.

Lemma exec_child_step c : wt c = true -> good c (fst (exec_child c)).
Proof.
  intros W.
  destruct (exec_child_good fo re_match fmt_v fmt_v_parses c
              (try_exec_good fo re_match fmt_v fmt_v_parses c) W) as [G _].
  exact G.
Qed.

Definition same_head (e e' : expr) : Prop :=
  match e with
  | EBin _ _ _ _ => is_bin e' = true
  | ECall _ _ _ => is_call e' = true
  | _ => e' = e
  end.

Lemma same_head_shape e e' : same_head e e' -> shape_ok e e'.
Proof. destruct e; cbn; auto. Qed.

Lemma after_pass_ok e : wt e = true ->
  rtype (after_pass e) = rtype e /\ wt (after_pass e) = true /\ same_head e (after_pass e) /\
  forall k v, pass_exact k v e -> keeps k v e (after_pass e).
Proof.
  intros W. destruct e as [p o l r| | | |p n args| | | | | | |];
    try (split; [reflexivity | split; [exact W | split; [reflexivity | intros; apply keeps_refl]]]).
  - (* EBin *)
    apply wt_bin in W as W'. destruct W' as (Wl & Wr & Hc).
    destruct (optimize_ok fo re_match fmt_v fmt_v_parses l Wl) as [_ (Rl & Wal & Sl & Dl)].
    destruct (optimize_ok fo re_match fmt_v fmt_v_parses r Wr) as [_ (Rr & War & Sr & Dr)].
    set (e0 := EBin p o (opt_args l) (opt_args r)).
    assert (G1 : rtype e0 = rtype (EBin p o l r)) by (unfold e0; cbn [rtype]; rewrite Rl; reflexivity).
    assert (G2 : wt e0 = true) by (unfold e0; cbn [wt]; rewrite Wal, War, Rl, Rr; exact Hc).
    assert (G3 : forall k v, args_exact k v l -> args_exact k v r -> keeps k v (EBin p o l r) e0).
    { intros k v A1 A2 a. unfold e0. apply bin_congr; auto.
      - apply dyn_ok_eq. apply Dl. exact A1.
      - apply dyn_ok_eq. apply Dr. exact A2. }
    destruct (reorder_static e0 G2) as [R1 W1].
    pose proof (fun k v => reorder_dyn fo re_match k v e0 G2) as D1.
    cbn [FoldStmt.after_pass]. fold e0.
    destruct (reorder_is_bin p o (opt_args l) (opt_args r)) as (p' & o' & tl & tr & Ere).
    fold e0 in Ere. rewrite Ere in *.
    apply wt_bin in W1 as W1'. destruct W1' as (Wtl & Wtr & Hc1).
    rewrite !exec_operand_eq.
    destruct (exec_child_step tl Wtl) as (Rtl & Wtl' & _ & Dtl).
    destruct (exec_child_step tr Wtr) as (Rtr & Wtr' & Str & Dtr).
    split; [|split; [|split]].
    + cbn [rtype] in *. rewrite Rtl. congruence.
    + cbn [wt]. rewrite Wtl', Wtr', Rtl, Rtr. exact Hc1.
    + reflexivity.
    + intros k v (A1 & A2 & Hre). eapply keeps_trans; [apply G3; assumption|].
      eapply keeps_trans; [intros a; apply D1; exact Hre|].
      intros a. apply bin_congr; auto.
  - (* ECall *)
    destruct (optimize_ok fo re_match fmt_v fmt_v_parses (ECall p n args) W) as [_ (R & Wa & _ & D)].
    rewrite opt_args_call_eq in *. cbn [FoldStmt.after_pass].
    split; [exact R | split; [exact Wa | split; [reflexivity|]]].
    intros k v HP a. apply D. exact HP.
Qed.

(* ------------------------------------------------------------------ in_place *)
Definition in_place_exact (k v : bytes) (e : expr) : Prop :=
  pass_exact k v e /\ pass_exact k v (after_pass e) /\
  match after_pass e with
  | EBin _ _ l' r' => pass_exact k v l' /\ pass_exact k v r'
  | _ => True
  end.

Lemma in_place_ok e : wt e = true ->
  rtype (in_place e) = rtype e /\ wt (in_place e) = true /\
  forall k v, in_place_exact k v e -> keeps k v e (in_place e).
Proof.
  intros W. destruct (after_pass_ok e W) as (R1 & W1 & _ & D1).
  assert (Base : rtype (after_pass e) = rtype e /\ wt (after_pass e) = true /\
                 forall k v, in_place_exact k v e -> keeps k v e (after_pass e)).
  { split; [exact R1 | split; [exact W1|]]. intros k v (P1 & _). apply D1. exact P1. }
  assert (Twice : rtype (after_pass (after_pass e)) = rtype e /\ wt (after_pass (after_pass e)) = true /\
                 forall k v, in_place_exact k v e -> keeps k v e (after_pass (after_pass e))).
  { destruct (after_pass_ok (after_pass e) W1) as (R2 & W2 & _ & D2).
    split; [congruence | split; [exact W2|]]. intros k v (P1 & P2 & _).
    eapply keeps_trans; [apply D1; exact P1 | apply D2; exact P2]. }
  unfold FoldStmt.in_place.
  destruct (was_folded fo re_match fmt_v e); [exact Base|].
  unfold in_place_exact in *.
  destruct (after_pass e) as [p o l' r'| | | |p n args| | | | | | |] eqn:E1; try exact Base.
  - (* EBin *)
    destruct (negb (op_eqb o OAnd || op_eqb o OOr)); [exact Twice|].
    apply wt_bin in W1 as W1'. destruct W1' as (Wl' & Wr' & Hc).
    destruct (after_pass_ok l' Wl') as (Rl & Wl2 & Hl & Dl).
    destruct (after_pass_ok r' Wr') as (Rr & Wr2 & Hr & Dr).
    assert (Right : rtype (EBin p o l' (after_pass r')) = rtype e /\ wt (EBin p o l' (after_pass r')) = true /\
              forall k v, (pass_exact k v e /\ pass_exact k v (EBin p o l' r') /\ pass_exact k v l' /\ pass_exact k v r') ->
                keeps k v e (EBin p o l' (after_pass r'))).
    { split; [rewrite <- R1; reflexivity|]. split; [cbn [wt]; rewrite Wl', Wr2, Rr; exact Hc|].
      intros k v (P1 & _ & _ & Pr). eapply keeps_trans; [apply D1; exact P1|].
      intros a. apply bin_congr; auto.
      - apply dyn_ok_refl.
      - apply keeps_dyn, Dr, Pr.
      - apply same_head_shape, Hr. }
    assert (Left : rtype (EBin p o (after_pass l') r') = rtype e /\ wt (EBin p o (after_pass l') r') = true /\
              forall k v, (pass_exact k v e /\ pass_exact k v (EBin p o l' r') /\ pass_exact k v l' /\ pass_exact k v r') ->
                keeps k v e (EBin p o (after_pass l') r')).
    { split; [rewrite <- R1; cbn [rtype]; rewrite Rl; reflexivity|].
      split; [cbn [wt]; rewrite Wl2, Wr', Rl; exact Hc|].
      intros k v (P1 & _ & Pl & _). eapply keeps_trans; [apply D1; exact P1|].
      intros a. apply bin_congr; auto.
      - apply keeps_dyn, Dl, Pl.
      - apply dyn_ok_refl.
      - apply shape_ok_refl. }
    destruct (bool_lit l'), (bool_lit r'); try exact Base; try exact Twice.
    + destruct (Bool.eqb (op_eqb o OAnd) b); [exact Right | exact Base].
    + destruct (Bool.eqb (op_eqb o OAnd) b); [exact Left | exact Base].
  - exact Twice.
Qed.

(* ------------------------------------------------------------------ congruence of evaluation
   with EXACT operand values, where the right operand of IN / BETWEEN may change inside *)
Definition item_ok (k v : bytes) (a a' : expr) : Prop :=
  rtype a' = rtype a /\ epos a' = epos a /\ keeps k v a a'.

Definition list_shape (k v : bytes) (r r' : expr) : Prop :=
  match r with
  | EList q items => exists items', r' = EList q items' /\ Forall2 (item_ok k v) items items'
  | ECall _ _ _ => is_call r' = true
  | ERef q s _ => exists d', r' = ERef q s d'
  | _ => True
  end.

Lemma in_list_congr k v lv number items items' b :
  Forall2 (item_ok k v) items items' ->
  in_list fo lv number items (map (ev k v) items) = Ok b ->
  in_list fo lv number items' (map (ev k v) items') = Ok b.
Proof.
  induction 1 as [|it it' items items' (Rt & Ep & Kp) HF IH]; [auto|].
  cbn [in_list map]. rewrite Rt, Ep.
  destruct (negb (ty_eqb (rtype it) _)); [auto|].
  destruct (ev k v it) as [x| | |] eqn:Ex; cbn [bind]; try discriminate.
  rewrite (Kp _ Ex). cbn [bind].
  destruct (if number then _ else _) as [c| | |]; cbn [bind]; try discriminate.
  destruct c; auto.
Qed.

Ltac ev_one k v l Kl :=
  let lv := fresh "lv" in let El := fresh "El" in
  destruct (ev k v l) as [lv| | |] eqn:El; cbn [bind]; try (intros H; discriminate H);
  rewrite (Kl _ El); cbn [bind].

Lemma bin_congr_x k v p o l r l' r' x :
  rtype l' = rtype l -> epos l' = epos l -> keeps k v l l' ->
  rtype r' = rtype r -> epos r' = epos r -> keeps k v r r' -> list_shape k v r r' ->
  ev k v (EBin p o l r) = Ok x -> ev k v (EBin p o l' r') = Ok x.
Proof.
  intros Rl El Kl Rr Er Kr Sh.
  destruct o; cbn [eval]; rewrite ?Rl, ?El, ?Er;
    try (ev_one k v l Kl; ev_one k v r Kr; auto; fail);
    try (destruct (rtype l); ev_one k v l Kl; ev_one k v r Kr; auto; fail);
    try (ev_one k v l Kl; destruct lv; try (intros H; discriminate H);
         destruct b; auto; ev_one k v r Kr; auto; fail).
  - (* OIn *)
    ev_one k v l Kl.
    destruct r; try (intros H; discriminate H); cbn [list_shape] in Sh.
    + (* ECall *)
      destruct r'; try discriminate Sh. rewrite Rr.
      destruct (negb (ty_eqb (rtype (ECall pos r args)) TList)); [auto|].
      rewrite <- Er. cbn [epos].
      ev_one k v (ECall pos r args) Kr. cbn [epos] in Er. rewrite Er. auto.
    + (* ERef *)
      destruct Sh as (d' & ->). rewrite Rr.
      destruct (negb (ty_eqb (rtype (ERef pos name r)) TList)); [auto|].
      ev_one k v (ERef pos name r) Kr. auto.
    + (* EList *)
      destruct Sh as (items' & -> & HF).
      destruct (in_list fo lv _ l0 _) as [b| | |] eqn:Ein; cbn [bind]; try (intros H; discriminate H).
      rewrite (in_list_congr _ _ _ _ _ _ _ HF Ein). auto.
  - (* OBetween *)
    ev_one k v l Kl.
    destruct r; try (intros H; discriminate H); cbn [list_shape] in Sh.
    destruct Sh as (items' & -> & HF).
    destruct l0 as [|lo [|hi [|]]]; try (intros H; discriminate H).
    inversion HF as [|? lo' ? t1 (R1 & E1 & K1) HF1]; subst.
    inversion HF1 as [|? hi' ? t2 (R2 & E2 & K2) HF2]; subst.
    inversion HF2; subst.
    rewrite R1, R2, E1, E2.
    destruct (negb (ty_eqb (rtype lo) _)); [auto|].
    destruct (negb (ty_eqb (rtype hi) _)); [auto|].
    ev_one k v lo K1. ev_one k v hi K2. auto.
Qed.

(* ------------------------------------------------------------------ relink *)
(* [all_refs Q e]: Q holds of the definition of every reference reachable from e (through
   the definitions of references too) *)
Fixpoint all_refs (Q : expr -> Prop) (e : expr) {struct e} : Prop :=
  match e with
  | EBin _ _ l r => all_refs Q l /\ all_refs Q r
  | ENot _ r => all_refs Q r
  | ECall _ _ args =>
      (fix go (l : list expr) : Prop :=
         match l with [] => True | a :: l' => all_refs Q a /\ go l' end) args
  | ERef _ _ d => all_refs Q d /\ Q d
  | EList _ items =>
      (fix go (l : list expr) : Prop :=
         match l with [] => True | a :: l' => all_refs Q a /\ go l' end) items
  | EAccess _ l f => all_refs Q l /\ all_refs Q f
  | _ => True
  end.

Lemma all_refs_list Q l :
  (fix go (l : list expr) : Prop :=
     match l with [] => True | a :: l' => all_refs Q a /\ go l' end) l <-> Forall (all_refs Q) l.
Proof.
  induction l as [|a l IH]; split; intros H; auto.
  - constructor; [apply H | apply IH, H].
  - inversion H; subst. split; [assumption | apply IH; assumption].
Qed.

Lemma all_refs_mono (Q Q' : expr -> Prop) : (forall d, Q d -> Q' d) ->
  forall e, all_refs Q e -> all_refs Q' e.
Proof.
  intros HQ. apply (expr_ind2 (fun e => all_refs Q e -> all_refs Q' e)); cbn [all_refs]; auto.
  - intros p o l r IHl IHr [H1 H2]. auto.
  - intros p n args _ IH H. apply all_refs_list. apply all_refs_list in H.
    rewrite Forall_forall in *. auto.
  - intros p nm d IH [H1 H2]. auto.
  - intros p l IH H. apply all_refs_list. apply all_refs_list in H.
    rewrite Forall_forall in *. auto.
  - intros p l f IHl IHf [H1 H2]. auto.
Qed.

(* the definitions of all references are typed as the checker guarantees *)
Definition refs_wt (e : expr) : Prop := all_refs (fun d => wt d = true) e.

Lemma relink_static : forall e, refs_wt e ->
  rtype (relink e) = rtype e /\ epos (relink e) = epos e /\ (wt e = true -> wt (relink e) = true).
Proof.
  unfold refs_wt.
  apply (expr_ind2 (fun e => all_refs (fun d => wt d = true) e ->
     rtype (relink e) = rtype e /\ epos (relink e) = epos e /\ (wt e = true -> wt (relink e) = true)));
    cbn [all_refs FoldStmt.relink]; try (intros; split; [reflexivity | split; [reflexivity | auto]]; fail).
  - (* EBin *)
    intros p o l r IHl IHr [H1 H2].
    destruct (IHl H1) as (Rl & _ & Wl). destruct (IHr H2) as (Rr & _ & Wr).
    split; [cbn [rtype]; rewrite Rl; reflexivity | split; [reflexivity|]].
    intros W. apply wt_bin in W as (W1 & W2 & Hc). cbn [wt]. rewrite (Wl W1), (Wr W2), Rl, Rr. exact Hc.
  - (* ECall *)
    intros p n args _ IH H. apply all_refs_list in H.
    split; [apply rtype_call | split; [reflexivity|]].
    cbn [wt]. intros W. rewrite forallb_forall in *. intros a' Ha'.
    apply in_map_iff in Ha' as (a & <- & Ha).
    rewrite Forall_forall in IH, H. destruct (IH a Ha (H a Ha)) as (_ & _ & Wa). apply Wa, W, Ha.
  - (* ERef *)
    intros p nm d IH [H1 H2]. destruct (IH H1) as (Rd & _ & Wd).
    destruct (in_place_ok (relink d) (Wd H2)) as (Ri & _).
    split; [cbn [rtype]; congruence | split; [reflexivity | auto]].
Qed.

(* what is asked of every referenced definition d: typed, and the re-associations the folder
   performed on the field object are exact on the pair *)
Definition refs_good (k v : bytes) (e : expr) : Prop :=
  all_refs (fun d => wt d = true /\ in_place_exact k v (relink d)) e.

Lemma refs_good_wt k v e : refs_good k v e -> refs_wt e.
Proof. apply all_refs_mono. intros d [H _]. exact H. Qed.

Lemma relink_items k v (items : list expr) :
  Forall (fun e => refs_good k v e -> keeps k v e (relink e) /\ list_shape k v e (relink e)) items ->
  Forall (refs_good k v) items ->
  Forall2 (item_ok k v) items (map relink items).
Proof.
  induction 1 as [|a l Ha Hl IH]; intros HG; cbn [map]; [constructor|].
  inversion HG as [|? ? Ga Gl]; subst. constructor; [|apply IH; exact Gl].
  destruct (relink_static a (refs_good_wt _ _ _ Ga)) as (R & E & _).
  split; [exact R | split; [exact E | apply Ha; exact Ga]].
Qed.

Lemma relink_ok_strong k v : forall e, refs_good k v e ->
  keeps k v e (relink e) /\ list_shape k v e (relink e).
Proof.
  apply (expr_ind2 (fun e => refs_good k v e -> keeps k v e (relink e) /\ list_shape k v e (relink e)));
    try (intros; split; [apply keeps_refl | exact I]; fail).
  - (* EBin *)
    intros p o l r IHl IHr H. pose proof H as [H1 H2]. cbn [FoldStmt.relink].
    destruct (relink_static l (refs_good_wt _ _ _ H1)) as (Rl & El & _).
    destruct (relink_static r (refs_good_wt _ _ _ H2)) as (Rr & Er & _).
    destruct (IHl H1) as [Kl _]. destruct (IHr H2) as [Kr Sr].
    split; [|exact I]. intros a. apply bin_congr_x; auto.
  - (* ENot *)
    intros p r IH H. cbn [FoldStmt.relink]. split; [|exact I].
    destruct (IH H) as [Kr _].
    destruct (relink_static r (refs_good_wt _ _ _ H)) as (_ & Er & _).
    intros a. cbn [eval]. rewrite Er.
    destruct (ev k v r) as [rv| | |] eqn:E1; cbn [bind]; try discriminate.
    rewrite (Kr _ E1). auto.
  - (* ECall *)
    intros p n args _ IH H. cbn [FoldStmt.relink]. split; [|reflexivity].
    unfold refs_good in H. cbn [all_refs] in H. apply all_refs_list in H.
    intros a. apply call_congr.
    pose proof (relink_items k v args IH H) as HF.
    clear -HF. induction HF as [|x x' l l' (R & _ & K) _ IH2]; constructor; [|exact IH2].
    split; [exact R | apply keeps_dyn; exact K].
  - (* ERef *)
    intros p nm d IH H. pose proof H as [H1 [H2 H3]]. cbn [FoldStmt.relink].
    split; [|cbn [list_shape]; eauto].
    destruct (IH H1) as [Kd _].
    destruct (relink_static d (refs_good_wt _ _ _ H1)) as (_ & _ & Wd).
    destruct (in_place_ok (relink d) (Wd H2)) as (_ & _ & Di).
    intros a. cbn [eval]. intros Ha. apply Di; [exact H3 | apply Kd; exact Ha].
  - (* EList *)
    intros p l IH H. cbn [FoldStmt.relink].
    unfold refs_good in H. cbn [all_refs] in H. apply all_refs_list in H.
    split.
    + intros a. cbn [eval]. rewrite map_length. auto.
    + cbn [list_shape]. eexists; split; [reflexivity|]. apply relink_items; assumption.
  - (* EAccess *)
    intros p l f IHl IHf H. pose proof H as [H1 H2]. cbn [FoldStmt.relink]. split; [|exact I].
    destruct (IHl H1) as [Kl _].
    destruct (relink_static l (refs_good_wt _ _ _ H1)) as (_ & El & _).
    intros a. cbn [eval]. rewrite El.
    destruct (ev k v l) as [lv| | |] eqn:E1; cbn [bind]; try discriminate.
    rewrite (Kl _ E1). cbn [bind].
    destruct f; cbn [FoldStmt.relink]; auto; cbn [epos]; auto.
Qed.

Lemma relink_ok k v e : refs_good k v e -> keeps k v e (relink e).
Proof. intros H. apply relink_ok_strong. exact H. Qed.

(* ------------------------------------------------------------------ the tree a plan executes *)
Theorem exec_tree_preserves_lemma e k v x :
  wt e = true -> reassoc_exact fo re_match fmt_v e k v -> refs_good k v (fold e) ->
  ev k v e = Ok x ->
  exists x', ev k v (exec_tree e) = Ok x' /\
             canon_of fo x' = canon_of fo x /\ FoldProofs.kind_of fo x' = FoldProofs.kind_of fo x.
Proof.
  intros W P G Hx.
  destruct (fold_preserves_value fo re_match fmt_v fmt_v_parses e k v x W P Hx) as (x' & Hx' & Hc & Hk).
  exists x'. split; [|split; assumption].
  unfold FoldStmt.exec_tree. apply relink_ok; assumption.
Qed.

Theorem exec_tree_static_lemma e :
  wt e = true -> refs_wt (fold e) ->
  rtype (exec_tree e) = rtype e /\ wt (exec_tree e) = true.
Proof.
  intros W G. destruct (fold_static fo re_match fmt_v fmt_v_parses e W) as [R1 W1].
  destruct (relink_static (fold e) G) as (R2 & _ & W2).
  unfold FoldStmt.exec_tree. split; [congruence | auto].
Qed.

Theorem exec_tree_filter_lemma e k v b :
  wt e = true -> reassoc_exact fo re_match fmt_v e k v -> refs_good k v (fold e) ->
  filter_row fo re_match k v e = Ok b -> filter_row fo re_match k v (exec_tree e) = Ok b.
Proof.
  intros W P G. unfold filter_row.
  destruct (ev k v e) as [x| | |] eqn:Hx; cbn [bind]; try discriminate.
  destruct x; try discriminate. intros H; injection H as <-.
  destruct (exec_tree_preserves_lemma e k v (VBool b0) W P G Hx) as (x' & Hx' & Hc & _).
  rewrite Hx'. cbn [bind]. destruct x'; cbn in Hc; try discriminate Hc.
  injection Hc as ->. reflexivity.
Qed.

End FoldText.

(* ------------------------------------------------------------------ non-vacuity: the statement
     select int(value) + (1 + 2) as x, key where x > 2 - 1
   The WHERE tree refers to the field x.  The folder rewrites the field OBJECT in place to
   int(value) + 3 (operand folded, root kept) and the WHERE tree to x > 1; the filter executes
   exec_tree = (ref x -> int(value) + 3) > 1. *)
Definition ex_def : expr :=
  EBin 18 OAdd (ECall 7 (EName 7 "int") [EField 11 ValueKW]) (EBin 23 OAdd (ENum 21 "1") (ENum 25 "2")).
Definition ex_where : expr :=
  EBin 45 OGt (ERef 43 "x" ex_def) (EBin 49 OSub (ENum 47 "2") (ENum 51 "1")).

Ltac norm_fold_terms :=
  repeat match goal with
  | |- context [Fold.opt_args prim_fops re_none pf_fmt_v ?e] =>
      let t := eval vm_compute in (Fold.opt_args prim_fops re_none pf_fmt_v e) in
      change (Fold.opt_args prim_fops re_none pf_fmt_v e) with t
  | |- context [Fold.optimize prim_fops re_none pf_fmt_v ?e] =>
      let t := eval vm_compute in (Fold.optimize prim_fops re_none pf_fmt_v e) in
      change (Fold.optimize prim_fops re_none pf_fmt_v e) with t
  | |- context [FoldStmt.after_pass prim_fops re_none pf_fmt_v ?e] =>
      let t := eval vm_compute in (FoldStmt.after_pass prim_fops re_none pf_fmt_v e) in
      change (FoldStmt.after_pass prim_fops re_none pf_fmt_v e) with t
  | |- context [FoldStmt.relink prim_fops re_none pf_fmt_v ?e] =>
      let t := eval vm_compute in (FoldStmt.relink prim_fops re_none pf_fmt_v e) in
      change (FoldStmt.relink prim_fops re_none pf_fmt_v e) with t
  | |- context [Fold.fold prim_fops re_none pf_fmt_v ?e] =>
      let t := eval vm_compute in (Fold.fold prim_fops re_none pf_fmt_v e) in
      change (Fold.fold prim_fops re_none pf_fmt_v e) with t
  end.

(* all re-association sites are absent (site_of = None): the premises are conjunctions of True *)
Ltac no_sites :=
  repeat (first [ exact I | split | compute_site_goal
                | progress cbn [pass_exact args_exact reorder_exact]
                | progress norm_fold_terms ]).

Lemma ex_text_lemma :
  wt ex_where = true /\
  reassoc_exact prim_fops re_none pf_fmt_v ex_where "a" "12" /\
  refs_good prim_fops re_none pf_fmt_v "a" "12" (Fold.fold prim_fops re_none pf_fmt_v ex_where) /\
  FoldStmt.exec_tree prim_fops re_none pf_fmt_v ex_where =
    EBin 45 OGt
      (ERef 43 "x" (EBin 18 OAdd (ECall 7 (EName 7 "int") [EField 11 ValueKW]) (ENum 21 "3")))
      (ENum 47 "1") /\
  canon_res (eval prim_fops re_none "a" "12" ex_where) = Some (CBool true) /\
  canon_res (eval prim_fops re_none "a" "12" (FoldStmt.exec_tree prim_fops re_none pf_fmt_v ex_where)) =
    Some (CBool true).
Proof.
  split; [reflexivity|]. split; [|split].
  - unfold reassoc_exact, ex_where, ex_def. no_sites.
  - unfold ex_where, ex_def. norm_fold_terms. unfold refs_good. cbn [all_refs].
    unfold in_place_exact. no_sites.
  - split; [vm_compute; reflexivity|]. split; vm_compute; reflexivity.
Qed.
