(* Proofs/FuelEnoughProofs.v -- THE FUEL OF THE DRAIN TWINS SUFFICES (C06 / C03 leftover of agent MP).

   The drain loops of Model/ScanProj.v, Model/LimitLazy.v, Model/AggregateLazy.v and the glue of
   Model/SelectPlans.v answer [OutOfModel] when their fuel runs out -- the same outcome an
   evaluator twin uses for a value outside the model.  This file proves that the fuel outcome is
   never produced: predicate [nf Q r] ("r is not OutOfModel, and a returned value satisfies Q");
   if the functions a node is GIVEN never answer OutOfModel, the node does not either, for the
   fuel the definitions pass (|slots| + 1 for the scan / projection / aggregate-prepare drains,
   count + 1 for FinalLimitPlan.Next, Start - skips + 1 and PlanBatchSize + 1 for the two loops of
   FinalLimitPlan.Batch, |slots| + 2 resp. |rows| + 2 for the Batch drains over a limit node).
   Each loop has its own measure: the slots left, count - current, Start - skips,
   PlanBatchSize - count, and for a pulled child an abstract measure [mu] that no call increases
   and every non-empty batch decreases. *)
From Coq Require Import List String ZArith Bool Arith Lia.
Import ListNotations.
From KV Require Import Base.Bytes Model.Ast Model.Value Model.Eval Model.EvalVec Model.ScanProj
                       Model.LimitLazy Model.AggregateLazy Model.SelectPlans.
From KV Require Model.Limit Model.Order Model.Aggregate Spec.Group.
From KV Require Import Proofs.LimitProofs.
Local Open Scope nat_scope.
Local Open Scope list_scope.

(* [r] is not the out-of-model outcome, and a returned value satisfies [Q] *)
Definition nf {A} (Q : A -> Prop) (r : res A) : Prop :=
  match r with Ok a => Q a | OutOfModel => False | _ => True end.

Definition anyv {A} : A -> Prop := fun _ => True.

Lemma nf_bind {A B} (QA : A -> Prop) (QB : B -> Prop) (r : res A) (k : A -> res B) :
  nf QA r -> (forall a, QA a -> nf QB (Value.bind r k)) -> nf QB (Value.bind r k).
Proof. intros H Hk. destruct r; cbn [Value.bind nf] in *; auto. apply (Hk a H). Qed.

Lemma nf_bind' {A B} (QA : A -> Prop) (QB : B -> Prop) (r : res A) (k : A -> res B) :
  nf QA r -> (forall a, QA a -> nf QB (k a)) -> nf QB (Value.bind r k).
Proof. intros H Hk. destruct r; cbn [Value.bind nf] in *; auto. Qed.

Lemma nf_weaken {A} (Q Q' : A -> Prop) (r : res A) : (forall a, Q a -> Q' a) -> nf Q r -> nf Q' r.
Proof. intros H. destruct r; cbn [nf]; auto. Qed.

Lemma nf_not_oom {A} (Q : A -> Prop) (r : res A) : nf Q r -> r <> OutOfModel.
Proof. destruct r; cbn [nf]; intros H; try discriminate. contradiction. Qed.

Lemma not_oom_nf {A} (r : res A) : r <> OutOfModel -> nf anyv r.
Proof. destruct r; cbn [nf]; unfold anyv; auto. Qed.

(* ================================================================ Model/ScanProj.v *)
Ltac sl := unfold slot in *; lia.

Section ScanNodes.
Variables (P R : Type).
Variable frow : P -> res bool.
Variable fbatch : list P -> res (list bool).
Variable prow : P -> res R.
Variable pbatch : list P -> res (list R).
Hypothesis Hfrow : forall kv, nf anyv (frow kv).
Hypothesis Hfbatch : forall ch, nf anyv (fbatch ch).
Hypothesis Hprow : forall kv, nf anyv (prow kv).
Hypothesis Hpbatch : forall ch, nf anyv (pbatch ch).

Definition next_post {X} (rest : list (option P)) (r : option X * list (option P)) : Prop :=
  List.length (snd r) <= List.length rest /\ (fst r <> None -> List.length (snd r) < List.length rest).

Lemma nf_scan_next : forall rest, nf (next_post rest) (scan_next frow rest).
Proof.
  induction rest as [|[kv|] rest IH]; cbn [scan_next].
  - hnf; cbn [fst snd List.length]. split; [sl|]. intros H; congruence.
  - apply nf_bind' with (QA := anyv); [apply Hfrow|]. intros ok _. destruct ok.
    + hnf; cbn [fst snd List.length]. split; sl.
    + eapply nf_weaken; [|exact IH]. unfold next_post. cbn [List.length]. intros a [H1 H2]. split; [sl|].
      intros H. specialize (H2 H). sl.
  - eapply nf_weaken; [|exact IH]. unfold next_post. cbn [List.length]. intros a [H1 H2]. split; [sl|].
    intros H. specialize (H2 H). sl.
Qed.

Lemma nf_proj_next rest : nf (next_post rest) (proj_next frow prow rest).
Proof.
  unfold proj_next. apply nf_bind' with (QA := next_post rest); [apply nf_scan_next|].
  intros [[kv|] rest'] [H1 H2]; cbn [fst snd] in *.
  - apply nf_bind' with (QA := anyv); [apply Hprow|]. intros row _. hnf; cbn [fst snd List.length]. split; [sl|].
    intros _. apply H2. discriminate.
  - hnf; cbn [fst snd List.length]. split; [sl|]. congruence.
Qed.

Lemma nf_drain_row_fuel : forall fuel rest, List.length rest < fuel -> nf anyv (drain_row_fuel frow prow fuel rest).
Proof.
  induction fuel as [|f IH]; intros rest Hf; [sl|]. cbn [drain_row_fuel].
  apply nf_bind' with (QA := next_post rest); [apply nf_proj_next|].
  intros [[row|] rest'] [H1 H2]; cbn [fst snd] in *; [|exact I].
  apply nf_bind' with (QA := anyv); [|intros; exact I].
  apply IH. specialize (H2 ltac:(discriminate)). sl.
Qed.

Lemma nf_drain_row rest : nf anyv (drain_row frow prow rest).
Proof. apply nf_drain_row_fuel. sl. Qed.

Lemma nf_select_matches : forall (ms : list bool) (chunk : list P), nf anyv (select_matches chunk ms).
Proof.
  induction ms as [|m ms IH]; intros chunk; cbn [select_matches]; [destruct chunk; exact I|].
  destruct chunk as [|kv chunk]; [exact I|].
  apply nf_bind' with (QA := anyv); [apply IH|]. intros; exact I.
Qed.

Definition batch_post (rest : list (option P)) (ret : list P) (r : list P * list (option P)) : Prop :=
  List.length (snd r) <= List.length rest /\ (fst r = ret \/ List.length (snd r) < List.length rest).

Lemma nf_scan_batch_loop B : 1 <= B -> forall fuel rest ret, List.length rest < fuel ->
  nf (batch_post rest ret) (scan_batch_loop fbatch fuel B rest ret).
Proof.
  intros HB. induction fuel as [|f IH]; intros rest ret Hf; [sl|]. cbn [scan_batch_loop]. unfold slot in *.
  assert (Hsk : List.length (skipn B rest) <= List.length rest) by (rewrite skipn_length; sl).
  destruct (somes (firstn B rest)) as [|kv0 ch] eqn:Ech.
  - destruct (Nat.ltb_spec (List.length rest) B) as [He|He].
    + hnf; cbn [fst snd List.length]. split; [exact Hsk|]. left; reflexivity.
    + assert (Hlt : List.length (skipn B rest) < List.length rest) by (rewrite skipn_length; sl).
      eapply nf_weaken; [|apply IH; sl]. unfold batch_post. intros a [H1 H2]. split; [sl|].
      destruct H2; [left; assumption | right; sl].
  - assert (Hne : rest <> []).
    { intros ->. rewrite firstn_nil in Ech. discriminate. }
    assert (Hlt : List.length (skipn B rest) < List.length rest).
    { rewrite skipn_length. destruct rest; [congruence|]. cbn [List.length]. sl. }
    apply nf_bind' with (QA := anyv); [apply Hfbatch|]. intros ms _.
    apply nf_bind' with (QA := anyv); [apply nf_select_matches|]. intros sel _.
    destruct (Nat.ltb (List.length rest) B || Nat.leb B (List.length (ret ++ sel))).
    + hnf; cbn [fst snd List.length]. split; [sl|]. right; exact Hlt.
    + eapply nf_weaken; [|apply IH; sl]. unfold batch_post. intros a [H1 H2]. split; [sl|]. right. sl.
Qed.

Lemma nf_scan_batch B rest : 1 <= B -> nf (batch_post rest []) (scan_batch fbatch B rest).
Proof. intros HB. apply nf_scan_batch_loop; [exact HB | sl]. Qed.

(* a Batch call of the projection: the slots never grow; a non-empty batch consumed a slot *)
Definition pb_post {X} (rest : list (option P)) (r : list X * list (option P)) : Prop :=
  List.length (snd r) <= List.length rest /\ (fst r <> [] -> List.length (snd r) < List.length rest).

Lemma nf_proj_batch B rest : 1 <= B -> nf (pb_post rest) (proj_batch fbatch pbatch B rest).
Proof.
  intros HB. unfold proj_batch. apply nf_bind' with (QA := batch_post rest []); [apply nf_scan_batch; exact HB|].
  intros [kvs rest'] [H1 H2]; cbn [fst snd] in *. destruct kvs as [|kv kvs].
  - hnf; cbn [fst snd List.length]. split; [exact H1|]. congruence.
  - apply nf_bind' with (QA := anyv); [apply Hpbatch|]. intros rows _. hnf; cbn [fst snd List.length]. split; [exact H1|].
    intros _. destruct H2 as [H2|H2]; [discriminate | exact H2].
Qed.

Lemma nf_drain_batch_fuel B : 1 <= B -> forall fuel rest, List.length rest < fuel ->
  nf anyv (drain_batch_fuel fbatch pbatch fuel B rest).
Proof.
  intros HB. induction fuel as [|f IH]; intros rest Hf; [sl|]. cbn [drain_batch_fuel].
  apply nf_bind' with (QA := pb_post rest); [apply nf_proj_batch; exact HB|].
  intros [rows rest'] [H1 H2]; cbn [fst snd] in *. destruct rows as [|r rows]; [exact I|].
  apply nf_bind' with (QA := anyv); [|intros; exact I].
  apply IH. specialize (H2 ltac:(discriminate)). sl.
Qed.

Lemma nf_drain_batch B rest : 1 <= B -> nf anyv (drain_batch fbatch pbatch B rest).
Proof. intros HB. apply nf_drain_batch_fuel; [exact HB | unfold lt; apply le_n]. Qed.

End ScanNodes.

(* ================================================================ Model/AggregateLazy.v: prepare / prepareBatch *)
Section AggDrains.
Variables (P R T : Type).
Variable frow : P -> res bool.
Variable fbatch : list P -> res (list bool).
Variable orow : T -> P -> res (R * T).
Variable obatch : T -> list P -> res (list R * T).
Hypothesis Hfrow : forall kv, nf anyv (frow kv).
Hypothesis Hfbatch : forall ch, nf anyv (fbatch ch).
Hypothesis Horow : forall t kv, nf anyv (orow t kv).
Hypothesis Hobatch : forall t ch, nf anyv (obatch t ch).

Lemma nf_sdrain_row_fuel : forall fuel t rest, List.length rest < fuel ->
  nf anyv (sdrain_row_fuel frow orow fuel t rest).
Proof.
  induction fuel as [|f IH]; intros t rest Hf; [sl|]. cbn [sdrain_row_fuel].
  apply nf_bind' with (QA := next_post P rest); [apply nf_scan_next; exact Hfrow|].
  intros [[kv|] rest'] [H1 H2]; cbn [fst snd] in *; [|exact I].
  apply nf_bind' with (QA := anyv); [apply Horow|]. intros ot _.
  apply nf_bind' with (QA := anyv); [|intros; exact I].
  apply IH. specialize (H2 ltac:(discriminate)). sl.
Qed.

Lemma nf_sdrain_row t rest : nf anyv (sdrain_row frow orow t rest).
Proof. apply nf_sdrain_row_fuel. unfold lt; apply le_n. Qed.

Lemma nf_sdrain_batch_fuel B : 1 <= B -> forall fuel t rest, List.length rest < fuel ->
  nf anyv (sdrain_batch_fuel fbatch obatch fuel B t rest).
Proof.
  intros HB. induction fuel as [|f IH]; intros t rest Hf; [sl|]. cbn [sdrain_batch_fuel].
  apply nf_bind' with (QA := batch_post P rest []); [apply nf_scan_batch; [exact Hfbatch | exact HB]|].
  intros [kvs rest'] [H1 H2]; cbn [fst snd] in *. destruct kvs as [|kv kvs]; [exact I|].
  apply nf_bind' with (QA := anyv); [apply Hobatch|]. intros ot _.
  apply nf_bind' with (QA := anyv); [|intros; exact I].
  apply IH. destruct H2 as [H2|H2]; [discriminate | sl].
Qed.

Lemma nf_sdrain_batch B t rest : 1 <= B -> nf anyv (sdrain_batch fbatch obatch B t rest).
Proof. intros HB. apply nf_sdrain_batch_fuel; [exact HB | unfold lt; apply le_n]. Qed.

End AggDrains.

(* ================================================================ Model/LimitLazy.v *)
Section LimitNodes.
Variables (S A : Type).
Variable cnext : S -> res (option A * S).
Variable cbatch : S -> res (list A * S).
Variable mu : S -> nat.                         (* what the child has left, at most *)
Definition cb_post (s : S) (r : list A * S) : Prop :=
  mu (snd r) <= mu s /\ (fst r <> [] -> mu (snd r) < mu s).
Hypothesis Hnext : forall s, nf anyv (cnext s).
Hypothesis Hbatch : forall s, nf (cb_post s) (cbatch s).

Lemma nf_lskip : forall n s, nf anyv (lskip cnext n s).
Proof.
  induction n as [|n IH]; intros s; cbn [lskip]; [exact I|].
  apply nf_bind' with (QA := anyv); [apply Hnext|]. intros [[a|] s'] _; [|exact I].
  apply nf_bind' with (QA := anyv); [apply IH|]. intros [[k e] s''] _. exact I.
Qed.

(* a returned row increments current, and was asked for below count *)
Definition ln_post (count : nat) (st : Limit.lstate) (r : option A * Limit.lstate * S) : Prop :=
  match fst (fst r) with
  | Some _ => Limit.current st < count /\ Limit.current (snd (fst r)) = Datatypes.S (Limit.current st)
  | None => True
  end.

Lemma nf_lnext start count st s : nf (ln_post count st) (lnext cnext start count st s).
Proof.
  unfold lnext. apply nf_bind' with (QA := anyv); [apply nf_lskip|]. intros [[k ended] s1] _.
  destruct ended; [exact I|].
  destruct (Nat.leb_spec count (Limit.current st)) as [Hc|Hc]; [exact I|].
  apply nf_bind' with (QA := anyv); [apply Hnext|]. intros [[row|] s2] _; [|exact I].
  hnf; cbn [fst snd List.length]. split; [exact Hc | reflexivity].
Qed.

Lemma nf_ldrain_row_fuel start count : forall fuel st s, count - Limit.current st < fuel ->
  nf anyv (ldrain_row_fuel cnext fuel start count st s).
Proof.
  induction fuel as [|f IH]; intros st s Hf; [lia|]. cbn [ldrain_row_fuel].
  apply nf_bind' with (QA := ln_post count st); [apply nf_lnext|].
  intros [[[row|] st'] s'] H; cbn in H; [|exact I].
  apply nf_bind' with (QA := anyv); [|intros; exact I]. apply IH. lia.
Qed.

Lemma nf_ldrain_row start count s : nf anyv (ldrain_row cnext start count s).
Proof. apply nf_ldrain_row_fuel. cbn. lia. Qed.

Definition sk_post (s : S) (r : option (list A) * nat * S) : Prop :=
  mu (snd r) <= mu s /\ (forall rows, fst (fst r) = Some rows -> rows <> [] -> mu (snd r) < mu s).

Lemma nf_lskip_batch start : forall fuel sk s, start - sk < fuel ->
  nf (sk_post s) (lskip_batch cbatch fuel start sk s).
Proof.
  induction fuel as [|f IH]; intros sk s Hf; [lia|]. cbn [lskip_batch].
  destruct (Nat.ltb_spec sk start) as [Hlt|Hge].
  - apply nf_bind' with (QA := cb_post s); [apply Hbatch|]. intros [b s'] [H1 H2]; cbn [fst snd] in *.
    destruct (Nat.eqb_spec (List.length b) 0) as [E0|E0].
    + hnf; cbn [fst snd List.length]. split; [exact H1|]. intros rows H; discriminate.
    + assert (Hb : b <> []) by (intros ->; apply E0; reflexivity). specialize (H2 Hb).
      destruct (Nat.leb_spec (List.length b) (start - sk)) as [Hle|Hgt].
      * eapply nf_weaken; [|apply IH; lia]. unfold sk_post. intros a [G1 G2]. split; [lia|].
        intros rows Hr Hn. specialize (G2 rows Hr Hn). lia.
      * hnf; cbn [fst snd List.length]. split; [lia|]. intros; lia.
  - hnf; cbn [fst snd List.length]. split; [lia|]. intros rows H Hn. inversion H; subst. congruence.
Qed.

Definition fill_post (s : S) (ret : list A) (r : list A * nat * S) : Prop :=
  mu (snd r) <= mu s /\ (fst (fst r) <> ret -> mu (snd r) < mu s).

Lemma nf_lfill B : forall fuel count cur ret cnt s, cur < count -> B - cnt < fuel ->
  nf (fill_post s ret) (lfill cbatch fuel B count cur ret cnt s).
Proof.
  induction fuel as [|f IH]; intros count cur ret cnt s Hc Hf; [lia|]. cbn [lfill].
  apply nf_bind' with (QA := cb_post s); [apply Hbatch|]. intros [b s'] [H1 H2]; cbn [fst snd] in *.
  destruct (Nat.eqb_spec (List.length b) 0) as [E0|E0].
  - hnf; cbn [fst snd List.length]. split; [exact H1|]. congruence.
  - assert (Hb : b <> []) by (intros ->; apply E0; reflexivity). specialize (H2 Hb).
    assert (Hn : 1 <= List.length b) by lia.
    rewrite (take_fill_spec b ret cnt Hc).
    destruct (Nat.leb_spec count (cur + List.length b)) as [Hfin|Hnf].
    + hnf; cbn [fst snd List.length]. split; lia.
    + destruct (Nat.leb_spec B (cnt + Nat.min (count - cur) (List.length b))) as [Hfull|Hmore].
      * hnf; cbn [fst snd List.length]. split; lia.
      * eapply nf_weaken; [|apply IH; lia]. unfold fill_post. intros a [G1 G2]. split; lia.
Qed.

Definition lb_post (s : S) (r : list A * Limit.lstate * S) : Prop :=
  mu (snd r) <= mu s /\ (fst (fst r) <> [] -> mu (snd r) < mu s).

Lemma list_nil_dec (l : list A) : {l = []} + {l <> []}.
Proof. destruct l; [left; reflexivity | right; discriminate]. Qed.

Lemma nf_lbatch B start count st s : nf (lb_post s) (lbatch cbatch B start count st s).
Proof.
  unfold lbatch.
  apply nf_bind' with (QA := sk_post s); [apply nf_lskip_batch; lia|].
  intros [[[rows|] sk] s1] [H1 H2]; cbn [fst snd] in *.
  - rewrite take_left_spec. cbn [app].
    destruct (Nat.leb_spec count (Limit.current st + Nat.min (count - Limit.current st) (List.length rows))) as [Hc|Hc].
    + hnf; cbn [fst snd List.length]. split; [exact H1|]. intros Ho. apply (H2 rows eq_refl). intros ->. rewrite firstn_nil in Ho. congruence.
    + apply nf_bind' with (QA := fill_post s1 (firstn (count - Limit.current st) rows)); [apply nf_lfill; lia|].
      intros [[ret' cur'] s2] [G1 G2]; cbn [fst snd] in *. hnf; cbn [fst snd]. split; [lia|]. intros Ho.
      destruct (list_nil_dec rows) as [->|Hr].
      * rewrite firstn_nil in G2. specialize (G2 Ho). lia.
      * specialize (H2 rows eq_refl Hr). lia.
  - hnf; cbn [fst snd List.length]. split; [exact H1|]. congruence.
Qed.

Lemma nf_ldrain_batch_fuel B start count : forall fuel st s, mu s < fuel ->
  nf anyv (ldrain_batch_fuel cbatch fuel B start count st s).
Proof.
  induction fuel as [|f IH]; intros st s Hf; [lia|]. cbn [ldrain_batch_fuel].
  apply nf_bind' with (QA := lb_post s); [apply nf_lbatch|].
  intros [[out st'] s'] [H1 H2]; cbn [fst snd] in *. destruct out as [|r out]; [exact I|].
  apply nf_bind' with (QA := anyv); [|intros; exact I]. apply IH.
  specialize (H2 ltac:(discriminate)). lia.
Qed.

End LimitNodes.

(* ================================================================ Model/AggregateLazy.v: completing the rows *)
Section AggFinish.
Variable F : Type.
Variable fadd fsub fmul fdiv : F -> F -> F.
Variable fltb : F -> F -> bool.
Variable fis0 : F -> bool.
Variable of_Z : Z -> F.
Variable to_Z : F -> Z.
Variable fmt_f bits_f : F -> bytes.
Variable json_f : F -> option bytes.
Variable parse_f : bytes -> option F.
Variable json_s : bytes -> bytes.

Lemma nf_exec_res {A} (o : option A) : nf anyv (exec_res o).
Proof. destruct o; exact I. Qed.

Lemma nf_anext rows : nf anyv (anext fadd fsub fmul fdiv fis0 of_Z json_f json_s rows).
Proof.
  destruct rows as [|kr rest]; cbn [anext]; [exact I|].
  apply nf_bind' with (QA := anyv); [apply nf_exec_res|]. intros; exact I.
Qed.

Lemma nf_abatch B rows : 1 <= B ->
  nf (cb_post _ _ (@List.length _) rows) (abatch fadd fsub fmul fdiv fis0 of_Z json_f json_s B rows).
Proof.
  intros HB. destruct rows as [|kr rest]; cbn [abatch].
  - hnf; cbn [fst snd]. split; [lia|]. congruence.
  - apply nf_bind' with (QA := anyv); [apply nf_exec_res|]. intros rs _. hnf; cbn [fst snd].
    rewrite skipn_length. cbn [List.length]. split; lia.
Qed.

Lemma nf_adrain_row p rows : nf anyv (adrain_row fadd fsub fmul fdiv fis0 of_Z json_f json_s p rows).
Proof.
  unfold adrain_row. destruct (Group.pl_limit p); [|apply nf_exec_res].
  apply nf_ldrain_row. intros s. apply nf_anext.
Qed.

Lemma nf_adrain_batch p B rows : 1 <= B ->
  nf anyv (adrain_batch fadd fsub fmul fdiv fis0 of_Z json_f json_s p B rows).
Proof.
  intros HB. unfold adrain_batch. destruct (Group.pl_limit p); [|apply nf_exec_res].
  apply nf_bind' with (QA := anyv); [|intros; exact I].
  apply nf_ldrain_batch_fuel with (mu := @List.length _); [intros s; apply nf_abatch; exact HB | lia].
Qed.

Lemma nf_lrun_row p pairs :
  nf anyv (lrun_row fadd fsub fmul fdiv fltb fis0 of_Z to_Z fmt_f bits_f json_f parse_f json_s p pairs).
Proof. apply nf_adrain_row. Qed.

Lemma nf_lrun_batch p B chunks : 1 <= B ->
  nf anyv (lrun_batch fadd fsub fmul fdiv fltb fis0 of_Z to_Z fmt_f bits_f json_f parse_f json_s p B chunks).
Proof. apply nf_adrain_batch. Qed.

End AggFinish.

(* ================================================================ Model/SelectPlans.v: FinalOrderPlan over a child *)
Section OrderNodes.
Variable C : Type.
Variable crows : C -> res (list Order.row).
Variable cbats : C -> res (list (list Order.row)).
Variable cdone : C.
Variable parse_int parse_float : bytes -> option Z.
Variable ords : list Order.ofield.
Hypothesis Hrows : forall c, nf anyv (crows c).
Hypothesis Hbats : forall c, nf anyv (cbats c).

Lemma nf_of_pop {A} (o : option A) : nf anyv (of_pop o).
Proof. destruct o; exact I. Qed.

Lemma nf_ord_row c : nf anyv (ord_row C crows parse_int parse_float ords c).
Proof. unfold ord_row. apply nf_bind' with (QA := anyv); [apply Hrows|]. intros; apply nf_of_pop. Qed.

Lemma nf_ord_batch B c : nf anyv (ord_batch C cbats parse_int parse_float ords B c).
Proof. unfold ord_batch. apply nf_bind' with (QA := anyv); [apply Hbats|]. intros; apply nf_of_pop. Qed.

Lemma nf_onext s : nf anyv (onext C crows cdone parse_int parse_float ords s).
Proof.
  destruct s as [st c]. unfold onext. destruct (Order.total st =? 0).
  - apply nf_bind' with (QA := anyv); [apply Hrows|]. intros rows _.
    destruct (Order.next parse_int parse_float ords st rows) as [[[r| |] st'] x]; exact I.
  - destruct (Order.next parse_int parse_float ords st []) as [[[r| |] st'] x]; exact I.
Qed.

Lemma nf_ord_limit_row start count c :
  nf anyv (ord_limit_row C crows cdone parse_int parse_float ords start count c).
Proof. unfold ord_limit_row. apply nf_ldrain_row. apply nf_onext. Qed.

End OrderNodes.

(* ================================================================ whole statements *)
Section StatementNodes.
Variable P : Type.
Variable frow : P -> res bool.
Variable fbatch : list P -> res (list bool).
Variable prow : P -> res Order.row.
Variable pbatch : list P -> res (list Order.row).
Variable F : Type.
Variable fadd fsub fmul fdiv : F -> F -> F.
Variable fltb : F -> F -> bool.
Variable fis0 : F -> bool.
Variable of_Z : Z -> F.
Variable to_Z : F -> Z.
Variable fmt_f : F -> bytes.
Variable bits_f : F -> bytes.
Variable json_f : F -> option bytes.
Variable parse_f : bytes -> option F.
Variable json_s : bytes -> bytes.
Variable T : Type.
Variable t0 : T.
Variable obs_row : Group.plan F -> T -> P -> res (Group.pobs F * T).
Variable obs_batch : Group.plan F -> T -> list P -> res (list (Group.pobs F) * T).
Variable aconv : list (Group.value F) -> Order.row.
Variable parse_int parse_float : bytes -> option Z.
Hypothesis Hfrow : forall kv, nf anyv (frow kv).
Hypothesis Hfbatch : forall ch, nf anyv (fbatch ch).
Hypothesis Hprow : forall kv, nf anyv (prow kv).
Hypothesis Hpbatch : forall ch, nf anyv (pbatch ch).
Hypothesis Hobs_row : forall p t kv, nf anyv (obs_row p t kv).
Hypothesis Hobs_batch : forall p t ch, nf anyv (obs_batch p t ch).

Notation agg_rows := (agg_rows P frow F fadd fsub fmul fdiv fltb fis0 of_Z to_Z fmt_f bits_f json_f parse_f json_s T t0 obs_row aconv).
Notation agg_bats := (agg_bats P fbatch F fadd fsub fmul fdiv fltb fis0 of_Z to_Z fmt_f bits_f json_f parse_f json_s T t0 obs_batch aconv).
Notation run_shape_row := (run_shape_row P frow prow F fadd fsub fmul fdiv fltb fis0 of_Z to_Z fmt_f bits_f json_f parse_f json_s T t0 obs_row aconv parse_int parse_float).
Notation run_shape_batch := (run_shape_batch P fbatch pbatch F fadd fsub fmul fdiv fltb fis0 of_Z to_Z fmt_f bits_f json_f parse_f json_s T t0 obs_batch aconv parse_int parse_float).

Lemma nf_agg_rows p sl : nf anyv (agg_rows p sl).
Proof.
  unfold SelectPlans.agg_rows, agg_row. apply nf_bind' with (QA := anyv); [|intros; exact I].
  apply nf_bind' with (QA := anyv); [apply nf_sdrain_row; [exact Hfrow | apply Hobs_row]|].
  intros obs _. apply nf_lrun_row.
Qed.

Lemma nf_agg_bats B p sl : 1 <= B -> nf anyv (agg_bats B p sl).
Proof.
  intros HB. unfold SelectPlans.agg_bats, agg_batch. apply nf_bind' with (QA := anyv); [|intros; exact I].
  apply nf_bind' with (QA := anyv); [apply nf_sdrain_batch; [exact Hfbatch | apply Hobs_batch | exact HB]|].
  intros obs _. apply nf_lrun_batch. exact HB.
Qed.

Lemma nf_with_ords {A} (s : stmt F) os (k : list Order.ofield -> res A) :
  (forall ords, nf anyv (k ords)) -> nf anyv (with_ords F s os k).
Proof. intros H. unfold with_ords. destruct (Order.init_orders os (s_names F s) (s_types F s)); [apply H | exact I]. Qed.

(* the shapes buildFinalPlan returns *)
Inductive built : shape -> Prop :=
  | b_proj : built SProj
  | b_lim_proj st n : built (SLimit st n SProj)
  | b_ord_proj os : built (SOrder os SProj)
  | b_lim_ord_proj st n os : built (SLimit st n (SOrder os SProj))
  | b_agg st l : built (SAgg st l)
  | b_ord_agg os : built (SOrder os (SAgg 0 None))
  | b_lim_ord_agg st n os : built (SLimit st n (SOrder os (SAgg 0 None))).

Lemma build_final_plan_built has_aggr order limit : built (build_final_plan has_aggr order limit).
Proof.
  unfold build_final_plan. destruct has_aggr; cbn [negb].
  - destruct limit as [[st n]|]; destruct order as [os|]; constructor.
  - destruct order as [os|].
    + destruct (Order.build_final_order_plan Order.FChild false os); destruct limit as [[st n]|]; constructor.
    + destruct limit as [[st n]|]; constructor.
Qed.

Theorem nf_run_shape_row s sh sl : built sh -> nf anyv (run_shape_row s sh sl).
Proof.
  intros Hb. destruct Hb; cbn [SelectPlans.run_shape_row].
  - apply nf_drain_row; assumption.
  - apply nf_ldrain_row. intros r. eapply nf_weaken; [|apply nf_proj_next; assumption]. intros; exact I.
  - apply nf_with_ords. intros ords. apply nf_ord_row. intros c. apply nf_drain_row; assumption.
  - apply nf_with_ords. intros ords. apply nf_ord_limit_row. intros c. apply nf_drain_row; assumption.
  - apply nf_agg_rows.
  - apply nf_with_ords. intros ords. apply nf_ord_row. intros c. apply nf_agg_rows.
  - apply nf_with_ords. intros ords. apply nf_ord_limit_row. intros c. apply nf_agg_rows.
Qed.

(* batch mode: every shape but FinalLimitPlan(FinalOrderPlan(..)) -- see the header of the
   theorem in Properties/C06.v for what is missing there *)
Definition lim_over_order (sh : shape) : bool :=
  match sh with SLimit _ _ (SOrder _ _) => true | _ => false end.

Theorem nf_run_shape_batch_partial B s sh sl : 1 <= B -> built sh -> lim_over_order sh = false ->
  nf anyv (run_shape_batch B s sh sl).
Proof.
  intros HB Hb Hl. destruct Hb; cbn [SelectPlans.run_shape_batch]; try discriminate Hl.
  - apply nf_bind' with (QA := anyv); [|intros; exact I]. apply nf_drain_batch; assumption.
  - apply nf_bind' with (QA := anyv); [|intros; exact I].
    apply nf_ldrain_batch_fuel with (mu := @List.length _).
    + intros r. apply nf_proj_batch; assumption.
    + unfold limit_fuel, lt. apply le_S, le_n.
  - apply nf_with_ords. intros ords. apply nf_bind' with (QA := anyv); [|intros; exact I].
    apply nf_ord_batch. intros c. apply nf_drain_batch; assumption.
  - apply nf_bind' with (QA := anyv); [|intros; exact I]. apply nf_agg_bats. exact HB.
  - apply nf_with_ords. intros ords. apply nf_bind' with (QA := anyv); [|intros; exact I].
    apply nf_ord_batch. intros c. apply nf_agg_bats. exact HB.
Qed.

End StatementNodes.

(* ================================================================ the text pipeline (Model/PipelineS.v) *)
From KV Require Import Model.Pipeline Model.PipelineS.

Section Text.
Variable fo : fops.
Variable re : bytes -> bytes -> res bool.
Variable fmt_v : F fo -> string.
Variable ag : aggops fo.
Variable pi pf : bytes -> option Z.

(* the evaluator twins answer (anything but OutOfModel) for the trees of the planned statement:
   the WHERE filter, the projection, what the AggregatePlan evaluates -- per pair and per chunk *)
Definition evals_answer (c : cstmt fo) : Prop :=
  (forall kv, sel_frow fo re (q_where fo c) kv <> OutOfModel) /\
  (forall ch, filter_batch fo re true (q_where fo c) ch <> OutOfModel) /\
  (forall kv, c_prow fo re ag (q_fields fo c) kv <> OutOfModel) /\
  (forall ch, c_pbatch fo re ag (q_fields fo c) ch <> OutOfModel) /\
  (forall p t kv, c_lobs_row fo re ag (q_group fo c) (q_keys fo c) (q_args fo c) p t kv <> OutOfModel) /\
  (forall p t ch, c_lobs_batch fo re ag (q_group fo c) (q_keys fo c) (q_args fo c) p t ch <> OutOfModel).

Lemma sp_shape_built pl : built (sp_shape fo pl).
Proof. unfold sp_shape, stmt_shape. apply build_final_plan_built. Qed.

Theorem drain_planned_fuel_enough_row pl d : evals_answer (sp_q fo pl) ->
  drain_planned fo re ag pi pf pl d MRow <> OutOfModel.
Proof.
  intros (H1 & H2 & H3 & H4 & H5 & H6). apply nf_not_oom with (Q := anyv).
  unfold drain_planned, run_mode, select_shape_row.
  apply nf_run_shape_row; try (intros; apply not_oom_nf; auto). apply sp_shape_built.
Qed.

Theorem drain_planned_fuel_enough_batch_partial pl d B : 1 <= B -> lim_over_order (sp_shape fo pl) = false ->
  evals_answer (sp_q fo pl) -> drain_planned fo re ag pi pf pl d (MBatch B) <> OutOfModel.
Proof.
  intros HB Hl (H1 & H2 & H3 & H4 & H5 & H6). apply nf_not_oom with (Q := anyv).
  unfold drain_planned, run_mode, select_shape_batch.
  apply nf_run_shape_batch_partial; try (intros; apply not_oom_nf; auto); [exact HB | apply sp_shape_built | exact Hl].
Qed.

Definition fuel_mode_ok (pl : splanned fo) (m : tmode) : Prop :=
  match m with MRow => True | MBatch B => 1 <= B /\ lim_over_order (sp_shape fo pl) = false end.

(* the model boundary of the whole text twin is the front end's / the planner's, or an evaluator's *)
Theorem select_stmt_text_fuel_enough_partial_lemma q d m :
  select_stmt_text_st fo re fmt_v ag pi pf q d m = STOom ->
  plan_stmt_text fo re fmt_v q = STOom \/
  exists pl, plan_stmt_text fo re fmt_v q = STOk pl /\ (fuel_mode_ok pl m -> ~ evals_answer (sp_q fo pl)).
Proof.
  unfold select_stmt_text_st. destruct (plan_stmt_text fo re fmt_v q) as [pl|z|e|e| | | |] eqn:E;
    cbn [stbind]; try discriminate; [|intros; left; reflexivity].
  intros H. right. exists pl. split; [reflexivity|]. intros Hm Hev.
  destruct (drain_planned fo re ag pi pf pl d m) eqn:Ed; cbn [of_drain] in H; try discriminate.
  revert Ed. destruct m as [|B].
  - apply drain_planned_fuel_enough_row. exact Hev.
  - destruct Hm as [HB Hl]. apply drain_planned_fuel_enough_batch_partial; assumption.
Qed.

End Text.

(* the scan / projection / limit loops over any functions that never answer OutOfModel *)
Lemma drains_fuel_enough_lemma :
  forall (P R : Type) (frow : P -> res bool) (fbatch : list P -> res (list bool))
         (prow : P -> res R) (pbatch : list P -> res (list R)),
  (forall kv, frow kv <> OutOfModel) -> (forall ch, fbatch ch <> OutOfModel) ->
  (forall kv, prow kv <> OutOfModel) -> (forall ch, pbatch ch <> OutOfModel) ->
  forall (B start count : nat) (slots : list (option P)), 1 <= B ->
  drain_row frow prow slots <> OutOfModel /\
  drain_batch fbatch pbatch B slots <> OutOfModel /\
  ldrain_row (proj_next frow prow) start count slots <> OutOfModel /\
  ldrain_batch_fuel (proj_batch fbatch pbatch B) (limit_fuel P slots) B start count Limit.linit slots <> OutOfModel.
Proof.
  intros P R frow fbatch prow pbatch H1 H2 H3 H4 B start count slots HB.
  assert (G1 : forall kv, nf anyv (frow kv)) by (intros; apply not_oom_nf; auto).
  assert (G2 : forall ch, nf anyv (fbatch ch)) by (intros; apply not_oom_nf; auto).
  assert (G3 : forall kv, nf anyv (prow kv)) by (intros; apply not_oom_nf; auto).
  assert (G4 : forall ch, nf anyv (pbatch ch)) by (intros; apply not_oom_nf; auto).
  split; [|split; [|split]]; apply nf_not_oom with (Q := anyv).
  - apply nf_drain_row; assumption.
  - apply nf_drain_batch; assumption.
  - apply nf_ldrain_row. intros r. eapply nf_weaken; [|apply nf_proj_next; assumption]. intros; exact I.
  - apply nf_ldrain_batch_fuel with (mu := @List.length _).
    + intros r. apply nf_proj_batch; assumption.
    + unfold limit_fuel, lt. apply le_S, le_n.
Qed.
