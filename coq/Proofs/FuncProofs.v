(* Proofs/FuncProofs.v -- scalar functions compute their documented values (C10):
   decimal round trip (str / int), split / join inverses, case mapping, lengths, indexing. *)
From Coq Require Import List String Ascii ZArith NArith Bool Arith Lia.
Import ListNotations.
From KV Require Import Base.Bytes Base.Num Model.Ast Model.Value Model.Eval.
Local Open Scope string_scope.

(* ------------------------------------------------------------------ str / int round trip *)
Local Open Scope Z_scope.

Lemma digit_val_char d : 0 <= d <= 9 -> digit_val (digit_char d) = Some d.
Proof.
  intros H. assert (d = 0 \/ d = 1 \/ d = 2 \/ d = 3 \/ d = 4 \/ d = 5 \/ d = 6 \/ d = 7 \/ d = 8 \/ d = 9) by lia.
  repeat match goal with H : _ \/ _ |- _ => destruct H end; subst; reflexivity.
Qed.

Lemma digit_char_not_sign d : 0 <= d <= 9 ->
  Ascii.eqb (digit_char d) "-"%char = false /\ Ascii.eqb (digit_char d) "+"%char = false.
Proof.
  intros H. assert (d = 0 \/ d = 1 \/ d = 2 \/ d = 3 \/ d = 4 \/ d = 5 \/ d = 6 \/ d = 7 \/ d = 8 \/ d = 9) by lia.
  repeat match goal with H : _ \/ _ |- _ => destruct H end; subst; split; reflexivity.
Qed.

Lemma pos_digits_val : forall (f : nat) (n : Z) (acc : string) (a : Z),
  (0 < f)%nat -> 0 <= n -> n < 10 ^ Z.of_nat f ->
  exists d : Z, 1 <= d /\
    digits_val (pos_digits f n acc) a = digits_val acc (a * 10 ^ d + n).
Proof.
  induction f as [|f IH]; intros n acc a Hf0 Hn Hlt.
  - lia.
  - cbn [pos_digits].
    assert (Hm : 0 <= n mod 10 <= 9) by (pose proof (Z.mod_pos_bound n 10); lia).
    destruct (Z.eqb_spec (n / 10) 0) as [E|E].
    + exists 1. split; [lia|]. cbn [digits_val]. rewrite (digit_val_char _ Hm).
      f_equal. rewrite (Z.div_mod n 10) at 2 by lia. rewrite E. lia.
    + assert (Hq : 0 <= n / 10) by (apply Z.div_pos; lia).
      assert (Hqlt : n / 10 < 10 ^ Z.of_nat f).
      { apply Z.div_lt_upper_bound; [lia|].
        replace (Z.of_nat (S f)) with (Z.of_nat f + 1) in Hlt by lia.
        rewrite Z.pow_add_r in Hlt by lia. lia. }
      assert (Hf1 : (0 < f)%nat).
      { destruct f; [|lia]. cbn in Hqlt. assert (n / 10 = 0) by lia. contradiction. }
      destruct (IH (n / 10) (String (digit_char (n mod 10)) acc) a Hf1 Hq Hqlt) as (d & Hd & IHe).
      exists (d + 1). split; [lia|]. rewrite IHe. cbn [digits_val].
      rewrite (digit_val_char _ Hm). f_equal.
      rewrite Z.pow_add_r by lia. rewrite (Z.div_mod n 10) at 3 by lia. lia.
Qed.

Lemma pos_digits_head : forall (f : nat) (n : Z) (acc : string),
  (0 < f)%nat -> 0 <= n ->
  exists d rest, 0 <= d <= 9 /\ pos_digits f n acc = String (digit_char d) rest.
Proof.
  induction f as [|f IH]; intros n acc Hf Hn; [lia|]. cbn [pos_digits].
  assert (Hm : 0 <= n mod 10 <= 9) by (pose proof (Z.mod_pos_bound n 10); lia).
  destruct (Z.eqb_spec (n / 10) 0) as [E|E].
  - eauto.
  - destruct f as [|f'].
    + cbn [pos_digits]. eauto.
    + apply IH; [lia | apply Z.div_pos; lia].
Qed.

Lemma fuel_enough n : 0 <= n -> n < 10 ^ Z.of_nat (nat_fuel n).
Proof.
  intros Hn. unfold nat_fuel. rewrite Z.abs_eq by lia.
  set (k := Z.log2_up (n + 1)).
  assert (Hk : 0 <= k) by apply Z.log2_up_nonneg.
  assert (H1 : n + 1 <= 2 ^ k).
  { destruct (Z.eq_dec n 0) as [->|]; [cbn; lia|]. apply Z.log2_up_spec. lia. }
  rewrite Nat2Z.inj_succ, Z2Nat.id by lia.
  assert (2 ^ k <= 10 ^ k) by (apply Z.pow_le_mono_l; lia).
  assert (10 ^ k < 10 ^ Z.succ k) by (apply Z.pow_lt_mono_r; lia).
  lia.
Qed.

Lemma parse_int_neg body :
  parse_int (String "-"%char body) =
    match body with
    | EmptyString => None
    | _ => match digits_val body 0 with
           | Some n => if in64 (- n) then Some (- n) else None
           | None => None
           end
    end.
Proof. reflexivity. Qed.

Lemma parse_int_digit d rest : 0 <= d <= 9 ->
  parse_int (String (digit_char d) rest) =
    match digits_val (String (digit_char d) rest) 0 with
    | Some n => if in64 n then Some n else None
    | None => None
    end.
Proof.
  intros H. unfold parse_int. destruct (digit_char_not_sign d H) as [N1 N2]. rewrite N1, N2. reflexivity.
Qed.

(* str renders an integer in decimal and int reads it back: every int64 *)
Theorem parse_int_str_of_Z z : in64 z = true -> parse_int (str_of_Z z) = Some z.
Proof.
  intros Hr. unfold str_of_Z.
  destruct (Z.ltb_spec z 0) as [Hneg|Hpos].
  - (* negative *)
    assert (Hn : 0 <= - z) by lia.
    assert (Hf : - z < 10 ^ Z.of_nat (nat_fuel z)).
    { replace (nat_fuel z) with (nat_fuel (- z)); [now apply fuel_enough|].
      unfold nat_fuel. now rewrite Z.abs_opp. }
    destruct (pos_digits_head (nat_fuel z) (- z) EmptyString ltac:(unfold nat_fuel; lia) Hn)
      as (d & rest & Hd & E).
    destruct (pos_digits_val (nat_fuel z) (- z) EmptyString 0 ltac:(unfold nat_fuel; lia) Hn Hf) as (k & _ & V).
    rewrite parse_int_neg. rewrite E in *. rewrite V. cbn [digits_val].
    replace (0 * 10 ^ k + - z) with (- z) by lia. rewrite Z.opp_involutive, Hr. reflexivity.
  - assert (Hf : z < 10 ^ Z.of_nat (nat_fuel z)) by now apply fuel_enough.
    destruct (pos_digits_head (nat_fuel z) z EmptyString ltac:(unfold nat_fuel; lia) Hpos)
      as (d & rest & Hd & E).
    destruct (pos_digits_val (nat_fuel z) z EmptyString 0 ltac:(unfold nat_fuel; lia) Hpos Hf) as (k & _ & V).
    rewrite E in *. rewrite (parse_int_digit d rest Hd). rewrite V. cbn [digits_val].
    replace (0 * 10 ^ k + z) with z by lia. rewrite Hr. reflexivity.
Qed.

Local Close Scope Z_scope.

(* ------------------------------------------------------------------ split / join *)

Lemma has_prefix_drop sep s : has_prefix sep s = true -> (sep ++ drop (String.length sep) s) = s.
Proof.
  revert s; induction sep as [|c sep IH]; intros s H; [reflexivity|].
  destruct s as [|d s]; cbn in H; [discriminate|].
  apply andb_true_iff in H. destruct H as [E H]. apply Ascii.eqb_eq in E. subst.
  cbn. f_equal. now apply IH.
Qed.

Lemma drop_length n s : String.length (drop n s) <= String.length s.
Proof.
  revert s; induction n as [|n IH]; intros s; [cbn; lia|].
  destruct s; cbn; [lia|]. specialize (IH s). lia.
Qed.

Lemma split_aux_nonempty f sep s cur : split_aux f sep s cur <> [].
Proof.
  revert s cur; induction f as [|f IH]; intros s cur; cbn; [congruence|].
  destruct s; [congruence|]. destruct (has_prefix sep _); [congruence | apply IH].
Qed.

Lemma join_cons sep x l : l <> [] -> join_str sep (x :: l) = x ++ sep ++ join_str sep l.
Proof. destruct l; [congruence | reflexivity]. Qed.

Lemma append_assoc' (a b c : string) : (a ++ b) ++ c = a ++ b ++ c.
Proof. induction a; cbn; congruence. Qed.

Lemma append_nil_r (a : string) : a ++ "" = a.
Proof. induction a; cbn; congruence. Qed.

(* joining the pieces of a split with the same separator gives the text back:
   every text, every non-empty separator (also multi-byte ones) *)
Lemma join_split_aux : forall f sep s cur,
  sep <> "" -> String.length s < f ->
  join_str sep (split_aux f sep s cur) = cur ++ s.
Proof.
  induction f as [|f IH]; intros sep s cur Hsep Hf; [lia|].
  cbn [split_aux]. destruct s as [|c s'].
  - cbn. now rewrite append_nil_r.
  - destruct (has_prefix sep (String c s')) eqn:P.
    + rewrite join_cons by apply split_aux_nonempty.
      rewrite IH; auto.
      * cbn [append]. now rewrite (has_prefix_drop _ _ P).
      * destruct sep as [|d sep']; [congruence|]. cbn [String.length drop].
        pose proof (drop_length (String.length sep') s'). cbn [String.length] in Hf. lia.
    + rewrite IH; auto.
      * rewrite append_assoc'. reflexivity.
      * cbn [String.length] in Hf. lia.
Qed.

Theorem join_split s sep l :
  sep <> "" -> split_str s sep = Some l -> join_str sep l = s.
Proof.
  intros Hsep H. destruct sep as [|c sep']; [congruence|].
  change (split_str s (String c sep'))
    with (Some (split_aux (S (String.length s)) (String c sep') s "")) in H.
  assert (E : l = split_aux (S (String.length s)) (String c sep') s "") by congruence.
  rewrite E. rewrite join_split_aux; auto.
Qed.

(* single-byte separator: structural description of the split *)
Fixpoint split1 (c : ascii) (s cur : string) : list string :=
  match s with
  | EmptyString => [cur]
  | String d s' => if Ascii.eqb c d then cur :: split1 c s' "" else split1 c s' (cur ++ String d "")
  end.

Lemma split_aux_split1 : forall f c s cur,
  String.length s < f -> split_aux f (String c "") s cur = split1 c s cur.
Proof.
  induction f as [|f IH]; intros c s cur Hf; [lia|]. cbn [split_aux]. destruct s as [|d s'].
  - reflexivity.
  - cbn [has_prefix split1 String.length drop]. rewrite andb_true_r.
    cbn [String.length] in Hf. destruct (Ascii.eqb c d); rewrite IH by lia; reflexivity.
Qed.

Fixpoint no_char (c : ascii) (s : string) : bool :=
  match s with
  | EmptyString => true
  | String d s' => negb (Ascii.eqb c d) && no_char c s'
  end.

Lemma split1_skip c x : forall s cur, no_char c x = true -> split1 c (x ++ s) cur = split1 c s (cur ++ x).
Proof.
  induction x as [|d x IH]; intros s cur H.
  - cbn. now rewrite append_nil_r.
  - cbn in H. apply andb_true_iff in H. destruct H as [N H]. apply negb_true_iff in N.
    cbn [append split1]. rewrite N. rewrite IH by assumption. rewrite append_assoc'. reflexivity.
Qed.

Lemma split1_join c : forall parts cur,
  parts <> [] -> forallb (no_char c) parts = true ->
  split1 c (join_str (String c "") parts) cur
  = match parts with [] => [] | x :: rest => (cur ++ x) :: rest end.
Proof.
  induction parts as [|x rest IH]; intros cur Hne H; [congruence|].
  cbn in H. apply andb_true_iff in H. destruct H as [Hx Hr].
  destruct rest as [|y rest'].
  - cbn [join_str]. rewrite <- (append_nil_r x) at 1. rewrite split1_skip by assumption. reflexivity.
  - rewrite join_cons by congruence. rewrite split1_skip by assumption.
    cbn [append split1]. rewrite Ascii.eqb_refl. f_equal.
    rewrite IH by (congruence || assumption). reflexivity.
Qed.

(* splitting a join gives the parts back: single-byte separator that occurs in no part *)
Theorem split_join_single_byte c parts :
  parts <> [] -> forallb (no_char c) parts = true ->
  split_str (join_str (String c "") parts) (String c "") = Some parts.
Proof.
  intros Hne H.
  change (split_str (join_str (String c "") parts) (String c ""))
    with (Some (split_aux (S (String.length (join_str (String c "") parts))) (String c "")
                          (join_str (String c "") parts) "")).
  f_equal. rewrite split_aux_split1 by lia.
  rewrite split1_join by assumption. destruct parts; [congruence | reflexivity].
Qed.

(* a multi-byte separator cannot be inverted by any split when it straddles a joint:
   join("aa", ["a"; ""]) = "aaa" = join("aa", [""; "a"]) *)
Example split_join_multibyte_refuted :
  join_str "aa" ["a"; ""] = join_str "aa" [""; "a"] /\ ["a"; ""] <> [""; "a"].
Proof. split; [reflexivity | congruence]. Qed.

(* ------------------------------------------------------------------ case mapping, lengths *)

Lemma map_bytes_length f s : String.length (map_bytes f s) = String.length s.
Proof. induction s; cbn; congruence. Qed.

Lemma map_bytes_get f s i : String.get i (map_bytes f s) = option_map f (String.get i s).
Proof.
  revert i; induction s as [|c s IH]; intros i; [reflexivity|].
  destruct i; cbn; [reflexivity | apply IH].
Qed.

(* upper maps a..z to A..Z byte by byte and leaves every other byte alone *)
Theorem ascii_upper_spec s t : ascii_upper s = Some t ->
  String.length t = String.length s /\
  forall i c, String.get i s = Some c -> String.get i t = Some (upper_byte c).
Proof.
  unfold ascii_upper. destruct (all_ascii s); [|discriminate]. intros H. injection H as <-.
  split; [apply map_bytes_length|]. intros i c Hc. now rewrite map_bytes_get, Hc.
Qed.

Theorem ascii_lower_spec s t : ascii_lower s = Some t ->
  String.length t = String.length s /\
  forall i c, String.get i s = Some c -> String.get i t = Some (lower_byte c).
Proof.
  unfold ascii_lower. destruct (all_ascii s); [|discriminate]. intros H. injection H as <-.
  split; [apply map_bytes_length|]. intros i c Hc. now rewrite map_bytes_get, Hc.
Qed.

Lemma upper_byte_spec c :
  upper_byte c = let n := N_of_ascii c in
                 if ((97 <=? n) && (n <=? 122))%N then ascii_of_N (n - 32) else c.
Proof. reflexivity. Qed.

Section WithFloat.
Variable fo : fops.
Variable re_match : bytes -> bytes -> res bool.
Notation value := (value fo).

(* len counts the elements of every list representation, strlen the bytes of the rendering *)
Theorem list_length_spec :
  (forall l, list_length fo (VStrs l) = Some (Z.of_nat (List.length l))) /\
  (forall l, list_length fo (VInts l) = Some (Z.of_nat (List.length l))) /\
  (forall l, list_length fo (VFlts l) = Some (Z.of_nat (List.length l))).
Proof. repeat split. Qed.

(* is_int / is_float tell whether reading the text succeeds *)
Theorem is_int_spec args s :
  apply_func fo "is_int" args [Ok (VBytes s)] =
    Ok (VBool (match parse_int s with Some _ => true | None => false end)).
Proof. reflexivity. Qed.

(* int(str(z)) = z for every int64 *)
Theorem int_of_str args z : in64 z = true ->
  apply_func fo "int" args [apply_func fo "str" args [Ok (VInt z)]] = Ok (VInt z).
Proof.
  intros H. cbn. unfold to_int. cbn. rewrite (parse_int_str_of_Z z H). reflexivity.
Qed.

(* l2_distance / cosine_distance refuse vectors of different lengths *)
Theorem distance_refuses_unequal_lengths (l r : list (F fo)) :
  List.length l <> List.length r ->
  l2_distance fo l r = Err EOther /\ cosine_distance fo l r = Err EOther.
Proof.
  intros H. unfold l2_distance, cosine_distance.
  destruct (Nat.eqb_spec (List.length l) (List.length r)); [contradiction|]. split; reflexivity.
Qed.

(* ... and equal their formulas as folds in index order *)
Theorem l2_distance_formula (l r : list (F fo)) :
  List.length l = List.length r ->
  l2_distance fo l r =
    Ok (fsqrt fo (fold_left (fun tot ab => let d := fabs fo (fsub fo (fst ab) (snd ab)) in
                                           fadd fo tot (fmul fo d d))
                            (combine l r) (f_zero fo))).
Proof.
  intros H. unfold l2_distance. rewrite H, Nat.eqb_refl. f_equal. f_equal.
  generalize (f_zero fo). clear H. revert r.
  induction l as [|a l IH]; intros r t; destruct r as [|b r]; cbn; auto.
Qed.

(* list / int_list / float_list hold their converted arguments in order *)
Theorem int_list_order args (vals : list value) zs :
  map_res (to_int fo) vals = Ok zs ->
  apply_func fo "int_list" args (map Ok vals) = Ok (VInts zs).
Proof.
  intros H. cbn.
  assert (E : all_ok (map Ok vals) = Ok vals).
  { clear. induction vals as [|x vals IH]; cbn; [reflexivity|]. now rewrite IH. }
  rewrite E. cbn. rewrite H. reflexivity.
Qed.

(* indexing [n] returns element n counting from 0, for every list representation *)
Theorem index_spec k v p l n d (xs : list bytes) :
  eval fo re_match k v l = Ok (VStrs xs) ->
  parse_int d = Some (Z.of_nat n) ->
  eval fo re_match k v (EAccess p l (ENum 0 d)) =
    Ok (match nth_error xs n with Some x => VStr x | None => VStr "" end).
Proof.
  intros H1 H2. cbn [eval]. rewrite H1. cbn [bind]. unfold num_value. rewrite H2.
  rewrite Nat2Z.id. reflexivity.
Qed.

Theorem index_spec_ints k v p l n d (xs : list Z) :
  eval fo re_match k v l = Ok (VInts xs) ->
  parse_int d = Some (Z.of_nat n) ->
  eval fo re_match k v (EAccess p l (ENum 0 d)) =
    Ok (match nth_error xs n with Some x => VInt x | None => VStr "" end).
Proof.
  intros H1 H2. cbn [eval]. rewrite H1. cbn [bind]. unfold num_value. rewrite H2.
  rewrite Nat2Z.id. reflexivity.
Qed.

(* substr(value, start, end) is the text from start (inclusive) to end (exclusive), clamped *)
Theorem substr_spec s a b :
  (0 <= a)%Z -> (a < Z.min b (Z.of_nat (String.length s)))%Z ->
  substr_val s a b =
    String.substring (Z.to_nat a) (Z.to_nat (Z.min b (Z.of_nat (String.length s))) - Z.to_nat a) s.
Proof.
  intros H1 H2. unfold substr_val.
  destruct (Z.ltb_spec a 0); [lia|]. destruct (Z.leb_spec (Z.min b (Z.of_nat (String.length s))) a); [lia|].
  cbn [orb]. f_equal. lia.
Qed.

Theorem substr_empty s a b :
  (a < 0 \/ Z.min b (Z.of_nat (String.length s)) <= a)%Z -> substr_val s a b = "".
Proof.
  intros H. unfold substr_val.
  destruct (Z.ltb_spec a 0); [reflexivity|].
  destruct (Z.leb_spec (Z.min b (Z.of_nat (String.length s))) a); [reflexivity|lia].
Qed.

End WithFloat.
