(* Proofs/IndexExtremesProofs.v -- list index [n] with n at or beyond the end of the list, up to
   2^63-1 (expression_exec.go execListAccess(int(fnval.Int), left): `if idx < len(lval)` else "").
   The evaluator twin computes [nth_error xs (Z.to_nat idx)]: right for every idx, but a unary
   number for vm_compute -- so the extremes are THEOREMS here (nothing is computed), while the
   correspondence keeps its indices small. *)
From Coq Require Import List String Ascii ZArith NArith Bool Arith Lia.
Import ListNotations.
From KV Require Import Base.Bytes Base.Num Model.Ast Model.Value Model.Eval.

Section IndexExtremes.
Variable fo : fops.
Variable re_match : bytes -> bytes -> res bool.

Lemma nth_error_beyond : forall (X : Type) (xs : list X) (idx : Z),
  (Z.of_nat (List.length xs) <= idx)%Z -> nth_error xs (Z.to_nat idx) = None.
Proof. intros X xs idx H. apply nth_error_None. lia. Qed.

Theorem index_beyond_end_strs : forall k v p l d idx (xs : list bytes),
  eval fo re_match k v l = Ok (VStrs xs) ->
  parse_int d = Some idx -> (Z.of_nat (List.length xs) <= idx)%Z ->
  eval fo re_match k v (EAccess p l (ENum 0 d)) = Ok (VStr "").
Proof.
  intros k v p l d idx xs H1 H2 H3. cbn [eval]. rewrite H1. cbn [bind]. unfold num_value. rewrite H2.
  rewrite nth_error_beyond by assumption. reflexivity.
Qed.

Theorem index_beyond_end_ints : forall k v p l d idx (xs : list Z),
  eval fo re_match k v l = Ok (VInts xs) ->
  parse_int d = Some idx -> (Z.of_nat (List.length xs) <= idx)%Z ->
  eval fo re_match k v (EAccess p l (ENum 0 d)) = Ok (VStr "").
Proof.
  intros k v p l d idx xs H1 H2 H3. cbn [eval]. rewrite H1. cbn [bind]. unfold num_value. rewrite H2.
  rewrite nth_error_beyond by assumption. reflexivity.
Qed.

Theorem index_beyond_end_flts : forall k v p l d idx (xs : list (F fo)),
  eval fo re_match k v l = Ok (VFlts xs) ->
  parse_int d = Some idx -> (Z.of_nat (List.length xs) <= idx)%Z ->
  eval fo re_match k v (EAccess p l (ENum 0 d)) = Ok (VStr "").
Proof.
  intros k v p l d idx xs H1 H2 H3. cbn [eval]. rewrite H1. cbn [bind]. unfold num_value. rewrite H2.
  rewrite nth_error_beyond by assumption. reflexivity.
Qed.

(* the index of a NumberExpr is never negative and never beyond int64: int(fnval.Int) is the
   identity on a 64-bit platform and lval[idx] cannot be reached with idx < 0 *)
Lemma digits_val_nonneg_ix : forall (s : string) (acc z : Z),
  (0 <= acc)%Z -> digits_val s acc = Some z -> (0 <= z)%Z.
Proof.
  induction s as [|c s IH]; intros acc z Hacc H; cbn [digits_val] in H.
  - inversion H; subst; assumption.
  - destruct (digit_val c) as [d|] eqn:Ed; [|discriminate].
    apply IH in H; [assumption|].
    unfold digit_val in Ed.
    destruct ((48 <=? N_of_ascii c)%N && (N_of_ascii c <=? 57)%N) eqn:E; [|discriminate].
    inversion Ed; subst. apply andb_true_iff in E. destruct E as [E1 _].
    apply N.leb_le in E1. lia.
Qed.

Theorem index_value_range : forall (d : string) (c : Ascii.ascii) (r : string),
  d = String c r -> c <> "-"%char -> (0 <= num_value d < 2 ^ 63)%Z.
Proof.
  intros d c r -> Hc. unfold num_value.
  destruct (parse_int (String c r)) as [z|] eqn:E; [|lia].
  unfold parse_int in E.
  destruct (Ascii.eqb c "-") eqn:Em; [apply Ascii.eqb_eq in Em; contradiction|].
  destruct (if Ascii.eqb c "+" then (false, r) else (false, String c r)) as [neg body] eqn:Eb.
  assert (neg = false) by (destruct (Ascii.eqb c "+"); inversion Eb; reflexivity). subst neg.
  destruct body as [|c' body']; [discriminate|].
  destruct (digits_val (String c' body') 0) as [n|] eqn:Ed; [|discriminate].
  destruct (in64 n) eqn:Hin; [|discriminate].
  inversion E; subst. split.
  - eapply digits_val_nonneg_ix; [|exact Ed]. lia.
  - unfold in64, max64 in Hin. apply andb_true_iff in Hin. destruct Hin as [_ H2].
    apply Z.leb_le in H2. lia.
Qed.

End IndexExtremes.
