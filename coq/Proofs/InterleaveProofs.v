(* Proofs/InterleaveProofs.v -- non-interference of independent machines under arbitrary
   schedules (generic), and its instance for storage programs. *)
From Coq Require Import List Arith Bool String Lia.
Import ListNotations.
From KV Require Import Model.Interleave.

(* ------------------------------------------------------------------ generic part *)
Section Generic.
Variables loc val : Type.
Notation mem := (mem loc val).
Notation machine := (machine loc val).

Lemma agree_refl : forall (mc : machine) (m : mem), agree mc m m.
Proof. intros mc m l _. reflexivity. Qed.

Lemma agree_sym : forall (mc : machine) (m m' : mem), agree mc m m' -> agree mc m' m.
Proof. intros mc m m' H l Hl. symmetry. apply H. exact Hl. Qed.

Lemma agree_trans : forall (mc : machine) (a b c : mem),
  agree mc a b -> agree mc b c -> agree mc a c.
Proof. intros mc a b c H1 H2 l Hl. rewrite (H1 l Hl). apply H2. exact Hl. Qed.

(* a step of another machine is invisible *)
Lemma other_step_invisible : forall (mi mj : machine) (m : mem),
  frame_write mj ->
  (forall l, owns mj l = true -> view mi l = false) ->
  agree mi (step mj m) m.
Proof.
  intros mi mj m Hfw Hdis l Hl.
  apply Hfw. destruct (owns mj l) eqn:E; [|reflexivity].
  rewrite (Hdis l E) in Hl. discriminate.
Qed.

(* the machine's own step is a function of what it sees *)
Lemma own_step_agree : forall (mc : machine) (m m' : mem),
  well_behaved mc -> agree mc m m' -> agree mc (step mc m) (step mc m').
Proof.
  intros mc m m' [Hfw Hfr] Hag l Hl.
  destruct (owns mc l) eqn:E.
  - apply Hfr; assumption.
  - rewrite (Hfw m l E), (Hfw m' l E). apply Hag. exact Hl.
Qed.

Lemma iter_agree : forall (mc : machine) k (m m' : mem),
  well_behaved mc -> agree mc m m' -> agree mc (iter k (step mc) m) (iter k (step mc) m').
Proof.
  intros mc k. induction k as [|k IH]; intros m m' Hwb Hag; cbn [iter].
  - exact Hag.
  - apply IH; [exact Hwb|]. apply own_step_agree; assumption.
Qed.

Lemma steps_of_cons_same : forall i s, steps_of i (i :: s) = S (steps_of i s).
Proof. intros. unfold steps_of. cbn [count_occ]. destruct (Nat.eq_dec i i); congruence. Qed.

Lemma steps_of_cons_other : forall i j s, j <> i -> steps_of i (j :: s) = steps_of i s.
Proof. intros. unfold steps_of. cbn [count_occ]. destruct (Nat.eq_dec j i); congruence. Qed.

(* the invariant, generalised over the two memories; induction on the schedule *)
Lemma run_agree : forall (ms : list machine) i mi,
  Forall (@well_behaved loc val) ms -> independent ms -> nth_error ms i = Some mi ->
  forall sched (m m' : mem), agree mi m m' ->
  agree mi (run ms sched m) (run_alone mi (steps_of i sched) m').
Proof.
  intros ms i mi Hwb Hind Hi sched.
  assert (Hwbi : well_behaved mi).
  { rewrite Forall_forall in Hwb. apply Hwb. eapply nth_error_In; eauto. }
  induction sched as [|j s IH]; intros m m' Hag.
  - exact Hag.
  - cbn [run]. destruct (Nat.eq_dec j i) as [->|Hne].
    + rewrite steps_of_cons_same. unfold run_alone. cbn [iter]. fold (run_alone mi (steps_of i s) (step mi m')).
      apply IH. unfold step_at. rewrite Hi. apply own_step_agree; assumption.
    + rewrite (steps_of_cons_other i j s Hne). apply IH.
      unfold step_at. destruct (nth_error ms j) as [mj|] eqn:Hj; [|exact Hag].
      eapply agree_trans; [|exact Hag].
      apply other_step_invisible.
      * rewrite Forall_forall in Hwb. apply Hwb. eapply nth_error_In; eauto.
      * intros l Hl. eapply Hind; eauto.
Qed.

(* Non-interference: under ANY schedule, everything machine i owns or reads is exactly what
   it is after machine i has made the same number of steps on its own. *)
Theorem noninterference : forall (ms : list machine) (sched : list nat) (m0 : mem) i mi,
  Forall (@well_behaved loc val) ms -> independent ms -> nth_error ms i = Some mi ->
  agree mi (run ms sched m0) (run_alone mi (steps_of i sched) m0).
Proof.
  intros. eapply run_agree; eauto. apply agree_refl.
Qed.

(* ... hence every result computed from the machine's view is the same *)
Theorem noninterference_result : forall (ms : list machine) (sched : list nat) (m0 : mem) i mi
  (R : Type) (res : mem -> R),
  Forall (@well_behaved loc val) ms -> independent ms -> nth_error ms i = Some mi ->
  observes mi res ->
  res (run ms sched m0) = res (run_alone mi (steps_of i sched) m0).
Proof.
  intros ms sched m0 i mi R res Hwb Hind Hi Hobs. apply Hobs. apply noninterference; assumption.
Qed.

(* a machine that has finished stays finished *)
Lemma halted_stable : forall (mc : machine) (m0 : mem) k d,
  well_behaved mc -> halted_after mc m0 k ->
  agree mc (run_alone mc (d + k) m0) (run_alone mc k m0).
Proof.
  intros mc m0 k d Hwb Hh. induction d as [|d IH].
  - apply agree_refl.
  - assert (E : forall n (m : mem), iter (S n) (step mc) m = step mc (iter n (step mc) m)).
    { induction n as [|n IHn]; intros m; [reflexivity|]. cbn [iter] in *. rewrite <- IHn. reflexivity. }
    unfold run_alone in *. replace (S d + k) with (S (d + k)) by lia. rewrite E.
    eapply agree_trans; [apply own_step_agree; [exact Hwb|exact IH]|]. exact Hh.
Qed.

(* Completed runs: if machine i finishes within k steps on its own and the schedule grants it
   at least k steps, the interleaved run leaves exactly the completed solo result. *)
Theorem noninterference_complete : forall (ms : list machine) (sched : list nat) (m0 : mem) i mi k
  (R : Type) (res : mem -> R),
  Forall (@well_behaved loc val) ms -> independent ms -> nth_error ms i = Some mi ->
  observes mi res -> halted_after mi m0 k -> k <= steps_of i sched ->
  res (run ms sched m0) = res (run_alone mi k m0).
Proof.
  intros ms sched m0 i mi k R res Hwb Hind Hi Hobs Hh Hle.
  rewrite (noninterference_result ms sched m0 i mi R res Hwb Hind Hi Hobs).
  apply Hobs.
  assert (Hwbi : well_behaved mi).
  { rewrite Forall_forall in Hwb. apply Hwb. eapply nth_error_In; eauto. }
  replace (steps_of i sched) with ((steps_of i sched - k) + k) by lia.
  apply halted_stable; assumption.
Qed.

(* the shared environment (locations nobody owns) is never modified *)
Theorem shared_env_unchanged : forall (ms : list machine) (sched : list nat) (m0 : mem) l,
  Forall (fun mc : machine => frame_write mc) ms -> shared ms l ->
  run ms sched m0 l = m0 l.
Proof.
  intros ms sched. induction sched as [|j s IH]; intros m0 l Hfw Hsh; cbn [run].
  - reflexivity.
  - rewrite (IH _ l Hfw Hsh). unfold step_at.
    destruct (nth_error ms j) as [mj|] eqn:Hj; [|reflexivity].
    assert (Hin : In mj ms) by (eapply nth_error_In; eauto).
    rewrite Forall_forall in Hfw. apply (Hfw mj Hin). apply Hsh. exact Hin.
Qed.

End Generic.

(* ------------------------------------------------------------------ why independence is needed *)
(* Two "statements" that bump one shared counter (the model of a call counter or a cache in a
   package-level variable) and report what they saw: alone each reports 1, interleaved the
   second one reports 2. *)
Definition bump (me : nat) : machine nat nat :=
  Machine (fun l => Nat.eqb l 0 || Nat.eqb l me)       (* owns the shared cell 0 and its report cell *)
          (fun _ => false)
          (fun m l => if Nat.eqb l 0 then S (m 0)
                      else if Nat.eqb l me then S (m 0) else m l).

Lemma bump_well_behaved : forall me, well_behaved (bump me).
Proof.
  intros me. split.
  - intros m l Hl. cbn in *. apply orb_false_iff in Hl as [H0 H1]. rewrite H0, H1. reflexivity.
  - intros m m' Hag l Hl. cbn in *.
    assert (E : m 0 = m' 0) by (apply Hag; reflexivity). rewrite E.
    apply orb_true_iff in Hl. destruct (l =? 0); [reflexivity|].
    destruct Hl as [Hl|Hl]; [discriminate|]. rewrite Hl. reflexivity.
Qed.

Lemma shared_counter_interferes :
  exists (ms : list (machine nat nat)) (sched : list nat) (m0 : mem nat nat) i mi,
    Forall (@well_behaved nat nat) ms /\ nth_error ms i = Some mi /\
    ~ independent ms /\
    run ms sched m0 2 <> run_alone mi (steps_of i sched) m0 2.
Proof.
  exists [bump 1; bump 2], [0; 1], (fun _ => 0), 1, (bump 2).
  split; [repeat constructor; apply bump_well_behaved|].
  split; [reflexivity|]. split.
  - intros H. specialize (H 0 1 (bump 1) (bump 2)).
    assert (X : view (bump 2) 0 = false) by (apply H; [discriminate|reflexivity|reflexivity|reflexivity]).
    discriminate X.
  - vm_compute. discriminate.
Qed.

(* ------------------------------------------------------------------ storage programs *)

Lemma kloc_eqb_eq : forall a b, kloc_eqb a b = true <-> a = b.
Proof.
  intros [x|i] [y|j]; cbn; split; intros H; try discriminate; try congruence.
  - apply String.eqb_eq in H. congruence.
  - inversion H. apply String.eqb_refl.
  - apply Nat.eqb_eq in H. congruence.
  - inversion H. apply Nat.eqb_refl.
Qed.

Lemma kloc_eqb_refl : forall a, kloc_eqb a a = true.
Proof. intros. apply kloc_eqb_eq. reflexivity. Qed.

Lemma upd_same : forall l v m, upd l v m l = v.
Proof. intros. unfold upd. rewrite kloc_eqb_refl. reflexivity. Qed.

Lemma upd_other : forall l l' v m, l <> l' -> upd l v m l' = m l'.
Proof.
  intros. unfold upd. destruct (kloc_eqb l l') eqn:E; [|reflexivity].
  apply kloc_eqb_eq in E. contradiction.
Qed.

Lemma mem_str_In : forall k l, mem_str k l = true <-> In k l.
Proof.
  intros. unfold mem_str. rewrite existsb_exists. split.
  - intros [x [Hin He]]. apply String.eqb_eq in He. subst. exact Hin.
  - intros Hin. exists k. split; [exact Hin|apply String.eqb_refl].
Qed.

Lemma mem_str_false : forall k l, mem_str k l = false <-> ~ In k l.
Proof.
  intros. rewrite <- mem_str_In. destruct (mem_str k l); split; intros; try congruence.
Qed.

(* put_all / del_all touch only the listed keys *)
Lemma put_all_other : forall kvs m l,
  (forall k, l = LKey k -> ~ In k (map fst kvs)) -> put_all kvs m l = m l.
Proof.
  induction kvs as [|[k v] r IH]; intros m l H; cbn [put_all]; [reflexivity|].
  rewrite IH.
  - apply upd_other. intros E. subst l. apply (H k eq_refl). left. reflexivity.
  - intros k' E Hin. apply (H k' E). right. exact Hin.
Qed.

Lemma del_all_other : forall ks m l,
  (forall k, l = LKey k -> ~ In k ks) -> del_all ks m l = m l.
Proof.
  induction ks as [|k r IH]; intros m l H; cbn [del_all]; [reflexivity|].
  rewrite IH.
  - apply upd_other. intros E. subst l. apply (H k eq_refl). left. reflexivity.
  - intros k' E Hin. apply (H k' E). right. exact Hin.
Qed.

(* on the listed keys the result does not depend on the memory they are applied to *)
Lemma put_all_agree : forall kvs m m' l,
  m l = m' l -> put_all kvs m l = put_all kvs m' l.
Proof.
  induction kvs as [|[k v] r IH]; intros m m' l H; cbn [put_all]; [exact H|].
  apply IH. unfold upd. destruct (kloc_eqb (LKey k) l); [reflexivity|exact H].
Qed.

Lemma put_all_written : forall kvs m m' k,
  In k (map fst kvs) -> put_all kvs m (LKey k) = put_all kvs m' (LKey k).
Proof.
  induction kvs as [|[k0 v] r IH]; intros m m' k Hin; cbn [put_all]; [destruct Hin|].
  destruct (in_dec string_dec k (map fst r)) as [Hr|Hr].
  - apply IH. exact Hr.
  - cbn in Hin. destruct Hin as [->|Hin]; [|contradiction].
    apply put_all_agree. rewrite !upd_same. reflexivity.
Qed.

Lemma del_all_agree : forall ks m m' l,
  m l = m' l -> del_all ks m l = del_all ks m' l.
Proof.
  induction ks as [|k r IH]; intros m m' l H; cbn [del_all]; [exact H|].
  apply IH. unfold upd. destruct (kloc_eqb (LKey k) l); [reflexivity|exact H].
Qed.

Lemma nth_wkeys : forall p pc o k, nth_error p pc = Some o -> In k (wkeys_op o) -> In k (wkeys p).
Proof.
  intros p pc o k Hn Hin. unfold wkeys. apply in_flat_map. exists o. split; [|exact Hin].
  eapply nth_error_In; eauto.
Qed.

Lemma nth_rkeys : forall p pc o k, nth_error p pc = Some o -> In k (rkeys_op o) -> In k (rkeys p).
Proof.
  intros p pc o k Hn Hin. unfold rkeys. apply in_flat_map. exists o. split; [|exact Hin].
  eapply nth_error_In; eauto.
Qed.

Lemma kmachine_frame_write : forall i p, frame_write (kmachine i p).
Proof.
  intros i p m l Hl. cbn [step kmachine owns] in *. unfold kstep.
  destruct (m (LPc i)) as [v|pc out] eqn:Epc; [reflexivity|].
  destruct (nth_error p pc) as [o|] eqn:En; [|reflexivity].
  assert (Hne : LPc i <> l).
  { intros E. subst l. cbn in Hl. rewrite Nat.eqb_refl in Hl. discriminate. }
  assert (Hk : forall k, l = LKey k -> forall o', nth_error p pc = Some o' -> ~ In k (wkeys_op o')).
  { intros k E o' Ho' Hin. subst l. cbn in Hl. apply mem_str_false in Hl. apply Hl.
    eapply nth_wkeys; eauto. }
  destruct o as [k|kvs|ks]; cbn [exec]; rewrite (upd_other _ _ _ _ Hne).
  - reflexivity.
  - apply put_all_other. intros k E. exact (Hk k E _ En).
  - apply del_all_other. intros k E. exact (Hk k E _ En).
Qed.

Lemma kmachine_frame_read : forall i p, frame_read (kmachine i p).
Proof.
  intros i p m m' Hag l Hl. cbn [step kmachine owns] in *. unfold kstep.
  assert (Hpc : m (LPc i) = m' (LPc i)).
  { apply Hag. unfold view. cbn. rewrite Nat.eqb_refl. reflexivity. }
  assert (Hl' : m l = m' l).
  { apply Hag. unfold view. cbn [owns kmachine]. rewrite Hl. reflexivity. }
  rewrite <- Hpc.
  destruct (m (LPc i)) as [v|pc out] eqn:Epc; [exact Hl'|].
  destruct (nth_error p pc) as [o|] eqn:En; [|exact Hl'].
  assert (Hcase : (LPc i = l) \/ (LPc i <> l)).
  { destruct (kloc_eqb (LPc i) l) eqn:El; [left; apply kloc_eqb_eq; exact El|right].
    intros E. apply kloc_eqb_eq in E. congruence. }
  destruct o as [k|kvs|ks]; cbn [exec]; destruct Hcase as [Heq|Hne].
  - (* Get: the value read is in the view *)
    subst l. rewrite !upd_same. f_equal. f_equal. f_equal. unfold cell.
    assert (E : m (LKey k) = m' (LKey k)).
    { apply Hag. unfold view. cbn. apply orb_true_iff. right.
      apply mem_str_In. eapply nth_rkeys; eauto. cbn. left. reflexivity. }
    rewrite E. reflexivity.
  - rewrite !(upd_other _ _ _ _ Hne). exact Hl'.
  - subst l. rewrite !upd_same. reflexivity.
  - rewrite !(upd_other _ _ _ _ Hne). apply put_all_agree. exact Hl'.
  - subst l. rewrite !upd_same. reflexivity.
  - rewrite !(upd_other _ _ _ _ Hne). apply del_all_agree. exact Hl'.
Qed.

Lemma kmachine_well_behaved : forall i p, well_behaved (kmachine i p).
Proof. intros. split; [apply kmachine_frame_write|apply kmachine_frame_read]. Qed.

Lemma kmachines_from_nth : forall ps b i,
  nth_error (kmachines_from b ps) i = option_map (kmachine (b + i)) (nth_error ps i).
Proof.
  induction ps as [|p r IH]; intros b i; cbn [kmachines_from].
  - destruct i; reflexivity.
  - destruct i as [|i]; cbn [nth_error option_map].
    + rewrite Nat.add_0_r. reflexivity.
    + rewrite IH. replace (S b + i) with (b + S i) by lia. reflexivity.
Qed.

Lemma kmachines_nth : forall ps i,
  nth_error (kmachines ps) i = option_map (kmachine i) (nth_error ps i).
Proof. intros. unfold kmachines. rewrite kmachines_from_nth. reflexivity. Qed.

Lemma kmachines_well_behaved : forall ps, Forall (@well_behaved kloc kval) (kmachines ps).
Proof.
  intros ps. unfold kmachines. generalize 0. induction ps as [|p r IH]; intros b; cbn [kmachines_from].
  - constructor.
  - constructor; [apply kmachine_well_behaved|apply IH].
Qed.

Lemma disjoint_b_spec : forall a b, disjoint_b a b = true -> forall k, In k a -> ~ In k b.
Proof.
  intros a b H k Hin. unfold disjoint_b in H. rewrite forallb_forall in H.
  specialize (H k Hin). apply negb_true_iff in H. apply mem_str_false. exact H.
Qed.

Lemma indep_b_pairs : forall ps i j p q, indep_b ps = true -> i <> j ->
  nth_error ps i = Some p -> nth_error ps j = Some q -> pair_ok p q = true.
Proof.
  induction ps as [|p0 r IH]; intros i j p q H Hne Hi Hj.
  - destruct i; discriminate.
  - cbn [indep_b] in H. apply andb_true_iff in H as [Hhd Htl].
    rewrite forallb_forall in Hhd.
    destruct i as [|i], j as [|j]; cbn [nth_error] in *.
    + congruence.
    + inversion Hi; subst p0. apply nth_error_In in Hj.
      specialize (Hhd q Hj). apply andb_true_iff in Hhd as [H1 _]. exact H1.
    + inversion Hj; subst p0. apply nth_error_In in Hi.
      specialize (Hhd p Hi). apply andb_true_iff in Hhd as [_ H2]. exact H2.
    + apply (IH i j p q Htl); [intros E; apply Hne; congruence|exact Hi|exact Hj].
Qed.

Lemma kmachines_independent : forall ps, indep_b ps = true -> independent (kmachines ps).
Proof.
  intros ps H i j mi mj Hne Hi Hj l Hl.
  rewrite kmachines_nth in Hi, Hj.
  destruct (nth_error ps i) as [p|] eqn:Ei; [|discriminate].
  destruct (nth_error ps j) as [q|] eqn:Ej; [|discriminate].
  cbn in Hi, Hj. inversion Hi; subst mi. inversion Hj; subst mj. clear Hi Hj.
  pose proof (indep_b_pairs ps i j p q H Hne Ei Ej) as Hpq.
  apply andb_true_iff in Hpq as [Hww Hwr].
  unfold view. cbn [owns reads kmachine] in *.
  destruct l as [k|n]; cbn [kowns kreads] in *.
  - apply mem_str_In in Hl. apply orb_false_iff. split; apply mem_str_false.
    + eapply disjoint_b_spec; eauto.
    + eapply disjoint_b_spec; eauto.
  - apply Nat.eqb_eq in Hl. subst n. rewrite orb_false_r. apply Nat.eqb_neq. exact Hne.
Qed.

(* the results of a statement -- what its Gets returned, how far it got, and the final content
   of the keys it owns or reads -- are functions of its view *)
Lemma kout_observes : forall i p, observes (kmachine i p) (kout i).
Proof.
  intros i p m m' Hag. unfold kout.
  rewrite (Hag (LPc i)); [reflexivity|]. unfold view. cbn. rewrite Nat.eqb_refl. reflexivity.
Qed.

Lemma kpc_observes : forall i p, observes (kmachine i p) (kpc i).
Proof.
  intros i p m m' Hag. unfold kpc.
  rewrite (Hag (LPc i)); [reflexivity|]. unfold view. cbn. rewrite Nat.eqb_refl. reflexivity.
Qed.

Lemma kcells_observes : forall i p ks,
  (forall k, In k ks -> In k (wkeys p) \/ In k (rkeys p)) ->
  observes (kmachine i p) (fun m => kcells m ks).
Proof.
  intros i p ks Hks m m' Hag. unfold kcells. apply map_ext_in. intros k Hin. unfold cell.
  rewrite (Hag (LKey k)); [reflexivity|]. unfold view. cbn. apply orb_true_iff.
  destruct (Hks k Hin) as [H|H]; [left|right]; apply mem_str_In; exact H.
Qed.

(* Storage instance: statements with disjoint write-sets (or read-only ones) over a
   linearizable store see, under any schedule, exactly what they see alone. *)
Theorem kv_noninterference : forall ps sched st i p,
  indep_b ps = true -> nth_error ps i = Some p ->
  kout i (kv_run ps sched st) = kout i (kv_alone i p (steps_of i sched) st) /\
  kpc i (kv_run ps sched st) = kpc i (kv_alone i p (steps_of i sched) st) /\
  forall ks, (forall k, In k ks -> In k (wkeys p) \/ In k (rkeys p)) ->
    kcells (kv_run ps sched st) ks = kcells (kv_alone i p (steps_of i sched) st) ks.
Proof.
  intros ps sched st i p Hind Hi.
  assert (Hn : nth_error (kmachines ps) i = Some (kmachine i p)).
  { rewrite kmachines_nth, Hi. reflexivity. }
  pose proof (kmachines_well_behaved ps) as Hwb.
  pose proof (kmachines_independent ps Hind) as Hin.
  unfold kv_run, kv_alone. repeat split.
  - apply (noninterference_result kloc kval _ sched (kinit st) i _ _ (kout i) Hwb Hin Hn). apply kout_observes.
  - apply (noninterference_result kloc kval _ sched (kinit st) i _ _ (kpc i) Hwb Hin Hn). apply kpc_observes.
  - intros ks Hks.
    apply (noninterference_result kloc kval _ sched (kinit st) i _ _ (fun m => kcells m ks) Hwb Hin Hn).
    apply kcells_observes. exact Hks.
Qed.

(* a program has finished after as many steps as it has operations *)
Lemma kstep_pc : forall i p m pc out o,
  m (LPc i) = VPriv pc out -> nth_error p pc = Some o ->
  exists out', kstep i p m (LPc i) = VPriv (S pc) out'.
Proof.
  intros i p m pc out o Hm Hn. unfold kstep. rewrite Hm, Hn.
  destruct o; cbn [exec]; rewrite upd_same; eauto.
Qed.

Lemma kalone_pc : forall i p st k, k <= List.length p ->
  exists out, run_alone (kmachine i p) k (kinit st) (LPc i) = VPriv k out.
Proof.
  intros i p st k. unfold run_alone.
  assert (G : forall n (m : kmem) pc out, m (LPc i) = VPriv pc out -> pc + n <= List.length p ->
              exists out', iter n (step (kmachine i p)) m (LPc i) = VPriv (pc + n) out').
  { induction n as [|n IH]; intros m pc out Hm Hle; cbn [iter].
    - rewrite Nat.add_0_r. eauto.
    - destruct (nth_error p pc) as [o|] eqn:En.
      + destruct (kstep_pc i p m pc out o Hm En) as [out' Ho].
        destruct (IH (kstep i p m) (S pc) out' Ho) as [out'' Ho'']; [lia|].
        exists out''. cbn [step kmachine] in *. rewrite Ho''. f_equal. lia.
      + apply nth_error_None in En. lia. }
  intros Hle. destruct (G k (kinit st) 0 [] eq_refl) as [out Ho]; [lia|]. exists out. exact Ho.
Qed.

Lemma kv_halted : forall i p st, halted_after (kmachine i p) (kinit st) (List.length p).
Proof.
  intros i p st l _. destruct (kalone_pc i p st (List.length p) (le_n (List.length p))) as [out Ho].
  cbn [step kmachine]. unfold kstep. rewrite Ho.
  assert (E : nth_error p (List.length p) = None) by (apply nth_error_None; lia).
  rewrite E. reflexivity.
Qed.

(* Completed statements: a schedule that lets statement i perform all its operations leaves
   exactly the results of the complete solo run. *)
Theorem kv_noninterference_complete : forall ps sched st i p,
  indep_b ps = true -> nth_error ps i = Some p -> List.length p <= steps_of i sched ->
  kout i (kv_run ps sched st) = kout i (kv_alone i p (List.length p) st) /\
  forall ks, (forall k, In k ks -> In k (wkeys p) \/ In k (rkeys p)) ->
    kcells (kv_run ps sched st) ks = kcells (kv_alone i p (List.length p) st) ks.
Proof.
  intros ps sched st i p Hind Hi Hle.
  assert (Hn : nth_error (kmachines ps) i = Some (kmachine i p)).
  { rewrite kmachines_nth, Hi. reflexivity. }
  pose proof (kmachines_well_behaved ps) as Hwb.
  pose proof (kmachines_independent ps Hind) as Hin.
  unfold kv_run, kv_alone. split.
  - apply (noninterference_complete kloc kval _ sched (kinit st) i _ (List.length p) _ (kout i) Hwb Hin Hn);
      [apply kout_observes|apply kv_halted|exact Hle].
  - intros ks Hks.
    apply (noninterference_complete kloc kval _ sched (kinit st) i _ (List.length p) _ (fun m => kcells m ks) Hwb Hin Hn);
      [apply kcells_observes; exact Hks|apply kv_halted|exact Hle].
Qed.

(* keys no statement writes keep their initial content (read-only workloads: the whole store) *)
Theorem kv_unwritten_unchanged : forall ps sched st k,
  (forall p, In p ps -> ~ In k (wkeys p)) ->
  cell (kv_run ps sched st) k = lookup k st.
Proof.
  intros ps sched st k H. unfold kv_run, cell.
  rewrite (shared_env_unchanged kloc kval (kmachines ps) sched (kinit st) (LKey k)).
  - reflexivity.
  - pose proof (kmachines_well_behaved ps) as Hwb. rewrite Forall_forall in *.
    intros mc Hin. apply Hwb. exact Hin.
  - intros mc Hin. apply In_nth_error in Hin as [i Hi]. rewrite kmachines_nth in Hi.
    destruct (nth_error ps i) as [p|] eqn:Ei; [|discriminate]. cbn in Hi. inversion Hi; subst mc.
    cbn. apply mem_str_false. apply H. eapply nth_error_In; eauto.
Qed.
