(* Proofs/JsonBatchProofs.v -- batch evaluation of an access chain over json(arg), whenever it
   succeeds on a chunk, is row evaluation on every pair of the chunk, with EQUAL values (JSON
   values carry no string / []byte distinction; the argument's text is the same in both modes
   by C03's exec_batch_ok). *)
From Coq Require Import List String Ascii ZArith Bool Arith Lia.
Import ListNotations.
From KV Require Import Base.Bytes Base.Num Model.Ast Model.Value Model.Eval Model.EvalVec Model.Json.
From KV Require Proofs.EvalVecProofs.
From KV Require Import Proofs.JsonProofs.
Local Open Scope string_scope.

Section JsonBatch.
Variable fo : fops.
Variable re_match : bytes -> bytes -> res bool.
Notation jeval := (jeval fo re_match).
Notation jeval_batch := (jeval_batch fo re_match).

Lemma conv_bytes_canon (a b : value fo) : canon_of fo a = canon_of fo b -> conv_bytes fo a = conv_bytes fo b.
Proof. destruct a, b; cbn; intros H; try discriminate; try reflexivity; congruence. Qed.

Lemma jmap_Forall2 {A} (f : A -> res (jv fo)) xs ys :
  jmap fo f xs = Ok ys -> Forall2 (fun x y => f x = Ok y) xs ys.
Proof.
  revert ys. induction xs as [|x xs IH]; intros ys H; cbn [jmap] in H.
  - injection H as <-. constructor.
  - destruct (f x) as [y| | |] eqn:E; try discriminate.
    destruct (jmap fo f xs) as [ys'| | |]; try discriminate. injection H as <-.
    constructor; [exact E | apply IH; reflexivity].
Qed.

Definition rows_ok (e : expr) (ch : list kvpair) (col : list (jv fo)) : Prop :=
  Forall2 (fun kv y => jeval (fst kv) (snd kv) e = Ok y) ch col.

Lemma batch_access_node base x ch :
  (forall col, jeval_batch base ch = Ok col -> rows_ok base ch col) ->
  forall col, jeval_batch (access_node base x) ch = Ok col -> rows_ok (access_node base x) ch col.
Proof.
  intros Hb col H.
  set (fn := match x with XName _ sp n => EStr sp n | XIdx _ sp d => ENum sp d end).
  assert (E : jeval_batch (access_node base x) ch =
              match jeval_batch base ch with
              | Ok lefts => jmap fo (access fo base fn) lefts
              | Err e => Err e | Panic => Panic | OutOfModel => OutOfModel
              end) by (destruct x; reflexivity).
  rewrite E in H. destruct (jeval_batch base ch) as [lefts| | |] eqn:El; try discriminate.
  specialize (Hb lefts eq_refl). apply jmap_Forall2 in H.
  unfold rows_ok in *. clear E El. revert col H. induction Hb as [|kv l ch' lefts' Hk Hr IH]; intros col H.
  - inversion H. constructor.
  - inversion H as [|? y ? col' Hy Hc]; subst. constructor; [|apply IH; exact Hc].
    rewrite (jeval_access fo re_match (fst kv) (snd kv) base x), Hk. exact Hy.
Qed.

Lemma batch_chain xs ch : forall base,
  (forall col, jeval_batch base ch = Ok col -> rows_ok base ch col) ->
  forall col, jeval_batch (chain base xs) ch = Ok col -> rows_ok (chain base xs) ch col.
Proof.
  induction xs as [|x xs IH]; intros base Hb col H; cbn [chain] in *; [apply Hb; exact H|].
  apply (IH (access_node base x)); [|exact H]. apply batch_access_node. exact Hb.
Qed.

Lemma batch_json_call p np arg ch col :
  jeval_batch (ECall p (EName np "json") [arg]) ch = Ok col ->
  rows_ok (ECall p (EName np "json") [arg]) ch col.
Proof.
  cbn [Json.jeval_batch]. change (is_json_call (EName np "json")) with true. cbv iota.
  destruct (eval_batch fo re_match true arg ch) as [vals| | |] eqn:E; try discriminate.
  intros H. apply jmap_Forall2 in H.
  pose proof (EvalVecProofs.exec_batch_ok fo re_match arg ch vals E) as R.
  unfold rows_ok. clear E. revert col H. induction R as [|kv b ch' vals' (r & Er & Cr) R IH]; intros col H.
  - inversion H. constructor.
  - inversion H as [|? y ? col' Hy Hc]; subst. constructor; [|apply IH; exact Hc].
    cbn [Json.jeval]. change (is_json_call (EName np "json")) with true. cbv iota. rewrite Er.
    unfold func_json in *. rewrite (conv_bytes_canon r b Cr). exact Hy.
Qed.

Theorem json_batch_is_rows p np arg xs ch col :
  jeval_batch (chain (ECall p (EName np "json") [arg]) xs) ch = Ok col ->
  Forall2 (fun kv y => jeval (fst kv) (snd kv) (chain (ECall p (EName np "json") [arg]) xs) = Ok y) ch col.
Proof. apply batch_chain. intros c. apply batch_json_call. Qed.

End JsonBatch.
