(* Proofs/JsonProofs.v -- lemmas about Model/Json.v: the text-fragment parser reads back every
   rendering (arbitrary whitespace between the tokens), navigation by the access twins equals
   the documented navigation, the access twins never panic on the indexes the parser can
   produce, batch access = row access per pair. *)
From Coq Require Import List String Ascii ZArith Bool Arith Lia.
Import ListNotations.
From KV Require Import Base.Bytes Base.Num Model.Ast Model.Value Model.Eval Model.EvalVec Model.Json.
Open Scope string_scope.

(* ---------------------------------------------------------------- strings *)

Lemma sapp_assoc (a b c : string) : (a ++ b) ++ c = a ++ (b ++ c).
Proof. induction a as [|x a IH]; cbn; [reflexivity|]. now rewrite IH. Qed.

Lemma slen_app (a b : string) : String.length (a ++ b) = String.length a + String.length b.
Proof. induction a as [|x a IH]; cbn; [reflexivity|]. now rewrite IH. Qed.

Lemma sapp_nil_r (a : string) : a ++ "" = a.
Proof. induction a as [|x a IH]; cbn; [reflexivity|]. now rewrite IH. Qed.

Definition wsp (w : string) : Prop := all_ch is_ws w = true.

Lemma skip_ws_app w x : wsp w -> skip_ws (w ++ x) = skip_ws x.
Proof.
  unfold wsp. induction w as [|c w IH]; cbn; [reflexivity|].
  intros H. apply andb_prop in H. destruct H as [Hc Hw]. rewrite Hc. auto.
Qed.

Lemma skip_ws_all w : wsp w -> skip_ws w = "".
Proof. intros H. rewrite <- (sapp_nil_r w). rewrite skip_ws_app by assumption. reflexivity. Qed.

Lemma skip_ws_head c x : is_ws c = false -> skip_ws (String c x) = String c x.
Proof. intros H. cbn. now rewrite H. Qed.

(* what may follow a value: anything but a byte a numeral could go on with *)
Definition follow_ok (r : string) : bool :=
  match r with EmptyString => true | String c _ => negb (is_numch c) end.

Lemma ws_not_numch c : is_ws c = true -> is_numch c = false.
Proof.
  unfold is_ws, is_numch, is_digit. set (n := nat_of_ascii c). intros H.
  repeat (apply orb_prop in H; destruct H as [H|H]); apply Nat.eqb_eq in H; rewrite H; reflexivity.
Qed.

Lemma follow_ws w x : wsp w -> follow_ok x = true -> follow_ok (w ++ x) = true.
Proof.
  unfold wsp. destruct w as [|c w]; cbn; [auto|]. intros H _.
  apply andb_prop in H. destruct H as [Hc _]. now rewrite (ws_not_numch c Hc).
Qed.

(* ---------------------------------------------------------------- string literals *)

Lemma pstr_lit s rest : all_ch str_ch s = true -> pstr (s ++ String """" rest) = POk s rest.
Proof.
  induction s as [|c s IH]; cbn [append all_ch pstr]; [reflexivity|].
  intros H. apply andb_prop in H. destruct H as [Hc Hs]. rewrite (IH Hs).
  unfold str_ch in Hc. set (n := nat_of_ascii c) in *.
  apply andb_prop in Hc. destruct Hc as [Hc H92].
  apply andb_prop in Hc. destruct Hc as [Hc H34].
  apply andb_prop in Hc. destruct Hc as [H32 H128].
  apply negb_true_iff in H92, H34. rewrite H34, H92.
  apply Nat.leb_le in H32. apply Nat.ltb_lt in H128.
  destruct (Nat.ltb_spec n 32); [lia|]. destruct (Nat.leb_spec 128 n); [lia|]. reflexivity.
Qed.

(* ---------------------------------------------------------------- numerals *)

Definition plain_numch (c : ascii) : bool :=
  is_digit c || Nat.eqb (nat_of_ascii c) 45 || Nat.eqb (nat_of_ascii c) 46.

Lemma digits_plain s : all_ch is_digit s = true -> all_ch plain_numch s = true.
Proof.
  induction s as [|c s IH]; cbn [all_ch]; [reflexivity|]. intros H. apply andb_prop in H. destruct H as [Hc Hs].
  unfold plain_numch at 1. rewrite Hc, (IH Hs). reflexivity.
Qed.

Lemma digits1_plain s : digits1 s = true -> all_ch plain_numch s = true.
Proof. destruct s; cbn [digits1]; [discriminate|]. apply digits_plain. Qed.

Lemma int_tail_plain s : int_tail s = true -> all_ch plain_numch s = true.
Proof.
  induction s as [|c s IH]; cbn [int_tail all_ch]; [reflexivity|].
  destruct (Nat.eqb_spec (nat_of_ascii c) 46) as [E|E].
  - intros H. unfold plain_numch at 1. rewrite E. cbn. rewrite orb_true_r. cbn. now apply digits1_plain.
  - intros H. apply andb_prop in H. destruct H as [Hc Hs]. unfold plain_numch at 1. rewrite Hc. cbn. auto.
Qed.

Lemma unsigned_plain s : unsigned_ok s = true -> all_ch plain_numch s = true.
Proof.
  destruct s as [|c s]; cbn [unsigned_ok all_ch]; [discriminate|].
  destruct (Nat.eqb_spec (nat_of_ascii c) 48) as [E|E].
  - assert (Hc : plain_numch c = true) by (unfold plain_numch, is_digit; rewrite E; reflexivity).
    rewrite Hc. cbn. destruct s as [|d s]; [reflexivity|]. intros H. apply andb_prop in H. destruct H as [Hd Hs].
    cbn [all_ch]. apply Nat.eqb_eq in Hd. unfold plain_numch at 1. rewrite Hd. cbn. rewrite orb_true_r. cbn.
    now apply digits1_plain.
  - intros H. apply andb_prop in H. destruct H as [Hc Hs]. unfold plain_numch at 1. rewrite Hc. cbn.
    now apply int_tail_plain.
Qed.

Lemma num_ok_plain t : num_ok t = true -> all_ch plain_numch t = true.
Proof.
  destruct t as [|c t]; cbn [num_ok]; [discriminate|].
  destruct (Nat.eqb_spec (nat_of_ascii c) 45) as [E|E].
  - intros H. cbn [all_ch]. unfold plain_numch at 1. rewrite E. cbn. rewrite orb_true_r. cbn. now apply unsigned_plain.
  - apply unsigned_plain.
Qed.

Lemma plain_is_numch c : plain_numch c = true -> is_numch c = true /\ is_expch c = false.
Proof.
  unfold plain_numch, is_numch, is_expch, is_digit. set (n := nat_of_ascii c). intros H.
  apply orb_prop in H. destruct H as [H|H]; [apply orb_prop in H; destruct H as [H|H]|].
  - rewrite H. split; [reflexivity|]. apply andb_prop in H. destruct H as [A B].
    apply Nat.leb_le in A, B.
    destruct (Nat.eqb_spec n 43); [lia|]. destruct (Nat.eqb_spec n 101); [lia|]. destruct (Nat.eqb_spec n 69); [lia|].
    reflexivity.
  - apply Nat.eqb_eq in H. rewrite H. split; reflexivity.
  - apply Nat.eqb_eq in H. rewrite H. split; reflexivity.
Qed.

Lemma span_plain t rest :
  all_ch plain_numch t = true -> follow_ok rest = true ->
  span_num (t ++ rest) = (t, rest) /\ any_ch is_expch t = false.
Proof.
  induction t as [|c t IH]; cbn [append all_ch any_ch].
  - intros _ H. split; [|reflexivity]. destruct rest as [|c r]; [reflexivity|]. cbn in *.
    apply negb_true_iff in H. now rewrite H.
  - intros H Hr. apply andb_prop in H. destruct H as [Hc Ht]. destruct (IH Ht Hr) as [E1 E2].
    destruct (plain_is_numch c Hc) as [A B]. cbn [span_num]. rewrite A, E1, B, E2. split; reflexivity.
Qed.

Lemma pnum_numeral t rest :
  num_ok t = true -> follow_ok rest = true -> pnum (t ++ rest) = POk (JNum t) rest.
Proof.
  intros H Hr. unfold pnum. destruct (span_plain t rest (num_ok_plain t H) Hr) as [E1 E2].
  rewrite E1, E2, H. reflexivity.
Qed.

(* the first byte of a numeral *)
Lemma num_ok_head t : num_ok t = true ->
  exists c t', t = String c t' /\ (nat_of_ascii c = 45 \/ is_digit c = true).
Proof.
  destruct t as [|c t]; cbn [num_ok]; [discriminate|]. intros H. exists c, t. split; [reflexivity|].
  destruct (Nat.eqb_spec (nat_of_ascii c) 45) as [E|E]; [now left|]. right.
  cbn [unsigned_ok] in H. destruct (Nat.eqb_spec (nat_of_ascii c) 48) as [E0|E0].
  - unfold is_digit. rewrite E0. reflexivity.
  - apply andb_prop in H. tauto.
Qed.

(* ---------------------------------------------------------------- texts of the fragment *)

(* what decoding turns a document as written into: repeated member names keep the last value *)
Fixpoint norm (d : json) : json :=
  match d with
  | JArr l => JArr (map norm l)
  | JObj m => JObj (dedup (map (fun kv => (fst kv, norm (snd kv))) m))
  | _ => d
  end.
Definition normkv (kv : string * json) : string * json := (fst kv, norm (snd kv)).

(* [renders dp d s]: the text [s] is a rendering of the document [d] (as written, repeated
   member names included) in the fragment, with ANY whitespace between the tokens, nested at
   most [dp] deep.  [renders_elems] / [renders_membs]: the rest of an array / object text
   after its opening bracket, up to and including the closing one. *)
Inductive renders : nat -> json -> string -> Prop :=
  | R_null dp : renders dp JNull "null"
  | R_true dp : renders dp (JBool true) "true"
  | R_false dp : renders dp (JBool false) "false"
  | R_num dp t : num_ok t = true -> renders dp (JNum t) t
  | R_str dp s : all_ch str_ch s = true -> renders dp (JStr s) (String """" (s ++ """"))
  | R_arr0 dp w : wsp w -> renders (S dp) (JArr []) (String "[" (w ++ "]"))
  | R_arr dp l s : renders_elems dp l s -> renders (S dp) (JArr l) (String "[" s)
  | R_obj0 dp w : wsp w -> renders (S dp) (JObj []) (String "{" (w ++ "}"))
  | R_obj dp m s : renders_membs dp m s -> renders (S dp) (JObj m) (String "{" s)
with renders_elems : nat -> list json -> string -> Prop :=
  | RE_last dp x w1 sx w2 :
      wsp w1 -> wsp w2 -> renders dp x sx -> renders_elems dp [x] (w1 ++ sx ++ w2 ++ "]")
  | RE_cons dp x l w1 sx w2 s :
      wsp w1 -> wsp w2 -> renders dp x sx -> renders_elems dp l s ->
      renders_elems dp (x :: l) (w1 ++ sx ++ w2 ++ String "," s)
with renders_membs : nat -> list (string * json) -> string -> Prop :=
  | RM_last dp n x w1 w2 w3 sx w4 :
      wsp w1 -> wsp w2 -> wsp w3 -> wsp w4 -> all_ch str_ch n = true -> renders dp x sx ->
      renders_membs dp [(n, x)] (w1 ++ String """" (n ++ String """" (w2 ++ String ":" (w3 ++ sx ++ w4 ++ "}"))))
  | RM_cons dp n x m w1 w2 w3 sx w4 s :
      wsp w1 -> wsp w2 -> wsp w3 -> wsp w4 -> all_ch str_ch n = true -> renders dp x sx ->
      renders_membs dp m s ->
      renders_membs dp ((n, x) :: m)
        (w1 ++ String """" (n ++ String """" (w2 ++ String ":" (w3 ++ sx ++ w4 ++ String "," s)))).

Scheme renders_mut := Minimality for renders Sort Prop
  with renders_elems_mut := Minimality for renders_elems Sort Prop
  with renders_membs_mut := Minimality for renders_membs Sort Prop.
Combined Scheme renders_mutind from renders_mut, renders_elems_mut, renders_membs_mut.

(* the first byte of a value's text: not whitespace, not a closing bracket *)
Definition vhead (s : string) : Prop :=
  exists c x, s = String c x /\ is_ws c = false /\ nat_of_ascii c <> 93 /\ nat_of_ascii c <> 125.

Lemma renders_vhead dp d s : renders dp d s -> vhead s.
Proof.
  intros H. destruct H; unfold vhead.
  1-3: (eexists; eexists; split; [reflexivity|]; cbn; repeat split; discriminate).
  - destruct (num_ok_head t H) as (c & t' & -> & Hc). exists c, t'. split; [reflexivity|].
    unfold is_ws. destruct Hc as [Hc|Hc].
    + rewrite Hc. cbn. repeat split; discriminate.
    + unfold is_digit in Hc. apply andb_prop in Hc. destruct Hc as [A B]. apply Nat.leb_le in A, B.
      set (n := nat_of_ascii c) in *.
      destruct (Nat.eqb_spec n 32); [lia|]. destruct (Nat.eqb_spec n 9); [lia|].
      destruct (Nat.eqb_spec n 10); [lia|]. destruct (Nat.eqb_spec n 13); [lia|].
      cbn. repeat split; lia.
  - eexists; eexists; split; [reflexivity|]; cbn; repeat split; discriminate.
  - eexists; eexists; split; [reflexivity|]; cbn; repeat split; discriminate.
  - eexists; eexists; split; [reflexivity|]; cbn; repeat split; discriminate.
  - eexists; eexists; split; [reflexivity|]; cbn; repeat split; discriminate.
  - eexists; eexists; split; [reflexivity|]; cbn; repeat split; discriminate.
Qed.

Lemma follow_punct c x : is_numch c = false -> follow_ok (String c x) = true.
Proof. intros H. cbn. now rewrite H. Qed.

(* the parser on a rendering followed by [rest] *)
Definition P_val (dp : nat) (d : json) (s : string) : Prop :=
  forall w f rest, wsp w -> String.length s < f -> follow_ok rest = true ->
    pval f dp (w ++ s ++ rest) = POk (norm d) rest.
Definition P_elems (dp : nat) (l : list json) (s : string) : Prop :=
  forall f rest, String.length s < f ->
    pelems f dp (s ++ rest) = POk (map norm l) rest.
Definition P_membs (dp : nat) (m : list (string * json)) (s : string) : Prop :=
  forall f rest, String.length s < f ->
    pmembers f dp (s ++ rest) = POk (map normkv m) rest.

Lemma pval_start w f dp s rest c x :
  wsp w -> s = String c x -> is_ws c = false ->
  pval (S f) dp (w ++ s ++ rest) = pval (S f) dp (String c (x ++ rest)).
Proof.
  intros Hw -> Hc. cbn [pval]. rewrite skip_ws_app by assumption. cbn [append].
  rewrite (skip_ws_head c (x ++ rest) Hc). reflexivity.
Qed.

Ltac norm_app := repeat ((rewrite !sapp_assoc) || (progress (cbn [append]))).
Ltac len_hyp H := repeat ((rewrite !slen_app in H) || (progress (cbn [String.length] in H))).

Lemma pval_num f dp c x :
  (nat_of_ascii c = 45 \/ is_digit c = true) -> pval (S f) dp (String c x) = pnum (String c x).
Proof.
  intros H. cbn [pval skip_ws].
  assert (Hws : is_ws c = false /\ (Nat.eqb (nat_of_ascii c) 45 || is_digit c = true) /\
                Nat.eqb (nat_of_ascii c) 34 = false /\ Nat.eqb (nat_of_ascii c) 123 = false /\
                Nat.eqb (nat_of_ascii c) 91 = false /\ Nat.eqb (nat_of_ascii c) 116 = false /\
                Nat.eqb (nat_of_ascii c) 102 = false /\ Nat.eqb (nat_of_ascii c) 110 = false).
  { unfold is_ws, is_digit in *. set (n := nat_of_ascii c) in *. destruct H as [H|H].
    - rewrite H. cbn. repeat split; reflexivity.
    - rewrite H. apply andb_prop in H. destruct H as [A B]. apply Nat.leb_le in A, B.
      destruct (Nat.eqb_spec n 32); [lia|]. destruct (Nat.eqb_spec n 9); [lia|].
      destruct (Nat.eqb_spec n 10); [lia|]. destruct (Nat.eqb_spec n 13); [lia|].
      destruct (Nat.eqb_spec n 34); [lia|]. destruct (Nat.eqb_spec n 123); [lia|].
      destruct (Nat.eqb_spec n 91); [lia|]. destruct (Nat.eqb_spec n 116); [lia|].
      destruct (Nat.eqb_spec n 102); [lia|]. destruct (Nat.eqb_spec n 110); [lia|].
      rewrite orb_true_r. cbn. repeat split; reflexivity. }
  destruct Hws as (E0 & E1 & E2 & E3 & E4 & E5 & E6 & E7).
  rewrite E0. cbv zeta. rewrite E2, E3, E4, E5, E6, E7, E1. reflexivity.
Qed.

Lemma elems_head dp l s : renders_elems dp l s ->
  exists w c x, wsp w /\ s = w ++ String c x /\ is_ws c = false /\ nat_of_ascii c <> 93.
Proof.
  intros H. destruct H as [dp x w1 sx w2 H1 H2 Hx | dp x l w1 sx w2 s H1 H2 Hx Hl];
    destruct (renders_vhead _ _ _ Hx) as (c & y & -> & A & B & _);
    exists w1, c; eexists; (split; [assumption|]); (split; [cbn [append]; reflexivity|]); split; assumption.
Qed.

Lemma membs_head dp m s : renders_membs dp m s ->
  exists w x, wsp w /\ s = w ++ String """" x.
Proof.
  intros H. destruct H; exists w1; eexists; (split; [assumption|]); reflexivity.
Qed.

Theorem parser_reads_renderings :
  (forall dp d s, renders dp d s -> P_val dp d s) /\
  (forall dp l s, renders_elems dp l s -> P_elems dp l s) /\
  (forall dp m s, renders_membs dp m s -> P_membs dp m s).
Proof.
  apply renders_mutind.
  - (* null *) intros dp w f rest Hw Hf Hr. destruct f as [|f]; [cbn in Hf; lia|].
    cbn [pval]. rewrite skip_ws_app by assumption. reflexivity.
  - intros dp w f rest Hw Hf Hr. destruct f as [|f]; [cbn in Hf; lia|].
    cbn [pval]. rewrite skip_ws_app by assumption. reflexivity.
  - intros dp w f rest Hw Hf Hr. destruct f as [|f]; [cbn in Hf; lia|].
    cbn [pval]. rewrite skip_ws_app by assumption. reflexivity.
  - (* numeral *) intros dp t Ht w f rest Hw Hf Hr. destruct f as [|f]; [lia|].
    destruct (num_ok_head t Ht) as (c & t' & E & Hc).
    assert (Hws : is_ws c = false).
    { destruct (renders_vhead dp (JNum t) t (R_num dp t Ht)) as (c0 & x0 & E0 & A & _).
      rewrite E in E0. injection E0 as <- _. exact A. }
    rewrite (pval_start w f dp t rest c t' Hw E Hws).
    rewrite (pval_num f dp c (t' ++ rest) Hc).
    change (String c (t' ++ rest)) with (String c t' ++ rest). rewrite <- E.
    rewrite (pnum_numeral t rest Ht Hr). reflexivity.
  - (* string *) intros dp s Hs w f rest Hw Hf Hr. destruct f as [|f]; [lia|].
    cbn [pval]. rewrite skip_ws_app by assumption. norm_app. rewrite skip_ws_head by reflexivity. cbn.
    rewrite (pstr_lit s rest Hs). reflexivity.
  - (* empty array *) intros dp w0 Hw0 w f rest Hw Hf Hr. destruct f as [|f]; [lia|].
    cbn [pval]. rewrite skip_ws_app by assumption. norm_app. rewrite skip_ws_head by reflexivity. cbn.
    rewrite skip_ws_app by assumption. reflexivity.
  - (* array *) intros dp l s Hl IH w f rest Hw Hf Hr. destruct f as [|f]; [lia|].
    destruct (elems_head dp l s Hl) as (w1 & c & x & Hw1 & E & Hc & H93).
    cbn [pval]. rewrite skip_ws_app by assumption. norm_app. rewrite skip_ws_head by reflexivity. cbn.
    assert (SK : skip_ws (s ++ rest) = String c (x ++ rest)).
    { rewrite E. norm_app. rewrite skip_ws_app by assumption. apply skip_ws_head. exact Hc. }
    rewrite SK.
    destruct (Nat.eqb_spec (nat_of_ascii c) 93) as [Z|_]; [contradiction|].
    cbn [String.length] in Hf. rewrite (IH f rest) by lia. reflexivity.
  - (* empty object *) intros dp w0 Hw0 w f rest Hw Hf Hr. destruct f as [|f]; [lia|].
    cbn [pval]. rewrite skip_ws_app by assumption. norm_app. rewrite skip_ws_head by reflexivity. cbn.
    rewrite skip_ws_app by assumption. reflexivity.
  - (* object *) intros dp m s Hm IH w f rest Hw Hf Hr. destruct f as [|f]; [lia|].
    destruct (membs_head dp m s Hm) as (w1 & x & Hw1 & E).
    cbn [pval]. rewrite skip_ws_app by assumption. norm_app. rewrite skip_ws_head by reflexivity. cbn.
    assert (SK : skip_ws (s ++ rest) = String """" (x ++ rest)).
    { rewrite E. norm_app. rewrite skip_ws_app by assumption. apply skip_ws_head. reflexivity. }
    rewrite SK. cbn.
    cbn [String.length] in Hf. rewrite (IH f rest) by lia. reflexivity.
  - (* last element *) intros dp x w1 sx w2 H1 H2 Hx IH f rest Hf. destruct f as [|f]; [lia|].
    len_hyp Hf. cbn [pelems]. norm_app.
    rewrite (IH w1 f (w2 ++ String "]" rest) H1) by (first [lia | apply follow_ws; [assumption|reflexivity]]).
    rewrite skip_ws_app by assumption. reflexivity.
  - (* element, more follow *) intros dp x l w1 sx w2 s H1 H2 Hx IHx Hl IHl f rest Hf. destruct f as [|f]; [lia|].
    len_hyp Hf. cbn [pelems]. norm_app.
    rewrite (IHx w1 f (w2 ++ String "," (s ++ rest)) H1) by (first [lia | apply follow_ws; [assumption|reflexivity]]).
    rewrite skip_ws_app by assumption. rewrite skip_ws_head by reflexivity. cbn. rewrite (IHl f rest) by lia. reflexivity.
  - (* last member *) intros dp n x w1 w2 w3 sx w4 H1 H2 H3 H4 Hn Hx IH f rest Hf. destruct f as [|f]; [lia|].
    len_hyp Hf. cbn [pmembers]. norm_app. rewrite skip_ws_app by assumption. rewrite skip_ws_head by reflexivity. cbn.
    rewrite (pstr_lit n _ Hn). rewrite skip_ws_app by assumption. rewrite skip_ws_head by reflexivity. cbn.
    rewrite (IH w3 f (w4 ++ String "}" rest) H3) by (first [lia | apply follow_ws; [assumption|reflexivity]]).
    rewrite skip_ws_app by assumption. reflexivity.
  - (* member, more follow *)
    intros dp n x m w1 w2 w3 sx w4 s H1 H2 H3 H4 Hn Hx IHx Hm IHm f rest Hf. destruct f as [|f]; [lia|].
    len_hyp Hf. cbn [pmembers]. norm_app. rewrite skip_ws_app by assumption. rewrite skip_ws_head by reflexivity. cbn.
    rewrite (pstr_lit n _ Hn). rewrite skip_ws_app by assumption. rewrite skip_ws_head by reflexivity. cbn.
    rewrite (IHx w3 f (w4 ++ String "," (s ++ rest)) H3) by (first [lia | apply follow_ws; [assumption|reflexivity]]).
    rewrite skip_ws_app by assumption. rewrite skip_ws_head by reflexivity. cbn. rewrite (IHm f rest) by lia. reflexivity.
Qed.

(* a whole text: a rendering between optional whitespace *)
Definition json_text (d : json) (text : string) : Prop :=
  exists w1 s w2, wsp w1 /\ wsp w2 /\ renders max_depth d s /\ text = w1 ++ s ++ w2.

Theorem parse_json_text d text : json_text d text -> parse_json text = JOk (norm d).
Proof.
  intros (w1 & s & w2 & H1 & H2 & Hs & ->). unfold parse_json.
  rewrite (proj1 parser_reads_renderings max_depth d s Hs w1 _ w2 H1).
  - rewrite (skip_ws_all w2 H2). reflexivity.
  - rewrite !slen_app. lia.
  - rewrite <- (sapp_nil_r w2). apply follow_ws; [assumption|reflexivity].
Qed.

(* ---------------------------------------------------------------- member lookup *)

Lemma obj_get_set m k x name :
  obj_get (obj_set m k x) name = if String.eqb k name then Some x else obj_get m name.
Proof.
  induction m as [|[n w] m IH]; cbn [obj_set obj_get].
  - destruct (String.eqb_spec k name); reflexivity.
  - destruct (String.eqb_spec n k) as [E|E]; cbn [obj_get].
    + subst n. destruct (String.eqb_spec k name); reflexivity.
    + rewrite IH. destruct (String.eqb_spec n name) as [E2|E2]; [|reflexivity].
      destruct (String.eqb_spec k name) as [E3|E3]; [congruence|reflexivity].
Qed.

Lemma obj_get_fold ms acc name :
  obj_get (fold_left (fun m kv => obj_set m (fst kv) (snd kv)) ms acc) name =
  match last_member ms name with Some x => Some x | None => obj_get acc name end.
Proof.
  revert acc. induction ms as [|[n w] ms IH]; intros acc; cbn [fold_left last_member fst snd]; [reflexivity|].
  rewrite IH. destruct (last_member ms name); [reflexivity|]. rewrite obj_get_set.
  destruct (String.eqb n name); reflexivity.
Qed.

(* looking a name up in the decoded map = the last member of that name as written *)
Lemma obj_get_dedup ms name : obj_get (dedup ms) name = last_member ms name.
Proof. unfold dedup. rewrite obj_get_fold. destruct (last_member ms name); reflexivity. Qed.

Lemma last_member_norm m name :
  last_member (map normkv m) name = option_map norm (last_member m name).
Proof.
  induction m as [|[n w] m IH]; cbn [map last_member normkv fst snd]; [reflexivity|].
  rewrite IH. destruct (last_member m name); cbn [option_map]; [reflexivity|].
  destruct (String.eqb n name); reflexivity.
Qed.

(* a document without repeated member names is decoded as written *)
Fixpoint names_distinct (d : json) : Prop :=
  match d with
  | JArr l => (fix all (l : list json) : Prop :=
                 match l with [] => True | x :: l' => names_distinct x /\ all l' end) l
  | JObj m => NoDup (map fst m) /\
              (fix all (m : list (string * json)) : Prop :=
                 match m with [] => True | kv :: m' => names_distinct (snd kv) /\ all m' end) m
  | _ => True
  end.

Lemma obj_set_fresh acc k x : ~ In k (map fst acc) -> obj_set acc k x = (acc ++ [(k, x)])%list.
Proof.
  induction acc as [|[n w] acc IH]; cbn [obj_set map fst In app]; [reflexivity|].
  intros H. destruct (String.eqb_spec n k) as [E|E]; [tauto|]. rewrite IH by tauto. reflexivity.
Qed.

Lemma dedup_fold_nodup ms acc :
  NoDup (map fst acc ++ map fst ms)%list ->
  fold_left (fun m kv => obj_set m (fst kv) (snd kv)) ms acc = (acc ++ ms)%list.
Proof.
  revert acc. induction ms as [|[n w] ms IH]; intros acc H; cbn [fold_left fst snd].
  - now rewrite app_nil_r.
  - cbn [map fst] in H. rewrite obj_set_fresh.
    + rewrite IH; [now rewrite <- app_assoc|]. rewrite map_app. cbn [map fst]. rewrite <- app_assoc. exact H.
    + apply NoDup_remove_2 in H. intros X. apply H. apply in_or_app. now left.
Qed.

Lemma dedup_nodup ms : NoDup (map fst ms) -> dedup ms = ms.
Proof. intros H. unfold dedup. now rewrite dedup_fold_nodup. Qed.

Lemma norm_distinct d : names_distinct d -> norm d = d.
Proof.
  revert d. fix IH 1. intros d. destruct d as [| | | |l|m]; cbn [norm names_distinct]; try reflexivity.
  - intros H. f_equal. induction l as [|x l IHl]; cbn [map]; [reflexivity|].
    destruct H as [Hx Hl]. rewrite (IH x Hx), (IHl Hl). reflexivity.
  - intros [Hn H]. f_equal.
    assert (E : map (fun kv : string * json => (fst kv, norm (snd kv))) m = m).
    { clear Hn. induction m as [|[n x] m IHm]; cbn [map fst snd]; [reflexivity|].
      destruct H as [Hx Hm]. cbn [snd] in Hx. rewrite (IH x Hx), (IHm Hm). reflexivity. }
    rewrite E. apply dedup_nodup. exact Hn.
Qed.

(* ---------------------------------------------------------------- navigation *)

(* one access of a chain: the FieldAccessExpr's position, the position of its field name, and
   the name / the digits of the index *)
Inductive xstep := XName (p sp : nat) (name : string) | XIdx (p sp : nat) (data : string).

Definition step_of (x : xstep) : step :=
  match x with XName _ _ n => SName n | XIdx _ _ d => SIdx (Z.to_nat (num_value d)) end.

(* the index of a NumberExpr the lexer can produce (digits only) is not negative *)
Definition xstep_ok (x : xstep) : Prop :=
  match x with XIdx _ _ d => (0 <= num_value d)%Z | XName _ _ _ => True end.

Definition access_node (base : expr) (x : xstep) : expr :=
  match x with
  | XName p sp n => EAccess p base (EStr sp n)
  | XIdx p sp d => EAccess p base (ENum sp d)
  end.

(* base[x1][x2]...[xn] *)
Fixpoint chain (base : expr) (xs : list xstep) : expr :=
  match xs with
  | [] => base
  | x :: xs' => chain (access_node base x) xs'
  end.

(* json(text) of a text whose top-level value is not an object has no members *)
Definition json_top (d : json) : json := match d with JObj _ => d | _ => JObj [] end.

Section Nav.
Variable fo : fops.
Variable re_match : bytes -> bytes -> res bool.
Notation jeval := (jeval fo re_match).
Notation of_json := (of_json fo).

Lemma nth_norm l n :
  match nth_error (map norm l) n with Some x => of_json x | None => Ok (JV (VStr "")) end =
  of_json (norm (nth n l (JStr ""))).
Proof.
  revert n. induction l as [|x l IH]; intros [|n]; cbn [map nth_error nth]; try reflexivity. apply IH.
Qed.

Lemma jeval_access k v base x :
  jeval k v (access_node base x) =
  match jeval k v base with
  | Ok lft => access fo base (match x with XName _ sp n => EStr sp n | XIdx _ sp d => ENum sp d end) lft
  | Err e => Err e | Panic => Panic | OutOfModel => OutOfModel
  end.
Proof. destruct x; reflexivity. Qed.

(* one step: the access twin on the decoded value = the documented step on the document *)
Lemma access_nav base x j0 j1 lv :
  nav1 j0 (step_of x) = Some j1 -> xstep_ok x -> of_json (norm j0) = Ok lv ->
  access fo base (match x with XName _ sp n => EStr sp n | XIdx _ sp d => ENum sp d end) lv =
  of_json (norm j1).
Proof.
  intros Hn Hx Hv. destruct j0 as [| | |s|l|m]; cbn [norm Json.of_json] in Hv.
  - destruct x; discriminate.
  - destruct x; discriminate.
  - destruct x; discriminate.
  - injection Hv as <-. destruct s as [|c s]; [|destruct x; discriminate].
    destruct x; cbn in Hn; injection Hn as <-; reflexivity.
  - injection Hv as <-. destruct x as [p sp n|p sp d]; [discriminate|]. cbn in Hn. injection Hn as <-.
    cbn [access list_access]. unfold index_list. cbn in Hx.
    destruct (Z.ltb_spec (num_value d) 0); [lia|]. apply nth_norm.
  - injection Hv as <-. destruct x as [p sp n|p sp d]; [|discriminate]. cbn in Hn. injection Hn as <-.
    cbn [access dict_access]. rewrite obj_get_dedup. change (fun kv : string * json => (fst kv, norm (snd kv))) with normkv.
    rewrite last_member_norm. destruct (last_member m n); reflexivity.
Qed.

(* a step applies only to values that are decoded without consulting the float oracle *)
Lemma nav1_some_ok j0 s j1 : nav1 j0 s = Some j1 -> exists lv, of_json (norm j0) = Ok lv.
Proof.
  destruct j0 as [| | |t|l|m]; cbn [norm Json.of_json]; try (destruct s; discriminate); intros _; eexists; reflexivity.
Qed.

Theorem navigate_chain k v xs : forall base j0 j,
  jeval k v base = of_json (norm j0) ->
  Forall xstep_ok xs ->
  navigate j0 (map step_of xs) = Some j ->
  jeval k v (chain base xs) = of_json (norm j).
Proof.
  induction xs as [|x xs IH]; intros base j0 j Hb Hok Hn; cbn [map navigate chain] in *.
  - injection Hn as <-. exact Hb.
  - destruct (nav1 j0 (step_of x)) as [j1|] eqn:E1; [|discriminate].
    inversion Hok as [|? ? Hx Hxs]; subst.
    destruct (nav1_some_ok _ _ _ E1) as [lv Hlv].
    apply (IH (access_node base x) j1 j); [|assumption|assumption].
    rewrite jeval_access, Hb, Hlv. apply (access_nav base x j0 j1 lv E1 Hx Hlv).
Qed.

(* the value of json(arg) is the decoded top-level object *)
Lemma jeval_json_call k v p np arg a text d :
  eval fo re_match k v arg = Ok a -> conv_bytes fo a = Some text -> json_text d text ->
  jeval k v (ECall p (EName np "json") [arg]) = of_json (norm (json_top d)).
Proof.
  intros Ha Hc Ht. cbn [Json.jeval]. change (is_json_call (EName np "json")) with true. cbv iota.
  rewrite Ha. unfold func_json. rewrite Hc, (parse_json_text d text Ht).
  destruct d; reflexivity.
Qed.

(* json(arg)[x1]...[xn] = the documented navigation into the document the text denotes *)
Theorem json_navigate_lemma k v p np arg a text d xs j :
  eval fo re_match k v arg = Ok a -> conv_bytes fo a = Some text -> json_text d text ->
  Forall xstep_ok xs ->
  navigate (json_top d) (map step_of xs) = Some j ->
  jeval k v (chain (ECall p (EName np "json") [arg]) xs) = of_json (norm j).
Proof.
  intros Ha Hc Ht Hok Hn.
  apply (navigate_chain k v xs _ (json_top d) j); [|assumption|assumption].
  apply (jeval_json_call k v p np arg a text d Ha Hc Ht).
Qed.

(* where the documented navigation does not apply (a name on an array, an index on an object,
   any step from a non-empty string, a number, a Boolean, null) the twin reports an
   ExecuteError -- or is outside the model when a number outside the float oracle is in the way *)
Lemma chain_err k v xs : forall base e, jeval k v base = Err e -> jeval k v (chain base xs) = Err e.
Proof.
  induction xs as [|x xs IH]; intros base e H; cbn [chain]; [exact H|].
  apply IH. rewrite jeval_access, H. reflexivity.
Qed.
Lemma chain_oom k v xs : forall base, jeval k v base = OutOfModel -> jeval k v (chain base xs) = OutOfModel.
Proof.
  induction xs as [|x xs IH]; intros base H; cbn [chain]; [exact H|].
  apply IH. rewrite jeval_access, H. reflexivity.
Qed.

Lemma access_none base x j0 :
  nav1 j0 (step_of x) = None ->
  match of_json (norm j0) with
  | Ok lv => access fo base (match x with XName _ sp n => EStr sp n | XIdx _ sp d => ENum sp d end) lv
             = Err (EExec (epos base))
  | OutOfModel => True
  | _ => False
  end.
Proof.
  intros Hn. destruct j0 as [| | |s|l|m]; cbn [norm Json.of_json].
  - destruct x; reflexivity.
  - destruct x; reflexivity.
  - destruct (f_parse fo numeral); try exact I. destruct x; reflexivity.
  - destruct s as [|c s]; [destruct x; discriminate|]. destruct x; reflexivity.
  - destruct x; [reflexivity|discriminate].
  - destruct x; [discriminate|reflexivity].
Qed.

Theorem navigate_chain_none k v xs : forall base j0,
  jeval k v base = of_json (norm j0) ->
  Forall xstep_ok xs ->
  navigate j0 (map step_of xs) = None ->
  (exists pos, jeval k v (chain base xs) = Err (EExec pos)) \/ jeval k v (chain base xs) = OutOfModel.
Proof.
  induction xs as [|x xs IH]; intros base j0 Hb Hok Hn; cbn [map navigate chain] in *; [discriminate|].
  inversion Hok as [|? ? Hx Hxs]; subst.
  destruct (nav1 j0 (step_of x)) as [j1|] eqn:E1.
  - destruct (nav1_some_ok _ _ _ E1) as [lv Hlv].
    apply (IH (access_node base x) j1); [|assumption|assumption].
    rewrite jeval_access, Hb, Hlv. apply (access_nav base x j0 j1 lv E1 Hx Hlv).
  - pose proof (access_none base x j0 E1) as A.
    destruct (of_json (norm j0)) as [lv| | |] eqn:E; try contradiction.
    + left. exists (epos base). apply chain_err. rewrite jeval_access, Hb. exact A.
    + right. apply chain_oom. rewrite jeval_access, Hb. reflexivity.
Qed.

End Nav.

(* ---------------------------------------------------------------- the canonical rendering *)

(* a document of the fragment: numerals of the fragment, strings / member names without quote,
   backslash, control bytes and bytes >= 0x80, nested at most [dp] deep *)
Fixpoint jwf (dp : nat) (d : json) {struct d} : Prop :=
  match d with
  | JNull | JBool _ => True
  | JNum t => num_ok t = true
  | JStr s => all_ch str_ch s = true
  | JArr l =>
      match dp with
      | O => False
      | S dp' => (fix all (l : list json) : Prop :=
                    match l with [] => True | x :: l' => jwf dp' x /\ all l' end) l
      end
  | JObj m =>
      match dp with
      | O => False
      | S dp' => (fix all (m : list (string * json)) : Prop :=
                    match m with
                    | [] => True
                    | kv :: m' => (all_ch str_ch (fst kv) = true /\ jwf dp' (snd kv)) /\ all m'
                    end) m
      end
  end.

Lemma wsp_nil : wsp "".
Proof. reflexivity. Qed.

Definition render_elems : list json -> string :=
  fix elems (l : list json) : string :=
    match l with
    | [] => "]"
    | [x] => render x ++ "]"
    | x :: l' => render x ++ "," ++ elems l'
    end.
Definition render_membs : list (string * json) -> string :=
  fix membs (m : list (string * json)) : string :=
    match m with
    | [] => "}"
    | [(n, x)] => """" ++ n ++ """:" ++ render x ++ "}"
    | (n, x) :: m' => """" ++ n ++ """:" ++ render x ++ "," ++ membs m'
    end.

Lemma render_elems_renders dp x l :
  (forall y, In y (x :: l) -> renders dp y (render y)) -> renders_elems dp (x :: l) (render_elems (x :: l)).
Proof.
  revert x. induction l as [|y l IHl]; intros x H.
  - apply (RE_last dp x "" (render x) "" wsp_nil wsp_nil). apply H. now left.
  - apply (RE_cons dp x (y :: l) "" (render x) "" _ wsp_nil wsp_nil); [apply H; now left|].
    apply IHl. intros z Hz. apply H. now right.
Qed.

Lemma render_membs_renders dp n x m :
  (forall kv, In kv ((n, x) :: m) -> all_ch str_ch (fst kv) = true /\ renders dp (snd kv) (render (snd kv))) ->
  renders_membs dp ((n, x) :: m) (render_membs ((n, x) :: m)).
Proof.
  revert n x. induction m as [|[n2 y] m IHm]; intros n x H; destruct (H (n, x) (or_introl eq_refl)) as [Hn Hx];
    cbn [fst snd] in Hn, Hx.
  - apply (RM_last dp n x "" "" "" (render x) "" wsp_nil wsp_nil wsp_nil wsp_nil Hn Hx).
  - apply (RM_cons dp n x ((n2, y) :: m) "" "" "" (render x) "" _ wsp_nil wsp_nil wsp_nil wsp_nil Hn Hx).
    apply IHm. intros z Hz. apply H. now right.
Qed.

Lemma render_renders : forall d dp, jwf dp d -> renders dp d (render d).
Proof.
  fix IH 1. intros d dp H. destruct d as [|b|t|s|l|m].
  - apply R_null.
  - destruct b; [apply R_true | apply R_false].
  - apply R_num. exact H.
  - apply (R_str dp s H).
  - destruct dp as [|dp]; [destruct H|]. cbn [jwf] in H.
    assert (A : forall y, In y l -> renders dp y (render y)).
    { induction l as [|a l IHl]; intros y Hy; [destruct Hy|]. destruct H as [Ha Hl].
      destruct Hy as [<-|Hy]; [apply (IH a dp Ha) | apply (IHl Hl y Hy)]. }
    destruct l as [|x l].
    + apply (R_arr0 dp "" wsp_nil).
    + change (render (JArr (x :: l))) with (String "[" (render_elems (x :: l))).
      apply R_arr. apply render_elems_renders. exact A.
  - destruct dp as [|dp]; [destruct H|]. cbn [jwf] in H.
    assert (A : forall kv, In kv m -> all_ch str_ch (fst kv) = true /\ renders dp (snd kv) (render (snd kv))).
    { induction m as [|a m IHm]; intros y Hy; [destruct Hy|]. destruct H as [[Hn Ha] Hm].
      destruct Hy as [<-|Hy]; [split; [exact Hn | apply (IH (snd a) dp Ha)] | apply (IHm Hm y Hy)]. }
    destruct m as [|[n x] m].
    + apply (R_obj0 dp "" wsp_nil).
    + change (render (JObj ((n, x) :: m))) with (String "{" (render_membs ((n, x) :: m))).
      apply R_obj. apply render_membs_renders. exact A.
Qed.

Theorem parse_render d : jwf max_depth d -> parse_json (render d) = JOk (norm d).
Proof.
  intros H. apply parse_json_text. exists "", (render d), "".
  split; [reflexivity|]. split; [reflexivity|]. split; [apply render_renders; exact H|].
  cbn [append]. now rewrite sapp_nil_r.
Qed.

Theorem parse_render_distinct d :
  jwf max_depth d -> names_distinct d -> parse_json (render d) = JOk d.
Proof. intros H Hd. rewrite (parse_render d H), (norm_distinct d Hd). reflexivity. Qed.
