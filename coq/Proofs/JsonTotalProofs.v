(* Proofs/JsonTotalProofs.v -- the JSON access twins (row and batch) never reach a Panic outcome
   on the trees the parser can build (index literals are digit strings, hence not negative);
   a hand-built tree with a negative index does panic (witness in Properties/C10.v). *)
From Coq Require Import List String Ascii ZArith Bool Arith Lia.
Import ListNotations.
From KV Require Import Base.Bytes Base.Num Model.Ast Model.Value Model.Eval Model.EvalVec Model.Json.
From KV Require Import Proofs.NoPanicProofs Proofs.NoPanicVecProofs.
Local Open Scope string_scope.

(* every index literal of the access chain is >= 0 *)
Fixpoint idx_ok (e : expr) : Prop :=
  match e with
  | EAccess _ l fn => idx_ok l /\ match fn with ENum _ d => (0 <= num_value d)%Z | _ => True end
  | ERef _ _ d => idx_ok d
  | _ => True
  end.

Section JsonTotal.
Variable fo : fops.
Variable re_match : bytes -> bytes -> res bool.
Hypothesis re_safe : forall p t, safe (re_match p t).

Lemma of_json_safe j : safe (of_json fo j).
Proof. destruct j; cbn; try apply safe_ok. destruct (f_parse fo numeral); first [apply safe_ok | apply safe_oom]. Qed.

Lemma func_json_safe apos a : safe (func_json fo apos a).
Proof.
  unfold func_json. destruct (conv_bytes fo a); [|apply safe_err].
  destruct (parse_json b) as [d| |]; try apply safe_ok; try apply safe_oom. destruct d; apply safe_ok.
Qed.

Lemma index_list_safe {A} idx (l : list A) conv :
  (0 <= idx)%Z -> (forall x, safe (conv x)) -> safe (index_list fo idx l conv).
Proof.
  intros H Hc. unfold index_list. destruct (Z.ltb_spec idx 0); [lia|].
  destruct (nth_error l (Z.to_nat idx)); [apply Hc | apply safe_ok].
Qed.

Lemma dict_access_safe lpos name lv : safe (dict_access fo lpos name lv).
Proof.
  destruct lv as [v|m|l]; cbn; try apply safe_err.
  - destruct v; try apply safe_err. destruct s; [apply safe_ok | apply safe_err].
  - destruct (obj_get m name); [apply of_json_safe | apply safe_ok].
Qed.

Lemma list_access_safe lpos idx lv : (0 <= idx)%Z -> safe (list_access fo lpos idx lv).
Proof.
  intros H. destruct lv as [v|m|l]; cbn [list_access]; try apply safe_err.
  - destruct v; try apply safe_err; try (apply index_list_safe; [assumption|intros; apply safe_ok]).
    destruct s; [apply safe_ok | apply safe_err].
  - apply index_list_safe; [assumption|apply of_json_safe].
Qed.

Lemma access_safe l fn lv :
  match fn with ENum _ d => (0 <= num_value d)%Z | _ => True end -> safe (access fo l fn lv).
Proof.
  intros H. destruct fn; cbn [access]; try apply safe_err.
  - apply dict_access_safe.
  - apply list_access_safe. exact H.
Qed.

Lemma lift_safe r : safe r -> safe (lift fo r).
Proof. unfold safe. destruct r; cbn; congruence. Qed.

Theorem jeval_never_panics k v e : idx_ok e -> safe (jeval fo re_match k v e).
Proof.
  induction e; intros Hok;
    try (apply lift_safe; apply (eval_never_panics fo re_match re_safe)).
  - (* call *) cbn [jeval].
    destruct e; try (apply lift_safe; apply (eval_never_panics fo re_match re_safe)).
    destruct args as [|a [|b args]]; try (apply lift_safe; apply (eval_never_panics fo re_match re_safe)).
    destruct (is_json_call _); [|apply lift_safe; apply (eval_never_panics fo re_match re_safe)].
    pose proof (eval_never_panics fo re_match re_safe k v a) as Ha.
    destruct (eval fo re_match k v a); try (unfold safe; congruence). apply func_json_safe.
  - (* reference *) cbn [jeval]. apply IHe. exact Hok.
  - (* access *) cbn [jeval]. destruct Hok as [Hl Hf]. specialize (IHe1 Hl).
    destruct (jeval fo re_match k v e1); try (unfold safe; congruence). apply access_safe. exact Hf.
Qed.

Lemma jmap_safe {A} (f : A -> res (jv fo)) xs : (forall x, safe (f x)) -> safe (jmap fo f xs).
Proof.
  intros Hf. induction xs as [|x xs IH]; cbn [jmap]; [apply safe_ok|].
  pose proof (Hf x) as Hx. destruct (f x); try (unfold safe in *; congruence).
  destruct (jmap fo f xs); try (unfold safe in *; congruence).
Qed.

Lemma lift_col_safe r : safe r -> safe (lift_col fo r).
Proof. unfold safe. destruct r; cbn; congruence. Qed.

Theorem jeval_batch_never_panics e ch : idx_ok e -> safe (jeval_batch fo re_match e ch).
Proof.
  revert ch. induction e; intros ch Hok;
    try (apply lift_col_safe; apply (eval_batch_never_panics fo re_match true re_safe)).
  - cbn [jeval_batch].
    destruct e; try (apply lift_col_safe; apply (eval_batch_never_panics fo re_match true re_safe)).
    destruct args as [|a [|b args]]; try (apply lift_col_safe; apply (eval_batch_never_panics fo re_match true re_safe)).
    destruct (is_json_call _); [|apply lift_col_safe; apply (eval_batch_never_panics fo re_match true re_safe)].
    pose proof (eval_batch_never_panics fo re_match true re_safe a ch) as Ha.
    destruct (eval_batch fo re_match true a ch); try (unfold safe; congruence).
    apply jmap_safe. intros x. apply func_json_safe.
  - cbn [jeval_batch]. apply IHe. exact Hok.
  - cbn [jeval_batch]. destruct Hok as [Hl Hf]. specialize (IHe1 ch Hl).
    destruct (jeval_batch fo re_match e1 ch); try (unfold safe; congruence).
    destruct e2; try apply safe_err; apply jmap_safe; intros x; apply access_safe; exact Hf.
Qed.

End JsonTotal.
