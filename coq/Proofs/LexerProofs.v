(* Proofs/LexerProofs.v -- lemmas about the lexer twin (Model/Lexer.v) for C16.

   Part 1  byte-string lemmas (append, length, substring, get).
   Part 2  the loop invariant of Lexer.Split and [lex_tokens_ok]: every token of every query
           satisfies Spec [tok_ok] (true offset and text).
   Part 3  [lex_render_expected]: a sequence of valid lexemes written with any admissible
           spacing lexes to exactly the lexemes' tokens; spacing irrelevance follows.
   Part 4  [lex_tiling]: for every query, blanks and token texts tile the query in token order
           (no overlap, nothing dropped); [lex_ordered] follows. *)
From Coq Require Import String Ascii List Bool Arith Lia.
From KV Require Import Base.Bytes Model.Token Model.Lexer Spec.LexSpec.
Import ListNotations.
Local Open Scope string_scope.

(* ================================================================== Part 1: byte strings *)

Lemma sapp_nil_r : forall a, a ++ "" = a.
Proof. induction a; cbn; congruence. Qed.

Lemma sapp_assoc : forall a b c, (a ++ b) ++ c = a ++ (b ++ c).
Proof. induction a; cbn; intros; congruence. Qed.

Lemma slength_app : forall a b, String.length (a ++ b) = String.length a + String.length b.
Proof. induction a; cbn; intros; auto. Qed.

Lemma slength_snoc : forall a c, String.length (a ++ str1 c) = S (String.length a).
Proof. intros. rewrite slength_app. cbn. lia. Qed.

Lemma substring_skip : forall a b n, substring (String.length a) n (a ++ b) = substring 0 n b.
Proof. induction a; cbn; intros; auto. Qed.

Lemma substring_0_app : forall b c, substring 0 (String.length b) (b ++ c) = b.
Proof.
  induction b; cbn; intros.
  - destruct c; reflexivity.
  - rewrite IHb. reflexivity.
Qed.

Lemma substring_mid : forall a b c,
  substring (String.length a) (String.length b) (a ++ b ++ c) = b.
Proof. intros. rewrite substring_skip. apply substring_0_app. Qed.

Lemma get_app_r : forall a b n, get (String.length a + n) (a ++ b) = get n b.
Proof. induction a; cbn; intros; auto. Qed.

Lemma get_app_here : forall a c b, get (String.length a) (a ++ String c b) = Some c.
Proof. intros. replace (String.length a) with (String.length a + 0) by lia. rewrite get_app_r. reflexivity. Qed.

Lemma get_0_shead : forall s c d, get 0 s = Some c -> shead s d = c.
Proof. destruct s; cbn; intros; congruence. Qed.

Lemma sforall_app : forall p a b, sforall p (a ++ b) = sforall p a && sforall p b.
Proof. induction a; cbn; intros; auto. rewrite IHa. apply andb_assoc. Qed.

Lemma sexists_app : forall p a b, sexists p (a ++ b) = sexists p a || sexists p b.
Proof. induction a; cbn; intros; auto. rewrite IHa. apply orb_assoc. Qed.

Lemma smap_length : forall f s, String.length (smap f s) = String.length s.
Proof. induction s; cbn; auto. Qed.

Lemma to_lower_length : forall s, String.length (to_lower s) = String.length s.
Proof. intros. apply smap_length. Qed.

Lemma smap_app : forall f a b, smap f (a ++ b) = smap f a ++ smap f b.
Proof. induction a; cbn; intros; congruence. Qed.

Lemma last_char_snoc : forall a c, last_char (a ++ str1 c) = c.
Proof.
  induction a; cbn; intros; auto.
  destruct (a0 ++ str1 c) eqn:E.
  - destruct a0; discriminate.
  - rewrite <- E. apply IHa.
Qed.

Lemma last_char_split : forall s c, last_char s = c -> c <> zero_char ->
  exists s', s = s' ++ str1 c.
Proof.
  induction s; cbn; intros.
  - congruence.
  - destruct s.
    + exists "". unfold str1. cbn. congruence.
    + destruct (IHs c H H0) as [s' E]. exists (String a s'). cbn. rewrite <- E. reflexivity.
Qed.

(* trim_right yields a prefix *)
Lemma trim_right_prefix : forall s, exists ws, s = trim_right s ++ ws.
Proof.
  induction s; cbn.
  - exists "". reflexivity.
  - destruct IHs as [ws E]. destruct (trim_right s) eqn:T.
    + destruct (is_space a).
      * exists (String a s). reflexivity.
      * exists s. reflexivity.
    + exists ws. cbn. cbn in E. congruence.
Qed.

Lemma trim_right_nonempty : forall c s, is_space c = false -> trim_right (String c s) <> "".
Proof.
  intros. cbn. destruct (trim_right s); [rewrite H|]; discriminate.
Qed.

Lemma trim_left_id : forall c s, is_space c = false -> trim_left (String c s) = String c s.
Proof. intros. cbn. rewrite H. reflexivity. Qed.

(* ================================================================== character classes *)

Ltac all_chars c := destruct c as [[] [] [] [] [] [] [] []].

Lemma word_char_not_space : forall c, word_char c = true -> is_space c = false.
Proof. intro c. all_chars c; cbn; congruence. Qed.

Lemma quote_not_space : forall c, is_quote_char c = true -> is_space c = false.
Proof. intro c. all_chars c; cbn; congruence. Qed.

Lemma class_default_word : forall c, char_class true c = CDefault -> word_char c = true.
Proof. intros. unfold word_char. rewrite H. reflexivity. Qed.

Lemma class_quote : forall c, char_class true c = CQuote ->
  is_quote_char c = true /\ quote_for STRING c = true.
Proof. intro c. all_chars c; cbn; intros; try discriminate; auto. Qed.

Lemma class_backq : forall c, char_class true c = CBackq ->
  is_quote_char c = true /\ quote_for NAME c = true.
Proof. intro c. all_chars c; cbn; intros; try discriminate; auto. Qed.

Lemma class_not_quote : forall c, char_class true c <> CQuote -> char_class true c <> CBackq ->
  is_quote_char c = false.
Proof. intro c. all_chars c; cbn; intros; congruence. Qed.

Lemma quote_neq : forall a b, is_quote_char a = true -> is_quote_char b = false ->
  Ascii.eqb a b = false.
Proof.
  intros. destruct (Ascii.eqb a b) eqn:E; auto.
  apply Ascii.eqb_eq in E. subst. congruence.
Qed.

Lemma class_oper_single : forall c nx, char_class true c = COper -> single_op true c nx = true ->
  sym_kind (str1 c) = Some OPERATOR /\
  (eq_prefix_sym (str1 c) = true -> is_eq_char nx = false).
Proof.
  intros c nx. unfold is_eq_char.
  all_chars c; cbn; intros H1 H2; try discriminate; split; auto; try discriminate;
    intros _; destruct (Ascii.eqb nx "="); cbn in *; congruence.
Qed.

Lemma class_punct : forall c i, char_class true c = CPunct ->
  data (punct_token c i) = str1 c /\ pos (punct_token c i) = i /\
  sym_kind (str1 c) = Some (tp (punct_token c i)) /\ eq_prefix_sym (str1 c) = false.
Proof. intros c i. all_chars c; cbn; intros; try discriminate; auto. Qed.

Lemma class_separ : forall c i, char_class true c = CSepar ->
  data (sep_token c i) = str1 c /\ pos (sep_token c i) = i /\
  sym_kind (str1 c) = Some (tp (sep_token c i)) /\ eq_prefix_sym (str1 c) = false.
Proof. intros c i. all_chars c; cbn; intros; try discriminate; auto. Qed.

(* ================================================================== Part 2: every token is ok *)

Lemma cur_eq : forall q p0 w rest st,
  q = p0 ++ w ++ rest -> tokStart st = String.length p0 -> tokLen st = String.length w ->
  cur q (String.length q) st = w.
Proof.
  intros. unfold cur. rewrite H0, H1. subst q.
  rewrite !slength_app.
  replace (Nat.min (String.length w)
             (String.length p0 + (String.length w + String.length rest) - String.length p0))
    with (String.length w) by lia.
  apply substring_mid.
Qed.

(* a word token built from the bytes [w] that start at offset |p0| *)
Lemma build_token_ok : forall q p0 w rest t,
  q = p0 ++ w ++ rest ->
  is_space (shead w "a"%char) = false ->
  build_token w (String.length p0) = Some t -> tok_ok q t.
Proof.
  intros q p0 w rest t Hq Hhd Hb. unfold build_token in Hb.
  destruct (to_lower (trim_space w) =? "") eqn:E; [discriminate|].
  inversion Hb; subst t; clear Hb.
  right; right. unfold word_ok; cbn [data pos tp].
  apply String.eqb_neq in E.
  split; [exact E|]. split; [|reflexivity].
  assert (exists ws, w = trim_space w ++ ws) as [ws Hw].
  { unfold trim_space. destruct w as [|c w'].
    - exists "". reflexivity.
    - cbn in Hhd. rewrite (trim_left_id _ _ Hhd). apply trim_right_prefix. }
  rewrite to_lower_length.
  rewrite Hq. rewrite Hw at 2. rewrite sapp_assoc.
  rewrite substring_mid. reflexivity.
Qed.

Lemma symbol_ok_at : forall q pre s rest k,
  q = pre ++ s ++ rest -> sym_kind s = Some k ->
  (eq_prefix_sym s = true -> is_eq_char (shead rest zero_char) = false \/ rest = "") ->
  tok_ok q (Tok k s (String.length pre)).
Proof.
  intros. left. unfold symbol_ok; cbn [data pos tp]. split; [assumption|]. split.
  - subst q. apply substring_mid.
  - intros Hp c Hg. destruct s as [|c0 [|? ?]]; try discriminate Hp.
    subst q. cbn in Hg.
    replace (S (String.length pre)) with (String.length pre + 1) in Hg by lia.
    rewrite get_app_r in Hg. cbn in Hg.
    destruct (H1 Hp) as [E|E].
    + rewrite (get_0_shead _ _ zero_char Hg) in E. exact E.
    + subst rest. discriminate.
Qed.

(* the loop invariant: [pre] is the part of the query already consumed *)
Inductive Inv (q pre : string) (st : lstate) : Prop :=
| Inv_word : forall p0 w,
    pre = p0 ++ w -> sforall word_char w = true ->
    tokStart st = String.length p0 -> tokLen st = String.length w ->
    tokStartPos st = String.length p0 -> strStart st = false ->
    prev st = last_char pre -> Forall (tok_ok q) (ret st) -> Inv q pre st
| Inv_str : forall p0 c w,
    pre = p0 ++ String c w -> is_quote_char c = true -> occurs c w = false ->
    tokStart st = S (String.length p0) -> tokLen st = String.length w ->
    tokStartPos st = String.length p0 -> strStart st = true -> strStartChar st = c ->
    prev st = last_char pre -> Forall (tok_ok q) (ret st) -> Inv q pre st.

Lemma inv_fresh : forall q pre c sc pv toks o,
  Forall (tok_ok q) toks ->
  Inv q (pre ++ str1 c)
      (set_prev (LS (S (String.length pre)) 0 (S (String.length pre)) false sc pv toks o) c).
Proof.
  intros. apply Inv_word with (p0 := pre ++ str1 c) (w := ""); cbn;
    rewrite ?sapp_nil_r, ?slength_snoc, ?last_char_snoc; auto.
Qed.

Lemma emit_word_ok : forall q p0 w rest st,
  q = p0 ++ w ++ rest -> sforall word_char w = true ->
  tokStart st = String.length p0 -> tokLen st = String.length w ->
  tokStartPos st = String.length p0 -> Forall (tok_ok q) (ret st) ->
  Forall (tok_ok q) (emit_word q (String.length q) st).
Proof.
  intros. unfold emit_word. rewrite (cur_eq q p0 w rest st) by assumption.
  rewrite H3. destruct (build_token w (String.length p0)) eqn:B; [|assumption].
  apply Forall_app. split; [assumption|]. constructor; [|constructor].
  eapply build_token_ok; eauto.
  destruct w; cbn in *; [reflexivity|].
  apply andb_prop in H0. apply word_char_not_space. tauto.
Qed.

Lemma Forall_snoc : forall (A : Type) (P : A -> Prop) l x, Forall P l -> P x -> Forall P (l ++ [x])%list.
Proof. intros. apply Forall_app. split; auto. Qed.

Lemma eq_token_ok : forall q pre rest,
  q = pre ++ String "="%char rest ->
  tok_ok q (eq_token (last_char pre) (String.length pre)).
Proof.
  intros q pre rest Hq.
  assert (Hdef : tok_ok q (Tok OPERATOR "=" (String.length pre))).
  { apply symbol_ok_at with (rest := rest); auto. cbn. discriminate. }
  assert (Htwo : forall p, last_char pre = p -> p <> zero_char ->
                 sym_kind (String p "=") = Some OPERATOR ->
                 tok_ok q (Tok OPERATOR (String p "=") (String.length pre - 1))).
  { intros p Hl Hz Hs. destruct (last_char_split _ _ Hl Hz) as [pre' E].
    subst pre. rewrite slength_snoc.
    replace (S (String.length pre') - 1) with (String.length pre') by lia.
    apply symbol_ok_at with (rest := rest); auto.
    - rewrite Hq. rewrite sapp_assoc. reflexivity.
    - cbn. discriminate. }
  unfold eq_token.
  destruct (last_char pre) as [[] [] [] [] [] [] [] []] eqn:L; try exact Hdef;
    apply Htwo; auto; discriminate.
Qed.

Lemma step_inv : forall q pre c rest st,
  q = pre ++ String c rest -> Inv q pre st ->
  Inv q (pre ++ str1 c)
      (lex_step true q (String.length q) (String.length pre) c (shead rest zero_char) st).
Proof.
  intros q pre c rest st Hq HI.
  assert (Hq' : q = pre ++ str1 c ++ rest) by (rewrite Hq; reflexivity).
  destruct HI as [p0 w Hpre Hw Hts Htl Htp Hss Hpv Hok | p0 sc w Hpre Hsc Hocc Hts Htl Htp Hss Hch Hpv Hok].
  - (* outside quotes *)
    assert (Hq0 : q = p0 ++ w ++ String c rest) by (rewrite Hq, Hpre, sapp_assoc; reflexivity).
    assert (Hem : Forall (tok_ok q) (emit_word q (String.length q) st))
      by (eapply emit_word_ok; eauto).
    unfold lex_step. destruct (char_class true c) eqn:Hc.
    + unfold step_space. rewrite Hss. apply inv_fresh. exact Hem.
    + (* opening quote *)
      unfold step_quote. rewrite Hss. cbn [negb].
      destruct (class_quote _ Hc) as [Hqc _].
      apply Inv_str with (p0 := pre) (c := c) (w := ""); cbn;
        rewrite ?last_char_snoc; auto.
    + unfold step_quote. rewrite Hss. cbn [negb].
      destruct (class_backq _ Hc) as [Hqc _].
      apply Inv_str with (p0 := pre) (c := c) (w := ""); cbn;
        rewrite ?last_char_snoc; auto.
    + (* operator characters *)
      unfold step_oper. rewrite Hss.
      destruct (single_op true c (shead rest zero_char)) eqn:Hs.
      * apply inv_fresh. apply Forall_snoc; [exact Hem|].
        destruct (class_oper_single _ _ Hc Hs) as [Hk Hp].
        apply symbol_ok_at with (rest := rest); auto.
      * destruct (Ascii.eqb c "=") eqn:He.
        -- apply Ascii.eqb_eq in He. subst c.
           apply inv_fresh. apply Forall_snoc; [exact Hem|].
           rewrite Hpv. eapply eq_token_ok; eauto.
        -- apply inv_fresh. exact Hem.
    + unfold step_single. rewrite Hss. apply inv_fresh. apply Forall_snoc; [exact Hem|].
      destruct (class_punct c (String.length pre) Hc) as (Hd & Hp & Hk & He).
      destruct (punct_token c (String.length pre)) as [k d p] eqn:T. cbn in Hd, Hp, Hk. subst d p.
      apply symbol_ok_at with (rest := rest); auto. rewrite He. discriminate.
    + unfold step_single. rewrite Hss. apply inv_fresh. apply Forall_snoc; [exact Hem|].
      destruct (class_separ c (String.length pre) Hc) as (Hd & Hp & Hk & He).
      destruct (sep_token c (String.length pre)) as [k d p] eqn:T. cbn in Hd, Hp, Hk. subst d p.
      apply symbol_ok_at with (rest := rest); auto. rewrite He. discriminate.
    + (* word character *)
      apply Inv_word with (p0 := p0) (w := w ++ str1 c); cbn;
        rewrite ?slength_snoc, ?last_char_snoc; auto.
      * rewrite Hpre, sapp_assoc. reflexivity.
      * rewrite sforall_app, Hw. cbn. rewrite (class_default_word _ Hc). reflexivity.
  - (* inside a quoted literal *)
    assert (Hbump : Ascii.eqb sc c = false ->
                    Inv q (pre ++ str1 c) (set_prev (bump st) c)).
    { intros Hne. apply Inv_str with (p0 := p0) (c := sc) (w := w ++ str1 c); cbn;
        rewrite ?slength_snoc, ?last_char_snoc; auto.
      - rewrite Hpre, sapp_assoc. reflexivity.
      - unfold occurs in *. rewrite sexists_app, Hocc. cbn. rewrite Hne. reflexivity. }
    assert (Hclose : forall k, quote_for k c = true -> Ascii.eqb sc c = true ->
              Inv q (pre ++ str1 c)
                (set_prev (LS (S (String.length pre)) 0 (S (String.length pre)) false
                   (strStartChar st) (prev st)
                   (ret st ++ [Tok k (cur q (String.length q) st) (tokStartPos st)])%list
                   (oom st)) c)).
    { intros k Hk He. apply Ascii.eqb_eq in He. subst c.
      apply inv_fresh. apply Forall_snoc; [exact Hok|].
      assert (Hq0 : q = (p0 ++ str1 sc) ++ w ++ String sc rest).
      { rewrite Hq, Hpre, !sapp_assoc. reflexivity. }
      rewrite (cur_eq q (p0 ++ str1 sc) w (String sc rest) st); auto;
        [|rewrite slength_snoc; assumption].
      rewrite Htp. right; left. exists sc. cbn [tp data pos].
      split; [exact Hk|]. split; [|split; [|split]].
      - rewrite Hq, Hpre, sapp_assoc. apply get_app_here.
      - rewrite Hq0. rewrite <- (slength_snoc p0 sc). apply substring_mid.
      - rewrite Hq0. rewrite <- (slength_snoc p0 sc). rewrite <- sapp_assoc.
        rewrite <- slength_app. apply get_app_here.
      - exact Hocc. }
    unfold lex_step. destruct (char_class true c) eqn:Hc.
    + unfold step_space. rewrite Hss. apply Hbump. apply quote_neq; auto.
      apply class_not_quote; rewrite Hc; discriminate.
    + unfold step_quote. rewrite Hss. cbn [negb].
      destruct (Ascii.eqb (strStartChar st) c) eqn:He; rewrite Hch in He.
      * apply Hclose; auto. apply (class_quote _ Hc).
      * apply Hbump; auto.
    + unfold step_quote. rewrite Hss. cbn [negb].
      destruct (Ascii.eqb (strStartChar st) c) eqn:He; rewrite Hch in He.
      * apply Hclose; auto. apply (class_backq _ Hc).
      * apply Hbump; auto.
    + unfold step_oper. rewrite Hss. apply Hbump. apply quote_neq; auto.
      apply class_not_quote; rewrite Hc; discriminate.
    + unfold step_single. rewrite Hss. apply Hbump. apply quote_neq; auto.
      apply class_not_quote; rewrite Hc; discriminate.
    + unfold step_single. rewrite Hss. apply Hbump. apply quote_neq; auto.
      apply class_not_quote; rewrite Hc; discriminate.
    + apply Hbump. apply quote_neq; auto.
      apply class_not_quote; rewrite Hc; discriminate.
Qed.

Lemma loop_inv : forall rest q pre st,
  q = pre ++ rest -> Inv q pre st ->
  Inv q q (lex_loop true q (String.length q) (String.length pre) rest st).
Proof.
  induction rest as [|c rest IH]; intros q pre st Hq HI.
  - cbn. rewrite sapp_nil_r in Hq. subst pre. exact HI.
  - cbn [lex_loop].
    rewrite <- (slength_snoc pre c). apply IH.
    + rewrite Hq, sapp_assoc. reflexivity.
    + apply step_inv; assumption.
Qed.

Lemma init_inv : forall q, Inv q "" init_state.
Proof.
  intros. apply Inv_word with (p0 := "") (w := ""); cbn; auto.
Qed.

Lemma finish_ok : forall q st,
  Inv q q st -> Forall (tok_ok q) (ret (lex_finish true q (String.length q) st)).
Proof.
  intros q st HI. unfold lex_finish.
  destruct HI as [p0 w Hpre Hw Hts Htl Htp Hss Hpv Hok | p0 sc w Hpre Hsc Hocc Hts Htl Htp Hss Hch Hpv Hok].
  - rewrite Hss. cbn [andb].
    destruct (Nat.ltb 0 (tokLen st)); cbn [ret]; [|assumption].
    eapply emit_word_ok with (rest := ""); eauto. rewrite sapp_nil_r. assumption.
  - rewrite Hss. cbn [andb]. cbn [tokLen Nat.ltb Nat.leb ret tokStart tokStartPos].
    unfold emit_word. cbn [tokStartPos ret].
    rewrite (cur_eq q p0 (String sc w) "");
      [|rewrite sapp_nil_r; assumption|cbn; assumption|cbn; congruence].
    rewrite Htp.
    destruct (build_token (String sc w) (String.length p0)) eqn:B; [|assumption].
    apply Forall_snoc; [assumption|].
    eapply build_token_ok with (rest := ""); eauto.
    + rewrite sapp_nil_r. assumption.
    + cbn. apply quote_not_space. assumption.
Qed.

(* every token of every query carries its true offset and text *)
Lemma lex_tokens_ok : forall q t, In t (lex q) -> tok_ok q t.
Proof.
  intros q t Hin. unfold lex, lex_state in Hin.
  assert (H : Forall (tok_ok q)
                (ret (lex_finish true q (String.length q)
                        (lex_loop true q (String.length q) 0 q init_state)))).
  { apply finish_ok. apply (loop_inv q q "" init_state); [reflexivity|apply init_inv]. }
  rewrite Forall_forall in H. apply H. exact Hin.
Qed.

(* ================================================================== Part 3: rendered lexemes *)

(* the loop with an explicit byte [follow] that comes after [x] (look-ahead of its last byte) *)
Fixpoint loop_f (q : string) (len i : nat) (x : string) (follow : ascii) (st : lstate) : lstate :=
  match x with
  | EmptyString => st
  | String c x' => loop_f q len (S i) x' follow (lex_step true q len i c (shead x' follow) st)
  end.

Lemma lex_loop_f : forall x q len i st,
  lex_loop true q len i x st = loop_f q len i x zero_char st.
Proof. induction x; cbn; intros; auto. Qed.

Lemma shead_app : forall a b f, shead (a ++ b) f = shead a (shead b f).
Proof. destruct a; reflexivity. Qed.

Lemma loop_f_app : forall a b q len i f st,
  loop_f q len i (a ++ b) f st =
  loop_f q len (i + String.length a) b f (loop_f q len i a (shead b f) st).
Proof.
  induction a; cbn; intros.
  - rewrite Nat.add_0_r. reflexivity.
  - rewrite IHa. rewrite shead_app. replace (S i + String.length a0) with (i + S (String.length a0)) by lia.
    reflexivity.
Qed.

Definition flush_toks (w : string) (p : nat) : list token :=
  match build_token w p with Some t => [t] | None => [] end.

Lemma emit_word_flush : forall q len st,
  emit_word q len st = (ret st ++ flush_toks (cur q len st) (tokStartPos st))%list.
Proof.
  intros. unfold emit_word, flush_toks. destruct (build_token _ _); [reflexivity|].
  rewrite app_nil_r. reflexivity.
Qed.

Lemma trim_right_id : forall s, sforall (fun c => negb (is_space c)) s = true -> trim_right s = s.
Proof.
  induction s; cbn; intros; auto.
  apply andb_prop in H. destruct H as [Ha Hs]. rewrite (IHs Hs).
  destruct s; [|reflexivity]. destruct (is_space a); [discriminate|reflexivity].
Qed.

Lemma sforall_impl : forall (p r : ascii -> bool) s,
  (forall c, p c = true -> r c = true) -> sforall p s = true -> sforall r s = true.
Proof.
  induction s; cbn; intros; auto. apply andb_prop in H0. destruct H0.
  rewrite (H _ H0), IHs; auto.
Qed.

Lemma trim_space_word : forall w, sforall word_char w = true -> trim_space w = w.
Proof.
  intros. unfold trim_space. destruct w as [|c w]; [reflexivity|].
  cbn in H. apply andb_prop in H. destruct H as [Hc Hw].
  rewrite trim_left_id by (apply word_char_not_space; assumption).
  apply trim_right_id. cbn. rewrite (word_char_not_space _ Hc). cbn.
  eapply sforall_impl; [|exact Hw]. intros. rewrite word_char_not_space; auto.
Qed.

Lemma flush_word : forall w p, w <> "" -> sforall word_char w = true ->
  flush_toks w p = [lexeme_token (LWord w) p].
Proof.
  intros. unfold flush_toks, build_token. rewrite trim_space_word by assumption.
  destruct (to_lower w =? "") eqn:E; [|reflexivity].
  apply String.eqb_eq in E. destruct w; [congruence|discriminate].
Qed.

Lemma flush_empty : forall p, flush_toks "" p = [].
Proof. reflexivity. Qed.

(* the state between two lexemes: outside quotes, a word [pend] that begins at |p0| pending *)
Record Bnd (q p0 pend : string) (toks : list token) (st : lstate) : Prop := {
  b_word : sforall word_char pend = true;
  b_ts : tokStart st = String.length p0;
  b_tl : tokLen st = String.length pend;
  b_tp : tokStartPos st = String.length p0;
  b_ss : strStart st = false;
  b_pv : prev st = last_char (p0 ++ pend);
  b_ret : ret st = toks
}.

Lemma bnd_fresh : forall q pre c sc pv toks o,
  Bnd q (pre ++ str1 c) "" toks
      (set_prev (LS (S (String.length pre)) 0 (S (String.length pre)) false sc pv toks o) c).
Proof.
  intros. constructor; cbn; rewrite ?sapp_nil_r, ?slength_snoc, ?last_char_snoc; auto.
Qed.

Lemma step_word_char : forall q len i p0 pend toks st c nx,
  Bnd q p0 pend toks st -> word_char c = true ->
  Bnd q p0 (pend ++ str1 c) toks (lex_step true q len i c nx st).
Proof.
  intros q len i p0 pend toks st c nx [] Hc. unfold lex_step.
  assert (char_class true c = CDefault) as ->.
  { unfold word_char in Hc. destruct (char_class true c); congruence. }
  constructor; cbn; rewrite ?slength_snoc; auto.
  - rewrite sforall_app, b_word0. cbn. rewrite Hc. reflexivity.
  - rewrite <- sapp_assoc. symmetry. apply last_char_snoc.
Qed.

(* tokens produced at an operator character *)
Definition oper_toks (c nx pv : ascii) (i : nat) : list token :=
  if single_op true c nx then [Tok OPERATOR (str1 c) i]
  else if Ascii.eqb c "="%char then [eq_token pv i] else [].

(* one separator byte (blank, operator, punctuation) seen outside quotes *)
Lemma step_sep : forall q p0 pend toks st c nx rest pre,
  Bnd q p0 pend toks st -> pre = p0 ++ pend -> q = pre ++ String c rest ->
  let i := String.length pre in
  let base := (toks ++ flush_toks pend (String.length p0))%list in
  let st' := lex_step true q (String.length q) i c nx st in
  match char_class true c with
  | CSpace => Bnd q (pre ++ str1 c) "" base st'
  | COper => Bnd q (pre ++ str1 c) "" (base ++ oper_toks c nx (last_char pre) i)%list st'
  | CPunct => Bnd q (pre ++ str1 c) "" (base ++ [punct_token c i])%list st'
  | CSepar => Bnd q (pre ++ str1 c) "" (base ++ [sep_token c i])%list st'
  | _ => True
  end.
Proof.
  intros q p0 pend toks st c nx rest pre [] Hpre Hq i base st'.
  assert (Hem : emit_word q (String.length q) st = base).
  { rewrite emit_word_flush. rewrite (cur_eq q p0 pend (String c rest) st); auto.
    - rewrite b_tp0, b_ret0. reflexivity.
    - rewrite Hq, Hpre, sapp_assoc. reflexivity. }
  subst st'. unfold lex_step. destruct (char_class true c) eqn:Hc; auto.
  - unfold step_space. rewrite b_ss0, Hem. apply bnd_fresh.
  - unfold step_oper. rewrite b_ss0, Hem, b_pv0, <- Hpre. unfold oper_toks.
    destruct (single_op true c nx).
    + apply bnd_fresh.
    + destruct (Ascii.eqb c "=").
      * apply bnd_fresh.
      * rewrite app_nil_r. apply bnd_fresh.
  - unfold step_single. rewrite b_ss0, Hem. apply bnd_fresh.
  - unfold step_single. rewrite b_ss0, Hem. apply bnd_fresh.
Qed.

Lemma space_class : forall c, is_space c = true -> char_class true c = CSpace.
Proof. intro c. all_chars c; cbn; congruence. Qed.

(* a gap *)
Lemma run_gap : forall g q p0 pend toks st f rest,
  q = (p0 ++ pend) ++ g ++ rest -> gap_ok g = true -> Bnd q p0 pend toks st ->
  exists p0' pend' toks',
    Bnd q p0' pend' toks' (loop_f q (String.length q) (String.length (p0 ++ pend)) g f st) /\
    p0' ++ pend' = (p0 ++ pend) ++ g /\
    (toks' ++ flush_toks pend' (String.length p0') = toks ++ flush_toks pend (String.length p0))%list /\
    (g = "" -> p0' = p0 /\ pend' = pend) /\ (g <> "" -> pend' = "").
Proof.
  induction g as [|c g IH]; intros q p0 pend toks st f rest Hq Hg HB.
  - exists p0, pend, toks. cbn. rewrite sapp_nil_r.
    split; [exact HB|]. split; [reflexivity|]. split; [reflexivity|].
    split; [auto|]. intros H; exfalso; apply H; reflexivity.
  - cbn in Hg. apply andb_prop in Hg. destruct Hg as [Hc Hg].
    cbn [loop_f].
    pose proof (step_sep q p0 pend toks st c (shead g f) (g ++ rest) (p0 ++ pend) HB eq_refl Hq) as HS.
    cbn zeta in HS. rewrite (space_class _ Hc) in HS.
    set (P := (p0 ++ pend) ++ str1 c) in *.
    assert (Hq2 : q = (P ++ "") ++ g ++ rest).
    { subst P. rewrite Hq, sapp_nil_r. cbn. rewrite !sapp_assoc. reflexivity. }
    destruct (IH q P "" _ _ f rest Hq2 Hg HS) as (p0' & pend' & toks' & HB' & Hp & Ht & He & Hn).
    rewrite sapp_nil_r in HB', Hp.
    exists p0', pend', toks'.
    replace (S (String.length (p0 ++ pend))) with (String.length P)
      by (subst P; apply slength_snoc).
    split; [exact HB'|]. split.
    + rewrite Hp. subst P. cbn. rewrite !sapp_assoc. reflexivity.
    + split.
      * rewrite Ht. rewrite flush_empty, app_nil_r. reflexivity.
      * split; [discriminate|]. intros _.
        destruct g; [destruct (He eq_refl); assumption | apply Hn; discriminate].
Qed.

(* a word *)
Lemma run_word : forall w q len i p0 pend toks st f,
  sforall word_char w = true -> Bnd q p0 pend toks st ->
  Bnd q p0 (pend ++ w) toks (loop_f q len i w f st).
Proof.
  induction w as [|c w IH]; intros q len i p0 pend toks st f Hw HB.
  - cbn. rewrite sapp_nil_r. exact HB.
  - cbn in Hw. apply andb_prop in Hw. destruct Hw as [Hc Hw]. cbn [loop_f].
    replace (pend ++ String c w) with ((pend ++ str1 c) ++ w) by (rewrite sapp_assoc; reflexivity).
    apply IH; [exact Hw|]. apply step_word_char; assumption.
Qed.

(* inside a quoted literal that began at |p0| with quote [c]; [w] is the content so far *)
Record SBnd (q p0 : string) (c : ascii) (w : string) (toks : list token) (st : lstate) : Prop := {
  s_ts : tokStart st = S (String.length p0);
  s_tl : tokLen st = String.length w;
  s_tp : tokStartPos st = String.length p0;
  s_ss : strStart st = true;
  s_ch : strStartChar st = c;
  s_ret : ret st = toks
}.

Lemma step_in_string : forall q len i st d nx,
  strStart st = true -> Ascii.eqb (strStartChar st) d = false ->
  lex_step true q len i d nx st = set_prev (bump st) d.
Proof.
  intros. unfold lex_step.
  destruct (char_class true d); unfold step_space, step_quote, step_oper, step_single;
    rewrite ?H; cbn [negb]; rewrite ?H0; reflexivity.
Qed.

Lemma run_body : forall b q len i p0 c w toks st f,
  occurs c b = false -> SBnd q p0 c w toks st ->
  SBnd q p0 c (w ++ b) toks (loop_f q len i b f st).
Proof.
  induction b as [|d b IH]; intros q len i p0 c w toks st f Ho HS.
  - cbn. rewrite sapp_nil_r. exact HS.
  - unfold occurs in Ho. cbn in Ho. apply orb_false_elim in Ho. destruct Ho as [Hd Ho].
    cbn [loop_f].
    replace (w ++ String d b) with ((w ++ str1 d) ++ b) by (rewrite sapp_assoc; reflexivity).
    apply IH; [exact Ho|].
    destruct HS. rewrite step_in_string by (rewrite ?s_ch0; assumption).
    constructor; cbn; rewrite ?slength_snoc; auto.
Qed.

Lemma quote_class : forall c, is_quote_char c = true ->
  (char_class true c = CQuote /\ quote_tp c = STRING) \/
  (char_class true c = CBackq /\ quote_tp c = NAME).
Proof. intro c. all_chars c; cbn; intros; try discriminate; auto. Qed.

Lemma step_open : forall q p0 pend toks st c nx rest pre,
  is_quote_char c = true -> Bnd q p0 pend toks st -> pre = p0 ++ pend ->
  q = pre ++ String c rest ->
  SBnd q pre c "" (toks ++ flush_toks pend (String.length p0))%list
       (lex_step true q (String.length q) (String.length pre) c nx st).
Proof.
  intros q p0 pend toks st c nx rest pre Hc [] Hpre Hq.
  assert (Hem : emit_word q (String.length q) st = (toks ++ flush_toks pend (String.length p0))%list).
  { rewrite emit_word_flush. rewrite (cur_eq q p0 pend (String c rest) st); auto.
    - rewrite b_tp0, b_ret0. reflexivity.
    - rewrite Hq, Hpre, sapp_assoc. reflexivity. }
  unfold lex_step.
  destruct (quote_class c Hc) as [[-> _]|[-> _]]; unfold step_quote; rewrite b_ss0; cbn [negb];
    rewrite Hem; constructor; reflexivity.
Qed.

Lemma step_close : forall q p0 c w toks st nx rest i,
  is_quote_char c = true -> SBnd q p0 c w toks st ->
  q = p0 ++ String c (w ++ String c rest) -> i = String.length (p0 ++ String c w) ->
  Bnd q ((p0 ++ String c w) ++ str1 c) ""
      (toks ++ [Tok (quote_tp c) w (String.length p0)])%list
      (lex_step true q (String.length q) i c nx st).
Proof.
  intros q p0 c w toks st nx rest i Hc [] Hq Hi.
  assert (Hcur : cur q (String.length q) st = w).
  { apply (cur_eq q (p0 ++ str1 c) w (String c rest)); auto.
    - rewrite Hq, sapp_assoc. reflexivity.
    - rewrite slength_snoc. assumption. }
  assert (He : Ascii.eqb (strStartChar st) c = true) by (rewrite s_ch0; apply Ascii.eqb_refl).
  unfold lex_step. subst i.
  destruct (quote_class c Hc) as [[-> ->]|[-> ->]]; unfold step_quote; rewrite s_ss0; cbn [negb];
    rewrite He, Hcur, s_tp0, s_ret0; apply bnd_fresh.
Qed.

Lemma run_quote : forall c b q p0 pend toks st rest f,
  is_quote_char c = true -> occurs c b = false ->
  Bnd q p0 pend toks st -> q = (p0 ++ pend) ++ String c (b ++ str1 c) ++ rest ->
  Bnd q ((p0 ++ pend) ++ String c (b ++ str1 c)) ""
      (toks ++ flush_toks pend (String.length p0) ++
       [Tok (quote_tp c) b (String.length (p0 ++ pend))])%list
      (loop_f q (String.length q) (String.length (p0 ++ pend)) (String c (b ++ str1 c)) f st).
Proof.
  intros c b q p0 pend toks st rest f Hc Ho HB Hq.
  set (pre := p0 ++ pend) in *.
  cbn [loop_f]. rewrite loop_f_app. cbn [loop_f].
  assert (Hq1 : q = pre ++ String c ((b ++ str1 c) ++ rest)) by (rewrite Hq; reflexivity).
  pose proof (step_open q p0 pend toks st c (shead (b ++ str1 c) f) _ pre Hc HB eq_refl Hq1) as H1.
  pose proof (run_body b q (String.length q) (S (String.length pre)) pre c "" _ _
                (shead (str1 c) f) Ho H1) as H2.
  cbn [append] in H2.
  assert (Hq2 : q = pre ++ String c (b ++ String c rest)).
  { rewrite Hq1. rewrite sapp_assoc. reflexivity. }
  pose proof (step_close q pre c b _ _ (shead "" f) rest
                (S (String.length pre) + String.length b) Hc H2 Hq2) as H3.
  replace (pre ++ String c (b ++ str1 c)) with ((pre ++ String c b) ++ str1 c)
    by (rewrite !sapp_assoc; reflexivity).
  rewrite app_assoc. unfold str1 at 2. cbn [loop_f]. apply H3.
  rewrite slength_app. cbn. lia.
Qed.

(* symbols *)
Lemma single_op_eq : forall f, single_op true "="%char f = false.
Proof. intros. cbn. destruct (Ascii.eqb f "="); reflexivity. Qed.

Lemma eq_token_plain : forall p i, eq_prefix_char p = false -> eq_token p i = Tok OPERATOR "=" i.
Proof. intros p i. all_chars p; cbn; intros; try discriminate; reflexivity. Qed.

Lemma eq_token_two : forall x i, eq_prefix_char x = true ->
  eq_token x (S i) = Tok OPERATOR (String x "=") i.
Proof.
  intros x i. all_chars x; cbn; intros; try discriminate; rewrite Nat.sub_0_r; reflexivity.
Qed.

Lemma prefix_char_class : forall x, eq_prefix_char x = true ->
  char_class true x = COper /\ single_op true x "="%char = false /\ Ascii.eqb x "="%char = false.
Proof. intro x. all_chars x; cbn; intros; try discriminate; auto. Qed.

Lemma prefix_char_single : forall x f, eq_prefix_char x = true -> is_eq_char f = false ->
  single_op true x f = true.
Proof.
  intros x f. unfold is_eq_char. all_chars x; cbn; intros; try discriminate; rewrite H0; reflexivity.
Qed.

Section RunSym.
  Variables (q p0 pend : string) (toks : list token) (st : lstate) (pre rest : string) (f : ascii).
  Hypothesis HB : Bnd q p0 pend toks st.
  Hypothesis Hpre : pre = p0 ++ pend.

  Let base := (toks ++ flush_toks pend (String.length p0))%list.

  Lemma run_single_oper : forall c,
    q = pre ++ str1 c ++ rest -> char_class true c = COper -> single_op true c f = true ->
    Bnd q (pre ++ str1 c) "" (base ++ [Tok OPERATOR (str1 c) (String.length pre)])%list
        (loop_f q (String.length q) (String.length pre) (str1 c) f st).
  Proof.
    intros c Hq Hc Hs. cbn [loop_f str1 shead].
    pose proof (step_sep q p0 pend toks st c f rest pre HB Hpre Hq) as H.
    cbn zeta in H. rewrite Hc in H. unfold oper_toks in H. rewrite Hs in H. exact H.
  Qed.

  Lemma run_eq_sym :
    q = pre ++ "=" ++ rest -> eq_prefix_char (last_char pre) = false ->
    Bnd q (pre ++ "=") "" (base ++ [Tok OPERATOR "=" (String.length pre)])%list
        (loop_f q (String.length q) (String.length pre) "=" f st).
  Proof.
    intros Hq Hl. cbn [loop_f shead].
    pose proof (step_sep q p0 pend toks st "="%char f rest pre HB Hpre Hq) as H.
    cbn zeta in H. cbn [char_class] in H. unfold oper_toks in H.
    rewrite single_op_eq in H. cbn [Ascii.eqb Bool.eqb] in H.
    rewrite eq_token_plain in H by assumption. exact H.
  Qed.

  Lemma run_two_sym : forall x,
    q = pre ++ String x "=" ++ rest -> eq_prefix_char x = true ->
    Bnd q (pre ++ String x "=") "" (base ++ [Tok OPERATOR (String x "=") (String.length pre)])%list
        (loop_f q (String.length q) (String.length pre) (String x "=") f st).
  Proof.
    intros x Hq Hx. cbn [loop_f shead].
    destruct (prefix_char_class x Hx) as (Hc & Hs & He).
    assert (Hq1 : q = pre ++ String x ("=" ++ rest)) by (rewrite Hq; reflexivity).
    pose proof (step_sep q p0 pend toks st x "="%char _ pre HB Hpre Hq1) as H1.
    cbn zeta in H1. rewrite Hc in H1. unfold oper_toks in H1. rewrite Hs, He in H1.
    rewrite app_nil_r in H1.
    assert (Hq2 : q = (pre ++ str1 x) ++ String "="%char rest).
    { rewrite Hq. rewrite sapp_assoc. reflexivity. }
    pose proof (step_sep q (pre ++ str1 x) "" _ _ "="%char f rest (pre ++ str1 x) H1
                  (eq_sym (sapp_nil_r _)) Hq2) as H2.
    cbn zeta in H2. cbn [char_class] in H2. unfold oper_toks in H2.
    rewrite single_op_eq in H2. cbn [Ascii.eqb Bool.eqb] in H2.
    rewrite last_char_snoc, slength_snoc in H2.
    rewrite eq_token_two in H2 by assumption.
    rewrite flush_empty, app_nil_r in H2.
    replace (pre ++ String x "=") with ((pre ++ str1 x) ++ str1 "="%char)
      by (rewrite sapp_assoc; reflexivity).
    exact H2.
  Qed.

  Lemma run_punct_sym : forall c,
    q = pre ++ str1 c ++ rest -> char_class true c = CPunct ->
    Bnd q (pre ++ str1 c) "" (base ++ [punct_token c (String.length pre)])%list
        (loop_f q (String.length q) (String.length pre) (str1 c) f st).
  Proof.
    intros c Hq Hc. cbn [loop_f str1 shead].
    pose proof (step_sep q p0 pend toks st c f rest pre HB Hpre Hq) as H.
    cbn zeta in H. rewrite Hc in H. exact H.
  Qed.

  Lemma run_separ_sym : forall c,
    q = pre ++ str1 c ++ rest -> char_class true c = CSepar ->
    Bnd q (pre ++ str1 c) "" (base ++ [sep_token c (String.length pre)])%list
        (loop_f q (String.length q) (String.length pre) (str1 c) f st).
  Proof.
    intros c Hq Hc. cbn [loop_f str1 shead].
    pose proof (step_sep q p0 pend toks st c f rest pre HB Hpre Hq) as H.
    cbn zeta in H. rewrite Hc in H. exact H.
  Qed.
End RunSym.

Lemma sym_lookup_in : forall l s k, sym_lookup s l = Some k -> In (s, k) l.
Proof.
  induction l as [|[k0 t0] l IH]; cbn; intros s k H; [discriminate|].
  destruct (s =? k0) eqn:E.
  - apply String.eqb_eq in E. inversion H; subst. left; reflexivity.
  - right. apply IH. assumption.
Qed.

Ltac sym_cases H :=
  apply sym_lookup_in in H; cbn in H;
  repeat (destruct H as [H|H]; [inversion H; subst; clear H|]); [..|contradiction].

Lemma single_op_arith : forall c f,
  match c with "*"%char | "+"%char | "-"%char | "/"%char => True | _ => False end ->
  single_op true c f = true.
Proof. intros c f. all_chars c; cbn; intros H; try contradiction; destruct (Ascii.eqb f "="); reflexivity. Qed.

Lemma run_sym : forall s k q p0 pend toks st rest f,
  sym_kind s = Some k -> Bnd q p0 pend toks st -> q = (p0 ++ pend) ++ s ++ rest ->
  (eq_prefix_sym s = true -> is_eq_char f = false) ->
  (s = "=" -> eq_prefix_char (last_char (p0 ++ pend)) = false) ->
  Bnd q ((p0 ++ pend) ++ s) ""
      (toks ++ flush_toks pend (String.length p0) ++ [Tok k s (String.length (p0 ++ pend))])%list
      (loop_f q (String.length q) (String.length (p0 ++ pend)) s f st).
Proof.
  intros s k q p0 pend toks st rest f Hk HB.
  unfold sym_kind in Hk. sym_cases Hk; intros Hq Hf Hl; rewrite app_assoc.
  - apply (run_single_oper q p0 pend toks st _ rest f HB eq_refl "!"%char Hq); [reflexivity|].
    apply prefix_char_single; auto.
  - apply (run_single_oper q p0 pend toks st _ rest f HB eq_refl "*"%char Hq); [reflexivity|].
    apply single_op_arith; exact I.
  - apply (run_single_oper q p0 pend toks st _ rest f HB eq_refl "+"%char Hq); [reflexivity|].
    apply single_op_arith; exact I.
  - apply (run_single_oper q p0 pend toks st _ rest f HB eq_refl "-"%char Hq); [reflexivity|].
    apply single_op_arith; exact I.
  - apply (run_single_oper q p0 pend toks st _ rest f HB eq_refl "/"%char Hq); [reflexivity|].
    apply single_op_arith; exact I.
  - apply (run_single_oper q p0 pend toks st _ rest f HB eq_refl ">"%char Hq); [reflexivity|].
    apply prefix_char_single; auto.
  - apply (run_single_oper q p0 pend toks st _ rest f HB eq_refl "<"%char Hq); [reflexivity|].
    apply prefix_char_single; auto.
  - apply (run_eq_sym q p0 pend toks st _ rest f HB eq_refl Hq). auto.
  - apply (run_single_oper q p0 pend toks st _ rest f HB eq_refl "^"%char Hq); [reflexivity|].
    apply prefix_char_single; auto.
  - apply (run_single_oper q p0 pend toks st _ rest f HB eq_refl "~"%char Hq); [reflexivity|].
    apply prefix_char_single; auto.
  - apply (run_two_sym q p0 pend toks st _ rest f HB eq_refl "^"%char Hq). reflexivity.
  - apply (run_two_sym q p0 pend toks st _ rest f HB eq_refl "~"%char Hq). reflexivity.
  - apply (run_two_sym q p0 pend toks st _ rest f HB eq_refl "!"%char Hq). reflexivity.
  - apply (run_two_sym q p0 pend toks st _ rest f HB eq_refl "<"%char Hq). reflexivity.
  - apply (run_two_sym q p0 pend toks st _ rest f HB eq_refl ">"%char Hq). reflexivity.
  - apply (run_punct_sym q p0 pend toks st _ rest f HB eq_refl "&"%char Hq). reflexivity.
  - apply (run_punct_sym q p0 pend toks st _ rest f HB eq_refl "|"%char Hq). reflexivity.
  - apply (run_punct_sym q p0 pend toks st _ rest f HB eq_refl "("%char Hq). reflexivity.
  - apply (run_punct_sym q p0 pend toks st _ rest f HB eq_refl ")"%char Hq). reflexivity.
  - apply (run_punct_sym q p0 pend toks st _ rest f HB eq_refl "["%char Hq). reflexivity.
  - apply (run_punct_sym q p0 pend toks st _ rest f HB eq_refl "]"%char Hq). reflexivity.
  - apply (run_separ_sym q p0 pend toks st _ rest f HB eq_refl ","%char Hq). reflexivity.
  - apply (run_separ_sym q p0 pend toks st _ rest f HB eq_refl ";"%char Hq). reflexivity.
Qed.

(* one lexeme, uniformly *)
Lemma run_lexeme : forall l q p0 pend toks st rest,
  q = (p0 ++ pend) ++ lexeme_text l ++ rest ->
  Bnd q p0 pend toks st -> valid_lexeme l = true ->
  (forall w, l = LWord w -> pend = "") ->
  (forall s, l = LSym s -> eq_prefix_sym s = true -> is_eq_char (shead rest zero_char) = false) ->
  (l = LSym "=" -> eq_prefix_char (last_char (p0 ++ pend)) = false) ->
  exists p0' pend' toks',
    Bnd q p0' pend' toks'
        (loop_f q (String.length q) (String.length (p0 ++ pend)) (lexeme_text l)
                (shead rest zero_char) st) /\
    p0' ++ pend' = (p0 ++ pend) ++ lexeme_text l /\
    (toks' ++ flush_toks pend' (String.length p0') =
     toks ++ flush_toks pend (String.length p0) ++ [lexeme_token l (String.length (p0 ++ pend))])%list /\
    (pend' = "" \/ l = LWord pend').
Proof.
  intros l q p0 pend toks st rest Hq HB Hv Hw Hs He.
  destruct l as [w|c b|s]; cbn [lexeme_text] in *.
  - (* word *)
    rewrite (Hw w eq_refl) in *. rewrite sapp_nil_r in *.
    cbn in Hv. apply andb_prop in Hv. destruct Hv as [Hne Hwc].
    apply negb_true_iff in Hne. apply String.eqb_neq in Hne.
    exists p0, w, toks. split; [|split; [|split]].
    + apply (run_word w q _ _ p0 "" toks st _ Hwc HB).
    + reflexivity.
    + rewrite flush_word by assumption. rewrite flush_empty. reflexivity.
    + right; reflexivity.
  - (* quoted literal *)
    cbn in Hv. apply andb_prop in Hv. destruct Hv as [Hc Ho]. apply negb_true_iff in Ho.
    eexists _, "", _. split; [|split; [|split]].
    + apply (run_quote c b q p0 pend toks st rest _ Hc Ho HB Hq).
    + rewrite sapp_nil_r. reflexivity.
    + rewrite flush_empty, app_nil_r. reflexivity.
    + left; reflexivity.
  - (* symbol *)
    cbn [valid_lexeme] in Hv. destruct (sym_kind s) as [k|] eqn:Hk; [|discriminate].
    eexists _, "", _. split; [|split; [|split]].
    + apply (run_sym s k q p0 pend toks st rest _ Hk HB Hq).
      * intros Hp. apply (Hs s eq_refl Hp).
      * intros ->. apply He. reflexivity.
    + rewrite sapp_nil_r. reflexivity.
    + rewrite flush_empty, app_nil_r. cbn [lexeme_token]. unfold sym_tp. rewrite Hk. reflexivity.
    + left; reflexivity.
Qed.

(* ------------------------------------------------------------------ facts used by admissibility *)

Lemma space_not_eq : forall c, is_space c = true -> is_eq_char c = false.
Proof. intro c. all_chars c; cbn; congruence. Qed.
Lemma word_char_not_eq : forall c, word_char c = true -> is_eq_char c = false.
Proof. intro c. all_chars c; cbn; congruence. Qed.
Lemma quote_not_eq : forall c, is_quote_char c = true -> is_eq_char c = false.
Proof. intro c. all_chars c; cbn; congruence. Qed.
Lemma space_not_prefix : forall c, is_space c = true -> eq_prefix_char c = false.
Proof. intro c. all_chars c; cbn; congruence. Qed.
Lemma word_char_not_prefix : forall c, word_char c = true -> eq_prefix_char c = false.
Proof. intro c. all_chars c; cbn; congruence. Qed.
Lemma quote_not_prefix : forall c, is_quote_char c = true -> eq_prefix_char c = false.
Proof. intro c. all_chars c; cbn; congruence. Qed.

Lemma sym_head_eq : forall s k x, sym_kind s = Some k -> s <> "=" ->
  is_eq_char (shead (s ++ x) zero_char) = false.
Proof.
  intros s k x Hk. unfold sym_kind in Hk. sym_cases Hk; intros Hne; try reflexivity.
  exfalso; apply Hne; reflexivity.
Qed.

Lemma sym_last_prefix : forall s k, sym_kind s = Some k -> eq_prefix_sym s = false ->
  eq_prefix_char (last_char s) = false.
Proof.
  intros s k Hk. unfold sym_kind in Hk. sym_cases Hk; cbn; intros; congruence.
Qed.

Lemma sym_nonempty : forall s k, sym_kind s = Some k -> s <> "".
Proof. intros s k Hk. unfold sym_kind in Hk. sym_cases Hk; discriminate. Qed.

Lemma last_char_app : forall a b, b <> "" -> last_char (a ++ b) = last_char b.
Proof.
  induction a; cbn; intros; auto.
  destruct (a0 ++ b) eqn:E.
  - destruct a0; cbn in E; [congruence|discriminate].
  - rewrite <- E. apply IHa. assumption.
Qed.

Lemma sforall_last : forall p s, s <> "" -> sforall p s = true -> p (last_char s) = true.
Proof.
  induction s; cbn; intros; [congruence|].
  apply andb_prop in H0. destruct H0. destruct s; auto. apply IHs; [discriminate|assumption].
Qed.

Lemma lexeme_text_nonempty : forall l, valid_lexeme l = true -> lexeme_text l <> "".
Proof.
  destruct l; cbn [valid_lexeme lexeme_text]; intros.
  - apply andb_prop in H. destruct H as [H _]. apply negb_true_iff in H.
    apply String.eqb_neq in H. assumption.
  - discriminate.
  - destruct (sym_kind s) eqn:E; [|discriminate]. eapply sym_nonempty; eauto.
Qed.

Lemma fuses_sym_eq : forall s, fuses (LSym s) (LSym "=") = eq_prefix_sym s.
Proof. reflexivity. Qed.

(* after one of ! < > ^ ~ an admissible continuation does not begin with = *)
Lemma follow_not_eq : forall s items tail,
  eq_prefix_sym s = true -> admissible_from (Some (LSym s)) items = true -> gap_ok tail = true ->
  is_eq_char (shead (render items tail) zero_char) = false.
Proof.
  intros s items tail Hp Ha Ht. destruct items as [|[g l] r]; cbn [render].
  - destruct tail; [reflexivity|]. cbn in *. apply andb_prop in Ht. apply space_not_eq. tauto.
  - cbn [admissible_from] in Ha.
    apply andb_prop in Ha. destruct Ha as [Ha _].
    apply andb_prop in Ha. destruct Ha as [Ha Hf].
    apply andb_prop in Ha. destruct Ha as [Hg Hv].
    destruct g as [|c g].
    + cbn [append]. cbn [String.eqb andb] in Hf. apply negb_true_iff in Hf.
      destruct l as [w|c b|s2]; cbn [lexeme_text].
      * cbn in Hv. apply andb_prop in Hv. destruct Hv as [Hne Hw].
        destruct w; [discriminate|]. cbn in *. apply andb_prop in Hw. apply word_char_not_eq. tauto.
      * cbn in *. apply andb_prop in Hv. apply quote_not_eq. tauto.
      * cbn [valid_lexeme] in Hv. destruct (sym_kind s2) eqn:Hk; [|discriminate].
        eapply sym_head_eq; eauto. intros ->. rewrite fuses_sym_eq in Hf. congruence.
    + cbn in *. apply andb_prop in Hg. apply space_not_eq. tauto.
Qed.

(* before a lone = an admissible predecessor does not end with one of ! < > ^ ~ *)
Lemma last_not_prefix : forall a, valid_lexeme a = true -> fuses a (LSym "=") = false ->
  eq_prefix_char (last_char (lexeme_text a)) = false.
Proof.
  destruct a as [w|c b|s]; cbn [lexeme_text]; intros Hv Hf.
  - cbn in Hv. apply andb_prop in Hv. destruct Hv as [Hne Hw].
    apply negb_true_iff in Hne. apply String.eqb_neq in Hne.
    apply word_char_not_prefix. apply sforall_last; assumption.
  - cbn in Hv. apply andb_prop in Hv. destruct Hv as [Hc _].
    replace (String c (b ++ str1 c)) with ((String c b) ++ str1 c) by reflexivity.
    rewrite last_char_snoc. apply quote_not_prefix. assumption.
  - cbn [valid_lexeme] in Hv. destruct (sym_kind s) eqn:Hk; [|discriminate].
    rewrite fuses_sym_eq in Hf. eapply sym_last_prefix; eauto.
Qed.

(* ------------------------------------------------------------------ all items *)

Lemma finish_bnd : forall q p0 pend toks st,
  q = p0 ++ pend -> Bnd q p0 pend toks st ->
  ret (lex_finish true q (String.length q) st) = (toks ++ flush_toks pend (String.length p0))%list.
Proof.
  intros q p0 pend toks st Hq []. unfold lex_finish. rewrite b_ss0. cbn [andb].
  destruct (Nat.ltb 0 (tokLen st)) eqn:E; cbn [ret].
  - rewrite emit_word_flush. rewrite (cur_eq q p0 pend "" st); auto.
    + rewrite b_tp0, b_ret0. reflexivity.
    + rewrite sapp_nil_r. assumption.
  - apply Nat.ltb_ge in E. rewrite b_tl0 in E. destruct pend; [|cbn in E; lia].
    rewrite flush_empty, app_nil_r. assumption.
Qed.

Lemma run_items : forall items q p0 pend toks st prevlex tail,
  q = (p0 ++ pend) ++ render items tail ->
  Bnd q p0 pend toks st ->
  admissible_from prevlex items = true -> gap_ok tail = true ->
  (pend = "" \/ prevlex = Some (LWord pend)) ->
  match prevlex with
  | Some a => valid_lexeme a = true /\ last_char (p0 ++ pend) = last_char (lexeme_text a)
  | None => p0 ++ pend = ""
  end ->
  ret (lex_finish true q (String.length q)
         (loop_f q (String.length q) (String.length (p0 ++ pend)) (render items tail) zero_char st))
  = (toks ++ flush_toks pend (String.length p0) ++ expected items (String.length (p0 ++ pend)))%list.
Proof.
  induction items as [|[g l] r IH]; intros q p0 pend toks st prevlex tail Hq HB Ha Ht Hpend Hprev.
  - (* only the trailing gap is left *)
    cbn [render expected] in *. rewrite app_nil_r.
    destruct (run_gap tail q p0 pend toks st zero_char "" ) as (p1 & pend1 & toks1 & HB1 & Hp1 & Ht1 & _ & _);
      [rewrite sapp_nil_r; assumption|assumption|assumption|].
    rewrite <- Ht1. apply finish_bnd; [|assumption]. rewrite Hp1. assumption.
  - cbn [render expected admissible_from] in *.
    apply andb_prop in Ha. destruct Ha as [Ha Har].
    apply andb_prop in Ha. destruct Ha as [Ha Hfu].
    apply andb_prop in Ha. destruct Ha as [Hg Hv].
    set (R := render r tail) in *.
    rewrite loop_f_app.
    (* the gap *)
    destruct (run_gap g q p0 pend toks st (shead (lexeme_text l ++ R) zero_char) (lexeme_text l ++ R))
      as (p1 & pend1 & toks1 & HB1 & Hp1 & Ht1 & Hge & Hgn); [assumption|assumption|assumption|].
    rewrite loop_f_app.
    replace (String.length (p0 ++ pend) + String.length g) with (String.length (p1 ++ pend1))
      by (rewrite Hp1, slength_app; reflexivity).
    assert (Hq1 : q = (p1 ++ pend1) ++ lexeme_text l ++ R).
    { rewrite Hp1, Hq, !sapp_assoc. reflexivity. }
    (* the lexeme *)
    destruct (run_lexeme l q p1 pend1 toks1 _ R Hq1 HB1 Hv) as (p2 & pend2 & toks2 & HB2 & Hp2 & Ht2 & Hpe2).
    + (* a word needs nothing pending *)
      intros w ->. destruct g as [|c g]; [|apply Hgn; discriminate].
      destruct (Hge eq_refl) as [-> ->].
      destruct Hpend as [?|Hpl]; [assumption|]. subst prevlex.
      cbn in Hfu. discriminate.
    + intros s -> Hp. eapply follow_not_eq; eauto.
    + intros ->. rewrite Hp1.
      destruct g as [|c g].
      * rewrite sapp_nil_r. destruct prevlex as [a|].
        -- destruct Hprev as [Hva Hla]. rewrite Hla. apply last_not_prefix; [assumption|].
           cbn [String.eqb andb] in Hfu. apply negb_true_iff in Hfu. assumption.
        -- rewrite Hprev. reflexivity.
      * rewrite last_char_app by discriminate. apply space_not_prefix.
        apply sforall_last; [discriminate|assumption].
    + (* the remaining items *)
      replace (String.length (p1 ++ pend1) + String.length (lexeme_text l))
        with (String.length (p2 ++ pend2)) by (rewrite Hp2, slength_app; reflexivity).
      rewrite (IH q p2 pend2 toks2 _ (Some l) tail).
      * rewrite app_assoc, Ht2. rewrite (app_assoc toks1), Ht1.
        rewrite <- !app_assoc. cbn [app]. reflexivity.
      * rewrite Hp2, Hq1, !sapp_assoc. reflexivity.
      * assumption.
      * assumption.
      * assumption.
      * destruct Hpe2 as [E | E]; rewrite E; [left; reflexivity|right; reflexivity].
      * split; [assumption|]. rewrite Hp2. apply last_char_app. apply lexeme_text_nonempty. assumption.
Qed.

Lemma init_bnd : forall q, Bnd q "" "" [] init_state.
Proof. intros. constructor; reflexivity. Qed.

(* a sequence of valid lexemes written with admissible spacing lexes to exactly its tokens *)
Lemma lex_render_expected : forall items tail,
  admissible items tail = true -> lex (render items tail) = expected items 0.
Proof.
  intros items tail Ha. unfold admissible in Ha. apply andb_prop in Ha. destruct Ha as [Ha Ht].
  unfold lex, lex_state. rewrite lex_loop_f.
  apply (run_items items (render items tail) "" "" [] init_state None tail);
    auto using init_bnd.
Qed.

Lemma expected_kind_text : forall items p,
  map kind_text (expected items p) = map lexeme_kind_text (lexemes_of items).
Proof.
  induction items as [|[g l] r IH]; intros; cbn; [reflexivity|].
  rewrite IH. f_equal. destruct l; reflexivity.
Qed.

(* spacing between tokens is irrelevant: two admissible renderings of the same lexemes *)
Lemma lex_spacing_irrelevant : forall items1 tail1 items2 tail2,
  lexemes_of items1 = lexemes_of items2 ->
  admissible items1 tail1 = true -> admissible items2 tail2 = true ->
  map kind_text (lex (render items1 tail1)) = map kind_text (lex (render items2 tail2)).
Proof.
  intros. rewrite !lex_render_expected by assumption. rewrite !expected_kind_text. congruence.
Qed.

(* ================================================================== Part 4: tokens tile the query *)

Lemma sapp_inv_head : forall a b c, a ++ b = a ++ c -> b = c.
Proof. induction a; cbn; intros; auto. inversion H. auto. Qed.

Lemma trim_right_prefix_blank : forall s, exists ws, s = trim_right s ++ ws /\ sforall is_space ws = true.
Proof.
  induction s; cbn.
  - exists "". split; reflexivity.
  - destruct IHs as [ws [E Hws]]. destruct (trim_right s) eqn:T.
    + destruct (is_space a) eqn:Ha.
      * exists (String a s). split; [reflexivity|]. cbn. rewrite Ha. cbn in E. rewrite E. exact Hws.
      * exists s. split; [reflexivity|]. cbn in E. rewrite E. exact Hws.
    + exists ws. split; [|exact Hws]. cbn. cbn in E. congruence.
Qed.

Lemma tiling_gap : forall q s ts c, tiling q s ts -> is_space c = true -> tiling q (s ++ str1 c) ts.
Proof.
  intros q s ts c H Hc. inversion H; subst.
  - apply tiling_nil. unfold gap_ok in *. rewrite sforall_app, H0. cbn. rewrite Hc. reflexivity.
  - replace ((s0 ++ txt ++ g) ++ str1 c) with (s0 ++ txt ++ (g ++ str1 c)) by (rewrite !sapp_assoc; reflexivity).
    apply tiling_snoc; auto. unfold gap_ok in *. rewrite sforall_app, H4. cbn. rewrite Hc. reflexivity.
Qed.

Lemma tiling_tok : forall q s ts txt t, tiling q s ts -> covers txt t -> pos t = String.length s ->
  no_fuse q (s ++ txt) -> tiling q (s ++ txt) (ts ++ [t]).
Proof.
  intros. replace (s ++ txt) with (s ++ txt ++ "") by (rewrite sapp_nil_r; reflexivity).
  apply tiling_snoc; auto.
Qed.

Lemma zero_not_prefix : eq_prefix_char zero_char = false.
Proof. reflexivity. Qed.

Lemma gap_last_not_prefix : forall g, gap_ok g = true -> eq_prefix_char (last_char g) = false.
Proof.
  intros. destruct g; [reflexivity|]. apply space_not_prefix. apply sforall_last; [discriminate|assumption].
Qed.

(* a tiled prefix that ends with one of ! < > ^ ~ is not continued by = *)
Lemma tiling_last : forall q s ts r, tiling q s ts -> eq_prefix_char (last_char s) = true ->
  q = s ++ String "="%char r -> False.
Proof.
  intros q s ts r H Hl Hq. inversion H; subst s.
  - rewrite gap_last_not_prefix in Hl by assumption. discriminate.
  - destruct g.
    + rewrite sapp_nil_r in *. apply (H3 Hl r). subst ts. assumption.
    + rewrite <- sapp_assoc in Hl. rewrite last_char_app in Hl by discriminate.
      rewrite gap_last_not_prefix in Hl by assumption. discriminate.
Qed.

Lemma no_fuse_plain : forall q e, eq_prefix_char (last_char e) = false -> no_fuse q e.
Proof. unfold no_fuse. intros. congruence. Qed.

(* flushing the pending word *)
Lemma tiling_flush : forall q s ts w, tiling q s ts -> sforall word_char w = true ->
  tiling q (s ++ w) (ts ++ flush_toks w (String.length s)).
Proof.
  intros q s ts w H Hw. destruct w as [|c w'] eqn:E.
  - rewrite flush_empty, app_nil_r, sapp_nil_r. assumption.
  - rewrite <- E in *. assert (Hne : w <> "") by (rewrite E; discriminate).
    rewrite flush_word by assumption. cbn [lexeme_token].
    apply tiling_tok; auto.
    + apply cov_word. assumption.
    + apply no_fuse_plain. rewrite last_char_app by assumption.
      apply word_char_not_prefix. apply sforall_last; assumption.
Qed.

Inductive InvT (q pre : string) (st : lstate) : Prop :=
| IT_word : forall s w,
    pre = s ++ w -> sforall word_char w = true -> tiling q s (ret st) ->
    tokStart st = String.length s -> tokLen st = String.length w ->
    tokStartPos st = String.length s -> strStart st = false ->
    prev st = last_char pre -> InvT q pre st
| IT_op : forall s x r,
    pre = s ++ str1 x -> eq_prefix_char x = true -> q = pre ++ String "="%char r ->
    tiling q s (ret st) ->
    tokStart st = String.length pre -> tokLen st = 0 ->
    tokStartPos st = String.length pre -> strStart st = false ->
    prev st = x -> InvT q pre st
| IT_str : forall s c w,
    pre = s ++ String c w -> is_quote_char c = true -> occurs c w = false ->
    tiling q s (ret st) ->
    tokStart st = S (String.length s) -> tokLen st = String.length w ->
    tokStartPos st = String.length s -> strStart st = true -> strStartChar st = c ->
    InvT q pre st.

Lemma invT_fresh : forall q pre c sc pv toks o,
  tiling q (pre ++ str1 c) toks ->
  InvT q (pre ++ str1 c)
       (set_prev (LS (S (String.length pre)) 0 (S (String.length pre)) false sc pv toks o) c).
Proof.
  intros. apply IT_word with (s := pre ++ str1 c) (w := ""); cbn;
    rewrite ?sapp_nil_r, ?slength_snoc, ?last_char_snoc; auto.
Qed.

Lemma oper_not_single : forall c nx, char_class true c = COper -> single_op true c nx = false ->
  Ascii.eqb c "="%char = false -> eq_prefix_char c = true /\ is_eq_char nx = true.
Proof.
  intros c nx. unfold is_eq_char.
  all_chars c; cbn; intros H1 H2 H3; try discriminate; split; auto;
    destruct (Ascii.eqb nx "="); cbn in *; congruence.
Qed.

Lemma prefix_two_sym : forall x, eq_prefix_char x = true -> sym_kind (String x "=") = Some OPERATOR.
Proof. intro x. all_chars x; cbn; intros; try discriminate; reflexivity. Qed.

Lemma prefix_sym_char : forall c, eq_prefix_sym (str1 c) = eq_prefix_char c.
Proof. reflexivity. Qed.

Lemma shead_eq_split : forall rest, is_eq_char (shead rest zero_char) = true ->
  exists r, rest = String "="%char r.
Proof.
  intros. destruct rest; cbn in H; [discriminate|]. unfold is_eq_char in H.
  apply Ascii.eqb_eq in H. subst. eauto.
Qed.

Lemma stepT : forall q pre c rest st,
  q = pre ++ String c rest -> InvT q pre st ->
  InvT q (pre ++ str1 c)
       (lex_step true q (String.length q) (String.length pre) c (shead rest zero_char) st).
Proof.
  intros q pre c rest st Hq HI.
  destruct HI as [s w Hpre Hw Hti Hts Htl Htp Hss Hpv
                 | s x r Hpre Hx Hqe Hti Hts Htl Htp Hss Hpv
                 | s sc w Hpre Hsc Hocc Hti Hts Htl Htp Hss Hch].
  - (* outside quotes *)
    assert (Hq0 : q = s ++ w ++ String c rest) by (rewrite Hq, Hpre, sapp_assoc; reflexivity).
    assert (Hem : emit_word q (String.length q) st = (ret st ++ flush_toks w (String.length s))%list).
    { rewrite emit_word_flush. rewrite (cur_eq q s w (String c rest) st); auto. rewrite Htp. reflexivity. }
    assert (Hfl : tiling q pre (emit_word q (String.length q) st)).
    { rewrite Hem, Hpre. apply tiling_flush; assumption. }
    unfold lex_step. destruct (char_class true c) eqn:Hc.
    + unfold step_space. rewrite Hss. apply invT_fresh. apply tiling_gap; auto.
      clear - Hc. all_chars c; cbn in *; congruence.
    + unfold step_quote. rewrite Hss. cbn [negb].
      destruct (class_quote _ Hc) as [Hqc _].
      apply IT_str with (s := pre) (c := c) (w := ""); cbn; auto.
    + unfold step_quote. rewrite Hss. cbn [negb].
      destruct (class_backq _ Hc) as [Hqc _].
      apply IT_str with (s := pre) (c := c) (w := ""); cbn; auto.
    + unfold step_oper. rewrite Hss.
      destruct (single_op true c (shead rest zero_char)) eqn:Hs.
      * apply invT_fresh.
        destruct (class_oper_single _ _ Hc Hs) as [Hk Hp].
        apply tiling_tok; auto.
        -- apply cov_sym. assumption.
        -- unfold no_fuse. rewrite last_char_snoc. intros Hpc r0 Hr.
           rewrite prefix_sym_char in Hp. specialize (Hp Hpc).
           rewrite Hq in Hr. rewrite sapp_assoc in Hr. apply sapp_inv_head in Hr.
           cbn in Hr. inversion Hr; subst rest. cbn in Hp. discriminate.
      * destruct (Ascii.eqb c "=") eqn:He.
        -- apply Ascii.eqb_eq in He. subst c.
           apply invT_fresh.
           assert (Hnp : eq_prefix_char (last_char pre) = false).
           { destruct (eq_prefix_char (last_char pre)) eqn:El; [|reflexivity]. exfalso.
             destruct w as [|c0 w0] eqn:Ew.
             - rewrite sapp_nil_r in Hpre. subst pre. eapply tiling_last; eauto.
             - rewrite Hpre, last_char_app in El by discriminate.
               rewrite word_char_not_prefix in El; [discriminate|].
               apply sforall_last; [discriminate|assumption]. }
           rewrite Hpv, eq_token_plain by assumption.
           apply tiling_tok; auto.
           ++ apply cov_sym. reflexivity.
           ++ apply no_fuse_plain. rewrite last_char_snoc. reflexivity.
        -- destruct (oper_not_single _ _ Hc Hs He) as [Hpc Hnx].
           destruct (shead_eq_split _ Hnx) as [r Hr].
           apply IT_op with (s := pre) (x := c) (r := r); cbn;
             rewrite ?slength_snoc; auto.
           rewrite Hq, Hr, sapp_assoc. reflexivity.
    + unfold step_single. rewrite Hss. apply invT_fresh.
      destruct (class_punct c (String.length pre) Hc) as (Hd & Hp & Hk & He).
      destruct (punct_token c (String.length pre)) as [k d p] eqn:T. cbn in Hd, Hp, Hk. subst d p.
      apply tiling_tok; auto.
      * apply cov_sym. assumption.
      * apply no_fuse_plain. rewrite last_char_snoc. rewrite <- prefix_sym_char. assumption.
    + unfold step_single. rewrite Hss. apply invT_fresh.
      destruct (class_separ c (String.length pre) Hc) as (Hd & Hp & Hk & He).
      destruct (sep_token c (String.length pre)) as [k d p] eqn:T. cbn in Hd, Hp, Hk. subst d p.
      apply tiling_tok; auto.
      * apply cov_sym. assumption.
      * apply no_fuse_plain. rewrite last_char_snoc. rewrite <- prefix_sym_char. assumption.
    + apply IT_word with (s := s) (w := w ++ str1 c); cbn;
        rewrite ?slength_snoc, ?last_char_snoc; auto.
      * rewrite Hpre, sapp_assoc. reflexivity.
      * rewrite sforall_app, Hw. cbn. rewrite (class_default_word _ Hc). reflexivity.
  - (* one of ! < > ^ ~ seen, = comes next *)
    rewrite Hq in Hqe. apply sapp_inv_head in Hqe. inversion Hqe; subst c rest.
    assert (Hem : emit_word q (String.length q) st = ret st).
    { rewrite emit_word_flush. rewrite (cur_eq q pre "" (String "="%char r) st); auto.
      rewrite flush_empty, app_nil_r. reflexivity. }
    unfold lex_step. cbn [char_class]. unfold step_oper. rewrite Hss, Hem.
    rewrite single_op_eq. cbn [Ascii.eqb Bool.eqb]. rewrite Hpv.
    rewrite Hpre, slength_snoc, eq_token_two by assumption.
    rewrite <- (slength_snoc s x). apply invT_fresh.
    replace ((s ++ str1 x) ++ str1 "="%char) with (s ++ String x "=") by (rewrite sapp_assoc; reflexivity).
    apply tiling_tok; auto.
    + apply cov_sym. apply prefix_two_sym. assumption.
    + apply no_fuse_plain.
      replace (s ++ String x "=") with ((s ++ str1 x) ++ str1 "="%char) by (rewrite sapp_assoc; reflexivity).
      rewrite last_char_snoc. reflexivity.
  - (* inside a quoted literal *)
    assert (Hbump : Ascii.eqb sc c = false ->
                    InvT q (pre ++ str1 c) (set_prev (bump st) c)).
    { intros Hne. apply IT_str with (s := s) (c := sc) (w := w ++ str1 c); cbn;
        rewrite ?slength_snoc; auto.
      - rewrite Hpre, sapp_assoc. reflexivity.
      - unfold occurs in *. rewrite sexists_app, Hocc. cbn. rewrite Hne. reflexivity. }
    assert (Hclose : forall k, quote_for k c = true -> Ascii.eqb sc c = true ->
              InvT q (pre ++ str1 c)
                (set_prev (LS (S (String.length pre)) 0 (S (String.length pre)) false
                   (strStartChar st) (prev st)
                   (ret st ++ [Tok k (cur q (String.length q) st) (tokStartPos st)])%list
                   (oom st)) c)).
    { intros k Hk He. apply Ascii.eqb_eq in He. subst c.
      apply invT_fresh.
      assert (Hq0 : q = (s ++ str1 sc) ++ w ++ String sc rest).
      { rewrite Hq, Hpre, !sapp_assoc. reflexivity. }
      rewrite (cur_eq q (s ++ str1 sc) w (String sc rest) st); auto;
        [|rewrite slength_snoc; assumption].
      rewrite Htp.
      replace (pre ++ str1 sc) with (s ++ String sc (w ++ str1 sc))
        by (rewrite Hpre, sapp_assoc; reflexivity).
      apply tiling_tok; auto.
      - apply cov_quote; assumption.
      - apply no_fuse_plain.
        replace (s ++ String sc (w ++ str1 sc)) with ((s ++ String sc w) ++ str1 sc)
          by (rewrite sapp_assoc; reflexivity).
        rewrite last_char_snoc. apply quote_not_prefix. assumption. }
    unfold lex_step. destruct (char_class true c) eqn:Hc.
    + unfold step_space. rewrite Hss. apply Hbump. apply quote_neq; auto.
      apply class_not_quote; rewrite Hc; discriminate.
    + unfold step_quote. rewrite Hss. cbn [negb].
      destruct (Ascii.eqb (strStartChar st) c) eqn:He; rewrite Hch in He.
      * apply Hclose; auto. apply (class_quote _ Hc).
      * apply Hbump; auto.
    + unfold step_quote. rewrite Hss. cbn [negb].
      destruct (Ascii.eqb (strStartChar st) c) eqn:He; rewrite Hch in He.
      * apply Hclose; auto. apply (class_backq _ Hc).
      * apply Hbump; auto.
    + unfold step_oper. rewrite Hss. apply Hbump. apply quote_neq; auto.
      apply class_not_quote; rewrite Hc; discriminate.
    + unfold step_single. rewrite Hss. apply Hbump. apply quote_neq; auto.
      apply class_not_quote; rewrite Hc; discriminate.
    + unfold step_single. rewrite Hss. apply Hbump. apply quote_neq; auto.
      apply class_not_quote; rewrite Hc; discriminate.
    + apply Hbump. apply quote_neq; auto.
      apply class_not_quote; rewrite Hc; discriminate.
Qed.

Lemma loopT : forall rest q pre st,
  q = pre ++ rest -> InvT q pre st ->
  InvT q q (lex_loop true q (String.length q) (String.length pre) rest st).
Proof.
  induction rest as [|c rest IH]; intros q pre st Hq HI.
  - cbn. rewrite sapp_nil_r in Hq. subst pre. exact HI.
  - cbn [lex_loop]. rewrite <- (slength_snoc pre c). apply IH.
    + rewrite Hq, sapp_assoc. reflexivity.
    + apply stepT; assumption.
Qed.

Lemma initT : forall q, InvT q "" init_state.
Proof.
  intros. apply IT_word with (s := "") (w := ""); cbn; auto. apply tiling_nil. reflexivity.
Qed.

Lemma finishT : forall q st,
  InvT q q st -> tiling q q (ret (lex_finish true q (String.length q) st)).
Proof.
  intros q st HI. unfold lex_finish.
  destruct HI as [s w Hpre Hw Hti Hts Htl Htp Hss Hpv
                 | s x r Hpre Hx Hqe Hti Hts Htl Htp Hss Hpv
                 | s sc w Hpre Hsc Hocc Hti Hts Htl Htp Hss Hch].
  - rewrite Hss. cbn [andb].
    assert (Hem : emit_word q (String.length q) st = (ret st ++ flush_toks w (String.length s))%list).
    { rewrite emit_word_flush. rewrite (cur_eq q s w "" st); auto.
      - rewrite Htp. reflexivity.
      - rewrite sapp_nil_r. assumption. }
    destruct (Nat.ltb 0 (tokLen st)) eqn:E; cbn [ret].
    + rewrite Hem. rewrite Hpre at 2. apply tiling_flush; assumption.
    + apply Nat.ltb_ge in E. rewrite Htl in E. destruct w; [|cbn in E; lia].
      rewrite sapp_nil_r in Hpre. rewrite Hpre at 2. assumption.
  - exfalso. apply (f_equal String.length) in Hqe. rewrite slength_app in Hqe. cbn in Hqe. lia.
  - rewrite Hss. cbn [andb]. cbn [tokLen Nat.ltb Nat.leb ret tokStart tokStartPos].
    unfold emit_word. cbn [tokStartPos ret].
    rewrite (cur_eq q s (String sc w) "");
      [|rewrite sapp_nil_r; assumption|cbn; assumption|cbn; congruence].
    rewrite Htp. unfold build_token.
    assert (Hns : is_space sc = false) by (apply quote_not_space; assumption).
    unfold trim_space. rewrite (trim_left_id _ _ Hns).
    destruct (trim_right_prefix_blank (String sc w)) as [ws [E Hws]].
    set (x := trim_right (String sc w)) in *.
    assert (Hx : x <> "") by (apply trim_right_nonempty; assumption).
    destruct (to_lower x =? "") eqn:El.
    { apply String.eqb_eq in El. destruct x; [congruence|discriminate]. }
    rewrite Hpre at 2. rewrite E.
    apply tiling_snoc; auto.
    + apply cov_word. assumption.
    + unfold no_fuse. intros _ r Hr. rewrite Hpre, E in Hr.
      rewrite sapp_assoc in Hr. apply sapp_inv_head in Hr. apply sapp_inv_head in Hr.
      destruct ws; [discriminate|]. inversion Hr; subst. cbn in Hws. discriminate.
Qed.

Lemma lex_tiling : forall q, tiling q q (lex q).
Proof.
  intros. unfold lex, lex_state. apply finishT.
  apply (loopT q q "" init_state); [reflexivity|apply initT].
Qed.

Lemma tiling_bound : forall q s ts, tiling q s ts ->
  Forall (fun a => exists txt, covers txt a /\ pos a + String.length txt <= String.length s) ts.
Proof.
  induction 1.
  - constructor.
  - apply Forall_app. split.
    + eapply Forall_impl; [|exact IHtiling]. cbn. intros a (x & Hc & Hl). exists x. split; auto.
      rewrite slength_app. lia.
    + constructor; [|constructor]. exists txt. split; auto. rewrite !slength_app. lia.
Qed.

Lemma FOP_snoc : forall (A : Type) (R : A -> A -> Prop) l x,
  ForallOrdPairs R l -> Forall (fun a => R a x) l -> ForallOrdPairs R (l ++ [x]).
Proof.
  induction l; cbn; intros.
  - constructor; constructor.
  - inversion H; subst. inversion H0; subst. constructor.
    + apply Forall_app. split; auto.
    + apply IHl; auto.
Qed.

Lemma tiling_ordered : forall q s ts, tiling q s ts -> ForallOrdPairs ends_before ts.
Proof.
  induction 1.
  - constructor.
  - apply FOP_snoc; auto.
    eapply Forall_impl; [|apply (tiling_bound _ _ _ H)]. cbn. intros a (x & Hc & Hl).
    exists x. split; auto. lia.
Qed.

Lemma lex_ordered : forall q, ForallOrdPairs ends_before (lex q).
Proof. intros. eapply tiling_ordered. apply lex_tiling. Qed.

(* ================================================================== the pinned lexer (regression witnesses) *)

(* D20: 'a'and -- the pinned lexer reports the word a'a at offset 0 *)
Lemma pinned_token_not_ok :
  exists q t, In t (lex_pinned q) /\ ~ tok_ok q t.
Proof.
  exists "'a'and", (Tok NAME "a'a" 0). split.
  - vm_compute. right; left; reflexivity.
  - intros [H|[H|H]].
    + destruct H as [H _]. vm_compute in H. discriminate.
    + destruct H as (c & Hc & Hg & _). cbn in Hc, Hg.
      apply Ascii.eqb_eq in Hc. subst c. discriminate.
    + destruct H as (_ & H & _). vm_compute in H. discriminate.
Qed.

(* D20 / D21: removing an optional blank changes the token sequence of the pinned lexer *)
Lemma pinned_spacing_matters :
  exists items1 tail1 items2 tail2,
    lexemes_of items1 = lexemes_of items2 /\
    admissible items1 tail1 = true /\ admissible items2 tail2 = true /\
    map kind_text (lex_pinned (render items1 tail1)) <>
    map kind_text (lex_pinned (render items2 tail2)).
Proof.
  exists [("", LQuote "'" "a"); (" ", LWord "and")], "",
         [("", LQuote "'" "a"); ("", LWord "and")], "".
  split; [reflexivity|]. split; [reflexivity|]. split; [reflexivity|].
  vm_compute. discriminate.
Qed.

Lemma pinned_operator_dropped :
  exists items1 tail1 items2 tail2,
    lexemes_of items1 = lexemes_of items2 /\
    admissible items1 tail1 = true /\ admissible items2 tail2 = true /\
    map kind_text (lex_pinned (render items1 tail1)) <>
    map kind_text (lex_pinned (render items2 tail2)).
Proof.
  exists [("", LWord "a"); (" ", LSym "*"); (" ", LSym "="); (" ", LWord "b")], "",
         [("", LWord "a"); ("", LSym "*"); ("", LSym "="); ("", LWord "b")], "".
  split; [reflexivity|]. split; [reflexivity|]. split; [reflexivity|].
  vm_compute. discriminate.
Qed.
