(* Proofs/Limit64ParseProofs.v -- the range of the numbers parseLimit hands to the limit nodes
   (Model/StmtParser.v parse_limit / limit_val = int(newNumberExpr(data).Int)): always an int64,
   and non-negative for every token text that does not begin with '-' (a NUMBER token is a WORD of
   the lexer -- '+' and '-' are operator characters and never part of a word --, and buildToken
   calls it NUMBER only if strconv.ParseInt accepts it, so a numeral >= 2^63 is a FLOAT token and
   parseLimit rejects the statement; the correspondence runs these texts, Corr/C08M.v CaseP).
   This is the premise 0 <= Start, Count < 2^63 of limit_machine_slice. *)
From Coq Require Import List ZArith Lia Bool String Ascii.
Import ListNotations.
From KV Require Import Base.Num Model.Token Model.ExprParser Model.StmtParser.
Local Open Scope Z_scope.

Lemma digits_val_nonneg64 : forall (s : string) (acc z : Z),
  0 <= acc -> digits_val s acc = Some z -> 0 <= z.
Proof.
  induction s as [|c s IH]; intros acc z Hacc H; cbn [digits_val] in H.
  - inversion H; subst; assumption.
  - destruct (digit_val c) as [d|] eqn:Ed; [|discriminate].
    apply IH in H; [assumption|].
    unfold digit_val in Ed.
    destruct ((48 <=? N_of_ascii c)%N && (N_of_ascii c <=? 57)%N) eqn:E; [|discriminate].
    inversion Ed; subst. apply andb_true_iff in E. destruct E as [E1 _].
    apply N.leb_le in E1. lia.
Qed.

(* int(NumberExpr.Int) is an int64 whatever the text *)
Lemma limit_val_in64 : forall d : string, - 2 ^ 63 <= limit_val d < 2 ^ 63.
Proof.
  intros d. unfold limit_val. destruct (parse_int d) as [z|] eqn:E; [|lia].
  unfold parse_int in E. destruct d as [|c d]; [discriminate|].
  destruct (if Ascii.eqb c "-" then (true, d) else if Ascii.eqb c "+" then (false, d) else (false, String c d))
    as [neg body].
  destruct body as [|c' body']; [discriminate|].
  destruct (digits_val (String c' body') 0) as [n|]; [|discriminate].
  destruct (in64 (if neg then - n else n)) eqn:Hin; [|discriminate].
  inversion E; subst. unfold in64, min64, max64 in Hin.
  apply andb_true_iff in Hin. destruct Hin as [H1 H2].
  apply Z.leb_le in H1. apply Z.leb_le in H2. lia.
Qed.

(* a text without a leading '-' *)
Definition unsigned (d : string) : Prop :=
  match d with
  | String c _ => c <> "-"%char
  | EmptyString => True
  end.

Lemma limit_val_range : forall d : string, unsigned d -> 0 <= limit_val d < 2 ^ 63.
Proof.
  intros d Hu. split; [|apply limit_val_in64].
  unfold limit_val. destruct (parse_int d) as [z|] eqn:E; [|lia].
  unfold parse_int in E. destruct d as [|c d]; [discriminate|].
  cbn [unsigned] in Hu.
  destruct (Ascii.eqb c "-") eqn:Em; [apply Ascii.eqb_eq in Em; contradiction|].
  destruct (if Ascii.eqb c "+" then (false, d) else (false, String c d)) as [neg body] eqn:Eb.
  assert (neg = false) by (destruct (Ascii.eqb c "+"); inversion Eb; reflexivity). subst neg.
  destruct body as [|c' body']; [discriminate|].
  destruct (digits_val (String c' body') 0) as [n|] eqn:Ed; [|discriminate].
  destruct (in64 n); [|discriminate].
  inversion E; subst. eapply digits_val_nonneg64; [|exact Ed]. lia.
Qed.

(* the NUMBER tokens parseLimit's loop collects are tokens of its input *)
Lemma limit_loop_forall : forall (P : token -> Prop) (ts acc nums rest : list token),
  limit_loop acc ts = POk nums rest -> Forall P acc -> Forall P ts -> Forall P nums.
Proof.
  intros P. induction ts as [|t ts IH]; intros acc nums rest H Hacc Hts; cbn [limit_loop] in H.
  - inversion H; subst; assumption.
  - inversion Hts as [|? ? Ht Hts']; subst.
    destruct (tp t); try (inversion H; subst; assumption);
      try (eapply IH; [exact H| |assumption];
           apply Forall_app; split; [assumption|]; constructor; [assumption|constructor]).
    destruct ts as [|t' ts']; [discriminate|].
    destruct (is_tp t' NUMBER); [|discriminate].
    eapply IH; [exact H|assumption|assumption].
Qed.

(* LimitStmt{Start, Count} as parseLimit builds it: both in 0 .. 2^63-1 *)
Theorem parse_limit_range_lemma : forall (ts rest : list token) (l : limit_t),
  parse_limit ts = POk l rest ->
  Forall (fun t => unsigned (data t)) ts ->
  (0 <= l_start l < 2 ^ 63) /\ (0 <= l_count l < 2 ^ 63).
Proof.
  intros ts rest l H Hts. unfold parse_limit in H.
  destruct ts as [|t ts']; [discriminate|].
  unfold expect in H.
  destruct (toktype_eqb (tp t) LIMIT); cbn [bind] in H; [|discriminate].
  destruct (limit_loop [] ts') as [nums rest'| | |] eqn:El; cbn [bind] in H; try discriminate.
  inversion Hts as [|? ? _ Hts']; subst.
  pose proof (@limit_loop_forall _ ts' [] nums rest' El (Forall_nil _) Hts') as Hn.
  destruct nums as [|a [|b [|c nums']]]; try discriminate.
  - inversion H; subst. cbn [l_start l_count].
    inversion Hn; subst. split; [lia|apply limit_val_range; assumption].
  - inversion H; subst. cbn [l_start l_count].
    inversion Hn as [|? ? Ha Hn']; subst. inversion Hn'; subst.
    split; apply limit_val_range; assumption.
Qed.

(* without any premise on the token texts: both fields are int64 values *)
Lemma parse_limit_in64 : forall (ts rest : list token) (l : limit_t),
  parse_limit ts = POk l rest ->
  (- 2 ^ 63 <= l_start l < 2 ^ 63) /\ (- 2 ^ 63 <= l_count l < 2 ^ 63).
Proof.
  intros ts rest l H. unfold parse_limit in H.
  destruct ts as [|t ts']; [discriminate|].
  unfold expect in H.
  destruct (toktype_eqb (tp t) LIMIT); cbn [bind] in H; [|discriminate].
  destruct (limit_loop [] ts') as [nums rest'| | |]; cbn [bind] in H; try discriminate.
  destruct nums as [|a [|b [|c nums']]]; try discriminate; inversion H; subst; cbn [l_start l_count].
  - split; [lia|apply limit_val_in64].
  - split; apply limit_val_in64.
Qed.

From KV Require Import Model.Limit Model.Limit64 Proofs.LimitProofs Proofs.Limit64Proofs.

(* FROM THE LIMIT CLAUSE AS PARSED to the rows: whatever parseLimit accepts, the machine-integer
   limit node run with the parsed Start / Count returns exactly that slice (Z.to_nat of a negative
   number is 0; parse_limit_range_lemma: the numbers are not negative for unsigned token texts) *)
Theorem parsed_limit_machine_slice_lemma :
  forall (A : Type) (ts rest : list token) (l : limit_t) (B : Z) (bs : list (list A)),
  parse_limit ts = POk l rest ->
  Z.of_nat (tot bs) < 2 ^ 63 -> Forall nonempty bs ->
  exists outs, drain_batch64 B (l_start l) (l_count l) bs = Some outs /\
               List.concat outs = firstn (Z.to_nat (l_count l)) (skipn (Z.to_nat (l_start l)) (List.concat bs)) /\
               Forall nonempty outs.
Proof.
  intros A ts rest l B bs H Ht Hne. destruct (parse_limit_in64 _ _ _ H) as [[_ Hs] [_ Hn]].
  apply limit_machine_batch_slice_all; assumption.
Qed.

Theorem parsed_limit_machine_slice_row_lemma :
  forall (A : Type) (ts rest : list token) (l : limit_t) (rows : list A),
  parse_limit ts = POk l rest ->
  drain_row64 (l_start l) (l_count l) rows
    = Some (firstn (Z.to_nat (l_count l)) (skipn (Z.to_nat (l_start l)) rows)).
Proof.
  intros A ts rest l rows H. destruct (parse_limit_in64 _ _ _ H) as [[_ Hs] [_ Hn]].
  apply limit_machine_row_slice_all; assumption.
Qed.
