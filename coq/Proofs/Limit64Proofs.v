(* Proofs/Limit64Proofs.v -- the machine-integer twin Model/Limit64.v (int64 counters with
   wrap-around) returns exactly what the unbounded twin Model/Limit.v returns, for every Start and
   Count in 0 .. 2^63-1 (all that parseLimit can produce), every PlanBatchSize and every child
   stream with fewer than 2^63 rows: NO intermediate value formed by limit_plan.go leaves the int64
   range.  Hence the slice theorems of C08 hold of the machine twin. *)
From Coq Require Import List ZArith Arith Lia Bool.
Import ListNotations.
From KV Require Import Base.Num Model.Limit Model.Limit64 Proofs.LimitProofs.
Local Open Scope Z_scope.

Set Implicit Arguments.

Lemma wrap64_small : forall z, - 2 ^ 63 <= z < 2 ^ 63 -> wrap64 z = z.
Proof.
  intros z H. unfold wrap64. rewrite Z.mod_small by lia. lia.
Qed.

(* the rows of a stream of batches *)
Definition tot {A} (bs : list (list A)) : nat := length (concat bs).

Lemma tot_cons : forall A (b : list A) bs, tot (b :: bs) = (length b + tot bs)%nat.
Proof. intros. unfold tot. cbn [concat]. apply app_length. Qed.

Section Limit64Proofs.
Variable A : Type.

(* the machine state that stands for a state of the unbounded twin *)
Definition inj (st : lstate) : mstate := MState (Z.of_nat (skips st)) (Z.of_nat (current st)).

Lemma inj_init : inj linit = minit.
Proof. reflexivity. Qed.

Lemma inc_ok : forall k m : nat, (k < m)%nat -> Z.of_nat m < 2 ^ 63 ->
  add64 (Z.of_nat k) 1 = Z.of_nat (S k).
Proof.
  intros k m H Hm. unfold add64. rewrite wrap64_small by lia. lia.
Qed.

(* ------------------------------------------------------------------ row mode *)

Lemma next_skip64_ref : forall (rows : list A) (s sk : nat),
  Z.of_nat s < 2 ^ 63 ->
  next_skip64 (Z.of_nat s) (Z.of_nat sk) rows =
    match next_skip s sk rows with
    | None => (true, Z.of_nat (sk + length rows), [])
    | Some (sk', rows') => (false, Z.of_nat sk', rows')
    end.
Proof.
  induction rows as [|r rows IH]; intros s sk Hs; cbn [next_skip64 next_skip].
  - destruct (Z.ltb_spec (Z.of_nat sk) (Z.of_nat s)); destruct (Nat.ltb_spec sk s); try lia.
    + cbn [length]. rewrite Nat.add_0_r. reflexivity.
    + reflexivity.
  - destruct (Z.ltb_spec (Z.of_nat sk) (Z.of_nat s)); destruct (Nat.ltb_spec sk s); try lia.
    + rewrite (@inc_ok sk s) by assumption. rewrite IH by assumption.
      destruct (next_skip s (S sk) rows) as [[sk' rows']|]; [reflexivity|].
      cbn [length]. replace (sk + S (length rows))%nat with (S sk + length rows)%nat by lia. reflexivity.
    + reflexivity.
Qed.

Lemma next64_ref : forall (s n : nat) (st : lstate) (rows : list A),
  Z.of_nat s < 2 ^ 63 -> Z.of_nat n < 2 ^ 63 ->
  next64 (Z.of_nat s) (Z.of_nat n) (inj st) rows =
    match next s n st rows with
    | (o, st', rows') => (o, inj st', rows')
    end.
Proof.
  intros s n st rows Hs Hn. unfold next64, next, inj. cbn [mskips mcurrent].
  rewrite next_skip64_ref by assumption.
  destruct (next_skip s (skips st) rows) as [[sk' rows1]|]; cbn [skips current].
  - destruct (Z.leb_spec (Z.of_nat n) (Z.of_nat (current st)));
    destruct (Nat.leb_spec n (current st)); try lia.
    + reflexivity.
    + destruct rows1 as [|r rows2]; [reflexivity|].
      rewrite (@inc_ok (current st) n) by assumption. reflexivity.
  - reflexivity.
Qed.

Lemma drain_row64_fuel_ref : forall (fuel s n : nat) (st : lstate) (rows : list A),
  Z.of_nat s < 2 ^ 63 -> Z.of_nat n < 2 ^ 63 ->
  drain_row64_fuel fuel (Z.of_nat s) (Z.of_nat n) (inj st) rows = drain_row_fuel fuel s n st rows.
Proof.
  induction fuel as [|f IH]; intros s n st rows Hs Hn; [reflexivity|].
  cbn [drain_row64_fuel drain_row_fuel]. rewrite next64_ref by assumption.
  destruct (next s n st rows) as [[o st'] rows']. destruct o as [r|]; [|reflexivity].
  rewrite IH by assumption. reflexivity.
Qed.

Lemma drain_row64_ref_nat : forall (s n : nat) (rows : list A),
  Z.of_nat s < 2 ^ 63 -> Z.of_nat n < 2 ^ 63 ->
  drain_row64 (Z.of_nat s) (Z.of_nat n) rows = drain_row s n rows.
Proof.
  intros. unfold drain_row64, drain_row. rewrite <- inj_init.
  apply drain_row64_fuel_ref; assumption.
Qed.

(* ------------------------------------------------------------------ batch mode *)

Lemma skipnZ_ref : forall (l : list A) (k : nat), skipnZ (Z.of_nat k) l = skipn k l.
Proof.
  induction l as [|x l IH]; intros k; cbn [skipnZ].
  - destruct k; reflexivity.
  - destruct k as [|k].
    + reflexivity.
    + destruct (Z.leb_spec (Z.of_nat (S k)) 0); [lia|].
      replace (Z.of_nat (S k) - 1) with (Z.of_nat k) by lia. rewrite IH. reflexivity.
Qed.

(* the skip loop: p.Start - p.skips, p.skips += nrows, p.skips += restSkips stay in 0 .. Start *)
Lemma skip_loop64_ref : forall (bs : list (list A)) (s sk : nat) (last : list A),
  Z.of_nat s < 2 ^ 63 ->
  skip_loop64 (Z.of_nat s) (Z.of_nat sk) last bs =
    match skip_loop true s sk last bs with
    | (o, sk', bs') => (o, Z.of_nat sk', bs')
    end.
Proof.
  induction bs as [|b bs IH]; intros s sk last Hs; cbn [skip_loop64 skip_loop].
  - destruct (Z.ltb_spec (Z.of_nat sk) (Z.of_nat s)); destruct (Nat.ltb_spec sk s); try lia; reflexivity.
  - destruct (Z.ltb_spec (Z.of_nat sk) (Z.of_nat s)); destruct (Nat.ltb_spec sk s); try lia; [|reflexivity].
    unfold len64, sub64. rewrite wrap64_small by lia.
    replace (Z.of_nat s - Z.of_nat sk) with (Z.of_nat (s - sk)) by lia.
    destruct (Z.eqb_spec (Z.of_nat (length b)) 0); destruct (Nat.eqb_spec (length b) 0); try lia;
      [reflexivity|].
    destruct (Z.leb_spec (Z.of_nat (length b)) (Z.of_nat (s - sk)));
    destruct (Nat.leb_spec (length b) (s - sk)); try lia.
    + unfold add64. rewrite wrap64_small by lia. rewrite <- Nat2Z.inj_add. apply IH. assumption.
    + rewrite skipnZ_ref. unfold add64. rewrite wrap64_small by lia. rewrite <- Nat2Z.inj_add.
      reflexivity.
Qed.

Lemma take_left64_ref : forall (rows : list A) (n cur : nat) (ret : list A) (cnt : nat),
  Z.of_nat n < 2 ^ 63 -> Z.of_nat (cnt + length rows) < 2 ^ 63 ->
  take_left64 (Z.of_nat n) (Z.of_nat cur) rows ret (Z.of_nat cnt) =
    match take_left n cur rows ret cnt with
    | (r, c, k) => (r, Z.of_nat c, Z.of_nat k)
    end.
Proof.
  induction rows as [|r rows IH]; intros n cur ret cnt Hn Hc; cbn [take_left64 take_left];
    [reflexivity|].
  cbn [length] in Hc.
  destruct (Z.leb_spec (Z.of_nat n) (Z.of_nat cur)); destruct (Nat.leb_spec n cur); try lia;
    [reflexivity|].
  rewrite (@inc_ok cur n) by assumption.
  replace (add64 (Z.of_nat cnt) 1) with (Z.of_nat (S cnt))
    by (unfold add64; rewrite wrap64_small by lia; lia).
  apply IH; [assumption|lia].
Qed.

Lemma take_fill64_ref : forall (rows : list A) (n cur : nat) (ret : list A) (cnt : nat),
  (cur < n)%nat ->
  Z.of_nat n < 2 ^ 63 -> Z.of_nat (cnt + length rows) < 2 ^ 63 ->
  take_fill64 (Z.of_nat n) (Z.of_nat cur) rows ret (Z.of_nat cnt) =
    match take_fill n cur rows ret cnt with
    | (r, c, k, f) => (r, Z.of_nat c, Z.of_nat k, f)
    end.
Proof.
  induction rows as [|r rows IH]; intros n cur ret cnt Hlt Hn Hc; cbn [take_fill64 take_fill];
    [reflexivity|].
  cbn [length] in Hc. cbv zeta.
  rewrite (@inc_ok cur n) by assumption.
  replace (add64 (Z.of_nat cnt) 1) with (Z.of_nat (S cnt))
    by (unfold add64; rewrite wrap64_small by lia; lia).
  destruct (Z.leb_spec (Z.of_nat n) (Z.of_nat (S cur))); destruct (Nat.leb_spec n (S cur)); try lia;
    [reflexivity|].
  apply IH; [lia|assumption|lia].
Qed.

(* PlanBatchSize (any int, also <= 0) against the local counter *)
Lemma leb_B : forall (B : Z) (k : nat), (B <=? Z.of_nat k) = (Z.to_nat B <=? k)%nat.
Proof.
  intros B k. destruct (Z.leb_spec B (Z.of_nat k)); destruct (Nat.leb_spec (Z.to_nat B) k); lia.
Qed.

Lemma fill_loop64_ref : forall (bs : list (list A)) (B : Z) (n cur : nat) (ret : list A) (cnt : nat),
  (cur < n)%nat ->
  Z.of_nat n < 2 ^ 63 -> Z.of_nat (cnt + tot bs) < 2 ^ 63 ->
  fill_loop64 B (Z.of_nat n) (Z.of_nat cur) ret (Z.of_nat cnt) bs =
    match fill_loop (Z.to_nat B) n cur ret cnt bs with
    | (r, c, bs') => (r, Z.of_nat c, bs')
    end.
Proof.
  induction bs as [|b bs IH]; intros B n cur ret cnt Hlt Hn Hc; cbn [fill_loop64 fill_loop];
    [reflexivity|].
  rewrite tot_cons in Hc. unfold len64.
  destruct (Z.eqb_spec (Z.of_nat (length b)) 0); destruct (Nat.eqb_spec (length b) 0); try lia;
    [reflexivity|].
  rewrite take_fill64_ref by (assumption || lia).
  rewrite take_fill_spec by assumption.
  destruct (Nat.leb_spec n (cur + length b)); [reflexivity|].
  rewrite leb_B.
  destruct (Z.to_nat B <=? cnt + Nat.min (n - cur) (length b))%nat; [reflexivity|].
  apply IH; [lia|assumption|lia].
Qed.

(* what the loops leave of the stream is not longer than the stream *)
Lemma skip_loop_tot : forall (bs : list (list A)) (s sk : nat),
  match skip_loop true s sk [] bs with
  | (o, _, bs') =>
      (match o with None => 0 | Some rows => length rows end + tot bs' <= tot bs)%nat
  end.
Proof.
  induction bs as [|b bs IH]; intros s sk; cbn [skip_loop].
  - destruct (sk <? s)%nat; cbn; lia.
  - destruct (sk <? s)%nat.
    + rewrite tot_cons.
      destruct (length b =? 0)%nat; [lia|].
      destruct (length b <=? s - sk)%nat.
      * specialize (IH s (sk + length b)%nat).
        destruct (skip_loop true s (sk + length b) [] bs) as [[o sk'] bs']. lia.
      * rewrite skipn_length. lia.
    + cbn [length]. lia.
Qed.

Lemma fill_loop_tot : forall (bs : list (list A)) (B n cur : nat) (ret : list A) (cnt : nat),
  match fill_loop B n cur ret cnt bs with
  | (_, _, bs') => (tot bs' <= tot bs)%nat
  end.
Proof.
  induction bs as [|b bs IH]; intros B n cur ret cnt; cbn [fill_loop].
  - lia.
  - rewrite tot_cons.
    destruct (length b =? 0)%nat; [lia|].
    destruct (take_fill n cur b ret cnt) as [[[ret' cur'] cnt'] fin].
    destruct fin; [lia|].
    destruct (B <=? cnt')%nat; [lia|].
    specialize (IH B n cur' ret' cnt').
    destruct (fill_loop B n cur' ret' cnt' bs) as [[r c] bs']. lia.
Qed.

Lemma batch_tot : forall (B s n : nat) (st : lstate) (bs : list (list A)),
  match batch true B s n st bs with
  | (_, _, bs') => (tot bs' <= tot bs)%nat
  end.
Proof.
  intros B s n st bs. unfold batch.
  pose proof (skip_loop_tot bs s (skips st)) as H1.
  destruct (skip_loop true s (skips st) [] bs) as [[o sk'] bs1].
  destruct o as [rows|]; [|lia].
  destruct (take_left n (current st) rows [] 0) as [[ret cur] cnt].
  destruct (n <=? cur)%nat; [lia|].
  pose proof (fill_loop_tot bs1 B n cur ret cnt) as H2.
  destruct (fill_loop B n cur ret cnt bs1) as [[r c] bs2]. lia.
Qed.

(* one call of Batch, from ANY state of the unbounded twin *)
Lemma batch64_ref : forall (B : Z) (s n : nat) (st : lstate) (bs : list (list A)),
  Z.of_nat s < 2 ^ 63 -> Z.of_nat n < 2 ^ 63 -> Z.of_nat (tot bs) < 2 ^ 63 ->
  batch64 B (Z.of_nat s) (Z.of_nat n) (inj st) bs =
    match batch true (Z.to_nat B) s n st bs with
    | (o, st', bs') => (o, inj st', bs')
    end.
Proof.
  intros B s n st bs Hs Hn Ht. unfold batch64, batch, inj. cbn [mskips mcurrent].
  rewrite skip_loop64_ref by assumption.
  pose proof (skip_loop_tot bs s (skips st)) as H1.
  destruct (skip_loop true s (skips st) [] bs) as [[o sk'] bs1].
  destruct o as [rows|]; [|reflexivity].
  pose proof (@take_left64_ref rows n (current st) [] 0%nat Hn) as H2.
  cbn [Z.of_nat] in H2. rewrite H2 by (cbn [Nat.add]; lia). clear H2.
  rewrite take_left_spec. cbn [Nat.add].
  set (k := Nat.min (n - current st) (length rows)).
  destruct (Z.leb_spec (Z.of_nat n) (Z.of_nat (current st + k)));
  destruct (Nat.leb_spec n (current st + k)); try lia; [reflexivity|].
  rewrite fill_loop64_ref by (assumption || lia).
  destruct (fill_loop (Z.to_nat B) n (current st + k) ([] ++ firstn (n - current st) rows) k bs1)
    as [[r c] bs2].
  reflexivity.
Qed.

Lemma drain_batch64_fuel_ref : forall (fuel : nat) (B : Z) (s n : nat) (st : lstate) (bs : list (list A)),
  Z.of_nat s < 2 ^ 63 -> Z.of_nat n < 2 ^ 63 -> Z.of_nat (tot bs) < 2 ^ 63 ->
  drain_batch64_fuel fuel B (Z.of_nat s) (Z.of_nat n) (inj st) bs =
  drain_batch_fuel true fuel (Z.to_nat B) s n st bs.
Proof.
  induction fuel as [|f IH]; intros B s n st bs Hs Hn Ht; [reflexivity|].
  cbn [drain_batch64_fuel drain_batch_fuel]. rewrite batch64_ref by assumption.
  pose proof (batch_tot (Z.to_nat B) s n st bs) as H1.
  destruct (batch true (Z.to_nat B) s n st bs) as [[out st'] bs'].
  destruct out as [|x out]; [reflexivity|].
  rewrite IH by (assumption || lia). reflexivity.
Qed.

Lemma drain_batch64_ref_nat : forall (B : Z) (s n : nat) (bs : list (list A)),
  Z.of_nat s < 2 ^ 63 -> Z.of_nat n < 2 ^ 63 -> Z.of_nat (tot bs) < 2 ^ 63 ->
  drain_batch64 B (Z.of_nat s) (Z.of_nat n) bs = drain_batch true (Z.to_nat B) s n bs.
Proof.
  intros. unfold drain_batch64, drain_batch. rewrite <- inj_init.
  apply drain_batch64_fuel_ref; assumption.
Qed.

(* ------------------------------------------------------------------ the refinement theorem *)

(* For every Start, Count in 0 .. 2^63-1, every PlanBatchSize (any int) and every child stream with
   fewer than 2^63 rows the machine twin returns what the unbounded twin returns, batch by batch. *)
Theorem limit64_refines_nat_lemma : forall (B s n : Z) (bs : list (list A)),
  0 <= s < 2 ^ 63 -> 0 <= n < 2 ^ 63 -> Z.of_nat (tot bs) < 2 ^ 63 ->
  drain_batch64 B s n bs = drain_batch true (Z.to_nat B) (Z.to_nat s) (Z.to_nat n) bs.
Proof.
  intros B s n bs Hs Hn Ht.
  rewrite <- (Z2Nat.id s) at 1 by lia. rewrite <- (Z2Nat.id n) at 1 by lia.
  apply drain_batch64_ref_nat; try assumption; rewrite Z2Nat.id; lia.
Qed.

(* row mode needs no premise on the child: skips and current never pass Start and Count *)
Theorem limit64_row_refines_nat_lemma : forall (s n : Z) (rows : list A),
  0 <= s < 2 ^ 63 -> 0 <= n < 2 ^ 63 ->
  drain_row64 s n rows = drain_row (Z.to_nat s) (Z.to_nat n) rows.
Proof.
  intros s n rows Hs Hn.
  rewrite <- (Z2Nat.id s) at 1 by lia. rewrite <- (Z2Nat.id n) at 1 by lia.
  apply drain_row64_ref_nat; rewrite Z2Nat.id; lia.
Qed.

(* ------------------------------------------------------------------ the slice, machine twin *)

Theorem limit_machine_batch_slice : forall (B s n : Z) (bs : list (list A)),
  0 <= s < 2 ^ 63 -> 0 <= n < 2 ^ 63 -> Z.of_nat (tot bs) < 2 ^ 63 ->
  Forall nonempty bs ->
  exists outs, drain_batch64 B s n bs = Some outs /\
               concat outs = firstn (Z.to_nat n) (skipn (Z.to_nat s) (concat bs)) /\
               Forall nonempty outs.
Proof.
  intros B s n bs Hs Hn Ht Hne. rewrite limit64_refines_nat_lemma by assumption.
  apply drain_batch_slice. assumption.
Qed.

Theorem limit_machine_row_slice : forall (s n : Z) (rows : list A),
  0 <= s < 2 ^ 63 -> 0 <= n < 2 ^ 63 ->
  drain_row64 s n rows = Some (firstn (Z.to_nat n) (skipn (Z.to_nat s) rows)).
Proof.
  intros s n rows Hs Hn. rewrite limit64_row_refines_nat_lemma by assumption.
  apply drain_row_slice.
Qed.

(* ------------------------------------------------------------------ negative Start / Count
   (not producible by the parser; the fields are public): a negative Count yields nothing, a
   negative Start skips nothing -- the code never subtracts from or adds to them *)
Lemma next_skip64_neg : forall (start sk : Z) (rows : list A),
  start <= sk -> next_skip64 start sk rows = (false, sk, rows).
Proof.
  intros start sk rows H. destruct rows; cbn [next_skip64];
  destruct (Z.ltb_spec sk start); try lia; reflexivity.
Qed.

Theorem limit_machine_row_negative_count : forall (s n : Z) (rows : list A),
  s <= 0 -> n <= 0 -> drain_row64 s n rows = Some [].
Proof.
  intros s n rows Hs Hn. unfold drain_row64. cbn [drain_row64_fuel]. unfold next64, minit.
  cbn [mskips mcurrent]. rewrite next_skip64_neg by lia.
  destruct (Z.leb_spec n 0); [reflexivity|lia].
Qed.

(* ------------------------------------------------------------------ AggregatePlan *)

Lemma agg_batch64_limited : forall (B s n : Z) (st : mstate) (bs : list (list A)),
  0 <= n -> agg_batch64 B s n st bs = batch64 B s n st bs.
Proof.
  intros. unfold agg_batch64. destruct (Z.ltb_spec n 0); [lia|reflexivity].
Qed.

Lemma agg_next64_limited : forall (s n : Z) (st : mstate) (rows : list A),
  0 <= n -> agg_next64 s n st rows = next64 s n st rows.
Proof.
  intros. unfold agg_next64. destruct (Z.ltb_spec n 0); [lia|reflexivity].
Qed.

Lemma agg_drain_batch64_fuel_limited : forall (fuel : nat) (B s n : Z) (st : mstate) (bs : list (list A)),
  0 <= n -> agg_drain_batch64_fuel fuel B s n st bs = drain_batch64_fuel fuel B s n st bs.
Proof.
  induction fuel as [|f IH]; intros B s n st bs Hn; [reflexivity|].
  cbn [agg_drain_batch64_fuel drain_batch64_fuel]. rewrite agg_batch64_limited by assumption.
  destruct (batch64 B s n st bs) as [[out st'] bs']. destruct out; [reflexivity|].
  rewrite IH by assumption. reflexivity.
Qed.

Lemma agg_drain_batch64_limited : forall (B s n : Z) (bs : list (list A)),
  0 <= n -> agg_drain_batch64 B s n bs = drain_batch64 B s n bs.
Proof.
  intros. apply agg_drain_batch64_fuel_limited. assumption.
Qed.

Lemma agg_drain_row64_fuel_limited : forall (fuel : nat) (s n : Z) (st : mstate) (rows : list A),
  0 <= n -> agg_drain_row64_fuel fuel s n st rows = drain_row64_fuel fuel s n st rows.
Proof.
  induction fuel as [|f IH]; intros s n st rows Hn; [reflexivity|].
  cbn [agg_drain_row64_fuel drain_row64_fuel]. rewrite agg_next64_limited by assumption.
  destruct (next64 s n st rows) as [[o st'] rows']. destruct o; [|reflexivity].
  rewrite IH by assumption. reflexivity.
Qed.

Lemma agg_drain_row64_limited : forall (s n : Z) (rows : list A),
  0 <= n -> agg_drain_row64 s n rows = drain_row64 s n rows.
Proof.
  intros. apply agg_drain_row64_fuel_limited. assumption.
Qed.

(* Limit = -1 (no LIMIT, or LIMIT above an ORDER BY): every prepared row is served *)
Lemma agg_drain_batch64_fuel_all : forall (bs : list (list A)) (fuel : nat) (B s n : Z) (st : mstate),
  n < 0 -> Forall nonempty bs -> (length bs < fuel)%nat ->
  agg_drain_batch64_fuel fuel B s n st bs = Some bs.
Proof.
  induction bs as [|b bs IH]; intros fuel B s n st Hn Hne Hf;
    (destruct fuel as [|f]; [cbn [length] in Hf; lia|]);
    cbn [agg_drain_batch64_fuel]; unfold agg_batch64;
    (destruct (Z.ltb_spec n 0); [|lia]).
  - reflexivity.
  - inversion Hne as [|? ? Hb Hbs]; subst. destruct b as [|x b]; [exfalso; apply Hb; reflexivity|].
    rewrite IH by (try assumption; cbn [length] in Hf; lia). reflexivity.
Qed.

Lemma agg_drain_row64_fuel_all : forall (rows : list A) (fuel : nat) (s n : Z) (st : mstate),
  n < 0 -> (length rows < fuel)%nat ->
  agg_drain_row64_fuel fuel s n st rows = Some rows.
Proof.
  induction rows as [|r rows IH]; intros fuel s n st Hn Hf;
    (destruct fuel as [|f]; [cbn [length] in Hf; lia|]);
    cbn [agg_drain_row64_fuel]; unfold agg_next64;
    (destruct (Z.ltb_spec n 0); [|lia]).
  - reflexivity.
  - rewrite IH by (try assumption; cbn [length] in Hf; lia). reflexivity.
Qed.

(* the pushed-down skip / limit of AggregatePlan over its prepared rows: the slice when the plan
   carries a limit (Limit >= 0), everything when it does not (Limit < 0; Start is then ignored) *)
Definition agg_slice (s n : Z) (rows : list A) : list A :=
  if n <? 0 then rows else firstn (Z.to_nat n) (skipn (Z.to_nat s) rows).

Theorem agg_machine_batch_slice : forall (B s n : Z) (bs : list (list A)),
  0 <= s < 2 ^ 63 -> n < 2 ^ 63 -> Z.of_nat (tot bs) < 2 ^ 63 ->
  Forall nonempty bs ->
  exists outs, agg_drain_batch64 B s n bs = Some outs /\
               concat outs = agg_slice s n (concat bs) /\
               Forall nonempty outs.
Proof.
  intros B s n bs Hs Hn Ht Hne. unfold agg_slice. destruct (Z.ltb_spec n 0).
  - exists bs. split; [|split; [reflexivity|assumption]].
    unfold agg_drain_batch64. apply agg_drain_batch64_fuel_all; try assumption. lia.
  - rewrite agg_drain_batch64_limited by assumption.
    apply limit_machine_batch_slice; try assumption. lia.
Qed.

Theorem agg_machine_row_slice : forall (s n : Z) (rows : list A),
  0 <= s < 2 ^ 63 -> n < 2 ^ 63 ->
  agg_drain_row64 s n rows = Some (agg_slice s n rows).
Proof.
  intros s n rows Hs Hn. unfold agg_slice. destruct (Z.ltb_spec n 0).
  - unfold agg_drain_row64. apply agg_drain_row64_fuel_all; [assumption|lia].
  - rewrite agg_drain_row64_limited by assumption.
    apply limit_machine_row_slice; [assumption|lia].
Qed.

(* ------------------------------------------------------------------ DeletePlan.execute *)

Lemma delete_count64_exact : forall (outs : list (list A)) (cnt : nat),
  Z.of_nat (cnt + tot outs) < 2 ^ 63 ->
  delete_count64 (Z.of_nat cnt) outs = Z.of_nat (cnt + tot outs).
Proof.
  induction outs as [|b outs IH]; intros cnt H; cbn [delete_count64].
  - unfold tot. cbn. rewrite Nat.add_0_r. reflexivity.
  - rewrite tot_cons in *. unfold add64, len64. rewrite wrap64_small by lia.
    rewrite <- Nat2Z.inj_add. rewrite IH by lia. f_equal. lia.
Qed.

(* DELETE ... LIMIT s, n: the keys handed to BatchDelete are the slice, in order, in non-empty
   batches, and the number DeletePlan reports is their number (no wrap-around in count += nrows) *)
Theorem delete_limit_machine : forall (B s n : Z) (bs : list (list A)),
  0 <= s < 2 ^ 63 -> 0 <= n < 2 ^ 63 -> Z.of_nat (tot bs) < 2 ^ 63 ->
  Forall nonempty bs ->
  exists outs, delete_limit64 B s n bs = Some (outs, Z.of_nat (tot outs)) /\
               concat outs = firstn (Z.to_nat n) (skipn (Z.to_nat s) (concat bs)) /\
               Forall nonempty outs.
Proof.
  intros B s n bs Hs Hn Ht Hne.
  destruct (@limit_machine_batch_slice B s n bs Hs Hn Ht Hne) as (outs & H1 & H2 & H3).
  exists outs. split; [|split; assumption].
  unfold delete_limit64. rewrite H1.
  pose proof (@delete_count64_exact outs 0%nat) as H4. cbn [Z.of_nat Nat.add] in H4.
  rewrite H4; [reflexivity|].
  assert (tot outs <= tot bs)%nat; [|lia].
  unfold tot. rewrite H2. rewrite firstn_length, skipn_length. lia.
Qed.

End Limit64Proofs.

(* ------------------------------------------------------------------ EVERY int64 Start / Count
   The fields Start, Count are public: a negative Count yields nothing and a negative Start skips
   nothing (the code only compares them and forms Start - skips when skips < Start), i.e. they act
   as 0 = Z.to_nat of them.  So the refinement, and the slice, hold for ALL int64 values, with no
   premise about where the numbers come from. *)
Section Limit64All.
Variable A : Type.

Lemma to_nat_max : forall z : Z, Z.of_nat (Z.to_nat z) = Z.max 0 z.
Proof. intros z. lia. Qed.

Lemma next64_clamp : forall (s n : Z) (st : lstate) (rows : list A),
  next64 s n (inj st) rows = next64 (Z.max 0 s) (Z.max 0 n) (inj st) rows.
Proof.
  intros s n st rows.
  assert (Hs : s < 0 -> forall sk rws, next_skip64 s (Z.of_nat sk) rws = next_skip64 0 (Z.of_nat sk) (rws : list A)).
  { intros H sk rws. destruct rws; cbn [next_skip64];
    destruct (Z.ltb_spec (Z.of_nat sk) s); destruct (Z.ltb_spec (Z.of_nat sk) 0); try lia; reflexivity. }
  unfold next64, inj. cbn [mskips mcurrent].
  destruct (Z.max_spec 0 s) as [[H1 ->]|[H1 ->]]; destruct (Z.max_spec 0 n) as [[H2 ->]|[H2 ->]];
    try reflexivity.
  - (* n < 0 *)
    destruct (next_skip64 s (Z.of_nat (skips st)) rows) as [[e sk] r1]. destruct e; [reflexivity|].
    destruct (Z.leb_spec n (Z.of_nat (current st))); destruct (Z.leb_spec 0 (Z.of_nat (current st)));
      try lia; reflexivity.
  - (* s <= 0 *)
    destruct (Z.eq_dec s 0) as [->|Hne]; [reflexivity|]. rewrite Hs by lia. reflexivity.
  - destruct (Z.eq_dec s 0) as [->|Hne].
    + destruct (next_skip64 0 (Z.of_nat (skips st)) rows) as [[e sk] r1]. destruct e; [reflexivity|].
      destruct (Z.leb_spec n (Z.of_nat (current st))); destruct (Z.leb_spec 0 (Z.of_nat (current st)));
        try lia; reflexivity.
    + rewrite Hs by lia.
      destruct (next_skip64 0 (Z.of_nat (skips st)) rows) as [[e sk] r1]. destruct e; [reflexivity|].
      destruct (Z.leb_spec n (Z.of_nat (current st))); destruct (Z.leb_spec 0 (Z.of_nat (current st)));
        try lia; reflexivity.
Qed.

Lemma skip_loop64_clamp : forall (s : Z) (sk : nat) (last : list A) (bs : list (list A)),
  s <= 0 -> skip_loop64 s (Z.of_nat sk) last bs = skip_loop64 0 (Z.of_nat sk) last bs.
Proof.
  intros s sk last bs H. destruct bs; cbn [skip_loop64];
  destruct (Z.ltb_spec (Z.of_nat sk) s); destruct (Z.ltb_spec (Z.of_nat sk) 0); try lia; reflexivity.
Qed.

Lemma take_left64_clamp : forall (n : Z) (cur : nat) (rows ret : list A) (cnt : Z),
  n <= 0 -> take_left64 n (Z.of_nat cur) rows ret cnt = (ret, Z.of_nat cur, cnt).
Proof.
  intros n cur rows ret cnt H. destruct rows; cbn [take_left64]; [reflexivity|].
  destruct (Z.leb_spec n (Z.of_nat cur)); [reflexivity|lia].
Qed.

Lemma batch64_clamp : forall (B s n : Z) (st : lstate) (bs : list (list A)),
  batch64 B s n (inj st) bs = batch64 B (Z.max 0 s) (Z.max 0 n) (inj st) bs.
Proof.
  intros B s n st bs. unfold batch64, inj. cbn [mskips mcurrent].
  replace (skip_loop64 s (Z.of_nat (skips st)) [] bs)
    with (skip_loop64 (Z.max 0 s) (Z.of_nat (skips st)) [] bs).
  2:{ destruct (Z.max_spec 0 s) as [[H1 ->]|[H1 ->]]; [reflexivity|].
      symmetry. apply skip_loop64_clamp. lia. }
  destruct (skip_loop64 (Z.max 0 s) (Z.of_nat (skips st)) [] bs) as [[o sk] bs1].
  destruct o as [rows|]; [|reflexivity].
  destruct (Z.max_spec 0 n) as [[H2 ->]|[H2 ->]]; [reflexivity|].
  rewrite !take_left64_clamp by lia.
  destruct (Z.leb_spec n (Z.of_nat (current st))); destruct (Z.leb_spec 0 (Z.of_nat (current st)));
    try lia; reflexivity.
Qed.

Lemma drain_batch64_fuel_ref_all : forall (fuel : nat) (B s n : Z) (st : lstate) (bs : list (list A)),
  s < 2 ^ 63 -> n < 2 ^ 63 -> Z.of_nat (tot bs) < 2 ^ 63 ->
  drain_batch64_fuel fuel B s n (inj st) bs =
  drain_batch_fuel true fuel (Z.to_nat B) (Z.to_nat s) (Z.to_nat n) st bs.
Proof.
  induction fuel as [|f IH]; intros B s n st bs Hs Hn Ht; [reflexivity|].
  cbn [drain_batch64_fuel drain_batch_fuel].
  rewrite batch64_clamp. rewrite <- !to_nat_max.
  rewrite batch64_ref by (rewrite ?to_nat_max; lia || assumption).
  pose proof (batch_tot (Z.to_nat B) (Z.to_nat s) (Z.to_nat n) st bs) as H1.
  destruct (batch true (Z.to_nat B) (Z.to_nat s) (Z.to_nat n) st bs) as [[out st'] bs'].
  destruct out as [|x out]; [reflexivity|].
  rewrite IH by (assumption || lia). reflexivity.
Qed.

Lemma drain_row64_fuel_ref_all : forall (fuel : nat) (s n : Z) (st : lstate) (rows : list A),
  s < 2 ^ 63 -> n < 2 ^ 63 ->
  drain_row64_fuel fuel s n (inj st) rows = drain_row_fuel fuel (Z.to_nat s) (Z.to_nat n) st rows.
Proof.
  induction fuel as [|f IH]; intros s n st rows Hs Hn; [reflexivity|].
  cbn [drain_row64_fuel drain_row_fuel].
  rewrite next64_clamp. rewrite <- !to_nat_max.
  rewrite next64_ref by (rewrite to_nat_max; lia).
  destruct (next (Z.to_nat s) (Z.to_nat n) st rows) as [[o st'] rows']. destruct o as [r|]; [|reflexivity].
  rewrite IH by assumption. reflexivity.
Qed.

Theorem limit64_refines_nat_all : forall (B s n : Z) (bs : list (list A)),
  s < 2 ^ 63 -> n < 2 ^ 63 -> Z.of_nat (tot bs) < 2 ^ 63 ->
  drain_batch64 B s n bs = drain_batch true (Z.to_nat B) (Z.to_nat s) (Z.to_nat n) bs.
Proof.
  intros. unfold drain_batch64, drain_batch. rewrite <- (inj_init).
  apply drain_batch64_fuel_ref_all; assumption.
Qed.

Theorem limit64_row_refines_nat_all : forall (s n : Z) (rows : list A),
  s < 2 ^ 63 -> n < 2 ^ 63 ->
  drain_row64 s n rows = drain_row (Z.to_nat s) (Z.to_nat n) rows.
Proof.
  intros. unfold drain_row64, drain_row. rewrite <- (inj_init).
  apply drain_row64_fuel_ref_all; assumption.
Qed.

Theorem limit_machine_batch_slice_all : forall (B s n : Z) (bs : list (list A)),
  s < 2 ^ 63 -> n < 2 ^ 63 -> Z.of_nat (tot bs) < 2 ^ 63 ->
  Forall nonempty bs ->
  exists outs, drain_batch64 B s n bs = Some outs /\
               concat outs = firstn (Z.to_nat n) (skipn (Z.to_nat s) (concat bs)) /\
               Forall nonempty outs.
Proof.
  intros B s n bs Hs Hn Ht Hne. rewrite limit64_refines_nat_all by assumption.
  apply drain_batch_slice. assumption.
Qed.

Theorem limit_machine_row_slice_all : forall (s n : Z) (rows : list A),
  s < 2 ^ 63 -> n < 2 ^ 63 ->
  drain_row64 s n rows = Some (firstn (Z.to_nat n) (skipn (Z.to_nat s) rows)).
Proof.
  intros s n rows Hs Hn. rewrite limit64_row_refines_nat_all by assumption.
  apply drain_row_slice.
Qed.

Theorem agg_machine_batch_slice_all : forall (B s n : Z) (bs : list (list A)),
  s < 2 ^ 63 -> n < 2 ^ 63 -> Z.of_nat (tot bs) < 2 ^ 63 ->
  Forall nonempty bs ->
  exists outs, agg_drain_batch64 B s n bs = Some outs /\
               concat outs = agg_slice s n (concat bs) /\
               Forall nonempty outs.
Proof.
  intros B s n bs Hs Hn Ht Hne. unfold agg_slice. destruct (Z.ltb_spec n 0).
  - exists bs. split; [|split; [reflexivity|assumption]].
    unfold agg_drain_batch64. apply agg_drain_batch64_fuel_all; try assumption. lia.
  - rewrite agg_drain_batch64_limited by assumption.
    apply limit_machine_batch_slice_all; assumption.
Qed.

Theorem agg_machine_row_slice_all : forall (s n : Z) (rows : list A),
  s < 2 ^ 63 -> n < 2 ^ 63 ->
  agg_drain_row64 s n rows = Some (agg_slice s n rows).
Proof.
  intros s n rows Hs Hn. unfold agg_slice. destruct (Z.ltb_spec n 0).
  - unfold agg_drain_row64. apply agg_drain_row64_fuel_all; [assumption|lia].
  - rewrite agg_drain_row64_limited by assumption.
    apply limit_machine_row_slice_all; assumption.
Qed.

Theorem delete_limit_machine_all : forall (B s n : Z) (bs : list (list A)),
  s < 2 ^ 63 -> n < 2 ^ 63 -> Z.of_nat (tot bs) < 2 ^ 63 ->
  Forall nonempty bs ->
  exists outs, delete_limit64 B s n bs = Some (outs, Z.of_nat (tot outs)) /\
               concat outs = firstn (Z.to_nat n) (skipn (Z.to_nat s) (concat bs)) /\
               Forall nonempty outs.
Proof.
  intros B s n bs Hs Hn Ht Hne.
  destruct (@limit_machine_batch_slice_all B s n bs Hs Hn Ht Hne) as (outs & H1 & H2 & H3).
  exists outs. split; [|split; assumption].
  unfold delete_limit64. rewrite H1.
  pose proof (@delete_count64_exact A outs 0%nat) as H4. cbn [Z.of_nat Nat.add] in H4.
  rewrite H4; [reflexivity|].
  assert (tot outs <= tot bs)%nat; [|lia].
  unfold tot. rewrite H2. rewrite firstn_length, skipn_length. lia.
Qed.

End Limit64All.
