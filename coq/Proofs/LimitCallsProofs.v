(* Proofs/LimitCallsProofs.v -- ROW mode: the storage calls of `<select> limit s, n` are a PREFIX
   of the storage calls of `<select>` (the same statement without the LIMIT), for EVERY final
   plan under the FinalLimitPlan (projection / aggregate / order / another limit over any scan
   node), every storage state (incl. a fault index), every filter oracle.

   Method: a relation [pre p q] on read programs ("whatever the storage answers, p issues the
   instructions q issues, in the same order, until p ends"), over the answers a store of at most
   N pairs can give (as Proofs/ScanIOFuel.v's [wp], whose measure [muf] shows that the unlimited
   drain loop does not run out of fuel before the limited one ends); [pre] is sound for [run]:
   the log of q extends the log of p.  FinalLimitPlan.Next pulls its child exactly like the
   caller's Next loop (skip phase: one child.Next per skipped row; window: one child.Next per
   returned row) and stops pulling once the window is full. *)
From Coq Require Import List String Bool Arith Lia.
Import ListNotations.
From KV Require Import Base.Bytes Model.Storage Model.ScanIO Proofs.StorageProofs Proofs.ScanIOProofs
                       Proofs.ScanIOFuel.

Set Implicit Arguments.
Local Open Scope list_scope.
Local Open Scope nat_scope.

Section Pre.
Variable N : nat.

Fixpoint pre (A C : Type) (p : rprog A) (q : rprog C) : Prop :=
  match p with
  | Ret _ => True
  | Fail _ => True
  | Op qi k => exists k', q = Op qi k' /\
                 forall d, List.length d <= N -> pre (k (ranswer qi d)) (k' (ranswer qi d))
  end.

Lemma pre_bind_wp : forall (A C D : Type) (p : rprog A) (Q : A -> Prop)
                           (f : A -> rprog C) (g : A -> rprog D),
  wp N p Q -> (forall a, Q a -> pre (f a) (g a)) -> pre (bind p f) (bind p g).
Proof.
  induction p as [a|e|R q k IH]; intros Q f g Hw Hf; cbn [bind wp pre] in *.
  - apply Hf. exact Hw.
  - exact I.
  - exists (fun r => bind (k r) g). split; [reflexivity|]. intros d Hd.
    eapply IH; [apply Hw; exact Hd|exact Hf].
Qed.

Lemma pre_bind_wp_r : forall (A C D E : Type) (p : rprog A) (Q : A -> Prop)
                             (f : A -> rprog C) (g : A -> rprog D) (h : D -> rprog E),
  wp N p Q -> (forall a, Q a -> pre (f a) (bind (g a) h)) -> pre (bind p f) (bind (bind p g) h).
Proof.
  induction p as [a|e|R q k IH]; intros Q f g h Hw Hf; cbn [bind wp pre] in *.
  - apply Hf. exact Hw.
  - exact I.
  - exists (fun r => bind (bind (k r) g) h). split; [reflexivity|]. intros d Hd.
    eapply IH; [apply Hw; exact Hd|exact Hf].
Qed.

Lemma pre_assoc_l : forall (A C D E : Type) (p : rprog A) (f : A -> rprog C) (g : C -> rprog D)
                           (q : rprog E),
  pre (bind p (fun a => bind (f a) g)) q -> pre (bind (bind p f) g) q.
Proof.
  induction p as [a|e|R qi k IH]; intros f g q H; cbn [bind pre] in *.
  - exact H.
  - exact I.
  - destruct H as (k' & -> & Hk). exists k'. split; [reflexivity|]. intros d Hd.
    apply IH. apply Hk. exact Hd.
Qed.

(* soundness: from a store of at most N pairs, the log of q extends the log of p *)
Lemma pre_sound : forall (A C : Type) (p : rprog A) (q : rprog C) (s : sstate),
  List.length (sdata s) <= N -> pre p q ->
  exists l, slog (snd (run exec_req (rd q) s)) = slog (snd (run exec_req (rd p) s)) ++ l.
Proof.
  unfold rd. induction p as [a|e|R qi k IH]; intros q s Hs H; cbn [pre] in H.
  - cbn [lift run snd]. apply run_log_ext.
  - cbn [lift run snd]. apply run_log_ext.
  - destruct H as (k' & -> & Hk). cbn [lift run]. rewrite exec_req_spec.
    destruct (faulted s).
    + exists []. rewrite app_nil_r. reflexivity.
    + cbn [answer effect]. apply IH; [cbn [sdata]; exact Hs|apply Hk; exact Hs].
Qed.

(* ------------------------------------------------------------------ FinalLimitPlan over fp, row mode *)

Variable remember_end : bool.
Variable flt : kvp -> bool.
Variable gkey : kvp -> bytes.
Variable B : nat.
Variable fuel : nat.
Variable fp : fplan.                   (* the child of the FinalLimitPlan = the unlimited statement *)
Variables start count : nat.

Lemma child_next_wp : forall st, muf fp st < fuel ->
  wp N (f_next remember_end flt gkey fuel fp st)
       (fun x => muf fp (snd x) + opt1 (fst x) <= muf fp st).
Proof. intros st H. apply (@f_next_spec N remember_end flt gkey 1 fuel (le_n 1) fp st H). Qed.

(* the skip phase against the caller's loop over the child *)
Lemma skip_pre : forall (C : Type) (K : bool * nat * fstate -> rprog C) g sk cs f' sizes,
  muf fp cs < g -> g <= fuel -> muf fp cs < f' -> f' <= fuel ->
  (forall sk' cs' (q : rprog (list nat)), pre (K (false, sk', cs')) q) ->
  (forall sk' cs' f'' sizes', muf fp cs' < f'' -> f'' <= fuel ->
     pre (K (true, sk', cs')) (drain remember_end flt gkey B fuel f'' RowMode fp cs' sizes')) ->
  pre (bind (limit_skip_rows (f_next remember_end flt gkey fuel fp) g start sk cs) K)
      (drain remember_end flt gkey B fuel f' RowMode fp cs sizes).
Proof.
  intros C K. induction g as [|g IH]; intros sk cs f' sizes Hg Hgf Hf Hff Hfalse Htrue; [lia|].
  cbn [limit_skip_rows]. destruct (sk <? start).
  - destruct f' as [|f']; [lia|]. cbn [drain].
    apply pre_assoc_l. eapply pre_bind_wp; [apply child_next_wp; lia|].
    intros [r cs'] Hx. cbn [fst snd] in Hx. destruct r as [x|]; cbn [opt1] in Hx; cbn beta iota.
    + apply IH; try lia; assumption.
    + cbn [bind]. apply Hfalse.
  - cbn [bind]. apply Htrue; assumption.
Qed.

Lemma ldrain_pre : forall f sk cur cs sizes f' sizes',
  muf fp cs < f' -> f' <= fuel ->
  pre (drain remember_end flt gkey B fuel f RowMode (FLimit start count fp) (FSLimit sk cur cs) sizes)
      (drain remember_end flt gkey B fuel f' RowMode fp cs sizes').
Proof.
  induction f as [|f IH]; intros sk cur cs sizes f' sizes' Hf Hff; cbn [drain]; [exact I|].
  cbn [f_next]. unfold limit_next. apply pre_assoc_l. apply pre_assoc_l.
  eapply skip_pre with (g := fuel); try lia.
  - intros sk' cs' q. cbn [negb bind pre]. exact I.
  - intros sk' cs' f'' sizes'' H1 H2. cbn beta iota. cbn [negb].
    destruct (count <=? cur); [cbn [bind pre]; exact I|].
    apply pre_assoc_l. destruct f'' as [|f'']; [lia|]. cbn [drain].
    eapply pre_bind_wp; [apply child_next_wp; lia|].
    intros [r cs''] Hx. cbn [fst snd] in Hx. destruct r as [x|]; cbn [opt1] in Hx; cbn [bind pre].
    + apply IH; lia.
    + exact I.
Qed.

Lemma select_limit_pre :
  bound_fplan N fp < fuel ->
  pre (select_prog remember_end flt gkey B fuel RowMode (FLimit start count fp))
      (select_prog remember_end flt gkey B fuel RowMode fp).
Proof.
  intros Hb. unfold select_prog, select_build. cbn [fstate0 f_init].
  apply pre_assoc_l. apply pre_assoc_l.
  eapply pre_bind_wp_r; [apply (@f_init_spec N 1 (le_n 1))|].
  intros st1 _. cbn [bind f_init]. apply pre_assoc_l.
  eapply pre_bind_wp; [apply (@f_init_spec N 1 (le_n 1))|].
  intros st2 H2. cbn beta in H2. cbn [bind]. apply ldrain_pre; lia.
Qed.

End Pre.

(* ------------------------------------------------------------------ the statement level *)

(* limit_calls_prefix_row: every SELECT shape, every storage state (a fault index included) *)
Theorem limit_calls_prefix_row_lemma :
  forall (remember_end : bool) (flt : kvp -> bool) (gkey : kvp -> bytes) (B fuel : nat)
         (start count : nat) (fp : fplan) (st : sstate),
  List.length (sdata st) + fplan_keys fp < fuel ->
  exists l,
    slog (snd (ScanIO.run_stmt remember_end flt gkey B fuel RowMode (StSelect fp) st))
    = slog (snd (ScanIO.run_stmt remember_end flt gkey B fuel RowMode (StSelect (FLimit start count fp)) st)) ++ l.
Proof.
  intros remember_end flt gkey B fuel start count fp st Hf.
  unfold ScanIO.run_stmt. cbn [stmt_prog].
  apply (@pre_sound (List.length (sdata st))); [lia|].
  apply select_limit_pre.
  pose proof (bound_fplan_le (List.length (sdata st)) fp). lia.
Qed.

(* consequence: every call of the limited run is, at the same index, a call of the unlimited run
   (so the limited run reads no key the unlimited run does not read, and a fault index that is
   reached by the limited run is reached by the unlimited run at the same call) *)
Corollary limit_calls_same_index_lemma :
  forall (remember_end : bool) (flt : kvp -> bool) (gkey : kvp -> bytes) (B fuel : nat)
         (start count : nat) (fp : fplan) (st : sstate) (i : nat) (c : scall),
  List.length (sdata st) + fplan_keys fp < fuel ->
  nth_error (slog (snd (ScanIO.run_stmt remember_end flt gkey B fuel RowMode (StSelect (FLimit start count fp)) st))) i = Some c ->
  nth_error (slog (snd (ScanIO.run_stmt remember_end flt gkey B fuel RowMode (StSelect fp) st))) i = Some c.
Proof.
  intros remember_end flt gkey B fuel start count fp st i c Hf Hn.
  destruct (limit_calls_prefix_row_lemma remember_end flt gkey B start count fp st Hf) as [l ->].
  rewrite nth_error_app1; [exact Hn|]. apply nth_error_Some. congruence.
Qed.
